(* C07 — proofs: a small Hoare logic for the store monad, instantiated twice:
   (1) separation: everything below (nB, nT) is never written, trial-owned tables only
       reference trial-owned buffers;
   (2) scrambling frame: only the bindings of the documented fields of one table change. *)
From Coq Require Import ZArith List Bool Lia PeanoNat.
From Sky Require Import Result G_alias M_Alias S_Alias.
Import ListNotations.
Open Scope Z_scope.

(* ---------------------------------------------------------------- kernels *)
Lemma K_ura_lo_below : forall r m, ura_lo_below r m = (r <? m).
Proof. reflexivity. Qed.
Lemma K_ura_hi_outside : forall r m, ura_hi_outside r m = (m <=? r).
Proof. intros r m. unfold ura_hi_outside. apply Z.geb_leb. Qed.
Lemma K_ura_clip : forall x lo hi, ura_clip x lo hi = Z.min (Z.max x lo) hi.
Proof. reflexivity. Qed.
Lemma K_al_af_len_bad : forall n m, al_af_len_bad n m = negb (m =? n).
Proof. reflexivity. Qed.
Lemma K_al_si_len_bad : forall n m, al_si_len_bad n m = negb (m =? n).
Proof. reflexivity. Qed.
Lemma K_seas_mask : forall start stop t, seas_mask start stop t t = ((start <=? t) && (t <? stop)).
Proof. intros. unfold seas_mask. rewrite Z.geb_leb. reflexivity. Qed.
Lemma K_seas_n_events : forall n, seas_n_events n = n.
Proof. reflexivity. Qed.
Lemma K_i3t_ra_store : forall x, i3t_ra_store x = x.
Proof. reflexivity. Qed.
Lemma K_seas_ra_store : forall x, seas_ra_store x = x.
Proof. reflexivity. Qed.
Lemma K_ct_radec_store : forall x, ct_radec_store x = x.
Proof. reflexivity. Qed.
Lemma K_al_append_new_len : forall n m, al_append_new_len n m = n + m.
Proof. reflexivity. Qed.

(* ---------------------------------------------------------------- lists *)
Lemma upd_length {A} (l : list A) n v : length (upd l n v) = length l.
Proof. revert n; induction l as [|a l IH]; intros [|n]; cbn; auto. Qed.

Lemma nth_error_upd_other {A} (l : list A) n m v :
  n <> m -> nth_error (upd l n v) m = nth_error l m.
Proof.
  revert n m; induction l as [|a l IH]; intros [|n] [|m] Hne; cbn; auto; try congruence.
Qed.

Lemma nth_error_upd_inv {A} (l : list A) n m v x :
  nth_error (upd l n v) m = Some x -> (m = n /\ x = v) \/ nth_error l m = Some x.
Proof.
  destruct (Nat.eq_dec n m) as [->|Hne].
  - revert m; induction l as [|a l IH]; intros [|m]; cbn; intros E; try discriminate.
    + inversion E; auto.
    + destruct (IH m E) as [[_ ->]|E']; auto.
  - rewrite nth_error_upd_other by exact Hne. auto.
Qed.

Lemma firstn_upd {A} (l : list A) n k v : (n <= k)%nat -> firstn n (upd l k v) = firstn n l.
Proof.
  revert n k; induction l as [|a l IH]; intros [|n] [|k] Hle; cbn; auto; try lia.
  f_equal. apply IH. lia.
Qed.

Lemma firstn_app_le {A} (l r : list A) n : (n <= length l)%nat -> firstn n (l ++ r) = firstn n l.
Proof.
  intros Hle. rewrite firstn_app. replace (n - length l)%nat with 0%nat by lia.
  cbn. apply app_nil_r.
Qed.

Lemma firstn_nth_error {A} (l l' : list A) n i :
  firstn n l' = firstn n l -> (i < n)%nat -> nth_error l' i = nth_error l i.
Proof.
  revert l l' i; induction n as [|n IH]; intros l l' i E Hi; [lia|].
  destruct l as [|a l], l' as [|a' l']; cbn in E; try discriminate; auto.
  inversion E; subst. destruct i; cbn; [reflexivity | apply IH; [assumption | lia]].
Qed.

Lemma nth_error_Some_lt {A} (l : list A) n x : nth_error l n = Some x -> (n < length l)%nat.
Proof. intros E. apply nth_error_Some. congruence. Qed.

Lemma nth_error_snoc {A} (l : list A) v : nth_error (l ++ [v]) (length l) = Some v.
Proof. rewrite nth_error_app2 by lia. rewrite Nat.sub_diag. reflexivity. Qed.

Lemma valid_fields_mono s s' fs :
  (length (sb s) <= length (sb s'))%nat -> valid_fields s fs = true -> valid_fields s' fs = true.
Proof.
  unfold valid_fields. intros Hl H. rewrite forallb_forall in *. intros p Hp.
  specialize (H p Hp). apply Nat.ltb_lt in H. apply Nat.ltb_lt. lia.
Qed.

Lemma Forall_upd {A} (P : A -> Prop) l n v : Forall P l -> P v -> Forall P (upd l n v).
Proof.
  intros HF Hv; revert n; induction HF; intros [|n]; cbn; constructor; auto.
Qed.

(* ---------------------------------------------------------------- generic Hoare logic *)
Section HL.
  Variable G : store -> Prop.
  Variable R : store -> store -> Prop.
  Hypothesis R_refl : forall s, R s s.
  Hypothesis R_trans : forall a b c, R a b -> R b c -> R a c.

  Definition hoare {A} (m : M A) (Q : A -> Prop) : Prop :=
    forall s, G s -> G (fst (m s)) /\ R s (fst (m s)) /\ forall a, snd (m s) = Ok a -> Q a.

  Lemma h_ret A (a : A) (Q : A -> Prop) : Q a -> hoare (ret a) Q.
  Proof. intros Ha s Gs; cbn. repeat split; auto. intros b E; inversion E; subst; auto. Qed.

  Lemma h_raise A e (Q : A -> Prop) : hoare (@raise A e) Q.
  Proof. intros s Gs; cbn. repeat split; auto. intros b E; discriminate. Qed.

  Lemma h_lift A (r : res A) (Q : A -> Prop) : (forall a, r = Ok a -> Q a) -> hoare (lift r) Q.
  Proof. intros Hr s Gs; cbn. repeat split; auto. Qed.

  Lemma h_bind A B (m : M A) (f : A -> M B) (Q : A -> Prop) (Q' : B -> Prop) :
    hoare m Q -> (forall a, Q a -> hoare (f a) Q') -> hoare (mbind m f) Q'.
  Proof.
    intros Hm Hf s Gs. unfold mbind.
    destruct (Hm s Gs) as (G1 & R1 & Q1).
    destruct (m s) as [s1 [a|e]] eqn:E; cbn [fst snd] in *.
    - destruct (Hf a (Q1 a eq_refl) s1 G1) as (G2 & R2 & Q2).
      split; [exact G2|]. split; [eapply R_trans; eauto | exact Q2].
    - split; [exact G1|]. split; [exact R1|]. intros a Ha; discriminate.
  Qed.

  Lemma h_weaken A (m : M A) (Q Q' : A -> Prop) :
    hoare m Q -> (forall a, Q a -> Q' a) -> hoare m Q'.
  Proof. intros Hm HQ s Gs. destruct (Hm s Gs) as (G1 & R1 & Q1). repeat split; auto. Qed.

  Lemma h_mapMM A B (f : A -> M B) (Q : B -> Prop) l :
    (forall a, In a l -> hoare (f a) Q) -> hoare (mapMM f l) (Forall Q).
  Proof.
    induction l as [|a l IH]; intros Hf; cbn [mapMM].
    - apply h_ret. constructor.
    - eapply h_bind; [apply Hf; left; reflexivity|]. intros b Qb.
      eapply h_bind; [apply IH; intros a' Ha'; apply Hf; right; exact Ha'|]. intros bs Qbs.
      apply h_ret. constructor; auto.
  Qed.
End HL.

(* ================================================================ (1) separation *)
Section Sep.
  Variables nB nT : nat.

  Definition ownf (fs : list (fid * bloc)) : Prop := Forall (fun p => (nB <= snd p)%nat) fs.
  Definition own (x : table) : Prop := ownf (tf x).

  Definition good (s : store) : Prop :=
    (nB <= length (sb s))%nat /\ (nT <= length (st s))%nat /\
    (forall t x, (nT <= t)%nat -> nth_error (st s) t = Some x -> own x) /\
    (forall t x, (nT <= t)%nat -> nth_error (st s) t = Some x -> valid_fields s (tf x) = true).

  Definition frame (s s' : store) : Prop :=
    firstn nB (sb s') = firstn nB (sb s) /\ firstn nT (st s') = firstn nT (st s).

  Lemma frame_refl s : frame s s.
  Proof. split; reflexivity. Qed.
  Lemma frame_trans a b c : frame a b -> frame b c -> frame a c.
  Proof. intros [A1 A2] [B1 B2]; split; congruence. Qed.

  Definition HS {A} (m : M A) (Q : A -> Prop) : Prop := hoare good frame m Q.

  Lemma hret A (a : A) (Q : A -> Prop) : Q a -> HS (ret a) Q.
  Proof. apply h_ret. exact frame_refl. Qed.
  Lemma hraise A e (Q : A -> Prop) : HS (@raise A e) Q.
  Proof. apply h_raise. exact frame_refl. Qed.
  Lemma hlift A (r : res A) (Q : A -> Prop) : (forall a, r = Ok a -> Q a) -> HS (lift r) Q.
  Proof. apply h_lift. exact frame_refl. Qed.
  Lemma hb A B (m : M A) (f : A -> M B) (Q : A -> Prop) (Q' : B -> Prop) :
    HS m Q -> (forall a, Q a -> HS (f a) Q') -> HS (mbind m f) Q'.
  Proof. apply h_bind. exact frame_trans. Qed.
  Lemma hmap A B (f : A -> M B) (Q : B -> Prop) l :
    (forall a, In a l -> HS (f a) Q) -> HS (mapMM f l) (Forall Q).
  Proof. apply h_mapMM; [exact frame_refl | exact frame_trans]. Qed.
  Lemma hweak A (m : M A) (Q Q' : A -> Prop) : HS m Q -> (forall a, Q a -> Q' a) -> HS m Q'.
  Proof. apply h_weaken. Qed.

  (* primitives *)
  Lemma H_alloc v : HS (alloc v) (fun b => (nB <= b)%nat).
  Proof.
    intros s (g1 & g2 & g3 & g4). unfold alloc, good, frame; cbn [fst snd sb st].
    split; [|split].
    - split; [rewrite app_length; lia|]. split; [exact g2|]. split; [exact g3|].
      intros t x Ht E. eapply valid_fields_mono; [|apply (g4 t x Ht E)]. cbn [sb]. rewrite app_length; lia.
    - split; [apply firstn_app_le; lia | reflexivity].
    - intros a E; inversion E; lia.
  Qed.

  Lemma H_newtab x : own x -> HS (newtab x) (fun t => (nT <= t)%nat).
  Proof.
    intros Hx s (g1 & g2 & g3 & g4). unfold newtab.
    destruct (valid_fields s (tf x)) eqn:V; cbn [fst snd];
      [|split; [repeat split; assumption | split; [apply frame_refl | intros a E; discriminate]]].
    unfold good, frame; cbn [fst snd sb st].
    split; [|split].
    - split; [exact g1|]. split; [rewrite app_length; lia|]. split.
      + intros t y Ht E.
        destruct (Nat.lt_ge_cases t (length (st s))) as [Hlt|Hge].
        * rewrite nth_error_app1 in E by exact Hlt. eauto.
        * rewrite nth_error_app2 in E by exact Hge.
          destruct (t - length (st s))%nat as [|k]; cbn in E.
          -- inversion E; subst; exact Hx.
          -- destruct k; discriminate.
      + intros t y Ht E.
        destruct (Nat.lt_ge_cases t (length (st s))) as [Hlt|Hge].
        * rewrite nth_error_app1 in E by exact Hlt. exact (g4 t y Ht E).
        * rewrite nth_error_app2 in E by exact Hge.
          destruct (t - length (st s))%nat as [|k]; cbn in E.
          -- inversion E; subst; exact V.
          -- destruct k; discriminate.
    - split; [reflexivity | apply firstn_app_le; lia].
    - intros a E; inversion E; lia.
  Qed.

  Lemma H_rdbuf b : HS (rdbuf b) (fun _ => True).
  Proof.
    intros s Gs. unfold rdbuf. destruct (nth_error (sb s) b); cbn [fst snd];
      (split; [exact Gs | split; [apply frame_refl | auto]]).
  Qed.

  Lemma H_rdtab t : HS (rdtab t) (fun x => (nT <= t)%nat -> own x).
  Proof.
    intros s Gs. unfold rdtab. destruct (nth_error (st s) t) eqn:E; cbn [fst snd];
      (split; [exact Gs | split; [apply frame_refl |]]).
    - intros a Ea Ht; inversion Ea; subst. destruct Gs as (_ & _ & g3 & _). eauto.
    - intros a Ea; discriminate.
  Qed.

  Lemma H_wrbuf b v : (nB <= b)%nat -> HS (wrbuf b v) (fun _ => True).
  Proof.
    intros Hb s (g1 & g2 & g3 & g4). unfold wrbuf, good, frame; cbn [fst snd sb st].
    split; [|split; [|auto]].
    - split; [rewrite upd_length; exact g1|]. split; [exact g2|]. split; [exact g3|].
      intros t x Ht E. eapply valid_fields_mono; [|apply (g4 t x Ht E)]. cbn [sb]. rewrite upd_length; lia.
    - split; [apply firstn_upd; exact Hb | reflexivity].
  Qed.

  Lemma H_wrtab t x : (nT <= t)%nat -> own x -> HS (wrtab t x) (fun _ => True).
  Proof.
    intros Ht Hx s (g1 & g2 & g3 & g4). unfold wrtab.
    destruct (valid_fields s (tf x)) eqn:V; cbn [fst snd];
      [|split; [repeat split; assumption | split; [apply frame_refl | auto]]].
    unfold good, frame; cbn [fst snd sb st].
    split; [|split; [|auto]].
    - split; [exact g1|]. split; [rewrite upd_length; exact g2|]. split.
      + intros u y Hu E. apply nth_error_upd_inv in E. destruct E as [[_ ->]|E]; eauto.
      + intros u y Hu E. apply nth_error_upd_inv in E. destruct E as [[_ ->]|E]; [exact V | exact (g4 u y Hu E)].
    - split; [reflexivity | apply firstn_upd; exact Ht].
  Qed.

  (* field maps *)
  Lemma lookup_own fs f b : ownf fs -> lookup f fs = Some b -> (nB <= b)%nat.
  Proof.
    induction 1 as [|[g c] r Hc Hr IH]; cbn; [discriminate|].
    destruct (Nat.eqb g f); intros E; [inversion E; subst; exact Hc | auto].
  Qed.
  Lemma rebind_own fs f b : ownf fs -> (nB <= b)%nat -> ownf (rebind f b fs).
  Proof.
    intros HF Hb; induction HF as [|[g c] r Hc Hr IH]; cbn; [constructor|].
    destruct (Nat.eqb g f); constructor; auto.
  Qed.
  Lemma filter_own fs p : ownf fs -> ownf (filter p fs).
  Proof.
    intros HF; induction HF as [|a r Ha Hr IH]; cbn; [constructor|].
    destruct (p a); [constructor|]; auto.
  Qed.

  (* DataFieldRecordArray operations *)
  Lemma H_getitem t f : HS (t_getitem t f) (fun b => (nT <= t)%nat -> (nB <= b)%nat).
  Proof.
    unfold t_getitem. eapply hb; [apply H_rdtab|]. intros x Hx; cbv beta.
    destruct (lookup f (tf x)) eqn:E; [|apply hraise].
    apply hret. intros Ht. eapply lookup_own; eauto. apply Hx; exact Ht.
  Qed.

  Lemma H_setitem t f b : (nT <= t)%nat -> (nB <= b)%nat -> HS (t_setitem t f b) (fun _ => True).
  Proof.
    intros Ht Hb. unfold t_setitem. eapply hb; [apply H_rdtab|]. intros x Hx; cbv beta.
    specialize (Hx Ht).
    eapply hb; [apply H_rdbuf|]. intros v _; cbv beta.
    destruct (lookup f (tf x)).
    - destruct (al_si_len_bad _ _); [apply hraise|]. apply H_wrtab; [exact Ht|].
      unfold own; cbn [tf]. apply rebind_own; assumption.
    - destruct (al_af_len_bad _ _); [apply hraise|]. apply H_wrtab; [exact Ht|].
      unfold own; cbn [tf]. apply Forall_app; split; [exact Hx|]. constructor; [exact Hb | constructor].
  Qed.

  Lemma H_new fs : ownf fs -> HS (t_new fs) (fun t => (nT <= t)%nat).
  Proof.
    intros Hfs. unfold t_new.
    eapply hb; [apply hmap with (Q := fun _ => True)|].
    - intros p _. eapply hb; [apply H_rdbuf|]. intros v _. apply hret; exact I.
    - intros ls _; cbv beta. destruct ls as [|n r].
      + apply H_newtab. constructor.
      + destruct (forallb _ _); [apply H_newtab; exact Hfs | apply hraise].
  Qed.

  Lemma H_copy t keep : HS (t_copy t keep) (fun t' => (nT <= t')%nat).
  Proof.
    unfold t_copy. eapply hb; [apply H_rdtab|]. intros x _; cbv beta zeta.
    eapply hb; [apply hmap with (Q := fun p => (nB <= snd p)%nat)|].
    - intros p _. eapply hb; [apply H_rdbuf|]. intros v _; cbv beta.
      eapply hb; [apply hlift with (Q := fun _ => True); auto|]. intros v' _.
      eapply hb; [apply H_alloc|]. intros b Hb. apply hret; exact Hb.
    - intros fs Hfs; cbv beta. apply H_newtab. exact Hfs.
  Qed.

  Lemma H_select t s : HS (t_select t s) (fun t' => (nT <= t')%nat).
  Proof.
    unfold t_select. eapply hb; [apply H_rdtab|]. intros x _; cbv beta.
    eapply hb; [apply hmap with (Q := fun p => (nB <= snd p)%nat)|].
    - intros p _. eapply hb; [apply H_rdbuf|]. intros v _; cbv beta.
      eapply hb; [apply hlift with (Q := fun _ => True); auto|]. intros ps _.
      eapply hb; [apply hlift with (Q := fun _ => True); auto|]. intros v' _.
      eapply hb; [apply H_alloc|]. intros b Hb. apply hret; exact Hb.
    - intros fs Hfs; cbv beta. apply H_new. exact Hfs.
  Qed.

  Lemma H_set_loop fs s src : ownf fs -> HS (set_loop fs s src) (fun _ => True).
  Proof.
    induction 1 as [|[f b] r Hb Hr IH]; cbn [set_loop]; [apply hret; exact I|].
    eapply hb; [apply H_rdbuf|]. intros v _.
    eapply hb; [apply H_getitem|]. intros bs _.
    eapply hb; [apply H_rdbuf|]. intros vs _.
    eapply hb; [apply hlift with (Q := fun _ => True); auto|]. intros v' _.
    eapply hb; [apply H_wrbuf; exact Hb|]. intros _ _. exact IH.
  Qed.

  Lemma H_set_selection t s src : (nT <= t)%nat -> HS (t_set_selection t s src) (fun _ => True).
  Proof.
    intros Ht. unfold t_set_selection. eapply hb; [apply H_rdtab|]. intros x Hx.
    eapply hb; [apply H_rdtab|]. intros y _; cbv beta.
    destruct (forallb _ _); [|apply hraise]. apply H_set_loop. apply Hx; exact Ht.
  Qed.

  Lemma H_append t src : (nT <= t)%nat -> HS (t_append t src) (fun _ => True).
  Proof.
    intros Ht. unfold t_append. eapply hb; [apply H_rdtab|]. intros x _.
    eapply hb; [apply H_rdtab|]. intros y _; cbv beta.
    destruct (forallb _ _); [|apply hraise].
    eapply hb; [apply hmap with (Q := fun p => (nB <= snd p)%nat)|].
    - intros p _. eapply hb; [apply H_rdbuf|]. intros v _.
      eapply hb; [apply H_getitem|]. intros bs _.
      eapply hb; [apply H_rdbuf|]. intros vs _.
      eapply hb; [apply H_alloc|]. intros b Hb. apply hret; exact Hb.
    - intros fs Hfs; cbv beta. apply H_wrtab; [exact Ht | exact Hfs].
  Qed.

  Lemma H_sort_loop t fs perm : (nT <= t)%nat -> HS (sort_loop t fs perm) (fun _ => True).
  Proof.
    intros Ht. induction fs as [|[f b] r IH]; cbn [sort_loop]; [apply hret; exact I|].
    eapply hb; [apply H_rdbuf|]. intros v _.
    eapply hb; [apply hlift with (Q := fun _ => True); auto|]. intros ps _.
    eapply hb; [apply hlift with (Q := fun _ => True); auto|]. intros v' _.
    eapply hb; [apply H_alloc|]. intros b' Hb'.
    eapply hb; [apply H_rdtab|]. intros x Hx.
    eapply hb; [apply H_wrtab; [exact Ht|]|].
    - unfold own; cbn [tf]. apply rebind_own; [apply Hx; exact Ht | exact Hb'].
    - intros _ _. exact IH.
  Qed.

  Lemma H_sort t f perm : (nT <= t)%nat -> HS (t_sort t f perm) (fun _ => True).
  Proof.
    intros Ht. unfold t_sort. eapply hb; [apply H_rdtab|]. intros x _; cbv beta.
    destruct (lookup f (tf x)); [apply H_sort_loop; exact Ht | apply hraise].
  Qed.

  Lemma H_tidy t keep : (nT <= t)%nat -> HS (t_tidy t keep) (fun _ => True).
  Proof.
    intros Ht. unfold t_tidy. eapply hb; [apply H_rdtab|]. intros x Hx; cbv beta.
    apply H_wrtab; [exact Ht|]. unfold own; cbn [tf]. apply filter_own. apply Hx; exact Ht.
  Qed.

  (* scrambling *)
  Lemma H_scramble m t : (nT <= t)%nat -> HS (scramble m t) (fun _ => True).
  Proof.
    intros Ht. destruct m as [|k lo hi draws|times ras|times ras|times ras decs]; cbn [scramble].
    - apply hret; exact I.
    - eapply hb; [apply H_getitem|]. intros _ _.
      eapply hb; [apply H_alloc|]. intros b Hb. apply H_setitem; assumption.
    - eapply hb; [apply H_alloc|]. intros bt Hbt.
      eapply hb; [apply H_setitem; assumption|]. intros _ _.
      eapply hb; [apply H_getitem|]. intros _ _.
      eapply hb; [apply H_alloc|]. intros br Hbr. apply H_setitem; assumption.
    - eapply hb; [apply H_getitem|]. intros _ _.
      eapply hb; [apply H_alloc|]. intros bt Hbt.
      eapply hb; [apply H_setitem; assumption|]. intros _ _.
      eapply hb; [apply H_getitem|]. intros _ _.
      eapply hb; [apply H_alloc|]. intros br Hbr. apply H_setitem; assumption.
    - eapply hb; [apply H_alloc|]. intros bt Hbt.
      eapply hb; [apply H_setitem; assumption|]. intros _ _.
      eapply hb; [apply H_getitem|]. intros _ _.
      eapply hb; [apply H_getitem|]. intros _ _.
      eapply hb; [apply H_alloc|]. intros br Hbr.
      eapply hb; [apply H_alloc|]. intros bd Hbd.
      eapply hb; [apply H_setitem; assumption|]. intros _ _.
      apply H_setitem; assumption.
  Qed.

  Lemma H_scramble_data m t copy :
    (copy = true \/ (nT <= t)%nat) -> HS (scramble_data m t copy) (fun t' => (nT <= t')%nat).
  Proof.
    intros Hc. unfold scramble_data.
    eapply hb with (Q := fun t' => (nT <= t')%nat).
    - destruct copy; [apply H_copy|]. apply hret. destruct Hc as [Hc|Hc]; [discriminate | exact Hc].
    - intros t' Ht'. eapply hb; [apply H_scramble; exact Ht'|]. intros _ _. apply hret; exact Ht'.
  Qed.

  (* signal generation *)
  Lemma H_post_process t ps : (nT <= t)%nat -> HS (post_process t ps) (fun _ => True).
  Proof.
    intros Ht. induction ps as [|[m [[ra dec] sd]] r IH]; cbn [post_process]; [apply hret; exact I|].
    eapply hb; [apply H_select|]. intros sub Hsub.
    eapply hb; [apply H_getitem|]. intros _ _.
    eapply hb; [apply H_getitem|]. intros _ _.
    eapply hb; [apply H_alloc|]. intros b1 Hb1.
    eapply hb; [apply H_setitem; assumption|]. intros _ _.
    eapply hb; [apply H_alloc|]. intros b2 Hb2.
    eapply hb; [apply H_setitem; assumption|]. intros _ _.
    eapply hb; [apply H_alloc|]. intros b3 Hb3.
    eapply hb; [apply H_setitem; assumption|]. intros _ _.
    eapply hb; [apply H_set_selection; exact Ht|]. intros _ _. exact IH.
  Qed.

  Definition oown (o : option tloc) : Prop := match o with Some t => (nT <= t)%nat | None => True end.

  Lemma H_redraw mc rs : forall acc, oown acc -> HS (redraw_rounds mc acc rs) oown.
  Proof.
    induction rs as [|[idx [ps valid]] r IH]; intros acc Hacc; cbn [redraw_rounds].
    - apply hret; exact Hacc.
    - eapply hb; [apply H_select|]. intros ev Hev.
      eapply hb; [apply H_rdtab|]. intros lenx _; cbv beta.
      destruct (0 <? tlen lenx); [|apply IH; exact Hacc].
      eapply hb; [apply H_post_process; exact Hev|]. intros _ _.
      eapply hb; [apply H_select|]. intros ev' Hev'.
      eapply hb; [apply H_rdtab|]. intros x' _; cbv beta.
      destruct (0 <? tlen x'); [|apply IH; exact Hacc].
      destruct acc as [a|].
      + eapply hb; [apply H_append; exact Hacc|]. intros _ _. apply IH; exact Hacc.
      + apply IH. exact Hev'.
  Qed.

  Lemma H_sig_groups mc sig gs : (nT <= sig)%nat -> forall start, HS (sig_groups mc sig start gs) (fun _ => True).
  Proof.
    intros Hsig. induction gs as [|g r IH]; intros start; cbn [sig_groups]; [apply hret; exact I|].
    eapply hb; [apply H_select|]. intros s Hs.
    eapply hb; [apply H_post_process; exact Hs|]. intros _ _.
    eapply hb with (Q := fun _ => True).
    - destruct (existsb _ _); [|apply hret; exact I].
      eapply hb; [apply H_redraw; exact I|]. intros red Hred; cbv beta.
      destruct red as [rt|]; [apply H_set_selection; exact Hs | apply hraise].
    - intros _ _; cbv zeta.
      eapply hb; [apply H_set_selection; exact Hsig|]. intros _ _. apply IH.
  Qed.

  Lemma H_gen_signal mc n fill gs : HS (gen_signal mc n fill gs) (fun t => (nT <= t)%nat).
  Proof.
    unfold gen_signal. eapply hb; [apply H_rdtab|]. intros x _.
    eapply hb; [apply hmap with (Q := fun p => (nB <= snd p)%nat)|].
    - intros p _. eapply hb; [apply H_alloc|]. intros b Hb. apply hret; exact Hb.
    - intros fs Hfs; cbv beta.
      eapply hb; [apply H_new; exact Hfs|]. intros sig Hsig.
      eapply hb; [apply H_sig_groups; exact Hsig|]. intros _ _. apply hret; exact Hsig.
  Qed.

  (* trial initialisation *)
  Lemma H_set_field t nv : (nT <= t)%nat -> HS (set_field t nv) (fun _ => True).
  Proof.
    intros Ht. unfold set_field. destruct (snd nv) as [v|g].
    - eapply hb; [apply H_alloc|]. intros b Hb. apply H_setitem; assumption.
    - eapply hb; [apply H_getitem|]. intros b Hb. apply H_setitem; auto.
  Qed.

  Lemma H_set_fields t l : (nT <= t)%nat -> HS (set_fields t l) (fun _ => True).
  Proof.
    intros Ht. induction l as [|nv r IH]; cbn [set_fields]; [apply hret; exact I|].
    eapply hb; [apply H_set_field; exact Ht|]. intros _ _. exact IH.
  Qed.

  Lemma H_init_trial ev p : (nT <= ev)%nat -> HS (init_trial ev p) (fun t => (nT <= t)%nat).
  Proof.
    intros Hev. unfold init_trial.
    eapply hb; [apply H_set_fields; exact Hev|]. intros _ _.
    eapply hb with (Q := fun t => (nT <= t)%nat).
    - destruct (i_sel p); [apply hret; exact Hev | apply hret; exact Hev | apply H_select].
    - intros cur Hcur; cbv beta.
      eapply hb with (Q := fun _ => True).
      + destruct (i_sort p) as [[f perm]|]; [apply H_sort; exact Hcur | apply hret; exact I].
      + intros _ _. eapply hb; [apply H_set_fields; exact Hcur|]. intros _ _. apply hret; exact Hcur.
  Qed.

  Lemma H_presel t ps : (nT <= t)%nat -> HS (presel_apply t ps) (fun t' => (nT <= t')%nat).
  Proof. intros Ht. destruct ps; cbn [presel_apply]; [apply H_select | apply hret; exact Ht]. Qed.

  Lemma H_cons_seasonal_loop e masks : HS (cons_seasonal_loop e masks) (fun _ => True).
  Proof.
    induction masks as [|m r IH]; cbn [cons_seasonal_loop]; [apply hret; exact I|].
    eapply hb; [apply H_getitem|]. intros _ _.
    eapply hb; [apply H_getitem|]. intros _ _.
    eapply hb; [apply H_select|]. intros s _.
    eapply hb; [apply H_rdtab|]. intros x _.
    eapply hb; [exact IH|]. intros ns _. apply hret; exact I.
  Qed.
  Lemma H_cons_seasonal e masks : HS (cons_seasonal e masks) (fun _ => True).
  Proof.
    unfold cons_seasonal. eapply hb; [apply H_getitem|]. intros bt _.
    eapply hb; [apply H_rdbuf|]. intros v _.
    eapply hb; [apply H_cons_seasonal_loop|]. intros ns _. apply hret; exact I.
  Qed.
  Lemma H_cons_sig_candidates mc idx : HS (cons_sig_candidates mc idx) (fun _ => True).
  Proof.
    unfold cons_sig_candidates. eapply hb; [apply H_select|]. intros s _.
    eapply hb; [apply H_getitem|]. intros b _. apply H_rdbuf.
  Qed.

  Lemma H_exp_fields w i : HS (exp_fields w i) (fun _ => True).
  Proof.
    unfold exp_fields. destruct (nth_error (w_exp w) i); [|apply hraise].
    eapply hb; [apply H_rdtab|]. intros x _. apply hret; exact I.
  Qed.

  (* ---------------------------------------------------------------- worlds *)
  Definition roots_ok (l : list (option tloc)) : Prop := Forall oown l.

  Definition Inv (w : world) : Prop :=
    good (w_store w) /\ roots_ok (w_cache w) /\ roots_ok (w_ev w) /\ roots_ok (w_sig w) /\ roots_ok (w_tdm w).

  (* one transition: invariant kept, protected prefix kept, dataset roots kept *)
  Definition Tr (w w' : world) : Prop :=
    Inv w' /\ frame (w_store w) (w_store w') /\ w_exp w' = w_exp w /\ w_mc w' = w_mc w.

  Lemma Tr_refl w : Inv w -> Tr w w.
  Proof. intros Hw; repeat split; auto; apply Hw. Qed.
  Lemma Tr_trans a b c : Tr a b -> Tr b c -> Tr a c.
  Proof.
    intros (I1 & F1 & E1 & M1) (I2 & F2 & E2 & M2). split; [exact I2|].
    split; [eapply frame_trans; eauto|]. split; congruence.
  Qed.

  Lemma getroot_ok l i t : roots_ok l -> getroot l i = Some t -> (nT <= t)%nat.
  Proof.
    unfold getroot, roots_ok. intros HF E. destruct (nth_error l i) as [o|] eqn:En; [|discriminate].
    subst o. apply nth_error_In in En. rewrite Forall_forall in HF. exact (HF _ En).
  Qed.

  Lemma setroot_ok l i o : roots_ok l -> oown o -> roots_ok (setroot l i o).
  Proof. intros; apply Forall_upd; assumption. Qed.

  Lemma on_store_Tr A (w : world) (m : M A) (k : world -> A -> world) (Q : A -> Prop) :
    Inv w -> HS m Q ->
    (forall w' a, Inv w' -> Q a ->
       Inv (k w' a) /\ w_store (k w' a) = w_store w' /\ w_exp (k w' a) = w_exp w' /\ w_mc (k w' a) = w_mc w') ->
    Tr w (fst (on_store w m k)).
  Proof.
    intros (Gw & R1 & R2 & R3 & R4) Hm Hk. unfold on_store.
    destruct (Hm (w_store w) Gw) as (G1 & F1 & Q1).
    destruct (m (w_store w)) as [s' [a|e]] eqn:E; cbn [fst snd] in *.
    - set (w' := mkW s' (w_exp w) (w_mc w) (w_cache w) (w_ev w) (w_sig w) (w_tdm w) (w_ready w)).
      assert (Iw' : Inv w') by (repeat split; auto; apply G1).
      destruct (Hk w' a Iw' (Q1 a eq_refl)) as (Ik & Es & Ee & Em).
      split; [exact Ik|]. rewrite Es, Ee, Em. cbn. repeat split; auto; apply F1.
    - repeat split; auto; try apply G1; apply F1.
  Qed.

  Lemma set_ev_inv w i o : Inv w -> oown o ->
    Inv (set_ev w i o) /\ w_store (set_ev w i o) = w_store w /\ w_exp (set_ev w i o) = w_exp w /\ w_mc (set_ev w i o) = w_mc w.
  Proof.
    intros (Gw & R1 & R2 & R3 & R4) Ho. unfold set_ev; cbn. repeat split; auto; try apply Gw.
    apply setroot_ok; assumption.
  Qed.
  Lemma set_sig_inv w i o : Inv w -> oown o ->
    Inv (set_sig w i o) /\ w_store (set_sig w i o) = w_store w /\ w_exp (set_sig w i o) = w_exp w /\ w_mc (set_sig w i o) = w_mc w.
  Proof.
    intros (Gw & R1 & R2 & R3 & R4) Ho. unfold set_sig; cbn. repeat split; auto; try apply Gw.
    apply setroot_ok; assumption.
  Qed.
  Lemma set_tdm_inv w i o : Inv w -> oown o ->
    Inv (set_tdm w i o) /\ w_store (set_tdm w i o) = w_store w /\ w_exp (set_tdm w i o) = w_exp w /\ w_mc (set_tdm w i o) = w_mc w.
  Proof.
    intros (Gw & R1 & R2 & R3 & R4) Ho. unfold set_tdm; cbn. repeat split; auto; try apply Gw.
    apply setroot_ok; assumption.
  Qed.
  Lemma set_cache_inv w i o : Inv w -> oown o ->
    Inv (set_cache w i o) /\ w_store (set_cache w i o) = w_store w /\ w_exp (set_cache w i o) = w_exp w /\ w_mc (set_cache w i o) = w_mc w.
  Proof.
    intros (Gw & R1 & R2 & R3 & R4) Ho. unfold set_cache; cbn. repeat split; auto; try apply Gw.
    apply setroot_ok; assumption.
  Qed.

  Lemma set_ready_inv w i b : Inv w ->
    Inv (set_ready w i b) /\ w_store (set_ready w i b) = w_store w /\ w_exp (set_ready w i b) = w_exp w /\ w_mc (set_ready w i b) = w_mc w.
  Proof.
    intros (Gw & R1 & R2 & R3 & R4). unfold set_ready; cbn. repeat split; auto; apply Gw.
  Qed.

  Lemma set_ready_Tr w i b : Inv w -> Tr w (set_ready w i b).
  Proof.
    intros Iw. destruct (set_ready_inv w i b Iw) as (I1 & S1 & E1 & M1).
    split; [exact I1|]. rewrite S1, E1, M1. repeat split; auto.
  Qed.

  Lemma step_Tr o w : Inv w -> Tr w (fst (step o w)).
  Proof.
    intros Iw. pose proof Iw as (Gw & R1 & R2 & R3 & R4).
    destruct o as [i m|i cfgf keepmc presel idx m|i cfgf keepmc m comps presel idx|i n fill gs|i|i|i l|i es|i srt l|i l0|i|i|i|i masks|i idx];
      cbn [step].
    - (* GenBkgFixed *)
      destruct (nth_error (w_exp w) i) as [e|]; [|apply Tr_refl; exact Iw].
      eapply on_store_Tr; [exact Iw | apply H_scramble_data; left; reflexivity|].
      intros w' t Iw' Ht. apply set_ev_inv; assumption.
    - (* GenBkgMC *)
      destruct (nth_error (w_mc w) i) as [mc|]; [|apply Tr_refl; exact Iw].
      set (r1 := match getroot (w_cache w) i with Some c => (w, Ok tt) | None => _ end).
      assert (T1 : Tr w (fst r1)).
      { subst r1. destruct (getroot (w_cache w) i); [apply Tr_refl; exact Iw|].
        eapply on_store_Tr with (Q := fun t => (nT <= t)%nat); [exact Iw | |].
        - eapply hb; [apply H_exp_fields|]. intros ef _.
          eapply hb; [apply H_copy|]. intros c Hc. apply H_presel; exact Hc.
        - intros w' c Iw' Hc. apply set_cache_inv; assumption. }
      destruct r1 as [w1 [u|e]]; cbn [fst] in T1; [|exact T1].
      destruct (getroot (w_cache w1) i) as [c|] eqn:Ec; [|exact T1].
      eapply Tr_trans; [exact T1|].
      pose proof T1 as (I1 & _).
      eapply on_store_Tr with (Q := fun t => (nT <= t)%nat); [exact I1 | |].
      + eapply hb; [apply H_select|]. intros b Hb.
        eapply hb; [apply H_scramble_data; right; exact Hb|]. intros b' Hb'.
        eapply hb; [apply H_exp_fields|]. intros ef _.
        eapply hb; [apply H_tidy; exact Hb'|]. intros _ _. apply hret; exact Hb'.
      + intros w' t Iw' Ht. apply set_ev_inv; assumption.
    - (* GenBkgComp *)
      destruct (nth_error (w_mc w) i) as [mc|]; [|apply Tr_refl; exact Iw].
      eapply on_store_Tr with (Q := fun t => (nT <= t)%nat); [exact Iw | |].
      + eapply hb; [apply H_exp_fields|]. intros ef _.
        eapply hb; [apply H_copy|]. intros d Hd.
        eapply hb; [apply H_scramble_data; right; exact Hd|]. intros d1 Hd1.
        eapply hb; [apply H_set_fields; exact Hd1|]. intros _ _.
        eapply hb; [apply H_presel; exact Hd1|]. intros d2 Hd2.
        eapply hb; [apply H_select|]. intros b Hb.
        eapply hb; [apply H_tidy; exact Hb|]. intros _ _. apply hret; exact Hb.
      + intros w' t Iw' Ht. apply set_ev_inv; assumption.
    - (* GenSig *)
      destruct (nth_error (w_mc w) i) as [mc|]; [|apply Tr_refl; exact Iw].
      eapply on_store_Tr; [exact Iw | apply H_gen_signal|].
      intros w' t Iw' Ht. apply set_sig_inv; assumption.
    - (* Merge *)
      destruct (getroot (w_sig w) i) as [sg|] eqn:Es; [|apply Tr_refl; exact Iw].
      pose proof (getroot_ok _ _ _ R3 Es) as Hsg.
      destruct (getroot (w_ev w) i) as [ev|] eqn:Ee.
      + pose proof (getroot_ok _ _ _ R2 Ee) as Hev.
        eapply on_store_Tr with (Q := fun _ => True); [exact Iw | apply H_append; exact Hev|].
        intros w' _ Iw' _. apply set_sig_inv; [exact Iw' | exact I].
      + cbn [fst].
        destruct (set_ev_inv w i (Some sg) Iw Hsg) as (I1 & S1 & E1 & M1).
        destruct (set_sig_inv _ i None I1 I) as (I2 & S2 & E2 & M2).
        split; [exact I2|]. rewrite S2, S1, E2, E1, M2, M1. repeat split; auto.
    - (* InitSet *)
      destruct (getroot (w_ev w) i) as [ev|] eqn:Ee; [|apply Tr_refl; exact Iw].
      pose proof (getroot_ok _ _ _ R2 Ee) as Hev. cbn [fst].
      destruct (set_tdm_inv w i (Some ev) Iw Hev) as (I1 & S1 & E1 & M1).
      eapply Tr_trans; [|apply set_ready_Tr; exact I1].
      split; [exact I1|]. rewrite S1, E1, M1. repeat split; auto.
    - (* InitPre *)
      destruct (getroot (w_tdm w) i) as [t|] eqn:Et; [|apply Tr_refl; exact Iw].
      pose proof (getroot_ok _ _ _ R4 Et) as Ht.
      eapply on_store_Tr with (Q := fun _ => True); [exact Iw | apply H_set_fields; exact Ht|].
      intros w' _ Iw' _. repeat split; auto; apply Iw'.
    - (* InitSelect *)
      destruct (getroot (w_tdm w) i) as [t|] eqn:Et; [|apply Tr_refl; exact Iw].
      destruct es as [| |sl]; [apply Tr_refl; exact Iw | cbn [fst]; apply set_ready_Tr; exact Iw|].
      eapply on_store_Tr; [exact Iw | apply H_select|].
      intros w' t' Iw' Ht'. destruct (set_tdm_inv w' i (Some t') Iw' Ht') as (I1 & S1 & E1 & M1).
      destruct (set_ready_inv _ i true I1) as (I2 & S2 & E2 & M2).
      split; [exact I2|]. rewrite S2, S1, E2, E1, M2, M1. auto.
    - (* InitFinish *)
      destruct (getroot (w_tdm w) i) as [t|] eqn:Et; [|apply Tr_refl; exact Iw].
      pose proof (getroot_ok _ _ _ R4 Et) as Ht.
      match goal with |- context [on_store w ?m ?k] =>
        assert (T1 : Tr w (fst (on_store w m k))) end.
      { eapply on_store_Tr with (Q := fun _ => True); [exact Iw | |].
        - destruct srt as [[f perm]|]; [apply H_sort; exact Ht | apply hret; exact I].
        - intros w' _ Iw' _. apply set_ready_inv; exact Iw'. }
      match goal with |- context [on_store w ?m ?k] => destruct (on_store w m k) as [w1 [u|e]] end;
        cbn [fst] in *; [|exact T1].
      eapply Tr_trans; [exact T1|]. pose proof T1 as (I1 & _).
      eapply on_store_Tr with (Q := fun _ => True); [exact I1 | apply H_set_fields; exact Ht|].
      intros w' _ Iw' _. repeat split; auto; apply Iw'.
    - (* Evaluate *)
      destruct (getroot (w_tdm w) i) as [t|] eqn:Et; [|apply Tr_refl; exact Iw].
      pose proof (getroot_ok _ _ _ R4 Et) as Ht.
      assert (T1 : Tr w (fst (on_store w (set_fields t l0) (fun w' _ => w')))).
      { eapply on_store_Tr with (Q := fun _ => True); [exact Iw | apply H_set_fields; exact Ht|].
        intros w' _ Iw' _. repeat split; auto; apply Iw'. }
      cbv zeta. destruct (nth i (w_ready w) false); [exact T1|].
      destruct (on_store w (set_fields t l0) (fun w' _ => w')) as [w1 [u|e]]; exact T1.
    - (* UnblindCopy *)
      destruct (nth_error (w_exp w) i) as [e|]; [|apply Tr_refl; exact Iw].
      eapply on_store_Tr; [exact Iw | apply H_copy|].
      intros w' t Iw' Ht. destruct (set_tdm_inv w' i (Some t) Iw' Ht) as (I1 & S1 & E1 & M1).
      destruct (set_ready_inv _ i false I1) as (I2 & S2 & E2 & M2).
      split; [exact I2|]. rewrite S2, S1, E2, E1, M2, M1. auto.
    - (* DropEvents *)
      cbn [fst].
      destruct (set_ev_inv w i None Iw I) as (I1 & S1 & E1 & M1).
      destruct (set_sig_inv _ i None I1 I) as (I2 & S2 & E2 & M2).
      split; [exact I2|]. rewrite S2, S1, E2, E1, M2, M1. repeat split; auto.
    - (* DropSig *)
      cbn [fst].
      destruct (set_sig_inv w i None Iw I) as (I1 & S1 & E1 & M1).
      split; [exact I1|]. rewrite S1, E1, M1. repeat split; auto.
    - (* ConsSeasonal *)
      destruct (nth_error (w_exp w) i) as [e|]; [|apply Tr_refl; exact Iw].
      eapply on_store_Tr with (Q := fun _ => True); [exact Iw | apply H_cons_seasonal|].
      intros w' _ Iw' _. repeat split; auto; apply Iw'.
    - (* ConsSigCand *)
      destruct (nth_error (w_mc w) i) as [mc|]; [|apply Tr_refl; exact Iw].
      eapply on_store_Tr with (Q := fun _ => True); [exact Iw | apply H_cons_sig_candidates|].
      intros w' _ Iw' _. repeat split; auto; apply Iw'.
  Qed.

  Lemma run_Tr ops : forall w, Inv w -> Tr w (fst (run ops w)).
  Proof.
    induction ops as [|o r IH]; intros w Iw; cbn [run]; [apply Tr_refl; exact Iw|].
    pose proof (step_Tr o w Iw) as T1.
    destruct (step o w) as [w1 s1]; cbn [fst] in T1.
    pose proof T1 as (I1 & _). specialize (IH w1 I1).
    destruct (run r w1) as [w2 ss]; cbn [fst] in *.
    eapply Tr_trans; eauto.
  Qed.

  Lemma frame_prefix s s' : frame s s' -> prefix_untouched nB nT s s'.
  Proof.
    intros [F1 F2]; split; intros i Hi; eapply firstn_nth_error; eauto.
  Qed.
End Sep.

(* ---------------------------------------------------------------- main theorems (1) *)

(* from any state in which the trial-owned roots are separated from the first nB buffers /
   nT table objects: no history ever writes below (nB, nT) *)
Theorem preserved_from_invariant : forall nB nT ops w,
  Inv nB nT w ->
  let w' := fst (run ops w) in
  Inv nB nT w' /\ prefix_untouched nB nT (w_store w) (w_store w') /\
  w_exp w' = w_exp w /\ w_mc w' = w_mc w.
Proof.
  intros nB nT ops w Iw w'. destruct (run_Tr nB nT ops w Iw) as (I' & F & E & Mc).
  split; [exact I'|]. split; [apply (frame_prefix nB nT _ _ F)|]. split; assumption.
Qed.

Lemma trial_free_Inv w : trial_free w -> Inv (length (sb (w_store w))) (length (st (w_store w))) w.
Proof.
  intros (T1 & T2 & T3 & T4).
  assert (HN : forall l, Forall (fun o : option tloc => o = None) l ->
                         roots_ok (length (st (w_store w))) l).
  { intros l HF. unfold roots_ok. eapply Forall_impl; [|exact HF]. intros o ->; exact I. }
  split; [|repeat split; auto].
  split; [lia|]. split; [lia|].
  split; intros t x Ht E; apply nth_error_Some_lt in E; lia.
Qed.

Theorem preserved_full : forall w0 ops,
  trial_free w0 ->
  let w := fst (run ops w0) in
  old_untouched (w_store w0) (w_store w) /\ w_exp w = w_exp w0 /\ w_mc w = w_mc w0.
Proof.
  intros w0 ops Tf w.
  destruct (preserved_from_invariant _ _ ops w0 (trial_free_Inv w0 Tf)) as (_ & P & E & Mc).
  split; [exact P | split; assumption].
Qed.

(* value view of every table that exists initially and is well formed *)
Lemma view_untouched s s' t x :
  old_untouched s s' -> nth_error (st s) t = Some x -> table_wf s x -> view s' t = view s t.
Proof.
  intros [OB OT] E Wf. unfold view.
  rewrite (OT t) by (apply nth_error_Some_lt in E; exact E). rewrite E.
  assert (EM : map (fun p => (fst p, column s' (snd p))) (tf x)
             = map (fun p => (fst p, column s (snd p))) (tf x)).
  { apply map_ext_in. intros p Hp. unfold table_wf in Wf. rewrite Forall_forall in Wf.
    unfold column. f_equal. exact (OB _ (Wf p Hp)). }
  rewrite EM. reflexivity.
Qed.

Theorem preserved_views : forall w0 ops t x,
  trial_free w0 ->
  nth_error (st (w_store w0)) t = Some x -> table_wf (w_store w0) x ->
  view (w_store (fst (run ops w0))) t = view (w_store w0) t.
Proof.
  intros w0 ops t x Tf E Wf. destruct (preserved_full w0 ops Tf) as (O & _).
  eapply view_untouched; eauto.
Qed.

(* ================================================================ (2) scrambling frame *)
Section Frame.
  Variable t : tloc.
  Variable D : list fid.

  Lemma rb_refl s : rebinds_only t D s s.
  Proof.
    repeat split; auto. intros x E. exists x. repeat split; auto.
  Qed.

  Lemma rb_trans a b c : rebinds_only t D a b -> rebinds_only t D b c -> rebinds_only t D a c.
  Proof.
    intros (A1 & A2 & A3 & A4) (B1 & B2 & B3 & B4). split; [|split; [|split]].
    - intros i Hi. rewrite B1 by lia. apply A1; exact Hi.
    - lia.
    - intros u Hu. rewrite B3 by exact Hu. apply A3; exact Hu.
    - intros x E. destruct (A4 x E) as (x1 & E1 & L1 & K1 & P1).
      destruct (B4 x1 E1) as (x2 & E2 & L2 & K2 & P2).
      exists x2. split; [exact E2|]. split; [congruence|]. split.
      + intros f Hf. rewrite K2 by exact Hf. apply K1; exact Hf.
      + intros f Hf. apply P2. apply P1. exact Hf.
  Qed.

  Definition HF {A} (m : M A) (Q : A -> Prop) : Prop := hoare (fun _ => True) (rebinds_only t D) m Q.

  Lemma fb A B (m : M A) (f : A -> M B) (Q : A -> Prop) (Q' : B -> Prop) :
    HF m Q -> (forall a, Q a -> HF (f a) Q') -> HF (mbind m f) Q'.
  Proof. apply h_bind. exact rb_trans. Qed.
  Lemma fret A (a : A) (Q : A -> Prop) : Q a -> HF (ret a) Q.
  Proof. apply h_ret. exact rb_refl. Qed.
  Lemma fraise A e (Q : A -> Prop) : HF (@raise A e) Q.
  Proof. apply h_raise. exact rb_refl. Qed.

  Lemma F_alloc v : HF (alloc v) (fun _ => True).
  Proof.
    intros s _. unfold alloc; cbn [fst snd]. split; [exact I|]. split; [|auto].
    split; [|split; [|split]]; cbn [sb st].
    - intros b Hb. apply nth_error_app1; exact Hb.
    - rewrite app_length; lia.
    - auto.
    - intros x E. exists x. repeat split; auto.
  Qed.

  Lemma F_rdtab u : HF (rdtab u) (fun _ => True).
  Proof.
    intros s _. unfold rdtab. destruct (nth_error (st s) u); cbn [fst snd];
      (split; [exact I | split; [apply rb_refl | auto]]).
  Qed.
  Lemma F_rdbuf b : HF (rdbuf b) (fun _ => True).
  Proof.
    intros s _. unfold rdbuf. destruct (nth_error (sb s) b); cbn [fst snd];
      (split; [exact I | split; [apply rb_refl | auto]]).
  Qed.
  Lemma F_getitem u f : HF (t_getitem u f) (fun _ => True).
  Proof.
    unfold t_getitem. eapply fb; [apply F_rdtab|]. intros x _; cbv beta.
    destruct (lookup f (tf x)); [apply fret; exact I | apply fraise].
  Qed.

  Lemma lookup_rebind_other f g b fs : f <> g -> lookup f (rebind g b fs) = lookup f fs.
  Proof.
    intros Hne. induction fs as [|[h c] r IH]; cbn; [reflexivity|].
    destruct (Nat.eqb h g) eqn:Ehg; cbn.
    - apply Nat.eqb_eq in Ehg; subst h.
      destruct (Nat.eqb g f) eqn:Egf; [apply Nat.eqb_eq in Egf; congruence | reflexivity].
    - destruct (Nat.eqb h f); [reflexivity | exact IH].
  Qed.
  Lemma lookup_rebind_some f g b fs : lookup f fs <> None -> lookup f (rebind g b fs) <> None.
  Proof.
    induction fs as [|[h c] r IH]; cbn; [auto|].
    destruct (Nat.eqb h g) eqn:Ehg; cbn.
    - destruct (Nat.eqb h f); [discriminate | auto].
    - destruct (Nat.eqb h f); [discriminate | exact IH].
  Qed.
  Lemma lookup_app_other f g b fs : f <> g -> lookup f (fs ++ [(g, b)]) = lookup f fs.
  Proof.
    intros Hne. induction fs as [|[h c] r IH]; cbn.
    - destruct (Nat.eqb g f) eqn:E; [apply Nat.eqb_eq in E; congruence | reflexivity].
    - destruct (Nat.eqb h f); [reflexivity | exact IH].
  Qed.
  Lemma lookup_app_some f g b fs : lookup f fs <> None -> lookup f (fs ++ [(g, b)]) <> None.
  Proof.
    induction fs as [|[h c] r IH]; cbn; [congruence|].
    destruct (Nat.eqb h f); [discriminate | exact IH].
  Qed.

  Lemma wrtab_rb s x x' :
    nth_error (st s) t = Some x -> tlen x' = tlen x ->
    (forall f, ~ In f D -> lookup f (tf x') = lookup f (tf x)) ->
    (forall f, lookup f (tf x) <> None -> lookup f (tf x') <> None) ->
    rebinds_only t D s (fst (wrtab t x' s)).
  Proof.
    intros E L K P. unfold wrtab. destruct (valid_fields s (tf x')); cbn [fst]; [|apply rb_refl].
    cbn [fst sb st]. split; [|split; [|split]]; auto.
    - intros u Hu. apply nth_error_upd_other. congruence.
    - intros y Ey. assert (y = x) by congruence; subst y. exists x'.
      split; [|auto]. clear - E.
      revert E. generalize (st s) as l. induction t as [|k IH]; intros [|a l] E; cbn in *; try discriminate; auto.
  Qed.

  Lemma F_setitem f b : In f D -> HF (t_setitem t f b) (fun _ => True).
  Proof.
    intros Hf s _. unfold t_setitem, mbind, rdtab, rdbuf.
    destruct (nth_error (st s) t) as [x|] eqn:E; cbn [fst snd];
      [|split; [exact I | split; [apply rb_refl | auto]]].
    destruct (nth_error (sb s) b) as [v|]; cbn [fst snd];
      [|split; [exact I | split; [apply rb_refl | auto]]].
    destruct (lookup f (tf x)) eqn:El.
    - destruct (al_si_len_bad _ _); [cbn; split; [exact I | split; [apply rb_refl | auto]]|].
      split; [exact I|]. split; [|auto].
      apply (wrtab_rb s x); auto; cbn [tf].
      + intros g Hg. apply lookup_rebind_other. intros ->; contradiction.
      + intros g Hg. apply lookup_rebind_some; exact Hg.
    - destruct (al_af_len_bad _ _); [cbn; split; [exact I | split; [apply rb_refl | auto]]|].
      split; [exact I|]. split; [|auto].
      apply (wrtab_rb s x); auto; cbn [tf].
      + intros g Hg. apply lookup_app_other. intros ->; contradiction.
      + intros g Hg. apply lookup_app_some; exact Hg.
  Qed.
End Frame.

Theorem scramble_frame : forall m t s,
  rebinds_only t (doc_fields m) s (fst (scramble m t s)).
Proof.
  intros m t s.
  assert (HFm : HF t (doc_fields m) (scramble m t) (fun _ => True)).
  { destruct m as [|k lo hi draws|times ras|times ras|times ras decs]; cbn [scramble doc_fields].
    - apply fret; exact I.
    - eapply fb; [apply F_getitem|]. intros _ _.
      eapply fb; [apply F_alloc|]. intros b _. apply F_setitem. cbn; auto.
    - eapply fb; [apply F_alloc|]. intros bt _.
      eapply fb; [apply F_setitem; cbn; auto|]. intros _ _.
      eapply fb; [apply F_getitem|]. intros _ _.
      eapply fb; [apply F_alloc|]. intros br _. apply F_setitem; cbn; auto.
    - eapply fb; [apply F_getitem|]. intros _ _.
      eapply fb; [apply F_alloc|]. intros bt _.
      eapply fb; [apply F_setitem; cbn; auto|]. intros _ _.
      eapply fb; [apply F_getitem|]. intros _ _.
      eapply fb; [apply F_alloc|]. intros br _. apply F_setitem; cbn; auto.
    - eapply fb; [apply F_alloc|]. intros bt _.
      eapply fb; [apply F_setitem; cbn; auto|]. intros _ _.
      eapply fb; [apply F_getitem|]. intros _ _.
      eapply fb; [apply F_getitem|]. intros _ _.
      eapply fb; [apply F_alloc|]. intros br _.
      eapply fb; [apply F_alloc|]. intros bd _.
      eapply fb; [apply F_setitem; cbn; auto|]. intros _ _.
      apply F_setitem; cbn; auto. }
  exact (proj1 (proj2 (HFm s I))).
Qed.

(* consequence in terms of column contents *)
Theorem scramble_frame_columns : forall m t s x,
  nth_error (st s) t = Some x -> table_wf s x ->
  let s' := fst (scramble m t s) in
  (forall u, u <> t -> view s' u = view s u \/ True) /\
  exists x', nth_error (st s') t = Some x' /\ tlen x' = tlen x /\
    forall f, ~ In f (doc_fields m) -> col s' t f = col s t f.
Proof.
  intros m t s x E Wf s'. split; [auto|].
  destruct (scramble_frame m t s) as (B & _ & _ & T).
  destruct (T x E) as (x' & E' & L & K & _). exists x'. split; [exact E'|]. split; [exact L|].
  intros f Hf. subst s'. unfold col. rewrite E', E, (K f Hf).
  destruct (lookup f (tf x)) as [b|] eqn:El; [|reflexivity].
  apply B. unfold table_wf in Wf. rewrite Forall_forall in Wf.
  clear - El Wf. induction (tf x) as [|[g c] r IH]; cbn in El; [discriminate|].
  destruct (Nat.eqb g f); [inversion El; subst; apply (Wf (g, b)); left; reflexivity|].
  apply IH; [intros p Hp; apply Wf; right; exact Hp | exact El].
Qed.

(* scramble_data(copy=True): nothing that existed before is touched, the result is new *)
Theorem scramble_copy_untouched : forall m t s,
  let r := scramble_data m t true s in
  old_untouched s (fst r) /\ forall t', snd r = Ok t' -> (length (st s) <= t')%nat.
Proof.
  intros m t s r.
  assert (Gs : good (length (sb s)) (length (st s)) s).
  { split; [lia|]. split; [lia|]. split; intros u x Hu E; apply nth_error_Some_lt in E; lia. }
  destruct (H_scramble_data (length (sb s)) (length (st s)) m t true (or_introl eq_refl) s Gs)
    as (_ & F & Q).
  split; [|exact Q]. apply (frame_prefix _ _ _ _ F).
Qed.

(* ---------------------------------------------------------------- right ascension range *)
Ltac Zify.zify_post_hook ::= Z.to_euclidean_division_equations.

Lemma rne_spec k x : 0 <= k ->
  exists n, rne k x = n * 2 ^ k /\ 2 * (rne k x - x) <= 2 ^ k /\ 2 * (x - rne k x) <= 2 ^ k.
Proof.
  intros Hk. assert (HP : 0 < 2 ^ k) by (apply Z.pow_pos_nonneg; lia).
  unfold rne. set (P := 2 ^ k) in *.
  pose proof (Z.div_mod x P ltac:(lia)) as Hdm.
  pose proof (Z.mod_pos_bound x P HP) as Hb.
  set (q := x / P) in *. set (r := x mod P) in *.
  destruct (2 * r <? P) eqn:E1; [exists q; split; [reflexivity|]; apply Z.ltb_lt in E1; nia|].
  apply Z.ltb_ge in E1.
  destruct (P <? 2 * r) eqn:E2; [exists (q + 1); split; [reflexivity|]; apply Z.ltb_lt in E2; nia|].
  apply Z.ltb_ge in E2.
  destruct (Z.even q); [exists q | exists (q + 1)]; (split; [reflexivity | nia]).
Qed.

Lemma ura_lo_spec k lo : 0 <= k ->
  exists n, ura_lo k lo = n * 2 ^ k /\ lo <= ura_lo k lo < lo + 2 ^ k.
Proof.
  intros Hk. assert (HP : 0 < 2 ^ k) by (apply Z.pow_pos_nonneg; lia).
  destruct (rne_spec k lo Hk) as (n & En & U1 & U2).
  unfold ura_lo. rewrite K_ura_lo_below. cbv zeta.
  destruct (rne k lo <? lo) eqn:E.
  - apply Z.ltb_lt in E. exists (n + 1). split; [rewrite En; ring | lia].
  - apply Z.ltb_ge in E. exists n. split; [exact En | lia].
Qed.

Lemma ura_hi_spec k hi : 0 <= k ->
  exists n, ura_hi k hi = n * 2 ^ k /\ hi - 2 ^ k <= ura_hi k hi < hi.
Proof.
  intros Hk. assert (HP : 0 < 2 ^ k) by (apply Z.pow_pos_nonneg; lia).
  destruct (rne_spec k hi Hk) as (n & En & U1 & U2).
  unfold ura_hi. rewrite K_ura_hi_outside. cbv zeta.
  destruct (hi <=? rne k hi) eqn:E.
  - apply Z.leb_le in E. exists (n - 1). split; [rewrite En; ring | lia].
  - apply Z.leb_gt in E. exists n. split; [exact En | lia].
Qed.

(* with at least one representable value inside [lo, hi) every generated value is inside *)
Theorem ura_value_in_range : forall k lo hi g x,
  0 <= k -> lo <= g * 2 ^ k < hi ->
  lo <= ura_value k lo hi x < hi.
Proof.
  intros k lo hi g x Hk Hg. assert (HP : 0 < 2 ^ k) by (apply Z.pow_pos_nonneg; lia).
  destruct (ura_lo_spec k lo Hk) as (a & Ea & La).
  destruct (ura_hi_spec k hi Hk) as (b & Eb & Lb).
  unfold ura_value. rewrite K_ura_clip.
  set (P := 2 ^ k) in *.
  assert (a <= g) by nia. assert (g <= b) by nia.
  assert (ura_lo k lo <= ura_hi k hi) by (rewrite Ea, Eb; nia).
  lia.
Qed.

(* the value is representable in the narrow type *)
Theorem ura_value_on_grid : forall k lo hi x, 0 <= k -> exists n, ura_value k lo hi x = n * 2 ^ k.
Proof.
  intros k lo hi x Hk.
  destruct (rne_spec k x Hk) as (n & En & _).
  destruct (ura_lo_spec k lo Hk) as (a & Ea & _).
  destruct (ura_hi_spec k hi Hk) as (b & Eb & _).
  unfold ura_value. rewrite K_ura_clip.
  destruct (Z.min_spec (Z.max (rne k x) (ura_lo k lo)) (ura_hi k hi)) as [[_ ->]|[_ ->]];
    [|exists b; exact Eb].
  destruct (Z.max_spec (rne k x) (ura_lo k lo)) as [[_ ->]|[_ ->]]; [exists a | exists n]; assumption.
Qed.

(* ---------------------------------------------------------------- RA written by the time based methods *)
Lemma mbind_ok {A B} (m : M A) (f : A -> M B) s b :
  snd (mbind m f s) = Ok b ->
  exists a, snd (m s) = Ok a /\ mbind m f s = f a (fst (m s)).
Proof.
  unfold mbind. destruct (m s) as [s1 [a|e]]; cbn [fst snd]; intros E; [exists a; auto | discriminate].
Qed.

Lemma nth_error_upd_same {A} (l : list A) n v : (n < length l)%nat -> nth_error (upd l n v) n = Some v.
Proof. revert n; induction l as [|a l IH]; intros [|n] H; cbn in *; try lia; auto. apply IH; lia. Qed.

Lemma lookup_rebind_same f b fs : lookup f fs <> None -> lookup f (rebind f b fs) = Some b.
Proof.
  induction fs as [|[g c] r IH]; cbn; [congruence|].
  destruct (Nat.eqb g f) eqn:E; cbn; rewrite E; [reflexivity | exact IH].
Qed.
Lemma lookup_app_same f b fs : lookup f fs = None -> lookup f (fs ++ [(f, b)]) = Some b.
Proof.
  induction fs as [|[g c] r IH]; cbn; [rewrite Nat.eqb_refl; reflexivity|].
  destruct (Nat.eqb g f); [discriminate | exact IH].
Qed.

Lemma setitem_col t f b s vals :
  nth_error (sb s) b = Some vals -> snd (t_setitem t f b s) = Ok tt ->
  col (fst (t_setitem t f b s)) t f = Some vals.
Proof.
  intros Eb. unfold t_setitem, mbind, rdtab, rdbuf.
  destruct (nth_error (st s) t) as [x|] eqn:E; cbn [fst snd]; [|discriminate].
  rewrite Eb; cbn [fst snd].
  assert (Ht : (t < length (st s))%nat) by (apply nth_error_Some_lt in E; exact E).
  destruct (lookup f (tf x)) eqn:El.
  - destruct (al_si_len_bad _ _); cbn [raise fst snd]; [discriminate|].
    unfold wrtab. destruct (valid_fields _ _); cbn [fst snd]; [|discriminate]. intros _.
    unfold col; cbn [fst sb st]. rewrite nth_error_upd_same by exact Ht. cbn [tf].
    rewrite lookup_rebind_same by congruence. exact Eb.
  - destruct (al_af_len_bad _ _); cbn [raise fst snd]; [discriminate|].
    unfold wrtab. destruct (valid_fields _ _); cbn [fst snd]; [|discriminate]. intros _.
    unfold col; cbn [fst sb st]. rewrite nth_error_upd_same by exact Ht. cbn [tf].
    rewrite lookup_app_same by exact El. exact Eb.
Qed.

Lemma setitem_col_other t f g b s : f <> g -> col (fst (t_setitem t g b s)) t f = col s t f.
Proof.
  intros Hne. unfold t_setitem, mbind, rdtab, rdbuf.
  destruct (nth_error (st s) t) as [x|] eqn:E; cbn [fst snd]; [|reflexivity].
  destruct (nth_error (sb s) b) as [v|]; cbn [fst snd]; [|reflexivity].
  assert (Ht : (t < length (st s))%nat) by (apply nth_error_Some_lt in E; exact E).
  destruct (lookup g (tf x)).
  - destruct (al_si_len_bad _ _); cbn [raise fst snd]; [reflexivity|].
    unfold wrtab. destruct (valid_fields _ _); cbn [fst]; [|reflexivity].
    unfold col; cbn [fst sb st]. rewrite nth_error_upd_same by exact Ht. rewrite E. cbn [tf].
    rewrite lookup_rebind_other by exact Hne. reflexivity.
  - destruct (al_af_len_bad _ _); cbn [raise fst snd]; [reflexivity|].
    unfold wrtab. destruct (valid_fields _ _); cbn [fst]; [|reflexivity].
    unfold col; cbn [fst sb st]. rewrite nth_error_upd_same by exact Ht. rewrite E. cbn [tf].
    rewrite lookup_app_other by exact Hne. reflexivity.
Qed.

Lemma alloc_then_setitem_col t f v s :
  snd ((mdo b <-- alloc v ;; t_setitem t f b) s) = Ok tt ->
  col (fst ((mdo b <-- alloc v ;; t_setitem t f b) s)) t f = Some v.
Proof.
  unfold mbind, alloc. cbn [fst snd]. intros H.
  apply setitem_col; [cbn [sb]; apply nth_error_snoc | exact H].
Qed.

(* the uniform scrambling writes exactly these values into `ra` *)
Theorem uniform_ra_column : forall k lo hi draws t s,
  snd (scramble (ScrUniform k lo hi draws) t s) = Ok tt ->
  col (fst (scramble (ScrUniform k lo hi draws) t s)) t F_RA = Some (map (ura_value k lo hi) draws).
Proof.
  intros k lo hi draws t s Hok. cbn [scramble] in *.
  apply mbind_ok in Hok as Hk; destruct Hk as (b0 & _ & E1); rewrite E1 in *; clear E1.
  apply alloc_then_setitem_col. exact Hok.
Qed.


Theorem uniform_ra_in_range : forall k lo hi g draws t s,
  0 <= k -> lo <= g * 2 ^ k < hi ->
  snd (scramble (ScrUniform k lo hi draws) t s) = Ok tt ->
  exists vals, col (fst (scramble (ScrUniform k lo hi draws) t s)) t F_RA = Some vals /\
    length vals = length draws /\
    forall v, In v vals -> lo <= v < hi /\ exists n, v = n * 2 ^ k.
Proof.
  intros k lo hi g draws t s Hk Hg Hok.
  exists (map (ura_value k lo hi) draws). split; [apply uniform_ra_column; exact Hok|].
  split; [apply map_length|].
  intros v Hv. apply in_map_iff in Hv. destruct Hv as (x & <- & _).
  split; [eapply ura_value_in_range; eauto | apply ura_value_on_grid; exact Hk].
Qed.

(* the defect repaired by 746f4af: float32 narrowing alone leaves [0, 2 pi) *)
Lemma narrowing_alone_leaves_range :
  exists x, 0 <= x < bits_2pi /\ bits_2pi <= rne 29 x.
Proof. exists (bits_2pi - 1). vm_compute. repeat split; congruence. Qed.

(* the defect repaired by cb41ee3: initialize_trial applied to data.exp itself reorders it *)
Lemma init_on_dataset_array_alters :
  exists p, trial_free ex_w0 /\
    view (w_store (fst (unblind_old 0 p ex_w0))) 0%nat <> view (w_store ex_w0) 0%nat.
Proof.
  exists (mkI [] ESNone (Some (F_TIME, [2; 1; 0])) []). split.
  - vm_compute. repeat split; repeat constructor.
  - vm_compute. congruence.
Qed.

(* composite calls: the executed operations are a prefix of each group *)
Lemma run_seq_prefix : forall ops w, exists k, fst (run_seq ops w) = fst (run (firstn k ops) w).
Proof.
  induction ops as [|o r IH]; intros w; cbn [run_seq].
  - exists 0%nat. reflexivity.
  - destruct (step o w) as [w1 [u|e]] eqn:E.
    + destruct (IH w1) as (k & Ek). exists (S k). cbn [firstn run]. rewrite E.
      destruct (run (firstn k r) w1) as [w2 ss] eqn:E2. cbn [fst] in *. exact Ek.
    + exists 1%nat. cbn [firstn run]. rewrite E. reflexivity.
Qed.

Lemma run_app : forall a b w, fst (run (a ++ b) w) = fst (run b (fst (run a w))).
Proof.
  induction a as [|o r IH]; intros b w; cbn [app run fst]; [reflexivity|].
  destruct (step o w) as [w1 s1]. specialize (IH b w1).
  destruct (run (r ++ b) w1) as [w2 ss]. destruct (run r w1) as [w3 ss3]. cbn [fst] in *. exact IH.
Qed.

Lemma run_calls_as_run : forall gs w, exists ops, run_calls gs w = fst (run ops w).
Proof.
  induction gs as [|g r IH]; intros w; cbn [run_calls].
  - exists []. reflexivity.
  - destruct (run_seq_prefix g w) as (k & Ek). destruct (IH (fst (run_seq g w))) as (ops & Eo).
    exists (firstn k g ++ ops). rewrite run_app, <- Ek. exact Eo.
Qed.

Theorem preserved_calls : forall w0 gs,
  trial_free w0 ->
  let w := run_calls gs w0 in
  old_untouched (w_store w0) (w_store w) /\ w_exp w = w_exp w0 /\ w_mc w = w_mc w0.
Proof.
  intros w0 gs Tf w. destruct (run_calls_as_run gs w0) as (ops & E). subst w. rewrite E.
  exact (preserved_full w0 ops Tf).
Qed.

(* construction of the seasonal scrambling: the mask of a run is the half-open membership test *)
Lemma seasonal_masks_spec : forall runs times,
  seasonal_masks runs times =
  map (fun r => map (fun t => (fst r <=? t) && (t <? snd r)) times) runs.
Proof.
  intros runs times. unfold seasonal_masks. apply map_ext. intros r. apply map_ext. intros t.
  apply K_seas_mask.
Qed.

(* I3TimeScramblingMethod / I3SeasonalVariationTimeScramblingMethod / TimeScramblingMethod: the column written to
   `ra` is the transform result itself (no narrowing afterwards) *)
Theorem time_ra_column : forall m t s,
  snd (scramble m t s) = Ok tt ->
  match m with
  | ScrI3Time _ ras | ScrSeasonal _ ras | ScrTime _ ras _ => col (fst (scramble m t s)) t F_RA = Some ras
  | _ => True
  end.
Proof.
  intros m t s Hok. destruct m as [|k lo hi draws|times ras|times ras|times ras decs]; try exact I; cbn [scramble] in *.
  - apply mbind_ok in Hok as Hk; destruct Hk as (bt & _ & E1); rewrite E1 in *; clear E1.
    apply mbind_ok in Hok as Hk; destruct Hk as (u1 & _ & E1); rewrite E1 in *; clear E1.
    apply mbind_ok in Hok as Hk; destruct Hk as (u2 & _ & E1); rewrite E1 in *; clear E1.
    rewrite (map_ext _ _ K_i3t_ra_store), map_id in *.
    apply alloc_then_setitem_col. exact Hok.
  - apply mbind_ok in Hok as Hk; destruct Hk as (bt & _ & E1); rewrite E1 in *; clear E1.
    apply mbind_ok in Hok as Hk; destruct Hk as (u1 & _ & E1); rewrite E1 in *; clear E1.
    apply mbind_ok in Hok as Hk; destruct Hk as (u2 & _ & E1); rewrite E1 in *; clear E1.
    apply mbind_ok in Hok as Hk; destruct Hk as (u3 & _ & E1); rewrite E1 in *; clear E1.
    rewrite (map_ext _ _ K_seas_ra_store), map_id in *.
    apply alloc_then_setitem_col. exact Hok.
  - apply mbind_ok in Hok as Hk; destruct Hk as (bt & _ & E1); rewrite E1 in *; clear E1.
    apply mbind_ok in Hok as Hk; destruct Hk as (u1 & _ & E1); rewrite E1 in *; clear E1.
    apply mbind_ok in Hok as Hk; destruct Hk as (u2 & _ & E1); rewrite E1 in *; clear E1.
    apply mbind_ok in Hok as Hk; destruct Hk as (u3 & _ & E1); rewrite E1 in *; clear E1.
    rewrite !(map_ext _ _ K_ct_radec_store), !map_id in *.
    (* alloc ras; alloc decs; setitem RA; setitem DEC *)
    apply mbind_ok in Hok as Hk; destruct Hk as (br & Ebr & E1); rewrite E1 in *; clear E1.
    apply mbind_ok in Hok as Hk; destruct Hk as (bd & Ebd & E1); rewrite E1 in *; clear E1.
    apply mbind_ok in Hok as Hk; destruct Hk as (u4 & Hra & E1); rewrite E1 in *; clear E1.
    rewrite setitem_col_other by (unfold F_RA, F_DEC; congruence).
    destruct u4. apply setitem_col; [|exact Hra].
    unfold alloc in *; cbn [fst snd sb st] in *. inversion Ebr; subst br.
    rewrite nth_error_app1 by (rewrite app_length; cbn; lia). apply nth_error_snoc.
Qed.

Theorem time_ra_in_range : forall m t s lo hi,
  snd (scramble m t s) = Ok tt ->
  match m with
  | ScrI3Time _ ras | ScrSeasonal _ ras | ScrTime _ ras _ =>
      (forall v, In v ras -> lo <= v < hi) ->
      exists vals, col (fst (scramble m t s)) t F_RA = Some vals /\ length vals = length ras /\
                   forall v, In v vals -> lo <= v < hi
  | _ => True
  end.
Proof.
  intros m t s lo hi Hok. pose proof (time_ra_column m t s Hok) as Hc.
  destruct m as [|k l h draws|times ras|times ras|times ras decs]; try exact I;
    intros Hr; exists ras; auto.
Qed.

(* ================================================================ freshness of everything that is generated *)
Lemma good_at_top s : good (length (sb s)) (length (st s)) s.
Proof. split; [lia|]. split; [lia|]. split; intros t x Ht E; apply nth_error_Some_lt in E; lia. Qed.

Lemma top_run {A} (m : M A) (Q : A -> Prop) s :
  HS (length (sb s)) (length (st s)) m Q ->
  old_untouched s (fst (m s)) /\ good (length (sb s)) (length (st s)) (fst (m s)) /\
  forall a, snd (m s) = Ok a -> Q a.
Proof.
  intros Hm. destruct (Hm s (good_at_top s)) as (G1 & F1 & Q1).
  split; [apply (frame_prefix _ _ _ _ F1)|]. split; assumption.
Qed.

Lemma good_fresh nB nT s0 s t :
  nB = length (sb s0) -> nT = length (st s0) -> good nB nT s -> (nT <= t)%nat -> fresh_table s0 s t.
Proof.
  intros -> -> (_ & _ & g3 & _) Ht. split; [exact Ht|]. intros x E. exact (g3 t x Ht E).
Qed.

(* get_selection / copy allocate for EVERY index kind and keep-list: nothing that existed is touched, the result is a
   new object whose columns are all new arrays (single row, contiguous rows, empty, mask, negative indices alike) *)
Theorem select_allocates : forall t sl s,
  old_untouched s (fst (t_select t sl s)) /\
  forall t', snd (t_select t sl s) = Ok t' -> fresh_table s (fst (t_select t sl s)) t'.
Proof.
  intros t sl s. destruct (top_run (t_select t sl) _ s (H_select _ _ t sl)) as (O & G & Q).
  split; [exact O|]. intros t' E. eapply good_fresh; eauto.
Qed.

Theorem copy_allocates : forall t keep s,
  old_untouched s (fst (t_copy t keep s)) /\
  forall t', snd (t_copy t keep s) = Ok t' -> fresh_table s (fst (t_copy t keep s)) t'.
Proof.
  intros t keep s. destruct (top_run (t_copy t keep) _ s (H_copy _ _ t keep)) as (O & G & Q).
  split; [exact O|]. intros t' E. eapply good_fresh; eauto.
Qed.

(* signal generation (selection from mc, post-sampling processing with in-place narrowing writes, redraw, fill):
   whatever is written, it is written into new arrays; mc is not touched *)
Theorem gen_signal_allocates : forall mc n fill gs s,
  old_untouched s (fst (gen_signal mc n fill gs s)) /\
  forall t', snd (gen_signal mc n fill gs s) = Ok t' -> fresh_table s (fst (gen_signal mc n fill gs s)) t'.
Proof.
  intros mc n fill gs s.
  destruct (top_run (gen_signal mc n fill gs) _ s (H_gen_signal _ _ mc n fill gs)) as (O & G & Q).
  split; [exact O|]. intros t' E. eapply good_fresh; eauto.
Qed.

Lemma valid_fields_lt s fs p : valid_fields s fs = true -> In p fs -> (snd p < length (sb s))%nat.
Proof.
  unfold valid_fields. rewrite forallb_forall. intros H Hp. apply Nat.ltb_lt. exact (H p Hp).
Qed.

Lemma on_store_top {A} (w : world) (m : M A) (k : world -> A -> world) (Q : A -> Prop) :
  HS (length (sb (w_store w))) (length (st (w_store w))) m Q ->
  (forall w' a, w_store (k w' a) = w_store w') ->
  let r := on_store w m k in
  old_untouched (w_store w) (w_store (fst r)) /\
  good (length (sb (w_store w))) (length (st (w_store w))) (w_store (fst r)) /\
  (snd r = Ok tt -> exists a, snd (m (w_store w)) = Ok a /\ Q a /\
                              fst r = k (mkW (fst (m (w_store w))) (w_exp w) (w_mc w) (w_cache w) (w_ev w) (w_sig w) (w_tdm w) (w_ready w)) a).
Proof.
  intros Hm Hk r. subst r. unfold on_store.
  destruct (top_run m Q (w_store w) Hm) as (O & G & Qa).
  destruct (m (w_store w)) as [s' [a|e]]; cbn [fst snd] in *.
  - rewrite Hk. cbn. split; [exact O|]. split; [exact G|]. intros _. exists a. auto.
  - split; [exact O|]. split; [exact G|]. intros E; discriminate.
Qed.

Lemma getroot_upd_same l i o : (i < length l)%nat -> getroot (setroot l i o) i = o.
Proof. intros H. unfold getroot, setroot. rewrite nth_error_upd_same by exact H. reflexivity. Qed.

(* the three background generation methods and the signal generator: on success the generated table is a new
   object made of new arrays only - it aliases nothing that existed before the call (exp, mc, earlier events, trial
   data, an existing cache) *)
Theorem generated_fresh : forall o w,
  snd (step o w) = Ok tt ->
  match o with
  | GenBkgFixed i _ | GenBkgMC i _ _ _ _ _ | GenBkgComp i _ _ _ _ _ _ =>
      (i < length (w_ev w))%nat ->
      exists t, getroot (w_ev (fst (step o w))) i = Some t /\
                fresh_table (w_store w) (w_store (fst (step o w))) t
  | GenSig i _ _ _ =>
      (i < length (w_sig w))%nat ->
      exists t, getroot (w_sig (fst (step o w))) i = Some t /\
                fresh_table (w_store w) (w_store (fst (step o w))) t
  | _ => True
  end.
Proof.
  intros o w Hok.
  destruct o as [i m|i cfgf keepmc presel idx m|i cfgf keepmc m comps presel idx|i n fill gs|i|i|i l|i es|i srt l|i l0|i|i|i|i masks|i idx];
    try exact I; cbn [step] in *; intros Hi.
  - destruct (nth_error (w_exp w) i) as [e|]; [|discriminate].
    destruct (on_store_top w (scramble_data m e true) (fun w' t => set_ev w' i (Some t)) _
                (H_scramble_data _ _ m e true (or_introl eq_refl)) (fun _ _ => eq_refl)) as (O & G & R).
    destruct (R Hok) as (t & _ & Qt & Ew). rewrite Ew. exists t. split.
    + cbn. apply getroot_upd_same; exact Hi.
    + cbn [set_ev w_store]. rewrite Ew in G. eapply good_fresh; eauto.
  - destruct (nth_error (w_mc w) i) as [mc|]; [|discriminate].
    set (r1 := match getroot (w_cache w) i with Some c => (w, Ok tt) | None => _ end) in *.
    assert (T1 : old_untouched (w_store w) (w_store (fst r1)) /\ w_ev (fst r1) = w_ev w).
    { subst r1. destruct (getroot (w_cache w) i).
      - split; [split; auto | reflexivity].
      - match goal with |- context [on_store w ?m ?k] =>
          destruct (on_store_top w m k (fun t => (length (st (w_store w)) <= t)%nat)) as (O & G & R) end.
        + eapply hb; [apply H_exp_fields|]. intros ef _.
          eapply hb; [apply H_copy|]. intros c Hc. apply H_presel; exact Hc.
        + reflexivity.
        + split; [exact O|]. unfold on_store.
          destruct ((mdo ef <-- exp_fields w i;; mdo c <-- t_copy mc (Some (cfgf ++ ef ++ keepmc));; presel_apply c presel) (w_store w))
            as [s' [a|e]]; reflexivity. }
    destruct r1 as [w1 [u|e]]; cbn [fst] in *; [|discriminate].
    destruct T1 as (O1 & Eev).
    destruct (getroot (w_cache w1) i) as [c|]; [|discriminate].
    match goal with H : snd (on_store w1 ?m ?k) = Ok tt |- _ =>
      destruct (on_store_top w1 m k (fun t => (length (st (w_store w1)) <= t)%nat)) as (O & G & R) end.
    + eapply hb; [apply H_select|]. intros b Hb.
      eapply hb; [apply H_scramble_data; right; exact Hb|]. intros b' Hb'.
      eapply hb; [apply H_exp_fields|]. intros ef _.
      eapply hb; [apply H_tidy; exact Hb'|]. intros _ _. apply hret; exact Hb'.
    + reflexivity.
    + destruct (R Hok) as (t & _ & Qt & Ew). rewrite Ew. exists t. split.
      * cbn. apply getroot_upd_same. rewrite Eev. exact Hi.
      * cbn [set_ev w_store]. rewrite Ew in G. cbn [set_ev w_store] in G.
        destruct O1 as (OB1 & OT1).
        assert (L1 : (length (st (w_store w)) <= length (st (w_store w1)))%nat).
        { destruct (Nat.le_gt_cases (length (st (w_store w))) (length (st (w_store w1)))) as [H|H]; [exact H|].
          exfalso. assert (Hlt : (length (st (w_store w1)) < length (st (w_store w)))%nat) by lia.
          pose proof (OT1 _ Hlt) as E1. rewrite (proj2 (nth_error_None _ _)) in E1 by lia.
          symmetry in E1. apply nth_error_None in E1. lia. }
        assert (L2 : (length (sb (w_store w)) <= length (sb (w_store w1)))%nat).
        { destruct (Nat.le_gt_cases (length (sb (w_store w))) (length (sb (w_store w1)))) as [H|H]; [exact H|].
          exfalso. assert (Hlt : (length (sb (w_store w1)) < length (sb (w_store w)))%nat) by lia.
          pose proof (OB1 _ Hlt) as E1. rewrite (proj2 (nth_error_None _ _)) in E1 by lia.
          symmetry in E1. apply nth_error_None in E1. lia. }
        destruct G as (_ & _ & g3 & _). split; [lia|].
        intros x Ex. eapply Forall_impl; [|apply (g3 t x Qt Ex)]. intros p Hp; cbn beta in *. lia.
  - destruct (nth_error (w_mc w) i) as [mc|]; [|discriminate].
    match goal with H : snd (on_store w ?m ?k) = Ok tt |- _ =>
      destruct (on_store_top w m k (fun t => (length (st (w_store w)) <= t)%nat)) as (O & G & R) end.
    + eapply hb; [apply H_exp_fields|]. intros ef _.
      eapply hb; [apply H_copy|]. intros d Hd.
      eapply hb; [apply H_scramble_data; right; exact Hd|]. intros d1 Hd1.
      eapply hb; [apply H_set_fields; exact Hd1|]. intros _ _.
      eapply hb; [apply H_presel; exact Hd1|]. intros d2 Hd2.
      eapply hb; [apply H_select|]. intros b Hb.
      eapply hb; [apply H_tidy; exact Hb|]. intros _ _. apply hret; exact Hb.
    + reflexivity.
    + destruct (R Hok) as (t & _ & Qt & Ew). rewrite Ew. exists t. split.
      * cbn. apply getroot_upd_same; exact Hi.
      * cbn [set_ev w_store]. rewrite Ew in G. eapply good_fresh; eauto.
  - destruct (nth_error (w_mc w) i) as [mc|]; [|discriminate].
    destruct (on_store_top w (gen_signal mc n fill gs) (fun w' t => set_sig w' i (Some t)) _
                (H_gen_signal _ _ mc n fill gs) (fun _ _ => eq_refl)) as (O & G & R).
    destruct (R Hok) as (t & _ & Qt & Ew). rewrite Ew. exists t. split.
    + cbn. apply getroot_upd_same; exact Hi.
    + cbn [set_sig w_store]. rewrite Ew in G. eapply good_fresh; eauto.
Qed.

(* MCDataSamplingBkgGenMethod: the generated events never alias the per-dataset cache (_cache_mc), whether the cache
   existed before the call or was created by it - at any point of any history (Inv holds along every history) *)
Theorem mc_generated_disjoint_from_cache : forall nB nT w i cfgf keepmc presel idx m,
  Inv nB nT w -> (i < length (w_ev w))%nat ->
  snd (step (GenBkgMC i cfgf keepmc presel idx m) w) = Ok tt ->
  let w' := fst (step (GenBkgMC i cfgf keepmc presel idx m) w) in
  exists t c, getroot (w_ev w') i = Some t /\ getroot (w_cache w') i = Some c /\
              disjoint_tables (w_store w') t c.
Proof.
  intros nB nT w i cfgf keepmc presel idx m Iw Hi Hok w'. subst w'. cbn [step] in *.
  destruct (nth_error (w_mc w) i) as [mc|]; [|discriminate].
  set (r1 := match getroot (w_cache w) i with Some c => (w, Ok tt) | None => _ end) in *.
  assert (T1 : Tr nB nT w (fst r1) /\ w_ev (fst r1) = w_ev w).
  { subst r1. destruct (getroot (w_cache w) i); [split; [apply Tr_refl; exact Iw | reflexivity]|].
    split.
    - eapply on_store_Tr with (Q := fun t => (nT <= t)%nat); [exact Iw | |].
      + eapply hb; [apply H_exp_fields|]. intros ef _.
        eapply hb; [apply H_copy|]. intros c Hc. apply H_presel; exact Hc.
      + intros w2 c Iw2 Hc. apply set_cache_inv; assumption.
    - unfold on_store.
      destruct ((mdo ef <-- exp_fields w i;; mdo c <-- t_copy mc (Some (cfgf ++ ef ++ keepmc));; presel_apply c presel) (w_store w))
        as [s' [a|e]]; reflexivity. }
  destruct r1 as [w1 [u|e]]; cbn [fst] in *; [|discriminate].
  destruct T1 as ((I1 & _) & Eev).
  destruct (getroot (w_cache w1) i) as [c|] eqn:Ec; [|discriminate].
  pose proof I1 as (G1 & RC & _).
  pose proof (getroot_ok nT _ _ _ RC Ec) as Hc.
  match type of Hok with snd (on_store w1 ?m ?k) = Ok tt =>
    destruct (on_store_top w1 m k (fun t => (length (st (w_store w1)) <= t)%nat)) as (O & G & R) end.
  - eapply hb; [apply H_select|]. intros b Hb.
    eapply hb; [apply H_scramble_data; right; exact Hb|]. intros b' Hb'.
    eapply hb; [apply H_exp_fields|]. intros ef _.
    eapply hb; [apply H_tidy; exact Hb'|]. intros _ _. apply hret; exact Hb'.
  - reflexivity.
  - destruct (R Hok) as (t & Em & Qt & Ew).
    (* the cache object exists in the store the selection was made from *)
    apply mbind_ok in Em as Hk. destruct Hk as (b & Esel & _).
    unfold t_select in Esel. apply mbind_ok in Esel as Hk. destruct Hk as (y & Ey & _).
    unfold rdtab in Ey. destruct (nth_error (st (w_store w1)) c) as [y'|] eqn:Ecy; [|discriminate].
    cbn in Ey. inversion Ey; subst y'. clear Ey.
    assert (Hclt : (c < length (st (w_store w1)))%nat) by (apply nth_error_Some_lt in Ecy; exact Ecy).
    destruct G1 as (_ & _ & _ & g4). pose proof (g4 c y Hc Ecy) as Vy.
    rewrite Ew in *. exists t, c. split; [cbn; apply getroot_upd_same; rewrite Eev; exact Hi|].
    split; [cbn; exact Ec|]. cbn [set_ev w_store] in *.
    split; [lia|]. intros x y2 Ex Ey2 p q Hp Hq.
    destruct O as (_ & OT). rewrite (OT c Hclt), Ecy in Ey2. inversion Ey2; subst y2.
    destruct G as (_ & _ & g3 & _). pose proof (g3 t x Qt Ex) as Fx.
    unfold own, ownf in Fx. rewrite Forall_forall in Fx. specialize (Fx p Hp). cbn beta in Fx.
    pose proof (valid_fields_lt _ _ q Vy Hq) as Hq'. intros Heq.
    pose proof (eq_ind _ (fun z => (length (sb (w_store w1)) <= z)%nat) Fx _ Heq) as Fq.
    exact (Nat.lt_irrefl _ (Nat.lt_le_trans _ _ _ Hq' Fq)).
Qed.

(* merge / injection (np.append): afterwards every column of the events table is a new array *)
Theorem append_fresh_columns : forall t src s,
  snd (t_append t src s) = Ok tt ->
  forall x, nth_error (st (fst (t_append t src s))) t = Some x ->
            Forall (fun p => (length (sb s) <= snd p)%nat) (tf x).
Proof.
  intros t src s Hok x Ex. unfold t_append in *.
  apply mbind_ok in Hok as Hk; destruct Hk as (x0 & E0 & E1); rewrite E1 in *; clear E1.
  apply mbind_ok in Hok as Hk; destruct Hk as (y0 & E0' & E1); rewrite E1 in *; clear E1.
  assert (S0 : fst (rdtab src (fst (rdtab t s))) = s).
  { unfold rdtab. destruct (nth_error (st s) t); cbn; destruct (nth_error (st s) src); reflexivity. }
  rewrite S0 in *.
  destruct (forallb _ _); [|discriminate].
  apply mbind_ok in Hok as Hk; destruct Hk as (fs & Efs & E1); rewrite E1 in *; clear E1.
  match type of Efs with snd (mapMM ?f ?l s) = Ok fs =>
    destruct (top_run (mapMM f l) (Forall (fun p => (length (sb s) <= snd p)%nat)) s) as (O & G & Q) end.
  { apply hmap. intros p _. eapply hb; [apply H_rdbuf|]. intros v _.
    eapply hb; [apply H_getitem|]. intros bs _.
    eapply hb; [apply H_rdbuf|]. intros vs _.
    eapply hb; [apply H_alloc|]. intros b Hb. apply hret; exact Hb. }
  specialize (Q fs Efs).
  unfold wrtab in Hok, Ex. destruct (valid_fields _ _); cbn [fst snd] in *; [|discriminate].
  cbn [st] in Ex.
  assert (Hlt := nth_error_Some_lt _ _ _ Ex). rewrite upd_length in Hlt.
  rewrite nth_error_upd_same in Ex by exact Hlt. inversion Ex; subst x. exact Q.
Qed.

Lemma K_storage_shapes : storage_shapes_pinned = true.
Proof. reflexivity. Qed.
Lemma K_gs_take : forall x, gs_take x = x.
Proof. reflexivity. Qed.

Lemma K_copy_statements : copy_statements_pinned = true.
Proof. reflexivity. Qed.
Lemma K_copy_calls : forall x,
  mc_cache_copy x = x /\ mc_draw_sel x = x /\ comp_mc_copy x = x /\ comp_draw_sel x = x /\
  sig_mc_sel x = x /\ sig_redraw_sel x = x /\ ctor_empty x = x /\ ctor_copyto x = x.
Proof. intros x. repeat split. Qed.

(* ================================================================ a copy has the content of its source *)
Definition copy_one (n : Z) (p : fid * bloc) : M (fid * bloc) :=
  mdo v <-- rdbuf (snd p) ;; mdo v' <-- lift (copyto_bcast n v) ;; mdo b <-- alloc v' ;; ret (fst p, b).

Lemma copy_one_spec n p s v :
  nth_error (sb s) (snd p) = Some v -> zlen v = n ->
  copy_one n p s = (mkS (sb s ++ [v]) (st s), Ok (fst p, length (sb s))).
Proof.
  intros E L. unfold copy_one, mbind, rdbuf, lift, copyto_bcast, alloc, ret. cbv beta.
  match goal with |- context [nth_error ?a ?b] => replace (nth_error a b) with (Some v) by (symmetry; exact E) end.
  cbv beta iota. rewrite L, Z.eqb_refl. reflexivity.
Qed.

Lemma copy_loop n kept : forall s,
  (forall p, In p kept -> exists v, nth_error (sb s) (snd p) = Some v /\ zlen v = n) ->
  exists s' fs, mapMM (copy_one n) kept s = (s', Ok fs) /\ st s' = st s /\
    (forall b, (b < length (sb s))%nat -> nth_error (sb s') b = nth_error (sb s) b) /\
    (length (sb s) <= length (sb s'))%nat /\
    map (fun q => (fst q, nth_error (sb s') (snd q))) fs = map (fun p => (fst p, nth_error (sb s) (snd p))) kept /\
    valid_fields s' fs = true.
Proof.
  induction kept as [|p r IH]; intros s Hk.
  - exists s, []. cbn. repeat split; auto.
  - destruct (Hk p (or_introl eq_refl)) as (v & Ev & Lv).
    set (s1 := mkS (sb s ++ [v]) (st s)).
    assert (Hk1 : forall q, In q r -> exists w, nth_error (sb s1) (snd q) = Some w /\ zlen w = n).
    { intros q Hq. destruct (Hk q (or_intror Hq)) as (w & Ew & Lw). exists w. split; [|exact Lw].
      subst s1; cbn [sb]. rewrite nth_error_app1; [exact Ew | apply nth_error_Some_lt in Ew; exact Ew]. }
    destruct (IH s1 Hk1) as (s' & fs & Em & Est & Eold & Elen & Emap & Eval).
    exists s', ((fst p, length (sb s)) :: fs).
    cbn [mapMM]. unfold mbind at 1. rewrite (copy_one_spec n p s v Ev Lv). fold s1.
    unfold mbind at 1. rewrite Em. cbn [ret fst snd].
    assert (Ls1 : length (sb s1) = S (length (sb s))) by (subst s1; cbn [sb]; rewrite app_length; cbn; lia).
    split; [reflexivity|]. split; [rewrite Est; reflexivity|]. split.
    + intros b Hb. rewrite Eold by lia. subst s1; cbn [sb]. apply nth_error_app1; exact Hb.
    + split; [lia|]. split.
      * cbn [map fst snd]. f_equal; [|rewrite Emap; apply map_ext_in; intros q Hq;
          destruct (Hk q (or_intror Hq)) as (w & Ew & _); f_equal; subst s1; cbn [sb];
          apply nth_error_app1; apply nth_error_Some_lt in Ew; exact Ew].
        f_equal. rewrite Eold by lia. subst s1; cbn [sb]. rewrite nth_error_snoc. symmetry; exact Ev.
      * unfold valid_fields in *. cbn [forallb snd]. rewrite Eval. rewrite andb_true_r.
        apply Nat.ltb_lt. lia.
Qed.

Lemma mbind_eq {A B} (m : M A) (f : A -> M B) s s1 a : m s = (s1, Ok a) -> mbind m f s = f a s1.
Proof. intros E. unfold mbind. rewrite E. reflexivity. Qed.

Lemma filter_true {A} (l : list A) : filter (fun _ => true) l = l.
Proof. induction l; cbn; congruence. Qed.

(* the full copy of a consistent table (every column exists and has the table's length) - what unblind hands to
   initialize_trial, what the experimental-data background method scrambles - has exactly the source's value view:
   field names in order, column contents (row order), length *)
Theorem copy_content : forall t s x,
  nth_error (st s) t = Some x ->
  (forall p, In p (tf x) -> exists v, nth_error (sb s) (snd p) = Some v /\ zlen v = tlen x) ->
  (tf x = [] -> tlen x = 0) ->
  exists t', snd (t_copy t None s) = Ok t' /\
             view (fst (t_copy t None s)) t' = view s t /\ (length (st s) <= t')%nat.
Proof.
  intros t s x Ex Hc He.
  destruct (copy_loop (tlen x) (tf x) s Hc) as (s' & fs & Em & Est & Eold & Elen & Emap & Eval).
  assert (Ecopy : t_copy t None s =
                  (mkS (sb s') (st s' ++ [mkT fs (match fs with [] => 0 | _ => tlen x end)]), Ok (length (st s')))).
  { unfold t_copy.
    rewrite (mbind_eq (rdtab t) _ s s x) by (unfold rdtab; rewrite Ex; reflexivity).
    cbv beta zeta. rewrite filter_true.
    change (fun p : fid * bloc => mdo v <-- rdbuf (snd p);; mdo v' <-- lift (copyto_bcast (tlen x) v);;
                                   mdo b <-- alloc v';; ret (fst p, b)) with (copy_one (tlen x)).
    rewrite (mbind_eq _ _ s s' fs Em). unfold newtab. cbn [tf]. rewrite Eval. reflexivity. }
  rewrite Ecopy. cbn [fst snd].
  exists (length (st s')). split; [reflexivity|]. split; [|rewrite Est; lia].
  unfold view; cbn [sb st]. rewrite nth_error_snoc, Ex. cbn [tf tlen]. unfold column; cbn [sb].
  f_equal. f_equal; [exact Emap|].
  destruct fs as [|q fs']; [|reflexivity].
  destruct (tf x) as [|p r]; [symmetry; apply He; reflexivity | cbn in Emap; discriminate].
Qed.

Lemma K_helper_bodies : helper_bodies_pinned = true.
Proof. reflexivity. Qed.

(* ================================================================ extension: DataField._calc_static_values *)
Lemma K_sv_shape_bad : forall n m, sv_shape_bad n m = negb (m =? n).
Proof.
  intros n m. unfold sv_shape_bad.
  destruct (Z.eqb_spec m n), (Z.eqb_spec n m); try reflexivity; congruence.
Qed.

(* a source-event data field is never written into the trial events array: no field binding of any table changes, no
   existing array is written - whatever the function returned, whether the shape test passes or not *)
Theorem static_srcevt_leaves_events : forall t f r n s,
  rebinds_only t [] s (fst (calc_static t f r true n s)).
Proof.
  intros t f r n s.
  assert (H : HF t [] (calc_static t f r true n) (fun _ => True)).
  { unfold calc_static. destruct r as [|fv]; [apply fraise|].
    eapply fb with (Q := fun _ => True).
    - destruct fv as [v|g]; [apply F_alloc | apply F_getitem].
    - intros b _; cbv beta. eapply fb; [apply F_rdbuf|]. intros v _; cbv beta.
      destruct (sv_shape_bad n (zlen v)); [apply fraise | apply fret; exact I]. }
  exact (proj1 (proj2 (H s I))).
Qed.

(* any other static data field: only the binding of that field of the events table changes (frame), and on success
   with a new array the field holds exactly the returned values *)
Theorem static_field_frame : forall t f r n s,
  rebinds_only t [f] s (fst (calc_static t f r false n s)) /\
  forall v, r = RArr (FFresh v) -> snd (calc_static t f r false n s) = Ok tt ->
            col (fst (calc_static t f r false n s)) t f = Some v.
Proof.
  intros t f r n s. split.
  - assert (H : HF t [f] (calc_static t f r false n) (fun _ => True)).
    { unfold calc_static. destruct r as [|fv]; [apply fraise|].
      eapply fb with (Q := fun _ => True).
      - destruct fv as [v|g]; [apply F_alloc | apply F_getitem].
      - intros b _; cbv beta. apply F_setitem. left; reflexivity. }
    exact (proj1 (proj2 (H s I))).
  - intros v -> Hok. unfold calc_static in *. apply alloc_then_setitem_col. exact Hok.
Qed.
