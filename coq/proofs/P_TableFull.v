(* C16 — the top-level statements: full refinement for every operation sequence, progress. *)
From Coq Require Import ZArith List Bool Lia Arith.
From Sky Require Import Result PyList G_table M_Table S_Table S_TableInterp P_TableBase P_TableOps P_TableOps2 P_TableOps3 P_TableCtor P_Table P_TableSim P_TableSim2 P_TableSim3 P_TableSim4 P_TableSim5.
Import ListNotations.
Open Scope Z_scope.

Lemma full_refinement_from : forall ops w, winv w -> Forall op_wf ops ->
  absw (run w ops) = s_run (absw w) ops /\ map fst (run_obs w ops) = s_outcomes (absw w) ops.
Proof.
  induction ops as [|p r IH]; intros w W F; cbn [run s_run run_obs s_outcomes map]; [split; reflexivity|].
  inversion F as [|? ? Fp Fr]; subst.
  pose proof (sim_step w p W Fp) as S. pose proof (step_spec w p W Fp) as [W' _].
  destruct (step w p) as [w' x] eqn:ST. cbn [fst snd] in *.
  destruct (s_step (absw w) p) as [ws' x'] eqn:SS. inversion S; subst ws' x'. cbn [fst snd map].
  destruct (IH w' W' Fr) as [I1 I2]. split; [assumption | f_equal; assumption].
Qed.

Theorem full_refinement : forall ops, Forall op_wf ops ->
  absw (run empty_world ops) = s_run [] ops
  /\ map fst (run_obs empty_world ops) = s_outcomes [] ops.
Proof. intros ops F. exact (full_refinement_from ops empty_world winv_empty F). Qed.

(* ---- progress: the only ways to get Stuck *)
Definition op_tables (p : op) : list nat :=
  match p with
  | OCtor _ _ _ _ _ => []
  | OCtorFrom src _ _ _ | OSelect src _ => [src]
  | OSetSel t _ src | OAppend t src | OSetItemFrom t _ src _ => [t; src]
  | OAppendField t _ _ | OSetItem t _ _ | ORemove t _ | ORename t _ _ | OTidy t _ | OSort t _ _
  | OConvert t _ _ | OSetDtype t _ _ | OIndices t => [t]
  end.

Definition oracle_ok (ws : list atable) (p : op) : Prop :=
  match p with
  | OSort t n perm => forall o key, nth_error ws t = Some o -> assoc n (acols o) = Some key ->
                                    argsort_ok (bdata key) perm = true
  | _ => True
  end.

Lemma s_put_table_not_stuck : forall ws t r, snd (s_put_table ws t r) <> Stuck.
Proof. intros ws t [a|e]; cbn; discriminate. Qed.
Lemma s_new_table_not_stuck : forall ws r, snd (s_new_table ws r) <> Stuck.
Proof. intros ws [a|e]; cbn; discriminate. Qed.

Lemma s_step_progress : forall ws p,
  (forall t, In t (op_tables p) -> (t < length ws)%nat) -> oracle_ok ws p -> snd (s_step ws p) <> Stuck.
Proof.
  intros ws p Hin Hor.
  assert (G : forall t, In t (op_tables p) -> exists a, nth_error ws t = Some a).
  { intros t Ht. destruct (nth_error ws t) eqn:Q; [eauto|]. apply nth_error_None in Q. apply Hin in Ht. lia. }
  destruct p; cbn [s_step op_tables] in *; unfold s_on;
    try (destruct (G t (or_introl eq_refl)) as [a Ha]; rewrite Ha);
    try (destruct (G src (or_introl eq_refl)) as [a' Ha']; rewrite ?Ha');
    try apply s_put_table_not_stuck; try apply s_new_table_not_stuck.
  - destruct (G src (or_intror (or_introl eq_refl))) as [a2 ->]. apply s_put_table_not_stuck.
  - destruct (G src (or_intror (or_introl eq_refl))) as [a2 ->]. apply s_put_table_not_stuck.
  - unfold s_sort. destruct (assoc n (acols a)) as [key|] eqn:A; [|apply s_put_table_not_stuck].
    cbn [oracle_ok] in Hor. rewrite (Hor a key Ha A). apply s_put_table_not_stuck.
  - destruct (G src (or_intror (or_introl eq_refl))) as [a2 ->].
    destruct (assoc m (acols a2)); [apply s_put_table_not_stuck | cbn; discriminate].
Qed.

Theorem progress : forall ops p, Forall op_wf ops -> op_wf p ->
  let w := run empty_world ops in
  (forall t, In t (op_tables p) -> (t < length (wobjs w))%nat) -> oracle_ok (absw w) p ->
  snd (step w p) <> Stuck.
Proof.
  intros ops p F Fp w Hin Hor.
  pose proof (sim_step w p (run_inv ops empty_world winv_empty F) Fp) as S.
  assert (Q : snd (step w p) = snd (s_step (absw w) p)) by (rewrite <- S; reflexivity).
  rewrite Q. apply s_step_progress; [|assumption]. intros t Ht. unfold absw; rewrite map_length. apply Hin; assumption.
Qed.

(* a raising operation changes no table (values, lengths, cache flags of ALL live tables) *)
Theorem failed_op_changes_nothing : forall ops p e, Forall op_wf ops -> op_wf p ->
  let w := run empty_world ops in
  snd (step w p) = Raised e -> absw (fst (step w p)) = absw w.
Proof.
  intros ops p e F Fp w H.
  pose proof (sim_step w p (run_inv ops empty_world winv_empty F) Fp) as S.
  destruct (step w p) as [w' x]; cbn [fst snd] in *. subst x.
  assert (Q : forall ws q e0, snd (s_step ws q) = Raised e0 -> fst (s_step ws q) = ws).
  { clear. intros ws q e0. destruct q; cbn [s_step]; unfold s_on;
      repeat match goal with |- context [nth_error ws ?t] => destruct (nth_error ws t) end;
      try (cbn; discriminate);
      try (match goal with |- context [s_put_table _ _ ?r] => destruct r; cbn; intros; try discriminate; reflexivity end);
      try (match goal with |- context [s_new_table _ ?r] => destruct r; cbn; intros; try discriminate; reflexivity end).
    - destruct (s_sort a n perm) as [r|]; [destruct r; cbn; intros; try discriminate; reflexivity | cbn; discriminate].
    - destruct (assoc m (acols a0)); [|cbn; intros; reflexivity].
      match goal with |- context [s_put_table _ _ ?r] => destruct r; cbn; intros; try discriminate; reflexivity end. }
  specialize (Q (absw w) p e). rewrite <- S in Q. cbn [fst snd] in Q. apply Q; reflexivity.
Qed.
