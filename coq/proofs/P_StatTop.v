(* Proofs for C12, part 3: the statements of props/Prop_C12.v, assembled from
   P_Stat.v (counting, lookups, keyword binding) and P_StatR.v (real-number
   reading).  Prop_C12.v only restates these with `exact`. *)
From Coq Require Import Reals ZArith List Bool Lia Lra.
From Sky Require Import Result PyList Num NumR G_stat M_Stat S_Stat P_Stat P_StatR.
Import ListNotations.
Open Scope R_scope.

Section Top.
  Variable e : R -> R.
  Notation N := (RNum e).

  (* ---------------------------------------------------------------- TS *)
  Lemma top_ts_wilks floating nm ll fpv :
    wilks N floating nm ll fpv =
      (do i <- get_gflp_idx floating nm;
       do ns <- py_get fpv i;
       Ok (2 * (if Rlt_dec ns 0 then -1 else 1) * ll)).
  Proof. exact (wilks_char e floating nm ll fpv). Qed.

  Lemma top_ts_wilks_cases floating nm ll fpv i ns :
    get_gflp_idx floating nm = Ok i -> py_get fpv i = Ok ns ->
    (ns < 0 -> wilks N floating nm ll fpv = Ok (- (2 * ll)))
    /\ (ns = 0 -> wilks N floating nm ll fpv = Ok (2 * ll))
    /\ (0 < ns -> wilks N floating nm ll fpv = Ok (2 * ll)).
  Proof.
    intros Hi Hns. rewrite top_ts_wilks, Hi. cbn [bind]. rewrite Hns. cbn [bind].
    repeat split; intros H; destruct (Rlt_dec ns 0); try lra; f_equal; ring.
  Qed.

  Lemma top_ts_taylor floating nm ll fpv llh grads :
    taylor N floating nm ll fpv llh grads =
      (do i <- get_gflp_idx floating nm;
       do ns <- py_get fpv i;
       if Req_EM_T ns 0 then
         do a <- py_get grads i;
         do _ <- create_src_params_recarray floating fpv;
         do b <- call_kw (c_sig llh) taylor_call_kws (c_body llh ns i);
         Ok (ts_taylor_apex N a b)
       else Ok (2 * (if Rlt_dec ns 0 then -1 else 1) * ll)).
  Proof. exact (taylor_char e taylor_call_kws floating nm ll fpv llh grads). Qed.

  (* ns = 0: the documented expression -2 a^2 / (4 b), a = grads[ns], b = what
     calculate_ns_grad2(ns=0, ns_pidx, src_params_recarray, tl) returns *)
  Lemma top_ts0 floating nm ll fpv llh grads i a b :
    get_gflp_idx floating nm = Ok i -> py_get fpv i = Ok 0 -> py_get grads i = Ok a ->
    zlen fpv = zlen floating -> In (c_sig llh) real_sigs -> c_body llh 0 i = Ok b -> b <> 0 ->
    taylor N floating nm ll fpv llh grads = Ok (- 2 * (a * a / (4 * b))).
  Proof.
    intros Hi Hns Ha HL HS Hb Hb0. rewrite top_ts_taylor, Hi. cbn [bind]. rewrite Hns. cbn [bind].
    destruct (Req_EM_T 0 0) as [_|E]; [|contradiction E; reflexivity].
    rewrite Ha. cbn [bind]. unfold create_src_params_recarray. rewrite HL, Z.eqb_refl. cbn [bind].
    unfold call_kw. rewrite (real_sigs_accept_current_call _ HS), Hb. cbn [bind].
    rewrite K_ts_taylor_apex by exact Hb0. reflexivity.
  Qed.

  Lemma top_ts0_apex a b :
    b < 0 ->
    0 <= - 2 * (a * a / (4 * b))
    /\ - 2 * (a * a / (4 * b)) = 2 * (a * (- a / (2 * b)) + b * ((- a / (2 * b)) * (- a / (2 * b))))
    /\ (forall x, a * x + b * (x * x) <= a * (- a / (2 * b)) + b * ((- a / (2 * b)) * (- a / (2 * b))))
    /\ - 2 * (a * a / (4 * b)) = a * (- a / b) + b / 2 * ((- a / b) * (- a / b))
    /\ (forall x, a * x + b / 2 * (x * x) <= a * (- a / b) + b / 2 * ((- a / b) * (- a / b))).
  Proof.
    intros Hb. split; [exact (TS0_nonneg a b Hb)|].
    destruct (TS0_twice_parabola_apex a b Hb) as [P1 P2].
    destruct (TS0_taylor2_apex a b Hb) as [Q1 Q2].
    repeat split; assumption.
  Qed.

  (* ---------------------------------------------------------------- computability *)
  Lemma top_public_wilks floating nm ll fpv :
    In nm floating -> zlen fpv = zlen floating ->
    exists ns, analysis_public_ts N VWilks floating nm ll fpv
               = Ok (2 * (if Rlt_dec ns 0 then -1 else 1) * ll).
  Proof.
    intros HIn HL. unfold analysis_public_ts, analysis_calculate_ts. rewrite top_ts_wilks.
    destruct (get_gflp_idx_In _ _ HIn) as [i Hi]. pose proof (get_gflp_idx_bounds _ _ _ Hi) as Bi.
    rewrite Hi. cbn [bind]. destruct (py_get_ok fpv i) as [ns Hns]; [lia|]. rewrite Hns. cbn [bind]. eauto.
  Qed.

  Lemma top_public_taylor_fails floating nm ll fpv :
    analysis_public_ts N VTaylor floating nm ll fpv = Err TypeError.
  Proof. reflexivity. Qed.

  Lemma top_computable_refuted :
    exists floating nm ll fpv,
      In nm floating /\ zlen fpv = zlen floating
      /\ analysis_public_ts N VTaylor floating nm ll fpv = Err TypeError.
  Proof.
    exists [7%Z], 7%Z, 0, [0]. split; [left; reflexivity|]. split; reflexivity.
  Qed.

  Lemma top_direct_taylor floating nm ll fpv (llh : callee R) grads :
    In nm floating -> zlen fpv = zlen floating -> zlen grads = zlen floating ->
    In (c_sig llh) real_sigs ->
    (forall ns i, exists b, c_body llh ns i = Ok b) ->
    exists ts, analysis_calculate_ts N VTaylor floating nm ll fpv (Some llh) (Some grads) = Ok ts.
  Proof.
    intros. cbn [analysis_calculate_ts]. apply taylor_computable; assumption.
  Qed.

  (* ---------------------------------------------------------------- p-values *)
  Definition n_above (op : comp_op) (ts : list Z) (t : Z) : Z :=
    match op with Greater => n_greater ts t | _ => n_greater_equal ts t end.

  Lemma pval_trials_ok op ts t :
    ts <> [] -> op <> OtherOp ->
    pval_trials N op ts t =
      Ok (IZR (n_above op ts t) / IZR (zlen ts),
          sqrt (IZR (n_above op ts t) / IZR (zlen ts) * (1 - IZR (n_above op ts t) / IZR (zlen ts)) / IZR (zlen ts))).
  Proof.
    intros Hne Hop. rewrite pval_trials_char, pval_counts_char.
    apply zlen_pos_iff in Hne. destruct op; try congruence; rewrite Hne; reflexivity.
  Qed.

  Lemma n_above_range op ts t : (0 <= n_above op ts t <= zlen ts)%Z.
  Proof. destruct op; apply count_spec_range. Qed.

  Lemma zlen_pos {A} (l : list A) : l <> [] -> (0 < zlen l)%Z.
  Proof. unfold zlen. destruct l; [congruence|]. cbn [length]. lia. Qed.

  Lemma top_pval_range op ts t :
    ts <> [] -> op <> OtherOp ->
    exists p s,
      pval_trials N op ts t = Ok (p, s)
      /\ p = IZR (match op with Greater => n_greater ts t | _ => n_greater_equal ts t end) / IZR (zlen ts)
      /\ 0 <= p <= 1
      /\ 0 <= s <= 1 / 2 /\ s * s = p * (1 - p) / IZR (zlen ts).
  Proof.
    intros Hne Hop. eexists. eexists. split; [apply pval_trials_ok; assumption|].
    split; [reflexivity|].
    pose proof (pfrac_range _ _ (n_above_range op ts t) (zlen_pos ts Hne)) as Hp.
    split; [exact Hp|].
    destruct (psigma_props _ _ Hp (zlen_pos ts Hne)) as [_ [S1 [S2 S3]]].
    repeat split; assumption.
  Qed.

  Lemma pval_trials_inv op ts t p s :
    pval_trials N op ts t = Ok (p, s) ->
    ts <> [] /\ op <> OtherOp /\ p = IZR (n_above op ts t) / IZR (zlen ts).
  Proof.
    intros H. assert (Hne : ts <> []).
    { intros ->. rewrite pval_trials_char, pval_counts_char in H. destruct op; discriminate. }
    assert (Hop : op <> OtherOp).
    { intros ->. rewrite pval_trials_char, pval_counts_char in H. discriminate. }
    rewrite (pval_trials_ok op ts t Hne Hop) in H. inversion H. auto.
  Qed.

  Lemma top_pval_mono op ts t t' p s p' s' :
    (t <= t')%Z -> pval_trials N op ts t = Ok (p, s) -> pval_trials N op ts t' = Ok (p', s') -> p' <= p.
  Proof.
    intros Ht H1 H2. apply pval_trials_inv in H1, H2.
    destruct H1 as [Hne [Hop ->]]. destruct H2 as [_ [_ ->]].
    apply pfrac_le; [apply zlen_pos; exact Hne|].
    destruct op; [apply n_greater_mono | apply n_greater_equal_mono | congruence]; exact Ht.
  Qed.

  Lemma top_pval_incl ts t p s p' s' :
    pval_trials N Greater ts t = Ok (p, s) -> pval_trials N GreaterEqual ts t = Ok (p', s') -> p <= p'.
  Proof.
    intros H1 H2. apply pval_trials_inv in H1, H2.
    destruct H1 as [Hne [_ ->]]. destruct H2 as [_ [_ ->]].
    apply pfrac_le; [apply zlen_pos; exact Hne|]. apply n_ge_gt.
  Qed.

  (* strict at t dominates inclusive at any larger threshold; the two differ
     exactly by the fraction of ties *)
  Lemma top_pval_next ts t t' p s p' s' :
    (t < t')%Z -> pval_trials N Greater ts t = Ok (p, s) -> pval_trials N GreaterEqual ts t' = Ok (p', s') ->
    p' <= p.
  Proof.
    intros Ht H1 H2. apply pval_trials_inv in H1, H2.
    destruct H1 as [Hne [_ ->]]. destruct H2 as [_ [_ ->]].
    apply pfrac_le; [apply zlen_pos; exact Hne|]. apply n_gt_ge_next. exact Ht.
  Qed.

  Lemma top_pval_ties ts t p s p' s' :
    pval_trials N Greater ts t = Ok (p, s) -> pval_trials N GreaterEqual ts t = Ok (p', s') ->
    p' = p + IZR (count_spec (fun x => (x =? t)%Z) ts) / IZR (zlen ts).
  Proof.
    intros H1 H2. apply pval_trials_inv in H1, H2.
    destruct H1 as [Hne [_ ->]]. destruct H2 as [_ [_ ->]].
    cbn [n_above]. rewrite n_ge_gt_ties, plus_IZR.
    assert (IZR (zlen ts) <> 0) by (apply not_0_IZR; pose proof (zlen_pos ts Hne); lia).
    field. assumption.
  Qed.

  Lemma top_pval_errors op ts t :
    (op = OtherOp -> pval_trials N op ts t = Err ValueError)
    /\ (op <> OtherOp -> ts = [] -> pval_trials N op ts t = Err ZeroDivision).
  Proof.
    split.
    - intros ->. reflexivity.
    - intros Hop ->. rewrite pval_trials_char, pval_counts_char. destruct op; try congruence; reflexivity.
  Qed.

  (* ---------------------------------------------------------------- polynomial inversion *)
  Lemma top_poly_deg1 polyfit p x :
    polynomial_fit N polyfit 1%Z p = Ok x ->
    exists cs a b, polyfit 1%Z = Ok cs /\ py_get cs 0%Z = Ok a /\ py_get cs 1%Z = Ok b
                   /\ x = (p - b) / a /\ (a <> 0 -> a * x + b = p).
  Proof.
    rewrite poly_fit_char. destruct (polyfit 1%Z) as [cs|er]; cbn [bind]; [|discriminate].
    change (1 =? 2)%Z with false. change (1 =? 1)%Z with true.
    destruct (py_get cs 0%Z) as [a|er] eqn:EA; cbn [bind]; [|discriminate].
    destruct (py_get cs 1%Z) as [b|er] eqn:EB; cbn [bind]; [|discriminate].
    intros H. injection H as Hx. subst x. exists cs, a, b.
    split; [reflexivity|]. split; [exact EA|]. split; [exact EB|]. split.
    - unfold poly_inv1. num_R. reflexivity.
    - intros Ha. exact (K_poly_inv1 e p b a Ha).
  Qed.

  Lemma top_poly_deg2 polyfit p x :
    polynomial_fit N polyfit 2%Z p = Ok x ->
    exists cs a, polyfit 2%Z = Ok cs /\ py_get cs 0%Z = Ok a
      /\ ((0 < a /\ polynomial_fit N polyfit 1%Z p = Ok x)
          \/ (~ 0 < a /\ exists b c, py_get cs 1%Z = Ok b /\ py_get cs 2%Z = Ok c
              /\ (a <> 0 -> 0 <= b * b - 4 * a * (c - p) ->
                  a * (x * x) + b * x + c = p /\ 0 <= 2 * a * x + b
                  /\ forall y, a * (y * y) + b * y + c = p -> x <= y))).
  Proof.
    rewrite (poly_fit_char e polyfit 2%Z), (poly_fit_char e polyfit 1%Z).
    destruct (polyfit 2%Z) as [cs|er]; cbn [bind]; [|discriminate].
    change (2 =? 2)%Z with true. change (1 =? 2)%Z with false. change (1 =? 1)%Z with true.
    destruct (py_get cs 0%Z) as [a|er] eqn:EA; cbn [bind]; [|discriminate].
    intros H. exists cs, a. split; [reflexivity|]. split; [exact EA|].
    destruct (Rlt_dec 0 a) as [H0|H0].
    - left. split; [exact H0|]. exact H.
    - right. split; [exact H0|].
      destruct (py_get cs 1%Z) as [b|er] eqn:EB; cbn [bind] in H; [|discriminate].
      destruct (py_get cs 2%Z) as [c|er] eqn:EC; cbn [bind] in H; [|discriminate].
      injection H as Hx. subst x. exists b, c. split; [first [exact EB|reflexivity]|]. split; [first [exact EC|reflexivity]|].
      intros Ha HD. destruct (poly_inv2_spec e a b c p Ha HD) as [Q1 [Q2 Q3]].
      split; [exact Q1|]. split; [exact Q2|]. apply Q3. lra.
  Qed.

  Lemma top_poly_guard a b c p :
    a <> 0 -> ((exists y, a * (y * y) + b * y + c = p) <-> 0 <= b * b - 4 * a * (c - p)).
  Proof. exact (quad_solvable_iff a b c p). Qed.

  Lemma top_poly_total polyfit deg p :
    (forall d, (d = 1 \/ d = 2)%Z -> exists cs, polyfit d = Ok cs /\ zlen cs = (d + 1)%Z) ->
    ((deg = 1 \/ deg = 2)%Z -> exists x, polynomial_fit N polyfit deg p = Ok x)
    /\ (deg <> 1%Z -> deg <> 2%Z -> forall cs, polyfit deg = Ok cs ->
        polynomial_fit N polyfit deg p = Err ValueError).
  Proof.
    intros Hc. split.
    - intros Hd. apply poly_fit_total; assumption.
    - intros H1 H2 cs HP. eapply poly_fit_bad_degree; eauto.
  Qed.
End Top.
