(* Proofs for C12, part 2: the real-number reading (instance RNum) of the test
   statistics, of (p, p_sigma), of and of the polynomial inversions. *)
From Coq Require Import Reals ZArith List Bool Lia Lra Psatz.
From Sky Require Import Result PyList Num NumR G_stat M_Stat S_Stat P_Stat.
Import ListNotations.
Open Scope R_scope.

Section R.
  Variable e : R -> R.
  Notation N := (RNum e).

  (* ---------------------------------------------------------------- K: formulas *)
  Lemma K_ts_wilks_sgn ns s : ts_wilks_sgn N ns s = if Req_EM_T ns 0 then 1 else s.
  Proof. unfold ts_wilks_sgn. num_R. unfold Reqb. destruct (Req_EM_T ns 0); reflexivity. Qed.

  Lemma K_ts_wilks s ll : ts_wilks N s ll = 2 * s * ll.
  Proof. unfold ts_wilks. num_R. ring. Qed.

  Lemma K_ts_taylor_is0 ns : ts_taylor_is0 N ns = true <-> ns = 0.
  Proof. unfold ts_taylor_is0. num_R. apply Reqb_true. Qed.

  Lemma K_ts_taylor_apex a b : b <> 0 -> ts_taylor_apex N a b = TS0_doc a b.
  Proof. intros Hb. unfold ts_taylor_apex, TS0_doc. num_R. field. exact Hb. Qed.

  Lemma K_ts_taylor_wilks ll s : ts_taylor_wilks N ll s = 2 * s * ll.
  Proof. unfold ts_taylor_wilks. num_R. ring. Qed.

  Lemma K_pval_gt k n : pval_gt N k n = IZR k / IZR n.
  Proof. unfold pval_gt. num_R. reflexivity. Qed.
  Lemma K_pval_ge k n : pval_ge N k n = IZR k / IZR n.
  Proof. unfold pval_ge. num_R. reflexivity. Qed.
  Lemma K_pval_sigma p n : pval_sigma N p n = sqrt (p * (1 - p) / IZR n).
  Proof. unfold pval_sigma. num_R. reflexivity. Qed.

  Lemma K_poly_fallback deg a0 : poly_fallback N deg a0 = true <-> deg = 2%Z /\ 0 < a0.
  Proof.
    unfold poly_fallback. num_R. rewrite andb_true_iff, Reqb_true, Rltb_true.
    split; intros [H1 H2]; split; auto.
    - apply eq_IZR. exact H1.
    - subst. reflexivity.
  Qed.

  Lemma K_poly_inv1 p b a : a <> 0 -> line a b (poly_inv1 N p b a) = p.
  Proof. intros Ha. unfold poly_inv1, line. num_R. field. exact Ha. Qed.

  Lemma K_poly_inv2 a b c p :
    a <> 0 -> 0 <= b * b - 4 * a * (c - p) ->
    2 * a * poly_inv2 N a b c p + b = sqrt (b * b - 4 * a * (c - p)).
  Proof.
    intros Ha HD. unfold poly_inv2. num_R.
    replace (b * b - 4 * a * (c - p)) with (b * b - 4 * a * (c - p)) by ring.
    field. exact Ha.
  Qed.

  (* ---------------------------------------------------------------- sign *)
  Lemma nsign_R x :
    nsign N x = if Rlt_dec x 0 then -1 else if Rlt_dec 0 x then 1 else x.
  Proof. unfold nsign. num_R. unfold Rltb. destruct (Rlt_dec x 0); [reflexivity|]. destruct (Rlt_dec 0 x); reflexivity. Qed.

  Lemma wilks_value ns ll :
    ts_wilks N (ts_wilks_sgn N ns (nsign N ns)) ll = TS_doc ns ll.
  Proof.
    rewrite K_ts_wilks, K_ts_wilks_sgn, nsign_R. unfold TS_doc, sgn_doc.
    destruct (Req_EM_T ns 0) as [E|E].
    - subst. destruct (Rlt_dec 0 0); [lra|reflexivity].
    - destruct (Rlt_dec ns 0); [reflexivity|]. destruct (Rlt_dec 0 ns); [reflexivity|lra].
  Qed.

  Lemma taylor_wilks_value ns ll :
    ns <> 0 -> ts_taylor_wilks N ll (nsign N ns) = TS_doc ns ll.
  Proof.
    intros Hns. rewrite K_ts_taylor_wilks, nsign_R. unfold TS_doc, sgn_doc.
    destruct (Rlt_dec ns 0); [reflexivity|]. destruct (Rlt_dec 0 ns); [reflexivity|lra].
  Qed.

  (* ---------------------------------------------------------------- the two __call__s, for every input *)
  Lemma wilks_char floating nm ll fpv :
    wilks N floating nm ll fpv =
      (do i <- get_gflp_idx floating nm; do ns <- py_get fpv i; Ok (TS_doc ns ll)).
  Proof.
    unfold wilks. destruct (get_gflp_idx floating nm) as [i|er]; cbn [bind]; [|reflexivity].
    rewrite K_ts_wilks_ns_idx0. destruct (py_get fpv i) as [ns|er]; cbn [bind]; [|reflexivity].
    rewrite wilks_value. reflexivity.
  Qed.

  Lemma taylor_char kws floating nm ll fpv llh grads :
    taylor_with N kws floating nm ll fpv llh grads =
      (do i <- get_gflp_idx floating nm;
       do ns <- py_get fpv i;
       if Req_EM_T ns 0 then
         do a <- py_get grads i;
         do _ <- create_src_params_recarray floating fpv;
         do b <- call_kw (c_sig llh) kws (c_body llh ns i);
         Ok (ts_taylor_apex N a b)
       else Ok (TS_doc ns ll)).
  Proof.
    unfold taylor_with. destruct (get_gflp_idx floating nm) as [i|er]; cbn [bind]; [|reflexivity].
    rewrite K_ts_taylor_ns_idx0. destruct (py_get fpv i) as [ns|er]; cbn [bind]; [|reflexivity].
    destruct (ts_taylor_is0 N ns) eqn:E0.
    - apply K_ts_taylor_is0 in E0. destruct (Req_EM_T ns 0); [|contradiction].
      rewrite K_ts_taylor_nsgrad_idx0, K_ts_taylor_call_ns, K_ts_taylor_call_ns_pidx. reflexivity.
    - destruct (Req_EM_T ns 0) as [E|E].
      + apply K_ts_taylor_is0 in E. congruence.
      + rewrite taylor_wilks_value by exact E. reflexivity.
  Qed.

  (* ---------------------------------------------------------------- ns = 0: the apex expression *)
  Lemma TS0_nonneg a b : b < 0 -> 0 <= TS0_doc a b.
  Proof.
    intros Hb. unfold TS0_doc.
    replace (- 2 * (a * a / (4 * b))) with ((a * a) * / (2 * - b)) by (field; lra).
    apply Rmult_le_pos; [nra|]. left. apply Rinv_0_lt_compat. lra.
  Qed.

  (* twice the apex value of the parabola a x + b x^2 *)
  Lemma TS0_twice_parabola_apex a b :
    b < 0 ->
    TS0_doc a b = 2 * parabola a b (- a / (2 * b))
    /\ forall x, parabola a b x <= parabola a b (- a / (2 * b)).
  Proof.
    intros Hb. unfold TS0_doc, parabola. split.
    - field. lra.
    - intros x.
      assert (H : a * (- a / (2 * b)) + b * (- a / (2 * b) * (- a / (2 * b))) - (a * x + b * (x * x))
                  = - b * ((x + a / (2 * b)) * (x + a / (2 * b)))) by (field; lra).
      assert (0 <= - b * ((x + a / (2 * b)) * (x + a / (2 * b)))) by (apply Rmult_le_pos; [lra|exact (Rle_0_sqr _)]).
      lra.
  Qed.

  (* ... which is the apex value itself (not twice it) of the second-order
     Taylor polynomial a x + (b/2) x^2 of log Lambda *)
  Lemma TS0_taylor2_apex a b :
    b < 0 ->
    TS0_doc a b = taylor2 a b (- a / b)
    /\ forall x, taylor2 a b x <= taylor2 a b (- a / b).
  Proof.
    intros Hb. unfold TS0_doc, taylor2. split.
    - field. lra.
    - intros x.
      assert (H : a * (- a / b) + b / 2 * (- a / b * (- a / b)) - (a * x + b / 2 * (x * x))
                  = - b / 2 * ((x + a / b) * (x + a / b))) by (field; lra).
      assert (0 <= - b / 2 * ((x + a / b) * (x + a / b))) by (apply Rmult_le_pos; [lra|exact (Rle_0_sqr _)]).
      lra.
  Qed.

  (* ---------------------------------------------------------------- (p, p_sigma) *)
  Lemma pval_trials_char op ts t :
    pval_trials N op ts t =
      match pval_counts op ts t with
      | Ok (k, n) => let p := IZR k / IZR n in Ok (p, sqrt (p * (1 - p) / IZR n))
      | Err er => Err er
      end.
  Proof.
    unfold pval_trials. destruct (pval_counts op ts t) as [[k n]|er]; cbn [bind fst snd]; [|reflexivity].
    destruct op; rewrite ?K_pval_gt, ?K_pval_ge, K_pval_sigma; reflexivity.
  Qed.

  Lemma pfrac_range k n : (0 <= k <= n)%Z -> (0 < n)%Z -> 0 <= IZR k / IZR n <= 1.
  Proof.
    intros [Hk1 Hk2] Hn. apply IZR_le in Hk1, Hk2. apply IZR_lt in Hn.
    split.
    - apply Rmult_le_pos; [exact Hk1|]. left. apply Rinv_0_lt_compat. exact Hn.
    - apply (Rmult_le_reg_r (IZR n)); [exact Hn|]. unfold Rdiv.
      rewrite Rmult_assoc, Rinv_l by lra. lra.
  Qed.

  Lemma pfrac_le k k' n : (0 < n)%Z -> (k' <= k)%Z -> IZR k' / IZR n <= IZR k / IZR n.
  Proof.
    intros Hn Hk. apply IZR_lt in Hn. apply IZR_le in Hk.
    unfold Rdiv. apply Rmult_le_compat_r; [|exact Hk]. left. apply Rinv_0_lt_compat. exact Hn.
  Qed.

  Lemma psigma_props p n :
    0 <= p <= 1 -> (0 < n)%Z ->
    let s := sqrt (p * (1 - p) / IZR n) in
    0 <= p * (1 - p) / IZR n /\ 0 <= s /\ s * s = p * (1 - p) / IZR n /\ s <= 1 / 2.
  Proof.
    intros Hp Hn s. assert (Hn1 : 1 <= IZR n) by (apply IZR_le; lia).
    assert (Hr : 0 <= p * (1 - p) / IZR n).
    { apply Rmult_le_pos; [nra|]. left. apply Rinv_0_lt_compat. lra. }
    assert (Hs : s * s = p * (1 - p) / IZR n) by (apply sqrt_sqrt; exact Hr).
    assert (Hs0 : 0 <= s) by apply sqrt_pos.
    repeat split; auto.
    assert (Hq : p * (1 - p) / IZR n <= 1 / 4).
    { apply (Rmult_le_reg_r (IZR n)); [lra|]. unfold Rdiv at 1.
      rewrite Rmult_assoc, Rinv_l by lra.
      assert (p * (1 - p) <= 1 / 4) by (pose proof (Rle_0_sqr (p - 1 / 2)) as Q; unfold Rsqr in Q; lra).
      lra. }
    fold s in Hs. nra.
  Qed.

  (* ---------------------------------------------------------------- inversions *)
  Lemma quad_root_of_sqrt a b c p x :
    a <> 0 -> 0 <= b * b - 4 * a * (c - p) ->
    2 * a * x + b = sqrt (b * b - 4 * a * (c - p)) -> quadratic a b c x = p.
  Proof.
    intros Ha HD Hx. unfold quadratic.
    assert (Hs : sqrt (b * b - 4 * a * (c - p)) * sqrt (b * b - 4 * a * (c - p)) = b * b - 4 * a * (c - p))
      by (apply sqrt_sqrt; exact HD).
    rewrite <- Hx in Hs.
    assert (H4 : 4 * a * (a * (x * x) + b * x + c - p) = 0) by lra.
    assert (H5 : a * (x * x) + b * x + c - p = 0).
    { destruct (Rmult_integral _ _ H4) as [H|H]; [lra|exact H]. }
    lra.
  Qed.

  Lemma quad_root_disc a b c p y :
    quadratic a b c y = p ->
    (2 * a * y + b) * (2 * a * y + b) = b * b - 4 * a * (c - p).
  Proof. unfold quadratic. intros H. subst p. ring. Qed.

  Lemma quad_solvable_iff a b c p :
    a <> 0 -> ((exists y, quadratic a b c y = p) <-> 0 <= b * b - 4 * a * (c - p)).
  Proof.
    intros Ha. split.
    - intros [y Hy]. rewrite <- (quad_root_disc _ _ _ _ _ Hy). exact (Rle_0_sqr _).
    - intros HD. exists ((- b + sqrt (b * b - 4 * a * (c - p))) / (2 * a)).
      apply quad_root_of_sqrt; auto. field. exact Ha.
  Qed.

  (* the root returned is the one on the rising branch; for a < 0 it is the
     smallest solution *)
  Lemma quad_smallest_root a b c p x y :
    a < 0 -> 0 <= b * b - 4 * a * (c - p) ->
    2 * a * x + b = sqrt (b * b - 4 * a * (c - p)) ->
    quadratic a b c y = p -> x <= y.
  Proof.
    intros Ha HD Hx Hy. apply quad_root_disc in Hy.
    assert (Hs : sqrt (b * b - 4 * a * (c - p)) * sqrt (b * b - 4 * a * (c - p)) = b * b - 4 * a * (c - p))
      by (apply sqrt_sqrt; exact HD).
    assert (Hs0 : 0 <= sqrt (b * b - 4 * a * (c - p))) by apply sqrt_pos.
    set (s := sqrt (b * b - 4 * a * (c - p))) in *.
    assert (Hle : 2 * a * y + b <= s) by nra.
    nra.
  Qed.

  Lemma poly_inv2_spec a b c p :
    a <> 0 -> 0 <= b * b - 4 * a * (c - p) ->
    let x := poly_inv2 N a b c p in
    quadratic a b c x = p /\ 0 <= 2 * a * x + b
    /\ (a < 0 -> forall y, quadratic a b c y = p -> x <= y).
  Proof.
    intros Ha HD x. pose proof (K_poly_inv2 a b c p Ha HD) as Hx. fold x in Hx.
    split; [apply quad_root_of_sqrt; auto|]. split.
    - rewrite Hx. apply sqrt_pos.
    - intros Ha' y Hy. eapply quad_smallest_root; eauto.
  Qed.

  (* ---------------------------------------------------------------- polynomial_fit, for every oracle *)
  Lemma poly_fit_char polyfit deg p :
    polynomial_fit N polyfit deg p =
      (do params <- polyfit deg;
       if (deg =? 2)%Z then
         do a0 <- py_get params 0%Z;
         if Rlt_dec 0 a0 then
           do params1 <- polyfit 1%Z;
           do a <- py_get params1 0%Z; do b <- py_get params1 1%Z; Ok (poly_inv1 N p b a)
         else
           do a <- py_get params 0%Z; do b <- py_get params 1%Z; do c <- py_get params 2%Z;
           Ok (poly_inv2 N a b c p)
       else if (deg =? 1)%Z then
         do a <- py_get params 0%Z; do b <- py_get params 1%Z; Ok (poly_inv1 N p b a)
       else Err ValueError).
  Proof.
    unfold polynomial_fit.
    destruct K_poly1_idx as [I1a I1b]. destruct K_poly2_idx as [I2a [I2b I2c]].
    rewrite I1a, I1b, I2a, I2b, I2c, K_poly_fallback_idx, K_poly_fallback_deg.
    destruct (polyfit deg) as [params|er]; cbn [bind]; [|reflexivity].
    destruct (deg =? 2)%Z eqn:E2.
    - apply Z.eqb_eq in E2. subst deg.
      destruct (py_get params 0%Z) as [a0|er] eqn:EA0; cbn [bind]; [|reflexivity].
      destruct (poly_fallback N 2 a0) eqn:EF.
      + apply K_poly_fallback in EF. destruct EF as [_ EF].
        destruct (Rlt_dec 0 a0); [|contradiction].
        destruct (polyfit 1%Z) as [params1|er]; cbn [bind fst snd]; [|reflexivity].
        assert (H1 : poly_is1 1 = true) by (apply K_poly_is1; reflexivity). rewrite H1. reflexivity.
      + destruct (Rlt_dec 0 a0) as [H0|H0].
        { assert (poly_fallback N 2 a0 = true) by (apply K_poly_fallback; auto). congruence. }
        cbn [bind fst snd].
        assert (H1 : poly_is1 2 = false).
        { destruct (poly_is1 2) eqn:E; [apply K_poly_is1 in E; discriminate|reflexivity]. }
        assert (H2 : poly_is2 2 = true) by (apply K_poly_is2; reflexivity).
        rewrite H1, H2, EA0. reflexivity.
    - cbn [bind fst snd]. destruct (deg =? 1)%Z eqn:E1.
      + apply Z.eqb_eq in E1. subst deg.
        assert (H1 : poly_is1 1 = true) by (apply K_poly_is1; reflexivity). rewrite H1. reflexivity.
      + apply Z.eqb_neq in E1, E2.
        assert (H1 : poly_is1 deg = false).
        { destruct (poly_is1 deg) eqn:E; [apply K_poly_is1 in E; contradiction|reflexivity]. }
        assert (H2 : poly_is2 deg = false).
        { destruct (poly_is2 deg) eqn:E; [apply K_poly_is2 in E; contradiction|reflexivity]. }
        rewrite H1, H2. reflexivity.
  Qed.

  Lemma poly_fit_sound polyfit deg p x :
    polynomial_fit N polyfit deg p = Ok x ->
    (exists cs a b,
        polyfit 1%Z = Ok cs /\ py_get cs 0%Z = Ok a /\ py_get cs 1%Z = Ok b
        /\ (deg = 1%Z \/ (deg = 2%Z /\ exists cs2 a2, polyfit 2%Z = Ok cs2 /\ py_get cs2 0%Z = Ok a2 /\ 0 < a2))
        /\ (a <> 0 -> line a b x = p))
    \/ (deg = 2%Z /\ exists cs a b c,
        polyfit 2%Z = Ok cs /\ py_get cs 0%Z = Ok a /\ py_get cs 1%Z = Ok b /\ py_get cs 2%Z = Ok c
        /\ ~ 0 < a
        /\ (a <> 0 -> 0 <= b * b - 4 * a * (c - p) ->
            quadratic a b c x = p /\ 0 <= 2 * a * x + b
            /\ forall y, quadratic a b c y = p -> x <= y)).
  Proof.
    rewrite poly_fit_char.
    destruct (polyfit deg) as [params|er] eqn:EP; cbn [bind]; [|discriminate].
    destruct (deg =? 2)%Z eqn:E2.
    - apply Z.eqb_eq in E2. subst deg.
      destruct (py_get params 0%Z) as [a0|er] eqn:EA0; cbn [bind]; [|discriminate].
      destruct (Rlt_dec 0 a0) as [H0|H0].
      + destruct (polyfit 1%Z) as [params1|er] eqn:EP1; cbn [bind]; [|discriminate].
        destruct (py_get params1 0%Z) as [a|er] eqn:EA; cbn [bind]; [|discriminate].
        destruct (py_get params1 1%Z) as [b|er] eqn:EB; cbn [bind]; [|discriminate].
        intros H; inversion H; subst x. left. exists params1, a, b.
        repeat split; auto.
        * right. split; [reflexivity|]. exists params, a0. auto.
        * intros Ha. apply K_poly_inv1. exact Ha.
      + destruct (py_get params 1%Z) as [b|er] eqn:EB; cbn [bind]; [|discriminate].
        destruct (py_get params 2%Z) as [c|er] eqn:EC; cbn [bind]; [|discriminate].
        intros H; inversion H; subst x. right. split; [reflexivity|].
        exists params, a0, b, c. repeat split; auto;
          destruct (poly_inv2_spec a0 b c p H1 H2) as [Q1 [Q2 Q3]]; auto.
        apply Q3. lra.
    - destruct (deg =? 1)%Z eqn:E1; [|discriminate].
      apply Z.eqb_eq in E1. subst deg.
      destruct (py_get params 0%Z) as [a|er] eqn:EA; cbn [bind]; [|discriminate].
      destruct (py_get params 1%Z) as [b|er] eqn:EB; cbn [bind]; [|discriminate].
      intros H; inversion H; subst x. left. exists params, a, b.
      repeat split; auto. intros Ha. apply K_poly_inv1. exact Ha.
  Qed.

  (* np.polyfit contract: deg+1 coefficients.  Then the function is total for
     deg in {1,2} and raises ValueError for every other degree. *)
  Lemma poly_fit_total polyfit deg p :
    (forall d, (d = 1 \/ d = 2)%Z -> exists cs, polyfit d = Ok cs /\ zlen cs = (d + 1)%Z) ->
    (deg = 1 \/ deg = 2)%Z -> exists x, polynomial_fit N polyfit deg p = Ok x.
  Proof.
    intros Hc Hd. rewrite poly_fit_char.
    destruct (Hc 1%Z) as [cs1 [P1 L1]]; [auto|]. destruct (Hc 2%Z) as [cs2 [P2 L2]]; [auto|].
    destruct (py_get_ok cs1 0%Z) as [a1 A1]; [lia|]. destruct (py_get_ok cs1 1%Z) as [b1 B1]; [lia|].
    destruct (py_get_ok cs2 0%Z) as [a2 A2]; [lia|]. destruct (py_get_ok cs2 1%Z) as [b2 B2]; [lia|].
    destruct (py_get_ok cs2 2%Z) as [c2 C2]; [lia|].
    destruct Hd as [Hd|Hd]; subst deg.
    - rewrite P1. cbn [bind]. change (1 =? 2)%Z with false. change (1 =? 1)%Z with true.
      rewrite A1, B1. cbn [bind]. eauto.
    - rewrite P2. cbn [bind]. change (2 =? 2)%Z with true. rewrite A2. cbn [bind].
      destruct (Rlt_dec 0 a2).
      + rewrite P1. cbn [bind]. rewrite A1, B1. cbn [bind]. eauto.
      + rewrite B2, C2. cbn [bind]. eauto.
  Qed.

  Lemma poly_fit_bad_degree polyfit deg p cs :
    deg <> 1%Z -> deg <> 2%Z -> polyfit deg = Ok cs ->
    polynomial_fit N polyfit deg p = Err ValueError.
  Proof.
    intros H1 H2 HP. rewrite poly_fit_char, HP. cbn [bind].
    apply Z.eqb_neq in H1, H2. rewrite H1, H2. reflexivity.
  Qed.

End R.

(* ------------------------------------------------------------------ computability, for every number system *)
Section Any.
  Context {T : Type} (N : Num T).

  Lemma wilks_computable floating nm ll fpv :
    In nm floating -> zlen fpv = zlen floating -> exists ts, wilks N floating nm ll fpv = Ok ts.
  Proof.
    intros HIn HL. destruct (get_gflp_idx_In _ _ HIn) as [i Hi].
    pose proof (get_gflp_idx_bounds _ _ _ Hi) as Bi.
    unfold wilks. rewrite Hi. cbn [bind]. rewrite K_ts_wilks_ns_idx0.
    destruct (py_get_ok fpv i) as [ns Hns]; [lia|]. rewrite Hns. cbn [bind]. eauto.
  Qed.

  Lemma taylor_computable floating nm ll fpv (llh : callee T) grads :
    In nm floating -> zlen fpv = zlen floating -> zlen grads = zlen floating ->
    In (c_sig llh) real_sigs ->
    (forall ns i, exists b, c_body llh ns i = Ok b) ->
    exists ts, taylor N floating nm ll fpv llh grads = Ok ts.
  Proof.
    intros HIn HL HG HS HB. destruct (get_gflp_idx_In _ _ HIn) as [i Hi].
    pose proof (get_gflp_idx_bounds _ _ _ Hi) as Bi.
    unfold taylor, taylor_with. rewrite Hi. cbn [bind]. rewrite K_ts_taylor_ns_idx0.
    destruct (py_get_ok fpv i) as [ns Hns]; [lia|]. rewrite Hns. cbn [bind].
    destruct (ts_taylor_is0 N ns); [|eauto].
    rewrite K_ts_taylor_nsgrad_idx0.
    destruct (py_get_ok grads i) as [g Hg]; [lia|]. rewrite Hg. cbn [bind].
    unfold create_src_params_recarray. rewrite HL, Z.eqb_refl. cbn [bind].
    unfold call_kw. rewrite (real_sigs_accept_current_call _ HS).
    destruct (HB (ts_taylor_call_ns N ns) (ts_taylor_call_ns_pidx i)) as [b Hb]. rewrite Hb. cbn [bind]. eauto.
  Qed.

  (* the defect repaired by b047c50, kept as a statement about the model: with
     the old keyword list the call is rejected by every real signature *)
  Lemma taylor_old_call_fails floating nm ll fpv (llh : callee T) grads i ns g :
    get_gflp_idx floating nm = Ok i -> py_get fpv i = Ok ns -> ts_taylor_is0 N ns = true ->
    py_get grads i = Ok g -> zlen fpv = zlen floating ->
    In (c_sig llh) real_sigs ->
    taylor_with N taylor_call_kws_b047c50_before floating nm ll fpv llh grads = Err TypeError.
  Proof.
    intros Hi Hns H0 Hg HL HS. unfold taylor_with. rewrite Hi. cbn [bind].
    rewrite K_ts_taylor_ns_idx0, Hns. cbn [bind]. rewrite H0, K_ts_taylor_nsgrad_idx0, Hg. cbn [bind].
    unfold create_src_params_recarray. rewrite HL, Z.eqb_refl. cbn [bind].
    unfold call_kw. rewrite (real_sigs_reject_old_call _ HS). reflexivity.
  Qed.

  (* Analysis.calculate_test_statistic only forwards *)
  Lemma analysis_forwarding v floating nm ll fpv kl kg :
    analysis_calculate_ts N v floating nm ll fpv kl kg =
      match v, kl, kg with
      | VWilks, _, _ => wilks N floating nm ll fpv
      | VTaylor, Some llh, Some g => taylor N floating nm ll fpv llh g
      | VTaylor, _, _ => Err TypeError
      end.
  Proof. destruct v, kl, kg; reflexivity. Qed.
End Any.
