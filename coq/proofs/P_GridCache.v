(* C15, cache consistency of Linear1D over two calls (exact arithmetic): after
   any first call with the same trial data state, a second call returns --
   whether its cache key hits or not, with numpy's broadcasting of a shared value
   -- exactly the per-entry formulas for its own parameter values. *)
From Coq Require Import Reals ZArith List Bool Lra Lia.
From Sky Require Import Result PyList Num NumR G_grid M_Grid P_Grid P_GridInterp P_GridCall.
Import ListNotations.
Open Scope R_scope.

Section Hit.
  Variable erfR : R -> R.
  Notation RN := (RNum erfR).

  Lemma Ok_inj {A} (x y : A) : Ok x = Ok y -> x = y.
  Proof. congruence. Qed.

  Lemma forallb_nth (f : R -> bool) l s y : forallb f l = true -> nth_error l s = Some y -> f y = true.
  Proof. intros H E. rewrite forallb_forall in H. apply H. eapply nth_error_In; eauto. Qed.

  Lemma all_eq_nth l1 l2 s a b : all_eq RN l1 l2 = true ->
    nth_error l1 s = Some a -> nth_error l2 s = Some b -> a = b.
  Proof.
    revert l2 s. induction l1 as [|x l1 IH]; intros l2 s H E1 E2; [destruct s; discriminate|].
    destruct l2 as [|y l2]; [discriminate|]. cbn [all_eq] in H. apply andb_prop in H. destruct H as [Hxy H].
    destruct s as [|s]; cbn [nth_error] in E1, E2.
    - inversion E1; inversion E2; subst. num_R. apply Reqb_true in Hxy. exact Hxy.
    - eapply IH; eauto.
  Qed.

  Lemma bcast_single (x : R) s : bcast [x] s = Ok x.
  Proof. reflexivity. Qed.
  Lemma bcast_nth (l : list R) s a : bcast l s = Ok a -> (exists x, l = [x] /\ a = x) \/ nth_error l s = Some a.
  Proof.
    destruct l as [|x [|y r]]; cbn [bcast].
    - destruct s; discriminate.
    - intros H; inversion H. left. eauto.
    - destruct (nth_error (x :: y :: r) s) eqn:E; [|discriminate]. intros H; inversion H; subst. right. reflexivity.
  Qed.

  (* equal cache keys (with numpy's broadcasting of a single shared value) *)
  Lemma np_all_equal_bcast l1 l2 s a b : np_all_equal RN l1 l2 = Ok true ->
    bcast l1 s = Ok a -> bcast l2 s = Ok b -> a = b.
  Proof.
    intros H B1 B2. unfold np_all_equal in H.
    destruct l1 as [|x1 [|y1 r1]].
    - destruct s; discriminate.
    - cbn [bcast] in B1. inversion B1; subst a. pose proof (Ok_inj _ _ H) as H'.
      destruct (bcast_nth l2 s b B2) as [[x [-> ->]]|E].
      + cbn [forallb] in H'. apply andb_prop in H'. destruct H' as [H' _]. num_R. apply Reqb_true in H'. exact H'.
      + pose proof (forallb_nth _ _ _ _ H' E) as Hb. cbn beta in Hb. num_R. apply Reqb_true in Hb. exact Hb.
    - destruct l2 as [|x2 [|y2 r2]].
      + destruct s; discriminate.
      + cbn [bcast] in B2. inversion B2; subst b. pose proof (Ok_inj _ _ H) as H'.
        destruct (bcast_nth _ s a B1) as [[x [Ex _]]|E]; [discriminate|].
        pose proof (forallb_nth _ _ _ _ H' E) as Hb. cbn beta in Hb. num_R. apply Reqb_true in Hb. exact Hb.
      + destruct (Nat.eqb (length (x1 :: y1 :: r1)) (length (x2 :: y2 :: r2))); [|discriminate].
        pose proof (Ok_inj _ _ H) as H'.
        destruct (bcast_nth _ s a B1) as [[x [Ex _]]|E1]; [discriminate|].
        destruct (bcast_nth _ s b B2) as [[x [Ex _]]|E2]; [discriminate|].
        eapply all_eq_nth; eauto.
  Qed.

  Lemma np_all_equal_ok l1 l2 : (length l1 = 1 \/ length l2 = 1 \/ length l1 = length l2)%nat ->
    exists h, np_all_equal RN l1 l2 = Ok h.
  Proof.
    intros H. unfold np_all_equal. destruct l1 as [|x1 [|y1 r1]]; destruct l2 as [|x2 [|y2 r2]]; cbn [length] in *;
      try (eexists; reflexivity); try (exfalso; lia).
    assert (E : length r1 = length r2) by lia. cbn [Nat.eqb]. rewrite E, Nat.eqb_refl. eexists; reflexivity.
  Qed.

  Lemma lin_cached_values_per_entry a b d (Fm : manifold (T := R)) id (xs0 xs : list R) (xof0 xof : nat -> R) idxs :
    (0 <= d)%Z -> (0 < b)%Z -> let g := dgrid a b d in
    (forall s e, In (s, e) idxs -> bcast xs0 s = Ok (xof0 s) /\ bcast xs s = Ok (xof s) /\
                                    g_lb g <= xof0 s /\ g_lb g <= xof s /\
                                    round_lower RN g (xof0 s) = round_lower RN g (xof s)) ->
    lin_cached_values RN xs idxs
      (map (fun se => lin_grad1 RN g (fun t => Fm id t (fst se) (snd se)) (xof0 (fst se))) idxs)
      (map (fun se => snd (lin_params RN g (fun t => Fm id t (fst se) (snd se)) (xof0 (fst se)))) idxs)
    = Ok (map (fun se => lin_value1 RN g (fun t => Fm id t (fst se) (snd se)) (xof (fst se))) idxs)
    /\ map (fun se => lin_grad1 RN g (fun t => Fm id t (fst se) (snd se)) (xof0 (fst se))) idxs
       = map (fun se => lin_grad1 RN g (fun t => Fm id t (fst se) (snd se)) (xof (fst se))) idxs.
  Proof.
    intros Hd Hb g. induction idxs as [|[s e] r IH]; intros H; [split; reflexivity|].
    destruct (H s e (or_introl eq_refl)) as [B0 [B1 [L0 [L1 EL]]]].
    destruct IH as [IH1 IH2]; [intros s' e' Hin; apply (H s' e'); right; exact Hin|].
    pose proof (linear_params_determined_by_x0 erfR a b d (fun t => Fm id t s e) (xof s) (xof0 s) Hd Hb L1 L0 (eq_sym EL)) as [EP HV].
    fold g in EP, HV.
    cbn [map lin_cached_values fst snd]. rewrite B1. cbn [bind]. rewrite IH1. cbn [bind].
    unfold lin_grad1 at 1. unfold lin_grad1 at 2 in IH2.
    destruct (lin_params RN g (fun t => Fm id t s e) (xof0 s)) as [[x0 m] b0] eqn:E0.
    destruct HV as [HV1 HV2]. cbn [snd]. split.
    - f_equal. f_equal. exact HV1.
    - f_equal; [|exact IH2]. unfold lin_grad1. rewrite E0, EP. reflexivity.
  Qed.
End Hit.


Section Hit2.
  Variable erfR : R -> R.
  Notation RN := (RNum erfR).

  (* the cache-miss branch of lin_call, explicitly *)
  Lemma lin_miss_branch (g : gdesc (T := R)) (Fm : manifold (T := R)) idxs id (xs : list R) (xof : nat -> R) :
    (forall s e, In (s, e) idxs -> bcast xs s = Ok (xof s)) ->
    (let x0s := map (fun x => lin_x0 RN (round_lower RN g x)) xs in
     let x1s := map (fun x => lin_x1 RN (round_upper RN g x)) xs in
     do r <- mapM (lin_entry RN g Fm id xs x0s x1s) idxs;
     let ms := map (fun t => snd (fst t)) r in
     let bs := map (fun t => snd t) r in
     Ok (map (fun t => fst (fst t)) r, map (lin_grad RN) ms, Some (id, x0s, ms, bs)))
    = Ok (map (fun se => lin_value1 RN g (fun t => Fm id t (fst se) (snd se)) (xof (fst se))) idxs,
          map (fun se => lin_grad1 RN g (fun t => Fm id t (fst se) (snd se)) (xof (fst se))) idxs,
          Some (id, map (fun x => lin_x0 RN (round_lower RN g x)) xs,
                map (fun se => lin_grad1 RN g (fun t => Fm id t (fst se) (snd se)) (xof (fst se))) idxs,
                map (fun se => snd (lin_params RN g (fun t => Fm id t (fst se) (snd se)) (xof (fst se)))) idxs)).
  Proof.
    intros H. cbv zeta.
    rewrite (mapM_ok _ (fun se => (lin_value1 RN g (fun t => Fm id t (fst se) (snd se)) (xof (fst se)),
                                   lin_grad1 RN g (fun t => Fm id t (fst se) (snd se)) (xof (fst se)),
                                   snd (lin_params RN g (fun t => Fm id t (fst se) (snd se)) (xof (fst se)))))).
    - cbn [bind]. rewrite !map_map. cbn [fst snd]. reflexivity.
    - intros [s e] Hin. cbn [fst snd]. apply lin_entry_is_per_entry. eapply H; eauto.
  Qed.

  (* T: cache consistency over two calls.  After any first call with the same
     trial data state, a second call returns -- whether it hits the cache or
     not -- exactly the per-entry formulas for ITS parameter values *)
  Theorem linear_second_call_consistent a b d (Fm : manifold (T := R)) idxs id (xs0 xs : list R) (xof0 xof : nat -> R) :
    (0 <= d)%Z -> (0 < b)%Z -> let g := dgrid a b d in
    (forall s e, In (s, e) idxs -> bcast xs0 s = Ok (xof0 s) /\ bcast xs s = Ok (xof s)
                                   /\ g_lb g <= xof0 s /\ g_lb g <= xof s) ->
    (length xs0 = 1 \/ length xs = 1 \/ length xs0 = length xs)%nat ->
    exists v0 g0 st, lin_call RN g Fm idxs None id xs0 = Ok (v0, g0, st) /\
    exists st', lin_call RN g Fm idxs st id xs =
      Ok (map (fun se => lin_value1 RN g (fun t => Fm id t (fst se) (snd se)) (xof (fst se))) idxs,
          map (fun se => lin_grad1 RN g (fun t => Fm id t (fst se) (snd se)) (xof (fst se))) idxs, st').
  Proof.
    intros Hd Hb g H Hlen.
    assert (H0 : forall s e, In (s, e) idxs -> bcast xs0 s = Ok (xof0 s)) by (intros s e Hi; apply (H s e Hi)).
    assert (H1 : forall s e, In (s, e) idxs -> bcast xs s = Ok (xof s)) by (intros s e Hi; apply (H s e Hi)).
    do 3 eexists. split.
    - unfold lin_call at 1. rewrite K_lin_is_cached. cbn [bind]. apply (lin_miss_branch g Fm idxs id xs0 xof0 H0).
    - unfold lin_call. rewrite K_lin_is_cached, Z.eqb_refl. cbn [andb].
      destruct (np_all_equal_ok erfR (map (fun x => lin_x0 RN (round_lower RN g x)) xs0)
                                (map (fun x => lin_x0 RN (round_lower RN g x)) xs)) as [h Eh];
        [rewrite !map_length; exact Hlen|].
      rewrite Eh. cbn [bind]. rewrite K_lin_is_cached, Z.eqb_refl. cbn [andb].
      destruct h.
      + (* hit *)
        destruct (lin_cached_values_per_entry erfR a b d Fm id xs0 xs xof0 xof idxs Hd Hb) as [EV EG].
        { intros s e Hi. destruct (H s e Hi) as [B0 [B1 [L0 L1]]]. repeat split; try assumption.
          apply (np_all_equal_bcast erfR _ _ s _ _ Eh).
          - rewrite bcast_map, B0. reflexivity.
          - rewrite bcast_map, B1. reflexivity. }
        fold g in EV, EG. rewrite EV. cbn [bind]. eexists. f_equal. f_equal. f_equal.
        rewrite map_map. rewrite <- EG. apply map_ext. intros se. reflexivity.
      + (* miss *)
        eexists. apply (lin_miss_branch g Fm idxs id xs xof H1).
  Qed.
End Hit2.

(* ---- Parabola1D *)
Section ParHit.
  Variable erfR : R -> R.
  Notation RN := (RNum erfR).

  Lemma combine3_map {A B C D} (f1 : A -> B) (f2 : A -> C) (f3 : A -> D) l :
    combine (combine (map f1 l) (map f2 l)) (map f3 l) = map (fun x => (f1 x, f2 x, f3 x)) l.
  Proof. induction l as [|x l IH]; cbn [map combine]; [reflexivity|]. rewrite IH. reflexivity. Qed.

  Definition par_state (g : gdesc (T := R)) (Fm : manifold (T := R)) idxs id (xs : list R) (xof : nat -> R)
    : par_cache (T := R) :=
    let prm := map (fun se => par_prm RN g Fm id (xof (fst se)) (fst se) (snd se)) idxs in
    Some (id, map (fun x => par_x1 RN (round_nearest RN g x)) xs,
          map (fun t => fst (fst t)) prm, map (fun t => snd (fst t)) prm, map (fun t => snd t) prm).

  (* the cache-miss branch of par_call, explicitly *)
  Lemma par_miss_branch (g : gdesc (T := R)) (Fm : manifold (T := R)) idxs id (xs : list R) (xof : nat -> R) :
    (forall s e, In (s, e) idxs -> bcast xs s = Ok (xof s)) ->
    (do prm <- mapM (par_entry_params RN g Fm id
                       (map (fun x => par_x1 RN (round_nearest RN g x)) xs)
                       (map (fun x1 => par_x0 RN (round_nearest RN g (par_x0_arg RN x1 (par_dx RN (g_delta g)))))
                            (map (fun x => par_x1 RN (round_nearest RN g x)) xs))
                       (map (fun x1 => par_x2 RN (round_nearest RN g (par_x2_arg RN x1 (par_dx RN (g_delta g)))))
                            (map (fun x => par_x1 RN (round_nearest RN g x)) xs))) idxs;
     Ok (prm, Some (id, map (fun x => par_x1 RN (round_nearest RN g x)) xs, map (fun t => fst (fst t)) prm,
                    map (fun t => snd (fst t)) prm, map (fun t => snd t) prm)))
    = Ok (map (fun se => par_prm RN g Fm id (xof (fst se)) (fst se) (snd se)) idxs, par_state g Fm idxs id xs xof).
  Proof.
    intros H. cbv zeta.
    rewrite (mapM_ok _ (fun se => par_prm RN g Fm id (xof (fst se)) (fst se) (snd se))).
    - cbn [bind]. reflexivity.
    - intros [s e] Hin. cbn [fst snd]. apply par_entry_is_per_entry. eapply H; eauto.
  Qed.

  Theorem parabola_second_call_consistent (g : gdesc (T := R)) (Fm : manifold (T := R)) idxs id
      (xs0 xs : list R) (xof0 xof : nat -> R) :
    (forall s e, In (s, e) idxs -> bcast xs0 s = Ok (xof0 s) /\ bcast xs s = Ok (xof s)) ->
    (length xs0 = 1 \/ length xs = 1 \/ length xs0 = length xs)%nat ->
    exists v0 g0 st, par_call RN g Fm idxs None id xs0 = Ok (v0, g0, st) /\
    exists st', par_call RN g Fm idxs st id xs =
      Ok (map (fun se => par_value1 RN g (fun t => Fm id t (fst se) (snd se)) (xof (fst se))) idxs,
          map (fun se => par_grad1 RN g (fun t => Fm id t (fst se) (snd se)) (xof (fst se))) idxs, st').
  Proof.
    intros H Hlen.
    assert (H0 : forall s e, In (s, e) idxs -> bcast xs0 s = Ok (xof0 s)) by (intros s e Hi; apply (H s e Hi)).
    assert (H1 : forall s e, In (s, e) idxs -> bcast xs s = Ok (xof s)) by (intros s e Hi; apply (H s e Hi)).
    exists (map (fun se => par_value1 RN g (fun t => Fm id t (fst se) (snd se)) (xof0 (fst se))) idxs),
           (map (fun se => par_grad1 RN g (fun t => Fm id t (fst se) (snd se)) (xof0 (fst se))) idxs),
           (par_state g Fm idxs id xs0 xof0).
    split.
    - unfold par_call. cbv zeta. rewrite K_par_is_cached_id. cbn [bind].
      rewrite (par_miss_branch g Fm idxs id xs0 xof0 H0). cbn [bind].
      rewrite (par_values_per_entry RN g Fm id xs0 xof0 idxs H0). cbn [bind].
      rewrite !map_map. cbn [fst snd]. reflexivity.
    - unfold par_call, par_state. cbv zeta. rewrite K_par_is_cached_id, Z.eqb_refl.
      destruct (np_all_equal_ok erfR (map (fun x => par_x1 RN (round_nearest RN g x)) xs0)
                                (map (fun x => par_x1 RN (round_nearest RN g x)) xs)) as [h Eh];
        [rewrite !map_length; exact Hlen|].
      rewrite Eh. cbn [bind]. rewrite K_par_is_cached_differs.
      destruct h; cbn [negb].
      + (* hit: the cached (M1, a, b) are those of the present values *)
        rewrite combine3_map.
        assert (Eprm : map (fun t : R * R * R => (fst (fst t), snd (fst t), snd t))
                           (map (fun se => par_prm RN g Fm id (xof0 (fst se)) (fst se) (snd se)) idxs)
                       = map (fun se => par_prm RN g Fm id (xof (fst se)) (fst se) (snd se)) idxs).
        { rewrite map_map. apply map_ext_in. intros [s e] Hi. cbn [fst snd].
          destruct (H s e Hi) as [B0 B1].
          assert (EN : round_nearest RN g (xof0 s) = round_nearest RN g (xof s)).
          { apply (np_all_equal_bcast erfR _ _ s _ _ Eh).
            - rewrite bcast_map, B0. reflexivity.
            - rewrite bcast_map, B1. reflexivity. }
          unfold par_prm.
          rewrite (parabola_params_determined_by_x1 erfR g (fun t => Fm id t s e) (xof0 s) (xof s) EN).
          destruct (par_params RN g (fun t => Fm id t s e) (xof s)) as [[[x1 M1] a0] b0]. reflexivity. }
        rewrite Eprm. cbn [bind].
        rewrite (par_values_per_entry RN g Fm id xs xof idxs H1). cbn [bind].
        eexists. rewrite !map_map. cbn [fst snd]. reflexivity.
      + (* miss *)
        rewrite (par_miss_branch g Fm idxs id xs xof H1). cbn [bind].
        rewrite (par_values_per_entry RN g Fm id xs xof idxs H1). cbn [bind].
        eexists. rewrite !map_map. cbn [fst snd]. reflexivity.
  Qed.
End ParHit.
