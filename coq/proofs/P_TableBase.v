(* C16 — basic lemmas: dict / list plumbing, the store, the representation
   predicate `repr s E o` (object o in store s holds exactly the columns E) and
   the four primitive state changes (replace / write / add / delete a column). *)
From Coq Require Import ZArith List Bool Lia Arith.
From Sky Require Import Result PyList G_table M_Table.
Import ListNotations.
Open Scope Z_scope.

(* ------------------------------------------------------------ lists / dicts *)
Lemma mem_In : forall n l, mem n l = true <-> In n l.
Proof.
  intros n l; unfold mem; rewrite existsb_exists; split.
  - intros [x [Hi He]]; apply Z.eqb_eq in He; subst; assumption.
  - intros Hi; exists n; split; [assumption | apply Z.eqb_refl].
Qed.

Lemma mem_false : forall n l, mem n l = false <-> ~ In n l.
Proof.
  intros n l; rewrite <- mem_In; destruct (mem n l); split; intros; try congruence; try tauto.
Qed.

Section Dict.
Context {V : Type}.
Implicit Types d : list (Z * V).

Lemma assoc_In : forall d n v, assoc n d = Some v -> In (n, v) d.
Proof.
  induction d as [|[k w] r IH]; intros n v H; cbn in *; [discriminate|].
  destruct (k =? n) eqn:E.
  - apply Z.eqb_eq in E; inversion H; subst; left; reflexivity.
  - right; apply IH; assumption.
Qed.

Lemma assoc_keys : forall d n v, assoc n d = Some v -> In n (keys d).
Proof. intros d n v H; apply assoc_In in H; apply (in_map fst) in H; exact H. Qed.

Lemma assoc_None : forall d n, assoc n d = None <-> ~ In n (keys d).
Proof.
  induction d as [|[k w] r IH]; intros n; cbn.
  - tauto.
  - destruct (k =? n) eqn:E.
    + apply Z.eqb_eq in E; split; [discriminate | intros H; exfalso; apply H; left; assumption].
    + apply Z.eqb_neq in E; rewrite IH; split; intros H; [intros [A|A]; [congruence|tauto] | tauto].
Qed.

Lemma In_assoc : forall d n v, NoDup (keys d) -> In (n, v) d -> assoc n d = Some v.
Proof.
  induction d as [|[k w] r IH]; intros n v ND Hi; cbn in *; [contradiction|].
  inversion ND as [|? ? Hn ND']; subst.
  destruct Hi as [Hi|Hi].
  - inversion Hi; subst; rewrite Z.eqb_refl; reflexivity.
  - destruct (k =? n) eqn:E.
    + apply Z.eqb_eq in E; subst; exfalso; apply Hn; apply (in_map fst) in Hi; exact Hi.
    + apply IH; assumption.
Qed.

Lemma In_keys_assoc : forall d n, In n (keys d) -> exists v, assoc n d = Some v.
Proof.
  intros d n H; destruct (assoc n d) eqn:E; [eauto|]; apply assoc_None in E; contradiction.
Qed.

Lemma dset_notin : forall d n v, ~ In n (keys d) -> dset d n v = d ++ [(n, v)].
Proof.
  induction d as [|[k w] r IH]; intros n v H; cbn in *; [reflexivity|].
  destruct (k =? n) eqn:E.
  - apply Z.eqb_eq in E; exfalso; apply H; left; assumption.
  - rewrite IH; [reflexivity | tauto].
Qed.

Lemma keys_dset_in : forall d n v, In n (keys d) -> keys (dset d n v) = keys d.
Proof.
  induction d as [|[k w] r IH]; intros n v H; cbn in *; [contradiction|].
  destruct (k =? n) eqn:E; cbn; [reflexivity|].
  f_equal; apply IH; destruct H as [H|H]; [apply Z.eqb_neq in E; congruence | assumption].
Qed.

Lemma In_dset : forall d n v k l, NoDup (keys d) -> In (k, l) (dset d n v) ->
  (k = n /\ l = v) \/ (k <> n /\ In (k, l) d).
Proof.
  induction d as [|[k0 w] r IH]; intros n v k l ND H; cbn in *.
  - destruct H as [H|[]]; inversion H; subst; left; split; reflexivity.
  - inversion ND as [|? ? Hn ND']; subst.
    destruct (k0 =? n) eqn:E.
    + apply Z.eqb_eq in E; subst. destruct H as [H|H].
      * inversion H; subst; left; split; reflexivity.
      * right; split; [|right; assumption].
        intros ->; apply Hn; apply (in_map fst) in H; exact H.
    + apply Z.eqb_neq in E. destruct H as [H|H].
      * inversion H; subst; right; split; [congruence | left; reflexivity].
      * destruct (IH _ _ _ _ ND' H) as [A|[A B]]; [left; assumption | right; split; [assumption | right; assumption]].
Qed.

Lemma dset_In_other : forall d n v k l, k <> n -> In (k, l) d -> In (k, l) (dset d n v).
Proof.
  induction d as [|[k0 w] r IH]; intros n v k l Hne H; cbn in *; [contradiction|].
  destruct (k0 =? n) eqn:E.
  - apply Z.eqb_eq in E; subst. destruct H as [H|H]; [inversion H; congruence | right; assumption].
  - destruct H as [H|H]; [left; assumption | right; apply IH; assumption].
Qed.

Lemma dset_In_new : forall d n v, In (n, v) (dset d n v).
Proof.
  induction d as [|[k0 w] r IH]; intros n v; cbn; [left; reflexivity|].
  destruct (k0 =? n) eqn:E; [apply Z.eqb_eq in E; subst; left; reflexivity | right; apply IH].
Qed.

Lemma keys_dset_incl : forall d n v k, In k (keys (dset d n v)) -> k = n \/ In k (keys d).
Proof.
  induction d as [|[k0 w] r IH]; intros n v k H; cbn in *.
  - destruct H as [H|[]]; left; congruence.
  - destruct (k0 =? n) eqn:E; cbn in H.
    + right; exact H.
    + destruct H as [H|H]; [right; left; assumption|].
      destruct (IH _ _ _ H); [left; assumption | right; right; assumption].
Qed.

Lemma NoDup_keys_dset : forall d n v, NoDup (keys d) -> NoDup (keys (dset d n v)).
Proof.
  induction d as [|[k0 w] r IH]; intros n v ND; cbn in *.
  - constructor; [intros [] | constructor].
  - inversion ND as [|? ? Hn ND']; subst.
    destruct (k0 =? n) eqn:E; cbn; [constructor; assumption|].
    constructor; [|apply IH; assumption].
    intros H; apply keys_dset_incl in H; destruct H as [H|H]; [apply Z.eqb_neq in E; congruence | contradiction].
Qed.

Lemma ddel_In : forall d n k l, In (k, l) (ddel d n) -> In (k, l) d.
Proof.
  induction d as [|[k0 w] r IH]; intros n k l H; cbn in *; [contradiction|].
  destruct (k0 =? n); [right; assumption|].
  destruct H as [H|H]; [left; assumption | right; eapply IH; eassumption].
Qed.

Lemma keys_ddel : forall d n, keys (ddel d n) = lremove n (keys d).
Proof.
  induction d as [|[k0 w] r IH]; intros n; cbn; [reflexivity|].
  destruct (k0 =? n); cbn; [reflexivity | f_equal; apply IH].
Qed.

Lemma ddel_In_other : forall d n k l, k <> n -> In (k, l) d -> In (k, l) (ddel d n).
Proof.
  induction d as [|[k0 w] r IH]; intros n k l Hne H; cbn in *; [contradiction|].
  destruct (k0 =? n) eqn:E.
  - apply Z.eqb_eq in E; subst; destruct H as [H|H]; [inversion H; congruence | assumption].
  - destruct H as [H|H]; [left; assumption | right; apply IH; assumption].
Qed.
End Dict.

Lemma lremove_incl : forall n l k, In k (lremove n l) -> In k l.
Proof.
  induction l as [|a r IH]; intros k H; cbn in *; [contradiction|].
  destruct (a =? n); [right; assumption | destruct H; [left; assumption | right; apply IH; assumption]].
Qed.

Lemma NoDup_lremove : forall n l, NoDup l -> NoDup (lremove n l) /\ ~ In n (lremove n l).
Proof.
  induction l as [|a r IH]; intros ND; cbn; [split; [constructor | tauto]|].
  inversion ND as [|? ? Hn ND']; subst. destruct (IH ND') as [A B].
  destruct (a =? n) eqn:E.
  - apply Z.eqb_eq in E; subst; split; assumption.
  - apply Z.eqb_neq in E; split.
    + constructor; [intros H; apply Hn; eapply lremove_incl; eassumption | assumption].
    + intros [H|H]; [congruence | contradiction].
Qed.

Lemma lremove_In_other : forall n l k, k <> n -> In k l -> In k (lremove n l).
Proof.
  induction l as [|a r IH]; intros k Hne H; cbn in *; [contradiction|].
  destruct (a =? n) eqn:E.
  - apply Z.eqb_eq in E; subst; destruct H; [congruence | assumption].
  - destruct H; [left; assumption | right; apply IH; assumption].
Qed.

(* values (locations) of a dict of locations *)
Definition vals (d : list (name * loc)) : list loc := map snd d.

Lemma vals_dset : forall d n v l, In l (vals (dset d n v)) -> l = v \/ In l (vals d).
Proof.
  induction d as [|[k0 w] r IH]; intros n v l H; cbn in *.
  - destruct H as [H|[]]; left; congruence.
  - destruct (k0 =? n); cbn in H.
    + destruct H as [H|H]; [left; congruence | right; right; assumption].
    + destruct H as [H|H]; [right; left; assumption|].
      destruct (IH _ _ _ H); [left; assumption | right; right; assumption].
Qed.

Lemma NoDup_vals_dset : forall d n v, NoDup (vals d) -> ~ In v (vals d) -> NoDup (vals (dset d n v)).
Proof.
  induction d as [|[k0 w] r IH]; intros n v ND Hn; cbn in *.
  - constructor; [intros [] | constructor].
  - inversion ND as [|? ? Hw ND']; subst.
    destruct (k0 =? n); cbn.
    + constructor; [tauto | assumption].
    + constructor; [|apply IH; tauto].
      intros H; apply vals_dset in H; destruct H as [H|H]; [subst; tauto | contradiction].
Qed.

Lemma vals_ddel : forall d n l, In l (vals (ddel d n)) -> In l (vals d).
Proof.
  induction d as [|[k0 w] r IH]; intros n l H; cbn in *; [contradiction|].
  destruct (k0 =? n); [right; assumption|].
  cbn in H; destruct H as [H|H]; [left; assumption | right; eapply IH; eassumption].
Qed.

Lemma NoDup_vals_ddel : forall d n, NoDup (vals d) -> NoDup (vals (ddel d n)).
Proof.
  induction d as [|[k0 w] r IH]; intros n ND; cbn in *; [constructor|].
  inversion ND as [|? ? Hw ND']; subst.
  destruct (k0 =? n); cbn; [assumption|].
  constructor; [intros H; apply Hw; eapply vals_ddel; eassumption | apply IH; assumption].
Qed.

(* the popped value is no longer among the values *)
Lemma vals_ddel_notin : forall d n l, NoDup (vals d) -> NoDup (keys d) -> assoc n d = Some l -> ~ In l (vals (ddel d n)).
Proof.
  induction d as [|[k0 w] r IH]; intros n l NV NK H; cbn in *; [discriminate|].
  inversion NV as [|? ? Hw NV']; inversion NK as [|? ? Hk NK']; subst.
  destruct (k0 =? n) eqn:E.
  - inversion H; subst; assumption.
  - cbn; intros [A|A].
    + subst; apply Hw; apply assoc_In in H; apply (in_map snd) in H; exact H.
    + eapply IH; eassumption.
Qed.

(* ------------------------------------------------------------ the store *)
Lemma rd_app_old : forall (s : store) b l, (l < length s)%nat -> rd (s ++ [b]) l = rd s l.
Proof. intros; unfold rd; apply nth_error_app1; assumption. Qed.

Lemma rd_app_new : forall (s : store) b, rd (s ++ [b]) (length s) = Some b.
Proof. intros; unfold rd; rewrite nth_error_app2, Nat.sub_diag; [reflexivity | lia]. Qed.

Lemma rd_lt : forall (s : store) l b, rd s l = Some b -> (l < length s)%nat.
Proof. intros s l b H; unfold rd in H; apply nth_error_Some; congruence. Qed.

Lemma rd_prefix : forall (s e : store) l, (l < length s)%nat -> rd (s ++ e) l = rd s l.
Proof. intros; unfold rd; apply nth_error_app1; assumption. Qed.

Lemma length_set_nth : forall A (l : list A) k v, length (set_nth l k v) = length l.
Proof. induction l as [|a r IH]; intros [|k] v; cbn; auto. Qed.

Lemma nth_error_set_nth_eq : forall A (l : list A) k v, (k < length l)%nat -> nth_error (set_nth l k v) k = Some v.
Proof.
  induction l as [|a r IH]; intros [|k] v H; cbn in *; try lia; [reflexivity | apply IH; lia].
Qed.

Lemma nth_error_set_nth_neq : forall A (l : list A) k k' v, k <> k' -> nth_error (set_nth l k v) k' = nth_error l k'.
Proof.
  induction l as [|a r IH]; intros [|k] [|k'] v H; cbn; try reflexivity; try congruence.
  apply IH; congruence.
Qed.

Lemma rd_wr_eq : forall (s : store) l b, (l < length s)%nat -> rd (wr s l b) l = Some b.
Proof. intros; apply nth_error_set_nth_eq; assumption. Qed.

Lemma rd_wr_neq : forall (s : store) l l' b, l <> l' -> rd (wr s l b) l' = rd s l'.
Proof. intros; apply nth_error_set_nth_neq; assumption. Qed.

Lemma length_wr : forall (s : store) l b, length (wr s l b) = length s.
Proof. intros; apply length_set_nth. Qed.

(* ------------------------------------------------------------ representation *)
Definition optl (x : option loc) : list loc := match x with Some l => [l] | None => [] end.
Definition obj_locs (o : obj) : list loc := vals (fields o) ++ optl (oidx o).

Definition idx_ok (s : store) (o : obj) : Prop :=
  match oidx o with
  | None => True
  | Some li => exists b, rd s li = Some b /\ bdata b = arange (Z.to_nat (olen o))
  end.

(* object o, in store s, holds exactly the columns E (by name) *)
Record repr (s : store) (E : name -> buf) (o : obj) : Prop := mkrepr {
  r_nodup : NoDup (keys (fields o));
  r_fnl : fnl o = keys (fields o);
  r_cols : forall n l, In (n, l) (fields o) -> rd s l = Some (E n);
  r_locs : NoDup (obj_locs o);
  r_idx : idx_ok s o
}.

Definition eqlen (E : name -> buf) (o : obj) : Prop :=
  0 <= olen o /\ forall n, In n (keys (fields o)) -> blen (E n) = olen o.

(* the invariant of one object: a well-formed table *)
Definition obj_inv (s : store) (o : obj) : Prop := exists E, repr s E o /\ eqlen E o.

(* how a state change relates to the rest of the world *)
Definition frame_rel (s : store) (o : obj) (s' : store) (o' : obj) : Prop :=
  (length s <= length s')%nat /\
  (forall l, In l (obj_locs o') -> In l (obj_locs o) \/ (length s <= l)%nat) /\
  (forall l, (l < length s)%nat -> ~ In l (obj_locs o) -> rd s' l = rd s l).

Lemma frame_refl : forall s o, frame_rel s o s o.
Proof. intros; repeat split; auto. Qed.

Lemma frame_trans : forall s o s1 o1 s2 o2,
  frame_rel s o s1 o1 -> frame_rel s1 o1 s2 o2 -> frame_rel s o s2 o2.
Proof.
  intros s o s1 o1 s2 o2 (L1 & I1 & F1) (L2 & I2 & F2); repeat split.
  - lia.
  - intros l H; destruct (I2 l H) as [A|A]; [apply I1; assumption | right; lia].
  - intros l Hl Hn. rewrite F2; [apply F1; assumption | lia |].
    intros A; destruct (I1 l A) as [B|B]; [contradiction | lia].
Qed.

Definition upd (E : name -> buf) (n : name) (b : buf) : name -> buf :=
  fun k => if k =? n then b else E k.

Lemma upd_same : forall E n b, upd E n b n = b.
Proof. intros; unfold upd; rewrite Z.eqb_refl; reflexivity. Qed.
Lemma upd_other : forall E n b k, k <> n -> upd E n b k = E k.
Proof. intros; unfold upd; apply Z.eqb_neq in H; rewrite H; reflexivity. Qed.

Lemma repr_ext : forall s E E' o, repr s E o ->
  (forall n, In n (keys (fields o)) -> E' n = E n) -> repr s E' o.
Proof.
  intros s E E' o [A B C D I] H; constructor; try assumption.
  intros n l Hi; rewrite H; [apply C; assumption|]. apply (in_map fst) in Hi; exact Hi.
Qed.

Lemma repr_loc_lt : forall s E o l, repr s E o -> In l (obj_locs o) -> (l < length s)%nat.
Proof.
  intros s E o l R H; unfold obj_locs in H; apply in_app_or in H; destruct H as [H|H].
  - unfold vals in H; apply in_map_iff in H; destruct H as [[n l'] [<- Hi]]; cbn.
    eapply rd_lt; apply (r_cols _ _ _ R); eassumption.
  - pose proof (r_idx _ _ _ R) as I; unfold idx_ok in I; destruct (oidx o) as [li|]; cbn in H; [|contradiction].
    destruct H as [<-|[]]; destruct I as [b [I _]]; eapply rd_lt; eassumption.
Qed.

Lemma NoDup_app_l : forall A (a b : list A), NoDup (a ++ b) -> NoDup a.
Proof. induction a as [|x r IH]; intros b H; [constructor|]; cbn in H; inversion H; subst; constructor; [intros Q; apply H2; apply in_or_app; left; assumption | eapply IH; eassumption]. Qed.

Lemma NoDup_app_r : forall A (a b : list A), NoDup (a ++ b) -> NoDup b.
Proof. induction a as [|x r IH]; intros b H; [assumption|]; cbn in H; inversion H; subst; apply IH; assumption. Qed.

Lemma NoDup_app_disj : forall A (a b : list A) x, NoDup (a ++ b) -> In x a -> ~ In x b.
Proof.
  induction a as [|y r IH]; intros b x H Hi; [contradiction|]; cbn in H; inversion H; subst.
  destruct Hi as [->|Hi]; [intros Q; apply H2; apply in_or_app; right; assumption | apply IH; assumption].
Qed.

Lemma NoDup_app_intro : forall A (a b : list A), NoDup a -> NoDup b -> (forall x, In x a -> ~ In x b) -> NoDup (a ++ b).
Proof.
  induction a as [|y r IH]; intros b Ha Hb Hd; [assumption|]; cbn; inversion Ha; subst; constructor.
  - intros Q; apply in_app_or in Q; destruct Q as [Q|Q]; [contradiction | apply (Hd y); [left; reflexivity | assumption]].
  - apply IH; try assumption; intros x Hx; apply Hd; right; assumption.
Qed.

(* (R) replace column `fname` by a freshly allocated buffer *)
Lemma replace_col : forall s E o fname b',
  repr s E o -> In fname (keys (fields o)) ->
  let o' := with_fields o (dset (fields o) fname (length s)) in
  repr (s ++ [b']) (upd E fname b') o' /\ frame_rel s o (s ++ [b']) o'
  /\ keys (fields o') = keys (fields o).
Proof.
  intros s E o fname b' R Hin o'.
  assert (HK : keys (fields o') = keys (fields o)) by (apply keys_dset_in; assumption).
  assert (Hfresh : ~ In (length s) (obj_locs o)).
  { intros Q; apply (repr_loc_lt _ _ _ _ R) in Q; lia. }
  split; [|split; [|exact HK]].
  - constructor.
    + rewrite HK; apply (r_nodup _ _ _ R).
    + cbn [fnl o' with_fields]; rewrite (r_fnl _ _ _ R); symmetry; exact HK.
    + intros n l Hi; cbn [fields o' with_fields] in Hi.
      apply In_dset in Hi; [|apply (r_nodup _ _ _ R)].
      destruct Hi as [[-> ->]|[Hne Hi]].
      * rewrite upd_same; apply rd_app_new.
      * rewrite upd_other by assumption.
        pose proof (r_cols _ _ _ R _ _ Hi) as C; rewrite rd_app_old; [assumption | eapply rd_lt; eassumption].
    + unfold obj_locs; cbn [fields oidx o' with_fields].
      pose proof (r_locs _ _ _ R) as ND; unfold obj_locs in ND.
      apply NoDup_app_intro.
      * apply NoDup_vals_dset; [eapply NoDup_app_l; eassumption|].
        intros Q; apply Hfresh; unfold obj_locs; apply in_or_app; left; assumption.
      * eapply NoDup_app_r; eassumption.
      * intros x Hx Hx2; apply vals_dset in Hx; destruct Hx as [->|Hx].
        -- apply Hfresh; unfold obj_locs; apply in_or_app; right; assumption.
        -- eapply NoDup_app_disj; eassumption.
    + pose proof (r_idx _ _ _ R) as I; unfold idx_ok in *; cbn [oidx olen o' with_fields].
      destruct (oidx o) as [li|]; [|exact I]. destruct I as [b [I1 I2]]; exists b; split; [|assumption].
      rewrite rd_app_old; [assumption | eapply rd_lt; eassumption].
  - repeat split.
    + rewrite app_length; cbn; lia.
    + intros l Hl; unfold obj_locs in *; cbn [fields oidx o' with_fields] in Hl.
      apply in_app_or in Hl; destruct Hl as [Hl|Hl].
      * apply vals_dset in Hl; destruct Hl as [->|Hl]; [right; lia | left; apply in_or_app; left; assumption].
      * left; apply in_or_app; right; assumption.
    + intros l Hl _; apply rd_app_old; assumption.
Qed.

(* (W) overwrite the buffer of column `fname` in place *)
Lemma write_col : forall s E o fname l b',
  repr s E o -> assoc fname (fields o) = Some l ->
  repr (wr s l b') (upd E fname b') o /\ frame_rel s o (wr s l b') o.
Proof.
  intros s E o fname l b' R Ha.
  pose proof (assoc_In _ _ _ Ha) as Hi.
  assert (Hl : In l (vals (fields o))) by (apply (in_map snd) in Hi; exact Hi).
  assert (Hlt : (l < length s)%nat) by (eapply rd_lt; apply (r_cols _ _ _ R); eassumption).
  pose proof (r_locs _ _ _ R) as ND; unfold obj_locs in ND.
  split.
  - constructor; try apply R.
    + intros n l' Hi'. destruct (Z.eq_dec n fname) as [->|Hne].
      * rewrite upd_same. pose proof (In_assoc _ _ _ (r_nodup _ _ _ R) Hi') as Q; rewrite Ha in Q; inversion Q; subst.
        apply rd_wr_eq; assumption.
      * rewrite upd_other by assumption. rewrite rd_wr_neq; [apply (r_cols _ _ _ R); assumption|].
        intros ->. apply NoDup_app_l in ND.
        (* two different names with the same location contradict NoDup vals *)
        clear - ND Hi Hi' Hne. unfold vals in ND. induction (fields o) as [|[k w] r IH]; [contradiction|].
        cbn in ND; inversion ND; subst. destruct Hi as [Hi|Hi]; destruct Hi' as [Hi'|Hi'].
        -- congruence.
        -- inversion Hi; subst; apply H1; apply (in_map snd) in Hi'; exact Hi'.
        -- inversion Hi'; subst; apply H1; apply (in_map snd) in Hi; exact Hi.
        -- apply IH; assumption.
    + pose proof (r_idx _ _ _ R) as I; unfold idx_ok in *. destruct (oidx o) as [li|]; [|exact I].
      destruct I as [b [I1 I2]]; exists b; split; [|assumption]. rewrite rd_wr_neq; [assumption|].
      intros ->; eapply NoDup_app_disj; [exact ND | exact Hl | left; reflexivity].
  - repeat split.
    + rewrite length_wr; lia.
    + intros l0 H0; left; assumption.
    + intros l0 Hl0 Hn; apply rd_wr_neq; intros ->; apply Hn; unfold obj_locs; apply in_or_app; left; assumption.
Qed.

(* (A) add a new column whose buffer was just allocated *)
Lemma add_col : forall s E o n b,
  repr s E o -> ~ In n (keys (fields o)) ->
  let o' := mkobj (dset (fields o) n (length s)) (fnl o ++ [n]) (olen o) (oidx o) in
  repr (s ++ [b]) (upd E n b) o' /\ frame_rel s o (s ++ [b]) o'
  /\ keys (fields o') = keys (fields o) ++ [n].
Proof.
  intros s E o n b R Hn o'.
  assert (HD : dset (fields o) n (length s) = fields o ++ [(n, length s)]) by (apply dset_notin; assumption).
  assert (HK : keys (fields o') = keys (fields o) ++ [n]).
  { cbn [fields o']; rewrite HD; unfold keys; rewrite map_app; reflexivity. }
  assert (Hfresh : ~ In (length s) (obj_locs o)).
  { intros Q; apply (repr_loc_lt _ _ _ _ R) in Q; lia. }
  pose proof (r_locs _ _ _ R) as ND; unfold obj_locs in ND.
  split; [|split; [|exact HK]].
  - constructor.
    + rewrite HK. apply NoDup_app_intro; [apply R | constructor; [intros [] | constructor] |].
      intros x Hx [<-|[]]; contradiction.
    + cbn [fnl o']; rewrite HK, (r_fnl _ _ _ R); reflexivity.
    + intros k l Hi; cbn [fields o'] in Hi; rewrite HD in Hi; apply in_app_or in Hi; destruct Hi as [Hi|[Hi|[]]].
      * assert (k <> n) by (intros ->; apply Hn; apply (in_map fst) in Hi; exact Hi).
        rewrite upd_other by assumption. pose proof (r_cols _ _ _ R _ _ Hi) as C.
        rewrite rd_app_old; [assumption | eapply rd_lt; eassumption].
      * inversion Hi; subst; rewrite upd_same; apply rd_app_new.
    + unfold obj_locs; cbn [fields oidx o']; rewrite HD; unfold vals; rewrite map_app; cbn.
      rewrite <- app_assoc; cbn.
      apply NoDup_app_intro; [eapply NoDup_app_l; eassumption | |].
      * constructor; [|eapply NoDup_app_r; eassumption].
        intros Q; apply Hfresh; unfold obj_locs; apply in_or_app; right; assumption.
      * intros x Hx [<-|Hx2]; [apply Hfresh; unfold obj_locs; apply in_or_app; left; assumption|].
        eapply NoDup_app_disj; eassumption.
    + pose proof (r_idx _ _ _ R) as I; unfold idx_ok in *; cbn [oidx olen o'].
      destruct (oidx o) as [li|]; [|exact I]. destruct I as [b0 [I1 I2]]; exists b0; split; [|assumption].
      rewrite rd_app_old; [assumption | eapply rd_lt; eassumption].
  - repeat split.
    + rewrite app_length; cbn; lia.
    + intros l Hl; unfold obj_locs in *; cbn [fields oidx o'] in Hl; rewrite HD in Hl.
      unfold vals in Hl; rewrite map_app in Hl; cbn in Hl.
      apply in_app_or in Hl; destruct Hl as [Hl|Hl]; [apply in_app_or in Hl; destruct Hl as [Hl|[<-|[]]]|].
      * left; apply in_or_app; left; assumption.
      * right; lia.
      * left; apply in_or_app; right; assumption.
    + intros l Hl _; apply rd_app_old; assumption.
Qed.

(* (D) delete a column *)
Lemma del_col : forall s E o n,
  repr s E o ->
  let o' := mkobj (ddel (fields o) n) (lremove n (fnl o)) (olen o) (oidx o) in
  repr s E o' /\ frame_rel s o s o' /\ (forall k, In k (keys (fields o')) -> In k (keys (fields o))).
Proof.
  intros s E o n R o'.
  pose proof (r_locs _ _ _ R) as ND; unfold obj_locs in ND.
  split; [|split].
  - constructor.
    + cbn [fields o']; rewrite keys_ddel; apply NoDup_lremove; apply R.
    + cbn [fnl fields o']; rewrite keys_ddel, (r_fnl _ _ _ R); reflexivity.
    + intros k l Hi; cbn [fields o'] in Hi; apply (r_cols _ _ _ R); eapply ddel_In; eassumption.
    + unfold obj_locs; cbn [fields oidx o'].
      apply NoDup_app_intro; [apply NoDup_vals_ddel; eapply NoDup_app_l; eassumption | eapply NoDup_app_r; eassumption|].
      intros x Hx; apply vals_ddel in Hx; eapply NoDup_app_disj; eassumption.
    + exact (r_idx _ _ _ R).
  - split; [lia | split; [ | auto]].
    intros l Hl; left; unfold obj_locs in *; cbn [fields oidx o'] in Hl.
    apply in_app_or in Hl; apply in_or_app; destruct Hl as [Hl|Hl]; [left; eapply vals_ddel; eassumption | right; assumption].
  - intros k Hk; cbn [fields o'] in Hk; rewrite keys_ddel in Hk; eapply lremove_incl; eassumption.
Qed.

(* ------------------------------------------------------------ loops *)
Lemma loop_ind : forall A (f : A -> mstate -> mstate * outcome)
    (J : list A -> mstate -> Prop) (F : mstate -> outcome -> Prop) l st,
  J l st ->
  (forall a r st0, J (a :: r) st0 ->
     match f a st0 with (st', Done) => J r st' | (st', x) => F st' x end) ->
  match loop f l st with (st', Done) => J [] st' | (st', x) => F st' x end.
Proof.
  induction l as [|a r IH]; intros st HJ Hstep; cbn [loop]; [assumption|].
  specialize (Hstep a r st HJ) as Hs.
  destruct (f a st) as [st' x]; destruct x; try assumption.
  apply IH; assumption.
Qed.
