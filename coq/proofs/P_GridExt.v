(* C15, add_extra_lower_and_upper_bin in exact arithmetic: the extended grid
   is again origin' + i*spacing with origin' = origin - spacing. *)
From Coq Require Import Reals ZArith List Bool Lra Lia.
From Sky Require Import Result PyList Num NumR G_grid M_Grid P_Grid.
Import ListNotations.
Open Scope R_scope.

Section Ext.
  Variable erfR : R -> R.
  Notation RN := (RNum erfR).

  Definition pt (a b d : Z) (k : Z) : R := IZR a / IZR (10 ^ d) + IZR k * (IZR b / IZR (10 ^ d)).

  Lemma points_pt a b d n : points a b d 0 n = map (fun i => pt a b d (Z.of_nat i)) (seq 0 n).
  Proof. unfold points, pt. apply map_ext. intros i. rewrite Z.add_0_l. reflexivity. Qed.

  Lemma pt_shift a b d k : (0 <= d)%Z -> pt a b d k = pt (a - b) b d (k + 1).
  Proof. intros Hd. pose proof (pow10_pos d Hd). unfold pt. rewrite minus_IZR, plus_IZR. field. lra. Qed.

  Lemma seq3 n : seq 0 (S (S (S n))) = 0%nat :: map S (seq 0 (S n)) ++ [S (S n)].
  Proof.
    rewrite seq_shift. change (seq 0 (S (S (S n)))) with (0%nat :: seq 1 (S (S n))).
    f_equal. rewrite (seq_S (S n) 1). reflexivity.
  Qed.

  Theorem extend_grid_exact a b d n : (0 <= d)%Z -> (0 < b)%Z ->
    pg_extend RN {| pg_desc := dgrid a b d; pg_grid := points a b d 0 (S n) |}
    = Ok {| pg_desc := dgrid (a - b) b d; pg_grid := points (a - b) b d 0 (S (S (S n))) |}.
  Proof.
    intros Hd Hb. pose proof (pow10_pos d Hd) as P.
    set (p := {| pg_desc := dgrid a b d; pg_grid := points a b d 0 (S n) |}).
    assert (Hg : pg_grid p = pt a b d 0 :: map (fun i => pt a b d (Z.of_nat i)) (seq 1 n)).
    { unfold p. cbn [pg_grid]. rewrite points_pt. reflexivity. }
    rewrite (pg_extend_eq RN p _ _ Hg).
    (* the new descriptor *)
    assert (Ed : ext_desc RN p (pt a b d 0) = dgrid (a - b) b d).
    { unfold ext_desc, dgrid. rewrite K_pg_extra_lb, K_pg_extra_lo. unfold p. cbn [pg_desc g_delta g_dec dgrid]. num_R.
      f_equal. unfold pt. rewrite minus_IZR. field. lra. }
    rewrite Ed.
    (* the new grid before rounding *)
    assert (En : ext_newgrid RN p (pt a b d 0) = points (a - b) b d 0 (S (S (S n)))).
    { unfold ext_newgrid. rewrite K_pg_extra_lo, K_pg_extra_hi. unfold p at 1 2 4. cbn [pg_desc pg_grid g_delta dgrid].
      rewrite !points_pt, seq3. cbn [map]. num_R. f_equal.
      - unfold pt. rewrite minus_IZR. cbn [Z.of_nat]. field. lra.
      - rewrite map_app. cbn [map]. rewrite map_map. f_equal.
        + apply map_ext. intros i. rewrite (pt_shift a b d _ Hd). f_equal. lia.
        + f_equal.
          assert (EL : last (map (fun i => pt a b d (Z.of_nat i)) (seq 0 (S n))) (pt a b d 0) = pt a b d (Z.of_nat n)).
          { rewrite (seq_S n 0), map_app. cbn [map]. apply last_last. }
          unfold p. cbn [pg_grid]. rewrite points_pt, EL.
          rewrite (pt_shift a b d _ Hd). unfold pt. rewrite !plus_IZR, Nat2Z.inj_succ, Nat2Z.inj_succ. unfold Z.succ.
          rewrite !plus_IZR. field. lra. }
    rewrite En. f_equal. f_equal.
    rewrite points_pt, map_map. apply map_ext. intros i. rewrite K_pg_grid_set.
    exact (proj1 (proj2 (regular_fixed_points erfR (a - b) b d (Z.of_nat i) Hd Hb))).
  Qed.
End Ext.
