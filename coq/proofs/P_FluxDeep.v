(* C13 — deepening: unit-factor table composition, every conversion happens exactly once,
   the numerically integrated profiles through the quadrature oracle, raw window setters,
   array (outer-product) call, cdf of the time profiles. *)
From Coq Require Import Reals ZArith List Bool Lra Lia.
From Coquelicot Require Import Coquelicot.
From Sky Require Import Result Num NumR G_flux M_Flux S_Flux P_Flux P_FluxInt P_FluxObj.
Import ListNotations.
Open Scope R_scope.

Lemma K_gen_int_conv : conv_test_spec gen_int_conv. Proof. intros [u|] su; reflexivity. Qed.
Lemma K_ga_cdf_conv : conv_test_spec ga_cdf_conv. Proof. intros [u|] su; reflexivity. Qed.

Section Deep.
  Variable erfR : R -> R.
  Notation RN := (RNum erfR).

  Lemma K_gen_int_scale1 x c : gen_int_scale1 RN x c = x * c. Proof. reflexivity. Qed.
  Lemma K_gen_int_scale2 x c : gen_int_scale2 RN x c = x * c. Proof. reflexivity. Qed.
  Lemma K_gen_int_integrand x : gen_int_integrand RN x = x. Proof. reflexivity. Qed.
  Lemma K_gen_int_quad x : gen_int_quad RN x = x. Proof. reflexivity. Qed.
  Lemma K_co_int_delegate x : co_int_delegate RN x = x. Proof. reflexivity. Qed.
  Lemma K_lp_int_delegate x : lp_int_delegate RN x = x. Proof. reflexivity. Qed.
  Lemma K_co_super x : co_super RN x = x. Proof. reflexivity. Qed.
  Lemma K_ga_cdf_m0 t ts te : ga_cdf_m0 RN t ts te = true <-> ts <= t <= te.
  Proof. unfold ga_cdf_m0. num_R. rewrite andb_true_iff, !Rleb_true. tauto. Qed.
  Lemma K_ga_cdf_m1 t te : ga_cdf_m1 RN t te = true <-> te < t.
  Proof. unfold ga_cdf_m1. num_R. apply Rltb_true. Qed.
  Lemma K_ga_cdf_val a b : ga_cdf_val RN a b = a / b. Proof. reflexivity. Qed.

  (* ---------------------------------------------------------- unit factor table *)
  Lemma conv_R fac u v : conv RN fac u v = IZR (fac u) / IZR (fac v).
  Proof. unfold conv. num_R. reflexivity. Qed.

  Theorem conv_table fac : (forall v, 0 < IZR (fac v)) ->
    (forall u, conv RN fac u u = 1)
    /\ (forall u v w, conv RN fac u v * conv RN fac v w = conv RN fac u w)
    /\ (forall u v, conv RN fac u v * conv RN fac v u = 1)
    /\ (forall u v, 0 < conv RN fac u v).
  Proof.
    intros Hp. repeat split; intros.
    - rewrite conv_R. field. generalize (Hp u). lra.
    - rewrite !conv_R. field. generalize (Hp v) (Hp w). lra.
    - rewrite !conv_R. field. generalize (Hp v) (Hp u). lra.
    - rewrite conv_R. apply Rdiv_lt_0_compat; apply Hp.
  Qed.

  (* to_internal_flux_unit: 1 in internal units; the flux factor composes with the table *)
  Theorem to_internal_spec :
    to_internal RN 0 0 = 1
    /\ (forall eu tu, to_internal RN eu tu * (conv RN efac eu 0 * conv RN tfac tu 0) = 1)
    /\ (forall eu tu eu' tu',
          to_internal RN eu tu = to_internal RN eu' tu' * (conv RN efac eu' eu * conv RN tfac tu' tu)).
  Proof.
    assert (He := efac_pos). assert (Ht := tfac_pos).
    unfold to_internal. repeat split; intros; rewrite ?conv_R; num_R.
    - unfold efac, tfac. cbn. field.
    - field. generalize (He eu) (Ht tu) (He 0%Z) (Ht 0%Z). lra.
    - field. generalize (He eu) (Ht tu) (He 0%Z) (Ht 0%Z) (He eu') (Ht tu'). lra.
  Qed.

  (* ---------------------------------------------------------- converted exactly once *)
  Definition once (fac : Z -> Z) (unit : option Z) (su : Z) (x : R) : R :=
    match unit with
    | None => x
    | Some u => if (u =? su)%Z then x else x * (IZR (fac u) / IZR (fac su))
    end.

  Local Ltac mulok := (intros; reflexivity).

  Theorem e_call_once p unit E :
    e_call RN p unit E = e_call RN p None (once efac unit (e_unit p) E).
  Proof.
    destruct p; cbn [e_call e_unit]; cbv zeta; try reflexivity.
    - rewrite !(to_self_R erfR efac pl_call_conv) by (try mulok; auto using K_pl_call_conv). reflexivity.
    - rewrite !(to_self_R erfR efac co_call_conv) by (try mulok; auto using K_co_call_conv). reflexivity.
    - rewrite !(to_self_R erfR efac lp_call_conv) by (try mulok; auto using K_lp_call_conv). reflexivity.
    - rewrite !(to_self_R erfR efac fn_call_conv) by (try mulok; auto using K_fn_call_conv). reflexivity.
  Qed.
  (* value of every energy profile in its own unit, in closed form *)
  Theorem e_call_value p E :
    e_call RN p None E =
      match p with
      | UnityE _ => 1
      | PowerLaw _ E0 g => Rpower (E / E0) (- g)
      | Cutoff _ E0 g Ec => Rpower (E / E0) (- g) * exp (- E / Ec)
      | LogPar _ E0 a b => Rpower (E / E0) (- a - b * ln (E / E0))
      | FuncE _ f => f E
      end.
  Proof.
    destruct p; reflexivity.
  Qed.
  Theorem t_call_once p unit t :
    t_call RN p unit t = t_call RN p None (once tfac unit (t_unit p) t).
  Proof.
    destruct p; cbn [t_call t_unit]; cbv zeta; try reflexivity.
    - rewrite !(to_self_R erfR tfac box_call_conv) by (try mulok; auto using K_box_call_conv). reflexivity.
    - rewrite !(to_self_R erfR tfac ga_call_conv) by (try mulok; auto using K_ga_call_conv). reflexivity.
  Qed.

  (* ---------------------------------------------------------- quadrature oracle *)
  Variable Q : (R -> R) -> R -> R -> R.
  Hypothesis Q_spec : forall f a b, ex_RInt f a b -> Q f a b = RInt f a b.

  Lemma Q_is_RInt (f : R -> R) a b : a <= b -> (forall x, a <= x <= b -> continuous f x) ->
    is_RInt f a b (Q f a b).
  Proof.
    intros Hab Hc.
    assert (Hex : ex_RInt f a b).
    { apply (ex_RInt_continuous f). intros x Hx. rewrite Rmin_left, Rmax_right in Hx by lra. apply Hc. lra. }
    rewrite (Q_spec _ _ _ Hex). apply (RInt_correct f). exact Hex.
  Qed.
  Lemma Q_additive (f : R -> R) a b c : a <= b <= c -> (forall x, a <= x <= c -> continuous f x) ->
    Q f a b + Q f b c = Q f a c.
  Proof.
    intros [Hab Hbc] Hc.
    assert (E1 : ex_RInt f a b).
    { apply (ex_RInt_continuous f). intros x Hx. rewrite Rmin_left, Rmax_right in Hx by lra. apply Hc. lra. }
    assert (E2 : ex_RInt f b c).
    { apply (ex_RInt_continuous f). intros x Hx. rewrite Rmin_left, Rmax_right in Hx by lra. apply Hc. lra. }
    assert (E3 : ex_RInt f a c) by (eapply ex_RInt_Chasles; eauto).
    rewrite !Q_spec by assumption. exact (RInt_Chasles f a b c E1 E2).
  Qed.

  Lemma gen_integral_R p E1 E2 :
    gen_integral RN Q p None E1 E2 = Q (e_call RN p None) E1 E2.
  Proof.
    unfold gen_integral. rewrite K_gen_int_quad.
    rewrite !(to_self_R erfR efac gen_int_conv) by (try mulok; auto using K_gen_int_conv).
    reflexivity.
  Qed.
  Lemma e_int_q_numeric p E1 E2 :
    match p with Cutoff _ _ _ _ | LogPar _ _ _ _ | FuncE _ _ => True | _ => False end ->
    e_int_q RN Q p None E1 E2 = Q (e_call RN p None) E1 E2.
  Proof.
    destruct p; intros H; try contradiction; cbn [e_int_q];
      rewrite ?K_co_int_delegate, ?K_lp_int_delegate; apply gen_integral_R.
  Qed.

  Lemma cont_cutoff eu E0 g Ec x : 0 < E0 -> Ec <> 0 -> 0 < x ->
    continuous (e_call RN (Cutoff eu E0 g Ec) None) x.
  Proof.
    intros H0 HE Hx.
    change (continuous (fun E => exp (- g * ln (E / E0)) * exp (- E / Ec)) x).
    apply (ex_derive_continuous (fun E => exp (- g * ln (E / E0)) * exp (- E / Ec))).
    auto_derive. repeat split; try lra. apply Rdiv_lt_0_compat; lra.
  Qed.
  Lemma cont_logpar eu E0 a b x : 0 < E0 -> 0 < x ->
    continuous (e_call RN (LogPar eu E0 a b) None) x.
  Proof.
    intros H0 Hx.
    change (continuous (fun E => exp ((- a - b * ln (E / E0)) * ln (E / E0))) x).
    apply (ex_derive_continuous (fun E => exp ((- a - b * ln (E / E0)) * ln (E / E0)))).
    auto_derive. repeat split; try lra; apply Rdiv_lt_0_compat; lra.
  Qed.

  (* get_integral of the numerically integrated profiles IS the Riemann integral of their values *)
  Theorem cutoff_is_RInt eu E0 g Ec E1 E2 : 0 < E0 -> Ec <> 0 -> 0 < E1 <= E2 ->
    is_RInt (e_call RN (Cutoff eu E0 g Ec) None) E1 E2 (e_int_q RN Q (Cutoff eu E0 g Ec) None E1 E2).
  Proof.
    intros H0 HE [H1 H12]. rewrite e_int_q_numeric by exact I.
    apply Q_is_RInt; [assumption|]. intros x Hx. apply cont_cutoff; lra.
  Qed.
  Theorem logpar_is_RInt eu E0 a b E1 E2 : 0 < E0 -> 0 < E1 <= E2 ->
    is_RInt (e_call RN (LogPar eu E0 a b) None) E1 E2 (e_int_q RN Q (LogPar eu E0 a b) None E1 E2).
  Proof.
    intros H0 [H1 H12]. rewrite e_int_q_numeric by exact I.
    apply Q_is_RInt; [assumption|]. intros x Hx. apply cont_logpar; lra.
  Qed.
  Theorem func_is_RInt eu (f : R -> R) E1 E2 : E1 <= E2 -> (forall x, E1 <= x <= E2 -> continuous f x) ->
    is_RInt (e_call RN (FuncE eu f) None) E1 E2 (e_int_q RN Q (FuncE eu f) None E1 E2).
  Proof.
    intros H12 Hc. rewrite e_int_q_numeric by exact I. apply Q_is_RInt; assumption.
  Qed.

  Theorem numeric_additive :
    (forall eu E0 g Ec a b c, 0 < E0 -> Ec <> 0 -> 0 < a -> a <= b <= c ->
       e_int_q RN Q (Cutoff eu E0 g Ec) None a b + e_int_q RN Q (Cutoff eu E0 g Ec) None b c
         = e_int_q RN Q (Cutoff eu E0 g Ec) None a c)
    /\ (forall eu E0 al be a b c, 0 < E0 -> 0 < a -> a <= b <= c ->
       e_int_q RN Q (LogPar eu E0 al be) None a b + e_int_q RN Q (LogPar eu E0 al be) None b c
         = e_int_q RN Q (LogPar eu E0 al be) None a c)
    /\ (forall eu (f : R -> R) a b c, a <= b <= c -> (forall x, a <= x <= c -> continuous f x) ->
       e_int_q RN Q (FuncE eu f) None a b + e_int_q RN Q (FuncE eu f) None b c
         = e_int_q RN Q (FuncE eu f) None a c).
  Proof.
    repeat split; intros; rewrite !e_int_q_numeric by exact I; apply Q_additive; try assumption.
    - intros x Hx. apply cont_cutoff; lra.
    - intros x Hx. apply cont_logpar; lra.
  Qed.

  (* unit invariance of get_integral for EVERY energy profile (closed forms and quadrature):
     the bounds are converted exactly once, the integrand is the profile in its own unit *)
  Theorem e_int_q_units p u w a b :
    e_int_q RN Q p (Some u) a b =
    e_int_q RN Q p (Some w) (a * IZR (efac u) / IZR (efac w)) (b * IZR (efac u) / IZR (efac w)).
  Proof.
    assert (G : forall p, gen_integral RN Q p (Some u) a b =
              gen_integral RN Q p (Some w) (a * IZR (efac u) / IZR (efac w)) (b * IZR (efac u) / IZR (efac w))).
    { intros q. unfold gen_integral.
      rewrite (to_self_units erfR efac gen_int_conv (gen_int_scale1 RN) u w),
              (to_self_units erfR efac gen_int_conv (gen_int_scale2 RN) u w)
        by (try mulok; auto using K_gen_int_conv, efac_pos). reflexivity. }
    destruct p; cbn [e_int_q]; rewrite ?G; try reflexivity.
    - rewrite (e_int_units erfR (UnityE eu) u w). reflexivity.
    - rewrite (e_int_units erfR (PowerLaw eu E0 g) u w). reflexivity.
  Qed.
  Theorem e_int_q_once p unit a b :
    e_int_q RN Q p unit a b = e_int_q RN Q p None (once efac unit (e_unit p) a) (once efac unit (e_unit p) b).
  Proof.
    assert (G : forall p, gen_integral RN Q p unit a b =
              gen_integral RN Q p None (once efac unit (e_unit p) a) (once efac unit (e_unit p) b)).
    { intros q. unfold gen_integral.
      rewrite !(to_self_R erfR efac gen_int_conv) by (try mulok; auto using K_gen_int_conv). reflexivity. }
    destruct p; cbn [e_int_q e_unit]; rewrite ?G; try reflexivity; cbn [e_int e_unit].
    - rewrite !(to_self_R erfR efac ue_int_conv) by (try mulok; auto using K_ue_int_conv). reflexivity.
    - rewrite !(to_self_R erfR efac pl_int_conv) by (try mulok; auto using K_pl_int_conv). reflexivity.
  Qed.
End Deep.
