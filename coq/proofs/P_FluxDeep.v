(* C13 — deepening: unit-factor table composition, every conversion happens exactly once,
   the numerically integrated profiles through the quadrature oracle, raw window setters,
   array (outer-product) call, cdf of the time profiles. *)
From Coq Require Import Reals ZArith List Bool Lra Lia.
From Coquelicot Require Import Coquelicot.
From Sky Require Import Result Num NumR G_flux M_Flux S_Flux P_Flux P_FluxInt P_FluxObj P_FluxStore.
Import ListNotations.
Open Scope R_scope.

Lemma K_gen_int_conv : conv_test_spec gen_int_conv. Proof. intros [u|] su; reflexivity. Qed.
Lemma K_ga_cdf_conv : conv_test_spec ga_cdf_conv. Proof. intros [u|] su; reflexivity. Qed.

Section Deep.
  Variable erfR : R -> R.
  Notation RN := (RNum erfR).

  Lemma K_gen_int_scale1 x c : gen_int_scale1 RN x c = x * c. Proof. reflexivity. Qed.
  Lemma K_gen_int_scale2 x c : gen_int_scale2 RN x c = x * c. Proof. reflexivity. Qed.
  Lemma K_gen_int_integrand x : gen_int_integrand RN x = x. Proof. reflexivity. Qed.
  Lemma K_gen_int_quad x : gen_int_quad RN x = x. Proof. reflexivity. Qed.
  Lemma K_co_int_delegate x : co_int_delegate RN x = x. Proof. reflexivity. Qed.
  Lemma K_lp_int_delegate x : lp_int_delegate RN x = x. Proof. reflexivity. Qed.
  Lemma K_co_super x : co_super RN x = x. Proof. reflexivity. Qed.
  Lemma K_ga_cdf_m0 t ts te : ga_cdf_m0 RN t ts te = true <-> ts <= t <= te.
  Proof. unfold ga_cdf_m0. num_R. rewrite andb_true_iff, !Rleb_true. tauto. Qed.
  Lemma K_ga_cdf_m1 t te : ga_cdf_m1 RN t te = true <-> te < t.
  Proof. unfold ga_cdf_m1. num_R. apply Rltb_true. Qed.
  Lemma K_ga_cdf_val a b : ga_cdf_val RN a b = a / b. Proof. reflexivity. Qed.

  (* ---------------------------------------------------------- unit factor table *)
  Lemma conv_R fac u v : conv RN fac u v = IZR (fac u) / IZR (fac v).
  Proof. unfold conv. num_R. reflexivity. Qed.

  Theorem conv_table fac : (forall v, 0 < IZR (fac v)) ->
    (forall u, conv RN fac u u = 1)
    /\ (forall u v w, conv RN fac u v * conv RN fac v w = conv RN fac u w)
    /\ (forall u v, conv RN fac u v * conv RN fac v u = 1)
    /\ (forall u v, 0 < conv RN fac u v).
  Proof.
    intros Hp. repeat split; intros.
    - rewrite conv_R. field. generalize (Hp u). lra.
    - rewrite !conv_R. field. generalize (Hp v) (Hp w). lra.
    - rewrite !conv_R. field. generalize (Hp v) (Hp u). lra.
    - rewrite conv_R. apply Rdiv_lt_0_compat; apply Hp.
  Qed.

  (* to_internal_flux_unit: 1 in internal units; the flux factor composes with the table *)
  Theorem to_internal_spec :
    to_internal RN 0 0 = 1
    /\ (forall eu tu, to_internal RN eu tu * (conv RN efac eu 0 * conv RN tfac tu 0) = 1)
    /\ (forall eu tu eu' tu',
          to_internal RN eu tu = to_internal RN eu' tu' * (conv RN efac eu' eu * conv RN tfac tu' tu)).
  Proof.
    assert (He := efac_pos). assert (Ht := tfac_pos).
    unfold to_internal. repeat split; intros; rewrite ?conv_R; num_R.
    - unfold efac, tfac. cbn. field.
    - field. generalize (He eu) (Ht tu) (He 0%Z) (Ht 0%Z). lra.
    - field. generalize (He eu) (Ht tu) (He 0%Z) (Ht 0%Z) (He eu') (Ht tu'). lra.
  Qed.

  (* ---------------------------------------------------------- converted exactly once *)
  Local Ltac mulok := (intros; reflexivity).

  Theorem e_call_once p unit E :
    e_call RN p unit E = e_call RN p None (once efac unit (e_unit p) E).
  Proof.
    destruct p; cbn [e_call e_unit]; cbv zeta; try reflexivity.
    - rewrite !(to_self_R erfR efac pl_call_conv) by (try mulok; auto using K_pl_call_conv). reflexivity.
    - rewrite !(to_self_R erfR efac co_call_conv) by (try mulok; auto using K_co_call_conv). reflexivity.
    - rewrite !(to_self_R erfR efac lp_call_conv) by (try mulok; auto using K_lp_call_conv). reflexivity.
    - rewrite !(to_self_R erfR efac fn_call_conv) by (try mulok; auto using K_fn_call_conv). reflexivity.
  Qed.
  (* value of every energy profile in its own unit, in closed form *)
  Theorem e_call_value p E :
    e_call RN p None E =
      match p with
      | UnityE _ => 1
      | PowerLaw _ E0 g => Rpower (E / E0) (- g)
      | Cutoff _ E0 g Ec => Rpower (E / E0) (- g) * exp (- E / Ec)
      | LogPar _ E0 a b => Rpower (E / E0) (- a - b * ln (E / E0))
      | FuncE _ f => f E
      end.
  Proof.
    destruct p; reflexivity.
  Qed.
  Theorem t_call_once p unit t :
    t_call RN p unit t = t_call RN p None (once tfac unit (t_unit p) t).
  Proof.
    destruct p; cbn [t_call t_unit]; cbv zeta; try reflexivity.
    - rewrite !(to_self_R erfR tfac box_call_conv) by (try mulok; auto using K_box_call_conv). reflexivity.
    - rewrite !(to_self_R erfR tfac ga_call_conv) by (try mulok; auto using K_ga_call_conv). reflexivity.
  Qed.

  (* ---------------------------------------------------------- quadrature oracle *)
  Variable Q : (R -> R) -> R -> R -> R.
  Hypothesis Q_spec : forall f a b, ex_RInt f a b -> Q f a b = RInt f a b.

  Lemma Q_is_RInt (f : R -> R) a b : a <= b -> (forall x, a <= x <= b -> continuous f x) ->
    is_RInt f a b (Q f a b).
  Proof.
    intros Hab Hc.
    assert (Hex : ex_RInt f a b).
    { apply (ex_RInt_continuous f). intros x Hx. rewrite Rmin_left, Rmax_right in Hx by lra. apply Hc. lra. }
    rewrite (Q_spec _ _ _ Hex). apply (RInt_correct f). exact Hex.
  Qed.
  Lemma Q_additive (f : R -> R) a b c : a <= b <= c -> (forall x, a <= x <= c -> continuous f x) ->
    Q f a b + Q f b c = Q f a c.
  Proof.
    intros [Hab Hbc] Hc.
    assert (E1 : ex_RInt f a b).
    { apply (ex_RInt_continuous f). intros x Hx. rewrite Rmin_left, Rmax_right in Hx by lra. apply Hc. lra. }
    assert (E2 : ex_RInt f b c).
    { apply (ex_RInt_continuous f). intros x Hx. rewrite Rmin_left, Rmax_right in Hx by lra. apply Hc. lra. }
    assert (E3 : ex_RInt f a c) by (eapply ex_RInt_Chasles; eauto).
    rewrite !Q_spec by assumption. exact (RInt_Chasles f a b c E1 E2).
  Qed.

  Lemma gen_integral_R p E1 E2 :
    gen_integral RN Q p None E1 E2 = Q (e_call RN p None) E1 E2.
  Proof.
    unfold gen_integral. rewrite K_gen_int_quad.
    rewrite !(to_self_R erfR efac gen_int_conv) by (try mulok; auto using K_gen_int_conv).
    reflexivity.
  Qed.
  Lemma e_int_q_numeric p E1 E2 :
    match p with Cutoff _ _ _ _ | LogPar _ _ _ _ | FuncE _ _ => True | _ => False end ->
    e_int_q RN Q p None E1 E2 = Q (e_call RN p None) E1 E2.
  Proof.
    destruct p; intros H; try contradiction; cbn [e_int_q];
      rewrite ?K_co_int_delegate, ?K_lp_int_delegate; apply gen_integral_R.
  Qed.

  Lemma cont_cutoff eu E0 g Ec x : 0 < E0 -> Ec <> 0 -> 0 < x ->
    continuous (e_call RN (Cutoff eu E0 g Ec) None) x.
  Proof.
    intros H0 HE Hx.
    change (continuous (fun E => exp (- g * ln (E / E0)) * exp (- E / Ec)) x).
    apply (ex_derive_continuous (fun E => exp (- g * ln (E / E0)) * exp (- E / Ec))).
    auto_derive. repeat split; try lra. apply Rdiv_lt_0_compat; lra.
  Qed.
  Lemma cont_logpar eu E0 a b x : 0 < E0 -> 0 < x ->
    continuous (e_call RN (LogPar eu E0 a b) None) x.
  Proof.
    intros H0 Hx.
    change (continuous (fun E => exp ((- a - b * ln (E / E0)) * ln (E / E0))) x).
    apply (ex_derive_continuous (fun E => exp ((- a - b * ln (E / E0)) * ln (E / E0)))).
    auto_derive. repeat split; try lra; apply Rdiv_lt_0_compat; lra.
  Qed.

  (* get_integral of the numerically integrated profiles IS the Riemann integral of their values *)
  Theorem cutoff_is_RInt eu E0 g Ec E1 E2 : 0 < E0 -> Ec <> 0 -> 0 < E1 <= E2 ->
    is_RInt (e_call RN (Cutoff eu E0 g Ec) None) E1 E2 (e_int_q RN Q (Cutoff eu E0 g Ec) None E1 E2).
  Proof.
    intros H0 HE [H1 H12]. rewrite e_int_q_numeric by exact I.
    apply Q_is_RInt; [assumption|]. intros x Hx. apply cont_cutoff; lra.
  Qed.
  Theorem logpar_is_RInt eu E0 a b E1 E2 : 0 < E0 -> 0 < E1 <= E2 ->
    is_RInt (e_call RN (LogPar eu E0 a b) None) E1 E2 (e_int_q RN Q (LogPar eu E0 a b) None E1 E2).
  Proof.
    intros H0 [H1 H12]. rewrite e_int_q_numeric by exact I.
    apply Q_is_RInt; [assumption|]. intros x Hx. apply cont_logpar; lra.
  Qed.
  Theorem func_is_RInt eu (f : R -> R) E1 E2 : E1 <= E2 -> (forall x, E1 <= x <= E2 -> continuous f x) ->
    is_RInt (e_call RN (FuncE eu f) None) E1 E2 (e_int_q RN Q (FuncE eu f) None E1 E2).
  Proof.
    intros H12 Hc. rewrite e_int_q_numeric by exact I. apply Q_is_RInt; assumption.
  Qed.

  Theorem numeric_additive :
    (forall eu E0 g Ec a b c, 0 < E0 -> Ec <> 0 -> 0 < a -> a <= b <= c ->
       e_int_q RN Q (Cutoff eu E0 g Ec) None a b + e_int_q RN Q (Cutoff eu E0 g Ec) None b c
         = e_int_q RN Q (Cutoff eu E0 g Ec) None a c)
    /\ (forall eu E0 al be a b c, 0 < E0 -> 0 < a -> a <= b <= c ->
       e_int_q RN Q (LogPar eu E0 al be) None a b + e_int_q RN Q (LogPar eu E0 al be) None b c
         = e_int_q RN Q (LogPar eu E0 al be) None a c)
    /\ (forall eu (f : R -> R) a b c, a <= b <= c -> (forall x, a <= x <= c -> continuous f x) ->
       e_int_q RN Q (FuncE eu f) None a b + e_int_q RN Q (FuncE eu f) None b c
         = e_int_q RN Q (FuncE eu f) None a c).
  Proof.
    repeat split; intros; rewrite !e_int_q_numeric by exact I; apply Q_additive; try assumption.
    - intros x Hx. apply cont_cutoff; lra.
    - intros x Hx. apply cont_logpar; lra.
  Qed.

  (* unit invariance of get_integral for EVERY energy profile (closed forms and quadrature):
     the bounds are converted exactly once, the integrand is the profile in its own unit *)
  Theorem e_int_q_units p u w a b :
    e_int_q RN Q p (Some u) a b =
    e_int_q RN Q p (Some w) (a * IZR (efac u) / IZR (efac w)) (b * IZR (efac u) / IZR (efac w)).
  Proof.
    assert (G : forall p, gen_integral RN Q p (Some u) a b =
              gen_integral RN Q p (Some w) (a * IZR (efac u) / IZR (efac w)) (b * IZR (efac u) / IZR (efac w))).
    { intros q. unfold gen_integral.
      rewrite (to_self_units erfR efac gen_int_conv (gen_int_scale1 RN) u w),
              (to_self_units erfR efac gen_int_conv (gen_int_scale2 RN) u w)
        by (try mulok; auto using K_gen_int_conv, efac_pos). reflexivity. }
    destruct p; cbn [e_int_q]; rewrite ?G; try reflexivity.
    - rewrite (e_int_units erfR (UnityE eu) u w). reflexivity.
    - rewrite (e_int_units erfR (PowerLaw eu E0 g) u w). reflexivity.
  Qed.
  Theorem e_int_q_once p unit a b :
    e_int_q RN Q p unit a b = e_int_q RN Q p None (once efac unit (e_unit p) a) (once efac unit (e_unit p) b).
  Proof.
    assert (G : forall p, gen_integral RN Q p unit a b =
              gen_integral RN Q p None (once efac unit (e_unit p) a) (once efac unit (e_unit p) b)).
    { intros q. unfold gen_integral.
      rewrite !(to_self_R erfR efac gen_int_conv) by (try mulok; auto using K_gen_int_conv). reflexivity. }
    destruct p; cbn [e_int_q e_unit]; rewrite ?G; try reflexivity; cbn [e_int e_unit].
    - rewrite !(to_self_R erfR efac ue_int_conv) by (try mulok; auto using K_ue_int_conv). reflexivity.
    - rewrite !(to_self_R erfR efac pl_int_conv) by (try mulok; auto using K_pl_int_conv). reflexivity.
  Qed.
  (* ---------------------------------------------------------- raw window setters *)
  Lemma box_step_full tu t0 tw o :
    t_apply RN (box_new RN tu t0 tw) o =
      box_new RN tu (fst (box_spec_full tu (t0, tw) o)) (snd (box_spec_full tu (t0, tw) o)).
  Proof.
    destruct o as [pd|n v|dt u].
    - apply (box_step erfR tu t0 tw (TSetParams pd)). exact I.
    - destruct n; try (apply (box_step erfR tu t0 tw (TSetAttr _ v)); split; discriminate).
      + cbn [box_spec_full fst snd t_apply]. rewrite !box_new_R. cbn [t_set]. f_equal; lra.
      + cbn [box_spec_full fst snd t_apply]. rewrite !box_new_R. cbn [t_set]. f_equal; lra.
    - apply (box_step erfR tu t0 tw (TMove dt u)). exact I.
  Qed.
  (* every history on a box profile, raw t_start / t_stop setters included, ends in the profile
     constructed with the (t0, tw) the history asks for: no guard *)
  Theorem box_update_full ops : forall tu t0 tw,
    t_run RN ops (box_new RN tu t0 tw) =
      box_new RN tu (fst (fold_left (box_spec_full tu) ops (t0, tw)))
                    (snd (fold_left (box_spec_full tu) ops (t0, tw))).
  Proof.
    unfold t_run. induction ops as [|o r IH]; intros tu t0 tw.
    - reflexivity.
    - cbn [fold_left]. rewrite box_step_full, IH.
      destruct (box_spec_full tu (t0, tw) o). reflexivity.
  Qed.
  (* for the Gaussian the guard par_op of the update theorem is needed: after the raw t_start
     setter the object is one that no constructor call produces *)
  Theorem gauss_raw_refuted :
    exists tu t0 sg tol v, forall t0' sg',
      t_apply RN (gauss_new RN tu t0 sg tol) (TSetAttr nTstart v) <> gauss_new RN tu t0' sg' tol.
  Proof.
    exists 0%Z, 0, 1, (1/2), (- gd 1 (1/2) - 1). intros t0' sg'.
    rewrite !gauss_new_R. cbn [t_apply t_set]. intros H. injection H as H1 H2 H3.
    subst sg'. lra.
  Qed.

  (* ---------------------------------------------------------- array call: outer product *)
  Lemma nth_map3 {A B C D : Type} (f : A -> B -> C -> D) la lb lc i j k a b c :
    nth_error la i = Some a -> nth_error lb j = Some b -> nth_error lc k = Some c ->
    exists row col, nth_error (map (fun x => map (fun y => map (fun z => f x y z) lc) lb) la) i = Some row
      /\ nth_error row j = Some col /\ nth_error col k = Some (f a b c).
  Proof.
    intros Ha Hb Hc.
    exists (map (fun y => map (fun z => f a y z) lc) lb), (map (fun z => f a b z) lc).
    repeat split.
    - rewrite nth_error_map, Ha. reflexivity.
    - rewrite nth_error_map, Hb. reflexivity.
    - rewrite nth_error_map, Hc. reflexivity.
  Qed.

  Theorem ffm_array s l Phi0 ls le lt sp ep tp rd E t eu tu :
    nth_error s l = Some (OM Phi0 ls le lt) ->
    get_s s ls = Ok sp -> get_e s le = Ok ep -> get_t s lt = Ok tp ->
    let sv := match rd with Some xs => map (fun x => s_call RN sp (fst x) (snd x)) xs | None => [1] end in
    let ev := match E with Some xs => map (e_call RN ep eu) xs | None => [1] end in
    let tv := match t with Some xs => map (t_call RN tp tu) xs | None => [1] end in
    exists r, ffm_call_arr RN s l rd E t eu tu = Ok r
      /\ length r = length sv
      /\ (forall row, In row r -> length row = length ev /\ forall col, In col row -> length col = length tv)
      /\ (forall i j k a b c, nth_error sv i = Some a -> nth_error ev j = Some b -> nth_error tv k = Some c ->
            exists row col, nth_error r i = Some row /\ nth_error row j = Some col
                            /\ nth_error col k = Some (Phi0 * a * b * c)).
  Proof.
    intros Hl Hs He Ht sv ev tv. unfold ffm_call_arr. rewrite Hl, Hs, He, Ht. cbn [bind].
    fold sv. fold ev. fold tv.
    eexists. split; [reflexivity|]. split; [apply map_length|]. split.
    - intros row Hr. apply in_map_iff in Hr. destruct Hr as (a & <- & _). split; [apply map_length|].
      intros col Hc. apply in_map_iff in Hc. destruct Hc as (b & <- & _). apply map_length.
    - intros i j k a b c Ha Hb Hc.
      exact (nth_map3 (fun x y z => ffm_flux RN Phi0 x y z) sv ev tv i j k a b c Ha Hb Hc).
  Qed.

  (* ---------------------------------------------------------- cdf *)
  Lemma ratio_facts d : 0 < d ->
    (forall a, 0 <= a -> 0 <= a / d) /\ (forall a, a <= d -> a / d <= 1)
    /\ (forall a b, a <= b -> a / d <= b / d) /\ d / d = 1 /\ 0 / d = 0.
  Proof.
    intros Hd. assert (Hi : 0 < / d) by (apply Rinv_0_lt_compat; assumption).
    repeat split; intros; unfold Rdiv.
    - apply Rmult_le_pos; lra.
    - replace 1 with (d * / d) by (field; lra). apply Rmult_le_compat_r; lra.
    - apply Rmult_le_compat_r; lra.
    - field; lra.
    - ring.
  Qed.

  Lemma box_cdf_R tu ts te t :
    box_cdf RN tu ts te None t =
      if Rlt_dec te t then 1 else if Rle_dec ts t then (t - ts) / (te - ts) else 0.
  Proof.
    unfold box_cdf. rewrite (to_self_R erfR tfac box_cdf_conv) by (try mulok; auto using K_box_cdf_conv).
    cbv zeta. destruct (box_cdf_m1 RN t te) eqn:H1.
    - apply K_box_cdf_m1 in H1. destruct (Rlt_dec te t); [reflexivity|lra].
    - destruct (Rlt_dec te t) as [Hc|Hc].
      { assert (box_cdf_m1 RN t te = true) by (apply K_box_cdf_m1; lra). congruence. }
      destruct (box_cdf_m0 RN t ts te) eqn:H0.
      + apply K_box_cdf_m0 in H0. destruct (Rle_dec ts t); [apply K_box_cdf_val|lra].
      + destruct (Rle_dec ts t); [|reflexivity].
        assert (box_cdf_m0 RN t ts te = true) by (apply K_box_cdf_m0; lra). congruence.
  Qed.

  Theorem box_cdf_props tu ts te : ts < te ->
    (forall t, 0 <= box_cdf RN tu ts te None t <= 1)
    /\ (forall t t', t <= t' -> box_cdf RN tu ts te None t <= box_cdf RN tu ts te None t')
    /\ box_cdf RN tu ts te None ts = 0
    /\ box_cdf RN tu ts te None te = 1
    /\ (forall t, ts <= t <= te ->
          box_cdf RN tu ts te None t * t_total RN (Box tu ts te) = t_int RN (Box tu ts te) None ts t).
  Proof.
    intros Hw. destruct (ratio_facts (te - ts) ltac:(lra)) as (P0 & P1 & Pm & Pd & Pz).
    repeat split; intros; rewrite ?box_cdf_R.
    - destruct (Rlt_dec te t); [lra|]. destruct (Rle_dec ts t); [apply P0; lra|lra].
    - destruct (Rlt_dec te t); [lra|]. destruct (Rle_dec ts t); [apply P1; lra|lra].
    - destruct (Rlt_dec te t), (Rlt_dec te t'), (Rle_dec ts t), (Rle_dec ts t'); try lra;
        try (apply P1; lra); try (apply P0; lra); try (apply Pm; lra).
    - destruct (Rlt_dec te ts); [lra|]. destruct (Rle_dec ts ts); [|lra].
      replace (ts - ts) with 0 by ring. exact Pz.
    - destruct (Rlt_dec te te); [lra|]. destruct (Rle_dec ts te); [exact Pd|lra].
    - destruct (Rlt_dec te t); [lra|]. destruct (Rle_dec ts t); [|lra].
      rewrite t_total_spec, !(box_int_length erfR) by lra.
      rewrite (Rmax_left ts ts), (Rmin_right te te), (Rmin_left t te) by lra.
      rewrite !Rmax_right by lra. field. lra.
  Qed.
End Deep.

Section GaussCdf.
  Variable erfR : R -> R.
  Notation RN := (RNum erfR).
  Hypothesis erf_deriv : forall x, is_derive erfR x (2 / sqrt PI * exp (- (x * x))).

  (* the antiderivative is strictly increasing (erf' > 0) *)
  Lemma gauss_G_incr sg t0 a b : 0 < sg -> a < b -> gauss_G erfR sg t0 a < gauss_G erfR sg t0 b.
  Proof.
    intros Hs Hab.
    assert (H := gauss_is_RInt_line erfR erf_deriv sg t0 a b Hs).
    apply Rminus_lt_0. rewrite <- (is_RInt_unique _ _ _ _ H).
    apply RInt_gt_0; [assumption| |].
    - intros x _. unfold gauss_g. apply exp_pos.
    - intros x _. apply gauss_g_cont. assumption.
  Qed.
  Lemma gauss_G_mono sg t0 a b : 0 < sg -> a <= b -> gauss_G erfR sg t0 a <= gauss_G erfR sg t0 b.
  Proof.
    intros Hs [Hab| ->]; [left; apply gauss_G_incr; assumption|right; reflexivity].
  Qed.

  Lemma gauss_total_R tu ts te sg tol : ts <= te ->
    t_total RN (Gauss tu ts te sg tol) = gauss_G erfR sg ((ts + te) / 2) te - gauss_G erfR sg ((ts + te) / 2) ts.
  Proof.
    intros Hw. rewrite t_total_spec, gauss_int_R.
    rewrite (Rmax_left te ts), (Rmin_left te te), (Rmax_left ts ts), (Rmin_left ts te) by lra. reflexivity.
  Qed.

  Lemma gauss_cdf_R tu ts te sg tol t : ts <= te ->
    gauss_cdf RN tu ts te sg tol None t =
      if Rlt_dec te t then 1
      else if Rle_dec ts t
           then (gauss_G erfR sg ((ts + te) / 2) t - gauss_G erfR sg ((ts + te) / 2) ts)
                / (gauss_G erfR sg ((ts + te) / 2) te - gauss_G erfR sg ((ts + te) / 2) ts)
           else 0.
  Proof.
    intros Hw. unfold gauss_cdf.
    rewrite (to_self_R erfR tfac ga_cdf_conv) by (try (intros; reflexivity); auto using K_ga_cdf_conv).
    cbv zeta. destruct (ga_cdf_m1 RN t te) eqn:H1.
    - apply K_ga_cdf_m1 in H1. destruct (Rlt_dec te t); [reflexivity|lra].
    - destruct (Rlt_dec te t) as [Hc|Hc].
      { assert (ga_cdf_m1 RN t te = true) by (apply K_ga_cdf_m1; lra). congruence. }
      destruct (ga_cdf_m0 RN t ts te) eqn:H0.
      + apply K_ga_cdf_m0 in H0. destruct (Rle_dec ts t); [|lra].
        rewrite K_ga_cdf_val, gauss_total_R, gauss_int_R by assumption.
        rewrite (Rmax_left t ts), (Rmin_left t te), (Rmax_left ts ts), (Rmin_left ts te) by lra. reflexivity.
      + destruct (Rle_dec ts t); [|reflexivity].
        assert (ga_cdf_m0 RN t ts te = true) by (apply K_ga_cdf_m0; lra). congruence.
  Qed.

  Theorem gauss_cdf_props tu ts te sg tol : 0 < sg -> ts < te ->
    0 < t_total RN (Gauss tu ts te sg tol)
    /\ (forall t, 0 <= gauss_cdf RN tu ts te sg tol None t <= 1)
    /\ (forall t t', t <= t' -> gauss_cdf RN tu ts te sg tol None t <= gauss_cdf RN tu ts te sg tol None t')
    /\ gauss_cdf RN tu ts te sg tol None ts = 0
    /\ gauss_cdf RN tu ts te sg tol None te = 1
    /\ (forall t, ts <= t <= te ->
          gauss_cdf RN tu ts te sg tol None t * t_total RN (Gauss tu ts te sg tol)
            = t_int RN (Gauss tu ts te sg tol) None ts t).
  Proof.
    intros Hs Hw. set (G := gauss_G erfR sg ((ts + te) / 2)).
    assert (Hd : 0 < G te - G ts) by (apply Rlt_Rminus; apply gauss_G_incr; assumption).
    assert (Gm : forall a b, a <= b -> G a <= G b) by (intros; apply gauss_G_mono; assumption).
    destruct (ratio_facts (G te - G ts) Hd) as (P0 & P1 & Pm & Pd & Pz).
    split; [rewrite gauss_total_R by lra; exact Hd|].
    repeat split; intros; rewrite ?gauss_cdf_R by lra; fold G.
    - destruct (Rlt_dec te t); [lra|]. destruct (Rle_dec ts t); [|lra].
      apply P0. generalize (Gm ts t ltac:(lra)). lra.
    - destruct (Rlt_dec te t); [lra|]. destruct (Rle_dec ts t); [|lra].
      apply P1. generalize (Gm t te ltac:(lra)). lra.
    - destruct (Rlt_dec te t), (Rlt_dec te t'), (Rle_dec ts t), (Rle_dec ts t'); try lra.
      + apply P1. generalize (Gm t te ltac:(lra)). lra.
      + apply Pm. generalize (Gm t t' ltac:(lra)). lra.
      + apply P0. generalize (Gm ts t' ltac:(lra)). lra.
    - destruct (Rlt_dec te ts); [lra|]. destruct (Rle_dec ts ts); [|lra].
      replace (G ts - G ts) with 0 by ring. exact Pz.
    - destruct (Rlt_dec te te); [lra|]. destruct (Rle_dec ts te); [exact Pd|lra].
    - destruct (Rlt_dec te t); [lra|]. destruct (Rle_dec ts t); [|lra].
      rewrite gauss_total_R, gauss_int_R by lra. fold G.
      rewrite (Rmax_left t ts), (Rmin_left t te), (Rmax_left ts ts), (Rmin_left ts te) by lra.
      field. lra.
  Qed.
End GaussCdf.

(* ---------------------------------------------------------------- audit follow-up *)
Lemma K_mf_copy x : mf_copy x = x. Proof. reflexivity. Qed.
Lemma K_mf_copy_with o : mf_copy_with o = match o with Some _ => true | None => false end.
Proof. destruct o; reflexivity. Qed.
Lemma K_ffm_if_s a b : ffm_if_s a b = match a, b with Some _, Some _ => true | _, _ => false end.
Proof. destruct a, b; reflexivity. Qed.
Lemma K_ffm_if_e a : ffm_if_e a = match a with Some _ => true | None => false end.
Proof. destruct a; reflexivity. Qed.
Lemma K_ffm_if_t a : ffm_if_t a = match a with Some _ => true | None => false end.
Proof. destruct a; reflexivity. Qed.
(* PointlikeFFM hands exactly the ra / dec getters and setters of its own point profile to IsPointlike *)
Lemma K_pf_wiring a : pf_get_ra a = a /\ pf_set_ra a = a /\ pf_get_dec a = a /\ pf_set_dec a = a
                      /\ pf_ra_inst a = a /\ pf_dec_inst a = a.
Proof. repeat split. Qed.

Section Audit.
  Variable erfR : R -> R.
  Notation RN := (RNum erfR).

  Lemma K_pt_call ra dec r d : pt_call RN ra dec r d = true <-> ra = r /\ dec = d.
  Proof. unfold pt_call. num_R. rewrite andb_true_iff, !Reqb_true. tauto. Qed.

  Theorem s_call_point ra dec r d :
    s_call RN (Point r d) ra dec = if Req_EM_T ra r then if Req_EM_T dec d then 1 else 0 else 0.
  Proof.
    cbn [s_call]. destruct (pt_call RN ra dec r d) eqn:H.
    - apply K_pt_call in H. destruct H. destruct (Req_EM_T ra r); [|contradiction].
      destruct (Req_EM_T dec d); [reflexivity|contradiction].
    - destruct (Req_EM_T ra r); [|reflexivity]. destruct (Req_EM_T dec d); [|reflexivity].
      assert (pt_call RN ra dec r d = true) by (apply K_pt_call; split; assumption). congruence.
  Qed.

  (* optional coordinates: the spatial profile counts only when BOTH ra and dec are given *)
  Theorem ffm_call2_spec s l ra dec E t eu tu :
    ffm_call2 RN s l ra dec E t eu tu =
      ffm_call RN s l (match ra, dec with Some a, Some b => Some (a, b) | _, _ => None end) E t eu tu.
  Proof.
    unfold ffm_call2, ffm_call. destruct (nth_error s l) as [[| | |Phi0 ls le lt]|]; try reflexivity.
    destruct (get_s s ls); [|reflexivity]. destruct (get_e s le); [|reflexivity]. destruct (get_t s lt); [|reflexivity].
    cbn [bind]. rewrite K_ffm_if_s, K_ffm_if_e, K_ffm_if_t.
    destruct ra, dec, E, t; reflexivity.
  Qed.

  Local Ltac sp_tac :=
    repeat (match goal with |- context [mf_changed RN ?v ?c] =>
              let H := fresh in destruct (mf_changed RN v c) eqn:H; [|apply K_mf_unchanged in H; subst] end;
            cbn [fst e_get e_set s_get s_set t_get t_set]); try reflexivity;
    try (exfalso; match goal with H : mf_changed RN ?x ?x = true |- _ => apply K_mf_changed in H; apply H; reflexivity end).

  Theorem pt_set_params ra dec pd :
    fst (s_set_params RN pd (Point ra dec)) = Point (pick pd nRa ra) (pick pd nDec dec).
  Proof.
    unfold s_set_params, set_params_gen, pick. cbn [s_names fold_left fst s_get].
    destruct (lookup pd nRa) as [a|], (lookup pd nDec) as [b|]; sp_tac.
  Qed.
  Theorem ut_set_params tu ts te pd :
    fst (t_set_params RN pd (UnityT tu ts te)) = UnityT tu (pick pd nTstart ts) (pick pd nTstop te).
  Proof.
    unfold t_set_params, set_params_gen, pick. cbn [t_names fold_left fst t_get].
    destruct (lookup pd nTstart) as [a|], (lookup pd nTstop) as [b|]; sp_tac.
  Qed.
  Lemma unity_set_params pd :
    fst (s_set_params RN pd UnityS) = UnityS /\ (forall eu, fst (e_set_params RN pd (UnityE eu)) = UnityE eu)
    /\ (forall eu f, fst (e_set_params RN pd (FuncE eu f)) = FuncE eu f).
  Proof. repeat split. Qed.
  Lemma phi0_set_params pd Phi0 :
    fst (set_params_gen RN (fun (x : R) n => if pname_beq n nPhi0 then Some x else None)
                           (fun (x : R) n v => if pname_beq n nPhi0 then v else x) [nPhi0] pd Phi0)
      = pick pd nPhi0 Phi0.
  Proof.
    unfold set_params_gen, pick. cbn [fold_left fst pname_beq].
    destruct (lookup pd nPhi0) as [a|].
    - destruct (mf_changed RN a Phi0) eqn:H; cbn [fst]; [reflexivity|]. apply K_mf_unchanged in H. auto.
    - assert (H : mf_changed RN Phi0 Phi0 = false) by (apply K_mf_unchanged; reflexivity). rewrite H. reflexivity.
  Qed.

  (* a MODEL updated through set_params: its view is the model with Phi0 and every component
     updated by the same dictionary *)
  Theorem ffm_update s l pd Phi0 ls le lt sp ep tp :
    nth_error s l = Some (OM Phi0 ls le lt) ->
    get_s s ls = Ok sp -> get_e s le = Ok ep -> get_t s lt = Ok tp ->
    exists s' b, obj_set_params RN s l pd = Ok (s', b)
      /\ view_of s' l = Ok (VM (pick pd nPhi0 Phi0) (fst (s_set_params RN pd sp))
                               (fst (e_set_params RN pd ep)) (fst (t_set_params RN pd tp))).
  Proof.
    intros Hl Hs He Ht.
    destruct (ffm_set_params_view RN s l pd Phi0 ls le lt sp ep tp Hl Hs He Ht) as (s' & b & H1 & H2).
    exists s', b. split; [exact H1|]. rewrite H2, phi0_set_params. reflexivity.
  Qed.

  (* Gaussian constructor / update with the domain of tol spelled out (for tol outside (0,1] the
     code's sqrt(-2 sigma^2 ln tol) is NaN, Coq's sqrt of a negative number is 0) *)
  Theorem gauss_new_guarded tu t0 sg tol : 0 < tol <= 1 ->
    0 <= - 2 * (sg * sg) * ln tol
    /\ gauss_new RN tu t0 sg tol
       = Gauss tu (t0 - sqrt (- 2 * (sg * sg) * ln tol)) (t0 + sqrt (- 2 * (sg * sg) * ln tol)) sg tol.
  Proof.
    intros [H0 H1]. split; [|apply gauss_new_R].
    assert (ln tol <= 0).
    { destruct H1 as [H1| ->]; [|rewrite ln_1; lra]. left. rewrite <- ln_1. apply ln_increasing; assumption. }
    assert (0 <= sg * sg) by (apply Rle_0_sqr). nra.
  Qed.
End Audit.
