(* C04 — proofs about Parameter / ParameterSet (model M_Params.v, spec S_Params.v). *)
From Coq Require Import ZArith List Bool Lia Permutation.
From Sky Require Import Result PyList G_params M_Params S_Params.
Import ListNotations.
Open Scope Z_scope.

(* ------------------------------------------------------------------ kernels *)
Lemma K_set_fixed_ne v i : set_fixed_ne v i = false <-> v = i.
Proof. unfold set_fixed_ne. rewrite negb_false_iff, Z.eqb_eq. tauto. Qed.
Lemma K_set_ge v lo : set_ge v lo = true <-> lo <= v.
Proof. unfold set_ge. rewrite Z.geb_leb. apply Z.leb_le. Qed.
Lemma K_set_le v hi : set_le v hi = true <-> v <= hi.
Proof. unfold set_le. apply Z.leb_le. Qed.
Lemma K_set_below v lo : set_below v lo = true <-> v < lo.
Proof. unfold set_below. rewrite negb_true_iff, <- not_true_iff_false, K_set_ge. lia. Qed.
Lemma K_set_above v hi : set_above v hi = true <-> v > hi.
Proof. unfold set_above. rewrite negb_true_iff, <- not_true_iff_false, K_set_le. lia. Qed.
Lemma K_mkfix_oob v lo hi : mkfix_oob v lo hi = false <-> lo <= v <= hi.
Proof. unfold mkfix_oob. rewrite orb_false_iff, Z.ltb_ge, Z.gtb_ltb, Z.ltb_ge. lia. Qed.
Lemma K_mkfl_oob v lo hi : mkfl_oob v lo hi = false <-> lo <= v <= hi.
Proof. unfold mkfl_oob. rewrite negb_false_iff, andb_true_iff, Z.geb_leb, !Z.leb_le. lia. Qed.
Lemma K_add_front_fx_shift v : add_front_fx_shift v = v + 1. Proof. reflexivity. Qed.
Lemma K_add_front_fl_shift v : add_front_fl_shift v = v + 1. Proof. reflexivity. Qed.
Lemma K_add_front_fx_idx : add_front_fx_idx = 0. Proof. reflexivity. Qed.
Lemma K_add_front_fl_idx : add_front_fl_idx = 0. Proof. reflexivity. Qed.
Lemma K_add_back_fx_idx n : add_back_fx_idx n = n - 1. Proof. reflexivity. Qed.
Lemma K_add_back_fl_idx n : add_back_fl_idx n = n - 1. Proof. reflexivity. Qed.
Lemma K_mpfix_req_idx n : mpfix_req_idx n = n - 1. Proof. reflexivity. Qed.
Lemma K_mpfix_fx_idx n : mpfix_fx_idx n = n - 1. Proof. reflexivity. Qed.
Lemma K_mpfix_fl_idx n : mpfix_fl_idx n = n - 1. Proof. reflexivity. Qed.
Lemma K_mpfl_req_idx n : mpfl_req_idx n = n - 1. Proof. reflexivity. Qed.
Lemma K_mpfl_fx_idx n : mpfl_fx_idx n = n - 1. Proof. reflexivity. Qed.
Lemma K_mpfl_fl_idx n : mpfl_fl_idx n = n - 1. Proof. reflexivity. Qed.
Lemma K_rec_len_bad n len : rec_len_bad n len = false <-> len = n.
Proof. unfold rec_len_bad. rewrite negb_false_iff, Z.eqb_eq. tauto. Qed.
Lemma K_rec_gflp_idx c : rec_gflp_idx c = c - 1. Proof. reflexivity. Qed.
Lemma K_rec_gpidx_fl i : rec_gpidx_fl i = i + 1. Proof. reflexivity. Qed.
Lemma K_rec_gpidx_fx g : rec_gpidx_fx g = - g - 1. Proof. reflexivity. Qed.
Lemma K_mdict_midx_bad midx n : mdict_midx_bad midx n = false <-> 0 <= midx < n.
Proof. unfold mdict_midx_bad. rewrite orb_false_iff, Z.ltb_ge, Z.geb_leb, Z.leb_gt. lia. Qed.

Global Opaque set_fixed_ne set_ge set_le set_below set_above mkfix_oob mkfl_oob add_front_fx_shift add_front_fl_shift
  add_front_fx_idx add_front_fl_idx add_back_fx_idx add_back_fl_idx mpfix_req_idx mpfix_fx_idx mpfix_fl_idx
  mpfl_req_idx mpfl_fx_idx mpfl_fl_idx rec_len_bad rec_gflp_idx rec_gpidx_fl rec_gpidx_fx mdict_midx_bad.

(* ------------------------------------------------------------------ dictionaries *)
Lemma dict_get_set d k v k' :
  dict_get (dict_set d k v) k' = if k' =? k then Some v else dict_get d k'.
Proof.
  induction d as [|[a b] d IH]; cbn.
  - destruct (k' =? k); reflexivity.
  - destruct (k =? a) eqn:E; cbn.
    + apply Z.eqb_eq in E; subst a. destruct (k' =? k); reflexivity.
    + rewrite IH. destruct (k' =? a) eqn:E2; [|reflexivity].
      apply Z.eqb_eq in E2; subst a. destruct (k' =? k) eqn:E3; [|reflexivity].
      apply Z.eqb_eq in E3; subst. rewrite Z.eqb_refl in E. discriminate.
Qed.

Lemma dict_get_map (f : Z -> Z) d k :
  dict_get (map (fun kv : Z * Z => (fst kv, f (snd kv))) d) k = option_map f (dict_get d k).
Proof.
  induction d as [|[a b] d IH]; cbn; [reflexivity|].
  destruct (k =? a); [reflexivity | exact IH].
Qed.

Lemma s_index_None n l : s_index n l = None <-> ~ In n l.
Proof.
  induction l as [|x l IH]; cbn; [tauto|].
  destruct (n =? x) eqn:E.
  - apply Z.eqb_eq in E. split; [discriminate | intros H; exfalso; apply H; auto].
  - apply Z.eqb_neq in E. destruct (s_index n l); cbn.
    + split; [discriminate|]. intros H; exfalso; apply H; right. apply Decidable.not_not.
      * unfold Decidable.decidable. destruct (in_dec Z.eq_dec n l); tauto.
      * intro H2. apply IH in H2. discriminate.
    + split; [|reflexivity]. intros _ [H|H]; [congruence|]. now apply IH in H.
Qed.

Lemma s_index_snoc n l x :
  s_index n (l ++ [x]) =
  match s_index n l with Some i => Some i | None => if n =? x then Some (zlen l) else None end.
Proof.
  induction l as [|y l IH]; cbn.
  - destruct (n =? x); reflexivity.
  - destruct (n =? y); [reflexivity|]. rewrite IH.
    destruct (s_index n l); cbn; [reflexivity|].
    destruct (n =? x); cbn; [|reflexivity].
    f_equal. unfold zlen. cbn [length]. lia.
Qed.

Lemma dict_ok_nil : dict_ok [] []. Proof. intro n; reflexivity. Qed.

Lemma dict_ok_snoc d names n :
  dict_ok d names -> ~ In n names ->
  dict_ok (dict_set d n (zlen (names ++ [n]) - 1)) (names ++ [n]).
Proof.
  intros H Hn k. rewrite dict_get_set, s_index_snoc, <- H.
  destruct (k =? n) eqn:E.
  - apply Z.eqb_eq in E; subst k. rewrite H. apply s_index_None in Hn. rewrite Hn.
    f_equal. unfold zlen. rewrite app_length. cbn. lia.
  - destruct (dict_get d k); reflexivity.
Qed.

Lemma dict_ok_cons d names n :
  dict_ok d names ->
  dict_ok (dict_set (map (fun kv : Z * Z => (fst kv, snd kv + 1)) d) n 0) (n :: names).
Proof.
  intros H k. rewrite dict_get_set. cbn. destruct (k =? n); [reflexivity|].
  rewrite (dict_get_map (fun v => v + 1)), H. reflexivity.
Qed.

(* ------------------------------------------------------------------ store *)
Lemma nth_error_set_nth {A} (l : list A) k v j :
  nth_error (set_nth l k v) j =
  if Nat.eqb j k then (match nth_error l k with Some _ => Some v | None => None end) else nth_error l j.
Proof.
  revert k j. induction l as [|a l IH]; intros k j; cbn.
  - destruct (Nat.eqb j k); destruct k, j; reflexivity.
  - destruct k, j; cbn; try reflexivity. apply IH.
Qed.

Lemma length_set_nth {A} (l : list A) k v : length (set_nth l k v) = length l.
Proof. revert k; induction l; intros [|k]; cbn; auto. Qed.

Lemma rd_Ok st l p : rd st l = Ok p <-> nth_error st l = Some p.
Proof. unfold rd. destruct (nth_error st l); split; congruence. Qed.

Lemma rd_wr_same st l p q : rd st l = Ok q -> rd (wr st l p) l = Ok p.
Proof. unfold rd, wr. rewrite nth_error_set_nth, Nat.eqb_refl. destruct (nth_error st l); congruence. Qed.

Lemma rd_wr_other st l l' p : l' <> l -> rd (wr st l p) l' = rd st l'.
Proof.
  intros H. unfold rd, wr. rewrite nth_error_set_nth.
  destruct (Nat.eqb l' l) eqn:E; [apply Nat.eqb_eq in E; congruence | reflexivity].
Qed.

Lemma mapM_ext {A B} (f g : A -> res B) l : (forall a, In a l -> f a = g a) -> mapM f l = mapM g l.
Proof.
  induction l as [|a l IH]; intros H; cbn; [reflexivity|].
  rewrite (H a) by (left; reflexivity). rewrite IH; [reflexivity|]. intros; apply H; right; assumption.
Qed.

Lemma mapM_Ok_length {A B} (f : A -> res B) l r : mapM f l = Ok r -> length r = length l.
Proof.
  revert r; induction l as [|a l IH]; intros r; cbn.
  - intros H; inversion H; reflexivity.
  - destruct (f a); cbn; [|discriminate]. destruct (mapM f l); cbn; [|discriminate].
    intros H; inversion H; cbn. f_equal. apply IH. reflexivity.
Qed.

Lemma mapM_app {A B} (f : A -> res B) l1 l2 r1 r2 :
  mapM f l1 = Ok r1 -> mapM f l2 = Ok r2 -> mapM f (l1 ++ l2) = Ok (r1 ++ r2).
Proof.
  revert r1; induction l1 as [|a l IH]; intros r1; cbn.
  - intros H; inversion H; cbn. auto.
  - destruct (f a); cbn; [|discriminate]. destruct (mapM f l) eqn:E; cbn; [|discriminate].
    intros H H2; inversion H; subst. rewrite (IH _ eq_refl H2). reflexivity.
Qed.

Lemma mapM_cons_Ok {A B} (f : A -> res B) a l r :
  mapM f (a :: l) = Ok r -> exists b r', f a = Ok b /\ mapM f l = Ok r' /\ r = b :: r'.
Proof.
  cbn. destruct (f a); cbn; [|discriminate]. destruct (mapM f l); cbn; [|discriminate].
  intros H; inversion H. eauto.
Qed.

Lemma mapM_In {A B} (f : A -> res B) l r a :
  mapM f l = Ok r -> In a l -> exists b, f a = Ok b /\ In b r.
Proof.
  revert r; induction l as [|x l IH]; intros r H Hin; [destruct Hin|].
  apply mapM_cons_Ok in H. destruct H as (b & r' & Hb & Hr & ->).
  destruct Hin as [->|Hin]; [exists b; cbn; auto|].
  destruct (IH _ Hr Hin) as (b' & ? & ?). exists b'; cbn; auto.
Qed.

Lemma rd_lt st l p : rd st l = Ok p -> (l < length st)%nat.
Proof. intros H. apply rd_Ok in H. apply nth_error_Some. congruence. Qed.

(* ------------------------------------------------------------------ tables *)
Lemma table_of_app a b : table_of (a ++ b) = table_of a ++ table_of b.
Proof. apply map_app. Qed.

Lemma s_mask_table ps : s_mask (table_of ps) = map p_isfixed ps.
Proof.
  unfold s_mask, table_of. rewrite map_map. apply map_ext. intros p.
  unfold is_fixed, row_of; cbn. destruct (p_isfixed p); reflexivity.
Qed.

Lemma fixed_names_in n ps : In n (s_fixed_names (table_of ps)) -> In n (map p_name ps).
Proof.
  induction ps as [|p ps IH]; cbn; [tauto|]. unfold is_fixed, row_of; cbn.
  destruct (p_isfixed p); cbn; intros H; [destruct H as [H|H]; [left; exact H | right; auto] | right; auto].
Qed.
Lemma floating_names_in n ps : In n (s_floating_names (table_of ps)) -> In n (map p_name ps).
Proof.
  induction ps as [|p ps IH]; cbn; [tauto|]. unfold is_fixed, row_of; cbn.
  destruct (p_isfixed p); cbn; intros H; [right; auto | destruct H as [H|H]; [left; exact H | right; auto]].
Qed.

Definition caches_ok (s : pset) (ps : list param) : Prop :=
  ps_fxn s = s_fixed_names (table_of ps)
  /\ ps_fln s = s_floating_names (table_of ps)
  /\ ps_fxv s = s_fixed_values (table_of ps)
  /\ dict_ok (ps_fxi s) (ps_fxn s)
  /\ dict_ok (ps_fli s) (ps_fln s).

Lemma tbl1_fixed p : p_isfixed p = true ->
  s_fixed_names (table_of [p]) = [p_name p] /\ s_floating_names (table_of [p]) = []
  /\ s_fixed_values (table_of [p]) = [p_value p].
Proof. intros H. cbn. unfold is_fixed, row_of; cbn. rewrite H. cbn. auto. Qed.
Lemma tbl1_floating p : p_isfixed p = false ->
  s_fixed_names (table_of [p]) = [] /\ s_floating_names (table_of [p]) = [p_name p]
  /\ s_fixed_values (table_of [p]) = [].
Proof. intros H. cbn. unfold is_fixed, row_of; cbn. rewrite H. cbn. auto. Qed.

Lemma tbl_app ps qs :
  s_fixed_names (table_of (ps ++ qs)) = s_fixed_names (table_of ps) ++ s_fixed_names (table_of qs)
  /\ s_floating_names (table_of (ps ++ qs)) = s_floating_names (table_of ps) ++ s_floating_names (table_of qs)
  /\ s_fixed_values (table_of (ps ++ qs)) = s_fixed_values (table_of ps) ++ s_fixed_values (table_of qs).
Proof. rewrite table_of_app. unfold s_fixed_names, s_floating_names, s_fixed_values. rewrite !flat_map_app. auto. Qed.

Lemma caches_snoc_fixed s s' ps p :
  caches_ok s ps -> p_isfixed p = true -> ~ In (p_name p) (map p_name ps) ->
  ps_fxn s' = ps_fxn s ++ [p_name p] -> ps_fln s' = ps_fln s ->
  ps_fxi s' = dict_set (ps_fxi s) (p_name p) (zlen (ps_fxn s ++ [p_name p]) - 1) ->
  ps_fli s' = ps_fli s -> ps_fxv s' = ps_fxv s ++ [p_value p] ->
  caches_ok s' (ps ++ [p]).
Proof.
  intros (H1 & H2 & H3 & H4 & H5) Hf Hn E1 E2 E3 E4 E5.
  destruct (tbl_app ps [p]) as (A1 & A2 & A3). destruct (tbl1_fixed p Hf) as (B1 & B2 & B3).
  unfold caches_ok. rewrite A1, A2, A3, B1, B2, B3, app_nil_r, E1, E2, E3, E4, E5, <- H1, <- H2, <- H3.
  repeat split; auto.
  apply dict_ok_snoc; auto. rewrite H1. intro H. apply Hn. now apply fixed_names_in.
Qed.

Lemma caches_snoc_floating s s' ps p :
  caches_ok s ps -> p_isfixed p = false -> ~ In (p_name p) (map p_name ps) ->
  ps_fxn s' = ps_fxn s -> ps_fln s' = ps_fln s ++ [p_name p] ->
  ps_fxi s' = ps_fxi s ->
  ps_fli s' = dict_set (ps_fli s) (p_name p) (zlen (ps_fln s ++ [p_name p]) - 1) ->
  ps_fxv s' = ps_fxv s ->
  caches_ok s' (ps ++ [p]).
Proof.
  intros (H1 & H2 & H3 & H4 & H5) Hf Hn E1 E2 E3 E4 E5.
  destruct (tbl_app ps [p]) as (A1 & A2 & A3). destruct (tbl1_floating p Hf) as (B1 & B2 & B3).
  unfold caches_ok. rewrite A1, A2, A3, B1, B2, B3, !app_nil_r, E1, E2, E3, E4, E5, <- H1, <- H2, <- H3.
  repeat split; auto.
  apply dict_ok_snoc; auto. rewrite H2. intro H. apply Hn. now apply floating_names_in.
Qed.

Lemma caches_cons_fixed s s' ps p :
  caches_ok s ps -> p_isfixed p = true ->
  ps_fxn s' = p_name p :: ps_fxn s -> ps_fln s' = ps_fln s ->
  ps_fxi s' = dict_set (map (fun kv : Z * Z => (fst kv, snd kv + 1)) (ps_fxi s)) (p_name p) 0 ->
  ps_fli s' = ps_fli s -> ps_fxv s' = p_value p :: ps_fxv s ->
  caches_ok s' (p :: ps).
Proof.
  intros (H1 & H2 & H3 & H4 & H5) Hf E1 E2 E3 E4 E5.
  destruct (tbl_app [p] ps) as (A1 & A2 & A3). destruct (tbl1_fixed p Hf) as (B1 & B2 & B3).
  change (p :: ps) with ([p] ++ ps).
  unfold caches_ok. rewrite A1, A2, A3, B1, B2, B3, E1, E2, E3, E4, E5, <- H1, <- H2, <- H3. cbn [app].
  repeat split; auto. apply dict_ok_cons; auto.
Qed.

Lemma caches_cons_floating s s' ps p :
  caches_ok s ps -> p_isfixed p = false ->
  ps_fxn s' = ps_fxn s -> ps_fln s' = p_name p :: ps_fln s ->
  ps_fxi s' = ps_fxi s ->
  ps_fli s' = dict_set (map (fun kv : Z * Z => (fst kv, snd kv + 1)) (ps_fli s)) (p_name p) 0 ->
  ps_fxv s' = ps_fxv s ->
  caches_ok s' (p :: ps).
Proof.
  intros (H1 & H2 & H3 & H4 & H5) Hf E1 E2 E3 E4 E5.
  destruct (tbl_app [p] ps) as (A1 & A2 & A3). destruct (tbl1_floating p Hf) as (B1 & B2 & B3).
  change (p :: ps) with ([p] ++ ps).
  unfold caches_ok. rewrite A1, A2, A3, B1, B2, B3, E1, E2, E3, E4, E5, <- H1, <- H2, <- H3. cbn [app].
  repeat split; auto. apply dict_ok_cons; auto.
Qed.

Lemma Consistent_intro st s ps :
  mapM (rd st) (ps_params s) = Ok ps -> NoDup (map p_name ps) -> Forall param_ok ps ->
  ps_mask s = map p_isfixed ps -> caches_ok s ps -> Consistent st s ps.
Proof.
  intros H1 H2 H3 H4 (C1 & C2 & C3 & C4 & C5). unfold Consistent. rewrite s_mask_table. tauto.
Qed.

Lemma Consistent_elim st s ps :
  Consistent st s ps ->
  mapM (rd st) (ps_params s) = Ok ps /\ NoDup (map p_name ps) /\ Forall param_ok ps
  /\ ps_mask s = map p_isfixed ps /\ caches_ok s ps.
Proof.
  unfold Consistent, caches_ok. rewrite s_mask_table. tauto.
Qed.

Lemma NoDup_snoc {A} (l : list A) x : NoDup l -> ~ In x l -> NoDup (l ++ [x]).
Proof.
  induction l as [|a l IH]; cbn; intros H Hx.
  - constructor; [tauto | constructor].
  - inversion H; subst. constructor.
    + rewrite in_app_iff. cbn. intros [?|[?|[]]]; [tauto | subst; tauto].
    + apply IH; tauto.
Qed.

(* ------------------------------------------------------------------ has_param / add_param *)
Lemma mem_In x l : mem x l = true <-> In x l.
Proof.
  unfold mem. rewrite existsb_exists. split.
  - intros (y & Hy & E). apply Z.eqb_eq in E. subst; assumption.
  - intros H. exists x. split; [assumption | apply Z.eqb_refl].
Qed.

Lemma names_split ps n :
  In n (map p_name ps) <-> In n (s_fixed_names (table_of ps)) \/ In n (s_floating_names (table_of ps)).
Proof.
  induction ps as [|p ps IH]; cbn; [tauto|]. unfold is_fixed, row_of; cbn.
  destruct (p_isfixed p); cbn; rewrite ?in_app_iff; cbn; tauto.
Qed.

Lemma has_param_spec s ps n :
  caches_ok s ps -> (has_param s n = true <-> In n (map p_name ps)).
Proof.
  intros (H1 & H2 & _). unfold has_param. rewrite orb_true_iff, !mem_In, H1, H2, names_split. tauto.
Qed.

Lemma add_param_ok st s ps l p front :
  Consistent st s ps -> param_ok p ->
  l = length st ->
  match add_param s l p front with
  | Err e => e = KeyError /\ In (p_name p) (map p_name ps)
  | Ok s' => ~ In (p_name p) (map p_name ps)
             /\ ps_params s' = (if front then l :: ps_params s else ps_params s ++ [l])
             /\ Consistent (st ++ [p]) s' (if front then p :: ps else ps ++ [p])
  end.
Proof.
  intros HC Hp Hl.
  apply Consistent_elim in HC. destruct HC as (HM & HN & HF & HK & HCa).
  pose proof (has_param_spec s ps (p_name p) HCa) as HP.
  unfold add_param. destruct (has_param s (p_name p)) eqn:E.
  - split; [reflexivity | now apply HP].
  - assert (Hnot : ~ In (p_name p) (map p_name ps)) by (intro H; apply HP in H; congruence).
    assert (HM' : mapM (rd (st ++ [p])) (ps_params s) = Ok ps).
    { rewrite <- HM. apply mapM_ext. intros a Ha.
      destruct (mapM_In _ _ _ _ HM Ha) as (b & Hb & _). apply rd_lt in Hb.
      unfold rd. rewrite nth_error_app1 by assumption. reflexivity. }
    assert (Hrl : rd (st ++ [p]) l = Ok p).
    { apply rd_Ok. subst l. rewrite nth_error_app2 by lia. rewrite Nat.sub_diag. reflexivity. }
    assert (HMf : mapM (rd (st ++ [p])) (l :: ps_params s) = Ok (p :: ps)).
    { cbn [mapM]. rewrite Hrl. cbn. rewrite HM'. reflexivity. }
    assert (HMb : mapM (rd (st ++ [p])) (ps_params s ++ [l]) = Ok (ps ++ [p])).
    { apply (mapM_app _ _ [l] ps [p] HM'). cbn. rewrite Hrl. reflexivity. }
    assert (HNf : NoDup (map p_name (p :: ps))) by (cbn; constructor; assumption).
    assert (HNb : NoDup (map p_name (ps ++ [p]))) by (rewrite map_app; apply NoDup_snoc; assumption).
    assert (HFf : Forall param_ok (p :: ps)) by (constructor; assumption).
    assert (HFb : Forall param_ok (ps ++ [p])) by (apply Forall_app; split; [assumption | constructor; [assumption | constructor]]).
    destruct front; destruct (p_isfixed p) eqn:Ef; cbn [ps_params]; (split; [assumption|]); (split; [reflexivity|]);
      apply Consistent_intro; cbn [ps_params ps_mask]; try assumption.
    + cbn [map]. rewrite Ef, HK. reflexivity.
    + eapply caches_cons_fixed; eauto.
    + cbn [map]. rewrite Ef, HK. reflexivity.
    + eapply caches_cons_floating; eauto.
    + rewrite map_app. cbn [map]. rewrite Ef, HK. reflexivity.
    + eapply caches_snoc_fixed; eauto.
    + rewrite map_app. cbn [map]. rewrite Ef, HK. reflexivity.
    + eapply caches_snoc_floating; eauto.
Qed.

(* ------------------------------------------------------------------ Parameter operations *)
Lemma make_fixed_props p i :
  let p' := make_fixed p i in
  p_name p' = p_name p /\ p_isfixed p' = true /\ param_ok p'
  /\ p_value p' = match i with Some v => v | None => p_value p end.
Proof.
  unfold make_fixed, param_ok. destruct i as [v|]; cbn.
  - destruct (p_valmin p), (p_valmax p); cbn; try destruct (mkfix_oob v _ _); cbn; auto.
  - auto.
Qed.

Lemma floating_settings_Ok p i lo hi i' lo' hi' :
  floating_settings p i lo hi = Ok (i', lo', hi') ->
  lo' <= i' <= hi'
  /\ i' = match i with Some v => v | None => p_value p end
  /\ Some lo' = match lo with Some v => Some v | None => p_valmin p end
  /\ Some hi' = match hi with Some v => Some v | None => p_valmax p end.
Proof.
  unfold floating_settings.
  destruct lo as [a|]; [|destruct (p_valmin p) as [a|]; cbn; [|discriminate]];
  (destruct hi as [b|]; [|destruct (p_valmax p) as [b|]; cbn; [|discriminate]]); cbn;
  match goal with |- (if mkfl_oob ?x ?y ?z then _ else _) = _ -> _ => destruct (mkfl_oob x y z) eqn:E end;
  try discriminate; intros H; inversion H; subst; apply K_mkfl_oob in E; auto.
Qed.

Lemma make_floating_Ok p i lo hi :
  (exists t, floating_settings p i lo hi = Ok t) ->
  exists p', make_floating p i lo hi = Ok p'
    /\ p_name p' = p_name p /\ p_isfixed p' = false /\ param_ok p'.
Proof.
  intros [[[i' lo'] hi'] H]. unfold make_floating. rewrite H. cbn.
  apply floating_settings_Ok in H. destruct H as (Hr & _).
  unfold set_value, setter_check. cbn.
  destruct (set_below i' lo') eqn:E1; [apply K_set_below in E1; lia|].
  destruct (set_above i' hi') eqn:E2; [apply K_set_above in E2; lia|].
  cbn. eexists. split; [reflexivity|]. cbn. repeat split; auto.
  unfold param_ok; cbn. exists lo', hi'. repeat split; auto; lia.
Qed.

Lemma make_floating_Err p i lo hi e :
  floating_settings p i lo hi = Err e -> make_floating p i lo hi = Err e.
Proof. intros H. unfold make_floating. rewrite H. reflexivity. Qed.

Lemma py_set_app {A} (a : list A) x b v : py_set (a ++ x :: b) (zlen a) v = Ok (a ++ v :: b).
Proof.
  unfold py_set, zlen. rewrite app_length. cbn [length].
  destruct (Z.of_nat (length a) <? 0) eqn:E1; [apply Z.ltb_lt in E1; lia|].
  rewrite E1. cbn. destruct (Z.of_nat (length a + S (length b)) <=? Z.of_nat (length a)) eqn:E2;
    [apply Z.leb_le in E2; lia|].
  rewrite Nat2Z.id. f_equal. clear. induction a; cbn; [reflexivity | f_equal; assumption].
Qed.

Lemma fix_one_name req p : p_name (fix_one req p) = p_name p.
Proof. unfold fix_one. destruct (assoc req (p_name p)); [apply make_fixed_props | reflexivity]. Qed.

Lemma map_fix_one_names req ps : map p_name (map (fix_one req) ps) = map p_name ps.
Proof. rewrite map_map. apply map_ext. intros; apply fix_one_name. Qed.

Ltac split8 := split; [|split; [|split; [|split; [|split; [|split; [|split]]]]]].

(* agreement of two stores outside a set of locations *)
Definition agree_outside (locs : list nat) (st st' : store) : Prop :=
  forall l, ~ In l locs -> nth_error st' l = nth_error st l.

Lemma mapM_rd_agree locs locs' st st' :
  agree_outside locs st st' -> (forall l, In l locs' -> ~ In l locs) ->
  mapM (rd st') locs' = mapM (rd st) locs'.
Proof. intros H D. apply mapM_ext. intros a Ha. unfold rd. rewrite (H a (D a Ha)). reflexivity. Qed.

Lemma fix_loop_ok req : forall locs ps pre mpre st s,
  mapM (rd st) locs = Ok ps ->
  NoDup locs ->
  NoDup (map p_name (pre ++ ps)) ->
  Forall param_ok ps ->
  (forall p, In p ps -> assoc req (p_name p) <> None -> p_isfixed p = false) ->
  caches_ok s pre ->
  ps_mask s = mpre ++ map p_isfixed ps ->
  exists st' s',
    fix_loop req locs (zlen mpre) st s = (st', s', None)
    /\ mapM (rd st') locs = Ok (map (fix_one req) ps)
    /\ agree_outside locs st st'
    /\ length st' = length st
    /\ ps_params s' = ps_params s
    /\ ps_mask s' = mpre ++ map p_isfixed (map (fix_one req) ps)
    /\ Forall param_ok (map (fix_one req) ps)
    /\ caches_ok s' (pre ++ map (fix_one req) ps).
Proof.
  induction locs as [|l r IH]; intros ps pre mpre st s HM HND HNN HF Hreq HC HK.
  - cbn in HM. inversion HM; subst ps. cbn. exists st, s. rewrite (app_nil_r pre), (app_nil_r mpre) in *.
    cbn in HK. rewrite app_nil_r in HK. repeat split; auto; try apply HC.
  - apply mapM_cons_Ok in HM. destruct HM as (p & ps' & Hp & HM & ->).
    inversion HND as [|? ? Hlr HNDr]; subst.
    inversion HF as [|? ? Hpok HF']; subst.
    cbn [fix_loop]. rewrite Hp.
    assert (Hfresh : ~ In (p_name p) (map p_name pre)).
    { rewrite map_app in HNN. cbn in HNN. apply NoDup_remove_2 in HNN. rewrite in_app_iff in HNN. tauto. }
    destruct (assoc req (p_name p)) as [initial|] eqn:Ea.
    + assert (Efl : p_isfixed p = false) by (apply Hreq; [left; reflexivity | congruence]).
      rewrite Efl. cbn in HK. rewrite Efl in HK. rewrite HK, py_set_app.
      destruct (make_fixed_props p initial) as (Pn & Pf & Pok & Pv).
      set (p' := make_fixed p initial) in *.
      set (s1 := cache_fixed mpfix_req_idx (with_mask s (mpre ++ true :: map p_isfixed ps')) (p_name p) (p_value p')).
      assert (Hz : zlen mpre + 1 = zlen (mpre ++ [true])) by (unfold zlen; rewrite app_length; cbn; lia).
      rewrite Hz.
      destruct (IH ps' (pre ++ [p']) (mpre ++ [true]) (wr st l p') s1) as (st' & s' & R1 & R2 & R3 & R4 & R5 & R6 & R7 & R8).
      * rewrite <- HM. apply mapM_ext. intros a Ha. apply rd_wr_other. intro; subst; tauto.
      * assumption.
      * rewrite <- app_assoc. cbn. rewrite map_app in *. cbn in *. rewrite Pn. assumption.
      * assumption.
      * intros q Hq. apply Hreq. right; assumption.
      * eapply caches_snoc_fixed; try exact HC; subst s1; cbn; rewrite ?Pn, ?K_mpfix_req_idx; auto.
      * subst s1. cbn. rewrite <- app_assoc. reflexivity.
      * exists st', s'. cbn [map]. unfold fix_one at 1 3 5 7. rewrite Ea. fold p'.
        split8.
        -- exact R1.
        -- cbn [mapM]. assert (E : rd st' l = Ok p').
           { unfold rd. rewrite (R3 l Hlr). apply (rd_wr_same st l p' p Hp). }
           rewrite E. cbn. rewrite R2. reflexivity.
        -- intros a Ha. cbn in Ha. rewrite (R3 a) by tauto. unfold wr. rewrite nth_error_set_nth.
           destruct (Nat.eqb a l) eqn:E; [apply Nat.eqb_eq in E; subst; tauto | reflexivity].
        -- rewrite R4. apply length_set_nth.
        -- rewrite R5. reflexivity.
        -- rewrite R6, <- app_assoc. cbn. rewrite Pf. reflexivity.
        -- constructor; assumption.
        -- rewrite <- app_assoc in R8. exact R8.
    + assert (Hz : zlen mpre + 1 = zlen (mpre ++ [p_isfixed p])) by (unfold zlen; rewrite app_length; cbn; lia).
      rewrite Hz. cbn [map] in HK.
      set (s1 := if p_isfixed p then cache_fixed mpfix_fx_idx s (p_name p) (p_value p)
                 else cache_floating mpfix_fl_idx s (p_name p)).
      destruct (IH ps' (pre ++ [p]) (mpre ++ [p_isfixed p]) st s1) as (st' & s' & R1 & R2 & R3 & R4 & R5 & R6 & R7 & R8).
      * assumption.
      * assumption.
      * rewrite <- app_assoc. exact HNN.
      * assumption.
      * intros q Hq. apply Hreq. right; assumption.
      * subst s1. destruct (p_isfixed p) eqn:Ef.
        -- eapply caches_snoc_fixed; try exact HC; cbn; rewrite ?K_mpfix_fx_idx; auto.
        -- eapply caches_snoc_floating; try exact HC; cbn; rewrite ?K_mpfix_fl_idx; auto.
      * subst s1. destruct (p_isfixed p); cbn; rewrite HK, <- app_assoc; reflexivity.
      * exists st', s'. cbn [map]. unfold fix_one at 1 3 5 7. rewrite Ea.
        split8.
        -- subst s1. destruct (p_isfixed p); exact R1.
        -- cbn [mapM]. assert (E : rd st' l = Ok p) by (unfold rd; rewrite (R3 l Hlr); exact Hp).
           rewrite E. cbn. rewrite R2. reflexivity.
        -- intros a Ha. cbn in Ha. apply R3. tauto.
        -- exact R4.
        -- rewrite R5. subst s1. destruct (p_isfixed p); reflexivity.
        -- rewrite R6, <- app_assoc. reflexivity.
        -- constructor; assumption.
        -- rewrite <- app_assoc in R8. exact R8.
Qed.

Definition float_req_ok (req : floatreq) (p : param) : Prop :=
  forall e, assoc req (p_name p) = Some e ->
    p_isfixed p = true /\
    exists t, floating_settings p (fst (fst (parse_fentry e))) (snd (fst (parse_fentry e))) (snd (parse_fentry e)) = Ok t.

Lemma float_one_props req p :
  float_req_ok req p -> param_ok p ->
  p_name (float_one req p) = p_name p /\ param_ok (float_one req p)
  /\ p_isfixed (float_one req p) = match assoc req (p_name p) with Some _ => false | None => p_isfixed p end.
Proof.
  intros H Hok. unfold float_one. destruct (assoc req (p_name p)) as [e|] eqn:Ea; [|auto].
  destruct (H e Ea) as (_ & Ht). destruct (parse_fentry e) as [[i lo] hi]. cbn in Ht.
  destruct (make_floating_Ok p i lo hi Ht) as (p' & E & A & B & C). rewrite E. auto.
Qed.

Lemma float_loop_ok req : forall locs ps pre mpre st s,
  mapM (rd st) locs = Ok ps ->
  NoDup locs ->
  NoDup (map p_name (pre ++ ps)) ->
  Forall param_ok ps ->
  (forall p, In p ps -> float_req_ok req p) ->
  caches_ok s pre ->
  ps_mask s = mpre ++ map p_isfixed ps ->
  exists st' s',
    float_loop req locs (zlen mpre) st s = (st', s', None)
    /\ mapM (rd st') locs = Ok (map (float_one req) ps)
    /\ agree_outside locs st st'
    /\ length st' = length st
    /\ ps_params s' = ps_params s
    /\ ps_mask s' = mpre ++ map p_isfixed (map (float_one req) ps)
    /\ Forall param_ok (map (float_one req) ps)
    /\ caches_ok s' (pre ++ map (float_one req) ps).
Proof.
  induction locs as [|l r IH]; intros ps pre mpre st s HM HND HNN HF Hreq HC HK.
  - cbn in HM. inversion HM; subst ps. cbn. exists st, s. rewrite (app_nil_r pre), (app_nil_r mpre) in *.
    cbn in HK. rewrite app_nil_r in HK. repeat split; auto; try apply HC.
  - apply mapM_cons_Ok in HM. destruct HM as (p & ps' & Hp & HM & ->).
    inversion HND as [|? ? Hlr HNDr]; subst.
    inversion HF as [|? ? Hpok HF']; subst.
    cbn [float_loop]. rewrite Hp.
    assert (Hfresh : ~ In (p_name p) (map p_name pre)).
    { rewrite map_app in HNN. cbn in HNN. apply NoDup_remove_2 in HNN. rewrite in_app_iff in HNN. tauto. }
    pose proof (Hreq p (or_introl eq_refl)) as Hrp.
    destruct (float_one_props req p Hrp Hpok) as (Qn & Qok & Qf).
    cbn [map] in HK.
    destruct (assoc req (p_name p)) as [e|] eqn:Ea.
    + destruct (Hrp e Ea) as (Efx & Ht). rewrite Efx. cbn [negb].
      destruct (parse_fentry e) as [[i lo] hi] eqn:Epe. cbn in Ht.
      destruct (make_floating_Ok p i lo hi Ht) as (p' & Emf & Pn & Pf & Pok).
      rewrite Emf. rewrite Efx in HK. rewrite HK, py_set_app.
      assert (Ep' : float_one req p = p').
      { unfold float_one. rewrite Ea, Epe, Emf. reflexivity. }
      set (s1 := cache_floating mpfl_req_idx (with_mask s (mpre ++ false :: map p_isfixed ps')) (p_name p)).
      assert (Hz : zlen mpre + 1 = zlen (mpre ++ [false])) by (unfold zlen; rewrite app_length; cbn; lia).
      rewrite Hz.
      destruct (IH ps' (pre ++ [p']) (mpre ++ [false]) (wr st l p') s1) as (st' & s' & R1 & R2 & R3 & R4 & R5 & R6 & R7 & R8).
      * rewrite <- HM. apply mapM_ext. intros a Ha. apply rd_wr_other. intro; subst; tauto.
      * assumption.
      * rewrite <- app_assoc. cbn. rewrite map_app in *. cbn in *. rewrite Pn. assumption.
      * assumption.
      * intros q Hq. apply Hreq. right; assumption.
      * eapply caches_snoc_floating; try exact HC; subst s1; cbn; rewrite ?Pn, ?K_mpfl_req_idx; auto.
      * subst s1. cbn. rewrite <- app_assoc. reflexivity.
      * exists st', s'. cbn [map]. rewrite Ep'.
        split8.
        -- exact R1.
        -- cbn [mapM]. assert (E : rd st' l = Ok p').
           { unfold rd. rewrite (R3 l Hlr). apply (rd_wr_same st l p' p Hp). }
           rewrite E. cbn. rewrite R2. reflexivity.
        -- intros a Ha. cbn in Ha. rewrite (R3 a) by tauto. unfold wr. rewrite nth_error_set_nth.
           destruct (Nat.eqb a l) eqn:E; [apply Nat.eqb_eq in E; subst; tauto | reflexivity].
        -- rewrite R4. apply length_set_nth.
        -- rewrite R5. reflexivity.
        -- rewrite R6, <- app_assoc. cbn. rewrite Pf. reflexivity.
        -- constructor; assumption.
        -- rewrite <- app_assoc in R8. exact R8.
    + assert (Ep' : float_one req p = p) by (unfold float_one; rewrite Ea; reflexivity).
      assert (Hz : zlen mpre + 1 = zlen (mpre ++ [p_isfixed p])) by (unfold zlen; rewrite app_length; cbn; lia).
      rewrite Hz.
      set (s1 := if p_isfixed p then cache_fixed mpfl_fx_idx s (p_name p) (p_value p)
                 else cache_floating mpfl_fl_idx s (p_name p)).
      destruct (IH ps' (pre ++ [p]) (mpre ++ [p_isfixed p]) st s1) as (st' & s' & R1 & R2 & R3 & R4 & R5 & R6 & R7 & R8).
      * assumption.
      * assumption.
      * rewrite <- app_assoc. exact HNN.
      * assumption.
      * intros q Hq. apply Hreq. right; assumption.
      * subst s1. destruct (p_isfixed p) eqn:Ef.
        -- eapply caches_snoc_fixed; try exact HC; cbn; rewrite ?K_mpfl_fx_idx; auto.
        -- eapply caches_snoc_floating; try exact HC; cbn; rewrite ?K_mpfl_fl_idx; auto.
      * subst s1. destruct (p_isfixed p); cbn; rewrite HK, <- app_assoc; reflexivity.
      * exists st', s'. cbn [map]. rewrite Ep'.
        split8.
        -- subst s1. destruct (p_isfixed p); exact R1.
        -- cbn [mapM]. assert (E : rd st' l = Ok p) by (unfold rd; rewrite (R3 l Hlr); exact Hp).
           rewrite E. cbn. rewrite R2. reflexivity.
        -- intros a Ha. cbn in Ha. apply R3. tauto.
        -- exact R4.
        -- rewrite R5. subst s1. destruct (p_isfixed p); reflexivity.
        -- rewrite R6, <- app_assoc. reflexivity.
        -- constructor; assumption.
        -- rewrite <- app_assoc in R8. exact R8.
Qed.

(* ------------------------------------------------------------------ make_params_fixed / make_params_floating *)
Lemma fix_precheck_spec st req : forall locs ps,
  mapM (rd st) locs = Ok ps ->
  match fix_precheck st req locs with
  | Ok _ => forall p, In p ps -> assoc req (p_name p) <> None -> p_isfixed p = false
  | Err e => e = ValueError /\ exists p, In p ps /\ assoc req (p_name p) <> None /\ p_isfixed p = true
  end.
Proof.
  induction locs as [|l r IH]; intros ps HM.
  - cbn in HM. inversion HM. cbn. intros p [].
  - apply mapM_cons_Ok in HM. destruct HM as (p & ps' & Hp & HM & ->).
    cbn [fix_precheck]. rewrite Hp. cbn [bind]. specialize (IH ps' HM).
    destruct (assoc req (p_name p)) eqn:Ea.
    + destruct (p_isfixed p) eqn:Ef.
      * split; [reflexivity|]. exists p. split; [left; reflexivity|]. split; [congruence | assumption].
      * destruct (fix_precheck st req r).
        -- intros q [<-|Hq] Hr; [assumption | apply IH; assumption].
        -- destruct IH as (-> & q & Hq & Hr & Hf). split; [reflexivity|]. exists q. split; [right; assumption | tauto].
    + destruct (fix_precheck st req r).
      * intros q [<-|Hq] Hr; [congruence | apply IH; assumption].
      * destruct IH as (-> & q & Hq & Hr & Hf). split; [reflexivity|]. exists q. split; [right; assumption | tauto].
Qed.

Lemma caches_ok_clear s : caches_ok (clear_caches s) [].
Proof. unfold caches_ok, clear_caches; cbn. repeat split; auto using dict_ok_nil. Qed.

Theorem make_params_fixed_ok st s ps req :
  Consistent st s ps -> NoDup (ps_params s) ->
  match make_params_fixed st s req with
  | (st', s', None) =>
      Consistent st' s' (map (fix_one req) ps)
      /\ (forall p, In p ps -> assoc req (p_name p) <> None -> p_isfixed p = false)
      /\ ps_params s' = ps_params s /\ agree_outside (ps_params s) st st' /\ length st' = length st
  | (st', s', Some e) =>
      e = ValueError /\ st' = st /\ s' = s
      /\ exists p, In p ps /\ assoc req (p_name p) <> None /\ p_isfixed p = true
  end.
Proof.
  intros HC HND. apply Consistent_elim in HC. destruct HC as (HM & HN & HF & HK & HCa).
  unfold make_params_fixed. pose proof (fix_precheck_spec st req _ _ HM) as HP.
  destruct (fix_precheck st req (ps_params s)) as [u|e].
  - destruct (fix_loop_ok req (ps_params s) ps [] [] st (clear_caches s)) as (st' & s' & R1 & R2 & R3 & R4 & R5 & R6 & R7 & R8);
      auto using caches_ok_clear.
    change (zlen []) with 0 in R1. rewrite R1. cbn in R5, R6, R8.
    split; [|repeat split; auto].
    apply Consistent_intro; auto.
    + rewrite R5. exact R2.
    + rewrite map_fix_one_names. exact HN.
  - destruct HP as (-> & HP). auto.
Qed.

Lemma float_precheck_spec st req : forall locs ps,
  mapM (rd st) locs = Ok ps ->
  match float_precheck st req locs with
  | Ok _ => forall p, In p ps -> float_req_ok req p
  | Err e => e = ValueError /\ exists p, In p ps /\ ~ float_req_ok req p
  end.
Proof.
  induction locs as [|l r IH]; intros ps HM.
  - cbn in HM. inversion HM. cbn. intros p [].
  - apply mapM_cons_Ok in HM. destruct HM as (p & ps' & Hp & HM & ->).
    cbn [float_precheck]. rewrite Hp. cbn [bind]. specialize (IH ps' HM).
    destruct (assoc req (p_name p)) as [e|] eqn:Ea.
    + destruct (p_isfixed p) eqn:Ef; cbn [negb].
      * destruct (parse_fentry e) as [[i lo] hi] eqn:Epe.
        destruct (floating_settings p i lo hi) as [t|e'] eqn:Efs; cbn [bind].
        -- destruct (float_precheck st req r).
           ++ intros q [<-|Hq]; [|apply IH; assumption].
              intros e2 He2. rewrite Ea in He2. inversion He2; subst e2. rewrite Epe. cbn. eauto.
           ++ destruct IH as (-> & q & Hq & Hr). split; [reflexivity|]. exists q. split; [right; assumption | assumption].
        -- assert (e' = ValueError).
           { clear - Efs. unfold floating_settings in Efs.
             destruct lo; [|destruct (p_valmin p)]; cbn in Efs; try (inversion Efs; reflexivity);
             (destruct hi; [|destruct (p_valmax p)]); cbn in Efs; try (inversion Efs; reflexivity);
             match type of Efs with (if ?c then _ else _) = _ => destruct c end; inversion Efs; reflexivity. }
           subst e'. split; [reflexivity|]. exists p. split; [left; reflexivity|].
           intros H. destruct (H e Ea) as (_ & t & Ht). rewrite Epe in Ht. cbn in Ht. congruence.
      * split; [reflexivity|]. exists p. split; [left; reflexivity|].
        intros H. destruct (H e Ea) as (Hf & _). congruence.
    + destruct (float_precheck st req r).
      * intros q [<-|Hq]; [intros e2 He2; congruence | apply IH; assumption].
      * destruct IH as (-> & q & Hq & Hr). split; [reflexivity|]. exists q. split; [right; assumption | assumption].
Qed.

Lemma map_float_one_names req ps :
  Forall param_ok ps -> (forall p, In p ps -> float_req_ok req p) ->
  map p_name (map (float_one req) ps) = map p_name ps.
Proof.
  intros HF H. rewrite map_map. apply map_ext_in. intros p Hp.
  apply float_one_props; [apply H; assumption | rewrite Forall_forall in HF; apply HF; assumption].
Qed.

Theorem make_params_floating_ok st s ps req :
  Consistent st s ps -> NoDup (ps_params s) ->
  match make_params_floating st s req with
  | (st', s', None) =>
      Consistent st' s' (map (float_one req) ps)
      /\ (forall p, In p ps -> float_req_ok req p)
      /\ ps_params s' = ps_params s /\ agree_outside (ps_params s) st st' /\ length st' = length st
  | (st', s', Some e) =>
      e = ValueError /\ st' = st /\ s' = s /\ exists p, In p ps /\ ~ float_req_ok req p
  end.
Proof.
  intros HC HND. apply Consistent_elim in HC. destruct HC as (HM & HN & HF & HK & HCa).
  unfold make_params_floating. pose proof (float_precheck_spec st req _ _ HM) as HP.
  destruct (float_precheck st req (ps_params s)) as [u|e].
  - destruct (float_loop_ok req (ps_params s) ps [] [] st (clear_caches s)) as (st' & s' & R1 & R2 & R3 & R4 & R5 & R6 & R7 & R8);
      auto using caches_ok_clear.
    change (zlen []) with 0 in R1. rewrite R1. cbn in R5, R6, R8.
    split; [|split; [exact HP | repeat split; auto]].
    apply Consistent_intro; auto; try (rewrite R5; exact R2); try (rewrite map_float_one_names; assumption).
  - destruct HP as (-> & HP). auto.
Qed.

(* ------------------------------------------------------------------ copy / union *)
Lemma mapM_rd_extend st ext locs r : mapM (rd st) locs = Ok r -> mapM (rd (st ++ ext)) locs = Ok r.
Proof.
  intros H. rewrite <- H. apply mapM_ext. intros a Ha.
  destruct (mapM_In _ _ _ _ H Ha) as (b & Hb & _). apply rd_lt in Hb.
  unfold rd. rewrite nth_error_app1 by assumption. reflexivity.
Qed.

Lemma mapM_rd_seq st : forall ps, mapM (rd (st ++ ps)) (seq (length st) (length ps)) = Ok ps.
Proof.
  intros ps. revert st. induction ps as [|p ps IH]; intros st; [reflexivity|].
  cbn [length seq mapM].
  assert (E : rd (st ++ p :: ps) (length st) = Ok p).
  { apply rd_Ok. rewrite nth_error_app2 by lia. rewrite Nat.sub_diag. reflexivity. }
  rewrite E. cbn [bind].
  specialize (IH (st ++ [p])). rewrite <- app_assoc in IH. cbn in IH.
  rewrite app_length in IH. cbn in IH. rewrite Nat.add_1_r in IH. rewrite IH. reflexivity.
Qed.

Theorem copy_set_ok st s ps :
  Consistent st s ps ->
  exists s', copy_set st s = Ok (st ++ ps, s')
    /\ ps_params s' = seq (length st) (length ps)
    /\ Consistent (st ++ ps) s' ps.
Proof.
  intros HC. apply Consistent_elim in HC. destruct HC as (HM & HN & HF & HK & HCa).
  unfold copy_set. rewrite HM. cbn [bind]. eexists. split; [reflexivity|]. split; [reflexivity|].
  apply Consistent_intro; auto. cbn [ps_params]. apply mapM_rd_seq.
Qed.

Lemma add_new_ext acc qs : exists new, add_new acc qs = acc ++ new.
Proof.
  revert acc; induction qs as [|q r IH]; intros acc; cbn.
  - exists []. now rewrite app_nil_r.
  - destruct (mem (p_name q) (map p_name acc)); [apply IH|].
    destruct (IH (acc ++ [q])) as (new & E). exists (q :: new). rewrite E, <- app_assoc. reflexivity.
Qed.

Ltac split4 := split; [|split; [|split]].

Lemma add_copies_ok skip : forall locs qs st s ps,
  Consistent st s ps -> mapM (rd st) locs = Ok qs -> Forall param_ok qs ->
  (skip = false -> NoDup (map p_name (ps ++ qs))) ->
  exists new s',
    add_copies st s locs skip = Ok (st ++ new, s')
    /\ ps_params s' = ps_params s ++ seq (length st) (length new)
    /\ Consistent (st ++ new) s' (ps ++ new)
    /\ ps ++ new = (if skip then add_new ps qs else ps ++ qs).
Proof.
  induction locs as [|l r IH]; intros qs st s ps HC HM HF HS.
  - cbn in HM. inversion HM; subst qs. exists [], s. cbn. rewrite !app_nil_r.
    split4; auto. destruct skip; reflexivity.
  - apply mapM_cons_Ok in HM. destruct HM as (q & qs' & Hq & HM & ->).
    inversion HF as [|? ? Hqok HF']; subst.
    cbn [add_copies]. rewrite Hq. cbn [bind].
    pose proof (Consistent_elim _ _ _ HC) as (_ & _ & _ & _ & HCa).
    pose proof (has_param_spec s ps (p_name q) HCa) as HP.
    destruct (skip && has_param s (p_name q)) eqn:Esk.
    + apply andb_true_iff in Esk. destruct Esk as (-> & Eh).
      destruct (IH qs' st s ps HC HM HF') as (new & s' & R1 & R2 & R3 & R4); [discriminate|].
      exists new, s'. split4; auto. cbn [add_new].
      assert (Em : mem (p_name q) (map p_name ps) = true) by (apply mem_In; apply HP; assumption).
      rewrite Em. exact R4.
    + pose proof (add_param_ok st s ps (length st) q false HC Hqok eq_refl) as HA.
      destruct (add_param s (length st) q false) as [s1|e].
      * destruct HA as (Hnot & HPs & HC1). cbn [bind].
        destruct (IH qs' (st ++ [q]) s1 (ps ++ [q]) HC1 (mapM_rd_extend _ _ _ _ HM) HF') as (new & s' & R1 & R2 & R3 & R4).
        { intros ->. specialize (HS eq_refl). rewrite <- app_assoc. exact HS. }
        exists (q :: new), s'.
        replace (st ++ q :: new) with ((st ++ [q]) ++ new) by (rewrite <- app_assoc; reflexivity).
        replace (ps ++ q :: new) with ((ps ++ [q]) ++ new) by (rewrite <- app_assoc; reflexivity).
        split4; auto.
        -- rewrite R2, HPs, <- app_assoc. cbn [length seq app]. rewrite app_length. cbn. rewrite Nat.add_1_r. reflexivity.
        -- rewrite R4. destruct skip; [|rewrite <- app_assoc; reflexivity].
           cbn [add_new]. assert (Em : mem (p_name q) (map p_name ps) = false).
           { destruct (mem (p_name q) (map p_name ps)) eqn:Em; [|reflexivity]. apply mem_In in Em. tauto. }
           rewrite Em. reflexivity.
      * exfalso. destruct HA as (_ & Hin). destruct skip.
        -- cbn in Esk. apply HP in Hin. congruence.
        -- specialize (HS eq_refl). rewrite map_app in HS. cbn in HS. apply NoDup_remove_2 in HS.
           apply HS. rewrite in_app_iff. tauto.
Qed.

Definition readable (st : store) (x : pset) (px : list param) : Prop :=
  mapM (rd st) (ps_params x) = Ok px /\ Forall param_ok px.

Lemma Consistent_readable st s ps : Consistent st s ps -> readable st s ps.
Proof. intros H. apply Consistent_elim in H. split; tauto. Qed.

Lemma Forall2_readable_extend st ext srcs pss :
  Forall2 (readable st) srcs pss -> Forall2 (readable (st ++ ext)) srcs pss.
Proof.
  induction 1 as [|x px srcs pss [H1 H2] _ IH]; constructor; [|assumption].
  split; [apply mapM_rd_extend|]; assumption.
Qed.

Lemma union_rest_ok : forall srcs pss st s ps,
  Consistent st s ps -> Forall2 (readable st) srcs pss ->
  exists new s',
    union_rest st s srcs = Ok (st ++ new, s')
    /\ ps_params s' = ps_params s ++ seq (length st) (length new)
    /\ Consistent (st ++ new) s' (ps ++ new)
    /\ ps ++ new = fold_left add_new pss ps.
Proof.
  induction srcs as [|x r IH]; intros pss st s ps HC HR.
  - inversion HR; subst. exists [], s. cbn. rewrite !app_nil_r. split4; auto.
  - inversion HR as [|? px ? pss' [Hx1 Hx2] HR']; subst.
    cbn [union_rest].
    destruct (add_copies_ok true (ps_params x) px st s ps HC Hx1 Hx2) as (new1 & s1 & R1 & R2 & R3 & R4); [discriminate|].
    rewrite R1. cbn [bind fst snd].
    destruct (IH pss' (st ++ new1) s1 (ps ++ new1) R3 (Forall2_readable_extend _ _ _ _ HR')) as (new2 & s2 & Q1 & Q2 & Q3 & Q4).
    exists (new1 ++ new2), s2. rewrite !app_assoc. split4; auto.
    + rewrite Q2, R2, <- !app_assoc. f_equal. rewrite !app_length, seq_app. reflexivity.
    + cbn [fold_left]. rewrite <- R4. exact Q4.
Qed.

Lemma Consistent_empty st : Consistent st empty_pset [].
Proof.
  apply Consistent_intro; cbn; auto; try constructor.
  all: unfold caches_ok; cbn; repeat split; auto using dict_ok_nil.
Qed.

Theorem union_ok st srcs pss :
  Forall2 (readable st) srcs pss ->
  match srcs with
  | [] => union st srcs = Err ValueError
  | _ :: _ =>
      NoDup (map p_name (hd [] pss)) ->
      exists new s',
        union st srcs = Ok (st ++ new, s')
        /\ ps_params s' = seq (length st) (length new)
        /\ Consistent (st ++ new) s' new
        /\ new = fold_left add_new (tl pss) (hd [] pss)
  end.
Proof.
  intros HR. destruct srcs as [|x r]; [reflexivity|].
  inversion HR as [|? px ? pss' [Hx1 Hx2] HR']; subst. cbn [hd tl]. intros HN.
  cbn [union].
  destruct (add_copies_ok false (ps_params x) px st empty_pset [] (Consistent_empty st) Hx1 Hx2) as (new1 & s1 & R1 & R2 & R3 & R4);
    [intros _; exact HN|].
  rewrite R1. cbn [bind fst snd]. cbn [app] in R3, R4. subst new1.
  destruct (union_rest_ok r pss' (st ++ px) s1 px R3 (Forall2_readable_extend _ _ _ _ HR')) as (new2 & s2 & Q1 & Q2 & Q3 & Q4).
  exists (px ++ new2), s2. rewrite app_assoc. split4; auto.
  rewrite Q2, R2. cbn [ps_params empty_pset app]. rewrite !app_length, seq_app. reflexivity.
Qed.

(* ------------------------------------------------------------------ the value setter *)
Definition same_row (q q' : param) : Prop :=
  row_of q' = row_of q /\ p_name q' = p_name q /\ p_isfixed q' = p_isfixed q /\ (param_ok q -> param_ok q').

Lemma same_row_refl q : same_row q q. Proof. unfold same_row; tauto. Qed.

Lemma wr_mapM st l p p' : forall locs ps,
  mapM (rd st) locs = Ok ps -> rd st l = Ok p -> same_row p p' ->
  exists ps', mapM (rd (wr st l p')) locs = Ok ps' /\ Forall2 same_row ps ps'.
Proof.
  induction locs as [|a r IH]; intros ps HM Hp HS.
  - cbn in HM. inversion HM. exists []. split; [reflexivity | constructor].
  - apply mapM_cons_Ok in HM. destruct HM as (q & qs & Hq & HM & ->).
    destruct (IH qs HM Hp HS) as (qs' & E & F). cbn [mapM].
    destruct (Nat.eq_dec a l) as [->|Hne].
    + rewrite (rd_wr_same st l p' p Hp). cbn. rewrite E. exists (p' :: qs'). split; [reflexivity|].
      constructor; [|assumption]. assert (q = p) by congruence. subst q. assumption.
    + rewrite (rd_wr_other st l a p' Hne), Hq. cbn. rewrite E. exists (q :: qs'). split; [reflexivity|].
      constructor; [apply same_row_refl | assumption].
Qed.

Lemma same_row_lists ps ps' :
  Forall2 same_row ps ps' ->
  table_of ps' = table_of ps /\ map p_name ps' = map p_name ps /\ map p_isfixed ps' = map p_isfixed ps
  /\ (Forall param_ok ps -> Forall param_ok ps').
Proof.
  induction 1 as [|q q' ps ps' (A & B & C & D) _ (IA & IB & IC & ID)]; [cbn; auto|].
  unfold table_of in *. cbn [map]. rewrite A, B, C, IA, IB, IC. repeat split; auto.
  intros HF. inversion HF; subst. constructor; auto.
Qed.

Lemma set_value_same_row p v p' : param_ok p -> set_value p v = Ok p' -> same_row p p'.
Proof.
  unfold set_value. destruct (setter_check p v) eqn:E; cbn; [|discriminate]. intros Hok H; inversion H; subst p'.
  unfold same_row, row_of, param_ok in *. cbn. unfold setter_check in E.
  destruct (p_isfixed p) eqn:Ef.
  - destruct (set_fixed_ne v (p_initial p)) eqn:E1; [discriminate|]. apply K_set_fixed_ne in E1. subst v.
    rewrite Hok. repeat split; auto.
  - destruct Hok as (lo & hi & Hlo & Hhi & Hi & Hv). rewrite Hlo, Hhi in *.
    destruct (set_below v lo) eqn:E1; [discriminate|]. destruct (set_above v hi) eqn:E2; [discriminate|].
    assert (~ v < lo) by (intro X; apply K_set_below in X; congruence).
    assert (~ v > hi) by (intro X; apply K_set_above in X; congruence).
    repeat split; auto. intros _. exists lo, hi. repeat split; auto; lia.
Qed.

Theorem set_value_ok st s ps l p v p' :
  Consistent st s ps -> rd st l = Ok p -> In p ps -> set_value p v = Ok p' ->
  exists ps', Consistent (wr st l p') s ps' /\ table_of ps' = table_of ps.
Proof.
  intros HC Hp Hin Hsv. apply Consistent_elim in HC. destruct HC as (HM & HN & HF & HK & HCa).
  assert (Hok : param_ok p) by (rewrite Forall_forall in HF; auto).
  destruct (wr_mapM st l p p' _ _ HM Hp (set_value_same_row _ _ _ Hok Hsv)) as (ps' & E & F).
  destruct (same_row_lists _ _ F) as (A & B & C & D).
  exists ps'. split; [|assumption].
  apply Consistent_intro; auto; try congruence.
  unfold caches_ok in *. rewrite A. assumption.
Qed.

(* the rejections of the value setter *)
Theorem set_value_rejects p v :
  param_ok p ->
  (if p_isfixed p then v <> p_initial p
   else exists lo hi, p_valmin p = Some lo /\ p_valmax p = Some hi /\ (v < lo \/ v > hi)) ->
  set_value p v = Err ValueError.
Proof.
  unfold set_value, setter_check, param_ok. destruct (p_isfixed p).
  - intros _ H. destruct (set_fixed_ne v (p_initial p)) eqn:E; [reflexivity|]. apply K_set_fixed_ne in E. contradiction.
  - intros _ (lo & hi & -> & -> & H).
    destruct (set_below v lo) eqn:E1; [reflexivity|].
    destruct (set_above v hi) eqn:E2; [reflexivity|]. exfalso.
    destruct H as [H|H]; [apply K_set_below in H | apply K_set_above in H]; congruence.
Qed.

Theorem set_value_accepts p v :
  param_ok p ->
  (if p_isfixed p then v = p_initial p
   else exists lo hi, p_valmin p = Some lo /\ p_valmax p = Some hi /\ lo <= v <= hi) ->
  set_value p v = Ok (with_value p v).
Proof.
  unfold set_value, setter_check, param_ok. destruct (p_isfixed p).
  - intros _ ->. destruct (set_fixed_ne (p_initial p) (p_initial p)) eqn:E; [|reflexivity].
    assert (X : set_fixed_ne (p_initial p) (p_initial p) = false) by (apply K_set_fixed_ne; reflexivity). congruence.
  - intros _ (lo & hi & -> & -> & H).
    destruct (set_below v lo) eqn:E1; [apply K_set_below in E1; lia|].
    destruct (set_above v hi) eqn:E2; [apply K_set_above in E2; lia|]. reflexivity.
Qed.
