(* C03: characterising lemmas of the arithmetic kernels of G_weights.v (real
   reading), sums, and the single-dataset value as the manual's formula.
   (Same statements as the corresponding lemmas of P_Llh.v / P_LlhValue.v, over
   this property's own copies of the kernels and of the model functions.) *)
From Coq Require Import Reals ZArith List Bool Lra Lia Permutation.
From Sky Require Import Num NumR G_weights M_Weights S_Llh.
Import ListNotations.
Open Scope R_scope.

Section B.
  Variable erfR : R -> R.
  Notation Nm := (RNum erfR).

  Lemma K_alpha opa : w_alpha Nm opa = opa - 1.
  Proof. unfold w_alpha. num_R. lra. Qed.
  Lemma K_alpha_i ns x : w_alpha_i Nm ns x = ns * x.
  Proof. unfold w_alpha_i. num_R. lra. Qed.
  Lemma K_m_stable ai a : w_m_stable Nm ai a = Rltb a ai.
  Proof. reflexivity. Qed.
  Lemma K_loglam_stable ai : w_loglam_stable Nm ai = ln (1 + ai).
  Proof. reflexivity. Qed.
  Lemma K_tildealpha ai a opa : w_tildealpha Nm ai a opa = (ai - a) / opa.
  Proof. unfold w_tildealpha. num_R. reflexivity. Qed.
  Lemma K_loglam_unstable a ta :
    w_loglam_unstable Nm a ta = ln (1 + a) + ta - / 2 * ta * ta.
  Proof. unfold w_loglam_unstable. num_R. unfold Rdiv. lra. Qed.
  Lemma K_log_lambda N N' ns s :
    w_log_lambda Nm N N' ns s = s + (N - N') * ln (1 + - ns / N).
  Proof. unfold w_log_lambda. num_R. reflexivity. Qed.
  Lemma K_Xi r N : w_Xi Nm r N = (r - 1) / N.
  Proof. unfold w_Xi. num_R. reflexivity. Qed.
  Lemma K_nsf ns f : w_nsf Nm ns f = ns * f.
  Proof. unfold w_nsf. num_R. lra. Qed.
  Lemma K_a_jk w y : w_a_jk Nm w y = w * y.
  Proof. unfold w_a_jk. num_R. lra. Qed.
  Lemma K_f_j aj a : w_f_j Nm aj a = aj / a.
  Proof. unfold w_f_j. num_R. reflexivity. Qed.
  Lemma K_sw_term acc r ak : w_sw_term Nm acc r ak = acc + r * ak.
  Proof. unfold w_sw_term. num_R. lra. Qed.
  Lemma K_sw_norm r A : w_sw_norm Nm r A = r / A.
  Proof. unfold w_sw_norm. num_R. reflexivity. Qed.

  (* ---- sums *)
  Lemma fold_left_Rplus l a : fold_left Rplus l a = a + Rsum l.
  Proof.
    revert a. induction l as [|x l IH]; intros a; cbn [fold_left Rsum fold_right].
    - lra.
    - rewrite IH. unfold Rsum. lra.
  Qed.

  Lemma nsum_R l : nsum Nm l = Rsum l.
  Proof. unfold nsum. cbn [nadd nzero RNum]. rewrite fold_left_Rplus. lra. Qed.

  Lemma nlen_R {A} (l : list A) : nlen Nm l = INR (length l).
  Proof. unfold nlen. rewrite ofZ_R. symmetry. apply INR_IZR_INZ. Qed.

  Lemma Rsum_app a b : Rsum (a ++ b) = Rsum a + Rsum b.
  Proof. unfold Rsum. induction a as [|x a IH]; cbn; [lra|]. rewrite IH. lra. Qed.

  Lemma Rsum_perm a b : Permutation a b -> Rsum a = Rsum b.
  Proof.
    unfold Rsum. induction 1 as [|x a b _ IH|x y a|a b c _ IH1 _ IH2]; cbn [fold_right].
    - reflexivity.
    - rewrite IH. reflexivity.
    - lra.
    - rewrite IH1. exact IH2.
  Qed.

  (* ---- the per-event term is the manual's Lam; the value the manual's formula *)
  Lemma ev_loglam_Lam opa ns x :
    ev_loglam Nm opa ns x = Lam (opa - 1) (ns * x).
  Proof.
    unfold ev_loglam, ev_stable, ev_tilde, ev_alpha_i, Lam, Taylor.
    rewrite K_m_stable, !K_alpha, !K_alpha_i, K_loglam_stable, K_loglam_unstable, K_tildealpha.
    unfold Rltb.
    replace (1 + (opa - 1)) with opa by lra.
    destruct (Rlt_dec (opa - 1) (ns * x)); [reflexivity|]. lra.
  Qed.

  Theorem value_is_manual opa N ns (Rs : list R) :
    evaluate_value Nm opa N ns Rs = logLambda_manual (opa - 1) N ns Rs.
  Proof.
    unfold evaluate_value, log_lambda, logLambda_manual, Xs.
    rewrite K_log_lambda, nsum_R, nlen_R, !map_length, !map_map.
    f_equal.
    - f_equal. apply map_ext. intros r. rewrite ev_loglam_Lam, K_Xi. reflexivity.
    - f_equal. f_equal. unfold Rdiv. lra.
  Qed.
End B.
