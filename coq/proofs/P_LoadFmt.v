(* C17: the csv loader's own logic (header columns, usecols selection, all
   columns float64, keep / dtype handling) as theorems relative to the reader
   contract "np.loadtxt returns the rows of the file": a csv load equals the npy
   load of the same rows typed float64. *)
From Coq Require Import ZArith List Bool Lia.
From Sky Require Import Result PyList G_load M_Load S_Load P_Load P_LoadDs P_LoadFiles.
Import ListNotations.
Open Scope Z_scope.

Definition ukeep (o : lopts) (ic : Z * (name * dtype)) : bool := spec_keeps o (fst (snd ic)).

Lemma used_spec : forall o (idx : list (Z * (name * dtype))),
  (if keep_given o then filter (fun ic => txt_use (fst (snd ic)) (keep_list o)) idx else idx)
  = filter (ukeep o) idx.
Proof.
  intros o idx. unfold keep_given, keep_list, ukeep, spec_keeps. destruct (o_keep o) as [k|].
  - reflexivity.
  - induction idx as [|a idx IH]; [reflexivity|]. cbn. f_equal. exact IH.
Qed.

Lemma used_length : forall o sch i,
  length (filter (ukeep o) (enum_from i sch)) = length (spec_kept o sch).
Proof.
  intros o. induction sch as [|[n d] sch IH]; intros i; [reflexivity|].
  cbn [enum_from filter]. change (ukeep o (i, (n, d))) with (spec_keeps o n). unfold spec_kept. cbn [filter fst].
  destruct (spec_keeps o n); cbn [length]; [f_equal|]; apply IH.
Qed.

Lemma mapM_ok : forall {A B} (g : A -> B) l, mapM (fun a => Ok (g a)) l = Ok (map g l).
Proof. induction l as [|a l IH]; [reflexivity|]. cbn [mapM map]. cbn [bind]. rewrite IH. reflexivity. Qed.

Lemma txt_cols_spec : forall suffix pre rows o,
  NoDup (map fst (pre ++ suffix)) ->
  Forall (fun r => length r = length (pre ++ suffix)) rows ->
  mapM (fun ic : Z * (name * dtype) => do c <- column rows (fst ic); Ok (fst (snd ic), (3, c)))
       (filter (ukeep o) (enum_from (Z.of_nat (length pre)) suffix))
  = Ok (map (fun p => (fst p, (3, map (fun r => nth (idx_of (fst p) (pre ++ suffix)) r 0) rows)))
            (spec_kept o suffix)).
Proof.
  induction suffix as [|[fname dt] rest IH]; intros pre rows o Hnd Hrows; [reflexivity|].
  assert (Hnotin : ~ In fname (map fst pre)).
  { rewrite map_app in Hnd. cbn in Hnd. apply NoDup_remove_2 in Hnd.
    intros HI. apply Hnd. apply in_or_app. left. exact HI. }
  assert (Heq : pre ++ (fname, dt) :: rest = (pre ++ [(fname, dt)]) ++ rest)
    by (rewrite <- app_assoc; reflexivity).
  assert (Hlen : Z.of_nat (length pre) + 1 = Z.of_nat (length (pre ++ [(fname, dt)])))
    by (rewrite app_length; cbn; lia).
  cbn [enum_from filter].
  change (ukeep o (Z.of_nat (length pre), (fname, dt))) with (spec_keeps o fname).
  unfold spec_kept. cbn [filter fst]. fold (spec_kept o rest).
  rewrite Hlen.
  assert (HIH := IH (pre ++ [(fname, dt)]) rows o). rewrite <- Heq in HIH.
  specialize (HIH Hnd Hrows).
  destruct (spec_keeps o fname) eqn:Ek.
  - cbn [mapM fst snd].
    rewrite column_ok.
    2:{ eapply Forall_impl; [|exact Hrows]. cbn. intros r Hr. rewrite Hr, app_length. cbn. lia. }
    cbn [bind]. rewrite HIH. cbn [bind map fst snd].
    rewrite (idx_of_app fname dt pre rest Hnotin). reflexivity.
  - exact HIH.
Qed.

Lemma filter_all : forall {A} (g : A -> bool) l, (forall x, In x l -> g x = true) -> filter g l = l.
Proof.
  induction l as [|a l IH]; intros H; [reflexivity|]. cbn [filter].
  rewrite (H a (or_introl eq_refl)). f_equal. apply IH. intros x Hx. apply H. right. exact Hx.
Qed.

Lemma idx_of_retype : forall n (sch : list (name * dtype)),
  idx_of n (map (fun p => (fst p, 3)) sch) = idx_of n sch.
Proof.
  induction sch as [|[k d] sch IH]; [reflexivity|]. cbn [map idx_of fst]. rewrite IH. reflexivity.
Qed.

Lemma spec_kept_retype : forall o (sch : list (name * dtype)),
  spec_kept o (map (fun p => (fst p, 3)) sch) = map (fun p => (fst p, 3)) (spec_kept o sch).
Proof.
  intros o. unfold spec_kept. induction sch as [|[k d] sch IH]; [reflexivity|].
  cbn [map filter fst]. destruct (spec_keeps o k); cbn [map fst]; rewrite IH; reflexivity.
Qed.

Lemma wf_retype : forall f, wf_file f -> wf_file (retype64 f).
Proof.
  intros f [Hnd Hrows]. unfold wf_file, retype64. cbn [f_schema f_rows]. split.
  - rewrite map_map. cbn [fst]. exact Hnd.
  - rewrite map_length. exact Hrows.
Qed.

(* one csv file: ValueError when no column is selected, otherwise exactly the
   specified table of the float64-typed rows *)
Theorem csv_file_spec : forall f o,
  wf_file f ->
  txt_load_file (Some f) o =
    if (length (spec_kept o (f_schema f)) =? 0)%nat then Err ValueError
    else Ok (spec_load_file (retype64 f) o, 1).
Proof.
  intros f o [Hnd Hrows]. unfold txt_load_file. cbn [open_file bind]. cbv zeta. rewrite used_spec.
  match goal with |- (if txt_none ?x then _ else _) = _ =>
    assert (Hn : txt_none x = (length (spec_kept o (f_schema f)) =? 0)%nat) end.
  { unfold txt_none, zlen. rewrite used_length.
    destruct (length (spec_kept o (f_schema f))); reflexivity. }
  rewrite Hn. destruct (length (spec_kept o (f_schema f)) =? 0)%nat; [reflexivity|].
  change 0 with (Z.of_nat (length (@nil (name * dtype)))).
  rewrite (txt_cols_spec _ [] _ _ Hnd Hrows). cbn [bind app].
  rewrite filter_all.
  2:{ intros c Hc. apply in_map_iff in Hc. destruct Hc as [p [Hp Hin]]. subst c. cbn [fst].
      rewrite skip_spec. unfold spec_kept in Hin. apply filter_In in Hin. rewrite (proj2 Hin). reflexivity. }
  rewrite (mapM_ok (fun c : col => (fst c, (conv_dtype dfra_conv o (fst c) (fst (snd c)), snd (snd c))))).
  cbn [bind]. f_equal. f_equal.
  unfold spec_load_file, retype64. cbn [f_schema f_rows]. rewrite spec_kept_retype, !map_map.
  apply map_ext. intros p. cbn [fst snd]. rewrite conv_spec.
  unfold spec_col. cbn [f_schema f_rows]. rewrite idx_of_retype. reflexivity.
Qed.

(* ---------------------------------------------------------------- csv = npy *)
Lemma py_get_map : forall {A B} (g : A -> B) l i,
  py_get (map g l) i = match py_get l i with Ok a => Ok (g a) | Err e => Err e end.
Proof.
  intros A B g l i. unfold py_get, zlen. rewrite map_length.
  destruct (_ || _); [reflexivity|]. rewrite nth_error_map.
  destruct (nth_error l _); reflexivity.
Qed.

Lemma fold_left_ext2 : forall {A B} (f g : A -> B -> A) l a,
  (forall a b, f a b = g a b) -> fold_left f l a = fold_left g l a.
Proof. induction l as [|b l IH]; intros a H; [reflexivity|]. cbn. rewrite H. apply IH. exact H. Qed.

Lemma load_all_map : forall one (g : option file -> option file) files lo hi,
  load_all one (map g files) lo hi = load_all (fun p => one (g p)) files lo hi.
Proof.
  intros one g files lo hi. rewrite !load_all_step. rewrite py_get_map.
  destruct (py_get files 0) as [p0|e]; cbn [bind]; [|reflexivity].
  destruct (one (g p0)) as [r0|e]; cbn [bind]; [|reflexivity].
  apply fold_left_ext2. intros a i. unfold step. destruct a as [a|e]; cbn [bind]; [|reflexivity].
  rewrite py_get_map. destruct (py_get files i); reflexivity.
Qed.

Definition csv_ok (o : lopts) (p : option file) : Prop :=
  match p with Some f => wf_file f /\ spec_kept o (f_schema f) <> [] | None => True end.

Lemma one_csv_rel : forall o p, csv_ok o p ->
  R (txt_load_file p o) (do f <- open_file (option_map retype64 p); load_file_time f o).
Proof.
  intros o [f|] H; [|reflexivity]. destruct H as [Hwf Hne]. cbn [option_map open_file bind].
  rewrite (csv_file_spec f o Hwf), (load_time_spec (retype64 f) o (wf_retype f Hwf)).
  destruct (spec_kept o (f_schema f)); [contradiction|]. reflexivity.
Qed.

Theorem csv_equals_npy : forall files o,
  Forall (csv_ok o) files ->
  match txt_load files o, npy_load MTime (map (option_map retype64) files) o with
  | Ok (t, _), Ok (t', _) => t = t'
  | Err e, Err e' => e = e'
  | _, _ => False
  end.
Proof.
  intros files o Hok.
  change (R (txt_load files o) (npy_load MTime (map (option_map retype64) files) o)).
  unfold txt_load, npy_load. cbn [resolve_mode]. destruct K_rest as [Hn [Ht [Hnh Hth]]]. rewrite Hn, Ht, Hnh, Hth.
  unfold zlen. rewrite map_length. fold (zlen files).
  rewrite load_all_map. rewrite !load_all_step.
  destruct (py_get files 0) as [p0|e] eqn:E0; cbn [bind]; [|reflexivity].
  rewrite Forall_forall in Hok.
  pose proof (one_csv_rel o p0 (Hok p0 (py_get_In _ _ _ E0))) as H0.
  destruct (txt_load_file p0 o) as [[t1 n1]|e1],
           (do f <- open_file (option_map retype64 p0); load_file_time f o) as [[t2 n2]|e2];
    cbn in H0; try contradiction; cbn [bind].
  - apply fold_rel; [|exact H0]. intros p Hp. apply one_csv_rel. apply Hok. exact Hp.
  - exact H0.
Qed.
