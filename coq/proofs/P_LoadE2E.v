(* C17: end-to-end composition for Dataset.load_data (npy files): the loaded
   experimental table in closed form, and "a requested / stage-required name that
   a file field is renamed onto is loaded with every row once in file order". *)
From Coq Require Import ZArith List Bool Lia.
From Sky Require Import Result PyList G_load M_Load S_Load P_Load P_LoadDs P_LoadFiles P_LoadRen.
Import ListNotations.
Open Scope Z_scope.

Definition exp_lopts (ds : dataset) (o : dopts) : lopts :=
  mkOpts (Some (keep_exp ds o)) (do_conv o) (exc_orig o (d_exp_ren ds)).

Theorem load_data_exp_closed : forall ds o f0 rest,
  d_fmt ds = FNpy -> do_mode o <> MBad ->
  d_exp_files ds = map Some (f0 :: rest) -> d_mc_files ds = [] ->
  wf_file f0 -> (forall f, In f rest -> wf_file f /\ covers f0 f (exp_lopts ds o)) ->
  NoDup (keys (d_exp_ren ds)) ->
  load_data ds o =
    Ok (mkData (Some (dict_merge (ren_rest (spec_load_files f0 rest (exp_lopts ds o)) (d_exp_ren ds))
                                 (ren_pairs (spec_load_files f0 rest (exp_lopts ds o)) (d_exp_ren ds))))
               None (d_livetime ds)).
Proof.
  intros ds o f0 rest Hf Hm He Hmc Hwf Hrest Hnd.
  unfold load_data, load_part. rewrite He, Hmc, Hf.
  replace (zlen (map Some (f0 :: rest)) >? 0) with true by (unfold zlen; cbn [map length]; symmetry; apply Z.gtb_lt; lia).
  cbn [file_load]. fold (exp_lopts ds o).
  rewrite (npy_files_closed (do_mode o) f0 rest (exp_lopts ds o) Hm Hwf Hrest). cbn [bind fst].
  rewrite (rename_closed _ _ Hnd). cbn [bind]. reflexivity.
Qed.

Lemma nodup_keys_filter : forall {V} (g : Z * V -> bool) l, NoDup (keys l) -> NoDup (keys (filter g l)).
Proof.
  intros V g. induction l as [|[k v] l IH]; intros H; [constructor|].
  cbn in H. inversion H as [|? ? Hnotin Hnd]; subst. cbn [filter].
  destruct (g (k, v)); [|apply IH; exact Hnd].
  cbn. constructor; [|apply IH; exact Hnd].
  intros Hin. apply Hnotin. unfold keys in Hin. apply in_map_iff in Hin.
  destruct Hin as [[k' v'] [Hk Hf]]. cbn in Hk. subst k'. apply filter_In in Hf.
  apply (in_map fst _ _ (proj1 Hf)).
Qed.

Lemma keep_exp_contains : forall ds o orig n,
  NoDup (map snd (d_exp_ren ds)) -> In (orig, n) (d_exp_ren ds) ->
  In n (spec_required (dict_merge (d_cfg_fields ds) (d_ds_fields ds)) 5 ++ do_keep o) ->
  In orig (keep_exp ds o).
Proof.
  intros ds o orig n Hinj Hren Hn. unfold keep_exp. apply dedup_In.
  apply (new2orig_renamed _ _ orig n Hinj Hren). exact Hn.
Qed.

Lemma spec_files_lookup : forall f0 rest lo orig dt,
  wf_file f0 -> In (orig, dt) (f_schema f0) -> spec_keeps lo orig = true ->
  exists dt', alookup orig (spec_load_files f0 rest lo)
              = Some (dt', concat (map (fun f => spec_col f orig) (f0 :: rest))).
Proof.
  intros f0 rest lo orig dt [Hnd _] Hin Hk.
  assert (Hl : alookup orig (spec_kept lo (f_schema f0)) = Some dt).
  { apply In_nodup_alookup.
    - apply nodup_keys_filter. exact Hnd.
    - unfold spec_kept. apply filter_In. split; [exact Hin | exact Hk]. }
  eexists. unfold spec_load_files.
  rewrite (alookup_map_snd
             (fun n d => (fold_left promote (map (fun f => spec_dtype_in f lo n) rest) (spec_dtype lo n d),
                          concat (map (fun f => spec_col f n) (f0 :: rest))))).
  rewrite Hl. reflexivity.
Qed.

(* a file field `orig` renamed onto a name `n` that the stage tables require for
   data preparation / analysis (mask & 5) or the user requested: after load_data
   the experimental data has `n`, holding every row of the listed files exactly
   once in file order *)
Theorem renamed_required_loaded : forall ds o f0 rest orig n dt d,
  d_fmt ds = FNpy -> do_mode o <> MBad ->
  d_exp_files ds = map Some (f0 :: rest) -> d_mc_files ds = [] ->
  wf_file f0 -> (forall f, In f rest -> wf_file f /\ covers f0 f (exp_lopts ds o)) ->
  NoDup (keys (d_exp_ren ds)) -> NoDup (map snd (d_exp_ren ds)) ->
  NoDup (keys (ren_pairs (spec_load_files f0 rest (exp_lopts ds o)) (d_exp_ren ds))) ->
  In (orig, n) (d_exp_ren ds) -> In (orig, dt) (f_schema f0) ->
  In n (spec_required (dict_merge (d_cfg_fields ds) (d_ds_fields ds)) 5 ++ do_keep o) ->
  load_data ds o = Ok d ->
  exists t dt', dd_exp d = Some t /\
    alookup n t = Some (dt', concat (map (fun f => spec_col f orig) (f0 :: rest))).
Proof.
  intros ds o f0 rest orig n dt d Hf Hm He Hmc Hwf Hrest Hnd Hinj Hnew Hren Hsch Hn H.
  rewrite (load_data_exp_closed ds o f0 rest Hf Hm He Hmc Hwf Hrest Hnd) in H.
  inversion H; subst d. cbn [dd_exp].
  assert (Hk : spec_keeps (exp_lopts ds o) orig = true).
  { unfold spec_keeps, exp_lopts. cbn [o_keep]. apply zmem_In.
    eapply keep_exp_contains; eassumption. }
  destruct (spec_files_lookup f0 rest (exp_lopts ds o) orig dt Hwf Hsch Hk) as [dt' Hl].
  eexists. exists dt'. split; [reflexivity|].
  apply merge_overrides; [exact Hnew|].
  apply In_nodup_alookup; [exact Hnew|]. eapply ren_pairs_in; eassumption.
Qed.

(* the same without renaming: a requested / required field of the file *)
Theorem required_loaded_plain : forall ds o f0 rest n dt d,
  d_fmt ds = FNpy -> do_mode o <> MBad ->
  d_exp_files ds = map Some (f0 :: rest) -> d_mc_files ds = [] ->
  wf_file f0 -> (forall f, In f rest -> wf_file f /\ covers f0 f (exp_lopts ds o)) ->
  d_exp_ren ds = [] ->
  In (n, dt) (f_schema f0) ->
  In n (spec_required (dict_merge (d_cfg_fields ds) (d_ds_fields ds)) 5 ++ do_keep o) ->
  load_data ds o = Ok d ->
  exists t dt', dd_exp d = Some t /\
    alookup n t = Some (dt', concat (map (fun f => spec_col f n) (f0 :: rest))).
Proof.
  intros ds o f0 rest n dt d Hf Hm He Hmc Hwf Hrest Hren Hsch Hn H.
  assert (Hnd : NoDup (keys (d_exp_ren ds))) by (rewrite Hren; constructor).
  rewrite (load_data_exp_closed ds o f0 rest Hf Hm He Hmc Hwf Hrest Hnd) in H.
  inversion H; subst d. cbn [dd_exp].
  assert (Hk : spec_keeps (exp_lopts ds o) n = true).
  { unfold spec_keeps, exp_lopts. cbn [o_keep]. apply zmem_In. unfold keep_exp. apply dedup_In.
    rewrite Hren. apply new2orig_plain; [constructor | intros [] | exact Hn]. }
  destruct (spec_files_lookup f0 rest (exp_lopts ds o) n dt Hwf Hsch Hk) as [dt' Hl].
  eexists. exists dt'. split; [reflexivity|].
  rewrite Hren. unfold ren_pairs, dict_merge. cbn [flat_map fold_left]. rewrite ren_rest_nil. exact Hl.
Qed.
