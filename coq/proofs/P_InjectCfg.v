(* C18 extension: the validity-range configuration is accepted exactly when it is
   well formed, and a rejected assignment changes nothing. *)
From Coq Require Import ZArith List Bool Lia.
From Sky Require Import Result PyList G_inject M_InjectCfg.
Import ListNotations.
Open Scope Z_scope.

Lemma K_vr_checks b n :
  vr_not_list b = negb b /\ vr_key_bad b = negb b /\ vr_val_bad b = negb b
  /\ (vr_len_bad n = false <-> n = 2) /\ vr_init_not_list b = negb b.
Proof.
  repeat split; try reflexivity; unfold vr_len_bad; intros H.
  - apply negb_false_iff in H. apply Z.eqb_eq in H. exact H.
  - subst. reflexivity.
Qed.
Lemma K_vr_init o a b :
  vr_init_none o = match o with None => true | Some _ => false end
  /\ (vr_init_len_bad a b = false <-> a = b).
Proof.
  split; [reflexivity|]. unfold vr_init_len_bad. split; intros H.
  - apply negb_false_iff in H. apply Z.eqb_eq in H. exact H.
  - subst. rewrite Z.eqb_refl. reflexivity.
Qed.

Lemma K_len n : vr_len_bad n = false <-> n = 2.
Proof. exact (proj1 (proj2 (proj2 (proj2 (K_vr_checks true n))))). Qed.

Lemma check_entry_ok e : check_entry e = Ok tt <-> rentry_ok e.
Proof.
  unfold check_entry, rentry_ok. destruct (K_vr_checks (r_key_str e) 0) as [_ [Kk _]].
  destruct (K_vr_checks (r_val_tuple e) 0) as [_ [_ [Kv _]]]. rewrite Kk, Kv.
  destruct (r_key_str e), (r_val_tuple e); cbn [negb]; try (split; [discriminate|intros [A [B C]]; discriminate]).
  destruct (vr_len_bad (r_len e)) eqn:E.
  - split; [discriminate|]. intros [_ [_ C]]. apply K_len in C. congruence.
  - apply K_len in E. split; [intros _; repeat split; exact E|reflexivity].
Qed.

Lemma check_entry_err e : check_entry e = Ok tt \/ check_entry e = Err TypeError \/ check_entry e = Err ValueError.
Proof.
  unfold check_entry. destruct (vr_key_bad _); [tauto|]. destruct (vr_val_bad _); [tauto|].
  destruct (vr_len_bad _); tauto.
Qed.

Lemma check_all_ok l : check_all l = Ok tt <-> Forall rentry_ok l.
Proof.
  induction l as [|e l IH]; cbn [check_all]; [split; [constructor|reflexivity]|].
  destruct (check_entry e) as [[]|er] eqn:E; cbn [bind].
  - rewrite IH. apply check_entry_ok in E. split; [intros H; constructor; assumption|intros H; inversion H; assumption].
  - split; [discriminate|]. intros H. inversion H as [|x y Hx _]; subst. apply check_entry_ok in Hx. congruence.
Qed.

Lemma check_all_unit l u : check_all l = Ok u -> check_all l = Ok tt.
Proof. destruct u. exact (fun H => H). Qed.

(* the setter accepts exactly the well-formed lists; it then stores the new
   value, and otherwise keeps the old one and raises TypeError or ValueError *)
Theorem set_ranges_spec is_list old new :
  (snd (set_ranges is_list old new) = Ok tt <-> is_list = true /\ Forall rentry_ok (concat new))
  /\ (snd (set_ranges is_list old new) = Ok tt -> fst (set_ranges is_list old new) = new)
  /\ (snd (set_ranges is_list old new) <> Ok tt ->
      fst (set_ranges is_list old new) = old
      /\ (snd (set_ranges is_list old new) = Err TypeError \/ snd (set_ranges is_list old new) = Err ValueError)).
Proof.
  unfold set_ranges. destruct (K_vr_checks is_list 0) as [Kn _]. rewrite Kn.
  destruct is_list; cbn [negb fst snd].
  - destruct (check_all (concat new)) as [[]|e] eqn:E; cbn [fst snd].
    + apply check_all_ok in E.
      split; [split; [intros _; split; [reflexivity|exact E]|intros _; reflexivity]|].
      split; [intros _; reflexivity|]. intros Hc. exfalso. apply Hc. reflexivity.
    + assert (Hno : ~ Forall rentry_ok (concat new)).
      { intros H. apply check_all_ok in H. congruence. }
      split; [split; [discriminate|intros [_ H]; contradiction]|]. split; [discriminate|].
      intros _. split; [reflexivity|].
      clear Hno. revert E. induction (concat new) as [|x l IH]; cbn [check_all]; [discriminate|].
      destruct (check_entry_err x) as [H|[H|H]]; rewrite H; cbn [bind]; [exact IH| |]; intros E; inversion E; tauto.
  - split; [split; [discriminate|intros [H _]; discriminate]|]. split; [discriminate|].
    intros _. split; [reflexivity|left; reflexivity].
Qed.

(* __init__ *)
Theorem init_ranges_spec arg n r :
  0 <= n -> init_ranges arg n = Ok r ->
  zlen r = n /\ Forall rentry_ok (concat r)
  /\ match arg with
     | None => r = repeat [] (Z.to_nat n)
     | Some (is_list, l) => is_list = true /\ r = l
     end.
Proof.
  intros Hn. unfold init_ranges. destruct arg as [[is_list l]|].
  - destruct (K_vr_init (Some 0) (zlen l) n) as [K1 K2]. rewrite K1.
    destruct (K_vr_checks is_list 0) as [_ [_ [_ [_ Ki]]]]. rewrite Ki.
    destruct is_list; cbn [negb]; [|discriminate].
    destruct (vr_init_len_bad (zlen l) n) eqn:El; [discriminate|].
    apply (proj2 (K_vr_init (@None Z) (zlen l) n)) in El.
    destruct (snd (set_ranges true [] l)) as [[]|e] eqn:Es; [|discriminate].
    intros H. inversion H; subst r. destruct (set_ranges_spec true [] l) as [[S1 _] _].
    destruct (S1 Es) as [_ Hwf]. repeat split; assumption.
  - destruct (K_vr_init (@None Z) 0 0) as [K1 _]. rewrite K1. intros H. inversion H; subst r.
    split; [unfold zlen; rewrite repeat_length; lia|]. split; [|reflexivity].
    clear H. induction (Z.to_nat n) as [|k IH]; simpl; [constructor|exact IH].
Qed.
