(* C16 — the world level: every operation, applied to a world of well-formed,
   pairwise disjoint tables, yields such a world again (also when it raises), and
   leaves every table other than its target untouched.  Induction over op sequences. *)
From Coq Require Import ZArith List Bool Lia Arith.
From Sky Require Import Result PyList G_table M_Table P_TableBase P_TableOps P_TableOps2 P_TableOps3 P_TableCtor.
Import ListNotations.
Open Scope Z_scope.

Definition winv (w : world) : Prop :=
  (forall i o, nth_error (wobjs w) i = Some o -> obj_inv (wstore w) o)
  /\ (forall i j oi oj, i <> j -> nth_error (wobjs w) i = Some oi -> nth_error (wobjs w) j = Some oj ->
        forall l, In l (obj_locs oi) -> ~ In l (obj_locs oj)).

(* python dicts have unique keys *)
Definition op_wf (p : op) : Prop :=
  match p with
  | ORename _ conv _ => NoDup (map fst conv)
  | OSetItemFrom _ _ _ _ => False      (* storing a column array of one table into another aliases them *)
  | _ => True
  end.

Definition target (p : op) : option nat :=
  match p with
  | OCtor _ _ _ _ _ | OCtorFrom _ _ _ _ | OSelect _ _ => None
  | OSetSel t _ _ | OAppend t _ | OAppendField t _ _ | OSetItem t _ _ | ORemove t _ | ORename t _ _
  | OTidy t _ | OSort t _ _ | OConvert t _ _ | OSetDtype t _ _ | OIndices t | OSetItemFrom t _ _ _ => Some t
  end.

(* every table other than the target is the same object and none of its buffers changed *)
Definition wframe (w : world) (tg : option nat) (w' : world) : Prop :=
  forall j oj, nth_error (wobjs w) j = Some oj -> tg <> Some j ->
    nth_error (wobjs w') j = Some oj /\ forall l, In l (obj_locs oj) -> rd (wstore w') l = rd (wstore w) l.

Lemma obj_inv_loc_lt : forall s o l, obj_inv s o -> In l (obj_locs o) -> (l < length s)%nat.
Proof. intros s o l (E & R & _) H; eapply repr_loc_lt; eassumption. Qed.

Lemma obj_inv_frame : forall s s' o, obj_inv s o ->
  (forall l, In l (obj_locs o) -> rd s' l = rd s l) -> obj_inv s' o.
Proof.
  intros s s' o (E & R & L) H; exists E; split; [|assumption].
  constructor; try apply R.
  - intros n l Hi; rewrite H; [apply (r_cols _ _ _ R); assumption|].
    unfold obj_locs; apply in_or_app; left; apply (in_map snd) in Hi; exact Hi.
  - pose proof (r_idx _ _ _ R) as I; unfold idx_ok in *. destruct (oidx o) as [li|] eqn:Q; [|exact I].
    destruct I as [b [I1 I2]]; exists b; split; [|assumption]. rewrite H; [assumption|].
    unfold obj_locs; rewrite Q; apply in_or_app; right; left; reflexivity.
Qed.

Lemma put_inv : forall w t o s' o', winv w -> nth_error (wobjs w) t = Some o ->
  frame_rel (wstore w) o s' o' -> obj_inv s' o' ->
  winv (mkworld s' (set_nth (wobjs w) t o')) /\ wframe w (Some t) (mkworld s' (set_nth (wobjs w) t o')).
Proof.
  intros w t o s' o' [WI WD] Ht (F1 & F2 & F3) OI.
  assert (Htl : (t < length (wobjs w))%nat) by (apply nth_error_Some; congruence).
  assert (Other : forall j oj, nth_error (wobjs w) j = Some oj -> j <> t ->
     forall l, In l (obj_locs oj) -> rd s' l = rd (wstore w) l).
  { intros j oj Hj Hne l Hl. apply F3.
    - eapply obj_inv_loc_lt; [eapply WI; eassumption | assumption].
    - intros Q. eapply (WD j t oj o); eassumption. }
  split; [split|].
  - intros i oi Hi; cbn [wobjs wstore] in *. destruct (Nat.eq_dec i t) as [->|Hne].
    + rewrite nth_error_set_nth_eq in Hi by assumption; inversion Hi; subst; assumption.
    + rewrite nth_error_set_nth_neq in Hi by congruence.
      eapply obj_inv_frame; [eapply WI; eassumption|]. eapply Other; eassumption.
  - intros i j oi oj Hij Hi Hj l Hl Hl2; cbn [wobjs wstore] in *.
    destruct (Nat.eq_dec i t) as [->|Hit]; destruct (Nat.eq_dec j t) as [->|Hjt]; try congruence.
    + rewrite nth_error_set_nth_eq in Hi by assumption; inversion Hi; subst oi.
      rewrite nth_error_set_nth_neq in Hj by congruence.
      destruct (F2 l Hl) as [Q|Q].
      * eapply (WD t j o oj); eassumption.
      * pose proof (obj_inv_loc_lt _ _ _ (WI _ _ Hj) Hl2); lia.
    + rewrite nth_error_set_nth_eq in Hj by assumption; inversion Hj; subst oj.
      rewrite nth_error_set_nth_neq in Hi by congruence.
      destruct (F2 l Hl2) as [Q|Q].
      * eapply (WD i t oi o); eassumption.
      * pose proof (obj_inv_loc_lt _ _ _ (WI _ _ Hi) Hl); lia.
    + rewrite nth_error_set_nth_neq in Hi by congruence. rewrite nth_error_set_nth_neq in Hj by congruence.
      eapply (WD i j); eassumption.
  - intros j oj Hj Hne; cbn [wobjs wstore]. assert (j <> t) by congruence.
    split; [rewrite nth_error_set_nth_neq by congruence; assumption | eapply Other; eassumption].
Qed.

Lemma ext_inv : forall w ext tg, winv w ->
  winv (mkworld (wstore w ++ ext) (wobjs w)) /\ wframe w tg (mkworld (wstore w ++ ext) (wobjs w)).
Proof.
  intros w ext tg [WI WD].
  assert (Old : forall j oj, nth_error (wobjs w) j = Some oj -> forall l, In l (obj_locs oj) ->
     rd (wstore w ++ ext) l = rd (wstore w) l).
  { intros j oj Hj l Hl; apply rd_prefix. eapply obj_inv_loc_lt; [eapply WI; eassumption | assumption]. }
  split; [split|]; cbn [wobjs wstore].
  - intros i oi Hi. eapply obj_inv_frame; [eapply WI; eassumption | eapply Old; eassumption].
  - exact WD.
  - intros j oj Hj _; split; [assumption | eapply Old; eassumption].
Qed.

Lemma push_inv : forall w ext o', winv w -> obj_inv (wstore w ++ ext) o' ->
  (forall l, In l (obj_locs o') -> (length (wstore w) <= l)%nat) ->
  winv (mkworld (wstore w ++ ext) (wobjs w ++ [o'])) /\ wframe w None (mkworld (wstore w ++ ext) (wobjs w ++ [o'])).
Proof.
  intros w ext o' W OI Hfresh. destruct (ext_inv w ext None W) as [[WI WD] WF]. destruct W as [WI0 WD0].
  cbn [wobjs wstore] in *.
  assert (Split : forall i oi, nth_error (wobjs w ++ [o']) i = Some oi ->
     (nth_error (wobjs w) i = Some oi) \/ (i = length (wobjs w) /\ oi = o')).
  { intros i oi Hi. destruct (Nat.lt_ge_cases i (length (wobjs w))) as [Q|Q].
    - rewrite nth_error_app1 in Hi by assumption; left; assumption.
    - rewrite nth_error_app2 in Hi by assumption. right.
      destruct (i - length (wobjs w))%nat as [|k] eqn:D; cbn in Hi; [inversion Hi; split; [lia | reflexivity]|].
      destruct k; discriminate. }
  split; [split|]; cbn [wobjs wstore].
  - intros i oi Hi; destruct (Split i oi Hi) as [Q|[-> ->]]; [eapply WI; eassumption | assumption].
  - intros i j oi oj Hij Hi Hj l Hl Hl2.
    destruct (Split i oi Hi) as [Qi|[-> ->]]; destruct (Split j oj Hj) as [Qj|[-> ->]].
    + eapply (WD i j); eassumption.
    + pose proof (obj_inv_loc_lt _ _ _ (WI0 _ _ Qi) Hl). pose proof (Hfresh l Hl2). lia.
    + pose proof (obj_inv_loc_lt _ _ _ (WI0 _ _ Qj) Hl2). pose proof (Hfresh l Hl). lia.
    + congruence.
  - intros j oj Hj _. destruct (WF j oj Hj) as [_ Q]; [discriminate|]. split; [|assumption].
    cbn [wobjs]. rewrite nth_error_app1; [assumption | apply nth_error_Some; congruence].
Qed.

(* ------------------------------------------------------------ source columns of the constructors *)
Lemma alloc_cols_spec : forall cols s d, NoDup (keys d) -> NoDup (vals d) ->
  (forall l, In l (vals d) -> (l < length s)%nat) ->
  match alloc_cols s cols d with
  | (s', d') => exists ext, s' = s ++ ext /\ NoDup (keys d') /\ NoDup (vals d')
      /\ (forall l, In l (vals d') -> (l < length s')%nat /\ (In l (vals d) \/ (length s <= l)%nat))
  end.
Proof.
  induction cols as [|[n b] r IH]; intros s d NK NV Hlt; cbn [alloc_cols].
  - exists []; rewrite app_nil_r; splits; auto.
  - cbn [alloc]. specialize (IH (s ++ [b]) (dset d n (length s))).
    assert (P1 : NoDup (keys (dset d n (length s)))) by (apply NoDup_keys_dset; assumption).
    assert (P2 : NoDup (vals (dset d n (length s)))).
    { apply NoDup_vals_dset; [assumption|]. intros Q; apply Hlt in Q; lia. }
    assert (P3 : forall l, In l (vals (dset d n (length s))) -> (l < length (s ++ [b]))%nat).
    { intros l Hl; rewrite app_length; cbn. apply vals_dset in Hl; destruct Hl as [->|Hl]; [lia | apply Hlt in Hl; lia]. }
    specialize (IH P1 P2 P3). destruct (alloc_cols (s ++ [b]) r (dset d n (length s))) as [s' d'].
    destruct IH as (ext & I1 & I2 & I3 & I4). exists ([b] ++ ext); splits; auto.
    + rewrite I1, app_assoc; reflexivity.
    + intros l Hl; destruct (I4 l Hl) as [Q1 Q2]; split; [assumption|].
      rewrite app_length in Q2; cbn in Q2. destruct Q2 as [Q2|Q2]; [|right; lia].
      apply vals_dset in Q2; destruct Q2 as [->|Q2]; [right; lia | left; assumption].
Qed.

Lemma rd_Some_of_lt : forall (s : store) l, (l < length s)%nat -> exists b, rd s l = Some b.
Proof. intros s l H; unfold rd; destruct (nth_error s l) eqn:Q; [eauto | apply nth_error_None in Q; lia]. Qed.

Lemma blen_nonneg : forall b, 0 <= blen b.
Proof. intros; unfold blen, zlen; lia. Qed.

(* the dict constructor on a dict whose arrays are all fresh w.r.t. `base` *)
Lemma ctor_dict_spec : forall s d keep conv exc copy base,
  NoDup (vals d) -> NoDup (keys d) -> (base <= length s)%nat ->
  (forall l, In l (vals d) -> (l < length s)%nat /\ (base <= l)%nat) ->
  match ctor_dict s d keep conv exc copy with
  | (s', Some o', x) => exists ext, s' = s ++ ext /\ obj_inv s' o' /\ (forall l, In l (obj_locs o') -> (base <= l)%nat)
  | (s', None, x) => exists ext, s' = s ++ ext
  end.
Proof.
  intros s d keep conv exc copy base NV NK Hb Hd; unfold ctor_dict.
  destruct (dict_length s d) as [n|] eqn:DL; [|exists []; rewrite app_nil_r; reflexivity].
  assert (Hn : 0 <= n).
  { unfold dict_length in DL. destruct (dict_nonempty (zlen d)); [|inversion DL; lia].
    destruct d as [|[k l] r]; [discriminate|]. destruct (rd s l); [|discriminate]. inversion DL; apply blen_nonneg. }
  assert (Hsrc : forall k l, In (k, l) d -> exists b, rd s l = Some b).
  { intros k l Hi; apply rd_Some_of_lt. apply (in_map snd) in Hi; apply Hd in Hi; tauto. }
  pose proof (ctor_spec s d n keep conv exc copy base Hsrc NV NK Hb (fun _ l Hl => proj2 (Hd l Hl)) (fun _ _ => I)) as S.
  destruct (ctor s d n keep conv exc copy) as [[s' [o'|]] x].
  - destruct S as (_ & ext & S1 & S2 & S3 & S4 & _). exists ext; splits; auto.
  - destruct S as (_ & ext & S1); exists ext; assumption.
Qed.

Lemma lookup_all_fields : forall (a : obj) sub, (forall n l, In (n, l) sub -> assoc n (fields a) = Some l) ->
  lookup_all a (keys sub) = Ok sub.
Proof.
  induction sub as [|[n l] r IH]; intros H; [reflexivity|].
  change (keys ((n, l) :: r)) with (n :: keys r); cbn [lookup_all].
  rewrite (H n l (or_introl eq_refl)). rewrite IH; [reflexivity|]. intros; apply H; right; assumption.
Qed.

Lemma ctor_from_spec : forall s E a keep conv exc, repr s E a -> eqlen E a ->
  match ctor_from s a keep conv exc with
  | (s', Some o', x) =>
      x = Done /\ exists ext, s' = s ++ ext /\ obj_inv s' o' /\ repr s' (Ecanon s' (fields o')) o'
        /\ (forall l, In l (obj_locs o') -> (length s <= l)%nat)
        /\ (forall k l', In (k, l') (fields o') -> col_from s (fields a) (olen a) conv exc s' k l')
        /\ (forall k, In k (keys (fields o')) -> In k (keys (fields a)) /\ match keep with Some kp => mem k kp = true | None => True end)
        /\ oidx o' = None /\ keys (fields o') = filter (keepb keep) (keys (fields a))
  | (s', None, x) => x <> Done /\ exists ext, s' = s ++ ext
  end.
Proof.
  intros s E a keep conv exc R [L0 L1]; unfold ctor_from.
  rewrite (r_fnl _ _ _ R). rewrite lookup_all_fields.
  2:{ intros n l Hi; apply In_assoc; [apply R | assumption]. }
  pose proof (r_locs _ _ _ R) as ND; unfold obj_locs in ND; apply NoDup_app_l in ND.
  apply (ctor_spec s (fields a) (olen a) keep conv exc true (length s)); auto.
  - intros n l Hi; exists (E n); apply (r_cols _ _ _ R); assumption.
  - apply R.
  - intros; discriminate.
Qed.

(* ------------------------------------------------------------ get_selection *)
Lemma sloop_ind : forall (f : name -> (store * list (name * loc)) -> (store * list (name * loc)) * outcome)
    (J : list name -> (store * list (name * loc)) -> Prop) (F : (store * list (name * loc)) -> outcome -> Prop) l st,
  J l st ->
  (forall a r st0, J (a :: r) st0 ->
     match f a st0 with (st', Done) => J r st' | (st', x) => F st' x end) ->
  match sloop f l st with (st', Done) => J [] st' | (st', x) => F st' x end.
Proof.
  induction l as [|a r IH]; intros st HJ Hstep; cbn [sloop]; [assumption|].
  specialize (Hstep a r st HJ) as Hs.
  destruct (f a st) as [st' x]; destruct x; try assumption.
  apply IH; assumption.
Qed.

Definition takebuf (sl : sel) (b : buf) : buf :=
  match np_take (bdata b) sl with Ok vs => mkbuf (bdt b) vs | Err _ => b end.

Lemma sel_dict_spec : forall s E a sl, repr s E a ->
  match sloop (sel_one sl a) (fnl a) (s, []) with
  | ((s', d), x) => exists ext, s' = s ++ ext /\ NoDup (keys d) /\ NoDup (vals d)
      /\ (forall l, In l (vals d) -> (l < length s')%nat /\ (length s <= l)%nat)
      /\ (forall k l, In (k, l) d -> In k (keys (fields a)) /\ rd s' l = Some (takebuf sl (E k))
                                   /\ exists vs, np_take (bdata (E k)) sl = Ok vs)
      /\ (x = Done -> keys d = fnl a)
  end.
Proof.
  intros s E a sl R.
  pose (J := fun (todo : list name) (st : store * list (name * loc)) =>
    exists ext done, fst st = s ++ ext /\ NoDup (keys (snd st)) /\ NoDup (vals (snd st))
      /\ (forall l, In l (vals (snd st)) -> (l < length (fst st))%nat /\ (length s <= l)%nat)
      /\ (forall k l, In (k, l) (snd st) -> In k (keys (fields a)) /\ rd (fst st) l = Some (takebuf sl (E k))
                                   /\ exists vs, np_take (bdata (E k)) sl = Ok vs)
      /\ keys (snd st) = done /\ fnl a = done ++ todo /\ NoDup (done ++ todo)).
  pose (F := fun (st : store * list (name * loc)) (x : outcome) =>
    exists ext, fst st = s ++ ext /\ NoDup (keys (snd st)) /\ NoDup (vals (snd st))
      /\ (forall l, In l (vals (snd st)) -> (l < length (fst st))%nat /\ (length s <= l)%nat)
      /\ (forall k l, In (k, l) (snd st) -> In k (keys (fields a)) /\ rd (fst st) l = Some (takebuf sl (E k))
                                   /\ exists vs, np_take (bdata (E k)) sl = Ok vs)
      /\ x <> Done).
  pose proof (sloop_ind (sel_one sl a) J F (fnl a) (s, [])) as L.
  assert (J0 : J (fnl a) (s, [])).
  { exists [], []; cbn; rewrite app_nil_r; splits; auto; try constructor; try (intros; contradiction).
    rewrite (r_fnl _ _ _ R); apply R. }
  specialize (L J0).
  assert (Hs : forall fn r st0, J (fn :: r) st0 ->
     match sel_one sl a fn st0 with (st', Done) => J r st' | (st', x) => F st' x end).
  { intros fn r [s1 d] (ext & done & A1 & A2 & A3 & A4 & A5 & A6 & A7 & A8); cbn [fst snd] in *; subst s1.
    assert (Hfn : In fn (keys (fields a))).
    { rewrite <- (r_fnl _ _ _ R), A7; apply in_or_app; right; left; reflexivity. }
    destruct (repr_assoc _ _ _ _ R Hfn) as [l [B1 B2]].
    unfold sel_one. rewrite B1. rewrite rd_prefix by (eapply rd_lt; eassumption). rewrite B2.
    assert (Keep : F (s ++ ext, d) (Raised IndexError)) by (exists ext; cbn; splits; auto; discriminate).
    destruct (np_take (bdata (E fn)) sl) as [vs|e] eqn:T.
    2:{ exists ext; cbn; splits; auto; discriminate. }
    cbn [alloc].
    assert (Hnew : ~ In fn (keys d)).
    { rewrite A6. apply NoDup_remove_2 in A8. intros Q; apply A8; apply in_or_app; left; assumption. }
    exists (ext ++ [mkbuf (bdt (E fn)) vs]), (done ++ [fn]); cbn [fst snd]; splits.
    - rewrite app_assoc; reflexivity.
    - apply NoDup_keys_dset; assumption.
    - apply NoDup_vals_dset; [assumption|]. intros Q; apply A4 in Q; lia.
    - intros l0 Hl0; rewrite app_length; cbn. apply vals_dset in Hl0; destruct Hl0 as [->|Hl0].
      + rewrite app_length; lia.
      + apply A4 in Hl0; lia.
    - intros k l0 Hi. apply In_dset in Hi; [|assumption]. destruct Hi as [[-> ->]|[_ Hi]].
      + splits; auto; [|eauto]. rewrite rd_app_new. unfold takebuf; rewrite T; reflexivity.
      + destruct (A5 k l0 Hi) as (Q1 & Q2 & Q3); splits; auto.
        rewrite rd_app_old; [assumption | eapply rd_lt; eassumption].
    - rewrite dset_notin by assumption. unfold keys; rewrite map_app; cbn. fold (keys d). rewrite A6; reflexivity.
    - rewrite A7, <- app_assoc; reflexivity.
    - rewrite <- app_assoc; assumption. }
  specialize (L Hs).
  destruct (sloop (sel_one sl a) (fnl a) (s, [])) as [[s' d] x]; destruct x.
  - destruct L as (ext & done & A1 & A2 & A3 & A4 & A5 & A6 & A7 & A8); cbn [fst snd] in *.
    exists ext; splits; auto. intros _. rewrite A7, app_nil_r; assumption.
  - destruct L as (ext & A1 & A2 & A3 & A4 & A5 & A6); cbn [fst snd] in *. exists ext; splits; auto; intros; congruence.
  - destruct L as (ext & A1 & A2 & A3 & A4 & A5 & A6); cbn [fst snd] in *. exists ext; splits; auto; intros; congruence.
Qed.

Lemma get_selection_inv : forall s a sl, obj_inv s a ->
  match get_selection s a sl with
  | (s', Some o', x) => exists ext, s' = s ++ ext /\ obj_inv s' o' /\ (forall l, In l (obj_locs o') -> (length s <= l)%nat)
  | (s', None, x) => exists ext, s' = s ++ ext
  end.
Proof.
  intros s a sl (E & R & L); unfold get_selection.
  pose proof (sel_dict_spec s E a sl R) as S.
  destruct (sloop (sel_one sl a) (fnl a) (s, [])) as [[s1 d] x].
  destruct S as (ext & S1 & S2 & S3 & S4 & S5 & S6).
  destruct x; try (exists ext; assumption).
  pose proof (ctor_dict_spec s1 d None [] [] false (length s) S3 S2) as C.
  assert (Hb : (length s <= length s1)%nat) by (subst s1; rewrite app_length; lia).
  specialize (C Hb S4).
  destruct (ctor_dict s1 d None [] [] false) as [[s2 [o'|]] x2].
  - destruct C as (e2 & C1 & C2 & C3). exists (ext ++ e2); splits; auto. subst; rewrite app_assoc; reflexivity.
  - destruct C as (e2 & C1). exists (ext ++ e2). subst; rewrite app_assoc; reflexivity.
Qed.

(* ------------------------------------------------------------ one step *)
Lemma compat_self : forall s E o, repr s E o -> compat o o.
Proof.
  intros s E o R n l2 m l1 A1 A2 Hne ->.
  pose proof (r_locs _ _ _ R) as ND; unfold obj_locs in ND; apply NoDup_app_l in ND.
  apply assoc_In in A1; apply assoc_In in A2.
  clear - ND A1 A2 Hne. unfold vals in ND. induction (fields o) as [|[k w] r IH]; [contradiction|].
  cbn in ND; inversion ND; subst. destruct A1 as [A1|A1]; destruct A2 as [A2|A2].
  - congruence.
  - inversion A1; subst; apply H1; apply (in_map snd) in A2; exact A2.
  - inversion A2; subst; apply H1; apply (in_map snd) in A1; exact A1.
  - apply IH; assumption.
Qed.

Lemma compat_disj : forall o a, (forall l, In l (obj_locs o) -> ~ In l (obj_locs a)) -> compat o a.
Proof.
  intros o a H n l2 m l1 A1 A2 _ ->.
  apply assoc_In in A1; apply assoc_In in A2. apply (in_map snd) in A1; apply (in_map snd) in A2.
  apply (H l2); unfold obj_locs; apply in_or_app; left; assumption.
Qed.

Lemma step_spec : forall w p, winv w -> op_wf p ->
  winv (fst (step w p)) /\ wframe w (target p) (fst (step w p)).
Proof.
  intros w p W WF.
  assert (Same : forall tg, winv w /\ wframe w tg w).
  { intros tg; split; [assumption|]. intros j oj Hj _; split; [assumption | reflexivity]. }
  assert (Ext : forall tg ext, winv (mkworld (wstore w ++ ext) (wobjs w)) /\ wframe w tg (mkworld (wstore w ++ ext) (wobjs w))).
  { intros; apply ext_inv; assumption. }
  pose proof W as [WI WD].
  destruct p; cbn [step target]; unfold on1.
  - (* OCtor *)
    assert (Hnil : forall l : loc, In l (vals (@nil (name * loc))) -> (l < length (wstore w))%nat) by (intros l []).
    pose proof (alloc_cols_spec cols (wstore w) (@nil (name * loc)) (NoDup_nil _) (NoDup_nil _) Hnil) as A.
    destruct (alloc_cols (wstore w) cols []) as [s1 d]. destruct A as (e1 & A1 & A2 & A3 & A4).
    assert (Hd : forall l, In l (vals d) -> (l < length s1)%nat /\ (length (wstore w) <= l)%nat).
    { intros l Hl; destruct (A4 l Hl) as [Q1 [[]|Q2]]; split; assumption. }
    assert (Hb : (length (wstore w) <= length s1)%nat) by (subst s1; rewrite app_length; lia).
    pose proof (ctor_dict_spec s1 d keep conv exc copy (length (wstore w)) A3 A2 Hb Hd) as C.
    destruct (ctor_dict s1 d keep conv exc copy) as [[s2 [o'|]] x]; cbn [new_obj fst].
    + destruct C as (e2 & C1 & C2 & C3). subst s2 s1. rewrite <- app_assoc in *. apply push_inv; assumption.
    + destruct C as (e2 & C1). subst s2 s1. rewrite <- app_assoc. apply Ext.
  - (* OCtorFrom *)
    destruct (nth_error (wobjs w) src) as [a|] eqn:Ha; [|apply Same].
    destruct (WI _ _ Ha) as (E & R & L).
    pose proof (ctor_from_spec (wstore w) E a keep conv exc R L) as C.
    destruct (ctor_from (wstore w) a keep conv exc) as [[s2 [o'|]] x]; cbn [new_obj fst].
    + destruct C as (_ & e2 & C1 & C2 & _ & C3 & _). subst s2. apply push_inv; assumption.
    + destruct C as (_ & e2 & C1). subst s2. apply Ext.
  - (* OSelect *)
    destruct (nth_error (wobjs w) src) as [a|] eqn:Ha; [|apply Same].
    pose proof (get_selection_inv (wstore w) a sl (WI _ _ Ha)) as C.
    destruct (get_selection (wstore w) a sl) as [[s2 [o'|]] x]; cbn [new_obj fst].
    + destruct C as (e2 & C1 & C2 & C3). subst s2. apply push_inv; assumption.
    + destruct C as (e2 & C1). subst s2. apply Ext.
  - (* OSetSel *)
    destruct (nth_error (wobjs w) t) as [o|] eqn:Ho; [|apply Same].
    destruct (nth_error (wobjs w) src) as [a|] eqn:Ha; [|apply Same].
    assert (Hc : compat o a).
    { destruct (Nat.eq_dec t src) as [->|Hne].
      - rewrite Ho in Ha; inversion Ha; subst a. destruct (WI _ _ Ho) as (E & R & _). eapply compat_self; eassumption.
      - apply compat_disj. intros l Hl. eapply (WD t src); eassumption. }
    pose proof (set_selection_inv (wstore w) o a sl (WI _ _ Ho) (WI _ _ Ha) Hc) as S.
    destruct (set_selection (wstore w) o a sl) as [[s' o'] x]; cbn [put_obj fst]. destruct S; eapply put_inv; eassumption.
  - (* OAppend *)
    destruct (nth_error (wobjs w) t) as [o|] eqn:Ho; [|apply Same].
    destruct (nth_error (wobjs w) src) as [a|] eqn:Ha; [|apply Same].
    pose proof (append_inv (wstore w) o a (WI _ _ Ho) (WI _ _ Ha)) as S.
    destruct (append (wstore w) o a) as [[s' o'] x]; cbn [put_obj fst]. destruct S; eapply put_inv; eassumption.
  - (* OAppendField *)
    destruct (nth_error (wobjs w) t) as [o|] eqn:Ho; [|apply Same].
    destruct (WI _ _ Ho) as (E & R & L). cbn [alloc].
    pose proof (append_field_spec (wstore w) E o n b R) as S.
    destruct (repr_extend (wstore w) E o [b] R) as [Rx Fx].
    destruct (append_field (wstore w ++ [b]) o n (length (wstore w))) as [[s' o'] x]; cbn [put_obj fst]; destruct x.
    + destruct S as (S1 & S2 & S3 & S4 & S5 & S6 & S7). eapply put_inv; try eassumption.
      eexists; split; [exact S2|]. destruct L as [L0 L1]; split; [lia|].
      intros k Hk; rewrite S4 in Hk; rewrite S7; unfold upd. apply in_app_or in Hk.
      destruct (k =? n) eqn:Q; [assumption|]. destruct Hk as [Hk|[Hk|[]]]; [apply L1; assumption|].
      apply Z.eqb_neq in Q; congruence.
    + destruct S as [-> ->]. eapply put_inv; try eassumption. exists E; split; assumption.
    + destruct S as [-> ->]. eapply put_inv; try eassumption. exists E; split; assumption.
  - (* OSetItem *)
    destruct (nth_error (wobjs w) t) as [o|] eqn:Ho; [|apply Same].
    destruct (WI _ _ Ho) as (E & R & L). cbn [alloc].
    pose proof (setitem_spec (wstore w) E o n b R) as S.
    destruct (repr_extend (wstore w) E o [b] R) as [Rx Fx].
    destruct (setitem (wstore w ++ [b]) o n (length (wstore w))) as [[s' o'] x]; cbn [put_obj fst]; destruct x.
    + destruct S as (S1 & S2 & S3 & S4 & S5 & S6). eapply put_inv; try eassumption.
      eexists; split; [exact S2|]. destruct L as [L0 L1]; split; [lia|].
      intros k Hk; apply S4 in Hk; rewrite S6; unfold upd.
      destruct (k =? n) eqn:Q; [assumption|]. destruct Hk as [Hk|Hk]; [apply L1; assumption|].
      apply Z.eqb_neq in Q; congruence.
    + destruct S as [-> ->]. eapply put_inv; try eassumption. exists E; split; assumption.
    + destruct S as [-> ->]. eapply put_inv; try eassumption. exists E; split; assumption.
  - (* ORemove *)
    destruct (nth_error (wobjs w) t) as [o|] eqn:Ho; [|apply Same].
    destruct (WI _ _ Ho) as (E & R & L).
    pose proof (remove_field_spec (wstore w) E o n R) as S.
    destruct (remove_field (wstore w) o n) as [[s' o'] x]; cbn [put_obj fst]; destruct x.
    + destruct S as (S1 & S2 & S3 & S4 & S5 & S6). subst s'. eapply put_inv; try eassumption.
      exists E; split; [assumption|]. destruct L as [L0 L1]; split; [lia|].
      intros k Hk; rewrite S6; apply L1. rewrite S5 in Hk; eapply lremove_incl; eassumption.
    + destruct S as [-> ->]. eapply put_inv; try eassumption; [apply frame_refl | exists E; split; assumption].
    + destruct S as [-> ->]. eapply put_inv; try eassumption; [apply frame_refl | exists E; split; assumption].
  - (* ORename *)
    destruct (nth_error (wobjs w) t) as [o|] eqn:Ho; [|apply Same].
    pose proof (rename_fields_inv (wstore w) o conv must (WI _ _ Ho) WF) as S.
    destruct (rename_fields (wstore w) o conv must) as [[s' o'] x]; cbn [put_obj fst].
    destruct S as (S1 & S2 & S3 & S4). eapply put_inv; eassumption.
  - (* OTidy *)
    destruct (nth_error (wobjs w) t) as [o|] eqn:Ho; [|apply Same].
    destruct (WI _ _ Ho) as (E & R & L).
    pose proof (tidy_up_spec (wstore w) E o keep R) as S.
    destruct (tidy_up (wstore w) o keep) as [[s' o'] x]; cbn [put_obj fst].
    destruct S as (S1 & S2 & S3 & S4 & S5 & S6). subst s'. eapply put_inv; try eassumption.
    exists E; split; [assumption|]. destruct L as [L0 L1]; split; [lia|].
    intros k Hk; rewrite S4; apply L1; apply S5; assumption.
  - (* OSort *)
    destruct (nth_error (wobjs w) t) as [o|] eqn:Ho; [|apply Same].
    pose proof (sort_inv (wstore w) o n perm (WI _ _ Ho)) as S.
    destruct (sort_by_field (wstore w) o n perm) as [[s' o'] x]; cbn [put_obj fst]. destruct S; eapply put_inv; eassumption.
  - (* OConvert *)
    destruct (nth_error (wobjs w) t) as [o|] eqn:Ho; [|apply Same].
    pose proof (convert_inv (wstore w) o conv exc (WI _ _ Ho)) as S.
    destruct (convert_dtypes (wstore w) o conv exc) as [[s' o'] x]; cbn [put_obj fst]. destruct S; eapply put_inv; eassumption.
  - (* OSetDtype *)
    destruct (nth_error (wobjs w) t) as [o|] eqn:Ho; [|apply Same].
    pose proof (set_field_dtype_inv (wstore w) o n dt (WI _ _ Ho)) as S.
    destruct (set_field_dtype (wstore w) o n dt) as [[s' o'] x]; cbn [put_obj fst]. destruct S; eapply put_inv; eassumption.
  - (* OIndices *)
    destruct (nth_error (wobjs w) t) as [o|] eqn:Ho; [|apply Same].
    destruct (WI _ _ Ho) as (E & R & L).
    pose proof (get_indices_spec (wstore w) E o R (proj1 L)) as S.
    destruct (get_indices (wstore w) o) as [[s' o'] x]; cbn [put_obj fst].
    destruct S as (S1 & S2 & S3 & S4 & S5 & S6). eapply put_inv; try eassumption.
    exists E; split; [assumption|]. destruct L as [L0 L1]; split; [lia|]. rewrite S4, S5; assumption.
  - destruct WF.
Qed.

(* ------------------------------------------------------------ all op sequences *)
Lemma winv_empty : winv empty_world.
Proof. split; intros i; intros; destruct i; discriminate. Qed.

Lemma run_inv : forall ops w, winv w -> Forall op_wf ops -> winv (run w ops).
Proof.
  induction ops as [|p r IH]; intros w W F; cbn [run]; [assumption|].
  inversion F; subst. apply IH; [apply step_spec; assumption | assumption].
Qed.

Lemma obs_obj_frame : forall s s' o, (forall l, In l (obj_locs o) -> rd s' l = rd s l) -> obs_obj s' o = obs_obj s o.
Proof.
  intros s s' o H; unfold obs_obj. f_equal; [f_equal; f_equal|].
  - apply map_ext_in; intros [n l] Hi; unfold obs_col; cbn [fst snd]. rewrite H; [reflexivity|].
    unfold obj_locs; apply in_or_app; left; apply (in_map snd) in Hi; exact Hi.
  - destruct (oidx o) as [li|] eqn:Q; [|reflexivity]. rewrite H; [reflexivity|].
    unfold obj_locs; rewrite Q; apply in_or_app; right; left; reflexivity.
Qed.
