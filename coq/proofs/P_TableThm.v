(* C16 — the public statements, derived from the world invariant. *)
From Coq Require Import ZArith List Bool Lia Arith.
From Sky Require Import Result PyList G_table M_Table S_Table P_TableBase P_TableOps P_TableOps2 P_TableOps3 P_TableCtor P_Table P_TableRefine.
Import ListNotations.
Open Scope Z_scope.

Lemma inv_all_sequences : forall ops, Forall op_wf ops ->
  let w := run empty_world ops in
  forall i o, nth_error (wobjs w) i = Some o ->
    NoDup (keys (fields o))
    /\ fnl o = keys (fields o)
    /\ 0 <= olen o
    /\ (forall n l, In (n, l) (fields o) -> exists b, rd (wstore w) l = Some b /\ zlen (bdata b) = olen o)
    /\ match oidx o with
       | None => True
       | Some li => exists b, rd (wstore w) li = Some b /\ bdata b = arange (Z.to_nat (olen o))
       end.
Proof.
  intros ops F w i o Hi. destruct (run_inv ops empty_world winv_empty F) as [WI _].
  destruct (WI i o Hi) as (E & R & L0 & L1). splits.
  - apply R.
  - apply R.
  - assumption.
  - intros n l Hin. exists (E n); split; [apply (r_cols _ _ _ R); assumption|].
    apply (L1 n). apply (in_map fst) in Hin; exact Hin.
  - exact (r_idx _ _ _ R).
Qed.

Lemma fresh_all_sequences : forall ops, Forall op_wf ops ->
  let w := run empty_world ops in
  (forall i o, nth_error (wobjs w) i = Some o -> NoDup (obj_locs o))
  /\ (forall i j oi oj, i <> j -> nth_error (wobjs w) i = Some oi -> nth_error (wobjs w) j = Some oj ->
        forall l, In l (obj_locs oi) -> ~ In l (obj_locs oj)).
Proof.
  intros ops F w. destruct (run_inv ops empty_world winv_empty F) as [WI WD]. split; [|exact WD].
  intros i o Hi. destruct (WI i o Hi) as (E & R & _). apply R.
Qed.

Lemma writes_do_not_cross : forall ops p, Forall op_wf ops -> op_wf p ->
  let w := run empty_world ops in
  let w' := fst (step w p) in
  forall j oj, nth_error (wobjs w) j = Some oj -> target p <> Some j ->
    nth_error (wobjs w') j = Some oj /\ obs_obj (wstore w') oj = obs_obj (wstore w) oj.
Proof.
  intros ops p F Fp w w' j oj Hj Ht.
  destruct (step_spec w p (run_inv ops empty_world winv_empty F) Fp) as [_ WF].
  destruct (WF j oj Hj Ht) as [Q1 Q2]. split; [assumption | apply obs_obj_frame; assumption].
Qed.


Lemma failed_append_unchanged : forall s E o Ea a s' o' e,
  repr s E o -> repr s Ea a -> append s o a = ((s', o'), Raised e) -> s' = s /\ o' = o.
Proof.
  intros s E o Ea a s' o' e R Ra H. pose proof (append_spec s E o Ea a R Ra) as S. rewrite H in S.
  destruct S as (A & B & _); split; assumption.
Qed.

Lemma failed_simple_ops_unchanged : forall s E o, repr s E o ->
  (forall n e s' o', remove_field s o n = ((s', o'), Raised e) -> s' = s /\ o' = o)
  /\ (forall n b e s' o', append_field (s ++ [b]) o n (length s) = ((s', o'), Raised e) -> s' = s ++ [b] /\ o' = o)
  /\ (forall n b e s' o', setitem (s ++ [b]) o n (length s) = ((s', o'), Raised e) -> s' = s ++ [b] /\ o' = o)
  /\ (forall n dt e s' o', set_field_dtype s o n dt = ((s', o'), Raised e) -> s' = s /\ o' = o).
Proof.
  intros s E o R; splits.
  - intros n e s' o' H. pose proof (remove_field_spec s E o n R) as S. rewrite H in S. exact S.
  - intros n b e s' o' H. pose proof (append_field_spec s E o n b R) as S. rewrite H in S. exact S.
  - intros n b e s' o' H. pose proof (setitem_spec s E o n b R) as S. rewrite H in S. exact S.
  - intros n dt e s' o' H. pose proof (set_field_dtype_spec s E o n dt R) as S. rewrite H in S. exact S.
Qed.
