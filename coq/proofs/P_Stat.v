(* Proofs for C12, part 1: characterising lemmas of the regenerated kernels
   (the K_ lemmas), pmm lookup, keyword binding, the counting p-values and the _mixed
   dispatch.  Everything here is over Z / lists (no axioms). *)
From Coq Require Import ZArith List Bool Lia QArith.
From Sky Require Import Result PyList Num G_stat M_Stat S_Stat.
Import ListNotations.
Open Scope Z_scope.

(* ------------------------------------------------------------------ K: index / plumbing kernels *)
Lemma K_ts_wilks_ns_idx0 i : ts_wilks_ns_idx0 i = i. Proof. reflexivity. Qed.
Lemma K_ts_taylor_ns_idx0 i : ts_taylor_ns_idx0 i = i. Proof. reflexivity. Qed.
Lemma K_ts_taylor_nsgrad_idx0 i : ts_taylor_nsgrad_idx0 i = i. Proof. reflexivity. Qed.
Lemma K_ts_taylor_call_ns {T} (N : Num T) x : ts_taylor_call_ns N x = x. Proof. reflexivity. Qed.
Lemma K_ts_taylor_call_ns_pidx i : ts_taylor_call_ns_pidx i = i. Proof. reflexivity. Qed.
Lemma K_ts_taylor_call_src x : ts_taylor_call_src x = x. Proof. reflexivity. Qed.
Lemma K_ts_taylor_call_tl x : ts_taylor_call_tl x = x. Proof. reflexivity. Qed.
Lemma K_ts_taylor_src_gflp x : ts_taylor_src_gflp x = x. Proof. reflexivity. Qed.
Lemma K_ana_fwd_pmm x : ana_fwd_pmm x = x. Proof. reflexivity. Qed.
Lemma K_ana_fwd_log_lambda x : ana_fwd_log_lambda x = x. Proof. reflexivity. Qed.
Lemma K_ana_fwd_fitparam_values x : ana_fwd_fitparam_values x = x. Proof. reflexivity. Qed.

Lemma K_pval_gt_mask x t : pval_gt_mask x t = true <-> t < x.
Proof. unfold pval_gt_mask. rewrite Z.gtb_lt. tauto. Qed.
Lemma K_pval_ge_mask x t : pval_ge_mask x t = true <-> t <= x.
Proof. unfold pval_ge_mask. rewrite Z.geb_le. tauto. Qed.

Lemma K_mixed_eta_default s : mixed_eta_default s = s. Proof. reflexivity. Qed.
Lemma K_mixed_below t s : mixed_below t s = true <-> t < s.
Proof. unfold mixed_below. apply Z.ltb_lt. Qed.
Lemma K_mixed_trials_arg_vals x : mixed_trials_arg_vals x = x. Proof. reflexivity. Qed.
Lemma K_mixed_trials_arg_thr x : mixed_trials_arg_thr x = x. Proof. reflexivity. Qed.
Lemma K_mixed_trials_arg_op x : mixed_trials_arg_op x = x. Proof. reflexivity. Qed.
Lemma K_mixed_gamma_arg_vals x : mixed_gamma_arg_vals x = x. Proof. reflexivity. Qed.
Lemma K_mixed_gamma_arg_thr x : mixed_gamma_arg_thr x = x. Proof. reflexivity. Qed.
Lemma K_mixed_gamma_arg_eta x : mixed_gamma_arg_eta x = x. Proof. reflexivity. Qed.
Lemma K_mixed_gamma_arg_nmax x : mixed_gamma_arg_nmax x = x. Proof. reflexivity. Qed.

Lemma K_poly_fallback_idx : poly_fallback_idx = 0. Proof. reflexivity. Qed.
Lemma K_poly_fallback_deg : poly_fallback_deg = 1. Proof. reflexivity. Qed.
Lemma K_poly_fallback_base x : poly_fallback_base x = x. Proof. reflexivity. Qed.
Lemma K_poly_is1 d : poly_is1 d = true <-> d = 1. Proof. unfold poly_is1. apply Z.eqb_eq. Qed.
Lemma K_poly_is2 d : poly_is2 d = true <-> d = 2. Proof. unfold poly_is2. apply Z.eqb_eq. Qed.
Lemma K_poly1_idx : poly1_a_idx = 0 /\ poly1_b_idx = 1. Proof. split; reflexivity. Qed.
Lemma K_poly2_idx : poly2_a_idx = 0 /\ poly2_b_idx = 1 /\ poly2_c_idx = 2.
Proof. repeat split; reflexivity. Qed.
Lemma K_poly_bases x :
  poly1_a_base x = x /\ poly1_b_base x = x /\ poly2_a_base x = x /\ poly2_b_base x = x /\ poly2_c_base x = x.
Proof. repeat split; reflexivity. Qed.


(* ------------------------------------------------------------------ pmm lookup *)
Lemma find_idx_bounds nm names : forall i j,
  find_idx nm names i = Ok j -> i <= j < i + zlen names.
Proof.
  unfold zlen. induction names as [|x r IH]; intros i j H; cbn [find_idx] in H.
  - discriminate.
  - destruct (x =? nm) eqn:E.
    + inversion H; subst. cbn [length]. lia.
    + apply IH in H. cbn [length]. lia.
Qed.

Lemma find_idx_nth nm names : forall i j,
  find_idx nm names i = Ok j -> nth_error names (Z.to_nat (j - i)) = Some nm.
Proof.
  induction names as [|x r IH]; intros i j H; cbn [find_idx] in H.
  - discriminate.
  - destruct (x =? nm) eqn:E.
    + inversion H; subst. apply Z.eqb_eq in E. subst. replace (j - j) with 0 by lia. reflexivity.
    + pose proof (find_idx_bounds _ _ _ _ H) as B. apply IH in H.
      replace (Z.to_nat (j - i)) with (S (Z.to_nat (j - (i + 1)))) by lia. exact H.
Qed.

Lemma find_idx_err nm names : forall i e,
  find_idx nm names i = Err e -> e = KeyError /\ ~ In nm names.
Proof.
  induction names as [|x r IH]; intros i e H; cbn [find_idx] in H.
  - inversion H. split; [reflexivity | intros []].
  - destruct (x =? nm) eqn:E; [discriminate|].
    apply IH in H. destruct H as [H1 H2]. split; [exact H1|].
    intros [Hx|Hx]; [apply Z.eqb_neq in E; congruence | tauto].
Qed.

Lemma get_gflp_idx_bounds floating nm i :
  get_gflp_idx floating nm = Ok i -> 0 <= i < zlen floating.
Proof. unfold get_gflp_idx. intros H. apply find_idx_bounds in H. lia. Qed.

Lemma get_gflp_idx_In floating nm : In nm floating -> exists i, get_gflp_idx floating nm = Ok i.
Proof.
  unfold get_gflp_idx. intros HIn. destruct (find_idx nm floating 0) as [i|e] eqn:E.
  - eauto.
  - apply find_idx_err in E. tauto.
Qed.

Lemma py_get_ok {A} (l : list A) i : 0 <= i < zlen l -> exists a, py_get l i = Ok a.
Proof.
  unfold py_get, zlen. intros H.
  destruct (i <? 0) eqn:E1; [lia|].
  destruct ((i <? 0) || (Z.of_nat (length l) <=? i)) eqn:E2.
  - apply orb_true_iff in E2. destruct E2 as [E2|E2]; lia.
  - destruct (nth_error l (Z.to_nat i)) as [a|] eqn:E3; [eauto|].
    apply nth_error_None in E3. lia.
Qed.

(* ------------------------------------------------------------------ keyword binding *)
Lemma real_sigs_accept_current_call :
  forall sg, In sg real_sigs -> bind_ok sg taylor_call_kws = true.
Proof.
  intros sg H. cbn [real_sigs In] in H.
  repeat (destruct H as [H|H]; [subst; vm_compute; reflexivity|]). destruct H.
Qed.

Lemma real_sigs_reject_old_call :
  forall sg, In sg real_sigs -> bind_ok sg taylor_call_kws_b047c50_before = false.
Proof.
  intros sg H. cbn [real_sigs In] in H.
  repeat (destruct H as [H|H]; [subst; vm_compute; reflexivity|]). destruct H.
Qed.

(* ------------------------------------------------------------------ counting *)
Lemma count_if_spec f ts t : count_if f ts t = count_spec (fun x => f x t) ts.
Proof.
  unfold count_if, zlen. induction ts as [|x r IH]; cbn [filter count_spec].
  - reflexivity.
  - destruct (f x t); cbn [length]; lia.
Qed.

Lemma count_spec_ext P Q l : (forall x, P x = Q x) -> count_spec P l = count_spec Q l.
Proof. intros H. induction l as [|x r IH]; cbn [count_spec]; [reflexivity|]. rewrite H, IH. reflexivity. Qed.

Lemma count_spec_range P l : 0 <= count_spec P l <= zlen l.
Proof.
  unfold zlen. induction l as [|x r IH]; cbn [count_spec length]; [lia|].
  destruct (P x); lia.
Qed.

Lemma count_spec_le P Q l : (forall x, P x = true -> Q x = true) -> count_spec P l <= count_spec Q l.
Proof.
  intros H. induction l as [|x r IH]; cbn [count_spec]; [lia|].
  destruct (P x) eqn:EP; [rewrite (H x EP); lia|]. destruct (Q x); lia.
Qed.

Lemma count_gt_spec ts t : count_if pval_gt_mask ts t = n_greater ts t.
Proof.
  rewrite count_if_spec. apply count_spec_ext. intros x.
  destruct (pval_gt_mask x t) eqn:E.
  - apply K_pval_gt_mask in E. symmetry. apply Z.ltb_lt. exact E.
  - symmetry. apply Z.ltb_ge. destruct (Z.lt_ge_cases t x) as [H|H]; [|lia].
    apply K_pval_gt_mask in H. congruence.
Qed.

Lemma count_ge_spec ts t : count_if pval_ge_mask ts t = n_greater_equal ts t.
Proof.
  rewrite count_if_spec. apply count_spec_ext. intros x.
  destruct (pval_ge_mask x t) eqn:E.
  - apply K_pval_ge_mask in E. symmetry. apply Z.leb_le. exact E.
  - symmetry. apply Z.leb_gt. destruct (Z.le_gt_cases t x) as [H|H]; [|lia].
    apply K_pval_ge_mask in H. congruence.
Qed.

(* what pval_counts returns, for every input *)
Lemma pval_counts_char op ts t :
  pval_counts op ts t =
    match op with
    | OtherOp => Err ValueError
    | Greater => if zlen ts =? 0 then Err ZeroDivision else Ok (n_greater ts t, zlen ts)
    | GreaterEqual => if zlen ts =? 0 then Err ZeroDivision else Ok (n_greater_equal ts t, zlen ts)
    end.
Proof.
  destruct op; cbn [pval_counts]; unfold py_truediv_ints;
    rewrite ?count_gt_spec, ?count_ge_spec; reflexivity.
Qed.

Lemma zlen_pos_iff {A} (l : list A) : (zlen l =? 0) = false <-> l <> [].
Proof.
  unfold zlen. destruct l as [|a l]; cbn [length]; split; intros H.
  - cbn in H. discriminate.
  - congruence.
  - discriminate.
  - apply Z.eqb_neq. lia.
Qed.

(* range *)
Lemma pval_counts_range op ts t k n :
  pval_counts op ts t = Ok (k, n) -> 0 <= k <= n /\ 0 < n /\ n = zlen ts.
Proof.
  rewrite pval_counts_char. destruct op; try discriminate;
    destruct (zlen ts =? 0) eqn:E; try discriminate; intros H; inversion H; subst;
    apply Z.eqb_neq in E; unfold n_greater, n_greater_equal.
  - pose proof (count_spec_range (fun x => t <? x) ts). unfold zlen in *. lia.
  - pose proof (count_spec_range (fun x => t <=? x) ts). unfold zlen in *. lia.
Qed.

(* defined exactly for a non-empty sample and a valid operator *)
Lemma pval_counts_ok op ts t :
  ts <> [] -> op <> OtherOp -> exists k, pval_counts op ts t = Ok (k, zlen ts).
Proof.
  intros Hne Hop. rewrite pval_counts_char. apply zlen_pos_iff in Hne.
  destruct op; try congruence; rewrite Hne; eauto.
Qed.

(* monotone in the threshold *)
Lemma n_greater_mono ts t t' : t <= t' -> n_greater ts t' <= n_greater ts t.
Proof. intros H. apply count_spec_le. intros x Hx. apply Z.ltb_lt in Hx. apply Z.ltb_lt. lia. Qed.
Lemma n_greater_equal_mono ts t t' : t <= t' -> n_greater_equal ts t' <= n_greater_equal ts t.
Proof. intros H. apply count_spec_le. intros x Hx. apply Z.leb_le in Hx. apply Z.leb_le. lia. Qed.
(* inclusive >= strict; and the strict count at t dominates the inclusive one at any t' > t *)
Lemma n_ge_gt ts t : n_greater ts t <= n_greater_equal ts t.
Proof. apply count_spec_le. intros x Hx. apply Z.ltb_lt in Hx. apply Z.leb_le. lia. Qed.
Lemma n_gt_ge_next ts t t' : t < t' -> n_greater_equal ts t' <= n_greater ts t.
Proof. intros H. apply count_spec_le. intros x Hx. apply Z.leb_le in Hx. apply Z.ltb_lt. lia. Qed.

(* the inclusive count exceeds the strict one exactly by the ties *)
Lemma n_ge_gt_ties ts t :
  n_greater_equal ts t = n_greater ts t + count_spec (fun x => x =? t) ts.
Proof.
  unfold n_greater_equal, n_greater. induction ts as [|x r IH]; cbn [count_spec]; [reflexivity|].
  rewrite IH. destruct (t <=? x) eqn:E1, (t <? x) eqn:E2, (x =? t) eqn:E3; lia.
Qed.

Lemma pval_mono op ts t t' k k' n n' :
  t <= t' -> pval_counts op ts t = Ok (k, n) -> pval_counts op ts t' = Ok (k', n') ->
  n' = n /\ k' <= k.
Proof.
  intros Ht. rewrite !pval_counts_char. destruct op; try discriminate;
    destruct (zlen ts =? 0); try discriminate; intros H1 H2; inversion H1; inversion H2; subst;
    split; auto using n_greater_mono, n_greater_equal_mono.
Qed.

Lemma pval_ge_gt ts t k n k' n' :
  pval_counts Greater ts t = Ok (k, n) -> pval_counts GreaterEqual ts t = Ok (k', n') ->
  n' = n /\ k <= k'.
Proof.
  rewrite !pval_counts_char. destruct (zlen ts =? 0); try discriminate.
  intros H1 H2; inversion H1; inversion H2; subst. split; auto using n_ge_gt.
Qed.

(* rational view *)
Lemma frac_range k n : 0 <= k <= n -> 0 < n -> (0 <= frac k n /\ frac k n <= 1)%Q.
Proof.
  intros Hk Hn. unfold frac, Qle. cbn [Qnum Qden].
  rewrite Z2Pos.id by lia. lia.
Qed.
Lemma frac_le k k' n : 0 < n -> k' <= k -> (frac k' n <= frac k n)%Q.
Proof.
  intros Hn Hk. unfold frac, Qle. cbn [Qnum Qden]. rewrite Z2Pos.id by lia. nia.
Qed.

(* ------------------------------------------------------------------ _mixed *)
Lemma pval_mixed_char op ts t s eta nmax :
  pval_mixed op ts t s eta nmax =
    if t <? s then
      match pval_counts op ts t with
      | Ok (k, n) => Ok (ByTrials k n)
      | Err e => Err e
      end
    else Ok (ByGammaFit t (match eta with Some e => e | None => s end) nmax).
Proof.
  unfold pval_mixed. rewrite K_mixed_trials_arg_thr, K_mixed_gamma_arg_thr, K_mixed_gamma_arg_eta,
    K_mixed_gamma_arg_nmax, K_mixed_eta_default.
  assert (Hb : mixed_below t s = (t <? s)).
  { destruct (mixed_below t s) eqn:E1, (t <? s) eqn:E2; try reflexivity.
    - apply K_mixed_below in E1. apply Z.ltb_ge in E2. lia.
    - apply Z.ltb_lt, K_mixed_below in E2. congruence. }
  rewrite Hb. destruct (t <? s); [|reflexivity].
  destruct (pval_counts op ts t) as [[k n]|e]; reflexivity.
Qed.
