(* C03: the a_jk table of SrcDetSigYieldWeightsService.calculate on ALL inputs:
   broadcast yields, the error kinds, and that no np.empty cell is ever left unwritten. *)
From Coq Require Import Reals ZArith List Bool Lra Lia Permutation Arith.
From Sky Require Import Result PyList Num NumR G_weights M_Weights S_Llh S_Weights
     P_WeightsBase P_Weights P_Stacked P_WeightsComp.
Import ListNotations.
Open Scope Z_scope.

Section Tbl.
  Variable erfR : R -> R.
  Notation Nm := (RNum erfR).

  (* ---- broadcasting: a single yield value behaves like the repeated array *)
  Lemma map_combine_repeat {A B C} (k : A -> B -> C) (W : list A) (y : B) :
    map (fun p => k (fst p) (snd p)) (combine W (repeat y (length W))) = map (fun w => k w y) W.
  Proof. induction W as [|w W IH]; [reflexivity|]. cbn [length repeat combine map fst snd]. now rewrite IH. Qed.

  Lemma bmul_bcast W Y Y' : bcast (length W) Y = Some Y' -> bmul Nm W Y = bmul Nm W Y'.
  Proof.
    unfold bcast. destruct (Nat.eqb (length Y) (length W)) eqn:E.
    - intros H; inversion H; reflexivity.
    - destruct Y as [|y [|y2 Y]]; try discriminate. intros H; inversion H; subst Y'. clear H.
      unfold bmul. rewrite repeat_length, Nat.eqb_refl.
      cbn [length] in *. rewrite (Nat.eqb_sym (length W) 1), E.
      f_equal. symmetry. apply (map_combine_repeat (w_a_jk Nm)).
  Qed.

  Lemma bcast_length n Y Y' : bcast n Y = Some Y' -> length Y' = n.
  Proof.
    unfold bcast. destruct (Nat.eqb (length Y) n) eqn:E.
    - intros H; inversion H; subst. now apply Nat.eqb_eq.
    - destruct Y as [|y [|y2 Y]]; try discriminate. intros H; inversion H. apply repeat_length.
  Qed.

  Lemma calc_ds_length lo hi W : forall tbl Ycol tbl',
    calc_ds Nm lo hi W Ycol tbl = Ok tbl' -> length tbl' = length tbl.
  Proof.
    induction tbl as [|row tbl IH]; intros Ycol tbl' H; cbn [calc_ds] in H.
    - inversion H. reflexivity.
    - destruct Ycol as [|Yg Ycol]; [discriminate|].
      destruct (bmul Nm W Yg); [|discriminate]. cbn [bind] in H.
      destruct (set_slice row lo hi l); [|discriminate]. cbn [bind] in H.
      destruct (calc_ds Nm lo hi W Ycol tbl) eqn:E; [|discriminate]. cbn [bind] in H.
      inversion H. cbn [length]. f_equal. eapply IH. exact E.
  Qed.

  Lemma calc_ds_bcast lo hi W : forall tbl Ycol Ycol',
    bcast_col (length W) (length tbl) Ycol = Some Ycol' ->
    calc_ds Nm lo hi W Ycol tbl = calc_ds Nm lo hi W Ycol' tbl.
  Proof.
    induction tbl as [|row tbl IH]; intros Ycol Ycol' H; [reflexivity|].
    cbn [length bcast_col] in H. destruct Ycol as [|Yg Ycol]; [discriminate|].
    destruct (bcast (length W) Yg) as [Y'|] eqn:EB; [|discriminate].
    destruct (bcast_col (length W) (length tbl) Ycol) as [t|] eqn:EC; [|discriminate].
    inversion H; subst Ycol'. cbn [calc_ds].
    rewrite (bmul_bcast W Yg Y' EB), (IH Ycol t EC). reflexivity.
  Qed.

  Lemma calc_groups_bcast : forall groups groups' sidx tbl,
    norm_groups (length tbl) groups = Some groups' ->
    calc_groups Nm sidx groups tbl = calc_groups Nm sidx groups' tbl.
  Proof.
    induction groups as [|[W Ycol] r IH]; intros groups' sidx tbl H; cbn [norm_groups] in H.
    - inversion H. reflexivity.
    - destruct (bcast_col (length W) (length tbl) Ycol) as [Y'|] eqn:EB; [|discriminate].
      destruct (norm_groups (length tbl) r) as [r'|] eqn:ER; [|discriminate].
      inversion H; subst groups'. cbn [calc_groups].
      rewrite (calc_ds_bcast _ _ W tbl Ycol Y' EB).
      destruct (calc_ds Nm (k_slice_lo sidx) (k_slice_hi sidx (zlen W)) W Y' tbl) as [tbl'|] eqn:EC;
        [|reflexivity].
      cbn [bind]. apply IH. rewrite (calc_ds_length _ _ _ _ _ _ EC). exact ER.
  Qed.

  Lemma norm_groups_sources J : forall groups groups',
    norm_groups J groups = Some groups' -> n_sources groups' = n_sources groups.
  Proof.
    induction groups as [|[W Ycol] r IH]; intros groups' H; cbn [norm_groups] in H.
    - inversion H. reflexivity.
    - destruct (bcast_col (length W) J Ycol); [|discriminate].
      destruct (norm_groups J r) as [r'|] eqn:ER; [|discriminate].
      inversion H. unfold n_sources in *. cbn [map fst]. unfold zsum in *. cbn [fold_right].
      rewrite (IH r' eq_refl). reflexivity.
  Qed.

  Lemma bcast_col_wf n : forall J Ycol Y',
    bcast_col n J Ycol = Some Y' -> length Y' = J /\ Forall (fun Yg => length Yg = n) Y'.
  Proof.
    induction J as [|J IH]; intros Ycol Y' H; cbn [bcast_col] in H.
    - inversion H. split; [reflexivity|constructor].
    - destruct Ycol as [|Y r]; [discriminate|].
      destruct (bcast n Y) as [y|] eqn:EB; [|discriminate].
      destruct (bcast_col n J r) as [t|] eqn:EC; [|discriminate].
      inversion H. destruct (IH r t EC) as [L F]. split; [cbn; now rewrite L|].
      constructor; [eapply bcast_length; exact EB|exact F].
  Qed.

  Lemma norm_groups_wf J : forall groups groups',
    norm_groups J groups = Some groups' -> wf_groups J groups'.
  Proof.
    induction groups as [|[W Ycol] r IH]; intros groups' H; cbn [norm_groups] in H.
    - inversion H. constructor.
    - destruct (bcast_col (length W) J Ycol) as [Y'|] eqn:EB; [|discriminate].
      destruct (norm_groups J r) as [r'|] eqn:ER; [|discriminate].
      inversion H. constructor; [|apply IH; reflexivity].
      cbn [fst snd]. apply (bcast_col_wf _ _ _ _ EB).
  Qed.

  (* C03: the table for every input the service accepts — yields of the group's length
     or single values (numpy broadcasting), extra yield arrays beyond the datasets ignored *)
  Theorem a_jk_calc_bcast J groups groups' :
    norm_groups J groups = Some groups' -> a_jk_calc Nm J groups = Ok (a_spec J groups').
  Proof.
    intros H. rewrite <- (a_jk_calc_spec erfR J groups' (norm_groups_wf J groups groups' H)).
    unfold a_jk_calc. cbv zeta. rewrite (norm_groups_sources J groups groups' H).
    rewrite (calc_groups_bcast groups groups'); [reflexivity|].
    rewrite repeat_length. exact H.
  Qed.

  (* ---- errors: only ValueError / IndexError, never a read of an unwritten cell *)
  Definition user_err (e : err) : Prop := e = ValueError \/ e = IndexError.

  Lemma bmul_err W Y e : bmul Nm W Y = Err e -> user_err e.
  Proof.
    unfold bmul. destruct (Nat.eqb (length W) (length Y)); [discriminate|].
    destruct Y as [|y [|y2 Y]]; destruct W as [|w [|w2 W]]; try discriminate;
      intros H; inversion H; now left.
  Qed.

  Lemma set_slice_err (row : list (option R)) lo hi v e : set_slice row lo hi v = Err e -> user_err e.
  Proof.
    unfold set_slice. cbv zeta. destruct (Nat.eqb _ _); [discriminate|].
    destruct v as [|x [|x2 v]]; try discriminate; intros H; inversion H; now left.
  Qed.

  Lemma calc_ds_err lo hi W : forall tbl Ycol e,
    calc_ds Nm lo hi W Ycol tbl = Err e -> user_err e.
  Proof.
    induction tbl as [|row tbl IH]; intros Ycol e H; cbn [calc_ds] in H; [discriminate|].
    destruct Ycol as [|Yg Ycol]; [inversion H; now right|].
    destruct (bmul Nm W Yg) eqn:EB; [|inversion H; subst; eapply bmul_err; exact EB].
    cbn [bind] in H.
    destruct (set_slice row lo hi l) eqn:ES; [|inversion H; subst; eapply set_slice_err; exact ES].
    cbn [bind] in H.
    destruct (calc_ds Nm lo hi W Ycol tbl) eqn:EC; [discriminate|].
    inversion H; subst. eapply IH. exact EC.
  Qed.

  Lemma calc_groups_err : forall groups sidx tbl e,
    calc_groups Nm sidx groups tbl = Err e -> user_err e.
  Proof.
    induction groups as [|[W Ycol] r IH]; intros sidx tbl e H; cbn [calc_groups] in H; [discriminate|].
    destruct (calc_ds Nm _ _ W Ycol tbl) eqn:EC; [|inversion H; subst; eapply calc_ds_err; exact EC].
    cbn [bind] in H. eapply IH. exact H.
  Qed.

  (* shape of a successful slice write *)
  Lemma set_slice_inv p m n v row' :
    (n <= m)%nat ->
    set_slice (row_state p m) (zlen p) (zlen p + Z.of_nat n) v = Ok row' ->
    exists w, length w = n /\ row' = row_state (p ++ w) (m - n).
  Proof.
    intros Hn. unfold set_slice. cbv zeta.
    assert (L : zlen (row_state p m) = Z.of_nat (length p + m)).
    { unfold zlen, row_state. now rewrite app_length, map_length, repeat_length. }
    assert (A : py_norm_idx (zlen (row_state p m)) (zlen p) = zlen p).
    { rewrite L. unfold py_norm_idx, zlen. destruct (Z.of_nat (length p) <? 0) eqn:E; lia. }
    assert (B : py_norm_idx (zlen (row_state p m)) (zlen p + Z.of_nat n) = zlen p + Z.of_nat n).
    { rewrite L. unfold py_norm_idx, zlen.
      destruct (Z.of_nat (length p) + Z.of_nat n <? 0) eqn:E; lia. }
    rewrite A, B.
    replace (Z.to_nat (zlen p + Z.of_nat n - zlen p)) with n by lia.
    replace (Z.to_nat (zlen p)) with (length (map (@Some R) p))
      by (rewrite map_length; unfold zlen; lia).
    assert (P : forall w : list R, length w = n ->
              firstn (length (map (@Some R) p)) (row_state p m) ++ map Some w
                ++ skipn (length (map (@Some R) p) + n) (row_state p m)
              = row_state (p ++ w) (m - n)).
    { intros w Hw. unfold row_state.
      rewrite firstn_app_exact, skipn_app_exact, skipn_repeat.
      rewrite map_app, <- app_assoc. reflexivity. }
    destruct (Nat.eqb (length v) n) eqn:E.
    - apply Nat.eqb_eq in E. intros H; inversion H. exists v. split; [exact E|]. apply P. exact E.
    - destruct v as [|x [|x2 v]]; try discriminate. intros H; inversion H.
      exists (repeat x n). split; [apply repeat_length|]. apply P. apply repeat_length.
  Qed.

  Lemma calc_ds_shape W m s : forall ps Ycol tbl',
    Forall (fun p => length p = s) ps -> (length W <= m)%nat ->
    calc_ds Nm (Z.of_nat s) (Z.of_nat s + zlen W) W Ycol (map (fun p => row_state p m) ps) = Ok tbl' ->
    exists ps', length ps' = length ps /\ Forall (fun p => length p = (s + length W)%nat) ps'
                /\ tbl' = map (fun p => row_state p (m - length W)) ps'.
  Proof.
    induction ps as [|p ps IH]; intros Ycol tbl' Hps Hm H.
    - cbn in H. inversion H. exists []. repeat split; constructor.
    - inversion Hps as [|? ? Hp Hps']; subst. cbn [map calc_ds] in H.
      destruct Ycol as [|Yg Ycol]; [discriminate|].
      destruct (bmul Nm W Yg) as [v|]; [|discriminate]. cbn [bind] in H.
      replace (Z.of_nat (length p)) with (zlen p) in H by reflexivity.
      replace (zlen W) with (Z.of_nat (length W)) in H by reflexivity.
      destruct (set_slice (row_state p m) (zlen p) (zlen p + Z.of_nat (length W)) v) as [row'|] eqn:ES;
        [|discriminate].
      cbn [bind] in H.
      destruct (set_slice_inv p m (length W) v row' Hm ES) as (w & Lw & Er).
      replace (zlen p) with (Z.of_nat (length p)) in H by reflexivity.
      replace (Z.of_nat (length W)) with (zlen W) in H by reflexivity.
      destruct (calc_ds Nm (Z.of_nat (length p)) (Z.of_nat (length p) + zlen W) W Ycol
                        (map (fun p0 => row_state p0 m) ps)) as [t|] eqn:EC; [|discriminate].
      cbn [bind] in H. inversion H.
      destruct (IH Ycol t Hps' Hm EC) as (ps' & L' & F' & Et).
      exists ((p ++ w) :: ps'). split; [cbn; now rewrite L'|]. split.
      + constructor; [rewrite app_length, Lw; reflexivity|exact F'].
      + cbn [map]. rewrite Er, Et. reflexivity.
  Qed.

  Lemma calc_groups_shape : forall groups ps s m tbl',
    Forall (fun p => length p = s) ps -> Z.of_nat m = n_sources groups ->
    calc_groups Nm (Z.of_nat s) groups (map (fun p => row_state p m) ps) = Ok tbl' ->
    exists ps', tbl' = map (fun p => row_state p 0) ps'.
  Proof.
    induction groups as [|[W Ycol] r IH]; intros ps s m tbl' Hps Hm H.
    - cbn in Hm. assert (m = 0)%nat by (unfold n_sources, zsum in Hm; cbn in Hm; lia). subst m.
      cbn in H. inversion H. exists ps. reflexivity.
    - rewrite n_sources_cons in Hm.
      assert (Hr : 0 <= n_sources r).
      { unfold n_sources. apply zsum_nonneg. apply Forall_forall. intros x Hx.
        apply in_map_iff in Hx as (g & <- & _). unfold zlen. lia. }
      assert (HWm : (length W <= m)%nat) by (unfold zlen in Hm; lia).
      cbn [calc_groups] in H.
      pose proof (K_slice_lo (Z.of_nat s)) as E1.
      pose proof (K_slice_hi (Z.of_nat s) (zlen W)) as E2.
      pose proof (K_sidx_next (Z.of_nat s) (zlen W)) as E3.
      rewrite E1, E2, E3 in H.
      destruct (calc_ds Nm (Z.of_nat s) (Z.of_nat s + zlen W) W Ycol (map (fun p => row_state p m) ps))
        as [t|] eqn:EC; [|discriminate].
      cbn [bind] in H.
      destruct (calc_ds_shape W m s ps Ycol t Hps HWm EC) as (ps' & L' & F' & Et).
      subst t.
      replace (Z.of_nat s + zlen W) with (Z.of_nat (s + length W)) in H by (unfold zlen; lia).
      eapply IH; [exact F'| |exact H]. unfold zlen in Hm. lia.
  Qed.

  (* C03, all inputs: calculate either returns a completely written table or raises
     ValueError / IndexError; an unwritten np.empty cell is never read *)
  Theorem a_jk_calc_total J groups :
    (exists a, a_jk_calc Nm J groups = Ok a)
    \/ a_jk_calc Nm J groups = Err ValueError \/ a_jk_calc Nm J groups = Err IndexError.
  Proof.
    unfold a_jk_calc. cbv zeta.
    assert (Hn : 0 <= n_sources groups).
    { unfold n_sources. apply zsum_nonneg. apply Forall_forall. intros x Hx.
      apply in_map_iff in Hx as (g & <- & _). unfold zlen. lia. }
    replace (repeat (repeat None (Z.to_nat (n_sources groups))) J)
      with (map (fun p : list R => row_state p (Z.to_nat (n_sources groups))) (repeat [] J)).
    2:{ generalize (Z.to_nat (n_sources groups)) as n. intros n.
        induction J as [|J IHJ]; [reflexivity|]. cbn [repeat map]. now rewrite IHJ. }
    pose proof K_sidx_init as E0. rewrite E0. change 0 with (Z.of_nat 0).
    destruct (calc_groups Nm (Z.of_nat 0) groups _) as [tbl|e] eqn:EC.
    - left. cbn [bind].
      destruct (calc_groups_shape groups (repeat [] J) 0 (Z.to_nat (n_sources groups)) tbl) as (ps' & ->).
      + apply Forall_forall. intros p Hp. apply repeat_spec in Hp. now subst.
      + lia.
      + exact EC.
      + exists ps'. apply mapM_read_state.
    - right. cbn [bind]. destruct (calc_groups_err _ _ _ _ EC) as [->| ->]; [now left|now right].
  Qed.
End Tbl.
