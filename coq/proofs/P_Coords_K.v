(* C19: one characterising lemma K_<kernel> per regenerated kernel of
   gen/G_coords.v at the real-number instance.  Every later proof uses these
   lemmas only, never the generated text: an algebraically equivalent rewrite
   of the source still passes, a semantic change breaks exactly one lemma. *)
From Coq Require Import Reals ZArith List Bool Lra.
From Sky Require Import Num NumR G_coords.
Open Scope R_scope.

Section K.
  Variable e : R -> R.
  Notation N := (RNum e).

  (* ------------------------------------------------ angular_separation *)
  Lemma K_sep_delta_ra ra1 ra2 : sep_delta_ra N ra1 ra2 = Rabs (ra1 - ra2).
  Proof. unfold sep_delta_ra. num_R. reflexivity. Qed.
  Lemma K_sep_delta_dec dec1 dec2 : sep_delta_dec N dec1 dec2 = Rabs (dec1 - dec2).
  Proof. unfold sep_delta_dec. num_R. reflexivity. Qed.
  Lemma K_sep_x dd d1 d2 dr :
    sep_x N dd d1 d2 dr
    = sin (dd / 2) * sin (dd / 2) + cos d1 * cos d2 * (sin (dr / 2) * sin (dr / 2)).
  Proof. unfold sep_x. num_R. ring. Qed.
  Lemma K_sep_clip_lo_mask x : sep_clip_lo_mask N x = Rltb x 0.
  Proof. unfold sep_clip_lo_mask. num_R. reflexivity. Qed.
  Lemma K_sep_clip_lo_val : sep_clip_lo_val N = 0.
  Proof. unfold sep_clip_lo_val. num_R. reflexivity. Qed.
  Lemma K_sep_clip_hi_mask x : sep_clip_hi_mask N x = Rltb 1 x.
  Proof. unfold sep_clip_hi_mask. num_R. reflexivity. Qed.
  Lemma K_sep_clip_hi_val : sep_clip_hi_val N = 1.
  Proof. unfold sep_clip_hi_val. num_R. reflexivity. Qed.
  Lemma K_sep_psi x : sep_psi N x = 2 * asin (sqrt x).
  Proof. unfold sep_psi. num_R. reflexivity. Qed.
  Lemma K_sep_floor psi f : sep_floor N psi f = if Rltb psi f then f else psi.
  Proof. unfold sep_floor. num_R. reflexivity. Qed.

  (* ------------------------------------------------ rotate_spherical_vector *)
  Lemma K_rot_cos_alpha ra2 ra1 d1 d2 :
    rot_cos_alpha N ra2 ra1 d1 d2 = cos (ra2 - ra1) * cos d1 * cos d2 + sin d1 * sin d2.
  Proof. unfold rot_cos_alpha. num_R. ring. Qed.
  Lemma K_rot_clip_hi_mask c : rot_clip_hi_mask N c = Rltb 1 c.
  Proof. unfold rot_clip_hi_mask. num_R. reflexivity. Qed.
  Lemma K_rot_clip_hi_val : rot_clip_hi_val N = 1.
  Proof. unfold rot_clip_hi_val. num_R. reflexivity. Qed.
  Lemma K_rot_clip_lo_mask c : rot_clip_lo_mask N c = Rltb c (-1).
  Proof. unfold rot_clip_lo_mask. num_R. reflexivity. Qed.
  Lemma K_rot_clip_lo_val : rot_clip_lo_val N = -1.
  Proof. unfold rot_clip_lo_val. num_R. reflexivity. Qed.
  Lemma K_rot_alpha c : rot_alpha N c = acos c.
  Proof. unfold rot_alpha. num_R. reflexivity. Qed.
  Lemma K_rot_v1x ra dec : rot_v1x N ra dec = cos ra * cos dec.
  Proof. unfold rot_v1x. num_R. reflexivity. Qed.
  Lemma K_rot_v1y ra dec : rot_v1y N ra dec = sin ra * cos dec.
  Proof. unfold rot_v1y. num_R. reflexivity. Qed.
  Lemma K_rot_v1z dec : rot_v1z N dec = sin dec.
  Proof. unfold rot_v1z. num_R. reflexivity. Qed.
  Lemma K_rot_v2x ra dec : rot_v2x N ra dec = cos ra * cos dec.
  Proof. unfold rot_v2x. num_R. reflexivity. Qed.
  Lemma K_rot_v2y ra dec : rot_v2y N ra dec = sin ra * cos dec.
  Proof. unfold rot_v2y. num_R. reflexivity. Qed.
  Lemma K_rot_v2z dec : rot_v2z N dec = sin dec.
  Proof. unfold rot_v2z. num_R. reflexivity. Qed.
  Lemma K_rot_v3x ra dec : rot_v3x N ra dec = cos ra * cos dec.
  Proof. unfold rot_v3x. num_R. reflexivity. Qed.
  Lemma K_rot_v3y ra dec : rot_v3y N ra dec = sin ra * cos dec.
  Proof. unfold rot_v3y. num_R. reflexivity. Qed.
  Lemma K_rot_v3z dec : rot_v3z N dec = sin dec.
  Proof. unfold rot_v3z. num_R. reflexivity. Qed.
  Lemma K_rot_norm_term x : rot_norm_term N x = x * x.
  Proof. unfold rot_norm_term. num_R. reflexivity. Qed.
  Lemma K_rot_norm x : rot_norm N x = sqrt x.
  Proof. unfold rot_norm. num_R. reflexivity. Qed.
  Lemma K_rot_axis_mask norm : rot_axis_mask N norm = Rltb 0 norm.
  Proof. unfold rot_axis_mask. num_R. reflexivity. Qed.
  Lemma K_rot_axis_div a norm : rot_axis_div N a norm = a / norm.
  Proof. unfold rot_axis_div. num_R. reflexivity. Qed.
  Lemma K_rot_sin_alpha a : rot_sin_alpha N a = sin a.
  Proof. unfold rot_sin_alpha. num_R. reflexivity. Qed.
  Lemma K_rot_twopi : rot_twopi N = 2 * PI.
  Proof. unfold rot_twopi. num_R. reflexivity. Qed.
  Lemma K_rot_nrotx a b : rot_nrotx N a b = a - b.
  Proof. unfold rot_nrotx. num_R. reflexivity. Qed.
  Lemma K_rot_R c o i s x : rot_R N c o i s x = (1 - c) * o + i * c + s * x.
  Proof. unfold rot_R. num_R. reflexivity. Qed.
  Lemma K_rot_ra y x : rot_ra N y x = Ratan2 y x.
  Proof. unfold rot_ra. num_R. reflexivity. Qed.
  Lemma K_rot_ra_wrap ra tp : rot_ra_wrap N ra tp = ra + (if Rltb ra 0 then tp else 0).
  Proof. unfold rot_ra_wrap. num_R. reflexivity. Qed.
  Lemma K_rot_ra_mod ra tp : rot_ra_mod N ra tp = Rfmod ra tp.
  Proof. unfold rot_ra_mod. num_R. reflexivity. Qed.
  Lemma K_rot_dec z : rot_dec N z = asin (Rmin (Rmax z (-1)) 1).
  Proof. unfold rot_dec. num_R. reflexivity. Qed.

  (* ------------------------------------------------ i3/utils/coords.py *)
  Lemma K_a2r_length : a2r_length N = 498634783 / 500000000.
  Proof. unfold a2r_length. num_R. reflexivity. Qed.
  Lemma K_a2r_offset : a2r_offset N = 50839800501 / 20000000000.
  Proof. unfold a2r_offset. num_R. reflexivity. Qed.
  Lemma K_a2r_resid mjd len : a2r_resid N mjd len = Rfmod (mjd / len) 1.
  Proof. unfold a2r_resid. num_R. reflexivity. Qed.
  Lemma K_a2r_ra0 off res azi : a2r_ra0 N off res azi = off + 2 * PI * res - azi.
  Proof. unfold a2r_ra0. num_R. reflexivity. Qed.
  Lemma K_a2r_ra1 ra : a2r_ra1 N ra = Rfmod ra (2 * PI).
  Proof. unfold a2r_ra1. num_R. reflexivity. Qed.
  Lemma K_a2r_ra2 ra : a2r_ra2 N ra = Rfmod ra (2 * PI).
  Proof. unfold a2r_ra2. num_R. reflexivity. Qed.
  Lemma K_r2a_azi x : r2a_azi N x = x.
  Proof. reflexivity. Qed.
  Lemma K_h2e_ra x : h2e_ra N x = x.
  Proof. reflexivity. Qed.
  Lemma K_h2e_dec zen : h2e_dec N zen = PI - zen.
  Proof. unfold h2e_dec. num_R. reflexivity. Qed.

  (* ------------------------------------------------ psi_to_dec_and_ra *)
  Lemma K_p2d_a psi : p2d_a N psi = psi.
  Proof. reflexivity. Qed.
  Lemma K_p2d_b src_dec : p2d_b N src_dec = PI / 2 - src_dec.
  Proof. unfold p2d_b. num_R. reflexivity. Qed.
  Lemma K_p2d_c src_ra : p2d_c N src_ra = src_ra.
  Proof. reflexivity. Qed.
  Lemma K_p2d_x a b c t :
    p2d_x N a b c t
    = sin a * cos b * cos c * cos t + sin a * sin c * sin t - cos a * sin b * cos c.
  Proof. unfold p2d_x. num_R. ring. Qed.
  Lemma K_p2d_y a b c t :
    p2d_y N a b c t
    = - (sin a * cos b * sin c) * cos t + sin a * cos c * sin t + cos a * sin b * sin c.
  Proof. unfold p2d_y. num_R. ring. Qed.
  Lemma K_p2d_z a b t : p2d_z N a b t = sin a * sin b * cos t + cos a * cos b.
  Proof. unfold p2d_z. num_R. ring. Qed.
  Lemma K_p2d_zen z : p2d_zen N z = acos (Rmin (Rmax z (-1)) 1).
  Proof. unfold p2d_zen. num_R. reflexivity. Qed.
  Lemma K_p2d_azi y x : p2d_azi N y x = Ratan2 y x.
  Proof. unfold p2d_azi. num_R. reflexivity. Qed.
  Lemma K_p2d_dec zen : p2d_dec N zen = PI / 2 - zen.
  Proof. unfold p2d_dec. num_R. reflexivity. Qed.
  Lemma K_p2d_ra azi : p2d_ra N azi = Rfmod (PI - azi) (2 * PI).
  Proof. unfold p2d_ra. num_R. reflexivity. Qed.
  Lemma K_p2d_t_lo : p2d_t_lo N = 0.
  Proof. unfold p2d_t_lo. num_R. reflexivity. Qed.
  Lemma K_p2d_t_hi : p2d_t_hi N = 2 * PI.
  Proof. unfold p2d_t_hi. num_R. reflexivity. Qed.

  (* ------------------------------------------------ callers *)
  Lemma K_call_signalpdf_psi x : call_signalpdf_psi N x = x.
  Proof. reflexivity. Qed.
  Lemma K_call_tdm_psi x : call_tdm_psi N x = x.
  Proof. reflexivity. Qed.
End K.

(* ------------------------------------------------ statement skeletons (fail-closed pins of the translator) *)
Lemma K_sh_angular_separation : sh_angular_separation = true. Proof. reflexivity. Qed.
Lemma K_sh_rotate_spherical_vector : sh_rotate_spherical_vector = true. Proof. reflexivity. Qed.
Lemma K_sh_rotate_signal_events_on_sphere : sh_rotate_signal_events_on_sphere = true. Proof. reflexivity. Qed.
Lemma K_sh_azi_to_ra_transform : sh_azi_to_ra_transform = true. Proof. reflexivity. Qed.
Lemma K_sh_ra_to_azi_transform : sh_ra_to_azi_transform = true. Proof. reflexivity. Qed.
Lemma K_sh_hor_to_equ_transform : sh_hor_to_equ_transform = true. Proof. reflexivity. Qed.
Lemma K_sh_psi_to_dec_and_ra : sh_psi_to_dec_and_ra = true. Proof. reflexivity. Qed.
Lemma K_sh_tdm_field_func_psi : sh_tdm_field_func_psi = true. Proof. reflexivity. Qed.
Lemma K_sh_get_tdm_field_func_psi : sh_get_tdm_field_func_psi = true. Proof. reflexivity. Qed.
Lemma K_sh_signalpdf_calculate_pd : sh_signalpdf_calculate_pd = true. Proof. reflexivity. Qed.
Lemma K_sh_post_sampling_processing : sh_post_sampling_processing = true. Proof. reflexivity. Qed.
