(* C05 — deepening: the PsiFunc guard, events[original_evt_idxs] for every tree, the
   top-level theorem for TrialDataManager.initialize_trial (every method tree or none,
   both index-field settings) and the manager as a state machine over trials. *)
From Coq Require Import ZArith List Bool Lia Sorting.Sorted Permutation.
From Sky Require Import Result PyList G_select M_Select M_SelectTdm S_Select P_Select.
Import ListNotations.
Local Open Scope nat_scope.

(* characterising lemmas of the state-machine kernels *)
Lemma K_tdm_reset : tdm_reset = None. Proof. reflexivity. Qed.
Lemma K_tdm_store x : tdm_store x = x. Proof. reflexivity. Qed.
Lemma K_tdm_has_method o : tdm_has_method o = match o with None => false | Some _ => true end.
Proof. destruct o; reflexivity. Qed.
Lemma K_tdm_has_index o : tdm_has_index o = match o with None => false | Some _ => true end.
Proof. destruct o; reflexivity. Qed.
Lemma K_tdm_has_tbl o : tdm_has_tbl o = match o with None => false | Some _ => true end.
Proof. destruct o; reflexivity. Qed.
Lemma K_tdm_no_tbl o : tdm_no_tbl o = match o with None => true | Some _ => false end.
Proof. destruct o; reflexivity. Qed.

(* ------------------------------------------------------------------ *)
(* PsiFunc: what happens with a number of sources other than one        *)

Lemma wf_split {S E} (m : meth S E) ns :
  wf_meth m ns <-> wf_other m /\ (has_psi m = true -> ns = 1).
Proof.
  induction m as [|kd c|bs cra crab cdec|c|c|a IHa b IHb]; cbn [wf_meth wf_other has_psi];
    try (split; [intros H; split; [exact H|discriminate] | tauto]).
  - split; [intros H; split; [exact I|intros _; exact H] | intros (_ & H); now apply H].
  - rewrite IHa, IHb, orb_true_iff. split.
    + intros ((A1 & A2) & (B1 & B2)). split; [tauto|]. intros [H|H]; auto.
    + intros ((A1 & B1) & H). split; split; auto.
Qed.

Section PsiGuard.
  Variables S E : Type.
  Variable srcs : list S.
  Let ns := length srcs.
  Hypothesis ns_pos : 0 < ns.

  Theorem psi_guard (m : meth S E) : forall (evs : list E) inc,
    ns <> 1 -> wf_other m -> has_psi m = true -> inc_ok ns (length evs) inc ->
    run m srcs evs inc = Err ValueError.
  Proof.
    induction m as [|kd c|bs cra crab cdec|c|c|a IHa b IHb]; intros evs inc Hn Hw Hp Hinc;
      cbn [has_psi] in Hp; try discriminate.
    - cbn [run]. fold ns. rewrite K_pf_ns_bad.
      destruct (Z.eqb_spec (Z.of_nat ns) 1) as [E1|_]; [exfalso; apply Hn; lia|reflexivity].
    - destruct Hw as (Wa & Wb). cbn [run]. destruct (has_psi a) eqn:Pa.
      + rewrite (IHa evs inc Hn Wa eq_refl Hinc). reflexivity.
      + cbn [orb] in Hp.
        assert (Wfa : wf_meth a ns) by (apply wf_split; split; [exact Wa|congruence]).
        destruct (run_spec S E srcs ns_pos a evs inc Wfa Hinc) as (ev1 & E1 & F1).
        rewrite E1. cbn [bind s_events s_tbl].
        pose proof (F2_length _ _ _ F1) as L1.
        rewrite (IHb ev1 _ Hn Wb Hp); [reflexivity|].
        cbn [inc_ok]. rewrite L1. apply out_tbl_ok.
  Qed.
End PsiGuard.

(* ------------------------------------------------------------------ *)
(* events[original_evt_idxs] == selected events, for every tree          *)

Theorem orig_maps_back {S E} (m : meth S E) (srcs : list S) (evs : list E) :
  0 < length srcs -> wf_meth m (length srcs) ->
  exists r, run m srcs evs None = Ok r
    /\ Forall2 (fun e o => (0 <= o)%Z /\ nth_error evs (Z.to_nat o) = Some e) (s_events r) (s_orig r)
    /\ StronglySorted Z.lt (s_orig r).
Proof.
  intros Hns Hwf.
  destruct (select_full m srcs evs Hns Hwf) as (r & o & Er & Ho & So & F & _).
  exists r. split; [exact Er|]. rewrite So. split.
  - apply F2_map_r2. eapply F2_impl; [|exact F]. cbn beta. intros e j Hj. rewrite Nat2Z.id. split; [lia|exact Hj].
  - apply SS_map with (R := lt); [intros x y; lia|]. rewrite Ho. apply SS_filter, SS_seq.
Qed.

(* ------------------------------------------------------------------ *)
(* initialize_trial, top level                                           *)

Lemma SS_impl {A} (R R' : A -> A -> Prop) l :
  (forall x y, R x y -> R' x y) -> StronglySorted R l -> StronglySorted R' l.
Proof.
  intros H. induction 1 as [|a l Sd IH Fa]; constructor; [assumption|].
  eapply Forall_impl; [|exact Fa]. intros y. apply H.
Qed.

Lemma lexlt_grouped t : StronglySorted lexlt t -> src_grouped t.
Proof. apply SS_impl. unfold lexlt. intros x y. lia. Qed.

Lemma lexlt_NoDup t : StronglySorted lexlt t -> NoDup t.
Proof.
  induction 1 as [|a l Sd IH Fa]; constructor; [|assumption].
  intros Ha. rewrite Forall_forall in Fa. apply (lexlt_irr a). now apply Fa.
Qed.

Lemma grouped_fst t t' : map fst t' = map fst t -> src_grouped t -> src_grouped t'.
Proof.
  unfold src_grouped. revert t'. induction t as [|a t IH]; intros t' Hm Hs.
  - destruct t'; [constructor|discriminate].
  - destruct t' as [|a' t']; [discriminate|]. cbn [map] in Hm. inversion Hm as [[Ha Ht]].
    inversion Hs as [|? ? Hs' Fa]; subst. constructor; [now apply IH|].
    rewrite Forall_forall in *. intros y Hy.
    assert (Hin : In (fst y) (map fst t)) by (rewrite <- Ht; now apply in_map).
    apply in_map_iff in Hin as (z & Hz & Hzin). rewrite Ha, <- Hz. now apply Fa.
Qed.

Section TdmTop.
  Variables S E : Type.
  Variable argsort : list E -> list Z.
  Hypothesis argsort_perm :
    forall l, Permutation (argsort l) (map Z.of_nat (seq 0 (length l))).
  Variable srcs : list S.
  Let ns := length srcs.
  Hypothesis ns_pos : 0 < ns.

  Lemma cover_from_iff (c : nat -> nat -> bool) ne (ev2 : list E) orig2 (t2 : tbl) :
    Permutation orig2 (spec_orig c ns ne) -> length ev2 = length orig2 ->
    (forall k p, In (Z.of_nat k, Z.of_nat p) t2 <->
        k < ns /\ exists j, nth_error orig2 p = Some j /\ c k j = true) ->
    forall p, p < length ev2 -> exists k, In (Z.of_nat k, Z.of_nat p) t2.
  Proof.
    intros P L H p Hp. destruct (nth_error orig2 p) as [j|] eqn:Ej; [|apply nth_error_None in Ej; lia].
    pose proof (nth_error_In _ _ Ej) as Hin. apply (Permutation_in _ P) in Hin.
    apply spec_orig_In in Hin as (_ & k & Hk & Hc). exists k. apply H. split; [assumption|]. now exists j.
  Qed.

  Theorem tdm_full (m : option (meth S E)) (evs : list E) (b : bool) :
    wf_opt m ns ->
    exists ev2 t2, tdm_init argsort m srcs evs b = Ok (ev2, t2)
                   /\ tdm_post argsort ns (crit_opt m srcs evs) b evs ev2 t2.
  Proof.
    intros Hwf. destruct m as [m|]; cbn [wf_opt crit_opt] in *; fold ns.
    - destruct b.
      + (* selection and sort *)
        destruct (tdm_sort_full S E argsort argsort_perm srcs ns_pos m evs Hwf)
          as (r1 & ev2 & t2 & o2 & E1 & Et & P & F & Fs & Hf & Nd & Rg & Hin).
        fold ns in P, Rg, Hin.
        destruct (select_full m srcs evs ns_pos Hwf) as (r1' & o1 & E1' & Ho1 & _ & F1 & T1 & _).
        fold ns in E1', Ho1. rewrite E1 in E1'. inversion E1'; subst r1'. clear E1'.
        exists ev2, t2. split; [exact Et|]. exists o2.
        split; [exact P|]. split; [discriminate|]. split; [exact F|]. split.
        { intros _. exists (s_events r1). split; [rewrite <- Ho1; exact F1|exact Fs]. }
        split; [apply (grouped_fst (s_tbl r1)); [exact Hf|now apply lexlt_grouped]|].
        split; [exact Nd|]. split; [exact Rg|]. split; [exact Hin|].
        apply (cover_from_iff _ (length evs) ev2 o2 t2 P (F2_length _ _ _ F) Hin).
      + (* selection, no index field *)
        destruct (select_full m srcs evs ns_pos Hwf) as (r & o & Er & Ho & So & F & T & Rg & Hin & Cv).
        fold ns in Er, Ho, Rg, Hin.
        exists (s_events r), (s_tbl r). split.
        { rewrite tdm_nosort, Er. reflexivity. }
        exists o. rewrite <- Ho. split; [apply Permutation_refl|]. split; [reflexivity|]. split; [exact F|].
        split; [discriminate|]. split; [now apply lexlt_grouped|]. split; [now apply lexlt_NoDup|].
        split; [exact Rg|]. split; [exact Hin|exact Cv].
    - (* no selection method: the default full mapping *)
      destruct (tdm_nosel S E argsort argsort_perm srcs ns_pos evs b) as (ev2 & Et & (Sd & Rg & Cv) & Hb).
      fold ns in Et, Sd, Rg, Cv.
      set (c := cidx (fun (_ : S) (_ : E) => true) srcs evs).
      assert (Hc : forall k j, k < ns -> j < length evs -> c k j = true).
      { intros k j Hk Hj. unfold c, cidx.
        destruct (nth_error srcs k) eqn:Es; [|apply nth_error_None in Es; fold ns in Es; lia].
        destruct (nth_error evs j) eqn:Ee; [reflexivity|apply nth_error_None in Ee; lia]. }
      assert (Hq : filter (fun j => existsb (fun k => c k j) (seq 0 ns)) (seq 0 (length evs)) = seq 0 (length evs)).
      { apply (spec_orig_all c ns (length evs)). intros j Hj. exists 0. split; [assumption|]. now apply Hc. }
      exists ev2, (full_tbl ns (length ev2)). split; [exact Et|].
      unfold tdm_post. rewrite Hq.
      (* the original index of every stored event *)
      assert (Ho : exists orig2, Permutation orig2 (seq 0 (length evs))
                   /\ (b = false -> orig2 = seq 0 (length evs))
                   /\ Forall2 (fun e j => nth_error evs j = Some e) ev2 orig2
                   /\ (b = true -> Forall2 (fun e z => nth_error evs (Z.to_nat z) = Some e) ev2 (argsort evs))).
      { destruct b.
        - exists (map Z.to_nat (argsort evs)). split.
          + apply Permutation_trans with (map Z.to_nat (map Z.of_nat (seq 0 (length evs)))).
            * apply Permutation_map, argsort_perm.
            * rewrite map_map. erewrite map_ext; [rewrite map_id; apply Permutation_refl|].
              intros x. apply Nat2Z.id.
          + split; [discriminate|]. split; [apply F2_map_r2; exact Hb|intros _; exact Hb].
        - subst ev2. exists (seq 0 (length evs)). split; [apply Permutation_refl|]. split; [reflexivity|].
          split; [apply evs_at_all|discriminate]. }
      destruct Ho as (o2 & P & Pf & F & Fb). exists o2.
      split; [exact P|]. split; [exact Pf|]. split; [exact F|]. split.
      { intros Hbt. exists evs. split; [apply evs_at_all|now apply Fb]. }
      split; [now apply lexlt_grouped|]. split; [now apply lexlt_NoDup|]. split; [exact Rg|].
      pose proof (F2_length _ _ _ F) as L.
      split; [|exact Cv].
      intros k p. split.
      + intros Hin. destruct (Rg _ Hin) as (R1 & R2). cbn [fst snd] in R1, R2.
        split; [lia|]. destruct (nth_error o2 p) as [j|] eqn:Ej; [|apply nth_error_None in Ej; lia].
        exists j. split; [reflexivity|]. apply Hc; [lia|].
        apply nth_error_In in Ej. apply (Permutation_in _ P) in Ej. apply in_seq in Ej. lia.
      + intros (Hk & j & Hj & _). apply full_tbl_In; [assumption|].
        rewrite L. apply nth_error_Some. congruence.
  Qed.

  (* ---------------------------------------------------------------- *)
  (* the manager as a state machine: a trial does not depend on what the manager
     held before (events, table, number of sources), only on the index-field setting *)

  Lemma tdm_trial_init (st : tstate E) (m : option (meth S E)) (evs : list E) :
    tdm_trial argsort st m srcs evs
    = do r <- tdm_init argsort m srcs evs (td_index st);
      Ok {| td_events := fst r; td_tbl := Some (snd r); td_nsrc := ns; td_index := td_index st |}.
  Proof.
    unfold tdm_trial, tdm_init. rewrite K_tdm_reset, K_tdm_has_method, K_tdm_has_index. fold ns.
    destruct m as [m|]; cbn [oflag].
    - destruct (run_nr m srcs evs None) as [r|e]; [|reflexivity]. cbn [bind].
      rewrite (map_ext (fun q : Z * Z => (tdm_store (fst q), tdm_store (snd q))) (fun q => q))
        by (intros (x, y); reflexivity).
      rewrite map_id. destruct (td_index st); cbn [bflag].
      + destruct (mapM (take_wrap (fst r)) (argsort (fst r))) as [ev2|e]; [|reflexivity].
        cbn [bind]. rewrite K_tdm_has_tbl. cbn [oflag].
        destruct (scatter _ _ _ _) as [inv|e]; [|reflexivity]. cbn [bind].
        destruct (mapM _ (snd r)) as [t'|e]; [|reflexivity]. cbn [bind].
        rewrite K_tdm_no_tbl. reflexivity.
      + cbn [bind]. rewrite K_tdm_no_tbl. reflexivity.
    - cbn [bind]. destruct (td_index st); cbn [bflag].
      + destruct (mapM (take_wrap evs) (argsort evs)) as [ev2|e]; [|reflexivity].
        cbn [bind]. rewrite K_tdm_has_tbl. cbn [oflag bind]. rewrite K_tdm_no_tbl. reflexivity.
      + cbn [bind]. rewrite K_tdm_no_tbl. reflexivity.
  Qed.
End TdmTop.

Section TdmHistory.
  Variables S E : Type.
  Variable argsort : list E -> list Z.
  Hypothesis argsort_perm :
    forall l, Permutation (argsort l) (map Z.of_nat (seq 0 (length l))).

  Lemma tdm_run_app (st : tstate E) (ops1 ops2 : list (top S E)) :
    tdm_run argsort st (ops1 ++ ops2) = do st' <- tdm_run argsort st ops1; tdm_run argsort st' ops2.
  Proof.
    revert st; induction ops1 as [|o r IH]; intros st; [reflexivity|].
    cbn [app tdm_run]. destruct (tdm_op argsort st o) as [st'|e]; [|reflexivity]. cbn [bind]. apply IH.
  Qed.

  Lemma tdm_trial_index (st st' : tstate E) (m : option (meth S E)) srcs evs :
    tdm_trial argsort st m srcs evs = Ok st' -> td_index st' = td_index st.
  Proof.
    rewrite tdm_trial_init. destruct (tdm_init argsort m srcs evs (td_index st)) as [r|e]; [|discriminate].
    cbn [bind]. intros H. inversion H. reflexivity.
  Qed.

  Lemma tdm_run_index (ops : list (top S E)) : forall (st st' : tstate E),
    tdm_run argsort st ops = Ok st' -> td_index st' = last_index (td_index st) ops.
  Proof.
    induction ops as [|o r IH]; intros st st' H; cbn [tdm_run last_index] in *.
    - now inversion H.
    - destruct o as [b|m srcs evs]; cbn [tdm_op] in H.
      + cbn [bind] in H. apply IH in H. exact H.
      + destruct (tdm_trial argsort st m srcs evs) as [st1|e] eqn:Et; [|discriminate].
        cbn [bind] in H. apply IH in H. rewrite H. f_equal. now apply tdm_trial_index in Et.
  Qed.

  (* after ANY sequence of earlier operations on the manager (trials with any methods,
     sources and events, index-field changes) that did not raise, a trial succeeds and
     leaves exactly what initialize_trial computes from its own arguments *)
  Theorem tdm_history (st0 : tstate E) (ops : list (top S E)) (st : tstate E)
          (m : option (meth S E)) (srcs : list S) (evs : list E) :
    0 < length srcs -> wf_opt m (length srcs) ->
    tdm_run argsort st0 ops = Ok st ->
    let b := last_index (td_index st0) ops in
    exists ev2 t2,
      tdm_run argsort st0 (ops ++ [TTrial m srcs evs])
      = Ok {| td_events := ev2; td_tbl := Some t2; td_nsrc := length srcs; td_index := b |}
      /\ tdm_init argsort m srcs evs b = Ok (ev2, t2)
      /\ tdm_post argsort (length srcs) (crit_opt m srcs evs) b evs ev2 t2.
  Proof.
    intros Hns Hwf Hrun b.
    pose proof (tdm_run_index ops st0 st Hrun) as Hb. fold b in Hb.
    destruct (tdm_full S E argsort argsort_perm srcs Hns m evs b Hwf) as (ev2 & t2 & Ei & Hp).
    exists ev2, t2. split; [|split; [exact Ei|exact Hp]].
    rewrite tdm_run_app, Hrun. cbn [bind tdm_run tdm_op].
    rewrite tdm_trial_init, Hb, Ei. reflexivity.
  Qed.
End TdmHistory.

(* ------------------------------------------------------------------ *)
(* the executable argsort meets the contract assumed of np.argsort       *)

Lemma zins_perm x l : Permutation (zins x l) (x :: l).
Proof.
  induction l as [|y r IH]; cbn [zins]; [apply Permutation_refl|].
  destruct (fst x <=? fst y)%Z; [apply Permutation_refl|].
  apply Permutation_trans with (y :: x :: r); [now apply perm_skip|apply perm_swap].
Qed.

Lemma zsort_perm l : Permutation (fold_right zins [] l) l.
Proof.
  induction l as [|x l IH]; cbn [fold_right]; [apply Permutation_refl|].
  apply Permutation_trans with (x :: fold_right zins [] l); [apply zins_perm|now apply perm_skip].
Qed.

Lemma map_snd_combine {A B} (l : list A) (l' : list B) :
  length l = length l' -> map snd (combine l l') = l'.
Proof.
  revert l'; induction l as [|a l IH]; intros [|b l'] H; cbn [length] in H; try discriminate; [reflexivity|].
  cbn [combine map snd]. f_equal. apply IH. now inversion H.
Qed.

Theorem zargsort_perm (l : list Z) : Permutation (zargsort l) (map Z.of_nat (seq 0 (length l))).
Proof.
  unfold zargsort.
  apply Permutation_trans with (map snd (combine l (map Z.of_nat (seq 0 (length l))))).
  - apply Permutation_map, zsort_perm.
  - rewrite map_snd_combine; [apply Permutation_refl|]. now rewrite map_length, seq_length.
Qed.
