(* C13 — the object store: what a mutator can touch (frame), deepcopy allocates
   fresh objects, hence a copy never shares state with its original.  Purely
   structural: polymorphic in the number system, no axioms. *)
From Coq Require Import ZArith List Bool Lia.
From Sky Require Import Result Num M_Flux.
Import ListNotations.
Local Open Scope nat_scope.

Section Store.
  Context {T : Type} (N : Num T).

  Definition refs (o : @obj T) : option (nat * nat * nat) :=
    match o with OM _ a b c => Some (a, b, c) | _ => None end.
  Definition same_shape (s s' : @store T) : Prop :=
    forall k, option_map refs (nth_error s' k) = option_map refs (nth_error s k).
  Definition closed (A : nat -> Prop) (s : @store T) : Prop :=
    forall k p a b c, A k -> nth_error s k = Some (OM p a b c) -> A a /\ A b /\ A c.
  Definition wf (s : @store T) : Prop :=
    forall k p a b c, nth_error s k = Some (OM p a b c) -> a < length s /\ b < length s /\ c < length s.
  Definition mutator (o : @op T) : Prop :=
    match o with OpCopy _ | OpCopyWith _ _ => False | _ => True end.

  Lemma nth_upd_other (s : @store T) l o k : k <> l -> nth_error (upd s l o) k = nth_error s k.
  Proof.
    revert l k. induction s as [|x r IH]; intros [|l] [|k] H; cbn; auto; try congruence.
  Qed.
  Lemma nth_upd_same (s : @store T) l o x : nth_error s l = Some x -> nth_error (upd s l o) l = Some o.
  Proof.
    revert l. induction s as [|y r IH]; intros [|l] H; cbn in *; try discriminate; auto.
  Qed.
  Lemma upd_none (s : @store T) l o : nth_error s l = None -> upd s l o = s.
  Proof.
    revert l. induction s as [|y r IH]; intros [|l] H; cbn in *; try discriminate; auto. f_equal. auto.
  Qed.
  Lemma upd_shape (s : @store T) l o x :
    nth_error s l = Some x -> refs o = refs x -> same_shape s (upd s l o).
  Proof.
    intros Hx Hr k. destruct (Nat.eq_dec k l) as [->|Hk].
    - rewrite (nth_upd_same _ _ _ _ Hx), Hx. cbn. f_equal. assumption.
    - rewrite nth_upd_other by assumption. reflexivity.
  Qed.
  Lemma same_shape_refl s : same_shape s s. Proof. intros k. reflexivity. Qed.
  Lemma same_shape_trans s1 s2 s3 : same_shape s1 s2 -> same_shape s2 s3 -> same_shape s1 s3.
  Proof. intros H1 H2 k. rewrite H2, H1. reflexivity. Qed.

  Lemma closed_shape (A : nat -> Prop) s s' : same_shape s s' -> closed A s -> closed A s'.
  Proof.
    intros Hs Hc k p a b c Hk Hn. specialize (Hs k). rewrite Hn in Hs. cbn in Hs.
    destruct (nth_error s k) as [[| | |p' a' b' c']|] eqn:E; cbn in Hs; try discriminate.
    injection Hs as <- <- <-. eapply Hc; eauto.
  Qed.

  Lemma get_s_inv (s : @store T) l p : get_s s l = Ok p -> nth_error s l = Some (OS p).
  Proof. unfold get_s. destruct (nth_error s l) as [[| | |]|]; intros H; inversion H; reflexivity. Qed.
  Lemma get_e_inv (s : @store T) l p : get_e s l = Ok p -> nth_error s l = Some (OE p).
  Proof. unfold get_e. destruct (nth_error s l) as [[| | |]|]; intros H; inversion H; reflexivity. Qed.
  Lemma get_t_inv (s : @store T) l p : get_t s l = Ok p -> nth_error s l = Some (OT p).
  Proof. unfold get_t. destruct (nth_error s l) as [[| | |]|]; intros H; inversion H; reflexivity. Qed.

  (* one upd at a location in A, replacing an object by one with the same references *)
  Lemma upd_frame (A : nat -> Prop) (s : @store T) l o x :
    A l -> nth_error s l = Some x -> refs o = refs x ->
    (forall k, ~ A k -> nth_error (upd s l o) k = nth_error s k) /\ same_shape s (upd s l o).
  Proof.
    intros Hl Hx Hr. split.
    - intros k Hk. apply nth_upd_other. intros ->. contradiction.
    - eapply upd_shape; eauto.
  Qed.

  Lemma set_params_frame (A : nat -> Prop) s l pd s' b :
    obj_set_params N s l pd = Ok (s', b) -> A l -> closed A s ->
    (forall k, ~ A k -> nth_error s' k = nth_error s k) /\ same_shape s s'.
  Proof.
    unfold obj_set_params. intros H Hl Hc.
    destruct (nth_error s l) as [[p|p|p|Phi0 ls le lt]|] eqn:E; try discriminate.
    - inversion H; subst. eapply upd_frame; eauto.
    - inversion H; subst. eapply upd_frame; eauto.
    - inversion H; subst. eapply upd_frame; eauto.
    - destruct (Hc _ _ _ _ _ Hl E) as (Hls & Hle & Hlt).
      cbv zeta in H.
      set (r0 := set_params_gen N _ _ [nPhi0] pd Phi0) in H.
      set (s0 := upd s l (OM (fst r0) ls le lt)) in H.
      destruct (upd_frame A s l (OM (fst r0) ls le lt) _ Hl E eq_refl) as [F0 S0]. fold s0 in F0, S0.
      destruct (get_s s0 ls) as [sp|] eqn:Gs; cbn [bind] in H; [|discriminate].
      set (s1 := upd s0 ls (OS (fst (s_set_params N pd sp)))) in H.
      destruct (upd_frame A s0 ls (OS (fst (s_set_params N pd sp))) _ Hls (get_s_inv _ _ _ Gs) eq_refl) as [F1 S1].
      fold s1 in F1, S1.
      destruct (get_e s1 le) as [ep|] eqn:Ge; cbn [bind] in H; [|discriminate].
      set (s2 := upd s1 le (OE (fst (e_set_params N pd ep)))) in H.
      destruct (upd_frame A s1 le (OE (fst (e_set_params N pd ep))) _ Hle (get_e_inv _ _ _ Ge) eq_refl) as [F2 S2].
      fold s2 in F2, S2.
      destruct (get_t s2 lt) as [tp|] eqn:Gt; cbn [bind] in H; [|discriminate].
      destruct (upd_frame A s2 lt (OT (fst (t_set_params N pd tp))) _ Hlt (get_t_inv _ _ _ Gt) eq_refl) as [F3 S3].
      inversion H; subst. split.
      + intros k Hk. rewrite F3, F2, F1, F0 by assumption. reflexivity.
      + eapply same_shape_trans; [|exact S3]. eapply same_shape_trans; [|exact S2].
        eapply same_shape_trans; [exact S0|exact S1].
  Qed.

  Lemma step_frame (A : nat -> Prop) s o s' :
    mutator o -> step N s o = Ok s' -> A (op_loc o) -> closed A s ->
    (forall k, ~ A k -> nth_error s' k = nth_error s k) /\ same_shape s s'.
  Proof.
    intros Hm H Hl Hc. destruct o as [l pd|l n v|l dt u|l|l pd]; cbn in Hm; try contradiction; cbn [step op_loc] in *.
    - destruct (obj_set_params N s l pd) as [[s1 b]|] eqn:E; cbn [bind fst] in H; [|discriminate].
      inversion H; subst. eapply set_params_frame; eauto.
    - destruct (nth_error s l) as [[p|p|p|Phi0 ls le lt]|] eqn:E; try discriminate.
      + inversion H; subst. eapply upd_frame; eauto.
      + inversion H; subst. eapply upd_frame; eauto.
      + inversion H; subst. eapply upd_frame; eauto.
      + destruct (pname_beq n nPhi0); inversion H; subst.
        * eapply upd_frame; eauto.
        * split; [reflexivity|apply same_shape_refl].
    - destruct (nth_error s l) as [[p|p|p|Phi0 ls le lt]|] eqn:E; try discriminate.
      inversion H; subst. eapply upd_frame; eauto.
  Qed.

  Theorem run_frame (A : nat -> Prop) ops : forall s s',
    Forall mutator ops -> (forall o, In o ops -> A (op_loc o)) -> closed A s ->
    run N s ops = Ok s' ->
    (forall k, ~ A k -> nth_error s' k = nth_error s k) /\ same_shape s s'.
  Proof.
    induction ops as [|o r IH]; intros s s' Hm HA Hc H.
    - inversion H; subst. split; [reflexivity|apply same_shape_refl].
    - cbn [run] in H. destruct (step N s o) as [s1|] eqn:E; cbn [bind] in H; [|discriminate].
      inversion Hm; subst.
      destruct (step_frame A s o s1 H2 E (HA o (or_introl eq_refl)) Hc) as [F1 S1].
      destruct (IH s1 s' H3 (fun o' Ho' => HA o' (or_intror Ho')) (closed_shape A s s1 S1 Hc) H) as [F2 S2].
      split.
      + intros k Hk. rewrite F2, F1 by assumption. reflexivity.
      + eapply same_shape_trans; eauto.
  Qed.

  (* ---------------------------------------------------------- deepcopy *)
  Lemma view_ext (s s2 : @store T) l x :
    nth_error s l = Some x ->
    (forall k, In k (reach s l) -> nth_error s2 k = nth_error s k) -> view_of s2 l = view_of s l.
  Proof.
    unfold reach, view_of. intros E H. rewrite E in *.
    destruct x as [p|p|p|Phi0 ls le lt].
    - rewrite (H l (or_introl eq_refl)), E. reflexivity.
    - rewrite (H l (or_introl eq_refl)), E. reflexivity.
    - rewrite (H l (or_introl eq_refl)), E. reflexivity.
    - rewrite (H l (or_introl eq_refl)), E. unfold get_s, get_e, get_t.
      rewrite (H ls), (H le), (H lt) by (cbn; auto). reflexivity.
  Qed.

  Lemma copy_spec (s : @store T) l s' l' :
    obj_copy s l = Ok (s', l') ->
    exists new, s' = s ++ new /\ length s <= l' < length s'
      /\ view_of s' l' = view_of s l
      /\ closed (fun k => length s <= k) s'
      /\ (forall k, In k (reach s' l') -> length s <= k).
  Proof.
    unfold obj_copy. intros H.
    destruct (nth_error s l) as [[p|p|p|Phi0 ls le lt]|] eqn:E; try discriminate.
    1-3: inversion H; subst; eexists; split; [reflexivity|]; rewrite app_length; cbn [length];
      (split; [lia|]); unfold view_of, reach, closed;
      rewrite ?nth_error_app2, ?Nat.sub_diag, ?E by lia; cbn [nth_error];
      (split; [reflexivity|]); split;
      [ intros k q a b c Hk Hn; rewrite nth_error_app2 in Hn by lia;
        destruct (k - length s) as [|[|j]]; cbn in Hn; try discriminate; destruct j; discriminate
      | intros k [<-|[]]; lia ].
    destruct (get_s s ls) as [sp|] eqn:Gs; cbn [bind] in H; [|discriminate].
    destruct (get_e s le) as [ep|] eqn:Ge; cbn [bind] in H; [|discriminate].
    destruct (get_t s lt) as [tp|] eqn:Gt; cbn [bind] in H; [|discriminate].
    inversion H; subst. set (n := length s).
    eexists; split; [reflexivity|]. rewrite app_length; cbn [length]. split; [lia|].
    assert (N0 : nth_error (s ++ [OS sp; OE ep; OT tp; OM Phi0 n (S n) (S (S n))]) n = Some (OS sp))
      by (rewrite nth_error_app2 by lia; replace (n - length s) with 0 by lia; reflexivity).
    assert (N1 : nth_error (s ++ [OS sp; OE ep; OT tp; OM Phi0 n (S n) (S (S n))]) (S n) = Some (OE ep))
      by (rewrite nth_error_app2 by lia; replace (S n - length s) with 1 by lia; reflexivity).
    assert (N2 : nth_error (s ++ [OS sp; OE ep; OT tp; OM Phi0 n (S n) (S (S n))]) (S (S n)) = Some (OT tp))
      by (rewrite nth_error_app2 by lia; replace (S (S n) - length s) with 2 by lia; reflexivity).
    assert (N3 : nth_error (s ++ [OS sp; OE ep; OT tp; OM Phi0 n (S n) (S (S n))]) (S (S (S n)))
                 = Some (OM Phi0 n (S n) (S (S n))))
      by (rewrite nth_error_app2 by lia; replace (S (S (S n)) - length s) with 3 by lia; reflexivity).
    split; [|split].
    - unfold view_of. rewrite N3, E. unfold get_s, get_e, get_t.
      rewrite N0, N1, N2, (get_s_inv _ _ _ Gs), (get_e_inv _ _ _ Ge), (get_t_inv _ _ _ Gt). reflexivity.
    - intros k q a b c Hk Hn. rewrite nth_error_app2 in Hn by (fold n; lia).
      fold n in Hn, Hk.
      destruct (k - n) as [|[|[|[|j]]]] eqn:Ek; cbn in Hn; try discriminate.
      + inversion Hn; subst. lia.
      + destruct j; discriminate.
    - unfold reach. rewrite N3. intros k [<-|[<-|[<-|[<-|[]]]]]; fold n; lia.
  Qed.

  Lemma closed_below (s : @store T) new : wf s -> closed (fun k => k < length s) (s ++ new).
  Proof.
    intros Hw k p a b c Hk Hn. rewrite nth_error_app1 in Hn by assumption. eapply Hw; eauto.
  Qed.

  (* A copy never shares state with its original: whatever is done through the
     copy (or anything reachable from it) leaves every original object as it
     was, and vice versa. *)
  Theorem copy_independent (s : @store T) l s' l' ops s'' :
    wf s -> obj_copy s l = Ok (s', l') -> Forall mutator ops -> run N s' ops = Ok s'' ->
    ((forall o, In o ops -> length s <= op_loc o) ->
       forall k, k < length s -> nth_error s'' k = nth_error s k)
    /\ ((forall o, In o ops -> op_loc o < length s) ->
       forall k, length s <= k -> nth_error s'' k = nth_error s' k).
  Proof.
    intros Hw Hc Hm Hr. destruct (copy_spec _ _ _ _ Hc) as (new & -> & Hl' & Hv & Hcl & Hre).
    split; intros HA k Hk.
    - destruct (run_frame (fun j => length s <= j) ops _ _ Hm HA Hcl Hr) as [F _].
      rewrite F by lia. apply nth_error_app1. assumption.
    - destruct (run_frame (fun j => j < length s) ops _ _ Hm HA (closed_below s new Hw) Hr) as [F _].
      apply F. lia.
  Qed.
  (* ---------------------------------------------------------- set_params on a model *)
  Lemma get_s_upd_other (s : @store T) l o k : k <> l -> get_s (upd s l o) k = get_s s k.
  Proof. intros H. unfold get_s. rewrite nth_upd_other by assumption. reflexivity. Qed.
  Lemma get_e_upd_other (s : @store T) l o k : k <> l -> get_e (upd s l o) k = get_e s k.
  Proof. intros H. unfold get_e. rewrite nth_upd_other by assumption. reflexivity. Qed.
  Lemma get_t_upd_other (s : @store T) l o k : k <> l -> get_t (upd s l o) k = get_t s k.
  Proof. intros H. unfold get_t. rewrite nth_upd_other by assumption. reflexivity. Qed.

  (* FactorizedFluxModel.set_params = MathFunction.set_params on Phi0, then the SAME dictionary on
     the spatial, energy and time profile: the model's view afterwards consists of the
     component-wise updated profiles *)
  Theorem ffm_set_params_view (s : @store T) l pd Phi0 ls le lt sp ep tp :
    nth_error s l = Some (OM Phi0 ls le lt) ->
    get_s s ls = Ok sp -> get_e s le = Ok ep -> get_t s lt = Ok tp ->
    exists s' b, obj_set_params N s l pd = Ok (s', b)
      /\ view_of s' l =
           Ok (VM (fst (set_params_gen N (fun (x : T) n => if pname_beq n nPhi0 then Some x else None)
                                         (fun (x : T) n v => if pname_beq n nPhi0 then v else x) [nPhi0] pd Phi0))
                  (fst (s_set_params N pd sp)) (fst (e_set_params N pd ep)) (fst (t_set_params N pd tp))).
  Proof.
    intros Hl Hs He Ht.
    assert (Ns := get_s_inv _ _ _ Hs). assert (Ne := get_e_inv _ _ _ He). assert (Nt := get_t_inv _ _ _ Ht).
    assert (D1 : ls <> l) by (intros ->; rewrite Hl in Ns; discriminate).
    assert (D2 : le <> l) by (intros ->; rewrite Hl in Ne; discriminate).
    assert (D3 : lt <> l) by (intros ->; rewrite Hl in Nt; discriminate).
    assert (D4 : le <> ls) by (intros ->; rewrite Ns in Ne; discriminate).
    assert (D5 : lt <> ls) by (intros ->; rewrite Ns in Nt; discriminate).
    assert (D6 : lt <> le) by (intros ->; rewrite Ne in Nt; discriminate).
    unfold obj_set_params. rewrite Hl. cbv zeta.
    set (r0 := set_params_gen N _ _ [nPhi0] pd Phi0).
    set (s0 := upd s l (OM (fst r0) ls le lt)).
    replace (get_s s0 ls) with (@Ok (@sprof T) sp)
      by (unfold s0; rewrite get_s_upd_other by assumption; symmetry; exact Hs).
    cbn [bind].
    set (s1 := upd s0 ls (OS (fst (s_set_params N pd sp)))).
    assert (G1 : get_e s1 le = Ok ep).
    { unfold s1, s0. rewrite get_e_upd_other, get_e_upd_other by assumption. exact He. }
    rewrite G1. cbn [bind].
    set (s2 := upd s1 le (OE (fst (e_set_params N pd ep)))).
    assert (G2 : get_t s2 lt = Ok tp).
    { unfold s2, s1, s0. rewrite !get_t_upd_other by assumption. exact Ht. }
    rewrite G2. cbn [bind].
    eexists. eexists. split; [reflexivity|].
    assert (M0 : nth_error s0 l = Some (OM (fst r0) ls le lt)) by (eapply nth_upd_same; eauto).
    assert (S0 : nth_error s0 ls = Some (OS sp)) by (unfold s0; rewrite nth_upd_other by assumption; exact Ns).
    assert (S1 : nth_error s1 ls = Some (OS (fst (s_set_params N pd sp)))) by (eapply nth_upd_same; eauto).
    assert (E1 : nth_error s1 le = Some (OE ep)) by (apply get_e_inv; exact G1).
    assert (E2 : nth_error s2 le = Some (OE (fst (e_set_params N pd ep)))) by (eapply nth_upd_same; eauto).
    assert (T2 : nth_error s2 lt = Some (OT tp)) by (apply get_t_inv; exact G2).
    unfold view_of.
    rewrite (nth_upd_other s2 lt _ l) by auto. unfold s2 at 1. rewrite (nth_upd_other s1 le _ l) by auto.
    unfold s1 at 1. rewrite (nth_upd_other s0 ls _ l) by auto. rewrite M0.
    unfold get_s, get_e, get_t.
    rewrite (nth_upd_other s2 lt _ ls) by auto. unfold s2 at 1. rewrite (nth_upd_other s1 le _ ls) by auto. rewrite S1.
    rewrite (nth_upd_other s2 lt _ le) by auto. rewrite E2.
    rewrite (nth_upd_same s2 lt _ _ T2). reflexivity.
  Qed.

  (* copy() is deepcopy (kernel mf_copy) and copy(newparams) additionally set_params on the copy *)
  Lemma step_copy s l : step N s (OpCopy l) = (do r <- obj_copy s l; Ok (fst r)).
  Proof. cbn [step]. destruct (obj_copy s l); reflexivity. Qed.
  Lemma step_copy_with s l pd :
    step N s (OpCopyWith l pd) = (do r <- obj_copy s l; do r2 <- obj_set_params N (fst r) (snd r) pd; Ok (fst r2)).
  Proof. cbn [step]. destruct (obj_copy s l); reflexivity. Qed.
End Store.
