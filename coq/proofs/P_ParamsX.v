(* C04 — the rest of the public API (xop): caller-shared Parameter objects and the
   change_fixed_value / update_fixed_param_value_cache protocol.  T1 is REFUTED once these are used
   (open finding C04-shared-parameter; change_fixed_value needs the documented cache update); what still holds is proved here. *)
From Coq Require Import ZArith List Bool Lia.
From Sky Require Import Result PyList G_params M_Params S_Params P_Params P_ParamsViews P_ParamsWorld P_ParamsRefine.
Import ListNotations.
Open Scope Z_scope.

Lemma xrun_base : forall ops w, xrun w (map XBase ops) = run w ops.
Proof. unfold xrun, run. induction ops as [|o ops IH]; intros w; [reflexivity|]. cbn. apply IH. Qed.

(* ---- witnesses *)
Definition shared_ops : list xop :=
  [ XBase ONewSet; XBase (OAdd 0 false (mkDecl 0 1 (Some 0) (Some 3) None)); XBase ONewSet;
    XAddShared 1 false (St 0) 0;                       (* sets[1].add_param(sets[0].params[0]) *)
    XBase (OFix (St 0) [(0, Some 7)]) ].               (* fixed through the first owner *)

Lemma shared_refuted :
  exists src ops s ps,
    let w := xrun (init src) ops in
    In s (all_sets w) /\ mapM (rd (w_store w)) (ps_params s) = Ok ps
    /\ ps_mask s <> map p_isfixed ps /\ ps_fln s <> s_floating_names (table_of ps).
Proof.
  exists [true], shared_ops, (mkPset [0%nat] [false] [] [0] [] [(0, 0)] []),
         [mkParam 0 7 true None None 7].
  cbv zeta. split; [vm_compute; auto|]. split; [vm_compute; reflexivity|]. split; intro H; vm_compute in H; discriminate.
Qed.

Definition chg_ops : list xop :=
  [ XBase (OMap (mkDecl 0 5 None None None) None ANone); XChangeFixed GP 0 9 ].

Lemma change_fixed_refuted :
  exists src ops ps,
    let w := xrun (init src) ops in
    let g := mp_gps (w_map w) in
    mapM (rd (w_store w)) (ps_params g) = Ok ps
    /\ ps_fxv g <> s_fixed_values (table_of ps)
    /\ dict_get (get_params_dict g []) 0 = Some 5 /\ map p_value ps = [9].
Proof.
  exists [true], chg_ops, [mkParam 0 9 true None None 9]. cbv zeta.
  split; [vm_compute; reflexivity|]. split; [intro H; vm_compute in H; discriminate|]. split; vm_compute; reflexivity.
Qed.

(* ---- what still holds.  Handing out an existing object keeps every set consistent IN ITSELF (the damage
   is done by the next edit through one of the owners) *)
Lemma add_param_existing st s ps l p front :
  Consistent st s ps -> rd st l = Ok p -> param_ok p ->
  match add_param s l p front with
  | Err e => e = KeyError /\ In (p_name p) (map p_name ps)
  | Ok s' => ~ In (p_name p) (map p_name ps)
             /\ ps_params s' = (if front then l :: ps_params s else ps_params s ++ [l])
             /\ Consistent st s' (if front then p :: ps else ps ++ [p])
  end.
Proof.
  intros HC Hrl Hp.
  apply Consistent_elim in HC. destruct HC as (HM & HN & HF & HK & HCa).
  pose proof (has_param_spec s ps (p_name p) HCa) as HP.
  unfold add_param. destruct (has_param s (p_name p)) eqn:E.
  - split; [reflexivity | now apply HP].
  - assert (Hnot : ~ In (p_name p) (map p_name ps)) by (intro H; apply HP in H; congruence).
    assert (HMf : mapM (rd st) (l :: ps_params s) = Ok (p :: ps)) by (cbn [mapM]; rewrite Hrl; cbn; rewrite HM; reflexivity).
    assert (HMb : mapM (rd st) (ps_params s ++ [l]) = Ok (ps ++ [p])) by (apply (mapM_app _ _ [l] ps [p] HM); cbn; rewrite Hrl; reflexivity).
    assert (HNf : NoDup (map p_name (p :: ps))) by (cbn; constructor; assumption).
    assert (HNb : NoDup (map p_name (ps ++ [p]))) by (rewrite map_app; apply NoDup_snoc; assumption).
    assert (HFf : Forall param_ok (p :: ps)) by (constructor; assumption).
    assert (HFb : Forall param_ok (ps ++ [p])) by (apply Forall_app; split; [assumption | constructor; [assumption | constructor]]).
    destruct front; destruct (p_isfixed p) eqn:Ef; cbn [ps_params]; (split; [assumption|]); (split; [reflexivity|]);
      apply Consistent_intro; cbn [ps_params ps_mask]; try assumption.
    + cbn [map]. rewrite Ef, HK. reflexivity.
    + eapply caches_cons_fixed; eauto.
    + cbn [map]. rewrite Ef, HK. reflexivity.
    + eapply caches_cons_floating; eauto.
    + rewrite map_app. cbn [map]. rewrite Ef, HK. reflexivity.
    + eapply caches_snoc_fixed; eauto.
    + rewrite map_app. cbn [map]. rewrite Ef, HK. reflexivity.
    + eapply caches_snoc_floating; eauto.
Qed.

Definition AllConsistent (w : world) : Prop :=
  Forall (fun s => exists ps, Consistent (w_store w) s ps) (all_sets w).

Lemma shared_obj_ok w r k l p :
  AllConsistent w -> shared_obj w r k = Ok (l, p) -> rd (w_store w) l = Ok p /\ param_ok p.
Proof.
  intros HA. unfold shared_obj. destruct (get_set w r) as [s|] eqn:Hg; cbn [bind]; [|discriminate].
  destruct (py_get (ps_params s) k) as [l'|] eqn:Hk; cbn [bind]; [|discriminate].
  destruct (rd (w_store w) l') as [p'|] eqn:Hr; cbn [bind]; [|discriminate].
  intros H; inversion H; subst. split; [assumption|].
  destruct (get_set_split w r s Hg) as (X & Y & E & _).
  unfold AllConsistent in HA. rewrite Forall_forall in HA. destruct (HA s) as (ps & HC); [rewrite E; apply in_elt|].
  destruct HC as (HM & _ & HF & _). apply py_get_In in Hk.
  destruct (mapM_In _ _ _ _ HM Hk) as (b & Hb & Hin). rewrite Forall_forall in HF. assert (b = p) by congruence. subst. auto.
Qed.

Theorem add_shared_keeps_sets_consistent w n front r k :
  AllConsistent w -> AllConsistent (fst (xstep w (XAddShared n front r k))).
Proof.
  intros HA. cbn [xstep]. destruct (nth_error (w_sets w) n) as [s|] eqn:Hn; [|exact HA].
  destruct (shared_obj w r k) as [[l p]|] eqn:Hs; [|exact HA].
  destruct (shared_obj_ok w r k l p HA Hs) as (Hrd & Hok).
  assert (Hg : get_set w (St n) = Ok s) by (cbn; rewrite Hn; reflexivity).
  destruct (get_set_split w (St n) s Hg) as (X & Y & E1 & E2).
  unfold AllConsistent in *. rewrite Forall_forall in HA. destruct (HA s) as (ps & HC); [rewrite E1; apply in_elt|].
  pose proof (add_param_existing _ _ _ l p front HC Hrd Hok) as H.
  destruct (add_param s l p front) as [s'|]; [|cbn; apply Forall_forall; exact HA]. cbn [fst].
  change (mkWorld (w_store w) (w_map w) (set_nth (w_sets w) n s')) with (put_set w (St n) (w_store w) s').
  rewrite E2. cbn [put_set w_store]. apply Forall_forall. intros t Ht. apply in_app_iff in Ht.
  destruct Ht as [Ht|[<-|Ht]].
  - apply HA. rewrite E1. apply in_app_iff. auto.
  - destruct H as (_ & _ & H). eauto.
  - apply HA. rewrite E1. apply in_app_iff. right. right. assumption.
Qed.

(* ---- change_fixed_value followed by update_fixed_param_value_cache restores consistency *)
Lemma map_set_nth_same {A B} (f : A -> B) : forall (l : list A) j x y,
  nth_error l j = Some x -> f y = f x -> map f (set_nth l j y) = map f l.
Proof.
  induction l as [|a l IH]; intros [|j] x y H E; cbn in *; try discriminate.
  - inversion H; subst. rewrite E. reflexivity.
  - f_equal. eapply IH; eauto.
Qed.

Lemma Forall_set_nth {A} (P : A -> Prop) : forall (l : list A) j y, Forall P l -> P y -> Forall P (set_nth l j y).
Proof.
  induction l as [|a l IH]; intros [|j] y H Hy; cbn; auto; inversion H; subst; constructor; auto.
Qed.

Lemma names_depend : forall ps ps',
  map p_name ps = map p_name ps' -> map p_isfixed ps = map p_isfixed ps' ->
  s_fixed_names (table_of ps) = s_fixed_names (table_of ps')
  /\ s_floating_names (table_of ps) = s_floating_names (table_of ps').
Proof.
  induction ps as [|p ps IH]; intros [|q qs] H1 H2; cbn in H1, H2; try discriminate; [split; reflexivity|].
  inversion H1 as [[N1 N2]]. inversion H2 as [[F1 F2]]. destruct (IH qs N2 F2) as (A & B).
  destruct (p_isfixed p) eqn:Ef.
  - destruct (tbl_cons_fixed p ps Ef) as (_ & X1 & X2 & _). destruct (tbl_cons_fixed q qs (eq_sym F1)) as (_ & Y1 & Y2 & _).
    rewrite X1, X2, Y1, Y2, A, B, N1. split; reflexivity.
  - destruct (tbl_cons_floating p ps Ef) as (_ & X1 & X2 & _). destruct (tbl_cons_floating q qs (eq_sym F1)) as (_ & Y1 & Y2 & _).
    rewrite X1, X2, Y1, Y2, A, B, N1. split; reflexivity.
Qed.

Lemma fixed_values_mask ps :
  s_fixed_values (table_of ps) = map p_value (mask_select ps (map p_isfixed ps)).
Proof.
  induction ps as [|p ps IH]; [reflexivity|]. destruct (p_isfixed p) eqn:Ef.
  - destruct (tbl_cons_fixed p ps Ef) as (_ & _ & _ & X & _). rewrite X, IH. cbn. rewrite Ef. reflexivity.
  - destruct (tbl_cons_floating p ps Ef) as (_ & _ & _ & X & _). rewrite X, IH. cbn. rewrite Ef. reflexivity.
Qed.

Lemma mask_select_length_eq {A B} : forall (a : list A) (b : list B) m,
  length a = length b -> length (mask_select a m) = length (mask_select b m).
Proof.
  induction a as [|x a IH]; intros [|y b] m H; try discriminate; [destruct m; reflexivity|].
  destruct m as [|c m]; [reflexivity|]. cbn in H. destruct c; cbn; rewrite (IH b m) by lia; reflexivity.
Qed.

Lemma upd_cache_full : forall fps pre rest,
  length rest = length fps ->
  upd_cache (pre ++ rest) (zlen pre) fps = (pre ++ map p_value fps, None).
Proof.
  induction fps as [|p fps IH]; intros pre rest H; destruct rest as [|x rest]; try discriminate; [reflexivity|].
  cbn [upd_cache map]. rewrite py_set_app.
  replace (zlen pre + 1) with (zlen (pre ++ [p_value p])) by (unfold zlen; rewrite app_length; cbn; lia).
  replace (pre ++ p_value p :: rest) with ((pre ++ [p_value p]) ++ rest) by (rewrite <- app_assoc; reflexivity).
  rewrite IH by (cbn in H; lia). rewrite <- app_assoc. reflexivity.
Qed.

Theorem update_cache_restores st s ps j l p v :
  Consistent st s ps -> NoDup (ps_params s) ->
  nth_error (ps_params s) j = Some l -> nth_error ps j = Some p -> p_isfixed p = true ->
  let p' := mkParam (p_name p) v true (p_valmin p) (p_valmax p) v in
  change_fixed_value p v = Ok p'
  /\ exists fps f,
       fixed_params (wr st l p') s = Ok fps
       /\ upd_cache (ps_fxv s) 0 fps = (f, None)
       /\ Consistent (wr st l p') (with_fxv s f) (set_nth ps j p').
Proof.
  intros HC HND Hl Hp Hf p'. split; [unfold change_fixed_value; rewrite Hf; reflexivity|].
  pose proof (Consistent_elim _ _ _ HC) as (HM & HN & HF & HK & (C1 & C2 & C3 & C4 & C5)).
  pose proof (mapM_wr_nodup st l p' _ _ _ HM HND Hl) as HM'.
  set (ps' := set_nth ps j p') in *.
  assert (En : map p_name ps' = map p_name ps) by (apply (map_set_nth_same p_name ps j p p' Hp); reflexivity).
  assert (Ei : map p_isfixed ps' = map p_isfixed ps) by (apply (map_set_nth_same p_isfixed ps j p p' Hp); cbn; congruence).
  destruct (names_depend ps' ps En Ei) as (N1 & N2).
  assert (Lps : length (ps_params s) = length ps') by (symmetry; eapply mapM_Ok_length; exact HM').
  exists (mask_select ps' (map p_isfixed ps')), (map p_value (mask_select ps' (map p_isfixed ps'))).
  split; [|split].
  - unfold fixed_params. rewrite HK, <- Ei. rewrite np_select_same by (rewrite map_length; exact Lps). cbn [bind].
    apply mapM_mask_select. exact HM'.
  - change 0 with (zlen (@nil Z)). rewrite <- (app_nil_l (ps_fxv s)). rewrite upd_cache_full; [reflexivity|].
    rewrite C3, fixed_values_mask, map_length, <- Ei. apply mask_select_length_eq.
    unfold ps'. symmetry. apply length_set_nth.
  - apply Consistent_intro; cbn [ps_params ps_mask with_fxv].
    + exact HM'.
    + rewrite En. exact HN.
    + apply Forall_set_nth; [exact HF | unfold param_ok; cbn; reflexivity].
    + rewrite HK, Ei. reflexivity.
    + unfold caches_ok. cbn [ps_fxn ps_fln ps_fxv ps_fxi ps_fli with_fxv]. rewrite N1, N2, fixed_values_mask.
      repeat split; auto.
Qed.

(* no dangling location in a reachable world: the abstraction drops nothing *)
Theorem reachable_no_dangling src ops s :
  let w := run (init src) ops in
  In s (all_sets w) -> length (abs_set (w_store w) s) = length (ps_params s).
Proof.
  intros w Hin. destruct (reachable_ok src ops) as (HF & _). rewrite Forall_forall in HF.
  destruct (HF s Hin) as (ps & HC). subst w. rewrite (abs_set_Consistent _ _ _ HC).
  destruct HC as (HM & _). eapply mapM_Ok_length; eauto.
Qed.

(* ------------------------------------------------------------------ extension: the floating-parameter dictionaries *)
Lemma NoDup_fst_combine {A} : forall (l : list Z) (r : list A), NoDup l -> NoDup (map fst (combine l r)).
Proof.
  induction l as [|a l IH]; intros [|x r] H; cbn; try constructor; inversion H; subst; [|auto].
  intro Hin. apply H2. apply in_map_iff in Hin. destruct Hin as ([k v] & E & Hk). cbn in E. subst.
  eapply in_combine_l; eauto.
Qed.

Lemma floating_names_NoDup ps : NoDup (map p_name ps) -> NoDup (s_floating_names (table_of ps)).
Proof.
  induction ps as [|p ps IH]; intros H; [constructor|]. cbn in H. inversion H; subst.
  destruct (p_isfixed p) eqn:Ef.
  - destruct (tbl_cons_fixed p ps Ef) as (_ & X & _). rewrite X. auto.
  - destruct (tbl_cons_floating p ps Ef) as (_ & X & _). rewrite X. constructor; [|auto].
    intro Hin. apply H2. now apply floating_names_in.
Qed.

Theorem floating_params_dict_ok st s ps vec :
  Consistent st s ps ->
  forall n, dict_get (get_floating_params_dict s vec) n = s_lookup (combine (s_floating_names (table_of ps)) vec) n.
Proof.
  intros HC n. destruct HC as (_ & HN & _ & _ & _ & C & _). unfold get_floating_params_dict, s_lookup. rewrite C.
  apply dict_of_get. apply NoDup_fst_combine. apply floating_names_NoDup. exact HN.
Qed.

Theorem global_floating_params_dict_reachable src ops vec :
  forall n, dict_get (create_global_floating_params_dict (w_map (run (init src) ops)) vec) n
            = s_lookup (combine (s_floating_names (table_of (a_g (s_run (s_init src) ops)))) vec) n.
Proof.
  intros n. pose proof (refinement_reachable src ops) as (E & _). rewrite <- E.
  destruct (world_set_facts _ GP _ (reachable_ok src ops) eq_refl) as (HC & _).
  unfold create_global_floating_params_dict. apply (floating_params_dict_ok _ _ _ vec HC).
Qed.
