(* Proofs for C12, part 5 (audit follow-up): the real calculate_ns_grad2 bodies
   (ZeroSigH0 / MultiDataset / NsProfile) as callees of the zero-ns Taylor test
   statistic, and the objective of the truncated-gamma fit. *)
From Coq Require Import Reals ZArith List Bool Lia Lra.
From Sky Require Import Result PyList Num NumR G_stat M_Stat S_Stat P_Stat P_StatR P_StatTop.
Import ListNotations.
Open Scope R_scope.

Definition rsum (l : list R) : R := fold_right Rplus 0 l.

Lemma K_np_guard i : np_guard i = true <-> i <> 0%Z.
Proof. unfold np_guard. rewrite negb_true_iff, Z.eqb_neq. tauto. Qed.
Lemma K_np_call_pidx i : np_call_pidx i = i. Proof. reflexivity. Qed.
Lemma K_md_call_pidx i : md_call_pidx i = i. Proof. reflexivity. Qed.
Lemma K_np_md_forwarding x :
  np_call_ns x = x /\ np_call_src x = x /\ np_call_tl x = x /\ md_call_src x = x /\ md_call_tl x = x
  /\ md_call_ns_idx0 x = x /\ (forall s, md_call_ns x s = s).
Proof. repeat split; reflexivity. Qed.
Lemma K_zs_cache_none (c : option Z) : zs_cache_none c = true <-> c = None.
Proof. destruct c; cbn; split; congruence. Qed.
Lemma K_zs_Nprime n : zs_Nprime n = n. Proof. reflexivity. Qed.
(* fit set-up: what is handed to scipy.optimize.minimize *)
Lemma K_gf_fit_plumbing x :
  gf_obj_a_idx0 = 0%Z /\ gf_obj_scale_idx0 = 1%Z /\ (forall s, gf_obj_a s = s) /\ (forall s, gf_obj_scale s = s)
  /\ gf_obj_eta x = x /\ gf_obj_tail x = x /\ gf_obj_N x = x
  /\ gf_min_fun x = x /\ gf_min_x0 x = x /\ gf_min_bounds x = x /\ gf_pars x = x
  /\ gf_Ntot x = x /\ gf_Nprime x = x
  /\ gf_sf0_a_idx0 = 0%Z /\ gf_sf0_scale_idx0 = 1%Z /\ gf_sf1_a_idx0 = 0%Z /\ gf_sf1_scale_idx0 = 1%Z
  /\ (forall s, gf_sf0_a s = s) /\ (forall s, gf_sf0_scale s = s) /\ (forall s, gf_sf1_a s = s) /\ (forall s, gf_sf1_scale s = s)
  /\ tg_cdf_arg x = x /\ tg_cdf_a x = x /\ tg_cdf_scale x = x
  /\ tg_logpdf_arg x = x /\ tg_logpdf_a x = x /\ tg_logpdf_scale x = x.
Proof. repeat split; reflexivity. Qed.
Lemma K_shapes :
  sh_wilks = true /\ sh_taylor = true /\ sh_ana_ts = true /\ sh_pval = true /\ sh_mixed = true /\ sh_gammafit = true
  /\ sh_tg = true /\ sh_poly = true /\ sh_zs_grad2 = true /\ sh_md_grad2 = true /\ sh_np_grad2 = true /\ sh_tc_grad2 = true.
Proof. repeat split; reflexivity. Qed.

(* the producer of the ns-gradient cache (calculate_log_lambda_and_grads) has a single
   exit and stores the cache before it: no path returns without refreshing the cache *)
Lemma K_zs_producer : zs_producer_returns = 1%Z /\ zs_producer_cache_order = true.
Proof. split; reflexivity. Qed.

Section RC.
  Variable e : R -> R.
  Notation N := (RNum e).

  Lemma K_gf_start_and_bounds :
    gf_x0_a N = 3 / 4 /\ gf_x0_scale N = 9 / 5
    /\ gf_bounds_00 N = 1 / 10 /\ gf_bounds_01 N = 10 /\ gf_bounds_10 N = 1 / 10 /\ gf_bounds_11 N = 10.
  Proof.
    unfold gf_x0_a, gf_x0_scale, gf_bounds_00, gf_bounds_01, gf_bounds_10, gf_bounds_11. num_R.
    repeat split; reflexivity.
  Qed.

  Lemma nsum_R_acc l : forall acc, fold_left (nadd N) l acc = acc + rsum l.
  Proof.
    unfold rsum. induction l as [|x r IH]; intros acc; cbn [fold_left fold_right].
    - lra.
    - rewrite IH. num_R. lra.
  Qed.
  Lemma nsum_R l : nsum N l = rsum l.
  Proof. unfold nsum. rewrite nsum_R_acc. num_R. lra. Qed.

  Lemma K_zs_nsgrad2 Nt Np ns s : zs_nsgrad2 N Nt Np ns s = - s - (Nt - Np) / ((Nt - ns) * (Nt - ns)).
  Proof. unfold zs_nsgrad2. num_R. reflexivity. Qed.
  Lemma K_zs_nsgrad2_term x : zs_nsgrad2_term N x = x * x.
  Proof. unfold zs_nsgrad2_term. num_R. reflexivity. Qed.
  Lemma K_zs_N a b : zs_N N a b = a + b.
  Proof. unfold zs_N. num_R. reflexivity. Qed.
  Lemma K_md_nsf ns f : md_nsf N ns f = ns * f.
  Proof. unfold md_nsf. num_R. reflexivity. Qed.
  Lemma K_md_term b f : md_term N b f = b * (f * f).
  Proof. unfold md_term. num_R. reflexivity. Qed.

  (* ---------------------------------------------------------------- ZeroSigH0 *)
  Definition sumsq (g : list R) : R := rsum (map (fun x => x * x) g).

  Lemma zerosig_body_char cache nsel npure ns i :
    zerosig_body N cache nsel npure ns i =
      match cache with
      | None => Err RuntimeError
      | Some g => Ok (- sumsq g - IZR npure / ((IZR nsel + IZR npure - ns) * (IZR nsel + IZR npure - ns)))
      end.
  Proof.
    unfold zerosig_body. destruct cache as [g|]; [|reflexivity].
    cbn [zs_cache_none]. rewrite K_zs_nsgrad2, K_zs_N, K_zs_Nprime, nsum_R, !ofZ_R.
    assert (Hm : map (zs_nsgrad2_term N) g = map (fun x => x * x) g).
    { clear. induction g as [|x r IH]; cbn [map]; [reflexivity|]. rewrite K_zs_nsgrad2_term, IH. reflexivity. }
    rewrite Hm. unfold sumsq.
    replace (IZR nsel + IZR npure - IZR nsel) with (IZR npure) by ring. reflexivity.
  Qed.

  Lemma sumsq_nonneg g : 0 <= sumsq g.
  Proof.
    unfold sumsq, rsum. induction g as [|x r IH]; cbn [map fold_right]; [lra|].
    pose proof (Rle_0_sqr x) as H. unfold Rsqr in H. lra.
  Qed.
  Lemma sumsq_pos g : (exists x, In x g /\ x <> 0) -> 0 < sumsq g.
  Proof.
    intros [x [HIn Hx]]. induction g as [|y r IH]; [destruct HIn|].
    unfold sumsq, rsum in *. cbn [map fold_right].
    pose proof (Rle_0_sqr y) as Hy. unfold Rsqr in Hy.
    destruct HIn as [->|HIn].
    - pose proof (sumsq_nonneg r) as Hr. unfold sumsq, rsum in Hr.
      assert (0 < x * x) by (apply Rsqr_pos_lt in Hx; unfold Rsqr in Hx; exact Hx). lra.
    - specialize (IH HIn). lra.
  Qed.

  (* second derivative at ns = 0: never positive; negative unless the likelihood is flat *)
  Lemma zerosig_b0 g nsel npure :
    (0 <= nsel)%Z -> (0 <= npure)%Z -> (0 < nsel + npure)%Z ->
    let b := - sumsq g - IZR npure / ((IZR nsel + IZR npure - 0) * (IZR nsel + IZR npure - 0)) in
    b <= 0 /\ ((0 < npure)%Z \/ (exists x, In x g /\ x <> 0) -> b < 0).
  Proof.
    intros H1 H2 H3 b. apply IZR_le in H1, H2. assert (Hn : 0 < IZR nsel + IZR npure) by (rewrite <- plus_IZR; apply IZR_lt; exact H3).
    pose proof (sumsq_nonneg g) as Hs.
    set (Nt := IZR nsel + IZR npure - 0) in *. assert (HNt : 0 < Nt * Nt) by (unfold Nt; nra).
    assert (Hq : 0 <= IZR npure / (Nt * Nt)).
    { apply Rmult_le_pos; [exact H2|]. left. apply Rinv_0_lt_compat. exact HNt. }
    split; [unfold b; lra|]. intros [Hp|Hx].
    - assert (0 < IZR npure / (Nt * Nt)).
      { apply Rmult_lt_0_compat; [apply IZR_lt; exact Hp|]. apply Rinv_0_lt_compat. exact HNt. }
      unfold b. lra.
    - pose proof (sumsq_pos g Hx). unfold b. lra.
  Qed.

  Lemma ts0_zerosig floating nm ll fpv grads i a g nsel npure :
    get_gflp_idx floating nm = Ok i -> py_get fpv i = Ok 0 -> py_get grads i = Ok a ->
    zlen fpv = zlen floating ->
    (0 <= nsel)%Z -> (0 <= npure)%Z -> (0 < nsel + npure)%Z ->
    ((0 < npure)%Z \/ exists x, In x g /\ x <> 0) ->
    let b := - sumsq g - IZR npure / ((IZR nsel + IZR npure - 0) * (IZR nsel + IZR npure - 0)) in
    b < 0
    /\ taylor N floating nm ll fpv (zerosig_callee N (Some g) nsel npure) grads = Ok (- 2 * (a * a / (4 * b)))
    /\ 0 <= - 2 * (a * a / (4 * b)).
  Proof.
    intros Hi Hns Ha HL H1 H2 H3 Hflat b.
    destruct (zerosig_b0 g nsel npure H1 H2 H3) as [_ Hb]. specialize (Hb Hflat). fold b in Hb.
    split; [exact Hb|]. split.
    - apply (top_ts0 e floating nm ll fpv (zerosig_callee N (Some g) nsel npure) grads i a b); auto.
      + cbn [zerosig_callee c_sig real_sigs In]. auto.
      + cbn [zerosig_callee c_body]. rewrite zerosig_body_char. reflexivity.
      + lra.
    - exact (TS0_nonneg a b Hb).
  Qed.

  (* ---------------------------------------------------------------- computability with the real callees *)
  Lemma taylor_computable_zerosig floating nm ll fpv grads g nsel npure :
    In nm floating -> zlen fpv = zlen floating -> zlen grads = zlen floating ->
    exists ts, taylor N floating nm ll fpv (zerosig_callee N (Some g) nsel npure) grads = Ok ts.
  Proof.
    intros. apply taylor_computable; auto.
    - cbn [zerosig_callee c_sig real_sigs In]. auto.
    - intros ns i. cbn [zerosig_callee c_body]. rewrite zerosig_body_char. eauto.
  Qed.

  Lemma taylor_zerosig_before_evaluate floating nm ll fpv grads i a nsel npure :
    get_gflp_idx floating nm = Ok i -> py_get fpv i = Ok 0 -> py_get grads i = Ok a -> zlen fpv = zlen floating ->
    taylor N floating nm ll fpv (zerosig_callee N None nsel npure) grads = Err RuntimeError.
  Proof.
    intros Hi Hns Ha HL. rewrite top_ts_taylor, Hi. cbn [bind]. rewrite Hns. cbn [bind].
    destruct (Req_EM_T 0 0) as [_|E]; [|contradiction E; reflexivity].
    rewrite Ha. cbn [bind]. unfold create_src_params_recarray. rewrite HL, Z.eqb_refl. cbn [bind].
    reflexivity.
  Qed.

  Lemma multi_terms_ok ns i : forall fs subs,
    length fs = length subs ->
    (forall c, In c subs -> In (c_sig c) real_sigs /\ forall x j, exists b, c_body c x j = Ok b) ->
    exists ts, multi_terms N ns i fs subs = Ok ts.
  Proof.
    induction fs as [|f fr IH]; intros [|c cr] HL Hc; cbn [length] in HL; try discriminate; cbn [multi_terms].
    - eauto.
    - destruct (Hc c (or_introl eq_refl)) as [Hs Hb].
      unfold call_kw. rewrite (real_sigs_accept_current_call _ Hs).
      destruct (Hb (md_nsf N ns f) (md_call_pidx i)) as [b ->]. cbn [bind].
      destruct (IH cr) as [ts ->]; [lia | intros c' Hc'; apply Hc; right; exact Hc'|]. cbn [bind]. eauto.
  Qed.

  Lemma taylor_computable_multi floating nm ll fpv grads fs subs :
    In nm floating -> zlen fpv = zlen floating -> zlen grads = zlen floating ->
    length fs = length subs ->
    (forall c, In c subs -> In (c_sig c) real_sigs /\ forall x j, exists b, c_body c x j = Ok b) ->
    exists ts, taylor N floating nm ll fpv (multi_callee N fs subs) grads = Ok ts.
  Proof.
    intros HIn H1 H2 HL Hc. apply taylor_computable; auto.
    - cbn [multi_callee c_sig real_sigs In]. auto.
    - intros ns i. cbn [multi_callee c_body]. unfold multi_body.
      destruct (multi_terms_ok ns i fs subs HL Hc) as [ts ->]. cbn [bind]. eauto.
  Qed.

  Lemma multi_two_value f1 f2 c1 c2 ns i b1 b2 :
    In (c_sig c1) real_sigs -> In (c_sig c2) real_sigs ->
    c_body c1 (ns * f1) i = Ok b1 -> c_body c2 (ns * f2) i = Ok b2 ->
    multi_body N [f1; f2] [c1; c2] ns i = Ok (b1 * (f1 * f1) + b2 * (f2 * f2)).
  Proof.
    intros S1 S2 B1 B2. unfold multi_body. cbn [multi_terms]. unfold call_kw.
    rewrite (real_sigs_accept_current_call _ S1), K_md_nsf, K_md_call_pidx, B1. cbn [bind].
    rewrite (real_sigs_accept_current_call _ S2), K_md_nsf, B2. cbn [bind].
    rewrite nsum_R, !K_md_term. cbn [rsum fold_right]. f_equal. unfold rsum. cbn [fold_right]. ring.
  Qed.

  Lemma multi_length_errors ns i f c cs fs :
    multi_terms N ns i [] (c :: cs) = Err IndexError /\ multi_terms N ns i (f :: fs) [] = Err ValueError.
  Proof. split; reflexivity. Qed.

  (* NsProfile: the constructor admits exactly one floating parameter, so the
     ns index of every fit result is 0; any other index is rejected *)
  Lemma nsprofile_guard (inner : callee R) (ns : R) i : i <> 0%Z -> nsprofile_body inner ns i = Err ValueError.
  Proof. intros H. unfold nsprofile_body. apply K_np_guard in H. rewrite H. reflexivity. Qed.

  Lemma nsprofile_zero (inner : callee R) (ns : R) :
    In (c_sig inner) real_sigs -> nsprofile_body inner ns 0%Z = c_body inner ns 0%Z.
  Proof.
    intros HS. unfold nsprofile_body.
    assert (H : np_guard 0 = false) by reflexivity. rewrite H.
    unfold call_kw. rewrite (real_sigs_accept_current_call _ HS). reflexivity.
  Qed.

  Lemma taylor_computable_nsprofile nm ll x a (inner : callee R) :
    In (c_sig inner) real_sigs -> (forall ns, exists b, c_body inner ns 0%Z = Ok b) ->
    exists ts, taylor N [nm] nm ll [x] (nsprofile_callee inner) [a] = Ok ts.
  Proof.
    intros HS HB. rewrite top_ts_taylor. unfold get_gflp_idx. cbn [find_idx]. rewrite Z.eqb_refl. cbn [bind].
    change (py_get [x] 0%Z) with (Ok x). cbn [bind].
    destruct (Req_EM_T x 0); [|eauto].
    change (py_get [a] 0%Z) with (Ok a). cbn [bind].
    change (create_src_params_recarray [nm] [x]) with (Ok tt). cbn [bind].
    cbn [nsprofile_callee c_sig c_body]. unfold call_kw.
    assert (Hb : bind_ok sig_NsProfileMultiDatasetTCLLHRatio taylor_call_kws = true) by reflexivity.
    rewrite Hb, (nsprofile_zero inner x HS). destruct (HB x) as [b ->]. cbn [bind]. eauto.
  Qed.

  Lemma taylor_nsprofile_other_index floating nm ll fpv grads (inner : callee R) i a :
    get_gflp_idx floating nm = Ok i -> i <> 0%Z -> py_get fpv i = Ok 0 -> py_get grads i = Ok a ->
    zlen fpv = zlen floating ->
    taylor N floating nm ll fpv (nsprofile_callee inner) grads = Err ValueError.
  Proof.
    intros Hi Hi0 Hns Ha HL. rewrite top_ts_taylor, Hi. cbn [bind]. rewrite Hns. cbn [bind].
    destruct (Req_EM_T 0 0) as [_|E]; [|contradiction E; reflexivity].
    rewrite Ha. cbn [bind]. unfold create_src_params_recarray. rewrite HL, Z.eqb_refl. cbn [bind].
    cbn [nsprofile_callee c_sig c_body]. unfold call_kw.
    assert (Hb : bind_ok sig_NsProfileMultiDatasetTCLLHRatio taylor_call_kws = true) by reflexivity.
    rewrite Hb, (nsprofile_guard inner 0 i Hi0). reflexivity.
  Qed.

  (* ---------------------------------------------------------------- b = 0: the documented expression defines no value *)
  Lemma ts0_undefined_at_b0 a : ~ exists x, forall y, y * (4 * 0) = - 2 * (a * a) <-> y = x.
  Proof.
    intros [x Hx]. destruct (Req_dec a 0) as [Ha|Ha].
    - subst a. pose proof (proj1 (Hx 0)) as H0. pose proof (proj1 (Hx 1)) as H1.
      assert (0 = x) by (apply H0; lra). assert (1 = x) by (apply H1; lra). lra.
    - pose proof (proj2 (Hx x) eq_refl) as H.
      assert (0 < a * a) by (apply Rsqr_pos_lt in Ha; unfold Rsqr in Ha; exact Ha). lra.
  Qed.

  (* ---------------------------------------------------------------- the fit objective *)
  Lemma tg_objective_R c s n : tg_objective N c s n = - (IZR n * ln (1 / (1 - c)) + s).
  Proof. unfold tg_objective, tg_ret, tg_logl_add, tg_logl, tg_c0b, tg_c0a. num_R. reflexivity. Qed.

  (* = minus the log-likelihood of the gamma density truncated at eta:
     pdf(x) / (1 - cdf(eta)) on the tail; qs = the pdf values of the tail *)
  Lemma tg_objective_is_truncated_nll c qs :
    c < 1 -> (forall q, In q qs -> 0 < q) ->
    tg_objective N c (rsum (map ln qs)) (zlen qs) = - rsum (map (fun q => ln (q / (1 - c))) qs).
  Proof.
    intros Hc Hq. rewrite tg_objective_R. f_equal.
    assert (Hl : ln (1 / (1 - c)) = - ln (1 - c)).
    { unfold Rdiv. rewrite Rmult_1_l. apply ln_Rinv. lra. }
    rewrite Hl. unfold zlen. induction qs as [|q r IH].
    - cbn. lra.
    - cbn [map rsum fold_right length]. rewrite Nat2Z.inj_succ, succ_IZR.
      assert (Hq0 : 0 < q) by (apply Hq; left; reflexivity).
      unfold Rdiv at 1. rewrite ln_mult; [|exact Hq0|apply Rinv_0_lt_compat; lra].
      rewrite ln_Rinv by lra.
      unfold rsum in IH. rewrite <- IH; [lra|]. intros q' H'. apply Hq. right. exact H'.
  Qed.
End RC.
