(* C11: the wrapper Minimizer.minimize around an arbitrary implementation. *)
From Coq Require Import Reals ZArith List Bool Lia Lra.
From Sky Require Import Result Num NumR G_minimize M_Minimize.
Import ListNotations.

Lemma K_wr_again reps mx c r :
  wr_again reps mx c r = true <-> (c = false /\ r = true /\ (reps < mx)%Z).
Proof.
  unfold wr_again. rewrite !andb_true_iff, negb_true_iff, Z.ltb_lt. tauto.
Qed.
Lemma K_wr_reps0 : wr_reps0 = 0%Z. Proof. reflexivity. Qed.
Lemma K_wr_reps_inc n : wr_reps_inc n = (n + 1)%Z. Proof. reflexivity. Qed.
Lemma K_wr_fail c : wr_fail c = negb c. Proof. reflexivity. Qed.
Lemma K_wr_any_clip a b : wr_any_clip a b = a || b. Proof. reflexivity. Qed.

(* the objective closures of LLHRatio.maximize / TCLLHRatio.maximize_with_1d_newton_rapson_minimizer are
   functions of their argument only: with `mk v` = pmm.create_src_params_recarray(v), `ev v r` = evaluate(v, r)
   and `g2 ns r` = calculate_ns_grad2(ns, r), what a call with argument v computes is ev v (mk v), g2 v[ns] (mk v) *)
Lemma K_mx_closure (mk : Z -> Z) (v nsidx vns : Z) :
  mx_closure_eval_values v = v /\
  mx_closure_eval_recarray (mx_closure_recarray (mk v)) = mk v /\
  mx_closure_grad2_recarray (mx_closure_recarray (mk v)) = mk v /\
  mx_closure_grad2_ns nsidx vns = vns /\ mx_closure_grad2_ns_idx0 nsidx = nsidx /\
  mx_closure_gen_eval_values v = v /\
  mx_closure_gen_eval_recarray (mx_closure_gen_recarray (mk v)) = mk v.
Proof. repeat split. Qed.

(* ------------------------------------------------------------------ any number system *)
Section WrapGeneric.
  Context {T : Type} (N : Num T) {St : Type}.
  Variable impl : Z -> list T -> res (list T * T * St).
  Variables conv rep : St -> bool.
  Variable reeval : list T -> res T.
  Variable bounds : list (T * T).
  Variable uniform : Z -> list T.
  Variable max_reps : Z.

  Notation wr_loop' := (wr_loop N impl conv rep bounds uniform max_reps).

  (* the repetition loop: where the final (xmin, fmin, status) comes from *)
  Lemma wr_loop_spec : forall fuel reps cur cur' reps',
    wr_loop' fuel reps cur = Ok (cur', reps') ->
    (reps <= reps')%Z /\
    ((cur' = cur /\ reps' = reps) \/
     (reps < reps' /\ exists ini, random_initials N bounds (uniform (reps' - 1)) = Ok ini
                                   /\ impl reps' ini = Ok cur')%Z) /\
    wr_again reps' max_reps (conv (snd cur')) (rep (snd cur')) = false.
  Proof.
    induction fuel as [|k IH]; intros reps cur cur' reps' Hrun; cbn [wr_loop] in Hrun.
    - destruct (wr_again reps max_reps (conv (snd cur)) (rep (snd cur))) eqn:Ea; [discriminate|].
      injection Hrun as <- <-. split; [lia|]. split; [left; split; reflexivity|exact Ea].
    - destruct (wr_again reps max_reps (conv (snd cur)) (rep (snd cur))) eqn:Ea.
      + destruct (random_initials N bounds (uniform reps)) as [ini|e] eqn:Ei; [|discriminate].
        cbn [bind] in Hrun.
        destruct (impl (wr_reps_inc reps) ini) as [nxt|e] eqn:En; [|discriminate].
        cbn [bind] in Hrun. apply IH in Hrun. rewrite K_wr_reps_inc in *.
        destruct Hrun as (Hle & Hsrc & Hag). split; [lia|]. split; [|exact Hag].
        right. destruct Hsrc as [[-> ->]|[Hlt Hex]].
        * split; [lia|]. exists ini. replace (reps + 1 - 1)%Z with reps by lia. split; assumption.
        * split; [lia|]. exact Hex.
      + injection Hrun as <- <-. split; [lia|]. split; [left; split; reflexivity|exact Ea].
  Qed.

  (* the loop cannot run out of fuel: fuel + reps >= max_reps *)
  Lemma wr_loop_no_fuel_error : forall fuel reps cur,
    (max_reps <= Z.of_nat fuel + reps)%Z ->
    wr_loop' fuel reps cur <> Err OutOfFuel \/
    (exists k ini, impl k ini = Err OutOfFuel) \/ (exists k, random_initials N bounds (uniform k) = Err OutOfFuel).
  Proof.
    induction fuel as [|k IH]; intros reps cur Hf; cbn [wr_loop].
    - destruct (wr_again reps max_reps (conv (snd cur)) (rep (snd cur))) eqn:Ea.
      + apply K_wr_again in Ea. cbn [Z.of_nat] in Hf. lia.
      + left. discriminate.
    - destruct (wr_again reps max_reps (conv (snd cur)) (rep (snd cur))) eqn:Ea; [|left; discriminate].
      destruct (random_initials N bounds (uniform reps)) as [ini|e] eqn:Ei; cbn [bind].
      + destruct (impl (wr_reps_inc reps) ini) as [nxt|e] eqn:En; cbn [bind].
        * apply IH. rewrite K_wr_reps_inc. rewrite Nat2Z.inj_succ in Hf. lia.
        * destruct e; try (left; discriminate). right. left. eauto.
      + destruct e; try (left; discriminate). right. right. eauto.
  Qed.

  (* clipping: nothing to clip means nothing changed *)
  Lemma clip_vec_unchanged : forall x bs x' ,
    clip_vec N x bs = Ok (x', false) -> x' = x.
  Proof.
    induction x as [|xi x IH]; intros bs x' H; destruct bs as [|[lo hi] bs]; cbn [clip_vec] in H; try discriminate.
    - injection H as <-. reflexivity.
    - destruct (clip_vec N x bs) as [[y c]|e] eqn:Er; [|discriminate].
      cbn [bind fst snd] in H. injection H as <- Hc.
      rewrite (K_wr_any_clip (wr_condmin N xi lo || c) (wr_condmax N xi hi)) in Hc.
      apply orb_false_iff in Hc. destruct Hc as [Hc1 Hc2].
      apply orb_false_iff in Hc1. destruct Hc1 as [Hc1 Hc3].
      apply orb_false_iff in Hc1. destruct Hc1 as [Hmin _].
      subst c. rewrite Hmin, Hc3. unfold wr_clip_hi, wr_clip_lo. f_equal. apply (IH bs). exact Er.
  Qed.

  Lemma clip_vec_length : forall x bs x' c,
    clip_vec N x bs = Ok (x', c) -> length x' = length bs /\ length x = length bs.
  Proof.
    induction x as [|xi x IH]; intros bs x' c H; destruct bs as [|[lo hi] bs]; cbn [clip_vec] in H; try discriminate.
    - injection H as <- <-. split; reflexivity.
    - destruct (clip_vec N x bs) as [[y c']|e] eqn:Er; [|discriminate].
      cbn [bind fst snd] in H. injection H as <- <-.
      destruct (IH bs y c' Er) as [H1 H2]. cbn [length]. split; congruence.
  Qed.

  (* Minimizer.minimize: a returned result stems from a converged run of the
     implementation; it is that run's (x, f) unless a component had to be
     clipped, in which case f is the re-evaluated objective at the clipped point *)
  Theorem minimize_result : forall initials x f st reps,
    minimize N impl conv rep reeval bounds uniform max_reps initials = Ok (x, f, st, reps) ->
    conv st = true /\ (0 <= reps)%Z /\
    exists ini x0 f0,
      impl reps ini = Ok (x0, f0, st) /\
      (reps = 0%Z -> ini = initials) /\
      ((x = x0 /\ f = f0 /\ clip_vec N x0 bounds = Ok (x0, false)) \/
       (clip_vec N x0 bounds = Ok (x, true) /\ reeval x = Ok f)).
  Proof.
    intros initials x f st reps H. unfold minimize in H.
    destruct (impl 0%Z initials) as [first|e] eqn:E0; [|discriminate]. cbn [bind] in H.
    destruct (wr_loop' (Z.to_nat max_reps) wr_reps0 first) as [[[[xm fm] stm] rp]|e] eqn:El; [|discriminate].
    cbn [bind] in H.
    apply wr_loop_spec in El. destruct El as (Hle & Hsrc & _). rewrite K_wr_reps0 in *.
    rewrite K_wr_fail in H. destruct (conv stm) eqn:Ec; cbn [negb] in H; [|discriminate].
    destruct (clip_vec N xm bounds) as [[xc c]|e] eqn:Ecl; [|discriminate]. cbn [bind fst snd] in H.
    assert (Hsrc' : exists ini, impl rp ini = Ok (xm, fm, stm) /\ (rp = 0%Z -> ini = initials)).
    { destruct Hsrc as [[-> ->]|[Hlt (ini & _ & Hi)]].
      - exists initials. split; [exact E0|reflexivity].
      - exists ini. split; [exact Hi|lia]. }
    destruct Hsrc' as (ini & Hi & Hini).
    destruct c.
    - destruct (reeval xc) as [f'|e] eqn:Er; [|discriminate]. cbn [bind] in H.
      injection H as <- <- <- <-. split; [exact Ec|]. split; [exact Hle|].
      exists ini, xm, fm. split; [exact Hi|]. split; [exact Hini|]. right. split; assumption.
    - injection H as <- <- <- <-. split; [exact Ec|]. split; [exact Hle|].
      exists ini, xm, fm. split; [exact Hi|]. split; [exact Hini|]. left.
      pose proof (clip_vec_unchanged _ _ _ Ecl) as ->. repeat split. exact Ecl.
  Qed.

  (* failure is loud: when the last run of the implementation did not converge,
     Minimizer.minimize raises ValueError; it never returns a result *)
  Theorem minimize_not_converged_raises : forall initials first cur reps,
    impl 0%Z initials = Ok first ->
    wr_loop' (Z.to_nat max_reps) wr_reps0 first = Ok (cur, reps) ->
    conv (snd cur) = false ->
    minimize N impl conv rep reeval bounds uniform max_reps initials = Err ValueError.
  Proof.
    intros initials first [[xm fm] stm] reps E0 El Hc. unfold minimize.
    rewrite E0. cbn [bind]. rewrite El. cbn [bind]. cbn [snd] in Hc.
    rewrite K_wr_fail, Hc. reflexivity.
  Qed.

  (* a non-repeatable implementation (NR, scipy generic) is run exactly once *)
  Theorem minimize_single_run : forall initials x0 f0 st,
    impl 0%Z initials = Ok (x0, f0, st) -> rep st = false ->
    minimize N impl conv rep reeval bounds uniform max_reps initials =
      (if conv st then
         do c <- clip_vec N x0 bounds;
         if snd c then (do f' <- reeval (fst c); Ok (fst c, f', st, 0%Z)) else Ok (x0, f0, st, 0%Z)
       else Err ValueError).
  Proof.
    intros initials x0 f0 st E0 Hr. unfold minimize. rewrite E0. cbn [bind].
    assert (Hl : wr_loop' (Z.to_nat max_reps) wr_reps0 (x0, f0, st) = Ok (x0, f0, st, 0%Z)).
    { destruct (Z.to_nat max_reps); cbn [wr_loop snd]; unfold wr_again; rewrite Hr, andb_false_r; reflexivity. }
    rewrite Hl. cbn [bind]. rewrite K_wr_fail. destruct (conv st); reflexivity.
  Qed.
End WrapGeneric.

(* ------------------------------------------------------------------ over the reals: in bounds *)
Open Scope R_scope.
Section WrapR.
  Variable erfR : R -> R.
  Notation N := (RNum erfR).

  Definition in_bounds (x : list R) (bs : list (R * R)) : Prop :=
    Forall2 (fun xi b => fst b <= xi <= snd b) x bs.

  Lemma K_wr_clip xi lo hi :
    lo <= hi ->
    let y := wr_clip_hi N (wr_condmax N xi hi) (wr_clip_lo N (wr_condmin N xi lo) xi lo) hi in
    lo <= y <= hi /\ (lo <= xi <= hi -> y = xi /\ wr_condmin N xi lo = false /\ wr_condmax N xi hi = false).
  Proof.
    intros Hlh. cbv zeta. unfold wr_clip_hi, wr_clip_lo, wr_condmax, wr_condmin. num_R.
    destruct (Rltb xi lo) eqn:E1; destruct (Rltb hi xi) eqn:E2;
      repeat match goal with
             | H : Rltb _ _ = true |- _ => apply Rltb_true in H
             | H : Rltb _ _ = false |- _ => apply Rltb_false in H
             end;
      (split; [lra|]); intros Hin; try lra; repeat split; lra.
  Qed.

  Lemma clip_vec_in_bounds : forall x bs x' c,
    Forall (fun b => fst b <= snd b) bs ->
    clip_vec N x bs = Ok (x', c) ->
    in_bounds x' bs /\ (in_bounds x bs -> c = false).
  Proof.
    induction x as [|xi x IH]; intros bs x' c Hwf H; destruct bs as [|[lo hi] bs]; cbn [clip_vec] in H; try discriminate.
    - injection H as <- <-. split; [constructor|reflexivity].
    - destruct (clip_vec N x bs) as [[y c']|e] eqn:Er; [|discriminate].
      cbn [bind fst snd] in H. injection H as <- <-.
      inversion Hwf as [|b bs' Hb Hwf']; subst. cbn [fst snd] in Hb.
      destruct (IH bs y c' Hwf' Er) as [Hin Hc].
      pose proof (K_wr_clip xi lo hi Hb) as Hk. cbv zeta in Hk. destruct Hk as [Hy Hid].
      split.
      + constructor; [exact Hy|exact Hin].
      + intros Hxb. inversion Hxb as [|a b l l' Ha Hl]; subst. cbn [fst snd] in Ha.
        destruct (Hid Ha) as (_ & Hmin & Hmax). unfold wr_condmin in Hmin. unfold wr_condmax in Hmax. cbn [nltb RNum] in Hmin, Hmax. rewrite Hmin, Hmax, (Hc Hl). reflexivity.
  Qed.

  (* whatever the implementation returns: the reported optimum is within the bounds *)
  Theorem minimize_in_bounds {St : Type} impl (conv rep : St -> bool) reeval bounds uniform max_reps
          initials x f st reps :
    Forall (fun b => fst b <= snd b) bounds ->
    minimize N impl conv rep reeval bounds uniform max_reps initials = Ok (x, f, st, reps) ->
    in_bounds x bounds.
  Proof.
    intros Hwf H. apply minimize_result in H.
    destruct H as (_ & _ & ini & x0 & f0 & _ & _ & [(-> & _ & Hc)|(Hc & _)]);
      apply (clip_vec_in_bounds _ _ _ _ Hwf) in Hc; tauto.
  Qed.
End WrapR.
