(* C17: multi-file and Dataset-level theorems: the two efficiency modes agree
   on every list of files; a missing file is an error; the result fields are
   those of the first file restricted to the keep set; required analysis-stage
   fields of the merged (configuration + dataset) stage table are present after
   load_and_prepare_data or an error is raised; nothing else is kept. *)
From Coq Require Import ZArith List Bool Lia.
From Sky Require Import Result PyList G_load M_Load S_Load P_Load.
Import ListNotations.
Open Scope Z_scope.

(* ------------------------------------------------------------ append *)
Lemma append_cols_names : forall t a t', append_cols t a = Ok t' -> tnames t' = tnames t.
Proof.
  induction t as [|[fname [dt v]] t IH]; intros a t' H.
  - cbn in H. inversion H. reflexivity.
  - cbn [append_cols] in H. destruct (alookup fname a) as [[dt' v']|]; [|discriminate].
    destruct (append_cols t a) as [r|] eqn:E; cbn [bind] in H; [|discriminate].
    inversion H. cbn. f_equal. apply (IH a r E).
Qed.

Lemma append_names : forall t a t', append t a = Ok t' -> tnames t' = tnames t.
Proof.
  intros t a t' H. unfold append in H.
  destruct (existsb _ _); [discriminate|]. eapply append_cols_names. exact H.
Qed.

(* every column of the result is the old column followed by the appended one *)
Lemma append_cols_concat : forall t a t', append_cols t a = Ok t' ->
  forall fname dt v, In (fname, (dt, v)) t ->
  exists dt' v', alookup fname a = Some (dt', v') /\ In (fname, (promote dt dt', v ++ v')) t'.
Proof.
  induction t as [|[n [d w]] t IH]; intros a t' H fname dt v Hin; [destruct Hin|].
  cbn [append_cols] in H. destruct (alookup n a) as [[d' w']|] eqn:El; [|discriminate].
  destruct (append_cols t a) as [r|] eqn:E; cbn [bind] in H; [|discriminate].
  inversion H; subst t'. destruct Hin as [Hin|Hin].
  - inversion Hin; subst. exists d', w'. split; [exact El | left; reflexivity].
  - destruct (IH a r E fname dt v Hin) as [dt' [v' [Ha Hr]]].
    exists dt', v'. split; [exact Ha | right; exact Hr].
Qed.

Theorem append_concat : forall t a t', append t a = Ok t' ->
  tnames t' = tnames t /\
  forall fname dt v, In (fname, (dt, v)) t ->
  exists dt' v', alookup fname a = Some (dt', v') /\ In (fname, (promote dt dt', v ++ v')) t'.
Proof.
  intros t a t' H. split; [eapply append_names; exact H|].
  unfold append in H. destruct (existsb _ _); [discriminate|].
  eapply append_cols_concat. exact H.
Qed.

(* ------------------------------------------------------------ modes, many files *)
Definition R (a b : res (table * Z)) : Prop :=
  match a, b with
  | Ok (t, _), Ok (t', _) => t = t'
  | Err e, Err e' => e = e'
  | _, _ => False
  end.

Lemma py_get_In : forall {A} (l : list A) i a, py_get l i = Ok a -> In a l.
Proof.
  intros A l i a H. unfold py_get in H.
  destruct (_ || _); [discriminate|].
  destruct (nth_error l _) eqn:E; [|discriminate]. inversion H; subst.
  eapply nth_error_In. exact E.
Qed.

Definition step (one : option file -> res (table * Z)) (files : list (option file))
           (acc : res (table * Z)) (i : Z) : res (table * Z) :=
  do a <- acc; do p <- py_get files i; do r <- one p;
  do t <- append (fst a) (fst r); Ok (t, snd a + snd r).

Lemma load_all_step : forall one files lo hi,
  load_all one files lo hi =
  (do p0 <- py_get files 0; do r0 <- one p0;
   fold_left (step one files) (map (fun k => lo + Z.of_nat k) (seq 0 (Z.to_nat (hi - lo)))) (Ok r0)).
Proof. reflexivity. Qed.

Lemma fold_rel : forall one1 one2 files,
  (forall p, In p files -> R (one1 p) (one2 p)) ->
  forall L a1 a2, R a1 a2 -> R (fold_left (step one1 files) L a1) (fold_left (step one2 files) L a2).
Proof.
  intros one1 one2 files Hone. induction L as [|i L IH]; intros a1 a2 Ha; [exact Ha|].
  cbn [fold_left]. apply IH. unfold step.
  destruct a1 as [[t1 n1]|e1], a2 as [[t2 n2]|e2]; cbn in Ha; try contradiction; cbn [bind].
  - subst t2. destruct (py_get files i) as [p|e] eqn:Eg; cbn [bind]; [|reflexivity].
    specialize (Hone p (py_get_In _ _ _ Eg)).
    destruct (one1 p) as [[ta m1]|e1], (one2 p) as [[tb m2]|e2]; cbn in Hone; try contradiction; cbn [bind fst snd].
    + subst tb. destruct (append t1 ta); cbn [bind]; reflexivity.
    + exact Hone.
  - exact Ha.
Qed.

Lemma one_rel : forall o p, wf_opt p ->
  R (do f <- open_file p; load_file_mem f o) (do f <- open_file p; load_file_time f o).
Proof.
  intros o [f|] Hwf; cbn [open_file bind]; [|reflexivity].
  unfold load_file_mem. destruct K_mem_bs as [_ Hbs].
  rewrite (load_mem_spec mem_bs f o Hwf Hbs), (load_time_spec f o Hwf). reflexivity.
Qed.

Theorem modes_agree : forall files o,
  Forall wf_opt files ->
  match npy_load MMemory files o, npy_load MTime files o with
  | Ok (t, _), Ok (t', _) => t = t'
  | Err e, Err e' => e = e'
  | _, _ => False
  end.
Proof.
  intros files o Hwf. change (R (npy_load MMemory files o) (npy_load MTime files o)).
  unfold npy_load. cbn [resolve_mode]. rewrite !load_all_step.
  destruct (py_get files 0) as [p0|e] eqn:E0; cbn [bind]; [|reflexivity].
  rewrite Forall_forall in Hwf.
  pose proof (one_rel o p0 (Hwf p0 (py_get_In _ _ _ E0))) as H0.
  destruct (do f <- open_file p0; load_file_mem f o) as [[t1 n1]|e1] eqn:E1,
           (do f <- open_file p0; load_file_time f o) as [[t2 n2]|e2] eqn:E2;
    cbn in H0; try contradiction; cbn [bind].
  - apply fold_rel; [|exact H0]. intros p Hp. apply one_rel. apply Hwf. exact Hp.
  - exact H0.
Qed.

Theorem mode_none_is_time : forall files o, npy_load MNone files o = npy_load MTime files o.
Proof. reflexivity. Qed.

(* ------------------------------------------------------------ missing file *)
Lemma fold_err : forall one files L e, fold_left (step one files) L (Err e) = Err e.
Proof. induction L as [|i L IH]; intros e; [reflexivity|]. cbn [fold_left]. apply IH. Qed.

Lemma fold_hits_missing : forall one files,
  one None = Err RuntimeError ->
  forall L acc, (exists i, In i L /\ py_get files i = Ok None) ->
  exists e, fold_left (step one files) L acc = Err e.
Proof.
  intros one files Hone. induction L as [|j L IH]; intros acc [i [Hin Hget]]; [destruct Hin|].
  cbn [fold_left]. destruct Hin as [Hj|Hin].
  - subst j. unfold step at 2. destruct acc as [a|e]; cbn [bind].
    + rewrite Hget. cbn [bind]. rewrite Hone. cbn [bind]. eexists. apply fold_err.
    + eexists. apply fold_err.
  - apply IH. exists i. split; assumption.
Qed.

Theorem missing_file_error_gen : forall one files lo,
  one None = Err RuntimeError -> lo = 1 -> In None files ->
  exists e, load_all one files lo (zlen files) = Err e.
Proof.
  intros one files lo Hone Hlo Hin. subst lo. rewrite load_all_step.
  destruct files as [|p0 rest]; [destruct Hin|].
  change (py_get (p0 :: rest) 0) with (py_get (p0 :: rest) (Z.of_nat 0)).
  rewrite (py_get_nth (p0 :: rest) 0 None) by (cbn; lia). cbn [nth bind].
  destruct Hin as [Hp|Hin].
  - subst p0. rewrite Hone. cbn [bind]. eexists. reflexivity.
  - destruct (one p0) as [r0|e]; cbn [bind]; [|eexists; reflexivity].
    apply fold_hits_missing; [exact Hone|].
    destruct (In_nth rest None None Hin) as [k [Hk Hnth]].
    exists (1 + Z.of_nat k). split.
    + apply in_map_iff. exists k. split; [reflexivity|]. apply in_seq.
      unfold zlen. cbn [length]. lia.
    + replace (1 + Z.of_nat k) with (Z.of_nat (S k)) by lia.
      rewrite (py_get_nth (p0 :: rest) (S k) None) by (cbn; lia). cbn [nth]. rewrite Hnth. reflexivity.
Qed.

Theorem missing_file_error : forall mode files o,
  In None files ->
  (exists e, npy_load mode files o = Err e) /\ (exists e, txt_load files o = Err e).
Proof.
  intros mode files o Hin. destruct K_rest as [Hn [Ht [Hnh Hth]]]. split.
  - unfold npy_load. destruct mode; cbn [resolve_mode mode_default_time]; try (rewrite Hnh; apply missing_file_error_gen; [reflexivity|exact Hn|exact Hin]).
    eexists; reflexivity.
  - unfold txt_load. rewrite Hth. apply missing_file_error_gen; [reflexivity|exact Ht|exact Hin].
Qed.

(* ------------------------------------------------------------ result fields *)
Lemma fold_names : forall one files L a t n,
  fold_left (step one files) L a = Ok (t, n) ->
  exists t0 n0, a = Ok (t0, n0) /\ tnames t = tnames t0.
Proof.
  intros one files. induction L as [|i L IH]; intros a t n H.
  - cbn in H. subst a. eauto.
  - cbn [fold_left] in H. destruct (IH _ _ _ H) as [t1 [n1 [Hs Hn]]].
    unfold step in Hs. destruct a as [[t0 n0]|e]; cbn [bind] in Hs; [|discriminate].
    destruct (py_get files i) as [p|]; cbn [bind] in Hs; [|discriminate].
    destruct (one p) as [[ta m]|]; cbn [bind fst snd] in Hs; [|discriminate].
    destruct (append t0 ta) as [t'|] eqn:Ea; cbn [bind] in Hs; [|discriminate].
    inversion Hs; subst. exists t0, n0. split; [reflexivity|].
    rewrite Hn. eapply append_names. exact Ea.
Qed.

Lemma spec_load_file_names : forall f o, tnames (spec_load_file f o) = map fst (spec_kept o (f_schema f)).
Proof. intros. unfold tnames, keys, spec_load_file. rewrite map_map. reflexivity. Qed.

Lemma spec_load_file_col : forall f o fname dt,
  In (fname, dt) (spec_kept o (f_schema f)) ->
  In (fname, (spec_dtype o fname dt, spec_col f fname)) (spec_load_file f o).
Proof.
  intros f o fname dt H. unfold spec_load_file.
  apply (in_map (fun p => (fst p, (spec_dtype o (fst p) (snd p), spec_col f (fst p)))) _ _ H).
Qed.

Theorem fields_spec : forall mode f0 rest o t n,
  wf_file f0 ->
  npy_load mode (Some f0 :: rest) o = Ok (t, n) ->
  tnames t = map fst (spec_kept o (f_schema f0)).
Proof.
  intros mode f0 rest o t n Hwf H. destruct K_mem_bs as [_ Hbs].
  unfold npy_load in H. destruct mode; cbn [resolve_mode mode_default_time] in H; try discriminate;
    rewrite load_all_step in H;
    change (py_get (Some f0 :: rest) 0) with (py_get (Some f0 :: rest) (Z.of_nat 0)) in H;
    rewrite (py_get_nth (Some f0 :: rest) 0 None) in H by (cbn; lia);
    cbn [nth bind open_file] in H;
    try (unfold load_file_mem in H; rewrite (load_mem_spec mem_bs f0 o Hwf Hbs) in H);
    try rewrite (load_time_spec f0 o Hwf) in H;
    cbn [bind] in H;
    destruct (fold_names _ _ _ _ _ _ H) as [t0 [n0 [He Hn]]];
    inversion He; subst; rewrite Hn; apply spec_load_file_names.
Qed.

(* ------------------------------------------------------------ stage tables *)
Lemma alookup_aset_same : forall {V} k (v : V) d, alookup k (aset k v d) = Some v.
Proof.
  induction d as [|[k' v'] d IH]; cbn [aset alookup]; [rewrite Z.eqb_refl; reflexivity|].
  destruct (k =? k') eqn:E; cbn [alookup]; [rewrite Z.eqb_refl; reflexivity|].
  rewrite E. exact IH.
Qed.

Lemma alookup_aset_other : forall {V} k k' (v : V) d, k <> k' -> alookup k (aset k' v d) = alookup k d.
Proof.
  intros V k k' v d Hne. induction d as [|[k2 v2] d IH]; cbn [aset alookup].
  - destruct (k =? k') eqn:E; [apply Z.eqb_eq in E; contradiction|reflexivity].
  - destruct (k' =? k2) eqn:E2; cbn [alookup].
    + apply Z.eqb_eq in E2. subst k2.
      destruct (k =? k') eqn:E; [apply Z.eqb_eq in E; contradiction|reflexivity].
    + destruct (k =? k2); [reflexivity|exact IH].
Qed.

Lemma merge_keeps : forall {V} (b a : list (Z * V)) n,
  alookup n b = None -> alookup n (dict_merge a b) = alookup n a.
Proof.
  unfold dict_merge. induction b as [|[k v] b IH]; intros a n H; [reflexivity|].
  cbn [alookup] in H. destruct (n =? k) eqn:E; [discriminate|].
  cbn [fold_left fst snd]. rewrite IH by exact H.
  apply alookup_aset_other. apply Z.eqb_neq. exact E.
Qed.

Lemma merge_overrides : forall {V} (b a : list (Z * V)) n m,
  NoDup (keys b) -> alookup n b = Some m -> alookup n (dict_merge a b) = Some m.
Proof.
  unfold dict_merge. induction b as [|[k v] b IH]; intros a n m Hnd H; [discriminate|].
  cbn [alookup] in H. cbn [fold_left fst snd]. cbn in Hnd. inversion Hnd as [|? ? Hnotin Hnd']; subst.
  destruct (n =? k) eqn:E.
  - apply Z.eqb_eq in E. subst k. inversion H; subst v.
    fold (dict_merge (aset n m a) b). rewrite merge_keeps.
    + apply alookup_aset_same.
    + apply alookup_none. apply zmem_false. exact Hnotin.
  - apply IH; assumption.
Qed.

Lemma alookup_In : forall {V} k (v : V) d, alookup k d = Some v -> In (k, v) d.
Proof.
  induction d as [|[k' v'] d IH]; intros H; [discriminate|].
  cbn [alookup] in H. destruct (k =? k') eqn:E.
  - apply Z.eqb_eq in E. inversion H; subst. left. reflexivity.
  - right. apply IH. exact H.
Qed.

Lemma filter_nil_false : forall {A} (g : A -> bool) l x, filter g l = [] -> In x l -> g x = false.
Proof.
  intros A g l x Hf Hin. destruct (g x) eqn:E; [|reflexivity].
  assert (Hx : In x (filter g l)) by (apply filter_In; split; assumption).
  rewrite Hf in Hx. destruct Hx.
Qed.

Lemma joint_is_required : forall df s, get_joint_names df s = spec_required df s.
Proof. reflexivity. Qed.

Lemma required_in : forall df s n m,
  In (n, m) df -> Z.land m s <> 0 -> In n (spec_required df s).
Proof.
  intros df s n m Hin Hm. unfold spec_required.
  apply (in_map fst _ (n, m)). apply filter_In. split; [exact Hin|].
  cbn [snd]. apply Z.eqb_neq in Hm. rewrite Hm. reflexivity.
Qed.

Lemma zlen_zero_nil : forall {A} (l : list A), (zlen l =? 0) = true -> l = [].
Proof.
  intros A l H. apply Z.eqb_eq in H. unfold zlen in H. destruct l; [reflexivity|cbn in H; lia].
Qed.

Lemma present_of_no_missing : forall present required n,
  negb (zlen (missing_keys present required) =? 0) = false ->
  In n required -> In n present.
Proof.
  intros present required n H Hin. apply negb_false_iff in H. apply zlen_zero_nil in H.
  unfold missing_keys in H. pose proof (filter_nil_false _ _ n H Hin) as Hf.
  unfold fmt_missing in Hf. apply negb_false_iff in Hf. apply zmem_In. exact Hf.
Qed.

Definition merged (ds : dataset) : stage_table := dict_merge (d_cfg_fields ds) (d_ds_fields ds).

Lemma assert_format_ok : forall ds d,
  assert_data_format ds d = Ok tt ->
  (forall t n m, dd_exp d = Some t -> In (n, m) (merged ds) -> Z.land m 4 <> 0 -> In n (tnames t)) /\
  (forall t n m, dd_mc d = Some t -> In (n, m) (merged ds) -> Z.land m 12 <> 0 -> In n (tnames t)) /\
  dd_livetime d <> None.
Proof.
  intros ds d H. unfold assert_data_format in H.
  split; [|split].
  - intros t n m He Hin Hm. rewrite He in H.
    destruct (fmt_exp_bad _) eqn:Eb; cbn [bind] in H; [discriminate|].
    unfold fmt_exp_bad in Eb. eapply present_of_no_missing; [exact Eb|].
    rewrite joint_is_required. apply (required_in _ _ n m); [exact Hin|exact Hm].
  - intros t n m He Hin Hm. rewrite He in H.
    destruct (match dd_exp d with Some _ => _ | None => _ end); cbn [bind] in H; [|discriminate].
    destruct (fmt_mc_bad _) eqn:Eb; cbn [bind] in H; [discriminate|].
    unfold fmt_mc_bad in Eb. eapply present_of_no_missing; [exact Eb|].
    rewrite joint_is_required. apply (required_in _ _ n m); [exact Hin|exact Hm].
  - intros Hl. rewrite Hl in H.
    destruct (match dd_exp d with Some _ => _ | None => _ end); cbn [bind] in H; [|discriminate].
    destruct (match dd_mc d with Some _ => _ | None => _ end); cbn [bind] in H; discriminate.
Qed.

Definition tidy_keep_exp (ds : dataset) (o : dopts) : list name :=
  spec_required (merged ds) 4 ++ do_keep o.
Definition tidy_keep_mc (ds : dataset) (o : dopts) : list name :=
  spec_required (merged ds) 12 ++ do_keep o.

Lemma lap_inv : forall ds o prep d,
  load_and_prepare ds o prep = Ok d ->
  exists d0 d1, load_data ds o = Ok d0 /\ prep d0 = Ok d1 /\
    d = mkData (option_map (fun t => tidy_up t (tidy_keep_exp ds o)) (dd_exp d1))
               (option_map (fun t => tidy_up t (tidy_keep_mc ds o)) (dd_mc d1))
               (dd_livetime d1) /\
    assert_data_format ds d = Ok tt.
Proof.
  intros ds o prep d H. unfold load_and_prepare in H.
  destruct (load_data ds o) as [d0|] eqn:E0; cbn [bind] in H; [|discriminate].
  destruct (prep d0) as [d1|] eqn:E1; cbn [bind] in H; [|discriminate].
  match type of H with (do _ <- assert_data_format ds ?x; _) = _ =>
    destruct (assert_data_format ds x) as [[]|] eqn:Ea; cbn [bind] in H; [|discriminate] end.
  inversion H; subst d. exists d0, d1. repeat split; try assumption.
Qed.

Lemma tidy_names : forall t keep n, In n (tnames (tidy_up t keep)) -> In n keep /\ In n (tnames t).
Proof.
  intros t keep n H. unfold tnames, keys, tidy_up in H. apply in_map_iff in H.
  destruct H as [[n' c] [Hn Hin]]. cbn in Hn. subst n'. apply filter_In in Hin. destruct Hin as [Hin Hk].
  unfold tidy_remove in Hk. cbn [fst] in Hk. rewrite negb_involutive in Hk. split.
  - apply zmem_In. exact Hk.
  - apply (in_map fst _ _ Hin).
Qed.

(* required analysis-stage fields are present after load_and_prepare_data, for
   EVERY data preparation function; nothing but required or requested fields is kept *)
Theorem required_present : forall ds o prep d,
  load_and_prepare ds o prep = Ok d ->
  (forall t n m, dd_exp d = Some t -> In (n, m) (merged ds) -> Z.land m 4 <> 0 -> In n (tnames t)) /\
  (forall t n m, dd_mc d = Some t -> In (n, m) (merged ds) -> Z.land m 12 <> 0 -> In n (tnames t)) /\
  (forall t n, dd_exp d = Some t -> In n (tnames t) -> In n (spec_required (merged ds) 4 ++ do_keep o)) /\
  (forall t n, dd_mc d = Some t -> In n (tnames t) -> In n (spec_required (merged ds) 12 ++ do_keep o)) /\
  dd_livetime d <> None.
Proof.
  intros ds o prep d H. destruct (lap_inv _ _ _ _ H) as [d0 [d1 [_ [_ [Hd Ha]]]]].
  destruct (assert_format_ok ds d Ha) as [He [Hm Hl]].
  split; [exact He|]. split; [exact Hm|]. split; [|split; [|exact Hl]].
  - intros t n Ht Hn. subst d. cbn [dd_exp] in Ht. destruct (dd_exp d1) as [t1|]; [|discriminate].
    cbn in Ht. inversion Ht; subst t. apply tidy_names in Hn. apply Hn.
  - intros t n Ht Hn. subst d. cbn [dd_mc] in Ht. destruct (dd_mc d1) as [t1|]; [|discriminate].
    cbn in Ht. inversion Ht; subst t. apply tidy_names in Hn. apply Hn.
Qed.

(* the merged table: a dataset-level declaration wins, a configuration-level one
   counts unless the dataset redeclares the name *)
Theorem merged_levels : forall ds n m,
  (NoDup (keys (d_ds_fields ds)) -> alookup n (d_ds_fields ds) = Some m -> In (n, m) (merged ds)) /\
  (alookup n (d_ds_fields ds) = None -> alookup n (d_cfg_fields ds) = Some m -> In (n, m) (merged ds)).
Proof.
  intros ds n m. unfold merged. split.
  - intros Hnd H. apply alookup_In. apply merge_overrides; assumption.
  - intros Hn H. apply alookup_In. rewrite merge_keeps; assumption.
Qed.

(* a required field that neither the (renamed) files nor the preparation provide is an error *)
Theorem required_missing_is_error : forall ds o prep d0 d1 t n m,
  load_data ds o = Ok d0 -> prep d0 = Ok d1 -> dd_exp d1 = Some t ->
  In (n, m) (merged ds) -> Z.land m 4 <> 0 -> ~ In n (tnames t) ->
  exists e, load_and_prepare ds o prep = Err e.
Proof.
  intros ds o prep d0 d1 t n m H0 H1 Ht Hin Hm Hnot.
  destruct (load_and_prepare ds o prep) as [d|e] eqn:E; [|eauto]. exfalso.
  destruct (lap_inv _ _ _ _ E) as [d0' [d1' [H0' [H1' [Hd Ha]]]]].
  rewrite H0 in H0'. inversion H0'; subst d0'. rewrite H1 in H1'. inversion H1'; subst d1'.
  destruct (assert_format_ok ds d Ha) as [He _].
  assert (Hexp : dd_exp d = Some (tidy_up t (tidy_keep_exp ds o))) by (subst d; cbn; rewrite Ht; reflexivity).
  specialize (He _ n m Hexp Hin Hm). apply tidy_names in He. apply Hnot. apply He.
Qed.
