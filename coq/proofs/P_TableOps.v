(* C16 — exact object-level specifications of the mutators: which columns E' the
   object holds afterwards (refinement), what it may share with the rest of the
   store (frame_rel), and what a failing call leaves behind. *)
From Coq Require Import ZArith List Bool Lia Arith.
From Sky Require Import Result PyList G_table M_Table P_TableBase.
Import ListNotations.
Open Scope Z_scope.

Ltac splits := repeat match goal with |- _ /\ _ => split end.

(* characterising lemmas of the translated kernels *)
Lemma K_af_len_bad : forall len n, af_len_bad len n = false <-> n = len.
Proof. intros; unfold af_len_bad; rewrite negb_false_iff, Z.eqb_eq; tauto. Qed.
Lemma K_si_len_bad : forall len n, si_len_bad len n = false <-> n = len.
Proof. intros; unfold si_len_bad; rewrite negb_false_iff, Z.eqb_eq; tauto. Qed.
Lemma K_ctor_len_bad : forall len n, ctor_len_bad len n = false <-> n = len.
Proof. intros; unfold ctor_len_bad; rewrite negb_false_iff, Z.eqb_eq; tauto. Qed.
Lemma K_ctor_first_len : forall n, ctor_first_len n = n.
Proof. reflexivity. Qed.
Lemma K_ctor_empty_len : ctor_empty_len = 0.
Proof. reflexivity. Qed.
Lemma K_append_new_len : forall len n, append_new_len len n = len + n.
Proof. reflexivity. Qed.
Lemma K_indices_n : forall len, indices_n len = len.
Proof. reflexivity. Qed.
Lemma K_dict_nonempty : forall n, dict_nonempty n = true <-> n > 0.
Proof. intros; unfold dict_nonempty; rewrite Z.gtb_lt; lia. Qed.

(* the constructor's field filter `(keep_fields is not None) and (fname not in keep_fields)` *)
Definition keep_flag (keep : option (list name)) : option Z := match keep with Some _ => Some 0 | None => None end.
Definition keep_list (keep : option (list name)) : list name := match keep with Some k => k | None => [] end.
Lemma K_ctor_keep_filter : forall keep fname,
  ctor_keep_given (keep_flag keep) && ctor_not_in_keep fname (keep_list keep)
  = match keep with Some k => negb (mem fname k) | None => false end.
Proof. intros [k|] fname; reflexivity. Qed.

Definition same_shape (o o' : obj) : Prop :=
  keys (fields o') = keys (fields o) /\ fnl o' = fnl o /\ olen o' = olen o /\ oidx o' = oidx o.

Lemma same_shape_refl : forall o, same_shape o o.
Proof. intros; unfold same_shape; splits; reflexivity. Qed.

Lemma repr_extend : forall s E o e, repr s E o -> repr (s ++ e) E o /\ frame_rel s o (s ++ e) o.
Proof.
  intros s E o e R; split.
  - constructor; try apply R.
    + intros n l Hi; pose proof (r_cols _ _ _ R _ _ Hi) as C. rewrite rd_prefix; [assumption | eapply rd_lt; eassumption].
    + pose proof (r_idx _ _ _ R) as I; unfold idx_ok in *; destruct (oidx o); [|exact I].
      destruct I as [b [I1 I2]]; exists b; split; [|assumption]. rewrite rd_prefix; [assumption | eapply rd_lt; eassumption].
  - split; [rewrite app_length; lia | split; [intros; left; assumption | intros; apply rd_prefix; assumption]].
Qed.

Lemma repr_has : forall s E o n, repr s E o -> (has o n = true <-> In n (keys (fields o))).
Proof. intros; unfold has; apply mem_In. Qed.

Lemma repr_assoc : forall s E o n, repr s E o -> In n (keys (fields o)) ->
  exists l, assoc n (fields o) = Some l /\ rd s l = Some (E n).
Proof.
  intros s E o n R H; destruct (In_keys_assoc _ _ H) as [l Hl]; exists l; split; [assumption|].
  apply (r_cols _ _ _ R); apply assoc_In; assumption.
Qed.

(* dropping / keeping the index cache and changing the length *)
Lemma repr_no_idx : forall s E o n, repr s E o -> repr s E (mkobj (fields o) (fnl o) n None).
Proof.
  intros s E o n R; constructor; cbn; try apply R.
  - pose proof (r_locs _ _ _ R) as ND; unfold obj_locs in *; cbn; rewrite app_nil_r; eapply NoDup_app_l; eassumption.
  - exact I.
Qed.

(* ------------------------------------------------------------ append_field / __setitem__ *)
Lemma append_field_spec : forall s E o n b, repr s E o ->
  match append_field (s ++ [b]) o n (length s) with
  | ((s', o'), Done) =>
      s' = s ++ [b] /\ repr s' (upd E n b) o' /\ frame_rel s o s' o'
      /\ keys (fields o') = keys (fields o) ++ [n] /\ ~ In n (keys (fields o))
      /\ blen b = olen o /\ olen o' = olen o
  | ((s', o'), _) => s' = s ++ [b] /\ o' = o
  end.
Proof.
  intros s E o n b R; unfold append_field; rewrite rd_app_new.
  destruct (has o n) eqn:H; [split; reflexivity|].
  destruct (af_len_bad (olen o) (blen b)) eqn:L; [split; reflexivity|].
  apply K_af_len_bad in L.
  assert (Hn : ~ In n (keys (fields o))) by (rewrite <- (repr_has _ _ _ _ R); congruence).
  destruct (add_col s E o n b R Hn) as (A & B & C).
  splits; try assumption; try apply B; try reflexivity.
Qed.

Lemma setitem_spec : forall s E o n b, repr s E o ->
  match setitem (s ++ [b]) o n (length s) with
  | ((s', o'), Done) =>
      s' = s ++ [b] /\ repr s' (upd E n b) o' /\ frame_rel s o s' o'
      /\ (forall k, In k (keys (fields o')) <-> In k (keys (fields o)) \/ k = n)
      /\ blen b = olen o /\ olen o' = olen o
  | ((s', o'), _) => s' = s ++ [b] /\ o' = o
  end.
Proof.
  intros s E o n b R; unfold setitem.
  destruct (has o n) eqn:H; cbn [negb].
  - rewrite rd_app_new. destruct (si_len_bad (olen o) (blen b)) eqn:L; [split; reflexivity|].
    apply K_si_len_bad in L. apply (repr_has _ _ _ _ R) in H.
    destruct (replace_col s E o n b R H) as (A & B & C).
    splits; try assumption; try apply B; try reflexivity.
    intros k; rewrite C; split; [auto | intros [Q| ->]; assumption].
  - pose proof (append_field_spec s E o n b R) as S.
    destruct (append_field (s ++ [b]) o n (length s)) as [[s' o'] x]; destruct x; try assumption.
    destruct S as (A & B & C & D & F & G & K); splits; try assumption.
    intros k; rewrite D; split.
    + intros Q; apply in_app_or in Q; destruct Q as [Q|[Q|[]]]; [left; assumption | right; congruence].
    + intros [Q| ->]; apply in_or_app; [left; assumption | right; left; reflexivity].
Qed.

(* ------------------------------------------------------------ remove_field / tidy_up *)
Lemma remove_field_spec : forall s E o n, repr s E o ->
  match remove_field s o n with
  | ((s', o'), Done) =>
      s' = s /\ repr s E o' /\ frame_rel s o s o' /\ In n (keys (fields o))
      /\ keys (fields o') = lremove n (keys (fields o)) /\ olen o' = olen o
  | ((s', o'), _) => s' = s /\ o' = o
  end.
Proof.
  intros s E o n R; unfold remove_field.
  destruct (assoc n (fields o)) as [l|] eqn:A; [|split; reflexivity].
  assert (Hin : In n (keys (fields o))) by (eapply assoc_keys; eassumption).
  assert (M : mem n (fnl o) = true) by (rewrite (r_fnl _ _ _ R); apply mem_In; assumption).
  rewrite M. destruct (del_col s E o n R) as (B & C & D).
  unfold with_fnl, with_fields; cbn [fields fnl olen oidx].
  splits; try assumption; try apply C; try reflexivity.
  cbn; apply keys_ddel.
Qed.

Lemma tidy_up_spec : forall s E o keep, repr s E o ->
  match tidy_up s o keep with
  | ((s', o'), x) =>
      s' = s /\ repr s E o' /\ frame_rel s o s o' /\ olen o' = olen o
      /\ (forall k, In k (keys (fields o')) -> In k (keys (fields o)))
      /\ (x = Done -> forall k, In k (keys (fields o')) <-> In k (keys (fields o)) /\ mem k keep = true)
  end.
Proof.
  intros s E o keep R; unfold tidy_up.
  pose (J := fun (todo : list name) (st : mstate) =>
    fst st = s /\ repr s E (snd st) /\ frame_rel s o s (snd st) /\ olen (snd st) = olen o
    /\ (forall k, In k (keys (fields (snd st))) -> In k (keys (fields o)))
    /\ (forall k, In k (keys (fields (snd st))) -> mem k keep = true \/ In k todo)
    /\ (forall k, In k (keys (fields o)) -> mem k keep = true -> In k (keys (fields (snd st))))).
  pose (F := fun (st : mstate) (x : outcome) =>
    fst st = s /\ repr s E (snd st) /\ frame_rel s o s (snd st) /\ olen (snd st) = olen o
    /\ (forall k, In k (keys (fields (snd st))) -> In k (keys (fields o))) /\ x <> Done).
  pose proof (loop_ind _ (tidy_one keep) J F (fnl o) (s, o)) as L.
  assert (J0 : J (fnl o) (s, o)).
  { unfold J; cbn; splits; auto; try apply frame_refl.
    intros k Hk; right; rewrite (r_fnl _ _ _ R); assumption. }
  specialize (L J0).
  assert (Hs : forall a r st0, J (a :: r) st0 ->
     match tidy_one keep a st0 with (st', Done) => J r st' | (st', x) => F st' x end).
  { intros a r [s0 o0] (A1 & A2 & A3 & A4 & A5 & A6 & A7); cbn in *; subst s0.
    unfold tidy_one; cbn [fst snd]. destruct (mem a keep) eqn:M.
    - unfold J; cbn; splits; auto. intros k Hk; destruct (A6 k Hk) as [Q|[Q|Q]]; auto. subst; auto.
    - pose proof (remove_field_spec s E o0 a A2) as S.
      destruct (remove_field s o0 a) as [[s' o'] x]; destruct x.
      + destruct S as (B1 & B2 & B3 & B4 & B5 & B6). subst s'. unfold J; cbn; splits.
        * reflexivity.
        * assumption.
        * eapply frame_trans; eassumption.
        * lia.
        * intros k Hk; apply A5; rewrite B5 in Hk; eapply lremove_incl; eassumption.
        * intros k Hk; rewrite B5 in Hk.
          pose proof (NoDup_lremove a _ (r_nodup _ _ _ A2)) as [_ Nn].
          destruct (A6 k (lremove_incl _ _ _ Hk)) as [Q|[Q|Q]]; auto. subst; contradiction.
        * intros k Hk Mk; rewrite B5; apply lremove_In_other; [intros ->; congruence | apply A7; assumption].
      + destruct S as [-> ->]; unfold F; cbn; splits; auto; discriminate.
      + destruct S as [-> ->]; unfold F; cbn; splits; auto; discriminate. }
  specialize (L Hs).
  destruct (loop (tidy_one keep) (fnl o) (s, o)) as [[s' o'] x]; destruct x.
  - destruct L as (A1 & A2 & A3 & A4 & A5 & A6 & A7); cbn in *. splits; auto.
    intros _ k; split.
    + intros Hk; split; [apply A5; assumption | destruct (A6 k Hk) as [Q|[]]; assumption].
    + intros [Q1 Q2]; apply A7; assumption.
  - destruct L as (A1 & A2 & A3 & A4 & A5 & A6); cbn in *; splits; auto; intros; congruence.
  - destruct L as (A1 & A2 & A3 & A4 & A5 & A6); cbn in *; splits; auto; intros; congruence.
Qed.

(* ------------------------------------------------------------ column-map loops *)
(* loops over the field names whose body replaces the column by a new array
   computed from the old one (sort_by_field, convert_dtypes, append) *)
Section MapLoop.
Variable g : name -> buf -> res (option buf).
Definition G (n : name) (b : buf) : buf :=
  match g n b with Ok (Some b') => b' | _ => b end.

Variable f : name -> mstate -> mstate * outcome.
Variable s : store.
Variable l0 : list name.
Definition Emix (E : name -> buf) (todo : list name) : name -> buf :=
  fun n => if mem n l0 && negb (mem n todo) then G n (E n) else E n.
Hypothesis f_eq : forall fname ext o1 l b, In fname l0 ->
  assoc fname (fields o1) = Some l -> rd (s ++ ext) l = Some b ->
  f fname ((s ++ ext, o1) : mstate) =
    match g fname b with
    | Err e => ((s ++ ext, o1), Raised e)
    | Ok None => ((s ++ ext, o1), Done)
    | Ok (Some b') => (((s ++ ext) ++ [b'], with_fields o1 (dset (fields o1) fname (length (s ++ ext)))), Done)
    end.

Lemma map_loop : forall E o, repr s E o -> NoDup l0 -> (forall n, In n l0 -> In n (keys (fields o))) ->
  match loop f l0 (s, o) with
  | ((s', o'), x) =>
      exists ext todo, s' = s ++ ext /\ repr s' (Emix E todo) o' /\ frame_rel s o s' o'
        /\ same_shape o o' /\ (x = Done -> todo = []) /\ (forall n, In n todo -> In n l0)
        /\ (x = Done \/ exists n e, In n l0 /\ g n (E n) = Err e /\ x = Raised e)
        /\ (x = Done -> forall n, In n l0 -> exists r, g n (E n) = Ok r)
        /\ (forall n, In n l0 -> ~ In n todo -> exists r, g n (E n) = Ok r)
  end.
Proof.
  intros E o R ND Hsub.
  pose (J := fun (todo : list name) (st : mstate) =>
    exists ext, fst st = s ++ ext /\ repr (fst st) (Emix E todo) (snd st) /\ frame_rel s o (fst st) (snd st)
      /\ same_shape o (snd st) /\ NoDup todo /\ (forall n, In n todo -> In n l0)
      /\ (forall n, In n l0 -> ~ In n todo -> exists r, g n (E n) = Ok r)).
  pose (F := fun (st : mstate) (x : outcome) =>
    exists ext todo, fst st = s ++ ext /\ repr (fst st) (Emix E todo) (snd st) /\ frame_rel s o (fst st) (snd st)
      /\ same_shape o (snd st) /\ (forall n, In n todo -> In n l0) /\ x <> Done
      /\ (exists n e, In n l0 /\ g n (E n) = Err e /\ x = Raised e)
      /\ (forall n, In n l0 -> ~ In n todo -> exists r, g n (E n) = Ok r)).
  pose proof (loop_ind _ f J F l0 (s, o)) as L.
  assert (J0 : J l0 (s, o)).
  { exists []; cbn; rewrite app_nil_r; splits; auto; try apply frame_refl; try apply same_shape_refl.
    - eapply repr_ext; [exact R|]. intros n Hn; unfold Emix.
      destruct (mem n l0); reflexivity.
    - intros n H1 H2; contradiction. }
  specialize (L J0).
  assert (Hs : forall a r st0, J (a :: r) st0 ->
     match f a st0 with (st', Done) => J r st' | (st', x) => F st' x end).
  { intros a r [s1 o1] (ext & A1 & A2 & A3 & A4 & A5 & A6 & A7); cbn [fst snd] in *; subst s1.
    assert (A7' : forall r0, g a (E a) = Ok r0 -> forall n, In n l0 -> ~ In n r -> exists r1, g n (E n) = Ok r1).
    { intros r0 Hr0 n Hn Hnr0. destruct (Z.eq_dec n a) as [->|Hne]; [eauto|].
      apply A7; [assumption|]. intros [Q|Q]; [congruence | contradiction]. }
    destruct A4 as (S1 & S2 & S3 & S4).
    assert (Ha : In a (keys (fields o1))) by (rewrite S1; apply Hsub; apply A6; left; reflexivity).
    destruct (repr_assoc _ _ _ _ A2 Ha) as [l [Hl1 Hl2]].
    pose proof (f_eq a ext o1 l _ (A6 a (or_introl eq_refl)) Hl1 Hl2) as Fq.
    unfold mstate, store in Fq |- *; rewrite Fq; clear Fq.
    inversion A5 as [|? ? Hnr NDr]; subst.
    assert (Emix_a : Emix E (a :: r) a = E a).
    { unfold Emix; replace (mem a (a :: r)) with true; [rewrite andb_false_r; reflexivity|]. symmetry; apply mem_In; left; reflexivity. }
    assert (Ml0 : mem a l0 = true) by (apply mem_In; apply A6; left; reflexivity).
    rewrite Emix_a.
    destruct (g a (E a)) as [[b'|]|e] eqn:Gq.
    - (* replaced *)
      destruct (replace_col (s ++ ext) (Emix E (a :: r)) o1 a b' A2 Ha) as (B1 & B2 & B3).
      exists (ext ++ [b']); cbn [fst snd]; splits.
      + rewrite app_assoc; reflexivity.
      + eapply repr_ext; [exact B1|]. intros n Hn; unfold upd, Emix, G.
        destruct (n =? a) eqn:Q.
        * apply Z.eqb_eq in Q; subst n. apply mem_false in Hnr; rewrite Hnr, Ml0, Gq; reflexivity.
        * cbn [mem existsb]; rewrite Q; reflexivity.
      + eapply frame_trans; eassumption.
      + unfold same_shape; rewrite B3; cbn [fnl olen oidx with_fields]; splits; assumption.
      + assumption.
      + intros n Hn; apply A6; right; assumption.
      + eapply A7'; reflexivity.
    - (* unchanged *)
      exists ext; cbn [fst snd]; splits; auto.
      + eapply repr_ext; [exact A2|]. intros n Hn; unfold Emix, G.
        cbn [mem existsb]. destruct (n =? a) eqn:Q; cbn [orb]; [|reflexivity].
        apply Z.eqb_eq in Q; subst n. apply mem_false in Hnr; fold (mem a r); rewrite Hnr, Ml0, Gq; reflexivity.
      + unfold same_shape; splits; assumption.
      + intros n Hn; apply A6; right; assumption.
      + eapply A7'; reflexivity.
    - exists ext, (a :: r); cbn [fst snd]; splits; auto; try discriminate; try (unfold same_shape; splits; assumption).
      exists a, e; splits; auto. apply mem_In; assumption. }
  (* (the last conjunct of F is J's bookkeeping of the processed names) *)
  specialize (L Hs).
  destruct (loop f l0 (s, o)) as [[s' o'] x]; destruct x.
  - destruct L as (ext & A1 & A2 & A3 & A4 & A5 & A6 & A7); cbn [fst snd] in *.
    exists ext, []; splits; auto; try apply A4.
  - destruct L as (ext & todo & A1 & A2 & A3 & A4 & A5 & A6 & A7 & A8); cbn [fst snd] in *.
    exists ext, todo; splits; auto; try apply A4; intros; congruence.
  - destruct L as (ext & todo & A1 & A2 & A3 & A4 & A5 & A6 & A7 & A8); cbn [fst snd] in *.
    exists ext, todo; splits; auto; try apply A4; intros; congruence.
Qed.
End MapLoop.
