(* The re-assembly by pid, as a statement about arrival orders: whatever
   permutation of the result records the master receives, storing them in
   pid_result_list_map and concatenating by pid gives the input order. *)
From Coq Require Import ZArith List Bool Arith Lia Permutation.
From Sky Require Import Result M_Parallel P_Parallel.
Import ListNotations.
Local Open Scope nat_scope.

Lemma fold_dset_fresh {V} (arr d0 : list (nat * V)) :
  NoDup (map fst d0 ++ map fst arr) ->
  fold_left (fun d e => dset (fst e) (snd e) d) arr d0 = d0 ++ arr.
Proof.
  revert d0; induction arr as [|[k v] arr IH]; intros d0 ND; cbn [fold_left fst snd].
  - now rewrite app_nil_r.
  - cbn [map fst] in ND.
    assert (Hfresh : ~ In k (map fst d0)).
    { intro Hin. apply NoDup_remove_2 in ND. apply ND. apply in_or_app. now left. }
    rewrite (dset_fresh k v d0 Hfresh), IH.
    + rewrite <- app_assoc. reflexivity.
    + rewrite map_app. cbn [map fst]. rewrite <- app_assoc. exact ND.
Qed.

Lemma map_fst_combine {A B} (l : list A) (l' : list B) :
  length l = length l' -> map fst (combine l l') = l.
Proof.
  revert l'; induction l as [|a l IH]; intros [|b l'] H; cbn in *; try reflexivity; try discriminate.
  f_equal. apply IH. lia.
Qed.

Lemma In_fst_unique {V} (c : list (nat * V)) p r r' :
  NoDup (map fst c) -> In (p, r) c -> In (p, r') c -> r = r'.
Proof.
  intros ND H1 H2. pose proof (dget_In p r c ND H1) as E1. pose proof (dget_In p r' c ND H2) as E2.
  congruence.
Qed.

Lemma Forall2_impl_In {A B} (P Q : A -> B -> Prop) l rs :
  (forall a b, In a l -> P a b -> Q a b) -> Forall2 P l rs -> Forall2 Q l rs.
Proof.
  intros H HF; induction HF as [|a b l rs Hab _ IH]; constructor.
  - apply H; [now left|exact Hab].
  - apply IH. intros a' b' Hin. apply H. now right.
Qed.

Lemma Forall2_combine_In {A B} (l : list A) (xs : list B) :
  length l = length xs -> Forall2 (fun p x => In (p, x) (combine l xs)) l xs.
Proof.
  revert xs; induction l as [|a l IH]; intros [|x xs] H; cbn in *; try discriminate; constructor.
  - now left.
  - eapply Forall2_impl_In; [|apply IH; lia]. intros p y _ Hin. now right.
Qed.

Lemma Forall2_unique {A B} (P : A -> B -> Prop) l rs xs :
  (forall p r r', In p l -> P p r -> P p r' -> r = r') ->
  Forall2 P l rs -> Forall2 P l xs -> rs = xs.
Proof.
  intros Hu H1; revert xs; induction H1 as [|p r l rs Hp _ IH]; intros xs H2; inversion H2; subst.
  - reflexivity.
  - f_equal.
    + eapply Hu; [now left|eassumption|eassumption].
    + apply IH; [|assumption]. intros q a b Hq. apply Hu. now right.
Qed.

Lemma assemble_any_arrival {R} np (xs : list (list R)) (r0 : list R) (arr : list (nat * list R)) :
  length xs = np ->
  Permutation arr (combine (seq 1 np) xs) ->
  assemble (fold_left (fun d e => dset (fst e) (snd e) d) arr [(0, r0)]) = Ok (r0 ++ concat xs).
Proof.
  intros Hlen HP. subst np.
  assert (Hkeys : Permutation (map fst arr) (seq 1 (length xs))).
  { rewrite <- (map_fst_combine (seq 1 (length xs)) xs) by (rewrite seq_length; lia).
    now apply Permutation_map. }
  assert (NDarr : NoDup (map fst arr)).
  { eapply Permutation_NoDup; [apply Permutation_sym; exact Hkeys|apply seq_NoDup]. }
  assert (Hge : forall p, In p (map fst arr) -> 1 <= p <= (length xs)).
  { intros p Hp. eapply Permutation_in in Hp; [|exact Hkeys]. apply in_seq in Hp. lia. }
  assert (ND : NoDup (map fst ((0, r0) :: arr))).
  { cbn [map fst]. constructor; [|exact NDarr]. intro H0. apply Hge in H0. lia. }
  rewrite fold_dset_fresh by exact ND. cbn [app].
  unfold assemble. cbn [length]. rewrite (Permutation_length HP), combine_length, seq_length, Nat.min_id.
  destruct (assemble_from_spec ((0, r0) :: arr) (seq 0 (S (length xs))) ND) as [rs [Hrs HF]].
  { intros p Hp. apply in_seq in Hp. cbn [map fst]. destruct (Nat.eq_dec p 0) as [->|Hne]; [now left|right].
    eapply Permutation_in; [apply Permutation_sym; exact Hkeys|]. apply in_seq. lia. }
  rewrite Hrs. f_equal. cbn [seq] in HF. inversion HF as [|p0 x0 ps rs' Hx0 HF']; subst.
  cbn [concat]. f_equal.
  - destruct Hx0 as [E|Hin]; [now inversion E|].
    exfalso. assert (H0 : In 0 (map fst arr)) by (apply in_map_iff; now exists (0, x0)).
    apply Hge in H0. lia.
  - f_equal.
    apply (Forall2_unique (fun p r => In (p, r) (combine (seq 1 (length xs)) xs)) (seq 1 (length xs))).
    + intros p a b _ Ha Hb. eapply In_fst_unique; [|exact Ha|exact Hb].
      rewrite map_fst_combine by (rewrite seq_length; lia). apply seq_NoDup.
    + eapply Forall2_impl_In; [|exact HF']. intros p y Hp [E|Hin].
      * inversion E; subst. apply in_seq in Hp. lia.
      * eapply Permutation_in; [exact HP|exact Hin].
    + apply Forall2_combine_In. rewrite seq_length. lia.
Qed.
