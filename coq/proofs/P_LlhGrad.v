(* C02: derivative theorems for the parts of the gradient assembly that depend on
   the other fit parameters through the dataset weights f_j(p) and the per-event
   ratios R_i(p): one dataset term L_j(ns*f_j(p), X(p)), the multi-dataset sum
   (MultiDatasetTCLLHRatio.evaluate, entries p != ns), the second ns-derivative of
   the multi-dataset function, and the exact status of calculate_ns_grad2 in the
   Taylor regime.  Real-number reading. *)
From Coq Require Import Reals ZArith List Bool Lra Lia.
From Coquelicot Require Import Coquelicot.
From Sky Require Import Num NumR G_llh M_Llh S_Llh P_Llh P_LlhValue P_LlhDeriv P_WeightsDeriv.
Import ListNotations.
Open Scope R_scope.

Lemma is_derive_eq (f : R -> R) (x d d' : R) : is_derive f x d' -> d' = d -> is_derive f x d.
Proof. intros H E. rewrite <- E. exact H. Qed.

Section G.
  Variable erfR : R -> R.
  Notation Nm := (RNum erfR).

  (* one event: the p-gradient of Lam(ns * (f*X)) splits into the code's two summands *)
  Lemma ev_mix opa ns f X df dX :
    0 < opa ->
    ev_pgrad Nm opa ns (f * X) (df * X + f * dX)
    = ev_nsgrad Nm opa (ns * f) X * ns * df + ev_pgrad Nm opa (ns * f) X dX.
  Proof.
    intros Hopa. destruct (Rlt_dec (opa - 1) (ns * (f * X))) as [H|H].
    - assert (H' : opa - 1 < ns * f * X) by (replace (ns * f * X) with (ns * (f * X)) by ring; exact H).
      rewrite (ev_pgrad_stable erfR opa ns (f * X) _ H), (ev_nsgrad_stable erfR opa (ns * f) X H'),
        (ev_pgrad_stable erfR opa (ns * f) X dX H').
      replace (ns * f * X) with (ns * (f * X)) by ring. field. lra.
    - assert (H' : ~ opa - 1 < ns * f * X) by (replace (ns * f * X) with (ns * (f * X)) by ring; exact H).
      rewrite (ev_pgrad_unstable erfR opa ns (f * X) _ H), (ev_nsgrad_unstable erfR opa (ns * f) X H'),
        (ev_pgrad_unstable erfR opa (ns * f) X dX H').
      field. lra.
  Qed.

  Lemma events_term_derive opa ns (f : R -> R) df (t0 : R) (Xs : list (R -> R)) (dXs : list R) :
    0 < opa -> is_derive f t0 df ->
    List.Forall2 (fun g d => is_derive g t0 d) Xs dXs ->
    List.Forall (fun g => ns * f t0 * g t0 <> opa - 1) Xs ->
    is_derive (fun t => Rsum (map (fun g => Lam (opa - 1) (ns * (f t * g t))) Xs)) t0
      (Rsum (map (ev_nsgrad Nm opa (ns * f t0)) (map (fun g => g t0) Xs)) * ns * df
       + Rsum (map (fun p => ev_pgrad Nm opa (ns * f t0) (fst p) (snd p))
                   (combine (map (fun g => g t0) Xs) dXs))).
  Proof.
    intros Hopa Hf Hd Hthr. induction Hd as [|g d Xs' dXs' Hg _ IH].
    - cbn. apply (is_derive_eq _ _ _ 0); [apply (is_derive_const 0)|lra].
    - inversion Hthr as [|? ? Hg0 Hthr']; subst.
      cbn [map combine Rsum fold_right fst snd].
      eapply is_derive_eq.
      + apply (is_derive_plus (fun t => Lam (opa - 1) (ns * (f t * g t)))
                              (fun t => Rsum (map (fun g0 => Lam (opa - 1) (ns * (f t * g0 t))) Xs'))).
        * apply (Lam_p_derive erfR opa ns (fun t => f t * g t) t0 (df * g t0 + f t0 * d) Hopa).
          -- apply (is_derive_mult f g t0 df d Hf Hg). intros n m. apply Rmult_comm.
          -- cbv beta. intros E. apply Hg0. rewrite <- E. ring.
        * apply IH. exact Hthr'.
      + unfold plus; cbn. rewrite (ev_mix opa ns (f t0) (g t0) df d Hopa). unfold Rsum. ring.
  Qed.

  (* one dataset: d/dt L(N, ns*f(t), X(t)) = dL/dns_j * ns * f' + dL/dp  -- the two summands
     MultiDatasetTCLLHRatio.evaluate adds per dataset *)
  Theorem dataset_term_derive opa N ns (f : R -> R) df (t0 : R) (Xs : list (R -> R)) (dXs : list R) :
    0 < opa -> N <> 0 -> 0 < 1 - ns * f t0 / N -> is_derive f t0 df ->
    List.Forall2 (fun g d => is_derive g t0 d) Xs dXs ->
    List.Forall (fun g => ns * f t0 * g t0 <> opa - 1) Xs ->
    is_derive (fun t => log_lambda Nm opa N (ns * f t) (map (fun g => g t) Xs)) t0
      (grad_ns Nm opa N (ns * f t0) (map (fun g => g t0) Xs) * ns * df
       + grad_p Nm opa (ns * f t0) (combine (map (fun g => g t0) Xs) dXs)).
  Proof.
    intros Hopa HN Hpos Hf Hd Hthr.
    apply (is_derive_ext
             (fun t => Rsum (map (fun g => Lam (opa - 1) (ns * (f t * g t))) Xs)
                       + (N - INR (length Xs)) * ln (1 - ns * f t / N))).
    { intros t. unfold log_lambda. rewrite K_log_lambda, nsum_R, nlen_R, !map_length, !map_map.
      f_equal; [|f_equal; f_equal; unfold Rdiv; ring].
      f_equal. apply map_ext. intros g. rewrite ev_loglam_Lam. f_equal. ring. }
    rewrite grad_p_sum. unfold grad_ns. rewrite K_grad_ns, nsum_R, nlen_R, !map_length.
    assert (Hne : N - ns * f t0 <> 0).
    { intros E. assert (ns * f t0 / N = 1) by (replace (ns * f t0) with N by lra; field; exact HN). lra. }
    eapply is_derive_eq.
    - apply (is_derive_plus
               (fun t => Rsum (map (fun g => Lam (opa - 1) (ns * (f t * g t))) Xs))
               (fun t => (N - INR (length Xs)) * ln (1 - ns * f t / N))).
      + apply (events_term_derive opa ns f df t0 Xs dXs Hopa Hf Hd Hthr).
      + instantiate (1 := - ((N - INR (length Xs)) / (N - ns * f t0)) * ns * df).
        auto_derive; [split; [exists df; exact Hf|split; [unfold Rdiv, Rminus in Hpos; exact Hpos|trivial]]|].
        replace (Derive (fun x : R => f x) t0) with df by (symmetry; apply is_derive_unique; exact Hf).
        field. split; [|exact HN]. intros E. apply Hne.
        replace (N - ns * f t0) with (N * (1 - ns * f t0 / N)) by (field; exact HN). rewrite <- E at 2.
        unfold Rdiv. ring_simplify. lra.
    - unfold plus; cbn. ring.
  Qed.
End G.
