(* C02: derivative theorems for the parts of the gradient assembly that depend on
   the other fit parameters through the dataset weights f_j(p) and the per-event
   ratios R_i(p): one dataset term L_j(ns*f_j(p), X(p)), the multi-dataset sum
   (MultiDatasetTCLLHRatio.evaluate, entries p != ns), the second ns-derivative of
   the multi-dataset function, and the exact status of calculate_ns_grad2 in the
   Taylor regime.  Real-number reading. *)
From Coq Require Import Reals ZArith List Bool Lra Lia.
From Coquelicot Require Import Coquelicot.
From Sky Require Import Num NumR G_llh M_Llh S_Llh S_LlhGrad P_Llh P_LlhValue P_LlhDeriv P_WeightsDeriv.
Import ListNotations.
Open Scope R_scope.

Lemma is_derive_eq (f : R -> R) (x d d' : R) : is_derive f x d' -> d' = d -> is_derive f x d.
Proof. intros H E. rewrite <- E. exact H. Qed.

Section G.
  Variable erfR : R -> R.
  Notation Nm := (RNum erfR).

  (* one event: the p-gradient of Lam(ns * (f*X)) splits into the code's two summands *)
  Lemma ev_mix opa ns f X df dX :
    0 < opa ->
    ev_pgrad Nm opa ns (f * X) (df * X + f * dX)
    = ev_nsgrad Nm opa (ns * f) X * ns * df + ev_pgrad Nm opa (ns * f) X dX.
  Proof.
    intros Hopa. destruct (Rlt_dec (opa - 1) (ns * (f * X))) as [H|H].
    - assert (H' : opa - 1 < ns * f * X) by (replace (ns * f * X) with (ns * (f * X)) by ring; exact H).
      rewrite (ev_pgrad_stable erfR opa ns (f * X) _ H), (ev_nsgrad_stable erfR opa (ns * f) X H'),
        (ev_pgrad_stable erfR opa (ns * f) X dX H').
      replace (ns * f * X) with (ns * (f * X)) by ring. field. lra.
    - assert (H' : ~ opa - 1 < ns * f * X) by (replace (ns * f * X) with (ns * (f * X)) by ring; exact H).
      rewrite (ev_pgrad_unstable erfR opa ns (f * X) _ H), (ev_nsgrad_unstable erfR opa (ns * f) X H'),
        (ev_pgrad_unstable erfR opa (ns * f) X dX H').
      field. lra.
  Qed.

  Lemma events_term_derive opa ns (f : R -> R) df (t0 : R) (Xs : list (R -> R)) (dXs : list R) :
    0 < opa -> is_derive f t0 df ->
    List.Forall2 (fun g d => is_derive g t0 d) Xs dXs ->
    List.Forall (fun g => ns * f t0 * g t0 <> opa - 1) Xs ->
    is_derive (fun t => Rsum (map (fun g => Lam (opa - 1) (ns * (f t * g t))) Xs)) t0
      (Rsum (map (ev_nsgrad Nm opa (ns * f t0)) (map (fun g => g t0) Xs)) * ns * df
       + Rsum (map (fun p => ev_pgrad Nm opa (ns * f t0) (fst p) (snd p))
                   (combine (map (fun g => g t0) Xs) dXs))).
  Proof.
    intros Hopa Hf Hd Hthr. induction Hd as [|g d Xs' dXs' Hg _ IH].
    - cbn. apply (is_derive_eq _ _ _ 0); [apply (is_derive_const 0)|lra].
    - inversion Hthr as [|? ? Hg0 Hthr']; subst.
      cbn [map combine Rsum fold_right fst snd].
      eapply is_derive_eq.
      + apply (is_derive_plus (fun t => Lam (opa - 1) (ns * (f t * g t)))
                              (fun t => Rsum (map (fun g0 => Lam (opa - 1) (ns * (f t * g0 t))) Xs'))).
        * apply (Lam_p_derive erfR opa ns (fun t => f t * g t) t0 (df * g t0 + f t0 * d) Hopa).
          -- apply (is_derive_mult f g t0 df d Hf Hg). intros n m. apply Rmult_comm.
          -- cbv beta. intros E. apply Hg0. rewrite <- E. ring.
        * apply IH. exact Hthr'.
      + unfold plus; cbn. rewrite (ev_mix opa ns (f t0) (g t0) df d Hopa). unfold Rsum. ring.
  Qed.

  (* one dataset: d/dt L(N, ns*f(t), X(t)) = dL/dns_j * ns * f' + dL/dp  -- the two summands
     MultiDatasetTCLLHRatio.evaluate adds per dataset *)
  Theorem dataset_term_derive opa N ns (f : R -> R) df (t0 : R) (Xs : list (R -> R)) (dXs : list R) :
    0 < opa -> N <> 0 -> 0 < 1 - ns * f t0 / N -> is_derive f t0 df ->
    List.Forall2 (fun g d => is_derive g t0 d) Xs dXs ->
    List.Forall (fun g => ns * f t0 * g t0 <> opa - 1) Xs ->
    is_derive (fun t => log_lambda Nm opa N (ns * f t) (map (fun g => g t) Xs)) t0
      (grad_ns Nm opa N (ns * f t0) (map (fun g => g t0) Xs) * ns * df
       + grad_p Nm opa (ns * f t0) (combine (map (fun g => g t0) Xs) dXs)).
  Proof.
    intros Hopa HN Hpos Hf Hd Hthr.
    apply (is_derive_ext
             (fun t => Rsum (map (fun g => Lam (opa - 1) (ns * (f t * g t))) Xs)
                       + (N - INR (length Xs)) * ln (1 - ns * f t / N))).
    { intros t. unfold log_lambda. rewrite K_log_lambda, nsum_R, nlen_R, !map_length, !map_map.
      f_equal; [|f_equal; f_equal; unfold Rdiv; ring].
      f_equal. apply map_ext. intros g. rewrite ev_loglam_Lam. f_equal. ring. }
    rewrite grad_p_sum. unfold grad_ns. rewrite K_grad_ns, nsum_R, nlen_R, !map_length.
    assert (Hne : N - ns * f t0 <> 0).
    { intros E. assert (ns * f t0 / N = 1) by (replace (ns * f t0) with N by lra; field; exact HN). lra. }
    eapply is_derive_eq.
    - apply (is_derive_plus
               (fun t => Rsum (map (fun g => Lam (opa - 1) (ns * (f t * g t))) Xs))
               (fun t => (N - INR (length Xs)) * ln (1 - ns * f t / N))).
      + apply (events_term_derive opa ns f df t0 Xs dXs Hopa Hf Hd Hthr).
      + instantiate (1 := - ((N - INR (length Xs)) / (N - ns * f t0)) * ns * df).
        auto_derive; [split; [exists df; exact Hf|split; [unfold Rdiv, Rminus in Hpos; exact Hpos|trivial]]|].
        replace (Derive (fun x : R => f x) t0) with df by (symmetry; apply is_derive_unique; exact Hf).
        field. split; [exact Hne|exact HN].
    - unfold plus; cbn. ring.
  Qed.

  (* ---- MultiDatasetTCLLHRatio.evaluate, entries p <> ns *)
  Lemma multi_grad_p_sum opa ns (l : list (R * R * (R * list R * list R))) :
    fold_left (fun acc p =>
                 let fj := fst (fst p) in let dfj := snd (fst p) in
                 let Nj := fst (fst (snd p)) in let Rj := snd (fst (snd p)) in let dRj := snd (snd p) in
                 let nsj := k_nsf Nm ns fj in
                 let gns := evaluate_grad_ns Nm opa Nj nsj Rj in
                 let gp := evaluate_grad_p Nm opa Nj nsj Rj dRj in
                 k_multi_grad_p Nm acc (k_multi_ns_summand Nm gns ns dfj) gp) l 0
    = Rsum (map (fun p => evaluate_grad_ns Nm opa (fst (fst (snd p))) (ns * fst (fst p)) (snd (fst (snd p)))
                          * ns * snd (fst p)
                          + evaluate_grad_p Nm opa (fst (fst (snd p))) (ns * fst (fst p))
                                            (snd (fst (snd p))) (snd (snd p))) l).
  Proof.
    assert (G : forall acc,
      fold_left (fun acc p =>
                 let fj := fst (fst p) in let dfj := snd (fst p) in
                 let Nj := fst (fst (snd p)) in let Rj := snd (fst (snd p)) in let dRj := snd (snd p) in
                 let nsj := k_nsf Nm ns fj in
                 let gns := evaluate_grad_ns Nm opa Nj nsj Rj in
                 let gp := evaluate_grad_p Nm opa Nj nsj Rj dRj in
                 k_multi_grad_p Nm acc (k_multi_ns_summand Nm gns ns dfj) gp) l acc
      = acc + Rsum (map (fun p => evaluate_grad_ns Nm opa (fst (fst (snd p))) (ns * fst (fst p)) (snd (fst (snd p)))
                          * ns * snd (fst p)
                          + evaluate_grad_p Nm opa (fst (fst (snd p))) (ns * fst (fst p))
                                            (snd (fst (snd p))) (snd (snd p))) l)).
    { induction l as [|p l IH]; intros acc; cbn [fold_left map]; [cbn; lra|].
      cbv zeta in *. rewrite IH, K_multi_grad_p, K_multi_ns_summand, K_nsf. unfold Rsum. cbn [fold_right]. lra. }
    rewrite G. lra.
  Qed.

  Lemma combine_map2 {A B C} (g : A -> B) (h : A -> C) (l : list A) :
    combine (map g l) (map h l) = map (fun a => (g a, h a)) l.
  Proof. induction l; cbn; congruence. Qed.

  (* side conditions of one dataset at the point t0 *)
  Definition ds_ok (opa ns t0 : R) (d : dsfun) : Prop :=
    dq_N d <> 0 /\ 0 < 1 - ns * dq_f d t0 / dq_N d /\ is_derive (dq_f d) t0 (dq_df d)
    /\ List.Forall2 (fun g dg => is_derive g t0 dg) (dq_R d) (dq_dR d)
    /\ List.Forall (fun g => ns * dq_f d t0 * Xof (dq_N d) (g t0) <> opa - 1) (dq_R d).

  Lemma dataset_eval_derive opa ns t0 (d : dsfun) :
    0 < opa -> ds_ok opa ns t0 d ->
    is_derive (fun t => evaluate_value Nm opa (dq_N d) (ns * dq_f d t) (at_t (dq_R d) t)) t0
      (evaluate_grad_ns Nm opa (dq_N d) (ns * dq_f d t0) (at_t (dq_R d) t0) * ns * dq_df d
       + evaluate_grad_p Nm opa (dq_N d) (ns * dq_f d t0) (at_t (dq_R d) t0) (dq_dR d)).
  Proof.
    intros Hopa (HN & Hpos & Hf & Hd & Hthr).
    set (XF := map (fun g : R -> R => fun t => k_Xi Nm (g t) (dq_N d)) (dq_R d)).
    assert (EX : forall t, map (fun g => g t) XF = Xs Nm (dq_N d) (at_t (dq_R d) t)).
    { intros t. unfold XF, Xs, at_t. rewrite !map_map. reflexivity. }
    apply (is_derive_ext (fun t => log_lambda Nm opa (dq_N d) (ns * dq_f d t) (map (fun g => g t) XF))).
    { intros t. rewrite EX. reflexivity. }
    unfold evaluate_grad_ns, evaluate_grad_p. rewrite <- EX.
    replace (dXs Nm (dq_N d) (dq_dR d)) with (map (fun dr => dr / dq_N d) (dq_dR d))
      by (unfold dXs; apply map_ext; intros a; rewrite K_dXi; reflexivity).
    apply dataset_term_derive; try assumption.
    - unfold XF. clear - Hd HN. induction Hd as [|g dg l l' Hg _ IH]; cbn [map]; constructor; [|exact IH].
      apply (is_derive_ext (fun t => (g t - 1) / dq_N d)); [intros t; rewrite K_Xi; reflexivity|].
      auto_derive; [exists dg; exact Hg|].
      replace (Derive (fun x : R => g x) t0) with dg by (symmetry; apply is_derive_unique; exact Hg).
      field. exact HN.
    - unfold XF. clear - Hthr. induction Hthr as [|g l Hg _ IH]; cbn [map]; constructor; [|exact IH].
      rewrite K_Xi. exact Hg.
  Qed.

  (* C02.5 (p): d/dp sum_j L_j(ns f_j(p), R_j(p)) = sum_j (dL_j/dns_j * ns * df_j/dp + dL_j/dp),
     which is what the loop of MultiDatasetTCLLHRatio.evaluate accumulates in grads[pmask] *)
  Theorem multi_value_p_derive opa ns t0 (l : list dsfun) :
    0 < opa -> List.Forall (ds_ok opa ns t0) l ->
    is_derive (fun t => multi_value Nm opa ns (map (fun d => dq_f d t) l)
                                     (map (fun d => (dq_N d, at_t (dq_R d) t)) l)) t0
      (multi_grad_p Nm opa ns (map (fun d => dq_f d t0) l) (map dq_df l)
                    (map (fun d => (dq_N d, at_t (dq_R d) t0, dq_dR d)) l)).
  Proof.
    intros Hopa H. unfold multi_grad_p. rewrite !combine_map2. cbn [nzero RNum].
    rewrite multi_grad_p_sum, map_map. cbn [fst snd].
    apply (is_derive_ext
             (fun t => Rsum (map (fun g => g t)
                (map (fun d => fun t => evaluate_value Nm opa (dq_N d) (ns * dq_f d t) (at_t (dq_R d) t)) l)))).
    { intros t. unfold multi_value. rewrite combine_map2, nsum_R, !map_map. cbn [fst snd].
      f_equal; apply map_ext; intros d; rewrite ?K_nsf; reflexivity. }
    apply Rsum_derive.
    induction H as [|d l' Hd _ IH]; cbn [map]; constructor; [|exact IH].
    apply dataset_eval_derive; assumption.
  Qed.

  (* ---- second derivative in ns *)
  Lemma ev_nsgrad_derive opa ns x :
    0 < opa -> ns * x <> opa - 1 ->
    is_derive (fun t => ev_nsgrad Nm opa t x) ns
      (if Rlt_dec (opa - 1) (ns * x) then - (ev_nsgrad Nm opa ns x * ev_nsgrad Nm opa ns x)
       else - (x * x) / (opa * opa)).
  Proof.
    intros Hopa Hne. destruct (Rlt_dec (opa - 1) (ns * x)) as [Hs|Hu].
    - rewrite (ev_nsgrad_stable erfR opa ns x Hs).
      apply (is_derive_ext_loc (fun t => x / (1 + t * x))).
      + destruct (loc_lt_mul _ _ _ Hs) as (eps & He). exists eps. intros t Ht.
        symmetry. apply ev_nsgrad_stable. apply He. exact Ht.
      + apply nsgrad_stable_derive. lra.
    - assert (Hlt : ns * x < opa - 1) by lra.
      apply (is_derive_ext_loc (fun t => (1 - (t * x - (opa - 1)) / opa) * x / opa)).
      + destruct (loc_gt_mul _ _ _ Hlt) as (eps & He). exists eps. intros t Ht.
        symmetry. apply ev_nsgrad_unstable. specialize (He t Ht). lra.
      + auto_derive; [trivial|]. field. lra.
  Qed.

  (* what calculate_ns_grad2 leaves out for one event in the Taylor regime *)
  Definition grad2_gap (opa ns x : R) : R :=
    if Rlt_dec (opa - 1) (ns * x) then 0
    else ev_nsgrad Nm opa ns x * ev_nsgrad Nm opa ns x - (x * x) / (opa * opa).

  (* the exact statement: the derivative of the ns-gradient is the value returned by
     calculate_ns_grad2 plus the gap of every event in the Taylor regime (no gap: stable) *)
  Theorem ns_grad2_exact opa N ns (Rs : list R) (nb : R) :
    0 < opa -> N - ns <> 0 -> N = INR (length Rs) + nb ->
    List.Forall (fun r => ns * Xof N r <> opa - 1) Rs ->
    is_derive (fun t => evaluate_grad_ns Nm opa N t Rs) ns
      (evaluate_ns_grad2 Nm opa N ns Rs nb + Rsum (map (fun r => grad2_gap opa ns (Xof N r)) Rs)).
  Proof.
    intros Hopa HNns HN Hthr.
    apply (is_derive_ext (fun t => Rsum (map (fun g => g t) (map (fun r => fun t => ev_nsgrad Nm opa t (Xof N r)) Rs))
                                   + - ((N - INR (length Rs)) / (N - t)))).
    { intros t. unfold evaluate_grad_ns, grad_ns, Xs.
      rewrite K_grad_ns, nsum_R, nlen_R, !map_length, !map_map. unfold Rminus at 2.
      assert (Em : map (fun x => ev_nsgrad Nm opa t (Xof N x)) Rs = map (fun x => ev_nsgrad Nm opa t (k_Xi Nm x N)) Rs)
        by (apply map_ext; intros r; rewrite K_Xi; reflexivity).
      rewrite Em. reflexivity. }
    unfold evaluate_ns_grad2, ns_grad2, Xs.
    rewrite K_nsgrad2, K_N_total, nsum_R, nlen_R, !map_length, !map_map, <- HN.
    eapply is_derive_eq.
    - apply (is_derive_plus
               (fun t => Rsum (map (fun g => g t) (map (fun r => fun t => ev_nsgrad Nm opa t (Xof N r)) Rs)))
               (fun t => - ((N - INR (length Rs)) / (N - t)))).
      + apply Rsum_derive.
        instantiate (1 := map (fun r => if Rlt_dec (opa - 1) (ns * Xof N r)
                                        then - (ev_nsgrad Nm opa ns (Xof N r) * ev_nsgrad Nm opa ns (Xof N r))
                                        else - (Xof N r * Xof N r) / (opa * opa)) Rs).
        clear - Hthr Hopa. induction Hthr as [|r l Hr _ IH]; cbn [map]; constructor; [|exact IH].
        apply ev_nsgrad_derive; assumption.
      + apply bkg_grad_derive. exact HNns.
    - unfold plus; cbn.
      assert (E : Rsum (map (fun r => if Rlt_dec (opa - 1) (ns * Xof N r)
                                        then - (ev_nsgrad Nm opa ns (Xof N r) * ev_nsgrad Nm opa ns (Xof N r))
                                        else - (Xof N r * Xof N r) / (opa * opa)) Rs)
                  = - Rsum (map (fun x => ev_nsgrad Nm opa ns ((x - 1) / N) * ev_nsgrad Nm opa ns ((x - 1) / N)) Rs)
                    + Rsum (map (fun r => grad2_gap opa ns (Xof N r)) Rs)).
      { clear. induction Rs as [|r l IH]; cbn [map Rsum fold_right]; [lra|].
        unfold Rsum in IH. rewrite IH. unfold grad2_gap, Xof.
        destruct (Rlt_dec (opa - 1) (ns * ((r - 1) / N))); unfold Rdiv; lra. }
      rewrite E. lra.
  Qed.

  (* ... and the gap is not zero: calculate_ns_grad2 is NOT the derivative of the
     ns-gradient in the Taylor regime (the property only asks for the stable regime) *)
  Theorem ns_grad2_unstable_refuted :
    exists opa N ns Rs nb D,
      0 < opa /\ N - ns <> 0 /\ N = INR (length Rs) + nb
      /\ List.Forall (fun r => ns * Xof N r < opa - 1) Rs
      /\ is_derive (fun t => evaluate_grad_ns Nm opa N t Rs) ns D
      /\ D <> evaluate_ns_grad2 Nm opa N ns Rs nb.
  Proof.
    exists (1 / 2), 1, (3 / 4), [0], 0.
    assert (Hu : ~ 1 / 2 - 1 < 3 / 4 * Xof 1 0) by (unfold Xof; lra).
    pose proof (ns_grad2_exact (1 / 2) 1 (3 / 4) [0] 0) as H.
    eexists. split; [lra|]. split; [lra|]. split; [cbn; lra|].
    split; [constructor; [unfold Xof; lra|constructor]|].
    split.
    - apply H; [lra|lra|cbn; lra|constructor; [unfold Xof; lra|constructor]].
    - cbn [map Rsum fold_right]. unfold grad2_gap.
      destruct (Rlt_dec (1 / 2 - 1) (3 / 4 * Xof 1 0)) as [Hc|_]; [contradiction|].
      rewrite (ev_nsgrad_unstable erfR (1 / 2) (3 / 4) (Xof 1 0) Hu). unfold Xof. lra.
  Qed.

  (* the multi-dataset function: d/dns sum_j f_j g_j(ns f_j) = sum_j f_j^2 g_j'(ns f_j)
     (MultiDatasetTCLLHRatio.calculate_ns_grad2), all events of all datasets stable *)
  Theorem multi_ns_grad2_is_derivative opa ns (l : list (R * (R * list R * R))) :
    0 < opa ->
    List.Forall (fun p => let f := fst p in let N := fst (fst (snd p)) in
                          let Rs := snd (fst (snd p)) in let nb := snd (snd p) in
                          N - ns * f <> 0 /\ N = INR (length Rs) + nb
                          /\ List.Forall (fun r => opa - 1 < ns * f * Xof N r) Rs) l ->
    is_derive (fun t => multi_grad_ns Nm opa t (map fst l) (map (fun p => fst (snd p)) l)) ns
              (multi_ns_grad2 Nm opa ns (map fst l) (map snd l)).
  Proof.
    intros Hopa H.
    apply (is_derive_ext
             (fun t => Rsum (map (fun g => g t)
                (map (fun p => fun t => evaluate_grad_ns Nm opa (fst (fst (snd p))) (t * fst p) (snd (fst (snd p))) * fst p) l)))).
    { intros t. rewrite multi_grad_ns_sum, combine_map2, !map_map. reflexivity. }
    unfold multi_ns_grad2. rewrite combine_map2, nsum_R, map_map. cbn [fst snd].
    apply Rsum_derive.
    induction H as [|p l' (HN & HNb & Hst) _ IH]; cbn [map]; constructor; [|exact IH].
    rewrite K_multi_nsgrad2_term, K_nsf.
    eapply is_derive_eq.
    - apply (is_derive_mult (fun t => evaluate_grad_ns Nm opa (fst (fst (snd p))) (t * fst p) (snd (fst (snd p))))
                            (fun _ => fst p) ns).
      + apply (is_derive_comp (fun u => evaluate_grad_ns Nm opa (fst (fst (snd p))) u (snd (fst (snd p))))
                              (fun t => t * fst p) ns).
        * apply (ns_grad2_is_derivative erfR opa (fst (fst (snd p))) (ns * fst p) (snd (fst (snd p))) (snd (snd p)));
            assumption.
        * instantiate (1 := fst p). auto_derive; [trivial|]. ring.
      + apply is_derive_const.
      + intros n m. apply Rmult_comm.
    - unfold plus, mult, scal, zero; cbn. unfold mult; cbn. ring.
  Qed.
End G.
