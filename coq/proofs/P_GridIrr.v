(* C15, irregular grid in exact arithmetic: on a strictly increasing grid
   "lower" is the greatest member <= v and "upper" the least member > v. *)
From Coq Require Import Reals ZArith List Bool Lra Lia.
From Sky Require Import Result PyList Num NumR G_grid M_Grid P_Grid.
Import ListNotations.
Open Scope R_scope.

(* irregular grid, exact arithmetic: on a strictly increasing grid "lower" is
   the greatest member <= v and "upper" the least member > v *)
Fixpoint incr (l : list R) : Prop :=
  match l with
  | a :: ((b :: _) as r) => a < b /\ incr r
  | _ => True
  end.

Lemma incr_tail a r : incr (a :: r) -> incr r.
Proof. destruct r; cbn; tauto. Qed.
Lemma incr_head_lt a r : incr (a :: r) -> Forall (fun y => a < y) r.
Proof.
  revert a. induction r as [|b r IH]; intros a H; [constructor|].
  destruct H as [Hab Hr]. constructor; [exact Hab|].
  specialize (IH b Hr). eapply Forall_impl; [|exact IH]. cbn. intros y Hy. lra.
Qed.

Lemma nth_error_firstn' {A} (l : list A) k i : (i < k)%nat -> nth_error (firstn k l) i = nth_error l i.
Proof.
  revert k i. induction l as [|a l IH]; intros k i H; [rewrite firstn_nil; reflexivity|].
  destruct k; [lia|]. destruct i; [reflexivity|]. cbn. apply IH. lia.
Qed.
Lemma nth_error_skipn' {A} (l : list A) k i : nth_error (skipn k l) i = nth_error l (k + i).
Proof.
  revert l. induction k as [|k IH]; intros l; [reflexivity|].
  destruct l; [cbn; destruct i; reflexivity|]. cbn. apply IH.
Qed.

Section Irr.
  Variable erfR : R -> R.
  Notation RN := (RNum erfR).

  Lemma ss_right_zero l v : Forall (fun y => v < y) l -> ss_right RN l v = 0%Z.
  Proof.
    induction 1 as [|y l Hy _ IH]; cbn [ss_right]; [reflexivity|].
    num_R. destruct (Rleb y v) eqn:E; [apply Rleb_true in E; lra|]. rewrite IH. reflexivity.
  Qed.

  (* the count is the length of the prefix of members <= v *)
  Lemma ss_right_split l v : incr l ->
    exists k : nat, ss_right RN l v = Z.of_nat k /\ (k <= length l)%nat /\
      Forall (fun y => y <= v) (firstn k l) /\ Forall (fun y => v < y) (skipn k l).
  Proof.
    induction l as [|b r IH]; intros Hs.
    - exists 0%nat. cbn. repeat split; try constructor; try lia.
    - cbn [ss_right]. num_R. destruct (Rleb b v) eqn:E.
      + apply Rleb_true in E. destruct (IH (incr_tail _ _ Hs)) as [k [Ek [Hk [F1 F2]]]].
        exists (S k). rewrite Ek. split; [lia|]. split; [cbn [length]; lia|].
        cbn [firstn skipn]. split; [constructor; assumption|assumption].
      + apply Rleb_false in E. assert (v < b) by lra.
        pose proof (incr_head_lt _ _ Hs) as Hall.
        assert (Hall' : Forall (fun y => v < y) r) by (eapply Forall_impl; [|exact Hall]; cbn; intros; lra).
        rewrite (ss_right_zero r v Hall'). exists 0%nat. split; [reflexivity|]. split; [lia|].
        cbn [firstn skipn]. split; [constructor|constructor; assumption].
  Qed.

  Lemma py_get_nat {A} (l : list A) (i : nat) x : nth_error l i = Some x -> py_get l (Z.of_nat i) = Ok x.
  Proof.
    intros H. unfold py_get, zlen.
    assert (Hi : (i < length l)%nat) by (apply nth_error_Some; congruence).
    destruct (Z.of_nat i <? 0)%Z eqn:E1; [apply Z.ltb_lt in E1; lia|].
    destruct (Z.of_nat i <? 0)%Z eqn:E2; [discriminate|].
    destruct (Z.of_nat (length l) <=? Z.of_nat i)%Z eqn:E3; [apply Z.leb_le in E3; lia|].
    cbn [orb]. rewrite Nat2Z.id, H. reflexivity.
  Qed.

  Lemma incr_nth_lt l i j x y : incr l -> (i < j)%nat ->
    nth_error l i = Some x -> nth_error l j = Some y -> x < y.
  Proof.
    revert i j. induction l as [|a r IH]; intros i j Hs Hij Hx Hy; [destruct i; discriminate|].
    destruct j as [|j]; [lia|]. destruct i as [|i].
    - cbn in Hx. inversion Hx; subst a. cbn in Hy.
      pose proof (incr_head_lt _ _ Hs) as Hall. rewrite Forall_forall in Hall.
      apply Hall. eapply nth_error_In; eauto.
    - cbn in Hx, Hy. eapply (IH i j); eauto. apply (incr_tail _ _ Hs). lia.
  Qed.

  Lemma irr_lower_eq grid v : irr_lower RN grid v = py_get grid (ss_right RN grid v - 1)%Z.
  Proof.
    unfold irr_lower. cbv zeta. rewrite !K_ig_lower_idx.
    change (ig_lower_gp_idx0 RN (ss_right RN grid v - 1)%Z) with (ss_right RN grid v - 1)%Z.
    destruct (py_get grid (ss_right RN grid v - 1)%Z); reflexivity.
  Qed.
  Lemma irr_upper_eq grid v : irr_upper RN grid v = py_get grid (ss_right RN grid v).
  Proof.
    unfold irr_upper. cbv zeta. rewrite !K_ig_upper_idx.
    change (ig_upper_gp_idx0 RN (ss_right RN grid v)) with (ss_right RN grid v).
    destruct (py_get grid (ss_right RN grid v)); reflexivity.
  Qed.

  Theorem irregular_lower_upper grid v g0 rest : grid = g0 :: rest -> incr grid -> g0 <= v ->
    (exists lo, irr_lower RN grid v = Ok lo /\ In lo grid /\ lo <= v /\
                (forall y, In y grid -> y <= v -> y <= lo)) /\
    ((exists y, In y grid /\ v < y) ->
     exists up, irr_upper RN grid v = Ok up /\ In up grid /\ v < up /\
                (forall y, In y grid -> v < y -> up <= y)).
  Proof.
    intros Eg Hs H0. destruct (ss_right_split grid v Hs) as [k [Ek [Hk [F1 F2]]]].
    assert (Hk1 : (1 <= k)%nat).
    { destruct k; [|lia]. cbn [skipn] in F2. rewrite Eg in F2. inversion F2; subst. lra. }
    (* split of the grid *)
    assert (Esp : grid = firstn k grid ++ skipn k grid) by (symmetry; apply firstn_skipn).
    split.
    - destruct (nth_error grid (k - 1)) as [lo|] eqn:En;
        [|apply nth_error_None in En; lia].
      exists lo. rewrite irr_lower_eq, Ek.
      replace (Z.of_nat k - 1)%Z with (Z.of_nat (k - 1)) by lia.
      rewrite (py_get_nat grid (k - 1) lo En).
      split; [reflexivity|]. split; [eapply nth_error_In; eauto|].
      assert (Hlo : lo <= v).
      { rewrite Forall_forall in F1. apply F1.
        assert (E' : nth_error (firstn k grid) (k - 1) = Some lo).
        { rewrite nth_error_firstn' by lia; exact En. }
        eapply nth_error_In; eauto. }
      split; [exact Hlo|].
      intros y Hy Hyv. apply In_nth_error in Hy. destruct Hy as [j Hj].
      destruct (Nat.lt_ge_cases j k) as [Hjk|Hjk].
      + destruct (Nat.eq_dec j (k - 1)) as [->|Hne]; [rewrite En in Hj; inversion Hj; lra|].
        left. eapply (incr_nth_lt grid j (k - 1)); eauto. lia.
      + (* y lies in the suffix: v < y, contradiction *)
        exfalso. rewrite Forall_forall in F2.
        assert (In y (skipn k grid)).
        { assert (E' : nth_error (skipn k grid) (j - k) = Some y).
          { rewrite nth_error_skipn'. replace (k + (j - k))%nat with j by lia. exact Hj. }
          eapply nth_error_In; eauto. }
        specialize (F2 y H). lra.
    - intros [y [Hy Hvy]].
      assert (Hlen : (k < length grid)%nat).
      { destruct (Nat.lt_ge_cases k (length grid)); [assumption|].
        exfalso. apply In_nth_error in Hy. destruct Hy as [j Hj].
        assert (Hjl : (j < length grid)%nat) by (apply nth_error_Some; congruence).
        rewrite Forall_forall in F1.
        assert (Hin : In y (firstn k grid)).
        { assert (E' : nth_error (firstn k grid) j = Some y) by (rewrite nth_error_firstn' by lia; exact Hj).
          eapply nth_error_In; eauto. }
        specialize (F1 y Hin). lra. }
      destruct (nth_error grid k) as [up|] eqn:En; [|apply nth_error_None in En; lia].
      exists up. rewrite irr_upper_eq, Ek.
      rewrite (py_get_nat grid k up En).
      split; [reflexivity|]. split; [eapply nth_error_In; eauto|].
      assert (Hup : v < up).
      { rewrite Forall_forall in F2. apply F2.
        assert (E' : nth_error (skipn k grid) 0 = Some up).
        { rewrite nth_error_skipn'. replace (k + 0)%nat with k by lia. exact En. }
        eapply nth_error_In; eauto. }
      split; [exact Hup|].
      intros z Hz Hvz. apply In_nth_error in Hz. destruct Hz as [j Hj].
      destruct (Nat.lt_ge_cases j k) as [Hjk|Hjk].
      + exfalso. rewrite Forall_forall in F1.
        assert (In z (firstn k grid)).
        { assert (E' : nth_error (firstn k grid) j = Some z) by (rewrite nth_error_firstn' by lia; exact Hj).
          eapply nth_error_In; eauto. }
        specialize (F1 z H). lra.
      + destruct (Nat.eq_dec j k) as [->|Hne]; [rewrite En in Hj; inversion Hj; lra|].
        left. eapply (incr_nth_lt grid k j); eauto. lia.
  Qed.
End Irr.

(* ---- nearest *)
Section IrrNearest.
  Variable erfR : R -> R.
  Notation RN := (RNum erfR).

  Lemma ss_left_zero l v : Forall (fun y => v <= y) l -> ss_left RN l v = 0%Z.
  Proof.
    induction 1 as [|y l Hy _ IH]; cbn [ss_left]; [reflexivity|].
    num_R. destruct (Rltb y v) eqn:E; [apply Rltb_true in E; lra|]. rewrite IH. reflexivity.
  Qed.

  Lemma ss_left_split l v : incr l ->
    exists k : nat, ss_left RN l v = Z.of_nat k /\ (k <= length l)%nat /\
      Forall (fun y => y < v) (firstn k l) /\ Forall (fun y => v <= y) (skipn k l).
  Proof.
    induction l as [|b r IH]; intros Hs.
    - exists 0%nat. cbn. repeat split; try constructor; try lia.
    - cbn [ss_left]. num_R. destruct (Rltb b v) eqn:E.
      + apply Rltb_true in E. destruct (IH (incr_tail _ _ Hs)) as [k [Ek [Hk [F1 F2]]]].
        exists (S k). rewrite Ek. split; [lia|]. split; [cbn [length]; lia|].
        cbn [firstn skipn]. split; [constructor; assumption|assumption].
      + apply Rltb_false in E. assert (v <= b) by lra.
        pose proof (incr_head_lt _ _ Hs) as Hall.
        assert (Hall' : Forall (fun y => v <= y) r) by (eapply Forall_impl; [|exact Hall]; cbn; intros; lra).
        rewrite (ss_left_zero r v Hall'). exists 0%nat. split; [reflexivity|]. split; [lia|].
        cbn [firstn skipn]. split; [constructor|constructor; assumption].
  Qed.

  Lemma middles_length l : length (middles RN l) = (length l - 1)%nat.
  Proof.
    induction l as [|a [|b r] IH]; [reflexivity|reflexivity|].
    change (middles RN (a :: b :: r)) with (ig_middle RN b a :: middles RN (b :: r)).
    cbn [length] in *. rewrite IH. lia.
  Qed.

  Lemma middles_nth l j x y : nth_error l j = Some x -> nth_error l (S j) = Some y ->
    nth_error (middles RN l) j = Some ((y + x) / 2).
  Proof.
    revert j. induction l as [|a [|b r] IH]; intros j Hx Hy.
    - destruct j; discriminate.
    - destruct j; cbn in Hy; [discriminate|destruct j; discriminate].
    - change (middles RN (a :: b :: r)) with (ig_middle RN b a :: middles RN (b :: r)).
      destruct j as [|j].
      + cbn in Hx, Hy. inversion Hx; inversion Hy; subst. cbn [nth_error]. rewrite K_ig_middle. num_R. reflexivity.
      + cbn [nth_error] in *. apply IH; assumption.
  Qed.

  Lemma middles_incr l : incr l -> incr (middles RN l).
  Proof.
    induction l as [|a [|b [|c r]] IH]; intros Hs; try exact I.
    change (middles RN (a :: b :: c :: r)) with (ig_middle RN b a :: ig_middle RN c b :: middles RN (c :: r)).
    destruct Hs as [Hab [Hbc Hr]]. split.
    - rewrite !K_ig_middle. num_R. lra.
    - apply (IH (conj Hbc Hr)).
  Qed.

  Lemma irr_nearest_eq grid v : irr_nearest RN grid v = py_get grid (ss_left RN (middles RN grid) v).
  Proof.
    unfold irr_nearest. cbv zeta. rewrite !K_ig_nearest_idx.
    change (ig_nearest_gp_idx0 RN (ss_left RN (middles RN grid) v)) with (ss_left RN (middles RN grid) v).
    destruct (py_get grid (ss_left RN (middles RN grid) v)); reflexivity.
  Qed.

  (* T: on a strictly increasing grid the result is a closest member *)
  Theorem irregular_nearest grid v : incr grid -> grid <> [] ->
    exists ne, irr_nearest RN grid v = Ok ne /\ In ne grid /\
               forall y, In y grid -> Rabs (ne - v) <= Rabs (y - v).
  Proof.
    intros Hs Hne.
    destruct (ss_left_split (middles RN grid) v (middles_incr grid Hs)) as [k [Ek [Hk [F1 F2]]]].
    rewrite middles_length in Hk.
    assert (Hlen : (0 < length grid)%nat) by (destruct grid; [congruence|cbn; lia]).
    destruct (nth_error grid k) as [ne|] eqn:En; [|apply nth_error_None in En; lia].
    exists ne. rewrite irr_nearest_eq, Ek, (py_get_nat grid k ne En).
    split; [reflexivity|]. split; [eapply nth_error_In; eauto|].
    rewrite Forall_forall in F1, F2.
    intros y Hy. apply In_nth_error in Hy. destruct Hy as [i Hi].
    assert (Hil : (i < length grid)%nat) by (apply nth_error_Some; congruence).
    destruct (lt_eq_lt_dec i k) as [[Hlt|Heq]|Hgt].
    - (* i < k: the middle between g_{k-1} and g_k lies below v *)
      destruct (nth_error grid (k - 1)) as [p|] eqn:Ep; [|apply nth_error_None in Ep; lia].
      assert (Em : nth_error (middles RN grid) (k - 1) = Some ((ne + p) / 2)).
      { apply middles_nth; [exact Ep|]. replace (S (k - 1)) with k by lia. exact En. }
      assert (Hm : (ne + p) / 2 < v).
      { apply F1. assert (E' : nth_error (firstn k (middles RN grid)) (k - 1) = Some ((ne + p) / 2))
          by (rewrite nth_error_firstn' by lia; exact Em).
        eapply nth_error_In; eauto. }
      assert (Hyp : y <= p).
      { destruct (Nat.eq_dec i (k - 1)) as [->|Hn]; [rewrite Ep in Hi; inversion Hi; lra|].
        left. eapply (incr_nth_lt grid i (k - 1)); eauto. lia. }
      assert (Hpn : p < ne) by (eapply (incr_nth_lt grid (k - 1) k); eauto; lia).
      rewrite (Rabs_left (y - v)) by lra. apply Rabs_le. lra.
    - subst i. rewrite En in Hi. inversion Hi. lra.
    - (* i > k: v is at most the middle between g_k and g_{k+1} *)
      destruct (nth_error grid (S k)) as [q|] eqn:Eq; [|apply nth_error_None in Eq; lia].
      assert (Em : nth_error (middles RN grid) k = Some ((q + ne) / 2)) by (apply middles_nth; assumption).
      assert (Hm : v <= (q + ne) / 2).
      { apply F2. assert (E' : nth_error (skipn k (middles RN grid)) 0 = Some ((q + ne) / 2))
          by (rewrite nth_error_skipn'; replace (k + 0)%nat with k by lia; exact Em).
        eapply nth_error_In; eauto. }
      assert (Hyq : q <= y).
      { destruct (Nat.eq_dec i (S k)) as [->|Hn]; [rewrite Eq in Hi; inversion Hi; lra|].
        left. eapply (incr_nth_lt grid (S k) i); eauto. lia. }
      assert (Hnq : ne < q) by (eapply (incr_nth_lt grid k (S k)); eauto).
      rewrite (Rabs_pos_eq (y - v)) by lra. apply Rabs_le. lra.
  Qed.
End IrrNearest.

(* the guard "first grid point <= v" of the irregular-grid theorem is needed:
   below the first point the index -1 wraps around to the LAST grid point *)
Theorem irregular_lower_below_first_refuted (erfR : R -> R) :
  irr_lower (RNum erfR) [1; 2] 0 = Ok 2.
Proof.
  rewrite irr_lower_eq. cbn [ss_right]. num_R.
  destruct (Rleb 1 0) eqn:E1; [apply Rleb_true in E1; lra|].
  destruct (Rleb 2 0) eqn:E2; [apply Rleb_true in E2; lra|].
  reflexivity.
Qed.

(* IrregularParameterGrid.add_extra_lower_and_upper_bin in exact arithmetic: a
   strictly increasing grid (>= 2 points) stays strictly increasing, keeps all
   its points, and gets one point below and one above *)
Lemma incr_last2 l x y : incr (l ++ [x; y]) -> x < y.
Proof.
  induction l as [|a l IH]; cbn [app]; [intros [H _]; exact H|].
  intros H. apply IH. apply (incr_tail _ _ H).
Qed.
Lemma incr_snoc l x y z : incr (l ++ [x; y]) -> y < z -> incr (l ++ [x; y; z]).
Proof.
  induction l as [|a l IH]; cbn [app]; intros H Hz.
  - destruct H as [Hxy _]. cbn. tauto.
  - pose proof (IH (incr_tail _ _ H) Hz) as IH'.
    destruct l as [|c l]; cbn [app] in *.
    + destruct H as [Hax _]. split; [exact Hax|exact IH'].
    + destruct H as [Hac _]. split; [exact Hac|exact IH'].
Qed.

Section IrrExt.
  Variable erfR : R -> R.
  Notation RN := (RNum erfR).

  Theorem irregular_extend_increasing grid g0 g1 rest : grid = g0 :: g1 :: rest -> incr grid ->
    exists lo hi, irr_extend RN grid = Ok (lo :: grid ++ [hi]) /\
                  lo = g0 - (g1 - g0) /\ incr (lo :: grid ++ [hi]).
  Proof.
    intros Eg Hs.
    destruct (rev grid) as [|gl [|gl1 r]] eqn:Er.
    - subst grid. cbn in Er. destruct (rev rest ++ [g1]); discriminate.
    - assert (length (rev grid) = 1)%nat by (rewrite Er; reflexivity).
      rewrite rev_length in H. subst grid. cbn in H. lia.
    - assert (Egr : grid = rev r ++ [gl1; gl]).
      { rewrite <- (rev_involutive grid), Er. cbn [rev]. rewrite <- app_assoc. reflexivity. }
      exists (g0 - (g1 - g0)), (gl + (gl - gl1)).
      split; [|split; [reflexivity|]].
      + unfold irr_extend. rewrite Eg in Er |- *. cbv beta iota. rewrite Er. rewrite K_ig_extra_lo, K_ig_extra_hi. num_R. reflexivity.
      + assert (Hll : gl1 < gl) by (rewrite Egr in Hs; apply (incr_last2 _ _ _ Hs)).
        assert (Hhi : incr (grid ++ [gl + (gl - gl1)])).
        { rewrite Egr, <- app_assoc. cbn [app]. apply incr_snoc; [rewrite <- Egr; exact Hs|lra]. }
        rewrite Eg in Hhi, Hs |- *. cbn [app] in *. destruct Hs as [H01 _]. split; [lra|exact Hhi].
  Qed.
End IrrExt.
