(* C11: the convexity theorems with hypotheses restricted to the domain the minimiser evaluates
   ([lo, hi] and the initial point), so that a log-likelihood ratio that is undefined (NaN) outside
   it satisfies them literally. *)
From Coq Require Import Reals ZArith List Bool Lia Lra.
From Sky Require Import Result Num NumR G_minimize M_Minimize S_Minimize P_Minimize.
Import ListNotations.
Open Scope R_scope.

Section Dom.
  Variable erfR : R -> R.
  Notation N := (RNum erfR).
  Variable obj : R -> R * R * R.
  Variables tol lo hi init : R.
  Variable max_steps : Z.
  Notation Dm := (nr_domain lo hi init).
  Notation F := (F obj). Notation F1 := (F1 obj). Notation F2 := (F2 obj).

  Definition state_dom (ns st fp : R) : Prop :=
    (st = tol + 1 /\ fp = 1000) \/
    (exists prev, Dm prev /\ st = - F1 prev / F2 prev /\ fp = F1 prev /\ ns = clipR lo hi (prev + st)).

  Definition conv_exit (r : nrres R) : Prop :=
    exists prev, Dm prev /\ r_step r = - F1 prev / F2 prev /\ Rabs (r_step r) <= tol /\
                 Rabs (F1 prev) <= 1 / 10 /\ r_x r = clipR lo hi (prev + r_step r).

  Lemma exit_cond_dom niter ns st fp :
    (niter <= max_steps)%Z -> state_dom ns st fp ->
    nr_cond_num N tol st fp && nr_cond_iter niter max_steps = false ->
    let r := nr_finish N obj max_steps niter ns st nr_flag0 false (nzero N) in
    r_flag r = 0%Z -> conv_exit r.
  Proof.
    intros Hle Hst Ec. cbv zeta.
    pose proof (nr_finish_fields erfR obj max_steps niter ns st nr_flag0 false (nzero N)) as Hf. cbv zeta in Hf.
    destruct Hf as (Hx & Hn & Hs & Hfl & Hff). intros H0. rewrite Hfl in H0.
    destruct (Z.eqb_spec niter max_steps) as [Heq|Hne]; [discriminate|].
    assert (Hcn : nr_cond_num N tol st fp = false).
    { apply andb_false_iff in Ec. destruct Ec as [Ec|Ec]; [exact Ec|].
      exfalso. assert (Hlt : (niter < max_steps)%Z) by lia.
      apply (proj2 (K_nr_cond_iter niter max_steps)) in Hlt. congruence. }
    assert (Hnc : ~ (tol < Rabs st \/ 1/10 < Rabs fp)).
    { intro Hc. apply (proj2 (K_nr_cond_num erfR tol st fp)) in Hc. congruence. }
    unfold conv_exit. rewrite Hx, Hs.
    destruct Hst as [[Hs0 Hf0]|(prev & Hd & Hs1 & Hf1 & Hn1)].
    - exfalso. apply Hnc. right. rewrite Hf0. rewrite Rabs_pos_eq; lra.
    - exists prev. split; [exact Hd|]. split; [exact Hs1|]. split; [lra|]. split; [rewrite <- Hf1; lra|exact Hn1].
  Qed.

  Lemma nr_loop_dom : forall fuel niter ns st fp r,
    (niter <= max_steps)%Z -> Dm ns -> state_dom ns st fp ->
    nr_loop N obj tol lo hi fuel max_steps niter ns st fp = Ok r ->
    r_flag r = 0%Z -> conv_exit r.
  Proof.
    induction fuel as [|k IH]; intros niter ns st fp r Hle Hd Hst Hrun H0.
    - cbn [nr_loop] in Hrun.
      destruct (nr_cond_num N tol st fp && nr_cond_iter niter max_steps) eqn:Ec; [discriminate|].
      injection Hrun as <-. exact (exit_cond_dom niter ns st fp Hle Hst Ec H0).
    - cbn [nr_loop] in Hrun.
      destruct (nr_cond_num N tol st fp && nr_cond_iter niter max_steps) eqn:Ec.
      + apply andb_true_iff in Ec. destruct Ec as [_ Eci]. apply K_nr_cond_iter in Eci.
        destruct (obj ns) as [[fv f1v] f2v] eqn:Eo.
        assert (HF1 : F1 ns = f1v) by (unfold P_Minimize.F1, snd3; rewrite Eo; reflexivity).
        assert (HF2 : F2 ns = f2v) by (unfold P_Minimize.F2, thd3; rewrite Eo; reflexivity).
        rewrite K_nr_step_nan, K_nr_step in Hrun.
        destruct (nr_at_bound N ns lo hi (- f1v / f2v)) eqn:Eb.
        * (* forced exit: the flag is -2 or -1 (or 0 only in the impossible else-branch) *)
          exfalso. apply K_nr_at_bound in Eb. injection Hrun as <-.
          cbn [tr_cons r_flag] in H0.
          match type of H0 with context [nr_finish N obj max_steps niter ns ?s ?fl true fv] =>
            pose proof (nr_finish_fields erfR obj max_steps niter ns s fl true fv) as Hf end.
          cbv zeta in Hf. destruct Hf as (_ & _ & _ & Hfl & _). rewrite Hfl in H0.
          assert (Hne : (niter =? max_steps)%Z = false) by (apply Z.eqb_neq; lia).
          rewrite Hne in H0.
          destruct (Reqb ns lo) eqn:E1; [unfold nr_flag_lo in H0; discriminate|].
          destruct (Reqb ns hi) eqn:E2; [unfold nr_flag_hi in H0; discriminate|].
          apply Reqb_false in E1. apply Reqb_false in E2. destruct Eb as [[H _]|[H _]]; contradiction.
        * destruct (nr_loop N obj tol lo hi k max_steps (nr_niter_inc niter)
                      (nr_clip N lo hi (nr_ns_next N ns (- f1v / f2v))) (- f1v / f2v) f1v) as [r'|e] eqn:Er;
            [|discriminate].
          cbn [bind] in Hrun. injection Hrun as <-. cbn [tr_cons r_flag] in H0.
          rewrite K_nr_niter_inc, K_nr_ns_next, nr_clip_spec in Er.
          assert (Hce : conv_exit r').
          { apply (IH _ _ _ _ _) in Er; [exact Er|lia|apply nr_domain_clip| |exact H0].
            right. exists ns. rewrite HF1, HF2. repeat split. exact Hd. }
          unfold conv_exit in *. cbn [tr_cons r_step r_x]. exact Hce.
      + injection Hrun as <-. exact (exit_cond_dom niter ns st fp Hle Hst Ec H0).
  Qed.

  Theorem nr1d_conv_exit_dom r :
    (0 <= max_steps)%Z ->
    nr1d N obj tol lo hi max_steps init = Ok r -> r_flag r = 0%Z -> conv_exit r.
  Proof.
    intros Hms Hrun H0. unfold nr1d in Hrun.
    destruct (nr_init_bad N lo init); [discriminate|].
    apply nr_loop_dom in Hrun; [exact Hrun| | | |exact H0].
    - rewrite K_nr_niter0. exact Hms.
    - left. reflexivity.
    - left. rewrite K_nr_step0, K_nr_fprime0. split; reflexivity.
  Qed.

  (* ---- the convexity theorems with hypotheses on the evaluated domain only ---- *)
  Theorem bound_exit_on r :
    (0 <= max_steps)%Z -> lo < hi ->
    convex_on Dm F F1 ->
    nr1d N obj tol lo hi max_steps init = Ok r ->
    (r_flag r = (-2)%Z -> 0 < F2 lo -> argmin_on F lo hi (r_x r) /\ 0 < F1 lo) /\
    (r_flag r = (-1)%Z -> 0 < F2 hi -> argmin_on F lo hi (r_x r) /\ F1 hi < 0).
  Proof.
    intros Hms Hlh Hcx Hrun.
    destruct (nr1d_spec erfR obj tol lo hi max_steps init r Hms Hrun) as (_ & (P1 & P2 & P3 & P4 & P5 & P6 & P7 & P8) & _).
    split.
    - intros Hfl Hpos. destruct (P6 Hfl) as (Hx & Hs & Hneg).
      assert (Hs' : r_step r < 0) by (destruct Hneg as [H|[H _]]; [exact H|lra]).
      assert (Hg : 0 < F1 lo).
      { rewrite Hs in Hs'. unfold Rdiv in Hs'.
        assert (0 < / F2 lo) by (apply Rinv_0_lt_compat; exact Hpos).
        destruct (Rle_dec (F1 lo) 0) as [Hle|Hgt]; [|lra].
        exfalso. assert (0 <= - F1 lo * / F2 lo) by (apply Rmult_le_pos; lra). lra. }
      split; [|exact Hg]. rewrite Hx. split; [lra|].
      intros y Hy. assert (Hc : F lo + F1 lo * (y - lo) <= F y).
      { apply Hcx; unfold nr_domain; [tauto|right; right; right; exact Hy]. }
      assert (0 <= F1 lo * (y - lo)) by (apply Rmult_le_pos; lra). lra.
    - intros Hfl Hpos. destruct (P7 Hfl) as (Hx & Hs & Hpos' & _).
      assert (Hg : F1 hi < 0).
      { rewrite Hs in Hpos'. unfold Rdiv in Hpos'.
        assert (0 < / F2 hi) by (apply Rinv_0_lt_compat; exact Hpos).
        destruct (Rle_dec 0 (F1 hi)) as [Hle|Hgt]; [|lra].
        exfalso. assert (0 <= F1 hi * / F2 hi) by (apply Rmult_le_pos; lra). lra. }
      split; [|exact Hg]. rewrite Hx. split; [lra|].
      intros y Hy. assert (Hc : F hi + F1 hi * (y - hi) <= F y).
      { apply Hcx; unfold nr_domain; [tauto|right; right; right; exact Hy]. }
      assert (0 <= (- F1 hi) * (hi - y)) by (apply Rmult_le_pos; lra). lra.
  Qed.

  Theorem not_below_initial_on r :
    (0 <= max_steps)%Z -> lo <= hi -> init <= hi ->
    convex_on Dm F F1 ->
    nr1d N obj tol lo hi max_steps init = Ok r ->
    r_f r <= F init + Rabs (F1 (r_x r)) * Rabs (init - r_x r).
  Proof.
    intros Hms Hlh Hih Hcx Hrun.
    destruct (nr1d_spec erfR obj tol lo hi max_steps init r Hms Hrun) as (_ & (P1 & _) & Hb).
    rewrite P1.
    assert (Hc : F (r_x r) + F1 (r_x r) * (init - r_x r) <= F init).
    { apply Hcx; unfold nr_domain; [right; right; right; apply Hb; assumption|tauto]. }
    assert (- (F1 (r_x r) * (init - r_x r)) <= Rabs (F1 (r_x r)) * Rabs (init - r_x r)).
    { rewrite <- Rabs_mult. pose proof (Rle_abs (- (F1 (r_x r) * (init - r_x r)))) as H.
      rewrite Rabs_Ropp in H. exact H. }
    lra.
  Qed.

  Theorem near_stationary_on r m xs :
    (0 <= max_steps)%Z -> 0 < m ->
    (forall x y, Dm x -> Dm y -> F x + F1 x * (y - x) + m / 2 * (y - x) * (y - x) <= F y) ->
    lo <= xs <= hi -> F1 xs = 0 ->
    nr1d N obj tol lo hi max_steps init = Ok r -> r_flag r = 0%Z ->
    Rabs (r_x r - xs) <= tol + 1 / 10 / m.
  Proof.
    intros Hms Hm Hsc Hxs Hst Hrun Hfl.
    destruct (nr1d_conv_exit_dom r Hms Hrun Hfl) as (prev & Hd & Hs & Htol & Hg & Hx).
    assert (Hdx : Dm xs) by (unfold nr_domain; tauto).
    pose proof (Hsc prev xs Hd Hdx) as H1. pose proof (Hsc xs prev Hdx Hd) as H2. rewrite Hst in H2.
    set (d := prev - xs) in *.
    assert (Hdd0 : m * (d * d) <= Rabs (F1 prev) * Rabs d).
    { assert (m * (d * d) <= F1 prev * d) by (unfold d in *; nra).
      rewrite <- Rabs_mult. pose proof (Rle_abs (F1 prev * d)). lra. }
    assert (Hdd : Rabs d <= 1 / 10 / m).
    { assert (Had : d * d = Rabs d * Rabs d).
      { unfold Rabs. destruct (Rcase_abs d); ring. }
      rewrite Had in Hdd0. pose proof (Rabs_pos d) as Hp.
      destruct (Req_dec (Rabs d) 0) as [Hz|Hnz].
      - rewrite Hz. apply Rlt_le. apply Rdiv_lt_0_compat; lra.
      - assert (0 < Rabs d) by lra.
        assert (m * Rabs d <= Rabs (F1 prev)) by nra.
        apply (Rmult_le_reg_l m); [exact Hm|].
        replace (m * (1 / 10 / m)) with (1 / 10) by (field; lra). lra. }
    rewrite Hx.
    eapply Rle_trans; [apply clipR_nonexpansive; exact Hxs|].
    replace (prev + r_step r - xs) with (r_step r + d) by (unfold d; ring).
    eapply Rle_trans; [apply Rabs_triang|]. lra.
  Qed.
End Dom.
