(* Proofs for C08, part 3: the result list of parallelize does not depend on
   the order in which the worker processes deliver their result records. *)
From Coq Require Import ZArith List Bool Lia Permutation.
From Sky Require Import Result PyList G_random M_Random P_Random.
Import ListNotations.
Open Scope Z_scope.

Lemma K_asm_store_at pid : asm_store_at pid = pid. Proof. reflexivity. Qed.
Lemma K_asm_take_idx pid : asm_take_idx pid = pid. Proof. reflexivity. Qed.

Section Order.
  Context {A : Type}.
  Notation rmap := (list (Z * A)).

  Lemma rmap_get_set (m : rmap) k v k' :
    rmap_get (rmap_set m k v) k' = if k =? k' then Ok v else rmap_get m k'.
  Proof.
    induction m as [|[k0 v0] r IH]; cbn [rmap_set rmap_get].
    - destruct (k =? k'); reflexivity.
    - destruct (k0 =? k) eqn:E; cbn [rmap_get].
      + apply Z.eqb_eq in E. rewrite E. destruct (k =? k') eqn:E3; reflexivity.
      + rewrite IH. destruct (k0 =? k') eqn:E2; [|reflexivity].
        apply Z.eqb_eq in E2. rewrite <- E2. rewrite Z.eqb_sym, E. reflexivity.
  Qed.

  Lemma rmap_set_keys (m : rmap) k v :
    ~ In k (map fst m) -> map fst (rmap_set m k v) = map fst m ++ [k].
  Proof.
    induction m as [|[k0 v0] r IH]; intros H; cbn [rmap_set map fst app]; [reflexivity|].
    cbn [map fst In] in H. destruct (k0 =? k) eqn:E.
    - apply Z.eqb_eq in E. exfalso. apply H. left. exact E.
    - cbn [map fst]. rewrite IH by tauto. reflexivity.
  Qed.

  Definition fill (m : rmap) (arr : list (Z * A)) : rmap :=
    fold_left (fun m pr => rmap_set m (fst pr) (snd pr)) arr m.

  Lemma fill_cons (m : rmap) k v r : fill m ((k, v) :: r) = fill (rmap_set m k v) r.
  Proof. reflexivity. Qed.

  Lemma fill_keys arr : forall m,
    NoDup (map fst m ++ map fst arr) -> map fst (fill m arr) = map fst m ++ map fst arr.
  Proof.
    induction arr as [|[k v] r IH]; intros m H.
    - cbn. rewrite app_nil_r. reflexivity.
    - rewrite fill_cons. cbn [map fst] in H |- *.
      assert (Hk : ~ In k (map fst m)).
      { intros Hin. apply NoDup_remove_2 in H. apply H. apply in_or_app. left. exact Hin. }
      rewrite IH; rewrite rmap_set_keys by exact Hk; rewrite <- app_assoc; [reflexivity|exact H].
  Qed.

  Lemma fill_get_in arr : forall m k v,
    NoDup (map fst arr) -> In (k, v) arr -> rmap_get (fill m arr) k = Ok v.
  Proof.
    induction arr as [|[k0 v0] r IH]; intros m k v Hnd Hin; [destruct Hin|].
    cbn [map fst] in Hnd. inversion Hnd as [|? ? Hnot Hnd']. subst.
    rewrite fill_cons.
    destruct Hin as [Heq|Hin].
    - inversion Heq. subst k0 v0. clear Heq.
      (* k does not occur later: the value survives *)
      assert (G : forall r' m', ~ In k (map fst r') -> rmap_get (fill m' r') k = rmap_get m' k).
      { induction r' as [|[k1 v1] r' IHr]; intros m' Hn; [reflexivity|].
        rewrite fill_cons.
        cbn [map fst In] in Hn. rewrite IHr by tauto. rewrite rmap_get_set.
        destruct (k1 =? k) eqn:E; [apply Z.eqb_eq in E; tauto | reflexivity]. }
      rewrite G by exact Hnot. rewrite rmap_get_set, Z.eqb_refl. reflexivity.
    - apply IH; assumption.
  Qed.

  Lemma fill_get_notin arr : forall m k,
    ~ In k (map fst arr) -> rmap_get (fill m arr) k = rmap_get m k.
  Proof.
    induction arr as [|[k1 v1] r IH]; intros m k Hn; [reflexivity|].
    rewrite fill_cons.
    cbn [map fst In] in Hn. rewrite IH by tauto. rewrite rmap_get_set.
    destruct (k1 =? k) eqn:E; [apply Z.eqb_eq in E; tauto | reflexivity].
  Qed.
End Order.

Section Assemble.
  Context {A : Type}.

  Lemma collect_fill (res0 : list A) arr : collect res0 arr = fill [(0, res0)] arr.
  Proof.
    unfold collect, fill. generalize [(0, res0)] as m.
    induction arr as [|pr r IH]; intros m; [reflexivity|].
    cbn [fold_left]. rewrite K_asm_store_at. apply IH.
  Qed.

  Lemma assemble_ext (m1 m2 : list (Z * list A)) :
    zlen m1 = zlen m2 -> (forall k, rmap_get m1 k = rmap_get m2 k) -> assemble m1 = assemble m2.
  Proof.
    intros Hl Hg. unfold assemble. rewrite Hl.
    generalize (zrange 0 (zlen m2)) as l. generalize (@Ok (list A) []) as acc.
    intros acc l. revert acc. induction l as [|pid r IH]; intros acc; [reflexivity|].
    cbn [fold_left]. rewrite Hg. apply IH.
  Qed.

  Lemma assemble_ok (m : list (Z * list A)) :
    (forall pid, 0 <= pid < zlen m -> exists l, rmap_get m pid = Ok l) ->
    exists out, assemble m = Ok out.
  Proof.
    intros H. unfold assemble.
    assert (G : forall l acc, (forall pid, In pid l -> exists x, rmap_get m pid = Ok x) ->
              exists out, fold_left (fun acc pid => do a <- acc; do l <- rmap_get m (asm_take_idx pid); Ok (a ++ l))
                                    l (Ok acc) = Ok out).
    { induction l as [|pid r IH]; intros acc Hl; [exists acc; reflexivity|].
      cbn [fold_left bind]. rewrite K_asm_take_idx.
      destruct (Hl pid (or_introl eq_refl)) as [x Hx]. rewrite Hx. cbn [bind].
      apply IH. intros p Hp. apply Hl. right. exact Hp. }
    apply G. intros pid Hp. apply zrange_In in Hp. apply H. lia.
  Qed.

  (* same seed, same ncpu: the assembled list is the same for every order in
     which the n-1 workers (pids 1..n-1, each exactly once) deliver *)
  Theorem assemble_order_independent (res0 : list A) (arr1 arr2 : list (Z * list A)) :
    Permutation arr1 arr2 ->
    NoDup (map fst arr1) ->
    (forall pid, In pid (map fst arr1) <-> 1 <= pid <= Z.of_nat (length arr1)) ->
    exists out, assemble (collect res0 arr1) = Ok out /\ assemble (collect res0 arr2) = Ok out.
  Proof.
    intros HP Hnd Hpids.
    assert (Hnd2 : NoDup (map fst arr2)).
    { eapply Permutation_NoDup; [apply Permutation_map; exact HP | exact Hnd]. }
    assert (Hkeys : forall arr, NoDup (map fst arr) -> ~ In 0 (map fst arr) ->
                     zlen (collect res0 arr) = 1 + Z.of_nat (length arr)).
    { intros arr Hn H0. rewrite collect_fill. unfold zlen.
      rewrite <- (map_length fst (fill _ _)), fill_keys.
      - cbn [map fst app length]. rewrite map_length. lia.
      - cbn [map fst app]. constructor; assumption. }
    assert (H01 : ~ In 0 (map fst arr1)) by (intros H; apply Hpids in H; lia).
    assert (H02 : ~ In 0 (map fst arr2)).
    { intros H. apply H01. eapply Permutation_in; [apply Permutation_map; symmetry; exact HP | exact H]. }
    assert (Heq : assemble (collect res0 arr1) = assemble (collect res0 arr2)).
    { apply assemble_ext.
      - rewrite (Hkeys _ Hnd H01), (Hkeys _ Hnd2 H02), (Permutation_length HP). reflexivity.
      - intros k. rewrite !collect_fill.
        destruct (in_dec Z.eq_dec k (map fst arr1)) as [Hi|Hn].
        + apply in_map_iff in Hi. destruct Hi as [[k' v] [Hk Hin]]. cbn in Hk. subst k'.
          rewrite (fill_get_in arr1 _ k v Hnd Hin).
          rewrite (fill_get_in arr2 _ k v Hnd2 (Permutation_in _ HP Hin)). reflexivity.
        + rewrite (fill_get_notin arr1 _ k Hn).
          rewrite (fill_get_notin arr2); [reflexivity|].
          intros H. apply Hn. eapply Permutation_in; [apply Permutation_map; symmetry; exact HP | exact H]. }
    destruct (assemble_ok (collect res0 arr1)) as [out Hout].
    { intros pid Hp. rewrite (Hkeys _ Hnd H01) in Hp. rewrite collect_fill.
      destruct (Z.eq_dec pid 0) as [->|Hne].
      - exists res0. rewrite fill_get_notin by exact H01. reflexivity.
      - assert (Hin : In pid (map fst arr1)) by (apply Hpids; lia).
        apply in_map_iff in Hin. destruct Hin as [[k v] [Hk Hin]]. cbn in Hk. subst k.
        exists v. apply fill_get_in; assumption. }
    exists out. split; [exact Hout | rewrite <- Heq; exact Hout].
  Qed.
End Assemble.

(* ------------------------------------------------------------------ *)
(* RandomStateService: construction, seed property, reseed              *)
Lemma K_rs_init s : rs_init_seed s = s /\ rs_init_state_arg s = s. Proof. split; reflexivity. Qed.
Lemma K_rs_seed_prop s : rs_seed_prop s = s. Proof. reflexivity. Qed.
Lemma K_rs_reseed s : rs_reseed_seed s = s /\ rs_reseed_state_arg s = s. Proof. split; reflexivity. Qed.
Lemma K_rs_reseed_unconditional : rs_reseed_nif = 0 /\ rs_reseed_nreturn = 0.
Proof. split; reflexivity. Qed.

Section Reseed.
  Variables rng val : Type.
  Variable seed_rng : Z -> rng.
  Variable draw : rng -> req -> val * rng.

  Lemma rss_new_spec s :
    rss_new rng seed_rng s = {| rs_seed := s; rs_st := seed_rng s |}
    /\ rss_seed rng (rss_new rng seed_rng s) = s.
  Proof.
    unfold rss_new, rss_seed. destruct (K_rs_init s) as [H1 H2]. rewrite H1, H2.
    cbn [rs_seed]. rewrite K_rs_seed_prop. split; reflexivity.
  Qed.

  (* after reseed(s) the service is indistinguishable from a fresh
     RandomStateService(s), whatever was drawn before and whatever seed it
     carried - in particular when it already carried s *)
  Theorem rss_reseed_fresh (r : rss rng) (s : Z) :
    rss_reseed rng seed_rng r s = rss_new rng seed_rng s.
  Proof.
    unfold rss_reseed, rss_new. destruct K_rs_reseed_unconditional as [H1 H2]. rewrite H1, H2.
    cbn [Z.eqb andb]. destruct (K_rs_reseed s) as [H3 H4]. destruct (K_rs_init s) as [H5 H6].
    rewrite H3, H4, H5, H6. reflexivity.
  Qed.

  Theorem rss_reseed_stream (r : rss rng) (s : Z) (qs : list req) :
    let run := fix run (qs : list req) (x : rss rng) : list val :=
                 match qs with
                 | [] => []
                 | q :: rest => let '(v, x') := rss_draw rng val draw x q in v :: run rest x'
                 end in
    run qs (rss_reseed rng seed_rng r s) = run qs (rss_new rng seed_rng s)
    /\ rss_seed rng (rss_reseed rng seed_rng r s) = s.
  Proof.
    cbv zeta. rewrite rss_reseed_fresh. split; [reflexivity | apply rss_new_spec].
  Qed.
End Reseed.

(* ------------------------------------------------------------------ *)
(* the caller passes the same service as rss and as minimizer_rss       *)
Section Aliased.
  Variables rng val : Type.
  Variable seed_rng : Z -> rng.
  Variable draw : rng -> req -> val * rng.
  Variable impl : nat -> option val -> bool * bool.
  Variables bdata data : Type.
  Variable bkg : rss rng -> bdata * rss rng.
  Variable sig : bdata -> rss rng -> data * rss rng.
  Notation rdraw := (rss_draw rng val draw).

  Lemma with_slot_single {A} (r : rss rng) (f : rss rng -> A * rss rng) :
    with_slot rng [r] 0 f = let '(a, r') := f r in Ok (a, [r']).
  Proof. reflexivity. Qed.

  Lemma min_loop_single fuel : forall k reps maxrep nfloat st r,
    maxrep - reps <= Z.of_nat fuel -> 0 <= reps ->
    exists reps' st',
      min_loop rng val draw impl fuel k reps maxrep nfloat st [r] 0
        = Ok (reps', st', [restart_draws rng val draw nfloat (Z.to_nat (reps' - reps)) r])
      /\ reps <= reps' <= Z.max reps maxrep.
  Proof.
    induction fuel as [|f IH]; intros k reps maxrep nfloat st r Hf Hr;
      cbn [min_loop]; destruct (min_loop_cond reps maxrep (fst st) (snd st)) eqn:C.
    - exfalso. rewrite K_min_loop_cond in C. apply andb_true_iff in C.
      destruct C as [_ C]. apply Z.ltb_lt in C. lia.
    - exists reps, st. replace (reps - reps) with 0 by lia. cbn. split; [reflexivity|lia].
    - rewrite K_min_init_rss. destruct (K_init_size nfloat) as [Hs _]. rewrite Hs.
      rewrite with_slot_single.
      destruct (rdraw r (RUniform nfloat)) as [v r1] eqn:D.
      cbn [bind]. destruct K_min_reps as [_ Hinc]. rewrite Hinc.
      assert (C' := C). rewrite K_min_loop_cond in C'. apply andb_true_iff in C'.
      destruct C' as [_ C']. apply Z.ltb_lt in C'.
      destruct (IH (S k) (reps + 1) maxrep nfloat (impl (S k) (Some v)) r1
                   ltac:(lia) ltac:(lia)) as [reps' [st' [E Hle]]].
      exists reps', st'. rewrite E. split; [|lia].
      replace (Z.to_nat (reps' - reps)) with (S (Z.to_nat (reps' - (reps + 1)))) by lia.
      unfold restart_draws. rewrite iter_state_snoc, D. reflexivity.
    - exists reps, st. replace (reps - reps) with 0 by lia. cbn. split; [reflexivity|lia].
  Qed.

  (* what still holds: the pseudo data of THIS trial is that of a fresh run of
     generate_pseudo_data on rss (it is generated before the minimiser draws);
     but rss is left advanced by the `reps` restart requests as well *)
  Theorem do_trial_aliased_spec r maxrep nfloat :
    exists reps fit,
      do_trial_aliased rng val draw impl bdata data bkg sig r maxrep nfloat
      = Ok (fst (gen_on rng bdata data bkg sig r),
            rs_seed (restart_draws rng val draw nfloat (Z.to_nat reps) (snd (gen_on rng bdata data bkg sig r))),
            fit,
            restart_draws rng val draw nfloat (Z.to_nat reps) (snd (gen_on rng bdata data bkg sig r)))
      /\ 0 <= reps <= Z.max 0 maxrep.
  Proof.
    unfold do_trial_aliased, gen_pseudo, minimize, gen_on.
    destruct (K_pseudo_rss 0) as [Hb Hs]. rewrite Hb, Hs.
    rewrite with_slot_single. destruct (bkg r) as [b r1]. cbn [bind].
    rewrite with_slot_single. destruct (sig b r1) as [d r2]. cbn [bind fst snd].
    destruct K_min_reps as [H0 _]. rewrite H0.
    destruct (min_loop_single (Z.to_nat maxrep) 0%nat 0 maxrep nfloat (impl 0%nat None) r2
                ltac:(lia) ltac:(lia)) as [reps [st [E Hle]]].
    rewrite E. cbn [bind]. rewrite Z.sub_0_r.
    exists reps. eexists.
    change (py_get [restart_draws rng val draw nfloat (Z.to_nat reps) r2] 0)
      with (Ok (restart_draws rng val draw nfloat (Z.to_nat reps) r2)).
    cbn [bind]. rewrite K_trial_rec_seed. split; [reflexivity|lia].
  Qed.
End Aliased.

(* ------------------------------------------------------------------ *)
(* MCMultiDatasetSignalGenerator: the requests of generate_signal_events *)
Lemma K_sig_poisson b : sig_poisson b = b. Proof. reflexivity. Qed.

Section Signal.
  Variables rng val : Type.
  Variable draw : rng -> req -> val * rng.
  Variable val_int : val -> Z.
  Variable sig_groups : val -> list Z.
  Variable sig_valid : Z -> val -> Z.
  Notation rcd := (rc_draw rng val draw).
  Notation rloop := (redraw_loop rng val draw sig_valid).
  Notation rgroups := (redraw_groups rng val draw sig_valid).

  Notation rc_draws := (rc_draws rng val draw).

  Lemma rc_draws_app a b r : rc_draws (a ++ b) r = rc_draws b (rc_draws a r).
  Proof. revert r. induction a as [|k a IH]; intros r; [reflexivity|]. cbn [app rc_draws]. apply IH. Qed.

  Lemma redraw_loop_spec fuel : forall g n ns r r',
    rloop fuel g n ns r = Ok r' ->
    exists ks, r' = rc_draws ks r /\ Forall (fun k => 1 <= k) ks /\ (length ks <= fuel)%nat.
  Proof.
    induction fuel as [|f IH]; intros g n ns r r' H; cbn [redraw_loop] in H;
      destruct (K_sig_redraw n ns) as [Hc Hs]; rewrite Hc in H; destruct (n <? ns) eqn:E.
    - discriminate.
    - inversion H. subst. exists []. repeat split; [constructor | cbn; lia].
    - rewrite Hs in H. destruct (rcd r (ns - n)) as [v r1] eqn:D.
      destruct (IH _ _ _ _ _ H) as [ks [Hr [Hk Hl]]].
      exists ((ns - n) :: ks). cbn [rc_draws]. rewrite D. cbn [snd].
      split; [exact Hr|]. split; [|cbn; lia].
      constructor; [apply Z.ltb_lt in E; lia | exact Hk].
    - inversion H. subst. exists []. repeat split; [constructor | cbn; lia].
  Qed.

  Lemma redraw_groups_spec fuel nreds : forall g r r',
    rgroups fuel g nreds r = Ok r' ->
    exists ks, r' = rc_draws ks r /\ Forall (fun k => 1 <= k) ks.
  Proof.
    induction nreds as [|nred rest IH]; intros g r r' H; cbn [redraw_groups] in H.
    - inversion H. subst. exists []. split; [reflexivity | constructor].
    - destruct (sig_redraw_need nred).
      + destruct (rloop fuel g 0 nred r) as [r1|] eqn:E; [|discriminate]. cbn [bind] in H.
        destruct (redraw_loop_spec _ _ _ _ _ _ E) as [k1 [H1 [F1 _]]].
        destruct (IH _ _ _ H) as [k2 [H2 F2]].
        exists (k1 ++ k2). rewrite rc_draws_app, <- H1. split; [exact H2|].
        apply Forall_app. split; assumption.
      + cbn [bind] in H. apply (IH _ _ _ H).
  Qed.

  (* every request of the signal generation goes to the service it is handed:
     [poisson] random(n) random(k1) ... random(km), all k >= 1 *)
  Theorem sig_mc_spec fuel poisson mean r n r' :
    sig_mc rng val draw val_int sig_groups sig_valid fuel poisson mean r = Ok (n, r') ->
    let r1 := if poisson then snd (rss_draw rng val draw r (RPoisson 1)) else r in
    n = (if poisson then val_int (fst (rss_draw rng val draw r (RPoisson 1))) else mean)
    /\ exists ks, r' = rc_draws (n :: ks) r1 /\ Forall (fun k => 1 <= k) ks.
  Proof.
    unfold sig_mc. rewrite K_sig_poisson. cbv zeta.
    destruct poisson.
    - destruct (rss_draw rng val draw r (RPoisson 1)) as [v0 r1]. cbn [fst snd].
      rewrite K_sig_choice_size.
      destruct (rcd r1 (val_int v0)) as [v r2] eqn:D.
      destruct (rgroups fuel 0 (sig_groups v) r2) as [r3|] eqn:E; [|discriminate].
      cbn [bind]. intros H. inversion H. subst. split; [reflexivity|].
      destruct (redraw_groups_spec _ _ _ _ _ E) as [ks [Hr F]].
      exists ks. cbn [rc_draws]. rewrite D. cbn [snd]. split; assumption.
    - rewrite K_sig_choice_size. destruct (rcd r mean) as [v r2] eqn:D.
      destruct (rgroups fuel 0 (sig_groups v) r2) as [r3|] eqn:E; [|discriminate].
      cbn [bind]. intros H. inversion H. subst. split; [reflexivity|].
      destruct (redraw_groups_spec _ _ _ _ _ E) as [ks [Hr F]].
      exists ks. cbn [rc_draws]. rewrite D. cbn [snd]. split; assumption.
  Qed.

  (* the re-draw loop finishes within n_signal - n iterations when every
     re-draw yields at least one valid event of the wanted group ... *)
  Lemma redraw_progress g : (forall v, 1 <= sig_valid g v) ->
    forall fuel n ns r, ns - n <= Z.of_nat fuel -> exists r', rloop fuel g n ns r = Ok r'.
  Proof.
    intros Hp. induction fuel as [|f IH]; intros n ns r Hf; cbn [redraw_loop];
      destruct (K_sig_redraw n ns) as [Hc Hs]; rewrite Hc; destruct (n <? ns) eqn:E.
    - apply Z.ltb_lt in E. lia.
    - eexists; reflexivity.
    - rewrite Hs. destruct (rcd r (ns - n)) as [v r1].
      apply IH. specialize (Hp v). lia.
    - eexists; reflexivity.
  Qed.

  (* ... and never finishes when no re-draw does (the code loops forever) *)
  Lemma redraw_no_progress g : (forall v, sig_valid g v = 0) ->
    forall fuel ns r, 0 < ns -> rloop fuel g 0 ns r = Err OutOfFuel.
  Proof.
    intros Hz. induction fuel as [|f IH]; intros ns r Hns; cbn [redraw_loop];
      destruct (K_sig_redraw 0 ns) as [Hc Hs]; rewrite Hc;
      (destruct (0 <? ns) eqn:E; [|apply Z.ltb_ge in E; lia]); [reflexivity|].
    rewrite Hs. destruct (rcd r (ns - 0)) as [v r1]. rewrite Hz, Z.add_0_r. apply IH. exact Hns.
  Qed.
  (* MCDataSamplingBkgGenMethod.generate_events without pre-selection: all requests
     on the handed service, in the order [poisson] random(n) [uniform(n)] *)
  Lemma bkg_mc_spec poisson n_fixed scramble (r : rss rng) :
    bkg_mc rng val draw val_int poisson n_fixed scramble r
    = let n := if poisson then val_int (fst (rss_draw rng val draw r (RPoisson 0))) else n_fixed in
      let r1 := if poisson then snd (rss_draw rng val draw r (RPoisson 0)) else r in
      let r2 := snd (rcd r1 n) in
      (n, if scramble then snd (rss_draw rng val draw r2 (RUniform n)) else r2).
  Proof.
    unfold bkg_mc. cbv zeta. destruct poisson.
    - destruct (rss_draw rng val draw r (RPoisson 0)) as [v r1]. cbn [fst snd].
      rewrite K_bkg_n. destruct (K_bkg_choice (val_int v) 0) as [Hc _]. rewrite Hc.
      destruct (rcd r1 (val_int v)) as [u r2]. cbn [snd]. rewrite K_scr_size.
      destruct scramble; [|reflexivity].
      destruct (rss_draw rng val draw r2 (RUniform (val_int v))). reflexivity.
    - rewrite K_bkg_n. destruct (K_bkg_choice n_fixed 0) as [Hc _]. rewrite Hc.
      destruct (rcd r n_fixed) as [u r2]. cbn [snd]. rewrite K_scr_size.
      destruct scramble; [|reflexivity].
      destruct (rss_draw rng val draw r2 (RUniform n_fixed)). reflexivity.
  Qed.
End Signal.

(* ------------------------------------------------------------------ *)
(* the seeds in the rows appended to a trial file                       *)
Lemma K_pipeline :
  ctdf_nreseed = 0 /\ ctdf_nservice = 0 /\ ctdf_ntrials_calls = 1 /\ ext_nreseed = 1 /\ ext_nservice = 0
  /\ ext_reseed_before_create = true /\ trials_nservice = 0 /\ trials_nrss_calls = 0
  /\ pseudo_nservice = 0 /\ trial_nservice = 1
  /\ (forall r, ctdf_trials_rss r = r) /\ (forall m, ctdf_trials_mrss m = m).
Proof. repeat split; reflexivity. Qed.
Lemma K_mdsig : mdsig_nservice = 0 /\ (forall r, mdsig_gen_rss r = r) /\ mdsig_nchoice = 2 /\ mdsig_nrandom_any = 3.
Proof. repeat split; reflexivity. Qed.

Section Rows.
  Variables rng val : Type.
  Variable seed_rng : Z -> rng.
  Variable draw : rng -> req -> val * rng.
  Variable val_int : val -> Z.

  Lemma row_seeds_spec parent ncpu :
    row_seeds rng val seed_rng draw val_int parent ncpu
      = Ok (map (@rs_seed rng) (rss_list rng val seed_rng draw val_int parent ncpu)).
  Proof.
    unfold row_seeds, service_handed_down.
    destruct K_pipeline as [H1 [H2 [H3 [H4 [H5 [H6 [H7 [H8 [H9 [H10 [H11 _]]]]]]]]]]].
    rewrite H1, H2, H3, H4, H5, H6, H7, H8, H9, H10, H11, K_seed_create_rss, K_trials_rss.
    change ((0 =? 0) && (0 =? 0) && (1 =? 1) && (1 =? 1) && (0 =? 0) && true && (0 =? 0) && (0 =? 0)
            && (0 =? 0) && (1 =? 1) && (0 =? 0) && (0 =? 0) && (0 =? 0)) with true.
    cbv iota. apply f_equal. apply map_ext. intros r. apply K_trial_rec_seed.
  Qed.

  (* one process: every appended row carries the seed chosen by the search *)
  Theorem extend_rows_single rss_seed seeds :
    exists s, extend_rows rng val seed_rng draw val_int rss_seed seeds 1 = Ok [s]
              /\ ~ In s seeds /\ extend_seed rss_seed seeds = Ok s.
  Proof.
    destruct (extend_seed_fresh rss_seed seeds) as [s [Hs [Hf _]]].
    exists s. unfold extend_rows. rewrite Hs. cbn [bind]. rewrite row_seeds_spec.
    rewrite rss_reseed_fresh. rewrite rss_list_spec by lia. cbn [Z.eqb Pos.eqb map].
    destruct (rss_new_spec rng seed_rng s) as [Hn _]. rewrite Hn. cbn [rs_seed].
    split; [reflexivity|]. split; [exact Hf | reflexivity].
  Qed.

  (* several processes: the master's rows carry the chosen (fresh) seed, the
     rows of worker k the k-th randint read of the re-seeded parent *)
  Theorem extend_rows_workers rss_seed seeds ncpu :
    1 < ncpu ->
    exists s, extend_seed rss_seed seeds = Ok s /\ ~ In s seeds
      /\ extend_rows rng val seed_rng draw val_int rss_seed seeds ncpu
         = Ok (s :: fst (randints rng val draw val_int (Z.to_nat (ncpu - 1))
                                  {| rs_seed := s; rs_st := seed_rng s |})).
  Proof.
    intros Hn.
    destruct (extend_seed_fresh rss_seed seeds) as [s [Hs [Hf _]]].
    exists s. split; [exact Hs|]. split; [exact Hf|].
    unfold extend_rows. rewrite Hs. cbn [bind]. rewrite row_seeds_spec.
    rewrite rss_reseed_fresh. rewrite rss_list_spec by lia.
    destruct (ncpu =? 1) eqn:E; [apply Z.eqb_eq in E; lia|].
    destruct (rss_new_spec rng seed_rng s) as [Hnew _]. rewrite Hnew.
    cbn [map]. f_equal. f_equal.
    - (* the master keeps its seed through the draws *)
      assert (G : forall k r, rs_seed (snd (randints rng val draw val_int k r)) = rs_seed r).
      { induction k as [|k0 IH]; intros r; [reflexivity|]. cbn [randints].
        destruct (rss_draw rng val draw r (RRandint 0 4294967296)) as [v r1] eqn:D.
        specialize (IH r1). destruct (randints rng val draw val_int k0 r1). cbn [snd] in *.
        rewrite IH. pose proof (rss_draw_seed rng val draw r (RRandint 0 4294967296)) as Hd.
        rewrite D in Hd. exact Hd. }
      rewrite G. reflexivity.
    - rewrite map_map. rewrite <- map_id. apply map_ext. intros w.
      destruct (rss_new_spec rng seed_rng w) as [Hw _]. rewrite Hw. reflexivity.
  Qed.
End Rows.

(* ------------------------------------------------------------------ *)
(* the caller's sig_kwargs dictionary                                   *)
Lemma K_sigkw : (forall m, sigkw_mean m = m) /\ sigkw_nupdate = 1 /\ sigkw_nother = 0 /\ sigkw_order = true
  /\ (forall m, bkgkw_mean m = m) /\ bkgkw_nother = 0.
Proof. repeat split; reflexivity. Qed.

(* the mean handed to the signal generator is the mean_n_sig of THIS call,
   whatever the dictionary was used with before *)
Lemma sig_mean_used_spec kw m :
  sig_mean_used kw m = if m =? 0 then None else Some m.
Proof.
  unfold sig_mean_used, sig_kwargs_after. rewrite K_ana_sig_none.
  destruct (m =? 0); [reflexivity|].
  destruct K_sigkw as [H1 [H2 [H3 [H4 _]]]]. rewrite H1, H2, H3, H4. reflexivity.
Qed.

Theorem sig_means_used_spec means : forall kw,
  sig_means_used kw means = map (fun m => if m =? 0 then None else Some m) means.
Proof.
  induction means as [|m rest IH]; intros kw; [reflexivity|].
  cbn [sig_means_used map]. rewrite sig_mean_used_spec, IH. reflexivity.
Qed.

(* ------------------------------------------------------------------ *)
(* Extension: random initials of the floating parameters                *)
From Coq Require Import QArith Lqa.
From Sky Require Import Num.
Lemma param_initials_length {T} (N : Num T) bounds : forall u r,
  param_initials N bounds u = Ok r -> length r = length bounds /\ length u = length bounds.
Proof.
  induction bounds as [|[lo hi] br IH]; intros u r H; destruct u as [|x ur]; cbn [param_initials] in H;
    try discriminate.
  - inversion H. split; reflexivity.
  - destruct (param_initials N br ur) as [r0|] eqn:E; [|discriminate]. cbn [bind] in H.
    inversion H. subst. destruct (IH _ _ E) as [H1 H2]. cbn [length]. split; congruence.
Qed.

Lemma param_initials_ok {T} (N : Num T) bounds : forall u,
  length u = length bounds -> exists r, param_initials N bounds u = Ok r.
Proof.
  induction bounds as [|[lo hi] br IH]; intros u H; destruct u as [|x ur]; try discriminate.
  - exists []. reflexivity.
  - cbn [length] in H. destruct (IH ur ltac:(congruence)) as [r E].
    cbn [param_initials]. rewrite E. cbn [bind]. eexists. reflexivity.
Qed.

(* over the rationals: every initial lies inside the bounds of its parameter *)
Theorem param_initials_in_bounds_Q (bounds : list (Q * Q)) : forall (u r : list Q),
  Forall (fun b => (fst b <= snd b)%Q) bounds ->
  Forall (fun x => (0 <= x)%Q /\ (x <= 1)%Q) u ->
  param_initials QNum bounds u = Ok r ->
  Forall2 (fun b v => (fst b <= v)%Q /\ (v <= snd b)%Q) bounds r.
Proof.
  induction bounds as [|[lo hi] br IH]; intros u r Hb Hu H; destruct u as [|x ur]; cbn [param_initials] in H;
    try discriminate.
  - inversion H. constructor.
  - destruct (param_initials QNum br ur) as [r0|] eqn:E; [|discriminate]. cbn [bind] in H.
    inversion H. subst. inversion Hb as [|? ? Hlohi Hb']. inversion Hu as [|? ? [Hx0 Hx1] Hu']. subst.
    constructor; [|apply (IH ur r0); assumption].
    unfold init_value. cbn [fst snd nadd nmul nsub QNum] in *. split; nra.
Qed.
