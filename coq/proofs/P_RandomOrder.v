(* Proofs for C08, part 3: the result list of parallelize does not depend on
   the order in which the worker processes deliver their result records. *)
From Coq Require Import ZArith List Bool Lia Permutation.
From Sky Require Import Result PyList G_random M_Random P_Random.
Import ListNotations.
Open Scope Z_scope.

Lemma K_asm_store_at pid : asm_store_at pid = pid. Proof. reflexivity. Qed.
Lemma K_asm_take_idx pid : asm_take_idx pid = pid. Proof. reflexivity. Qed.

Section Order.
  Context {A : Type}.
  Notation rmap := (list (Z * A)).

  Lemma rmap_get_set (m : rmap) k v k' :
    rmap_get (rmap_set m k v) k' = if k =? k' then Ok v else rmap_get m k'.
  Proof.
    induction m as [|[k0 v0] r IH]; cbn [rmap_set rmap_get].
    - destruct (k =? k'); reflexivity.
    - destruct (k0 =? k) eqn:E; cbn [rmap_get].
      + apply Z.eqb_eq in E. rewrite E. destruct (k =? k') eqn:E3; reflexivity.
      + rewrite IH. destruct (k0 =? k') eqn:E2; [|reflexivity].
        apply Z.eqb_eq in E2. rewrite <- E2. rewrite Z.eqb_sym, E. reflexivity.
  Qed.

  Lemma rmap_set_keys (m : rmap) k v :
    ~ In k (map fst m) -> map fst (rmap_set m k v) = map fst m ++ [k].
  Proof.
    induction m as [|[k0 v0] r IH]; intros H; cbn [rmap_set map fst app]; [reflexivity|].
    cbn [map fst In] in H. destruct (k0 =? k) eqn:E.
    - apply Z.eqb_eq in E. exfalso. apply H. left. exact E.
    - cbn [map fst]. rewrite IH by tauto. reflexivity.
  Qed.

  Definition fill (m : rmap) (arr : list (Z * A)) : rmap :=
    fold_left (fun m pr => rmap_set m (fst pr) (snd pr)) arr m.

  Lemma fill_cons (m : rmap) k v r : fill m ((k, v) :: r) = fill (rmap_set m k v) r.
  Proof. reflexivity. Qed.

  Lemma fill_keys arr : forall m,
    NoDup (map fst m ++ map fst arr) -> map fst (fill m arr) = map fst m ++ map fst arr.
  Proof.
    induction arr as [|[k v] r IH]; intros m H.
    - cbn. rewrite app_nil_r. reflexivity.
    - rewrite fill_cons. cbn [map fst] in H |- *.
      assert (Hk : ~ In k (map fst m)).
      { intros Hin. apply NoDup_remove_2 in H. apply H. apply in_or_app. left. exact Hin. }
      rewrite IH; rewrite rmap_set_keys by exact Hk; rewrite <- app_assoc; [reflexivity|exact H].
  Qed.

  Lemma fill_get_in arr : forall m k v,
    NoDup (map fst arr) -> In (k, v) arr -> rmap_get (fill m arr) k = Ok v.
  Proof.
    induction arr as [|[k0 v0] r IH]; intros m k v Hnd Hin; [destruct Hin|].
    cbn [map fst] in Hnd. inversion Hnd as [|? ? Hnot Hnd']. subst.
    rewrite fill_cons.
    destruct Hin as [Heq|Hin].
    - inversion Heq. subst k0 v0. clear Heq.
      (* k does not occur later: the value survives *)
      assert (G : forall r' m', ~ In k (map fst r') -> rmap_get (fill m' r') k = rmap_get m' k).
      { induction r' as [|[k1 v1] r' IHr]; intros m' Hn; [reflexivity|].
        rewrite fill_cons.
        cbn [map fst In] in Hn. rewrite IHr by tauto. rewrite rmap_get_set.
        destruct (k1 =? k) eqn:E; [apply Z.eqb_eq in E; tauto | reflexivity]. }
      rewrite G by exact Hnot. rewrite rmap_get_set, Z.eqb_refl. reflexivity.
    - apply IH; assumption.
  Qed.

  Lemma fill_get_notin arr : forall m k,
    ~ In k (map fst arr) -> rmap_get (fill m arr) k = rmap_get m k.
  Proof.
    induction arr as [|[k1 v1] r IH]; intros m k Hn; [reflexivity|].
    rewrite fill_cons.
    cbn [map fst In] in Hn. rewrite IH by tauto. rewrite rmap_get_set.
    destruct (k1 =? k) eqn:E; [apply Z.eqb_eq in E; tauto | reflexivity].
  Qed.
End Order.

Section Assemble.
  Context {A : Type}.

  Lemma collect_fill (res0 : list A) arr : collect res0 arr = fill [(0, res0)] arr.
  Proof.
    unfold collect, fill. generalize [(0, res0)] as m.
    induction arr as [|pr r IH]; intros m; [reflexivity|].
    cbn [fold_left]. rewrite K_asm_store_at. apply IH.
  Qed.

  Lemma assemble_ext (m1 m2 : list (Z * list A)) :
    zlen m1 = zlen m2 -> (forall k, rmap_get m1 k = rmap_get m2 k) -> assemble m1 = assemble m2.
  Proof.
    intros Hl Hg. unfold assemble. rewrite Hl.
    generalize (zrange 0 (zlen m2)) as l. generalize (@Ok (list A) []) as acc.
    intros acc l. revert acc. induction l as [|pid r IH]; intros acc; [reflexivity|].
    cbn [fold_left]. rewrite Hg. apply IH.
  Qed.

  Lemma assemble_ok (m : list (Z * list A)) :
    (forall pid, 0 <= pid < zlen m -> exists l, rmap_get m pid = Ok l) ->
    exists out, assemble m = Ok out.
  Proof.
    intros H. unfold assemble.
    assert (G : forall l acc, (forall pid, In pid l -> exists x, rmap_get m pid = Ok x) ->
              exists out, fold_left (fun acc pid => do a <- acc; do l <- rmap_get m (asm_take_idx pid); Ok (a ++ l))
                                    l (Ok acc) = Ok out).
    { induction l as [|pid r IH]; intros acc Hl; [exists acc; reflexivity|].
      cbn [fold_left bind]. rewrite K_asm_take_idx.
      destruct (Hl pid (or_introl eq_refl)) as [x Hx]. rewrite Hx. cbn [bind].
      apply IH. intros p Hp. apply Hl. right. exact Hp. }
    apply G. intros pid Hp. apply zrange_In in Hp. apply H. lia.
  Qed.

  (* same seed, same ncpu: the assembled list is the same for every order in
     which the n-1 workers (pids 1..n-1, each exactly once) deliver *)
  Theorem assemble_order_independent (res0 : list A) (arr1 arr2 : list (Z * list A)) :
    Permutation arr1 arr2 ->
    NoDup (map fst arr1) ->
    (forall pid, In pid (map fst arr1) <-> 1 <= pid <= Z.of_nat (length arr1)) ->
    exists out, assemble (collect res0 arr1) = Ok out /\ assemble (collect res0 arr2) = Ok out.
  Proof.
    intros HP Hnd Hpids.
    assert (Hnd2 : NoDup (map fst arr2)).
    { eapply Permutation_NoDup; [apply Permutation_map; exact HP | exact Hnd]. }
    assert (Hkeys : forall arr, NoDup (map fst arr) -> ~ In 0 (map fst arr) ->
                     zlen (collect res0 arr) = 1 + Z.of_nat (length arr)).
    { intros arr Hn H0. rewrite collect_fill. unfold zlen.
      rewrite <- (map_length fst (fill _ _)), fill_keys.
      - cbn [map fst app length]. rewrite map_length. lia.
      - cbn [map fst app]. constructor; assumption. }
    assert (H01 : ~ In 0 (map fst arr1)) by (intros H; apply Hpids in H; lia).
    assert (H02 : ~ In 0 (map fst arr2)).
    { intros H. apply H01. eapply Permutation_in; [apply Permutation_map; symmetry; exact HP | exact H]. }
    assert (Heq : assemble (collect res0 arr1) = assemble (collect res0 arr2)).
    { apply assemble_ext.
      - rewrite (Hkeys _ Hnd H01), (Hkeys _ Hnd2 H02), (Permutation_length HP). reflexivity.
      - intros k. rewrite !collect_fill.
        destruct (in_dec Z.eq_dec k (map fst arr1)) as [Hi|Hn].
        + apply in_map_iff in Hi. destruct Hi as [[k' v] [Hk Hin]]. cbn in Hk. subst k'.
          rewrite (fill_get_in arr1 _ k v Hnd Hin).
          rewrite (fill_get_in arr2 _ k v Hnd2 (Permutation_in _ HP Hin)). reflexivity.
        + rewrite (fill_get_notin arr1 _ k Hn).
          rewrite (fill_get_notin arr2); [reflexivity|].
          intros H. apply Hn. eapply Permutation_in; [apply Permutation_map; symmetry; exact HP | exact H]. }
    destruct (assemble_ok (collect res0 arr1)) as [out Hout].
    { intros pid Hp. rewrite (Hkeys _ Hnd H01) in Hp. rewrite collect_fill.
      destruct (Z.eq_dec pid 0) as [->|Hne].
      - exists res0. rewrite fill_get_notin by exact H01. reflexivity.
      - assert (Hin : In pid (map fst arr1)) by (apply Hpids; lia).
        apply in_map_iff in Hin. destruct Hin as [[k v] [Hk Hin]]. cbn in Hk. subst k.
        exists v. apply fill_get_in; assumption. }
    exists out. split; [exact Hout | rewrite <- Heq; exact Hout].
  Qed.
End Assemble.

(* ------------------------------------------------------------------ *)
(* RandomStateService: construction, seed property, reseed              *)
Lemma K_rs_init s : rs_init_seed s = s /\ rs_init_state_arg s = s. Proof. split; reflexivity. Qed.
Lemma K_rs_seed_prop s : rs_seed_prop s = s. Proof. reflexivity. Qed.
Lemma K_rs_reseed s : rs_reseed_seed s = s /\ rs_reseed_state_arg s = s. Proof. split; reflexivity. Qed.
Lemma K_rs_reseed_unconditional : rs_reseed_nif = 0 /\ rs_reseed_nreturn = 0.
Proof. split; reflexivity. Qed.

Section Reseed.
  Variables rng val : Type.
  Variable seed_rng : Z -> rng.
  Variable draw : rng -> req -> val * rng.

  Lemma rss_new_spec s :
    rss_new rng seed_rng s = {| rs_seed := s; rs_st := seed_rng s |}
    /\ rss_seed rng (rss_new rng seed_rng s) = s.
  Proof.
    unfold rss_new, rss_seed. destruct (K_rs_init s) as [H1 H2]. rewrite H1, H2.
    cbn [rs_seed]. rewrite K_rs_seed_prop. split; reflexivity.
  Qed.

  (* after reseed(s) the service is indistinguishable from a fresh
     RandomStateService(s), whatever was drawn before and whatever seed it
     carried - in particular when it already carried s *)
  Theorem rss_reseed_fresh (r : rss rng) (s : Z) :
    rss_reseed rng seed_rng r s = rss_new rng seed_rng s.
  Proof.
    unfold rss_reseed, rss_new. destruct K_rs_reseed_unconditional as [H1 H2]. rewrite H1, H2.
    cbn [Z.eqb andb]. destruct (K_rs_reseed s) as [H3 H4]. destruct (K_rs_init s) as [H5 H6].
    rewrite H3, H4, H5, H6. reflexivity.
  Qed.

  Theorem rss_reseed_stream (r : rss rng) (s : Z) (qs : list req) :
    let run := fix run (qs : list req) (x : rss rng) : list val :=
                 match qs with
                 | [] => []
                 | q :: rest => let '(v, x') := rss_draw rng val draw x q in v :: run rest x'
                 end in
    run qs (rss_reseed rng seed_rng r s) = run qs (rss_new rng seed_rng s)
    /\ rss_seed rng (rss_reseed rng seed_rng r s) = s.
  Proof.
    cbv zeta. rewrite rss_reseed_fresh. split; [reflexivity | apply rss_new_spec].
  Qed.
End Reseed.
