(* C15: the guard "origin <= v" of the bracket / nearest theorems is needed.
   Below the origin floatD is negative and astype(int64) truncates towards zero
   instead of flooring: on the grid 1, 2, 3, ... (exact arithmetic)
   round_to_nearest(9/10) = 2 and round_to_lower(-1/5) = 0 > -1/5. *)
From Coq Require Import Reals ZArith List Bool Lra Lia.
From Coquelicot Require Import Coquelicot.
From Sky Require Import Result PyList Num NumR G_grid M_Grid P_Grid P_GridInterp P_GridLocal.
Import ListNotations.
Open Scope R_scope.

Section Below.
  Variable erfR : R -> R.
  Notation RN := (RNum erfR).
  Notation g1 := (dgrid 1 1 0).

  Lemma g1_fields : g_lb g1 = 1 /\ g_delta g1 = 1 /\ g_dec g1 = 0%Z.
  Proof. cbn. change (10 ^ 0)%Z with 1%Z. repeat split; lra. Qed.

  Lemma floatD_g1 (k : Z) : floatD RN g1 (1 + IZR k / 10) = IZR k / 10.
  Proof.
    rewrite floatD_R. destruct g1_fields as [-> [-> _]].
    replace ((1 + IZR k / 10 - 1) / 1) with (IZR k / 10) by field.
    rewrite around_R. change (10 ^ 9)%Z with 1000000000%Z.
    replace (IZR k / 10 * 1000000000) with (IZR (k * 100000000)) by (rewrite mult_IZR; field).
    rewrite Rrint_IZR, mult_IZR. field.
  Qed.

  Lemma Gp_g1 (k : Z) : Gp RN g1 (IZR k) = 1 + IZR k.
  Proof. rewrite (Gp_exact erfR 1 1 0 k ltac:(lia)). destruct g1_fields as [-> [-> _]]. ring. Qed.

  Theorem nearest_below_origin_refuted :
    exists v : R, v < g_lb g1 /\ g_lb g1 - v < g_delta g1 / 2 /\
      round_nearest RN g1 v = g_lb g1 + g_delta g1 /\
      Rabs (round_nearest RN g1 v - v) > g_delta g1 / 2 + 5 / 10000000000 * g_delta g1.
  Proof.
    exists (9 / 10).
    assert (Ev : 9 / 10 = 1 + IZR (-1) / 10) by lra.
    assert (Ef : floatD RN g1 (9 / 10) = -1 / 10) by (rewrite Ev, floatD_g1; lra).
    assert (Ei : intD RN g1 (9 / 10) = 0).
    { rewrite intD_R, Ef. unfold Rtrunc. destruct (Rle_dec 0 (-1 / 10)); [lra|].
      unfold Rceil. rewrite (Int_part_spec (- (-1 / 10)) 0) by lra. lra. }
    assert (En : round_nearest RN g1 (9 / 10) = 2).
    { rewrite round_nearest_is_Gp. unfold k_nearest. rewrite Ei, Ef.
      assert (Er : nfmod RN (-1 / 10) (ofZ RN 1) = 9 / 10).
      { num_R. unfold Rfmod, Rfloor. replace (-1 / 10 / 1) with (-1 / 10) by field.
        rewrite (Int_part_spec (-1 / 10) (-1)) by lra. lra. }
      rewrite Er, around_R. change (10 ^ 0)%Z with 1%Z.
      rewrite (Rrint_gt_half (9 / 10 * 1)) by lra. num_R.
      replace (1 / 1 + 0) with (IZR 1) by lra. rewrite Gp_g1. lra. }
    destruct g1_fields as [-> [-> _]]. rewrite En.
    split; [lra|]. split; [lra|]. split; [lra|].
    rewrite Rabs_pos_eq by lra. lra.
  Qed.

  Theorem lower_below_origin_refuted :
    exists v : R, v < g_lb g1 /\ v < round_lower RN g1 v.
  Proof.
    exists (-1 / 5).
    assert (Ev : -1 / 5 = 1 + IZR (-12) / 10) by lra.
    assert (Ef : floatD RN g1 (-1 / 5) = -6 / 5) by (rewrite Ev, floatD_g1; lra).
    assert (Ei : intD RN g1 (-1 / 5) = IZR (-1)).
    { rewrite intD_R, Ef. unfold Rtrunc. destruct (Rle_dec 0 (-6 / 5)); [lra|].
      unfold Rceil. rewrite (Int_part_spec (- (-6 / 5)) 1) by lra. lra. }
    assert (El : round_lower RN g1 (-1 / 5) = 0).
    { rewrite round_lower_is_Gp. unfold k_lower. rewrite Ei, Gp_g1. lra. }
    destruct g1_fields as [-> _]. rewrite El. split; lra.
  Qed.
End Below.
