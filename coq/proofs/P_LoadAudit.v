(* C17: audit follow-up — the re-open of the memory-efficient loader is
   observable (file content per open), only membership of the keep list matters,
   MC counterpart of "missing required field => error", missing file => error for
   parquet and at Dataset level, row count for the loader itself. *)
From Coq Require Import ZArith List Bool Lia.
From Sky Require Import Result PyList G_load M_Load S_Load P_Load P_LoadDs P_LoadFiles.
Import ListNotations.
Open Scope Z_scope.

(* ---------------------------------------------------------------- keep list: membership only *)
Lemma spec_kept_ext : forall o1 o2 sch,
  (forall n, spec_keeps o1 n = spec_keeps o2 n) -> spec_kept o1 sch = spec_kept o2 sch.
Proof. intros o1 o2 sch H. unfold spec_kept. apply filter_ext. intros p. apply H. Qed.

Lemma spec_load_file_keep_ext : forall k1 k2 c e f,
  (forall n, zmem n k1 = zmem n k2) ->
  spec_load_file f (mkOpts (Some k1) c e) = spec_load_file f (mkOpts (Some k2) c e).
Proof.
  intros k1 k2 c e f H. unfold spec_load_file.
  rewrite (spec_kept_ext (mkOpts (Some k1) c e) (mkOpts (Some k2) c e)) by (intros n; cbn; apply H).
  reflexivity.
Qed.

Lemma load_all_rel : forall one1 one2 files lo hi,
  (forall p, In p files -> R (one1 p) (one2 p)) ->
  R (load_all one1 files lo hi) (load_all one2 files lo hi).
Proof.
  intros one1 one2 files lo hi Hone. rewrite !load_all_step.
  destruct (py_get files 0) as [p0|e0] eqn:E0; cbn [bind]; [|reflexivity].
  pose proof (Hone p0 (py_get_In _ _ _ E0)) as H0.
  destruct (one1 p0) as [[t1 n1]|e1], (one2 p0) as [[t2 n2]|e2]; cbn in H0; try contradiction; cbn [bind].
  - apply fold_rel; [exact Hone | exact H0].
  - exact H0.
Qed.

Theorem keep_membership : forall mode files k1 k2 c e,
  Forall wf_opt files -> (forall n, zmem n k1 = zmem n k2) ->
  match npy_load mode files (mkOpts (Some k1) c e), npy_load mode files (mkOpts (Some k2) c e) with
  | Ok (t, _), Ok (t', _) => t = t'
  | Err e1, Err e2 => e1 = e2
  | _, _ => False
  end.
Proof.
  intros mode files k1 k2 c e Hwf Hk.
  change (R (npy_load mode files (mkOpts (Some k1) c e)) (npy_load mode files (mkOpts (Some k2) c e))).
  rewrite Forall_forall in Hwf. destruct K_mem_bs as [_ Hbs].
  unfold npy_load. destruct (resolve_mode mode); try reflexivity;
    apply load_all_rel; intros [f|] Hp; cbn [open_file bind]; try reflexivity;
    pose proof (Hwf _ Hp) as Hf; cbn in Hf;
    try (unfold load_file_mem; rewrite !(load_mem_spec mem_bs f _ Hf Hbs));
    try rewrite !(load_time_spec f _ Hf);
    cbn; apply spec_load_file_keep_ext; exact Hk.
Qed.

(* ---------------------------------------------------------------- MC: required field missing => error *)
Theorem required_missing_is_error_mc : forall ds o prep d0 d1 t n m,
  load_data ds o = Ok d0 -> prep d0 = Ok d1 -> dd_mc d1 = Some t ->
  In (n, m) (merged ds) -> Z.land m 12 <> 0 -> ~ In n (tnames t) ->
  exists e, load_and_prepare ds o prep = Err e.
Proof.
  intros ds o prep d0 d1 t n m H0 H1 Ht Hin Hm Hnot.
  destruct (load_and_prepare ds o prep) as [d|e] eqn:E; [|eauto]. exfalso.
  destruct (lap_inv _ _ _ _ E) as [d0' [d1' [H0' [H1' [Hd Ha]]]]].
  rewrite H0 in H0'. inversion H0'; subst d0'. rewrite H1 in H1'. inversion H1'; subst d1'.
  destruct (assert_format_ok ds d Ha) as [_ [Hmc _]].
  assert (Hx : dd_mc d = Some (tidy_up t (tidy_keep_mc ds o))) by (subst d; cbn; rewrite Ht; reflexivity).
  specialize (Hmc _ n m Hx Hin Hm). apply tidy_names in Hmc. apply Hnot. apply Hmc.
Qed.

(* ---------------------------------------------------------------- missing file: parquet, Dataset *)
Lemma pq_concat_missing : forall o rest acc, In None rest -> exists e, pq_concat acc rest o = Err e.
Proof.
  intros o. induction rest as [|p rest IH]; intros acc Hin; [destruct Hin|].
  cbn [pq_concat]. destruct Hin as [Hp|Hin].
  - subst p. cbn. eauto.
  - destruct (pq_read p o) as [f|e]; cbn [bind]; [|eauto].
    destruct (schema_eqb _ _); [|eauto]. apply IH. exact Hin.
Qed.

Theorem pq_missing_file : forall files o, In None files -> exists e, pq_load files o = Err e.
Proof.
  intros files o Hin. unfold pq_load. destruct files as [|p0 rest]; [destruct Hin|].
  change (py_get (p0 :: rest) 0) with (py_get (p0 :: rest) (Z.of_nat 0)).
  rewrite (py_get_nth (p0 :: rest) 0 None) by (cbn; lia). cbn [nth bind tl].
  destruct Hin as [Hp|Hin].
  - subst p0. cbn. eauto.
  - destruct (pq_read p0 o) as [f0|e]; cbn [bind]; [|eauto].
    destruct (pq_concat_missing o rest f0 Hin) as [e He]. rewrite He. cbn. eauto.
Qed.

Lemma file_load_missing : forall fm mode files lo, In None files -> exists e, file_load fm mode files lo = Err e.
Proof.
  intros fm mode files lo Hin. destruct fm; cbn [file_load].
  - destruct (proj1 (missing_file_error mode files lo Hin)) as [e He]. rewrite He. cbn. eauto.
  - destruct (proj2 (missing_file_error mode files lo Hin)) as [e He]. rewrite He. cbn. eauto.
  - apply pq_missing_file. exact Hin.
Qed.

Lemma load_part_missing : forall ds o files keep ren, In None files -> exists e, load_part ds o files keep ren = Err e.
Proof.
  intros ds o files keep ren Hin. unfold load_part.
  replace (zlen files >? 0) with true.
  - destruct (file_load_missing (d_fmt ds) (do_mode o) files
                (mkOpts (Some keep) (do_conv o) (exc_orig o ren)) Hin) as [e He].
    rewrite He. cbn. eauto.
  - symmetry. apply Z.gtb_lt. unfold zlen. destruct files; [destruct Hin|cbn; lia].
Qed.

Theorem load_data_missing_file : forall ds o,
  In None (d_exp_files ds) \/ In None (d_mc_files ds) ->
  (exists e, load_data ds o = Err e) /\
  (forall prep, exists e, load_and_prepare ds o prep = Err e).
Proof.
  intros ds o H.
  assert (Hl : exists e, load_data ds o = Err e).
  { unfold load_data. destruct H as [H|H].
    - destruct (load_part_missing ds o _ (keep_exp ds o) (d_exp_ren ds) H) as [e He]. rewrite He. cbn. eauto.
    - destruct (load_part ds o (d_exp_files ds) (keep_exp ds o) (d_exp_ren ds)); cbn [bind]; [|eauto].
      destruct (load_part_missing ds o _ (keep_mc ds o) (d_mc_ren ds) H) as [e He]. rewrite He. cbn. eauto. }
  split; [exact Hl|]. intros prep. destruct Hl as [e He]. unfold load_and_prepare. rewrite He. cbn. eauto.
Qed.

(* ---------------------------------------------------------------- rows of the LOADER's result *)
Theorem files_rows_loader : forall mode f0 rest o t n fname dt v,
  mode <> MBad -> wf_file f0 ->
  (forall f, In f rest -> wf_file f /\ covers f0 f o) ->
  npy_load mode (map Some (f0 :: rest)) o = Ok (t, n) ->
  In (fname, (dt, v)) t ->
  length v = fold_right (fun f a => (length (f_rows f) + a)%nat) O (f0 :: rest)
  /\ v = concat (map (fun f => spec_col f fname) (f0 :: rest))
  /\ (forall f, In f (f0 :: rest) -> In fname (map fst (f_schema f))).
Proof.
  intros mode f0 rest o t n fname dt v Hm Hwf Hrest H Hin.
  rewrite (npy_files_closed mode f0 rest o Hm Hwf Hrest) in H. inversion H; subst t.
  split; [eapply files_row_count; exact Hin|].
  rewrite spec_load_files_mk in Hin. apply in_map_iff in Hin. destruct Hin as [p [Hp Hk]].
  unfold mkcol in Hp. injection Hp as Hn _ Hv. subst fname. split; [symmetry; exact Hv|].
  intros f [Hf|Hf].
  - subst f. eapply spec_kept_in. exact Hk.
  - destruct (Hrest f Hf) as [_ Hc]. specialize (Hc p Hk). apply zmem_In in Hc.
    apply in_map_iff in Hc. destruct Hc as [q [Hq Hqin]]. rewrite <- Hq. eapply spec_kept_in. exact Hqin.
Qed.
