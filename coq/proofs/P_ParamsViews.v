(* C04 — every view of a consistent ParameterSet equals the brute-force reading
   of its parameter table (spec S_Params.v). *)
From Coq Require Import ZArith List Bool Lia Permutation.
From Sky Require Import Result PyList G_params M_Params S_Params P_Params.
Import ListNotations.
Open Scope Z_scope.

(* ------------------------------------------------------------------ finite maps *)
Lemma assoc_None {A} (l : list (Z * A)) k : ~ In k (map fst l) -> assoc l k = None.
Proof.
  induction l as [|[a b] l IH]; cbn; [reflexivity|]. intros H.
  destruct (k =? a) eqn:E; [apply Z.eqb_eq in E; subst; tauto | apply IH; tauto].
Qed.

Lemma assoc_Some_In {A} (l : list (Z * A)) k v : assoc l k = Some v -> In (k, v) l.
Proof.
  induction l as [|[a b] l IH]; cbn; [discriminate|].
  destruct (k =? a) eqn:E; [apply Z.eqb_eq in E; subst; intros H; inversion H; auto | auto].
Qed.

Lemma dict_of_fold l : forall d k,
  NoDup (map fst l) ->
  dict_get (fold_left (fun d kv => dict_set d (fst kv) (snd kv)) l d) k =
  match assoc l k with Some v => Some v | None => dict_get d k end.
Proof.
  induction l as [|[a b] r IH]; intros d k HN; cbn; [reflexivity|].
  inversion HN; subst. rewrite IH by assumption. rewrite dict_get_set.
  destruct (k =? a) eqn:E; [|reflexivity]. apply Z.eqb_eq in E; subst k.
  rewrite assoc_None by assumption. reflexivity.
Qed.

Lemma dict_of_get l k : NoDup (map fst l) -> dict_get (dict_of l) k = assoc l k.
Proof. intros H. unfold dict_of. rewrite dict_of_fold by assumption. destruct (assoc l k); reflexivity. Qed.

Lemma assoc_perm {A} (l l' : list (Z * A)) k :
  Permutation l l' -> NoDup (map fst l) -> assoc l k = assoc l' k.
Proof.
  induction 1 as [| [a b] l l' HP IH | [a b] [c d] l | l l' l'' HP1 IH1 HP2 IH2]; intros HN.
  - reflexivity.
  - cbn. inversion HN; subst. rewrite IH by assumption. reflexivity.
  - cbn. cbn in HN. inversion HN as [|? ? H1 H2]; subst.
    destruct (k =? c) eqn:E1; destruct (k =? a) eqn:E2; try reflexivity.
    apply Z.eqb_eq in E1, E2. subst. exfalso. apply H1. left; reflexivity.
  - rewrite IH1 by assumption. apply IH2.
    eapply Permutation_NoDup; [|exact HN]. apply Permutation_map. assumption.
Qed.

(* ------------------------------------------------------------------ masks and positions *)
Lemma argwhere_positions m : forall i, argwhere_from i m = s_positions i m.
Proof. induction m as [|b m IH]; intros i; cbn; [reflexivity|]. rewrite IH. destruct b; reflexivity. Qed.

Lemma mapM_mask_select {A B} (f : A -> res B) : forall l r m,
  mapM f l = Ok r -> mapM f (mask_select l m) = Ok (mask_select r m).
Proof.
  induction l as [|a l IH]; intros r m H.
  - cbn in H. inversion H. destruct m; reflexivity.
  - apply mapM_cons_Ok in H. destruct H as (b & r' & Hb & Hr & ->).
    destruct m as [|c m]; [reflexivity|]. cbn [mask_select]. destruct c; [|apply IH; assumption].
    cbn [mapM]. rewrite Hb. cbn. rewrite (IH _ m Hr). reflexivity.
Qed.

Lemma np_select_same {A} (l : list A) m : length l = length m -> np_select l m = Ok (mask_select l m).
Proof. intros H. unfold np_select. rewrite H, Nat.eqb_refl. reflexivity. Qed.

Lemma initials_of_mask ps :
  map p_initial (mask_select ps (map negb (map p_isfixed ps))) = s_floating_initials (table_of ps).
Proof.
  induction ps as [|p l IH]; cbn; [reflexivity|].
  unfold row_of; destruct (p_isfixed p); cbn; rewrite IH; reflexivity.
Qed.

Lemma bounds_of_mask ps :
  map (fun p => (p_valmin p, p_valmax p)) (mask_select ps (map negb (map p_isfixed ps)))
  = s_floating_bounds (table_of ps).
Proof.
  induction ps as [|p l IH]; cbn; [reflexivity|].
  unfold row_of; destruct (p_isfixed p); cbn; rewrite IH; reflexivity.
Qed.

Section Views.
Variables (st : store) (s : pset) (ps : list param).
Hypothesis HC : Consistent st s ps.
Let T := table_of ps.

Lemma view_caches :
  ps_mask s = s_mask T /\ ps_fxn s = s_fixed_names T /\ ps_fln s = s_floating_names T
  /\ ps_fxv s = s_fixed_values T /\ params_name_list s = s_fixed_names T ++ s_floating_names T.
Proof. unfold params_name_list. destruct HC as (_ & _ & _ & A & B & C & D & _). rewrite B, C. tauto. Qed.

Lemma view_idxs :
  fixed_params_idxs s = s_fixed_idxs T /\ floating_params_idxs s = s_floating_idxs T.
Proof.
  destruct view_caches as (A & _). unfold fixed_params_idxs, floating_params_idxs, floating_mask, argwhere.
  rewrite !argwhere_positions, A. split; reflexivity.
Qed.

Lemma view_counts :
  n_params s = zlen T /\ n_fixed_params s = zlen (s_fixed_names T) /\ n_floating_params s = zlen (s_floating_names T).
Proof.
  destruct view_caches as (_ & B & C & _). unfold n_params, n_fixed_params, n_floating_params. rewrite B, C.
  repeat split. destruct HC as (HM & _). apply mapM_Ok_length in HM. unfold zlen, T, table_of. rewrite map_length. congruence.
Qed.

Lemma floating_params_view :
  floating_params st s = Ok (mask_select ps (map negb (map p_isfixed ps))).
Proof.
  apply Consistent_elim in HC. destruct HC as (HM & _ & _ & HK & _).
  unfold floating_params, floating_mask. rewrite HK.
  rewrite np_select_same by (rewrite !map_length; symmetry; eapply mapM_Ok_length; exact HM).
  cbn [bind]. apply mapM_mask_select. assumption.
Qed.

Lemma fixed_params_view :
  fixed_params st s = Ok (mask_select ps (map p_isfixed ps)).
Proof.
  apply Consistent_elim in HC. destruct HC as (HM & _ & _ & HK & _).
  unfold fixed_params. rewrite HK.
  rewrite np_select_same by (rewrite !map_length; symmetry; eapply mapM_Ok_length; exact HM).
  cbn [bind]. apply mapM_mask_select. assumption.
Qed.

Lemma view_floating_initials_bounds :
  floating_param_initials st s = Ok (s_floating_initials T)
  /\ floating_param_bounds st s = Ok (s_floating_bounds T).
Proof.
  unfold floating_param_initials, floating_param_bounds. rewrite floating_params_view. cbn [bind].
  subst T. rewrite initials_of_mask, bounds_of_mask. split; reflexivity.
Qed.

Lemma view_pidx n :
  get_fixed_pidx s n = match s_fixed_pidx T n with Some i => Ok i | None => Err KeyError end
  /\ get_floating_pidx s n = match s_floating_pidx T n with Some i => Ok i | None => Err KeyError end.
Proof.
  destruct HC as (_ & _ & _ & _ & B & C & _ & D & E).
  unfold get_fixed_pidx, get_floating_pidx, s_fixed_pidx, s_floating_pidx. rewrite D, E, B, C. split; reflexivity.
Qed.
End Views.

(* ------------------------------------------------------------------ value dictionaries *)
Lemma tbl_cons_fixed p ps : p_isfixed p = true ->
  (forall vec, s_values (table_of (p :: ps)) vec = option_map (cons (p_value p)) (s_values (table_of ps) vec))
  /\ s_floating_names (table_of (p :: ps)) = s_floating_names (table_of ps)
  /\ s_fixed_names (table_of (p :: ps)) = p_name p :: s_fixed_names (table_of ps)
  /\ s_fixed_values (table_of (p :: ps)) = p_value p :: s_fixed_values (table_of ps)
  /\ s_names (table_of (p :: ps)) = p_name p :: s_names (table_of ps).
Proof. intros H. cbn. unfold is_fixed, row_of. cbn. rewrite H. cbn. auto. Qed.

Lemma tbl_cons_floating p ps : p_isfixed p = false ->
  (forall vec, s_values (table_of (p :: ps)) vec =
     match vec with [] => None | x :: vec' => option_map (cons x) (s_values (table_of ps) vec') end)
  /\ s_floating_names (table_of (p :: ps)) = p_name p :: s_floating_names (table_of ps)
  /\ s_fixed_names (table_of (p :: ps)) = s_fixed_names (table_of ps)
  /\ s_fixed_values (table_of (p :: ps)) = s_fixed_values (table_of ps)
  /\ s_names (table_of (p :: ps)) = p_name p :: s_names (table_of ps).
Proof. intros H. cbn. unfold is_fixed, row_of. cbn. rewrite H. cbn. auto. Qed.

Lemma values_perm : forall ps vec vals,
  s_values (table_of ps) vec = Some vals ->
  Permutation (combine (s_floating_names (table_of ps)) vec
               ++ combine (s_fixed_names (table_of ps)) (s_fixed_values (table_of ps)))
              (combine (s_names (table_of ps)) vals)
  /\ length vals = length ps /\ length vec = length (s_floating_names (table_of ps)).
Proof.
  induction ps as [|p ps IH]; intros vec vals H.
  - cbn in H. destruct vec; [|discriminate]. inversion H. cbn. auto.
  - destruct (p_isfixed p) eqn:Ef.
    + destruct (tbl_cons_fixed p ps Ef) as (A & B & C & D & E). rewrite A in H. rewrite B, C, D, E.
      destruct (s_values (table_of ps) vec) as [vs|] eqn:Ev; [|discriminate]. cbn in H. inversion H; subst vals.
      destruct (IH vec vs Ev) as (P & L1 & L2). cbn [combine length]. split; [|auto].
      apply Permutation_sym, Permutation_cons_app, Permutation_sym. exact P.
    + destruct (tbl_cons_floating p ps Ef) as (A & B & C & D & E). rewrite A in H. rewrite B, C, D, E.
      destruct vec as [|x vec]; [discriminate|].
      destruct (s_values (table_of ps) vec) as [vs|] eqn:Ev; [|discriminate]. cbn in H. inversion H; subst vals.
      destruct (IH vec vs Ev) as (P & L1 & L2). cbn [combine length app]. split; [|auto].
      apply perm_skip. exact P.
Qed.

Lemma fst_combine {A B} (l : list A) (r : list B) : length l = length r -> map fst (combine l r) = l.
Proof. revert r; induction l; destruct r; cbn; intros H; try discriminate; [reflexivity | f_equal; auto]. Qed.

Theorem view_params_dict st s ps vec vals :
  Consistent st s ps -> s_values (table_of ps) vec = Some vals ->
  forall n, dict_get (get_params_dict s vec) n = s_lookup (s_params_map (table_of ps) vals) n.
Proof.
  intros HC HV n. destruct (values_perm ps vec vals HV) as (P & L1 & L2).
  destruct HC as (_ & HN & _ & _ & B & C & D & _).
  unfold get_params_dict, s_lookup, s_params_map. rewrite B, C, D.
  assert (HK : NoDup (map fst (combine (s_names (table_of ps)) vals))).
  { rewrite fst_combine; [|unfold s_names, table_of; rewrite !map_length; auto].
    unfold s_names, table_of. rewrite map_map. exact HN. }
  assert (HK2 : NoDup (map fst (combine (s_floating_names (table_of ps)) vec ++
                         combine (s_fixed_names (table_of ps)) (s_fixed_values (table_of ps))))).
  { eapply Permutation_NoDup; [|exact HK]. apply Permutation_map, Permutation_sym. exact P. }
  rewrite dict_of_get by assumption. apply assoc_perm; assumption.
Qed.

(* the value of the parameter at position j, spelled out *)
Corollary view_params_dict_nth st s ps vec vals j p v :
  Consistent st s ps -> s_values (table_of ps) vec = Some vals ->
  nth_error ps j = Some p -> nth_error vals j = Some v ->
  dict_get (get_params_dict s vec) (p_name p) = Some v.
Proof.
  intros HC HV Hp Hv. rewrite (view_params_dict st s ps vec vals HC HV).
  destruct HC as (_ & HN & _). unfold s_lookup, s_params_map, s_names, table_of. rewrite map_map. cbn.
  clear HV. revert j vals HN Hp Hv. induction ps as [|q l IH]; intros j vals HN Hp Hv; [destruct j; discriminate|].
  destruct vals as [|x vals]; [destruct j; discriminate|]. cbn in HN. inversion HN; subst.
  destruct j; cbn in *.
  - inversion Hp; inversion Hv; subst. rewrite Z.eqb_refl. reflexivity.
  - destruct (p_name p =? p_name q) eqn:E; [|eapply IH; eauto].
    apply Z.eqb_eq in E. exfalso. apply H1. rewrite <- E. apply in_map. eapply nth_error_In; eauto.
Qed.

Theorem views_all st s ps :
  Consistent st s ps ->
  let T := table_of ps in
  ps_mask s = s_mask T
  /\ floating_mask s = map negb (s_mask T)
  /\ ps_fxn s = s_fixed_names T
  /\ ps_fln s = s_floating_names T
  /\ params_name_list s = s_fixed_names T ++ s_floating_names T
  /\ ps_fxv s = s_fixed_values T
  /\ fixed_params_idxs s = s_fixed_idxs T
  /\ floating_params_idxs s = s_floating_idxs T
  /\ n_params s = zlen T
  /\ n_fixed_params s = zlen (s_fixed_names T)
  /\ n_floating_params s = zlen (s_floating_names T)
  /\ floating_param_initials st s = Ok (s_floating_initials T)
  /\ floating_param_bounds st s = Ok (s_floating_bounds T)
  /\ (forall n, get_fixed_pidx s n = match s_fixed_pidx T n with Some i => Ok i | None => Err KeyError end)
  /\ (forall n, get_floating_pidx s n = match s_floating_pidx T n with Some i => Ok i | None => Err KeyError end).
Proof.
  intros HC T.
  destruct (view_caches st s ps HC) as (A1 & A2 & A3 & A4 & A5).
  destruct (view_idxs st s ps HC) as (B1 & B2).
  destruct (view_counts st s ps HC) as (C1 & C2 & C3).
  destruct (view_floating_initials_bounds st s ps HC) as (D1 & D2).
  unfold floating_mask. rewrite A1. subst T.
  repeat split; auto; intros n; apply (view_pidx st s ps HC n).
Qed.
