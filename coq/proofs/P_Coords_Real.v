(* Real-analysis lemmas used by the C19 proofs: floor-modulo, atan2, the
   half-angle identity, periodicity over Z.  Nothing here mentions the model. *)
From Coq Require Import Reals ZArith Lra Lia Psatz.
From Sky Require Import NumR.
Open Scope R_scope.

(* ---------------------------------------------------------------- floor / modulo *)
Lemma Int_part_unique (r : R) (k : Z) : IZR k <= r -> r < IZR k + 1 -> Int_part r = k.
Proof.
  intros H1 H2. unfold Int_part.
  assert (E : (k + 1)%Z = up r).
  { apply up_tech; [exact H1| rewrite plus_IZR; exact H2]. }
  rewrite <- E. lia.
Qed.

Lemma Rfloor_bounds (r : R) : Rfloor r <= r < Rfloor r + 1.
Proof. unfold Rfloor. destruct (base_Int_part r) as [H1 H2]. lra. Qed.

Lemma Rfmod_decomp (x y : R) : x = Rfmod x y + y * IZR (Int_part (x / y)).
Proof. unfold Rfmod, Rfloor. ring. Qed.

Lemma Rfmod_bound (x y : R) : 0 < y -> 0 <= Rfmod x y < y.
Proof.
  intros Hy. unfold Rfmod.
  destruct (Rfloor_bounds (x / y)) as [H1 H2].
  assert (E : x - y * Rfloor (x / y) = y * (x / y - Rfloor (x / y))) by (field; lra).
  rewrite E.
  set (f := Rfloor (x / y)) in *. set (q := x / y) in *.
  split.
  - apply Rmult_le_pos; lra.
  - rewrite <- (Rmult_1_r y) at 2. apply Rmult_lt_compat_l; lra.
Qed.

Lemma Rfmod_unique (x y r : R) (k : Z) :
  0 < y -> 0 <= r < y -> x = r + y * IZR k -> Rfmod x y = r.
Proof.
  intros Hy Hr E. unfold Rfmod, Rfloor.
  assert (Q : x / y = r / y + IZR k) by (rewrite E; field; lra).
  assert (R0 : 0 <= r / y) by (apply Rmult_le_pos; [lra | left; apply Rinv_0_lt_compat; exact Hy]).
  assert (R1 : r / y < 1).
  { apply (Rmult_lt_reg_r y); [exact Hy|]. unfold Rdiv. rewrite Rmult_assoc, Rinv_l by lra. lra. }
  rewrite (Int_part_unique (x / y) k) by lra.
  rewrite E. ring.
Qed.

Lemma Rfmod_small (x y : R) : 0 <= x < y -> Rfmod x y = x.
Proof. intros H. apply (Rfmod_unique x y x 0); [lra | exact H | simpl; ring]. Qed.

Lemma Rfmod_idem (x y : R) : 0 < y -> Rfmod (Rfmod x y) y = Rfmod x y.
Proof. intros Hy. apply Rfmod_small. apply Rfmod_bound. exact Hy. Qed.

Lemma Rfmod_shift (x y : R) (k : Z) : 0 < y -> Rfmod (x + y * IZR k) y = Rfmod x y.
Proof.
  intros Hy. apply (Rfmod_unique _ y _ (Int_part (x / y) + k)).
  - exact Hy.
  - apply Rfmod_bound; exact Hy.
  - rewrite plus_IZR. rewrite (Rfmod_decomp x y) at 1. ring.
Qed.

(* ---------------------------------------------------------------- periodicity over Z *)
Lemma cos_period_Z (x : R) (k : Z) : cos (x + 2 * IZR k * PI) = cos x.
Proof.
  destruct (Z_le_gt_dec 0 k) as [H|H].
  - rewrite <- (Z2Nat.id k H), <- INR_IZR_INZ. apply cos_period.
  - rewrite <- (cos_period (x + 2 * IZR k * PI) (Z.to_nat (- k))).
    rewrite INR_IZR_INZ, Z2Nat.id by lia. rewrite opp_IZR. f_equal. ring.
Qed.

Lemma sin_period_Z (x : R) (k : Z) : sin (x + 2 * IZR k * PI) = sin x.
Proof.
  destruct (Z_le_gt_dec 0 k) as [H|H].
  - rewrite <- (Z2Nat.id k H), <- INR_IZR_INZ. apply sin_period.
  - rewrite <- (sin_period (x + 2 * IZR k * PI) (Z.to_nat (- k))).
    rewrite INR_IZR_INZ, Z2Nat.id by lia. rewrite opp_IZR. f_equal. ring.
Qed.

Lemma twoPI_pos : 0 < 2 * PI.
Proof. generalize PI_RGT_0. lra. Qed.

Lemma cos_Rfmod (x : R) : cos (Rfmod x (2 * PI)) = cos x.
Proof.
  rewrite (Rfmod_decomp x (2 * PI)) at 2.
  set (k := Int_part (x / (2 * PI))).
  replace (Rfmod x (2 * PI) + 2 * PI * IZR k) with (Rfmod x (2 * PI) + 2 * IZR k * PI) by ring.
  symmetry. apply cos_period_Z.
Qed.

Lemma sin_Rfmod (x : R) : sin (Rfmod x (2 * PI)) = sin x.
Proof.
  rewrite (Rfmod_decomp x (2 * PI)) at 2.
  set (k := Int_part (x / (2 * PI))).
  replace (Rfmod x (2 * PI) + 2 * PI * IZR k) with (Rfmod x (2 * PI) + 2 * IZR k * PI) by ring.
  symmetry. apply sin_period_Z.
Qed.

(* ---------------------------------------------------------------- sums of squares *)
Lemma sumsq3_zero (a b c : R) : a * a + b * b + c * c = 0 -> a = 0 /\ b = 0 /\ c = 0.
Proof. intros H. repeat split; nra. Qed.

Lemma sumsq2_zero (a b : R) : a * a + b * b = 0 -> a = 0 /\ b = 0.
Proof. intros H. split; nra. Qed.

Lemma sqrt_not_pos (x : R) : 0 <= x -> ~ 0 < sqrt x -> x = 0.
Proof.
  intros Hx Hn. destruct (Rle_lt_or_eq_dec 0 x Hx) as [H|H]; [|symmetry; exact H].
  exfalso. apply Hn. apply sqrt_lt_R0. exact H.
Qed.

(* ---------------------------------------------------------------- atan2 *)
Lemma sqrt_ratio_pos (x y : R) : 0 < x ->
  sqrt (1 + (y / x)²) = sqrt (x * x + y * y) / x.
Proof.
  intros Hx. apply sqrt_lem_1.
  - unfold Rsqr. nra.
  - apply Rmult_le_pos; [apply sqrt_pos | left; apply Rinv_0_lt_compat; exact Hx].
  - assert (S : sqrt (x * x + y * y) * sqrt (x * x + y * y) = x * x + y * y) by (apply sqrt_sqrt; nra).
    unfold Rsqr.
    replace (sqrt (x * x + y * y) / x * (sqrt (x * x + y * y) / x))
      with ((sqrt (x * x + y * y) * sqrt (x * x + y * y)) / (x * x)) by (field; lra).
    rewrite S. field. lra.
Qed.

Lemma rho_pos (x y : R) : x <> 0 -> 0 < sqrt (x * x + y * y).
Proof. intros Hx. apply sqrt_lt_R0. nra. Qed.

Lemma atan_cos_sin_pos (x y : R) : 0 < x ->
  sqrt (x * x + y * y) * cos (atan (y / x)) = x /\
  sqrt (x * x + y * y) * sin (atan (y / x)) = y.
Proof.
  intros Hx. rewrite cos_atan, sin_atan, (sqrt_ratio_pos x y Hx).
  assert (Hr := rho_pos x y ltac:(lra)).
  split; field; lra.
Qed.

Lemma atan_cos_sin_neg (x y : R) : x < 0 ->
  sqrt (x * x + y * y) * cos (atan (y / x)) = - x /\
  sqrt (x * x + y * y) * sin (atan (y / x)) = - y.
Proof.
  intros Hx.
  replace (y / x) with ((- y) / (- x)) by (field; lra).
  replace (x * x + y * y) with ((- x) * (- x) + (- y) * (- y)) by ring.
  apply atan_cos_sin_pos. lra.
Qed.

Lemma Ratan2_cos_sin (y x : R) :
  sqrt (x * x + y * y) * cos (Ratan2 y x) = x /\
  sqrt (x * x + y * y) * sin (Ratan2 y x) = y.
Proof.
  unfold Ratan2.
  destruct (Rlt_dec 0 x) as [Hp|Hp].
  - apply atan_cos_sin_pos; exact Hp.
  - destruct (Rlt_dec x 0) as [Hn|Hn].
    + destruct (atan_cos_sin_neg x y Hn) as [C S].
      destruct (Rle_dec 0 y) as [Hy|Hy].
      * rewrite neg_cos, neg_sin. split; lra.
      * unfold Rminus. rewrite cos_plus, sin_plus, cos_neg, sin_neg, cos_PI, sin_PI. split; lra.
    + assert (x = 0) by lra. subst x.
      replace (0 * 0 + y * y) with (Rsqr y) by (unfold Rsqr; ring).
      rewrite sqrt_Rsqr_abs.
      destruct (Rlt_dec 0 y) as [Hy|Hy].
      * rewrite cos_PI2, sin_PI2, Rabs_pos_eq by lra. split; lra.
      * destruct (Rlt_dec y 0) as [Hy'|Hy'].
        -- replace (- PI / 2) with (- (PI / 2)) by field.
           rewrite cos_neg, sin_neg, cos_PI2, sin_PI2, Rabs_left by lra. split; lra.
        -- assert (y = 0) by lra. subst y. rewrite Rabs_R0. split; lra.
Qed.

(* ---------------------------------------------------------------- asin / acos *)
Lemma asin_nonneg (s : R) : 0 <= s <= 1 -> 0 <= asin s.
Proof.
  intros Hs. destruct (asin_bound s) as [B1 B2].
  destruct (Rle_lt_dec 0 (asin s)) as [H|H]; [exact H|].
  exfalso.
  assert (sin (asin s) < 0).
  { apply sin_lt_0_var; generalize PI_RGT_0; lra. }
  rewrite sin_asin in H0 by lra. lra.
Qed.

Lemma sqrt_unit (h : R) : 0 <= h <= 1 -> 0 <= sqrt h <= 1.
Proof.
  intros H. split; [apply sqrt_pos|].
  rewrite <- sqrt_1. apply sqrt_le_1_alt. lra.
Qed.

(* psi = 2 asin (sqrt h) is the angle in [0, pi] with cos psi = 1 - 2h *)
Lemma hav_angle_range (h : R) : 0 <= h <= 1 -> 0 <= 2 * asin (sqrt h) <= PI.
Proof.
  intros H. destruct (sqrt_unit h H) as [S0 S1].
  destruct (asin_bound (sqrt h)) as [_ B2].
  assert (0 <= asin (sqrt h)) by (apply asin_nonneg; lra). lra.
Qed.

Lemma hav_angle_cos (h : R) : 0 <= h <= 1 -> cos (2 * asin (sqrt h)) = 1 - 2 * h.
Proof.
  intros H. destruct (sqrt_unit h H) as [S0 S1].
  rewrite cos_2a_sin, sin_asin by lra.
  rewrite Rmult_assoc, sqrt_sqrt by lra. ring.
Qed.

Lemma hav_angle_acos (h : R) : 0 <= h <= 1 -> 2 * asin (sqrt h) = acos (1 - 2 * h).
Proof.
  intros H. rewrite <- (hav_angle_cos h H). symmetry. apply acos_cos. apply hav_angle_range. exact H.
Qed.

(* sin^2 (|d| / 2) = (1 - cos d) / 2 *)
Lemma sin_half_abs_sq (d : R) : sin (Rabs d / 2) * sin (Rabs d / 2) = (1 - cos d) / 2.
Proof.
  assert (E : cos d = cos (Rabs d)).
  { unfold Rabs. destruct (Rcase_abs d); [rewrite cos_neg|]; reflexivity. }
  assert (C : cos (Rabs d) = 1 - 2 * sin (Rabs d / 2) * sin (Rabs d / 2)).
  { rewrite <- cos_2a_sin. f_equal. field. }
  rewrite E, C. field.
Qed.

(* inner product of unit vectors *)
Lemma unit_dot_bound (a1 a2 a3 b1 b2 b3 : R) :
  a1 * a1 + a2 * a2 + a3 * a3 = 1 -> b1 * b1 + b2 * b2 + b3 * b3 = 1 ->
  -1 <= a1 * b1 + a2 * b2 + a3 * b3 <= 1.
Proof.
  intros Ha Hb.
  assert (H1 : 0 <= (a1 - b1) * (a1 - b1) + (a2 - b2) * (a2 - b2) + (a3 - b3) * (a3 - b3)).
  { generalize (Rle_0_sqr (a1 - b1)) (Rle_0_sqr (a2 - b2)) (Rle_0_sqr (a3 - b3)). unfold Rsqr. lra. }
  assert (H2 : 0 <= (a1 + b1) * (a1 + b1) + (a2 + b2) * (a2 + b2) + (a3 + b3) * (a3 + b3)).
  { generalize (Rle_0_sqr (a1 + b1)) (Rle_0_sqr (a2 + b2)) (Rle_0_sqr (a3 + b3)). unfold Rsqr. lra. }
  split; lra.
Qed.

Lemma unit_dot_one (a1 a2 a3 b1 b2 b3 : R) :
  a1 * a1 + a2 * a2 + a3 * a3 = 1 -> b1 * b1 + b2 * b2 + b3 * b3 = 1 ->
  a1 * b1 + a2 * b2 + a3 * b3 = 1 -> a1 = b1 /\ a2 = b2 /\ a3 = b3.
Proof.
  intros Ha Hb Hd.
  assert (H0 : (a1 - b1) * (a1 - b1) + (a2 - b2) * (a2 - b2) + (a3 - b3) * (a3 - b3) = 0) by lra.
  destruct (sumsq3_zero _ _ _ H0) as (X & Y & Z). repeat split; lra.
Qed.
