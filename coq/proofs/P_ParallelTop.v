(* parallelize as a whole: the statements of property C09 about the model
   functions `parallelize` / `parallelize_rss`, derived from the gather-loop
   lemmas; and the two schedules on which the loop before the fix never ends. *)
From Coq Require Import ZArith List Bool Arith Lia.
From Sky Require Import Result G_parallel M_Parallel P_Parallel P_ParallelLoud.
Import ListNotations.
Local Open Scope nat_scope.

Lemma filter_all {A} (f : A -> bool) l : (forall x, In x l -> f x = true) -> filter f l = l.
Proof.
  induction l as [|a l IH]; intro H; [reflexivity|]. cbn [filter].
  rewrite (H a (or_introl eq_refl)). f_equal. apply IH. intros x Hx. apply H. now right.
Qed.

Lemma worker_pids_spec k : worker_pids k = seq 1 (k - 1).
Proof.
  unfold worker_pids. destruct k as [|k]; [reflexivity|].
  cbn [seq filter]. rewrite K_par_is_worker. cbn [Z.of_nat Z.ltb Z.compare].
  replace (S k - 1) with k by lia. apply filter_all.
  intros x Hx. apply in_seq in Hx. rewrite K_par_is_worker. apply Z.ltb_lt. lia.
Qed.

Lemma worker_pids_length k : length (worker_pids k) = k - 1.
Proof. now rewrite worker_pids_spec, seq_length. Qed.

Lemma Forall2_map_l {A B C} (P : B -> C -> Prop) (g : A -> B) l rs :
  Forall2 (fun a r => P (g a) r) l rs -> Forall2 P (map g l) rs.
Proof. induction 1; cbn [map]; constructor; assumption. Qed.

Lemma Forall2_fun {A B} (F : A -> res B) ps rs1 rs2 :
  Forall2 (fun p x => F p = Ok x) ps rs1 -> Forall2 (fun p x => F p = Ok x) ps rs2 -> rs1 = rs2.
Proof.
  intro H; revert rs2; induction H as [|p x ps rs Hp _ IH]; intros rs2 H2; inversion H2; subst.
  - reflexivity.
  - f_equal; [congruence|now apply IH].
Qed.

Section Top.
Context {A R : Type}.

(* what a returned list is, for any per-chunk evaluation chunk_res *)
Lemma par_with_safe nargs ncpu (single : res (list R)) chunk_res sched r :
  par_with nargs ncpu single chunk_res sched = Some (Done r) ->
  (nargs = 0 /\ r = []) \/
  (ncpu = 1%Z /\ single = Ok r) \/
  ((1 < ncpu)%Z /\ exists rs,
     Forall2 (fun p x => chunk_res (Z.to_nat ncpu) p = Ok x) (seq 0 (Z.to_nat ncpu)) rs /\
     r = concat rs).
Proof.
  unfold par_with. rewrite K_par_empty, K_par_single.
  destruct (Z.eqb_spec (Z.of_nat nargs) 0) as [Hz|Hz].
  { intro E; inversion E; subst. left. split; [lia|reflexivity]. }
  destruct (Z.eqb_spec ncpu 1) as [->|Hne].
  - destruct single; intro E; inversion E; subst. right. left. now split.
  - destruct (Z.ltb_spec ncpu 1) as [Hlt|Hge]; [discriminate|].
    destruct (negb _); [discriminate|].
    destruct (chunk_res (Z.to_nat ncpu) 0) as [r0|e] eqn:H0; [|discriminate].
    destruct (exec _ _ sched (init r0)) as [w m|o] eqn:He; [discriminate|].
    intro E; inversion E; subst o; clear E.
    apply gather_safe in He. destruct He as [rs [HF ->]].
    right. right. split; [lia|]. exists (r0 :: rs). split; [|reflexivity].
    rewrite worker_pids_length in HF.
    assert (Hk : 2 <= Z.to_nat ncpu) by lia.
    destruct (Z.to_nat ncpu) as [|k']; [lia|].
    replace (S k' - 1) with k' in HF by lia.
    cbn [seq]. constructor; [exact H0|exact HF].
Qed.

Lemma parallelize_safe (f : A -> res R) args ncpu sched r :
  parallelize f args ncpu sched = Some (Done r) -> mapM f args = Ok r.
Proof.
  intro H. apply par_with_safe in H as [[Hz ->]|[[_ H]|[Hn [rs [HF ->]]]]]; [|exact H|].
  { destruct args; [reflexivity|discriminate]. }
  rewrite <- (chunks_cover args (Z.to_nat ncpu)) at 1 by lia.
  apply mapM_concat. now apply Forall2_map_l.
Qed.

Lemma parallelize_empty (f : A -> res R) ncpu sched :
  parallelize f [] ncpu sched = Some (Done []).
Proof. unfold parallelize, par_with. now rewrite K_par_empty. Qed.

Lemma parallelize_single (f : A -> res R) args sched :
  args <> [] ->
  parallelize f args 1 sched
  = Some (match mapM f args with Ok r => Done r | Err _ => Fail TaskRaised end).
Proof.
  intro Hne. unfold parallelize, par_with.
  destruct args; [contradiction|]. rewrite K_par_empty.
  destruct (Z.eqb_spec (Z.of_nat (length (a :: args))) 0) as [Hz|_]; [cbn [length] in Hz; lia|].
  now rewrite K_par_single.
Qed.

Lemma parallelize_multi (f : A -> res R) args ncpu sched :
  args <> [] -> (1 < ncpu)%Z ->
  parallelize f args ncpu sched =
  match mapM f (chunk args (Z.to_nat ncpu) 0) with
  | Err _ => Some (Fail TaskRaised)
  | Ok r0 =>
      match exec (Z.to_nat ncpu - 1) (fun pid => mapM f (chunk args (Z.to_nat ncpu) pid))
                 sched (init r0) with
      | Fin o => Some o
      | Run _ _ => None
      end
  end.
Proof.
  intros Hne Hn. unfold parallelize, par_with.
  destruct args; [contradiction|]. rewrite K_par_empty.
  destruct (Z.eqb_spec (Z.of_nat (length (a :: args))) 0) as [Hz|_]; [cbn [length] in Hz; lia|].
  rewrite K_par_single. destruct (Z.eqb_spec ncpu 1); [lia|].
  destruct (Z.ltb_spec ncpu 1); [lia|].
  rewrite K_par_n_lqueues, worker_pids_length.
  replace (Z.to_nat (ncpu - 1) =? Z.to_nat ncpu - 1) with true by (symmetry; apply Nat.eqb_eq; lia).
  reflexivity.
Qed.

Lemma parallelize_master_raises (f : A -> res R) args ncpu sched e :
  args <> [] -> (1 < ncpu)%Z ->
  mapM f (chunk args (Z.to_nat ncpu) 0) = Err e ->
  parallelize f args ncpu sched = Some (Fail TaskRaised).
Proof. intros Hne Hn He. rewrite parallelize_multi by assumption. now rewrite He. Qed.

Lemma parallelize_loud (f : A -> res R) args ncpu s1 s2 r0 w m :
  args <> [] -> (1 < ncpu)%Z ->
  mapM f (chunk args (Z.to_nat ncpu) 0) = Ok r0 ->
  exec (Z.to_nat ncpu - 1) (fun pid => mapM f (chunk args (Z.to_nat ncpu) pid)) s1 (init r0)
    = Run w m ->
  quiescent (Z.to_nat ncpu - 1) w ->
  no_partial (Z.to_nat ncpu - 1) w ->
  poll_bound (Z.to_nat ncpu - 1) w <= n_master s2 ->
  exists o, parallelize f args ncpu (s1 ++ s2) = Some o /\
            (forall r, o = Done r -> mapM f args = Ok r).
Proof.
  intros Hne Hn H0 H1 Hq Hnp Hb.
  destruct (gather_loud _ _ r0 s1 s2 w m H1 Hq Hnp Hb) as [o [Ho _]].
  exists o. split.
  - rewrite parallelize_multi by assumption. now rewrite H0, Ho.
  - intros r ->. apply (parallelize_safe f args ncpu (s1 ++ s2)).
    rewrite parallelize_multi by assumption. now rewrite H0, Ho.
Qed.

Lemma mapM_total_ok (f : A -> res R) l :
  (forall a, exists b, f a = Ok b) -> exists r, mapM f l = Ok r.
Proof.
  intro H. induction l as [|a l [r IH]]; [now exists []|].
  destruct (H a) as [b Hb]. exists (b :: r). cbn [mapM]. now rewrite Hb, IH.
Qed.

Lemma parallelize_complete (f : A -> res R) args ncpu sched o :
  (1 <= ncpu)%Z -> (forall a, exists b, f a = Ok b) ->
  fault_free sched ->
  parallelize f args ncpu sched = Some o ->
  exists r, o = Done r /\ mapM f args = Ok r.
Proof.
  intros Hn Htot Hff H.
  destruct args as [|a0 args0].
  { rewrite parallelize_empty in H. inversion H; subst. now exists []. }
  assert (Hne : a0 :: args0 <> []) by discriminate.
  remember (a0 :: args0) as args eqn:Hargs. clear Hargs.
  destruct (Z.eq_dec ncpu 1) as [->|Hn1].
  - rewrite parallelize_single in H by assumption.
    destruct (mapM_total_ok f args Htot) as [r Hr]. rewrite Hr in H.
    inversion H; subst. now exists r.
  - assert (Hn' : (1 < ncpu)%Z) by lia.
    pose proof H as H'. rewrite parallelize_multi in H by assumption.
    destruct (mapM_total_ok f (chunk args (Z.to_nat ncpu) 0) Htot) as [r0 Hr0].
    rewrite Hr0 in H.
    destruct (exec _ _ sched (init r0)) as [w m|o'] eqn:He; [discriminate|].
    inversion H; subst o'; clear H.
    destruct (gather_complete _ _ r0 sched o Hff He) as [r [-> _]].
    exists r. split; [reflexivity|]. now apply (parallelize_safe f args ncpu sched).
Qed.

(* with rss: the list does not depend on the schedule *)
Lemma parallelize_rss_deterministic (St : Type) (draw : St -> Z * St) (mk : Z -> St)
    (g : St -> A -> res (R * St)) s0 args ncpu sched1 sched2 r1 r2 :
  parallelize_rss St draw mk g s0 args ncpu sched1 = Some (Done r1) ->
  parallelize_rss St draw mk g s0 args ncpu sched2 = Some (Done r2) ->
  r1 = r2.
Proof.
  intros H1 H2.
  destruct args as [|a0 args0].
  - unfold parallelize_rss, par_with in H1, H2. rewrite K_par_empty in H1, H2.
    cbn [length Z.of_nat Z.eqb] in H1, H2. congruence.
  - apply par_with_safe in H1, H2.
    destruct H1 as [[Hz1 _]|[[Hn1 H1]|[Hn1 [rs1 [HF1 ->]]]]]; [discriminate| |];
      (destruct H2 as [[Hz2 _]|[[Hn2 H2]|[Hn2 [rs2 [HF2 ->]]]]]; [discriminate| |]); try lia.
    + rewrite H1 in H2. now inversion H2.
    + f_equal. cbv beta in HF1, HF2. exact (Forall2_fun _ _ _ _ HF1 HF2).
Qed.

End Top.

(* ------------------------------------------------------------------------- *)
(* the loop before the fix: two schedules after which it never ends, and what
   the loop after the fix does on the same schedules                          *)

Lemma exec_legacy_app {R} np (wres : nat -> res (list R)) s1 s2 s :
  exec_legacy np wres (s1 ++ s2) s = exec_legacy np wres s2 (exec_legacy np wres s1 s).
Proof. unfold exec_legacy. apply fold_left_app. Qed.

Lemma legacy_stuck {R} np (wres : nat -> res (list R)) (s : sys) n :
  step_legacy np wres Master s = s ->
  exec_legacy np wres (repeat Master n) s = s.
Proof.
  intro H. induction n as [|n IH]; [reflexivity|].
  cbn [repeat]. unfold exec_legacy in *. cbn [fold_left]. rewrite H. exact IH.
Qed.

Lemma legacy_hang_a n :
  exists w m, exec_legacy 2 wres2 (sched_a ++ repeat Master n) (init [0]) = Run w m /\
              quiescent 2 w.
Proof.
  rewrite exec_legacy_app.
  assert (Hs : step_legacy 2 wres2 Master (exec_legacy 2 wres2 sched_a (init [0]))
               = exec_legacy 2 wres2 sched_a (init [0])) by (vm_compute; reflexivity).
  rewrite (legacy_stuck 2 wres2 _ n Hs).
  eexists; eexists; split; [vm_compute; reflexivity|].
  intros p Hp. assert (Hc : p = 1 \/ p = 2) by lia. destruct Hc as [->| ->]; vm_compute; discriminate.
Qed.

Lemma legacy_hang_b n :
  exists w m, exec_legacy 2 wres2 (sched_b ++ repeat Master n) (init [0]) = Run w m /\
              exitc (wks w 1) = Some 1%Z /\ exitc (wks w 2) = Some 0%Z.
Proof.
  rewrite exec_legacy_app.
  assert (Hs : step_legacy 2 wres2 Master (exec_legacy 2 wres2 sched_b (init [0]))
               = exec_legacy 2 wres2 sched_b (init [0])) by (vm_compute; reflexivity).
  rewrite (legacy_stuck 2 wres2 _ n Hs).
  eexists; eexists; split; [vm_compute; reflexivity|]. split; vm_compute; reflexivity.
Qed.

Lemma fixed_on_a :
  exec 2 wres2 (sched_a ++ [Master; Master; Master]) (init [0]) = Fin (Fail ChildDied).
Proof. vm_compute. reflexivity. Qed.

Lemma fixed_on_b :
  exec 2 wres2 (sched_b ++ [Master; Master]) (init [0]) = Fin (Fail LogIncomplete).
Proof. vm_compute. reflexivity. Qed.

Lemma parallelize_safe_map {A R} (g : A -> R) args ncpu sched r :
  parallelize (fun a => Ok (g a)) args ncpu sched = Some (Done r) ->
  r = map g args /\ length r = length args.
Proof.
  intro H. apply parallelize_safe in H.
  rewrite (mapM_total (fun a => Ok (g a)) g args) in H by reflexivity.
  inversion H; subst. split; [reflexivity|apply map_length].
Qed.

(* regression: the code before fix ac3e25b raised for the empty argument list *)
Lemma legacy_empty_raised :
  exists (f : Z -> res Z) (ncpu : Z) (sched : list action),
    (forall a, exists b, f a = Ok b) /\ fault_free sched /\ (1 <= ncpu)%Z /\
    mapM f [] = Ok [] /\
    par_with_legacy_empty 0 ncpu (mapM f []) (fun k pid => mapM f (chunk [] k pid)) sched
      = Some (Fail EmptyArgs).
Proof.
  exists (fun a => Ok a), 3%Z, [].
  split; [intro a; now exists a|]. split; [reflexivity|]. split; [lia|]. split; reflexivity.
Qed.
