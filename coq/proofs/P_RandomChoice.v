(* Proofs for C08, part 2: RandomChoice.  The carrier is any number system
   whose order, addition and division satisfy eight monotonicity laws (real
   numbers, rationals, and - as a trusted reading - finite IEEE doubles). *)
From Coq Require Import ZArith List Bool Lia Permutation Sorted.
From Sky Require Import Result PyList Num G_random M_Random S_Random P_Random.
Import ListNotations.
Open Scope Z_scope.

(* ------------------------------------------------------------------ *)
(* list plumbing                                                        *)
Lemma last_cons_default {A} (l : list A) : forall a d, last (a :: l) d = last l a.
Proof.
  induction l as [|b t IH]; intros a d; [reflexivity|].
  change (last (a :: b :: t) d) with (last (b :: t) d).
  rewrite (IH b d), (IH b a). reflexivity.
Qed.

Lemma zlen_cons {A} (a : A) l : zlen (a :: l) = 1 + zlen l.
Proof. unfold zlen. cbn [length]. lia. Qed.
Lemma zlen_nonneg {A} (l : list A) : 0 <= zlen l.
Proof. unfold zlen. lia. Qed.

Lemma py_get_nat {A} (l : list A) (k : nat) a :
  nth_error l k = Some a -> py_get l (Z.of_nat k) = Ok a.
Proof.
  intros H. assert (Hk : (k < length l)%nat) by (apply nth_error_Some; congruence).
  unfold py_get, zlen.
  destruct (Z.of_nat k <? 0) eqn:E1; [apply Z.ltb_lt in E1; lia|].
  destruct ((Z.of_nat k <? 0) || (Z.of_nat (length l) <=? Z.of_nat k)) eqn:E2.
  { apply orb_true_iff in E2. destruct E2 as [E2|E2];
      [apply Z.ltb_lt in E2; lia | apply Z.leb_le in E2; lia]. }
  rewrite Nat2Z.id, H. reflexivity.
Qed.

Lemma py_get_In {A} (l : list A) i a : py_get l i = Ok a -> In a l.
Proof.
  unfold py_get. destruct ((_ <? 0) || (_ <=? _)); [discriminate|].
  destruct (nth_error l _) eqn:E; [|discriminate].
  intros H. inversion H. subst. eapply nth_error_In. exact E.
Qed.

Lemma py_get_last {A} (l : list A) a : py_get l (-1) = Ok a -> exists l', l = l' ++ [a].
Proof.
  unfold py_get, zlen. cbn [Z.ltb Z.compare].
  destruct ((-1 + Z.of_nat (length l) <? 0) || (Z.of_nat (length l) <=? -1 + Z.of_nat (length l)));
    [discriminate|].
  destruct (nth_error l (Z.to_nat (-1 + Z.of_nat (length l)))) eqn:E; [|discriminate].
  intros H. inversion H. subst a0. clear H.
  assert (Hl : l <> []) by (intros ->; destruct (Z.to_nat _); discriminate).
  destruct (exists_last Hl) as [l' [b Hb]]. subst l. exists l'.
  rewrite app_length in E. cbn [length] in E.
  replace (Z.to_nat (-1 + Z.of_nat (length l' + 1))) with (length l') in E by lia.
  rewrite nth_error_app2 in E by lia. rewrite Nat.sub_diag in E. cbn in E.
  inversion E. reflexivity.
Qed.

Lemma py_set_nat {A} (l : list A) (k : nat) v :
  (k < length l)%nat -> py_set l (Z.of_nat k) v = Ok (set_nth l k v).
Proof.
  intros Hk. unfold py_set, zlen.
  destruct (Z.of_nat k <? 0) eqn:E1; [apply Z.ltb_lt in E1; lia|].
  destruct ((Z.of_nat k <? 0) || (Z.of_nat (length l) <=? Z.of_nat k)) eqn:E2.
  { apply orb_true_iff in E2. destruct E2 as [E2|E2];
      [apply Z.ltb_lt in E2; lia | apply Z.leb_le in E2; lia]. }
  rewrite Nat2Z.id. reflexivity.
Qed.

Lemma set_nth_length {A} (l : list A) k v : length (set_nth l k v) = length l.
Proof.
  revert k. induction l as [|a r IH]; intros k; [reflexivity|].
  destruct k; cbn [set_nth length]; [reflexivity | rewrite IH; reflexivity].
Qed.

Lemma set_nth_nth_error {A} (l : list A) k v i :
  (k < length l)%nat ->
  nth_error (set_nth l k v) i = if Nat.eqb i k then Some v else nth_error l i.
Proof.
  revert k i. induction l as [|a r IH]; intros k i Hk; [cbn in Hk; lia|].
  destruct k, i; cbn [set_nth nth_error Nat.eqb]; try reflexivity.
  apply IH. cbn in Hk. lia.
Qed.

Lemma list_eq_nth_error {A} (l1 l2 : list A) :
  (forall i, nth_error l1 i = nth_error l2 i) -> l1 = l2.
Proof.
  revert l2. induction l1 as [|a r IH]; intros l2 H.
  - destruct l2; [reflexivity|]. specialize (H 0%nat). discriminate.
  - destruct l2 as [|b r2]; [specialize (H 0%nat); discriminate|].
    pose proof (H 0%nat) as H0. cbn in H0. inversion H0. subst. f_equal.
    apply IH. intros i. exact (H (S i)).
Qed.

Lemma mapM_ok {A B} (f : A -> res B) (g : A -> B) l :
  (forall a, In a l -> f a = Ok (g a)) -> mapM f l = Ok (map g l).
Proof.
  induction l as [|a r IH]; intros H; [reflexivity|].
  cbn [mapM map]. rewrite (H a (or_introl eq_refl)). cbn [bind].
  rewrite IH by (intros x Hx; apply H; right; exact Hx). reflexivity.
Qed.

(* idxs[perm] = map g perm writes g i at every position i listed in perm *)
Lemma scatter_spec (g : nat -> Z) (perm : list nat) : forall a,
  NoDup perm -> (forall j, In j perm -> (j < length a)%nat) ->
  exists a', scatter a (map Z.of_nat perm) (map g perm) = Ok a'
             /\ length a' = length a
             /\ forall i, nth_error a' i =
                          if in_dec Nat.eq_dec i perm
                          then (if Nat.ltb i (length a) then Some (g i) else None)
                          else nth_error a i.
Proof.
  induction perm as [|j rest IH]; intros a Hnd Hrng.
  - exists a. cbn. repeat split.
  - cbn [map scatter]. inversion Hnd as [|? ? Hnotin Hnd']. subst.
    assert (Hj : (j < length a)%nat) by (apply Hrng; left; reflexivity).
    rewrite py_set_nat by exact Hj. cbn [bind].
    destruct (IH (set_nth a j (g j)) Hnd') as [a' [E [Hlen Hnth]]].
    { intros x Hx. rewrite set_nth_length. apply Hrng. right. exact Hx. }
    exists a'. split; [exact E|]. rewrite set_nth_length in Hlen. split; [exact Hlen|].
    intros i. rewrite Hnth. rewrite set_nth_length.
    destruct (in_dec Nat.eq_dec i rest) as [Hi|Hi];
      destruct (in_dec Nat.eq_dec i (j :: rest)) as [Hi2|Hi2]; try reflexivity.
    + exfalso. apply Hi2. right. exact Hi.
    + rewrite set_nth_nth_error by exact Hj.
      destruct Hi2 as [Hi2|Hi2]; [|contradiction]. subst i.
      rewrite Nat.eqb_refl. destruct (Nat.ltb_spec j (length a)); [reflexivity|lia].
    + rewrite set_nth_nth_error by exact Hj.
      destruct (Nat.eqb_spec i j) as [->|Hne]; [|reflexivity].
      exfalso. apply Hi2. left. reflexivity.
Qed.

(* ------------------------------------------------------------------ *)
Section ChoiceProofs.
  Context {T : Type} (N : Num T).
  Notation zero := (nzero N).
  Notation one := (none N).
  Notation le a b := (nleb N a b = true).
  Notation lt a b := (nltb N a b = true).

  Hypothesis le_trans : forall a b c, le a b -> le b c -> le a c.
  Hypothesis lt_not_le : forall a b, lt a b -> nleb N b a = false.
  Hypothesis add_nonneg : forall a x, le zero a -> le zero x -> le a (nadd N a x).
  Hypothesis add_nonpos : forall a x, le zero a -> le x zero -> le (nadd N a x) a.
  Hypothesis div_mono : forall a b c, lt zero c -> le a b -> le (ndiv N a c) (ndiv N b c).
  Hypothesis div_self : forall c, lt zero c -> le one (ndiv N c c).
  Hypothesis div_zero : forall c, lt zero c -> le (ndiv N zero c) zero.
  Hypothesis pos_of_not_le : forall a, le zero a -> nleb N a zero = false -> lt zero a.

  Notation csum := (cumsum_fromT N).
  Notation ssr := (ss_right N).

  Lemma csum_length l : forall acc, length (csum acc l) = length l.
  Proof.
    induction l as [|q qr IH]; intros acc; [reflexivity|].
    cbn [cumsum_fromT length]. rewrite IH. reflexivity.
  Qed.
  Lemma ncumsum_length p : length (ncumsum N p) = length p.
  Proof. destruct p; [reflexivity|]. cbn [ncumsum length]. rewrite csum_length. reflexivity. Qed.

  Lemma ss_right_range a v : 0 <= ssr a v <= zlen a.
  Proof.
    induction a as [|b r IH]; cbn [ss_right]; [unfold zlen; cbn; lia|].
    rewrite zlen_cons. destruct (nleb N b v); lia.
  Qed.

  Lemma ss_right_zero a v : (forall e, In e a -> nleb N e v = false) -> ssr a v = 0.
  Proof.
    induction a as [|b r IH]; intros H; [reflexivity|]. cbn [ss_right].
    rewrite (H b (or_introl eq_refl)). rewrite IH; [reflexivity|].
    intros e He. apply H. right. exact He.
  Qed.

  (* all partial sums after acc are >= acc and >= 0 *)
  Lemma csum_ge l : forall acc,
    le zero acc -> Forall (nonnegT N) l ->
    Forall (fun e => le acc e /\ le zero e) (csum acc l).
  Proof.
    induction l as [|x r IH]; intros acc Ha Hl; cbn [cumsum_fromT]; [constructor|].
    inversion Hl as [|? ? Hx Hr]. subst. unfold nonnegT in Hx.
    pose proof (add_nonneg acc x Ha Hx) as H1.
    pose proof (le_trans _ _ _ Ha H1) as H2.
    constructor; [split; assumption|].
    specialize (IH (nadd N acc x) H2 Hr).
    eapply Forall_impl; [|exact IH]. cbn beta. intros e [He1 He2].
    split; [eapply le_trans; eassumption | exact He2].
  Qed.

  (* the cdf is non-decreasing: the precondition of np.searchsorted *)
  Lemma cdf_sorted_tail L l : forall acc,
    lt zero L -> le zero acc -> Forall (nonnegT N) l ->
    StronglySorted (fun a b => le a b) (map (fun x => ndiv N x L) (csum acc l)).
  Proof.
    induction l as [|x r IH]; intros acc HL Ha Hl; cbn [cumsum_fromT map]; [constructor|].
    inversion Hl as [|? ? Hx Hr]. subst. unfold nonnegT in Hx.
    pose proof (add_nonneg acc x Ha Hx) as H1.
    pose proof (le_trans _ _ _ Ha H1) as H2.
    constructor; [apply IH; assumption|].
    rewrite Forall_map. pose proof (csum_ge r _ H2 Hr) as G.
    eapply Forall_impl; [|exact G]. cbn beta. intros e [He _]. apply div_mono; assumption.
  Qed.

  Lemma cdf_sorted p L :
    lt zero L -> Forall (nonnegT N) p ->
    StronglySorted (fun a b => le a b) (map (fun x => ndiv N x L) (ncumsum N p)).
  Proof.
    intros HL Hp. destruct p as [|x r]; cbn [ncumsum map]; [constructor|].
    inversion Hp as [|? ? Hx Hr]. subst. unfold nonnegT in Hx.
    constructor; [apply cdf_sorted_tail; assumption|].
    rewrite Forall_map. pose proof (csum_ge r _ Hx Hr) as G.
    eapply Forall_impl; [|exact G]. cbn beta. intros e [He _]. apply div_mono; assumption.
  Qed.

  Lemma choice_tail L u l : forall acc,
    lt zero L -> le zero acc -> Forall (nonnegT N) l -> le (ndiv N acc L) u ->
    let c := map (fun x => ndiv N x L) (csum acc l) in
    let k := ssr c u in
    (k = zlen l /\ Forall (fun e => le e u) c)
    \/ (0 <= k < zlen l /\ exists x, nth_error l (Z.to_nat k) = Some x /\ lt zero x).
  Proof.
    induction l as [|x r IH]; intros acc HL Ha Hl Hprev; cbv zeta.
    - left. split; [reflexivity | constructor].
    - cbn [cumsum_fromT map ss_right]. rewrite zlen_cons.
      inversion Hl as [|? ? Hx Hr]. subst. unfold nonnegT in Hx.
      set (a := nadd N acc x).
      pose proof (add_nonneg acc x Ha Hx) as H1. fold a in H1.
      pose proof (le_trans _ _ _ Ha H1) as H2.
      destruct (nleb N (ndiv N a L) u) eqn:E.
      + destruct (IH a HL H2 Hr E) as [[Hk Hall]|[Hk [y [Hy Hpos]]]].
        * left. split; [lia|]. constructor; assumption.
        * right. split; [lia|]. exists y. split; [|exact Hpos].
          replace (Z.to_nat (1 + ssr (map (fun x0 => ndiv N x0 L) (csum a r)) u))
            with (S (Z.to_nat (ssr (map (fun x0 => ndiv N x0 L) (csum a r)) u))) by lia.
          exact Hy.
      + right.
        assert (Hz : ssr (map (fun x0 => ndiv N x0 L) (csum a r)) u = 0).
        { apply ss_right_zero. intros e He. apply in_map_iff in He.
          destruct He as [e0 [<- He0]].
          pose proof (csum_ge r a H2 Hr) as G. rewrite Forall_forall in G.
          destruct (G e0 He0) as [G1 _].
          destruct (nleb N (ndiv N e0 L) u) eqn:E2; [|reflexivity].
          pose proof (le_trans _ _ _ (div_mono _ _ _ HL G1) E2). congruence. }
        rewrite Hz. pose proof (zlen_nonneg r). split; [lia|].
        exists x. split; [reflexivity|].
        apply pos_of_not_le; [exact Hx|].
        destruct (nleb N x zero) eqn:E3; [|reflexivity]. exfalso.
        pose proof (add_nonpos acc x Ha E3) as H4. fold a in H4.
        pose proof (le_trans _ _ _ (div_mono _ _ _ HL H4) Hprev). congruence.
  Qed.

  (* the index chosen for one uniform value *)
  Lemma choice_index p L u :
    Forall (nonnegT N) p -> py_get (ncumsum N p) (-1) = Ok L -> lt zero L ->
    le zero u -> lt u one ->
    let k := ssr (map (fun x => ndiv N x L) (ncumsum N p)) u in
    0 <= k < zlen p /\ exists x, nth_error p (Z.to_nat k) = Some x /\ lt zero x.
  Proof.
    intros Hp HLget HL Hu0 Hu1. cbv zeta.
    assert (Hin : In (ndiv N L L) (map (fun x => ndiv N x L) (ncumsum N p))).
    { apply (in_map (fun x => ndiv N x L)). eapply py_get_In. exact HLget. }
    assert (Hlast : nleb N (ndiv N L L) u = false).
    { destruct (nleb N (ndiv N L L) u) eqn:E; [|reflexivity].
      pose proof (le_trans _ _ _ (div_self L HL) E) as H.
      pose proof (lt_not_le _ _ Hu1). congruence. }
    destruct p as [|x r]; [discriminate|].
    cbn [ncumsum map ss_right] in *. rewrite zlen_cons.
    inversion Hp as [|? ? Hx Hr]. subst. unfold nonnegT in Hx.
    destruct (nleb N (ndiv N x L) u) eqn:E.
    - destruct (choice_tail L u r x HL Hx Hr E) as [[Hk Hall]|[Hk [y [Hy Hpos]]]].
      + exfalso. destruct Hin as [Hin|Hin].
        * rewrite Hin in E. congruence.
        * rewrite Forall_forall in Hall. specialize (Hall _ Hin). cbn beta in Hall. congruence.
      + split; [lia|]. exists y. split; [|exact Hpos].
        replace (Z.to_nat (1 + ssr (map (fun x0 => ndiv N x0 L) (csum x r)) u))
          with (S (Z.to_nat (ssr (map (fun x0 => ndiv N x0 L) (csum x r)) u))) by lia.
        exact Hy.
    - assert (Hz : ssr (map (fun x0 => ndiv N x0 L) (csum x r)) u = 0).
      { apply ss_right_zero. intros e He. apply in_map_iff in He.
        destruct He as [e0 [<- He0]].
        pose proof (csum_ge r x Hx Hr) as G. rewrite Forall_forall in G.
        destruct (G e0 He0) as [G1 _].
        destruct (nleb N (ndiv N e0 L) u) eqn:E2; [|reflexivity].
        pose proof (le_trans _ _ _ (div_mono _ _ _ HL G1) E2). congruence. }
      rewrite Hz. pose proof (zlen_nonneg r). split; [lia|].
      exists x. split; [reflexivity|].
      apply pos_of_not_le; [exact Hx|].
      destruct (nleb N x zero) eqn:E3; [|reflexivity]. exfalso.
      pose proof (div_mono _ _ _ HL E3) as H4.
      pose proof (le_trans _ _ _ (le_trans _ _ _ H4 (div_zero L HL)) Hu0). congruence.
  Qed.

  (* on a non-decreasing table, the count of entries <= u is the first
     position whose entry exceeds u (what binary search returns) *)
  Lemma ss_right_inverse_cdf a u :
    StronglySorted (fun x y => le x y) a ->
    (ssr a u < zlen a) ->
    inverse_cdf N a u (Z.to_nat (ssr a u)).
  Proof.
    induction a as [|b r IH]; intros Hs Hlt.
    - unfold zlen in Hlt. cbn in Hlt. lia.
    - inversion Hs as [|? ? Hs' Hall]. subst. cbn [ss_right] in *.
      rewrite zlen_cons in Hlt. pose proof (ss_right_range r u) as Hr.
      destruct (nleb N b u) eqn:E.
      + destruct (IH Hs' ltac:(lia)) as [H1 [e [He1 He2]]].
        replace (Z.to_nat (1 + ssr r u)) with (S (Z.to_nat (ssr r u))) by lia.
        split.
        * intros i e0 Hi Hn. destruct i; cbn in Hn.
          -- inversion Hn. subst. exact E.
          -- apply (H1 i e0); [lia|exact Hn].
        * exists e. split; assumption.
      + assert (Hz : ssr r u = 0).
        { apply ss_right_zero. intros e He. rewrite Forall_forall in Hall.
          specialize (Hall e He). cbn beta in Hall.
          destruct (nleb N e u) eqn:E2; [|reflexivity].
          pose proof (le_trans _ _ _ Hall E2). congruence. }
        rewrite Hz. cbn. split.
        * intros i e0 Hi. lia.
        * exists b. split; [reflexivity|exact E].
  Qed.

  (* ---------------------------------------------------------------- *)
  (* the whole call                                                    *)

  (* sort / un-sort is invisible: for every permutation handed back by
     argsort and every content of the uninitialised index array *)
  Lemma rc_call_unsort (rc : rchoice) u (perm : list nat) junk :
    Permutation perm (seq 0 (length u)) ->
    rc_call N rc u (map Z.of_nat perm) junk
      = mapM (fun x => py_get (rc_items rc) (ssr (rc_cdf rc) x)) u.
  Proof.
    intros HP. unfold rc_call.
    assert (Hnd : NoDup perm) by (eapply Permutation_NoDup; [symmetry; exact HP | apply seq_NoDup]).
    assert (Hin : forall j, In j perm <-> (j < length u)%nat).
    { intros j. split; intros H.
      - eapply Permutation_in in H; [|exact HP]. apply in_seq in H. lia.
      - eapply Permutation_in; [symmetry; exact HP|]. apply in_seq. lia. }
    assert (Hlen : length perm = length u).
    { rewrite (Permutation_length HP). apply seq_length. }
    rewrite K_rc_side_right.
    rewrite (map_ext rc_perm (fun j => j)) by (intros; apply K_rc_perm). rewrite map_id.
    rewrite (map_ext (rc_ss_table N) (fun x => x)) by (intros; apply K_rc_ss_table). rewrite map_id.
    destruct u as [|u0 ur] eqn:Eu.
    { cbn in Hlen. destruct perm; [|discriminate]. reflexivity. }
    rewrite <- Eu in *. clear Eu ur.
    set (uget := fun j : nat => nth j u u0).
    rewrite (mapM_ok _ (fun z => uget (Z.to_nat z))).
    2:{ intros z Hz. apply in_map_iff in Hz. destruct Hz as [j [<- Hj]].
        destruct (K_rc_ss_value (Z.of_nat j) 0) as [_ Hi]. rewrite Hi.
        rewrite Nat2Z.id. apply py_get_nat. apply nth_error_nth'. apply Hin. exact Hj. }
    cbn [bind].
    pose (g := fun j : nat => ssr (rc_cdf rc) (uget j)).
    rewrite (map_ext rc_scatter_at (fun j => j)) by (intros j; destruct (K_rc_scatter j 0); assumption).
    rewrite map_id.
    rewrite (map_ext rc_scatter_val (fun j => j)) by (intros j; destruct (K_rc_scatter 0 j); assumption).
    rewrite map_id.
    rewrite (map_map Z.of_nat (fun z : Z => uget (Z.to_nat z))).
    rewrite (map_map (fun x : nat => uget (Z.to_nat (Z.of_nat x))) (ss_right N (rc_cdf rc))).
    rewrite (map_ext (fun x : nat => ssr (rc_cdf rc) (uget (Z.to_nat (Z.of_nat x)))) g)
      by (intros; unfold g; rewrite Nat2Z.id; reflexivity).
    rewrite map_length.
    destruct (scatter_spec g perm (repeat junk (length perm)) Hnd) as [a' [E [Hl Hnth]]].
    { intros j Hj. rewrite repeat_length, Hlen. apply Hin. exact Hj. }
    rewrite E. cbn [bind].
    assert (Ha' : a' = map (fun x => ssr (rc_cdf rc) x) u).
    { apply list_eq_nth_error. intros i. rewrite Hnth, repeat_length, Hlen.
      destruct (in_dec Nat.eq_dec i perm) as [Hi|Hi].
      - apply Hin in Hi. destruct (Nat.ltb_spec i (length u)); [|lia].
        rewrite nth_error_map. rewrite (nth_error_nth' u u0 Hi). reflexivity.
      - assert (length u <= i)%nat.
        { destruct (Nat.le_gt_cases (length u) i) as [G|G]; [exact G|].
          exfalso. apply Hi. apply Hin. exact G. }
        rewrite nth_error_map.
        replace (nth_error u i) with (@None T) by (symmetry; apply nth_error_None; lia).
        cbn. apply nth_error_None. rewrite repeat_length. lia. }
    rewrite Ha'. clear.
    induction u as [|x r IH]; [reflexivity|]. cbn [map mapM].
    destruct (K_rc_take (ssr (rc_cdf rc) x) 0) as [_ Hi]. rewrite Hi.
    destruct (py_get (rc_items rc) (ssr (rc_cdf rc) x)); [|reflexivity].
    cbn [bind]. rewrite IH. reflexivity.
  Qed.

  Lemma rc_init_inv eps64 epsp items p rc :
    rc_init N eps64 epsp items p = Ok rc ->
    zlen p = zlen items /\ rc_items rc = items
    /\ (exists L, py_get (ncumsum N p) (-1) = Ok L
                 /\ rc_cdf rc = map (fun x => ndiv N x L) (ncumsum N p))
    /\ Forall (nonnegT N) p
    /\ nltb N (nmax N (nsqrt N eps64) (nsqrt N epsp)) (nabs N (nsub N (nsum N p) one)) = false.
  Proof.
    unfold rc_init, assert_probs, cdf_of.
    rewrite K_rc_size_bad.
    destruct (zlen p =? zlen items) eqn:E; cbn [negb]; [|discriminate].
    apply Z.eqb_eq in E.
    destruct (forallb (rc_nonneg N) p) eqn:EF; cbn [negb]; [|discriminate].
    rewrite K_rc_sum_bad, K_rc_atol.
    destruct (nltb N (nmax N (nsqrt N eps64) (nsqrt N epsp)) (nabs N (nsub N (nsum N p) one))) eqn:ES;
      [discriminate|]. cbn [bind].
    destruct (K_rc_norm N zero zero) as [_ Hlast]. rewrite Hlast.
    destruct (py_get (ncumsum N p) (-1)) as [L|] eqn:EL; [|discriminate].
    cbn [bind]. intros H. inversion H. subst rc. cbn.
    split; [exact E|]. split; [reflexivity|]. split.
    - exists L. split; [reflexivity|].
      apply map_ext. intros x. destruct (K_rc_norm N x L) as [Hn _]. exact Hn.
    - split; [|reflexivity].
      rewrite forallb_forall in EF. apply Forall_forall. intros x Hx.
      specialize (EF x Hx). rewrite K_rc_nonneg in EF. exact EF.
  Qed.

  Theorem rc_call_correct eps64 epsp items p rc u (perm : list nat) junk :
    Forall (nonnegT N) p ->
    rc_init N eps64 epsp items p = Ok rc ->
    (forall L, py_get (ncumsum N p) (-1) = Ok L -> lt zero L) ->
    Forall (unit_interval N) u ->
    Permutation perm (seq 0 (length u)) ->
    exists out,
      rc_call N rc u (map Z.of_nat perm) junk = Ok out
      /\ Forall2 (fun ui it =>
            let k := Z.to_nat (ssr (rc_cdf rc) ui) in
            (k < length p)%nat
            /\ nth_error items k = Some it
            /\ (exists x, nth_error p k = Some x /\ posT N x)
            /\ inverse_cdf N (rc_cdf rc) ui k) u out.
  Proof.
    intros Hp Hinit HL Hu HP.
    rewrite (rc_call_unsort rc u perm junk HP).
    destruct (rc_init_inv _ _ _ _ _ Hinit) as [Hlen [Hit [[L [HLget Hcdf]] _]]].
    specialize (HL L HLget). rewrite Hit, Hcdf. clear HP perm junk.
    induction u as [|ui r IH].
    - exists []. split; [reflexivity|constructor].
    - pose proof (Forall_inv Hu) as [Hu0 Hu1]. pose proof (Forall_inv_tail Hu) as Hr.
      destruct (IH Hr) as [out [E F]]. cbn [mapM].
      destruct (choice_index p L ui Hp HLget HL Hu0 Hu1) as [Hk [x [Hx Hpos]]].
      set (k := ssr (map (fun x0 => ndiv N x0 L) (ncumsum N p)) ui) in *.
      assert (Hkn : (Z.to_nat k < length items)%nat) by (unfold zlen in *; lia).
      destruct (nth_error items (Z.to_nat k)) as [it|] eqn:Eit;
        [|apply nth_error_None in Eit; lia].
      assert (Hg : py_get items k = Ok it).
      { rewrite <- (Z2Nat.id k) by lia. apply py_get_nat. exact Eit. }
      rewrite Hg. cbn [bind]. rewrite E. cbn [bind].
      exists (it :: out). split; [reflexivity|]. constructor; [|exact F].
      cbv zeta. fold k. split; [unfold zlen in *; lia|]. split; [exact Eit|].
      split; [exists x; split; [exact Hx | exact Hpos]|].
      apply ss_right_inverse_cdf.
      + apply cdf_sorted; assumption.
      + fold k. unfold zlen in *. rewrite map_length.
        rewrite ncumsum_length.
        lia.
  Qed.

  (* ---------------------------------------------------------------- *)
  (* every vector the constructor accepts has a positive last cumulative
     sum: the premises "p >= 0" and "positive sum" follow from acceptance   *)
  Hypothesis le_zero_refl : le zero zero.
  Hypothesis tot0 : forall a, le zero a -> nltb N zero a = false -> le a zero.
  Hypothesis add_nonneg_l : forall a x, le zero a -> le zero x -> le x (nadd N a x).
  Hypothesis abs_sub : forall s, le s zero -> le one (nabs N (nsub N s one)).
  Hypothesis lt_le_trans : forall a b c, lt a b -> le b c -> lt a c.

  Lemma csum_last_nonpos l : forall acc,
    le zero acc -> Forall (nonnegT N) l -> le (last (csum acc l) acc) zero ->
    le acc zero /\ Forall (fun x => le x zero) l.
  Proof.
    induction l as [|x r IH]; intros acc Ha Hl HL; cbn [cumsum_fromT last] in HL.
    - split; [exact HL | constructor].
    - inversion Hl as [|? ? Hx Hr]. subst. unfold nonnegT in Hx.
      set (a := nadd N acc x) in *.
      pose proof (add_nonneg acc x Ha Hx) as H1. fold a in H1.
      pose proof (le_trans _ _ _ Ha H1) as H2.
      assert (HL' : le (last (csum a r) a) zero) by (rewrite <- last_cons_default with (d := acc); exact HL).
      destruct (IH a H2 Hr HL') as [Ha0 Hr0].
      split; [eapply le_trans; [exact H1 | exact Ha0]|].
      constructor; [|exact Hr0].
      exact (le_trans _ _ _ (add_nonneg_l acc x Ha Hx) Ha0).
  Qed.

  Lemma nsum_nonpos l : forall acc,
    le zero acc -> le acc zero ->
    Forall (fun x => le zero x /\ le x zero) l -> le (fold_left (nadd N) l acc) zero.
  Proof.
    induction l as [|x r IH]; intros acc H0 H1 Hl; cbn [fold_left]; [exact H1|].
    inversion Hl as [|? ? [Hx0 Hx1] Hr]. subst.
    apply IH; [|  | exact Hr].
    - eapply le_trans; [exact H0 | apply add_nonneg; assumption].
    - eapply le_trans; [apply add_nonpos; assumption | exact H1].
  Qed.

  Lemma accepted_positive eps64 epsp items p rc :
    nltb N (nmax N (nsqrt N eps64) (nsqrt N epsp)) one = true ->
    rc_init N eps64 epsp items p = Ok rc ->
    forall L, py_get (ncumsum N p) (-1) = Ok L -> lt zero L.
  Proof.
    intros Htol Hinit L HL.
    destruct (rc_init_inv _ _ _ _ _ Hinit) as [_ [_ [_ [Hp Hsum]]]].
    destruct (nltb N zero L) eqn:E; [reflexivity|]. exfalso.
    destruct p as [|x0 r]; [discriminate|].
    inversion Hp as [|? ? Hx0 Hr]. subst. unfold nonnegT in Hx0.
    destruct (py_get_last _ _ HL) as [l' Hl'].
    assert (HlastL : last (ncumsum N (x0 :: r)) x0 = L) by (rewrite Hl'; apply last_last).
    cbn [ncumsum] in HlastL.
    assert (HL0 : le zero L).
    { assert (Hin : In L (x0 :: csum x0 r)).
      { change (x0 :: csum x0 r) with (ncumsum N (x0 :: r)). rewrite Hl'. apply in_or_app. right. left. reflexivity. }
      destruct Hin as [<-|Hin]; [exact Hx0|].
      pose proof (csum_ge r x0 Hx0 Hr) as G. rewrite Forall_forall in G. apply (G L Hin). }
    pose proof (tot0 L HL0 E) as HLle.
    rewrite last_cons_default in HlastL.
    assert (Hall : le x0 zero /\ Forall (fun x => le x zero) r).
    { apply csum_last_nonpos; [exact Hx0 | exact Hr | rewrite HlastL; exact HLle]. }
    destruct Hall as [Hx0le Hrle].
    assert (Hs : le (nsum N (x0 :: r)) zero).
    { unfold nsum. apply nsum_nonpos; [exact le_zero_refl | exact le_zero_refl|].
      constructor; [split; assumption|].
      rewrite Forall_forall in *. intros y Hy. split; [apply Hr | apply Hrle]; exact Hy. }
    pose proof (lt_le_trans _ _ _ Htol (abs_sub _ Hs)) as Hbad. congruence.
  Qed.

  (* RandomChoice for EVERY probability vector the constructor accepts
     (non-negative entries, sum within the tolerance of 1 - below or above -,
     zeros anywhere incl. trailing): no premise on p beyond acceptance *)
  Theorem rc_call_accepted eps64 epsp items p rc u (perm : list nat) junk :
    nltb N (nmax N (nsqrt N eps64) (nsqrt N epsp)) one = true ->
    rc_init N eps64 epsp items p = Ok rc ->
    Forall (unit_interval N) u ->
    Permutation perm (seq 0 (length u)) ->
    exists out,
      rc_call N rc u (map Z.of_nat perm) junk = Ok out
      /\ Forall2 (fun ui it =>
            let k := Z.to_nat (ssr (rc_cdf rc) ui) in
            (k < length p)%nat
            /\ nth_error items k = Some it
            /\ (exists x, nth_error p k = Some x /\ posT N x)
            /\ inverse_cdf N (rc_cdf rc) ui k) u out.
  Proof.
    intros Htol Hinit Hu HP.
    destruct (rc_init_inv _ _ _ _ _ Hinit) as [_ [_ [_ [Hp _]]]].
    apply (rc_call_correct eps64 epsp items p rc u perm junk Hp Hinit); try assumption.
    apply (accepted_positive eps64 epsp items p rc Htol Hinit).
  Qed.
End ChoiceProofs.

(* ------------------------------------------------------------------ *)
(* the rationals satisfy the eight laws: a closed instance              *)
From Coq Require Import QArith Qabs Lqa.

Lemma Qltb_true a b : Qltb a b = true <-> (a < b)%Q.
Proof.
  unfold Qltb. rewrite negb_true_iff. split.
  - intros H. apply Qnot_le_lt. intros Hle. apply Qle_bool_iff in Hle. congruence.
  - intros H. destruct (Qle_bool b a) eqn:E; [|reflexivity].
    apply Qle_bool_iff in E. exfalso. apply (Qlt_not_le _ _ H E).
Qed.

Lemma Q_le_trans : forall a b c : Q,
  nleb QNum a b = true -> nleb QNum b c = true -> nleb QNum a c = true.
Proof. cbn. intros a b c H1 H2. apply Qle_bool_iff in H1, H2. apply Qle_bool_iff. lra. Qed.
Lemma Q_lt_not_le : forall a b : Q, nltb QNum a b = true -> nleb QNum b a = false.
Proof. cbn. unfold Qltb. intros a b H. apply negb_true_iff in H. exact H. Qed.
Lemma Q_add_nonneg : forall a x : Q,
  nleb QNum (nzero QNum) a = true -> nleb QNum (nzero QNum) x = true ->
  nleb QNum a (nadd QNum a x) = true.
Proof. cbn. intros a x H1 H2. apply Qle_bool_iff in H1, H2. apply Qle_bool_iff. lra. Qed.
Lemma Q_add_nonpos : forall a x : Q,
  nleb QNum (nzero QNum) a = true -> nleb QNum x (nzero QNum) = true ->
  nleb QNum (nadd QNum a x) a = true.
Proof. cbn. intros a x H1 H2. apply Qle_bool_iff in H1, H2. apply Qle_bool_iff. lra. Qed.
Lemma Q_div_mono : forall a b c : Q,
  nltb QNum (nzero QNum) c = true -> nleb QNum a b = true ->
  nleb QNum (ndiv QNum a c) (ndiv QNum b c) = true.
Proof.
  cbn. intros a b c H1 H2. apply Qltb_true in H1. apply Qle_bool_iff in H2.
  apply Qle_bool_iff. unfold Qdiv. apply Qmult_le_compat_r; [exact H2|].
  apply Qinv_le_0_compat. lra.
Qed.
Lemma Q_div_self : forall c : Q,
  nltb QNum (nzero QNum) c = true -> nleb QNum (none QNum) (ndiv QNum c c) = true.
Proof.
  cbn. intros c H. apply Qltb_true in H. apply Qle_bool_iff.
  unfold Qdiv. rewrite Qmult_inv_r; [apply Qle_refl|]. intros E. rewrite E in H. lra.
Qed.
Lemma Q_div_zero : forall c : Q,
  nltb QNum (nzero QNum) c = true -> nleb QNum (ndiv QNum (nzero QNum) c) (nzero QNum) = true.
Proof.
  intros c _. cbn [nleb ndiv nzero QNum]. apply Qle_bool_iff. unfold Qdiv. rewrite Qmult_0_l. apply Qle_refl.
Qed.
Lemma Q_pos : forall a : Q,
  nleb QNum (nzero QNum) a = true -> nleb QNum a (nzero QNum) = false ->
  nltb QNum (nzero QNum) a = true.
Proof. cbn. unfold Qltb. intros a _ H. rewrite H. reflexivity. Qed.

Lemma Q_le_zero_refl : nleb QNum (nzero QNum) (nzero QNum) = true.
Proof. reflexivity. Qed.
Lemma Q_tot0 : forall a : Q, nleb QNum (nzero QNum) a = true -> nltb QNum (nzero QNum) a = false ->
  nleb QNum a (nzero QNum) = true.
Proof. cbn. unfold Qltb. intros a _ H. apply negb_false_iff in H. exact H. Qed.
Lemma Q_add_nonneg_l : forall a x : Q,
  nleb QNum (nzero QNum) a = true -> nleb QNum (nzero QNum) x = true ->
  nleb QNum x (nadd QNum a x) = true.
Proof. cbn. intros a x H1 H2. apply Qle_bool_iff in H1, H2. apply Qle_bool_iff. lra. Qed.
Lemma Q_abs_sub : forall s : Q, nleb QNum s (nzero QNum) = true ->
  nleb QNum (none QNum) (nabs QNum (nsub QNum s (none QNum))) = true.
Proof.
  cbn. intros s H. apply Qle_bool_iff in H. apply Qle_bool_iff.
  apply Qle_trans with (y := (- (s - 1))%Q); [lra|].
  rewrite <- (Qabs_opp (s - 1)). apply Qle_Qabs.
Qed.
Lemma Q_lt_le_trans : forall a b c : Q, nltb QNum a b = true -> nleb QNum b c = true -> nltb QNum a c = true.
Proof. cbn. intros a b c H1 H2. apply Qltb_true in H1. apply Qle_bool_iff in H2. apply Qltb_true. lra. Qed.

Definition rc_call_accepted_Q :=
  rc_call_accepted QNum Q_le_trans Q_lt_not_le Q_add_nonneg Q_add_nonpos
                   Q_div_mono Q_div_self Q_div_zero Q_pos
                   Q_le_zero_refl Q_tot0 Q_add_nonneg_l Q_abs_sub Q_lt_le_trans.
Definition rc_call_correct_Q :=
  rc_call_correct QNum Q_le_trans Q_lt_not_le Q_add_nonneg Q_add_nonpos
                  Q_div_mono Q_div_self Q_div_zero Q_pos.
Definition cdf_sorted_Q := cdf_sorted QNum Q_le_trans Q_add_nonneg Q_div_mono.
