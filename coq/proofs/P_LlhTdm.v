(* C01: the event counts N, N', N-N' used by evaluate are those of the
   CURRENT trial / the last n_events assignment, after any history. *)
From Coq Require Import Reals ZArith List Bool Lra Lia.
From Sky Require Import Num NumR G_llh G_llhtdm M_Llh M_LlhTdm S_Llh P_LlhK P_LlhValue.
Import ListNotations.

Section T.
  Variable E : Type.

  (* characterising lemmas of the counting kernels *)
  Lemma KT_default_n_events n : t_default_n_events n = n.
  Proof. reflexivity. Qed.
  Lemma KT_n_selected n : t_n_selected n = n.
  Proof. reflexivity. Qed.
  Lemma KT_n_pure_bkg n k : t_n_pure_bkg n k = (n - k)%Z.
  Proof. unfold t_n_pure_bkg. lia. Qed.
  Lemma KT_e_N n : e_N n = n.
  Proof. reflexivity. Qed.
  Lemma KT_e_Nprime n : e_Nprime n = n.
  Proof. reflexivity. Qed.
  Lemma KT_g2_Nprime n : g2_Nprime n = n.
  Proof. reflexivity. Qed.

  (* the Taylor mask is the exact complement of the stable mask (an event AT the threshold is in it) *)
  Lemma KT_m_unstable b : k_m_unstable b = negb b.
  Proof. reflexivity. Qed.

  (* N' of calculate_log_lambda_and_grads is the length of the ratio array *)
  Lemma nlen_is_e_Nprime {T} (Nm : Num T) (X : list T) :
    nlen Nm X = ofZ Nm (e_Nprime (Z.of_nat (length X))).
  Proof. unfold nlen. rewrite KT_e_Nprime. reflexivity. Qed.

  Definition trial_N (raw : list E) (arg : option Z) : Z :=
    match arg with Some n => n | None => Z.of_nat (length raw) end.
  Definition trial_events (raw : list E) (sel : option (list E -> list E)) : list E :=
    match sel with Some f => f raw | None => raw end.

  Lemma tc_run_app (a b : list (tcop E)) st : tc_run (a ++ b) st = tc_run b (tc_run a st).
  Proof. unfold tc_run. apply fold_left_app. Qed.

  Lemma last_cons_ne (s : Z) (l : list Z) (a b : Z) : l <> [] -> last l a = last l b.
  Proof.
    induction l as [|x l IH]; intros H; [congruence|].
    destruct l as [|y l']; [reflexivity|]. cbn [last]. cbn [last] in IH. apply IH. discriminate.
  Qed.

  Lemma tc_run_sets (sets : list Z) : forall n (ev : list E),
    tc_run (map TSetN sets) {| tc_n_events := Some n; tc_events := ev |}
    = {| tc_n_events := Some (last sets n); tc_events := ev |}.
  Proof.
    induction sets as [|s sets IH]; intros n ev; [reflexivity|].
    change (tc_run (map TSetN (s :: sets)) {| tc_n_events := Some n; tc_events := ev |})
      with (tc_run (map TSetN sets) {| tc_n_events := Some s; tc_events := ev |}).
    rewrite IH. f_equal. f_equal.
    destruct sets as [|s' sets']; [reflexivity|].
    change (last (s :: s' :: sets') n) with (last (s' :: sets') n).
    apply (last_cons_ne s). discriminate.
  Qed.

  (* after ANY history: a trial followed by any number of n_events assignments *)
  Theorem tc_counts_current (st0 : tcounts E) (ops : list (tcop E)) raw arg sel (sets : list Z) :
    let st := tc_run (ops ++ TInit raw arg sel :: map TSetN sets) st0 in
    tc_n_events st = Some (last sets (trial_N raw arg))
    /\ tc_events st = trial_events raw sel
    /\ tc_n_selected st = Z.of_nat (length (trial_events raw sel))
    /\ tc_n_pure_bkg st
       = Some (last sets (trial_N raw arg) - Z.of_nat (length (trial_events raw sel)))%Z
    /\ tc_N_grad2 st = tc_n_events st.
  Proof.
    cbv zeta. rewrite tc_run_app.
    change (tc_run (TInit raw arg sel :: map TSetN sets) (tc_run ops st0))
      with (tc_run (map TSetN sets) (tc_step (tc_run ops st0) (TInit raw arg sel))).
    cbn [tc_step]. rewrite KT_default_n_events.
    change (match arg with Some n => n | None => Z.of_nat (length raw) end) with (trial_N raw arg).
    change (match sel with Some f => f raw | None => raw end) with (trial_events raw sel).
    rewrite tc_run_sets.
    unfold tc_N_grad2, tc_n_pure_bkg, tc_n_selected. cbn [tc_n_events tc_events].
    rewrite KT_n_selected, KT_n_pure_bkg, KT_g2_Nprime.
    repeat split. f_equal. lia.
  Qed.

  (* the default N (n_events=None) counts the RAW events: with a selection that
     only removes events, N - N' is the number of removed events (>= 0) *)
  Theorem tc_default_counts_removed (st0 : tcounts E) ops raw (f : list E -> list E) :
    (length (f raw) <= length raw)%nat ->
    let st := tc_run (ops ++ [TInit raw None (Some f)]) st0 in
    tc_n_events st = Some (Z.of_nat (length raw))
    /\ tc_n_pure_bkg st = Some (Z.of_nat (length raw - length (f raw))).
  Proof.
    intros Hle. cbv zeta.
    destruct (tc_counts_current st0 ops raw None (Some f) []) as (A & _ & _ & D & _).
    cbn [map] in A, D. cbn [last trial_N trial_events] in A, D.
    split; [exact A|]. rewrite D. f_equal. lia.
  Qed.


  (* the public `events` setter changes N' and N - N', never N *)
  Theorem tc_events_setter (st : tcounts E) (evs : list E) :
    let st' := tc_step st (TSetEvents evs) in
    tc_n_events st' = tc_n_events st
    /\ tc_events st' = evs
    /\ tc_n_selected st' = Z.of_nat (length evs)
    /\ tc_n_pure_bkg st' = match tc_n_events st with
                           | Some n => Some (n - Z.of_nat (length evs))%Z
                           | None => None
                           end.
  Proof.
    cbv zeta. cbn [tc_step]. unfold tc_n_selected, tc_n_pure_bkg. cbn [tc_n_events tc_events].
    rewrite KT_n_selected.
    split; [reflexivity|]. split; [reflexivity|]. split; [reflexivity|].
    destruct (tc_n_events st); [rewrite KT_n_pure_bkg|]; reflexivity.
  Qed.

  (* ---- the value computed on the manager *)
  Variable erfR : R -> R.
  Notation Nm := (RNum erfR).
  Open Scope R_scope.

  Theorem tc_evaluate_current (st0 : tcounts E) ops raw arg sel (sets : list Z)
          opa ns (ratio_of : list E -> list R) :
    (forall evs, length (ratio_of evs) = length evs) ->
    let N := last sets (trial_N raw arg) in
    let evs := trial_events raw sel in
    tc_evaluate Nm opa ns ratio_of (tc_run (ops ++ TInit raw arg sel :: map TSetN sets) st0)
    = Some (Rsum (map (fun r => Lam (opa - 1) (ns * Xof (IZR N) r)) (ratio_of evs))
            + IZR (N - Z.of_nat (length evs)) * ln (1 - ns / IZR N)).
  Proof.
    intros Hlen. cbv zeta.
    destruct (tc_counts_current st0 ops raw arg sel sets) as (A & B & _).
    unfold tc_evaluate. rewrite A, B. f_equal.
    rewrite KT_e_N, ofZ_R, value_is_manual. unfold logLambda_manual.
    f_equal. f_equal. rewrite Hlen, minus_IZR, <- INR_IZR_INZ. reflexivity.
  Qed.

  (* before the first trial there is no N: evaluate cannot produce a value *)
  Theorem tc_evaluate_before_first_trial opa ns (ratio_of : list E -> list R) evs :
    tc_evaluate Nm opa ns ratio_of {| tc_n_events := None; tc_events := evs |} = None.
  Proof. reflexivity. Qed.
End T.
