(* C04 — the views of the ParameterModelMapper: per-model dictionaries and the
   per-source table equal the brute-force reading of (parameter table, alias row). *)
From Coq Require Import ZArith List Bool Lia Permutation.
From Sky Require Import Result PyList G_params M_Params S_Params P_Params P_ParamsViews P_ParamsWorld.
Import ListNotations.
Open Scope Z_scope.

Definition andmask (a b : list bool) : list bool :=
  map (fun xy : bool * bool => andb (fst xy) (snd xy)) (combine a b).

(* the alias row restricted to the parameters selected by K *)
Definition mask_row (K : list bool) (row : list (option Z)) : list (option Z) :=
  map (fun ka : bool * option Z => if fst ka then snd ka else None) (combine K row).

Lemma mask_and_ok a b : length a = length b -> mask_and a b = Ok (andmask a b).
Proof. intros H. unfold mask_and. rewrite H, Nat.eqb_refl. reflexivity. Qed.

Lemma andmask_length a b : length a = length b -> length (andmask a b) = length a.
Proof. intros H. unfold andmask. rewrite map_length, combine_length, H, Nat.min_id. auto. Qed.

Lemma somes_app a b : somes (a ++ b) = somes a ++ somes b.
Proof. induction a as [|[x|] a IH]; cbn; [reflexivity | f_equal; exact IH | exact IH]. Qed.

(* names and any per-parameter list X selected with the same mask pair up as
   the local reading of the restricted alias row *)
Lemma select_pairs {A} : forall (row : list (option Z)) (X : list A) K,
  length X = length row -> length K = length row ->
  combine (somes (mask_select row (andmask K (map is_some row))))
          (mask_select X (andmask K (map is_some row)))
  = s_local (mask_row K row) X
  /\ length (somes (mask_select row (andmask K (map is_some row))))
     = length (mask_select X (andmask K (map is_some row))).
Proof.
  induction row as [|a row IH]; intros X K HX HK.
  - destruct X; [|discriminate]. destruct K; [|discriminate]. cbn. auto.
  - destruct X as [|x X]; [discriminate|]. destruct K as [|k K]; [discriminate|].
    cbn in HX, HK. destruct (IH X K) as (E1 & E2); [lia | lia |].
    unfold s_local, mask_row, andmask in *. destruct k, a as [n|]; cbn; cbn in E1, E2; rewrite ?E1, ?E2; auto.
Qed.

Lemma split_perm {A} : forall (row : list (option Z)) (X : list A) F,
  length F = length row ->
  Permutation (s_local (mask_row (map negb F) row) X ++ s_local (mask_row F row) X) (s_local row X).
Proof.
  induction row as [|a row IH]; intros X F HF.
  - destruct F; [|discriminate]. cbn. constructor.
  - destruct F as [|f F]; [discriminate|]. cbn in HF.
    destruct X as [|x X]; [unfold s_local, mask_row; cbn; destruct f; cbn; constructor|].
    specialize (IH X F ltac:(lia)). unfold s_local, mask_row in *.
    destruct f, a as [n|]; cbn; auto.
    apply Permutation_sym, Permutation_cons_app, Permutation_sym. exact IH.
Qed.

(* the vector of floating values / the cache of fixed values, selected the way
   the mapper does it, are the per-parameter values selected per parameter *)
Lemma select_values : forall ps vec vals gpm,
  s_values (table_of ps) vec = Some vals -> length gpm = length ps ->
  mask_select vec (mask_select gpm (map negb (map p_isfixed ps)))
    = mask_select vals (andmask (map negb (map p_isfixed ps)) gpm)
  /\ mask_select (s_fixed_values (table_of ps)) (mask_select gpm (map p_isfixed ps))
    = mask_select vals (andmask (map p_isfixed ps) gpm)
  /\ length (mask_select gpm (map negb (map p_isfixed ps))) = length vec
  /\ length (mask_select gpm (map p_isfixed ps)) = length (s_fixed_values (table_of ps))
  /\ length vals = length ps.
Proof.
  induction ps as [|p ps IH]; intros vec vals gpm HV HG.
  - destruct gpm; [|discriminate]. cbn in HV. destruct vec; [|discriminate]. inversion HV. cbn. auto.
  - destruct gpm as [|g gpm]; [discriminate|]. cbn in HG.
    destruct (p_isfixed p) eqn:Ef.
    + destruct (tbl_cons_fixed p ps Ef) as (A & _ & _ & D & _). rewrite A in HV. rewrite D.
      destruct (s_values (table_of ps) vec) as [vs|] eqn:Ev; [|discriminate]. cbn in HV. inversion HV; subst vals.
      destruct (IH vec vs gpm Ev ltac:(lia)) as (I1 & I2 & I3 & I4 & I5).
      cbn [map]. rewrite Ef. unfold andmask in *. cbn. destruct g; cbn; rewrite ?I1, ?I2, ?I3, ?I4, ?I5; auto.
    + destruct (tbl_cons_floating p ps Ef) as (A & _ & _ & D & _). rewrite A in HV. rewrite D.
      destruct vec as [|x vec]; [discriminate|].
      destruct (s_values (table_of ps) vec) as [vs|] eqn:Ev; [|discriminate]. cbn in HV. inversion HV; subst vals.
      destruct (IH vec vs gpm Ev ltac:(lia)) as (I1 & I2 & I3 & I4 & I5).
      cbn [map]. rewrite Ef. unfold andmask in *. cbn. destruct g; cbn; rewrite ?I1, ?I2, ?I3, ?I4, ?I5; auto.
Qed.

Lemma combine_app {A B} (a1 a2 : list A) (b1 b2 : list B) :
  length a1 = length b1 -> combine (a1 ++ a2) (b1 ++ b2) = combine a1 b1 ++ combine a2 b2.
Proof. revert b1; induction a1; destruct b1; cbn; intros H; try discriminate; [reflexivity | f_equal; auto]. Qed.

Lemma s_local_keys {A} : forall (row : list (option Z)) (X : list A),
  length X = length row -> map fst (s_local row X) = somes row.
Proof.
  induction row as [|a row IH]; intros X H; [destruct X; reflexivity|].
  destruct X as [|x X]; [discriminate|]. cbn in H. unfold s_local in *. cbn.
  destruct a; cbn; rewrite IH by lia; reflexivity.
Qed.

(* ------------------------------------------------------------------ model_names_values *)
Section Mapper.
Variables (st : store) (m : mapper) (ps : list param).
Hypothesis HC : Consistent st (mp_gps m) ps.
Variables (arow : list (option Z)) (vec vals : list Z).
Hypothesis Hrow : length arow = length ps.
Hypothesis HV : s_values (table_of ps) vec = Some vals.

Let flm := map negb (map p_isfixed ps).
Let fxm := map p_isfixed ps.
Let gpm := map is_some arow.

Lemma model_names_values_ok :
  exists names values,
    model_names_values m vec arow = Ok (names, values, andmask flm gpm, andmask fxm gpm)
    /\ combine names values = s_local (mask_row flm arow) vals ++ s_local (mask_row fxm arow) vals
    /\ names = somes (mask_select arow (andmask flm gpm)) ++ somes (mask_select arow (andmask fxm gpm)).
Proof.
  pose proof (Consistent_elim _ _ _ HC) as (HM & _ & _ & HK & (_ & _ & HFV & _)).
  assert (Lps : length (ps_params (mp_gps m)) = length ps) by (symmetry; eapply mapM_Ok_length; exact HM).
  destruct (select_values ps vec vals gpm HV) as (S1 & S2 & S3 & S4 & S5);
    [subst gpm; rewrite map_length; assumption|].
  fold fxm in S1, S2, S3, S4. change (map negb fxm) with flm in S1, S3.
  assert (Lf : length flm = length arow) by (subst flm; rewrite !map_length; auto).
  assert (Lx : length fxm = length arow) by (subst fxm; rewrite !map_length; auto).
  assert (Lg : length gpm = length arow) by (subst gpm; rewrite map_length; auto).
  destruct (select_pairs arow vals flm) as (P1 & P2); [congruence | assumption |].
  destruct (select_pairs arow vals fxm) as (Q1 & Q2); [congruence | assumption |].
  fold gpm in P1, P2, Q1, Q2.
  unfold model_names_values, floating_mask. cbv zeta. rewrite HK. fold fxm gpm. change (map negb fxm) with flm.
  rewrite (mask_and_ok flm gpm) by congruence. cbn [bind].
  rewrite (mask_and_ok fxm gpm) by congruence. cbn [bind].
  rewrite (np_select_same arow (andmask flm gpm)) by (rewrite andmask_length; congruence). cbn [bind].
  rewrite (np_select_same arow (andmask fxm gpm)) by (rewrite andmask_length; congruence). cbn [bind].
  rewrite (np_select_same gpm flm) by congruence. cbn [bind].
  rewrite (np_select_same gpm fxm) by congruence. cbn [bind].
  rewrite (np_select_same vec) by (symmetry; exact S3). cbn [bind].
  rewrite HFV. rewrite (np_select_same (s_fixed_values (table_of ps))) by (symmetry; exact S4). cbn [bind].
  eexists. eexists. split; [reflexivity|]. split; [|apply somes_app].
  rewrite somes_app, S1, S2, combine_app by exact P2. rewrite P1, Q1. reflexivity.
Qed.

Hypothesis Halias : NoDup (somes arow).

Lemma local_lookup {A} (X : list A) a :
  length X = length arow ->
  assoc (s_local (mask_row flm arow) X ++ s_local (mask_row fxm arow) X) a = assoc (s_local arow X) a
  /\ NoDup (map fst (s_local (mask_row flm arow) X ++ s_local (mask_row fxm arow) X)).
Proof.
  intros HX.
  assert (P : Permutation (s_local (mask_row flm arow) X ++ s_local (mask_row fxm arow) X) (s_local arow X)).
  { subst flm. apply split_perm. subst fxm. rewrite map_length. auto. }
  assert (N : NoDup (map fst (s_local (mask_row flm arow) X ++ s_local (mask_row fxm arow) X))).
  { eapply Permutation_NoDup; [apply Permutation_map, Permutation_sym; exact P|].
    rewrite s_local_keys by assumption. exact Halias. }
  split; [apply assoc_perm; assumption | assumption].
Qed.
End Mapper.

(* ------------------------------------------------------------------ create_model_params_dict *)
Lemma py_get_nat {A} (l : list A) i : py_get l (Z.of_nat i) =
  match nth_error l i with Some x => Ok x | None => Err IndexError end.
Proof.
  unfold py_get, zlen. destruct (Z.of_nat i <? 0) eqn:E; [apply Z.ltb_lt in E; lia|]. rewrite E. cbn [orb].
  rewrite Nat2Z.id. destruct (Z.of_nat (length l) <=? Z.of_nat i) eqn:E2; [|reflexivity].
  apply Z.leb_le in E2. assert (H : nth_error l i = None) by (apply nth_error_None; lia). rewrite H. reflexivity.
Qed.

Theorem model_params_dict_ok st m ps vec vals midx arow :
  Consistent st (mp_gps m) ps -> matrix_ok m -> aliases_ok m ->
  s_values (table_of ps) vec = Some vals ->
  nth_error (mp_names m) midx = Some arow ->
  exists d, create_model_params_dict m vec (Z.of_nat midx) = Ok d
    /\ forall a, dict_get d a = s_lookup (s_local arow vals) a.
Proof.
  intros HC (HM1 & HM2) HA HV Hn.
  assert (Hrow : length arow = length ps).
  { rewrite Forall_forall in HM2. rewrite (HM2 arow (nth_error_In _ _ Hn)).
    destruct HC as (HM & _). symmetry. eapply mapM_Ok_length; exact HM. }
  assert (Hal : NoDup (somes arow)) by (unfold aliases_ok in HA; rewrite Forall_forall in HA; apply HA; eapply nth_error_In; eauto).
  unfold create_model_params_dict.
  assert (Hb : mdict_midx_bad (Z.of_nat midx) (n_models m) = false).
  { apply K_mdict_midx_bad. unfold n_models, zlen. rewrite <- HM1.
    assert (midx < length (mp_names m))%nat by (apply nth_error_Some; congruence). lia. }
  rewrite Hb, py_get_nat, Hn. cbn [bind].
  destruct (model_names_values_ok st m ps HC arow vec vals Hrow HV) as (names & values & E & Hc & _).
  rewrite E. cbn [bind]. eexists. split; [reflexivity|]. intros a.
  assert (Lv : length vals = length arow).
  { destruct (select_values ps vec vals (map is_some arow) HV) as (_ & _ & _ & _ & L); [rewrite map_length; auto | congruence]. }
  destruct (local_lookup ps arow Hrow Hal vals a Lv) as (L1 & L2).
  rewrite dict_of_get by (rewrite Hc; exact L2). rewrite Hc. exact L1.
Qed.

(* ------------------------------------------------------------------ no duplicate local names, ever *)
Lemma dup_check_spec rows names : forall midxs,
  dup_check rows names midxs = Ok tt ->
  forall midx, In midx midxs ->
    exists row a, py_get rows midx = Ok row /\ py_get names midx = Ok a /\ ~ In a (somes row).
Proof.
  induction midxs as [|x r IH]; intros H midx Hin; [destruct Hin|].
  cbn [dup_check] in H. destruct (py_get rows x) as [row|] eqn:E1; cbn [bind] in H; [|discriminate].
  destruct (py_get names x) as [a|] eqn:E2; cbn [bind] in H; [|discriminate].
  destruct (mem a (somes row)) eqn:E3; [discriminate|].
  destruct Hin as [<-|Hin]; [|apply IH; assumption].
  exists row, a. repeat split; auto. intro X. apply mem_In in X. congruence.
Qed.

Lemma in_mask_select_seq : forall M k i,
  nth_error M i = Some true ->
  In (Z.of_nat (k + i)) (mask_select (map Z.of_nat (seq k (length M))) M).
Proof.
  induction M as [|b M IH]; intros k i H; [destruct i; discriminate|].
  cbn [length seq map mask_select]. destruct i as [|i]; cbn in H.
  - inversion H; subst. rewrite Nat.add_0_r. left; reflexivity.
  - specialize (IH (S k) i H). replace (S k + i)%nat with (k + S i)%nat in IH by lia.
    destruct b; [right|]; exact IH.
Qed.

Lemma in_combine_nth {A B} : forall (l : list A) (r : list B) x y,
  In (x, y) (combine l r) -> exists i, nth_error l i = Some x /\ nth_error r i = Some y.
Proof.
  induction l as [|a l IH]; intros r x y H; [destruct H|].
  destruct r as [|b r]; [destruct H|]. cbn in H. destruct H as [H|H].
  - inversion H; subst. exists O. auto.
  - destruct (IH r x y H) as (i & ? & ?). exists (S i). auto.
Qed.

Lemma nth_error_combine {A B} : forall (l : list A) (r : list B) i x y,
  nth_error (combine l r) i = Some (x, y) -> nth_error l i = Some x /\ nth_error r i = Some y.
Proof.
  induction l as [|a l IH]; intros r i x y H; [destruct i; discriminate|].
  destruct r as [|b r]; [destruct i; discriminate|]. destruct i; cbn in *.
  - inversion H; subst. auto.
  - apply IH. assumption.
Qed.

Lemma where_entry_spec mask names entry i a :
  where_entry mask names = Ok entry -> nth_error entry i = Some (Some a) ->
  nth_error mask i = Some true
  /\ (nth_error names i = Some a \/ names = [a]).
Proof.
  unfold where_entry. destruct (Nat.eqb (length names) (length mask)) eqn:E.
  - intros H; inversion H; subst entry. clear H. intros H.
    rewrite nth_error_map in H. destruct (nth_error (combine mask names) i) as [[b n]|] eqn:Ec; [|discriminate].
    cbn in H. destruct b; [|discriminate]. inversion H; subst.
    apply nth_error_combine in Ec. tauto.
  - destruct names as [|a0 [|? ?]]; try discriminate. intros H; inversion H; subst entry. clear H. intros H.
    rewrite nth_error_map in H. destruct (nth_error mask i) as [b|]; [|discriminate]. cbn in H.
    destruct b; [|discriminate]. inversion H; subst. auto.
Qed.

Lemma map_param_inv2 m l p models al m' :
  map_param m l p models al = Ok m' ->
  exists names mask entry g,
    dup_check (mp_names m) names (mask_select (arange (length mask)) mask) = Ok tt
    /\ where_entry mask names = Ok entry
    /\ length entry = length (mp_names m)
    /\ m' = mkMapper (mp_src m) g (map (fun re : list (option Z) * option Z => fst re ++ [snd re]) (combine (mp_names m) entry)).
Proof.
  unfold map_param.
  set (n := length (mp_src m)).
  set (names := match al with ANone => repeat (p_name p) n | AStr a => repeat a n | ASeq ls => ls end).
  set (applied := match models with Some ms => ms | None => arange n end).
  set (mask := map (fun midx : Z => mem midx applied) (arange n)).
  assert (Lm : length mask = n) by (subst mask; unfold arange; rewrite !map_length, seq_length; reflexivity).
  destruct (Nat.eqb (length applied) 0); [discriminate|].
  destruct (dup_check (mp_names m) names (mask_select (arange n) mask)) as [[]|] eqn:Ed; cbn [bind]; [|discriminate].
  destruct (where_entry mask names) as [entry|] eqn:Ew; cbn [bind]; [|discriminate].
  destruct (Nat.eqb (length (mp_names m)) (length entry)) eqn:E; cbn [bind]; [|discriminate].
  destruct (add_param (mp_gps m) l p false) as [g|]; cbn [bind]; [|discriminate].
  intros H; inversion H; subst. apply Nat.eqb_eq in E. exists names, mask, entry, g. rewrite Lm. auto.
Qed.

Lemma map_param_aliases m l p models al m' :
  aliases_ok m -> map_param m l p models al = Ok m' -> aliases_ok m'.
Proof.
  intros HA H. destruct (map_param_inv2 _ _ _ _ _ _ H) as (names & mask & entry & g & Hd & Hw & Hl & ->).
  unfold aliases_ok in *. cbn [mp_names]. rewrite Forall_forall in *. intros row' Hin.
  apply in_map_iff in Hin. destruct Hin as ([row e] & <- & Hre). cbn [fst snd].
  destruct (in_combine_nth _ _ _ _ Hre) as (i & Hi1 & Hi2).
  rewrite somes_app. pose proof (HA row (nth_error_In _ _ Hi1)) as HN.
  destruct e as [a|]; cbn; [|rewrite app_nil_r; exact HN].
  apply NoDup_snoc; [exact HN|].
  destruct (where_entry_spec _ _ _ _ _ Hw Hi2) as (Hm & Hnm).
  pose proof (in_mask_select_seq mask 0 i Hm) as Hin. cbn [Nat.add] in Hin.
  destruct (dup_check_spec _ _ _ Hd (Z.of_nat i) Hin) as (row2 & a2 & P1 & P2 & P3).
  rewrite py_get_nat, Hi1 in P1. inversion P1; subst row2.
  rewrite py_get_nat in P2. destruct (nth_error names i) as [x|] eqn:En; [|discriminate]. inversion P2; subst x.
  destruct Hnm as [Hnm|Hnm].
  - assert (a2 = a) by congruence. subst. exact P3.
  - subst names. destruct i as [|[|i]]; cbn in En; try discriminate. inversion En; subst. exact P3.
Qed.

Lemma step_aliases_ok w o : aliases_ok (w_map w) -> aliases_ok (w_map (fst (step w o))).
Proof.
  intros HA. destruct o; cbn [step].
  - exact HA.
  - destruct (nth_error (w_sets w) n); [|exact HA]. destruct (param_new d); [|exact HA].
    destruct (add_param _ _ _ _); exact HA.
  - destruct (param_new d); [|exact HA]. destruct (map_param _ _ _ _ _) eqn:E; [|exact HA].
    cbn. eapply map_param_aliases; eauto.
  - destruct (get_set w r); [|exact HA]. destruct (make_params_fixed _ _ _) as [[? ?] ?]. destruct r; exact HA.
  - destruct (get_set w r); [|exact HA]. destruct (make_params_floating _ _ _) as [[? ?] ?]. destruct r; exact HA.
  - destruct (mapM (get_set w) rs); [|exact HA]. destruct (union _ _) as [[? ?]|]; exact HA.
  - destruct (get_set w r); [|exact HA]. destruct (copy_set _ _) as [[? ?]|]; exact HA.
  - destruct (get_set w r); [|exact HA]. destruct (py_get _ _); [|exact HA].
    destruct (rd _ _); [|exact HA]. destruct (set_value _ _); exact HA.
Qed.

Theorem reachable_aliases_ok src ops : aliases_ok (w_map (run (init src) ops)).
Proof.
  unfold run. assert (H0 : aliases_ok (w_map (init src))).
  { unfold aliases_ok, init, new_mapper. cbn. apply Forall_forall. intros row Hrow.
    apply in_map_iff in Hrow. destruct Hrow as (? & <- & _). constructor. }
  revert H0. generalize (init src). induction ops as [|o ops IH]; intros w H; [exact H|].
  cbn [fold_left]. apply IH. apply step_aliases_ok. exact H.
Qed.

(* duplicate local name for a model: rejected (KeyError), nothing is changed (step: Err -> same world) *)
Theorem map_param_rejects_duplicate m l p models al midx arow a :
  let n := length (mp_src m) in
  let names := match al with ANone => repeat (p_name p) n | AStr x => repeat x n | ASeq ls => ls end in
  let applied := match models with Some ms => ms | None => arange n end in
  length (mp_names m) = n -> (midx < n)%nat ->
  mem (Z.of_nat midx) applied = true ->
  nth_error (mp_names m) midx = Some arow -> nth_error names midx = Some a -> In a (somes arow) ->
  (forall j, (j < midx)%nat -> mem (Z.of_nat j) applied = true ->
     exists r x, nth_error (mp_names m) j = Some r /\ nth_error names j = Some x /\ ~ In x (somes r)) ->
  map_param m l p models al = Err KeyError.
Proof.
  intros n names applied Hlen Hmidx Happ Hrow Hname Hdup Hbefore.
  unfold map_param. fold n. fold names. fold applied.
  destruct (Nat.eqb (length applied) 0) eqn:E0.
  { apply Nat.eqb_eq in E0. destruct applied; [cbn in Happ; discriminate | discriminate]. }
  set (mask := map (fun midx : Z => mem midx applied) (arange n)).
  assert (Hd : dup_check (mp_names m) names (mask_select (arange n) mask) = Err KeyError).
  { subst mask. unfold arange. rewrite map_map.
    assert (G : forall k cnt, (k + cnt = n)%nat -> (k <= midx)%nat ->
              dup_check (mp_names m) names
                (mask_select (map Z.of_nat (seq k cnt)) (map (fun x => mem (Z.of_nat x) applied) (seq k cnt))) = Err KeyError).
    { intros k cnt. revert k. induction cnt as [|cnt IH]; intros k Hk Hle; [lia|].
      cbn [seq map mask_select]. destruct (Nat.eq_dec k midx) as [->|Hne].
      - rewrite Happ. cbn [dup_check]. rewrite !py_get_nat, Hrow, Hname. cbn [bind].
        assert (X : mem a (somes arow) = true) by (apply mem_In; assumption). rewrite X. reflexivity.
      - destruct (mem (Z.of_nat k) applied) eqn:Ek; [|apply IH; lia].
        cbn [dup_check]. destruct (Hbefore k ltac:(lia) Ek) as (r & x & R1 & R2 & R3).
        rewrite !py_get_nat, R1, R2. cbn [bind].
        assert (X : mem x (somes r) = false).
        { destruct (mem x (somes r)) eqn:Em; [apply mem_In in Em; contradiction | reflexivity]. }
        rewrite X. apply IH; lia. }
    apply (G 0%nat n); lia. }
  rewrite Hd. reflexivity.
Qed.

Theorem reachable_full : forall src ops,
  let w := run (init src) ops in
  (forall s, In s (all_sets w) -> exists ps, Consistent (w_store w) s ps)
  /\ NoDup (concat (map ps_params (all_sets w)))
  /\ length (mp_names (w_map w)) = length (mp_src (w_map w))
  /\ (forall arow, In arow (mp_names (w_map w)) ->
        length arow = length (ps_params (mp_gps (w_map w))) /\ NoDup (somes arow)).
Proof.
  intros src ops w. destruct (reachable_ok src ops) as (H1 & H2 & H3 & H4).
  pose proof (reachable_aliases_ok src ops) as H5. unfold aliases_ok in H5.
  rewrite Forall_forall in H1, H4, H5. repeat split; auto.
Qed.
