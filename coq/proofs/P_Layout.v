(* C02, layout clause: the key under which create_src_params_recarray files a
   local parameter (the <name>:gpidx field) is rank-among-the-floating-parameters+1
   of exactly the global parameter whose value it stores, for every declaration
   list; every consumer looks that key up; all keys are < n_floating. *)
From Coq Require Import ZArith List Bool Lia Permutation.
From Sky Require Import Result PyList G_layout M_Layout S_Layout.
Import ListNotations.
Open Scope Z_scope.

(* ---- characterising lemmas of the regenerated kernels *)
Lemma K_lk_len_bad n l : lk_len_bad n l = negb (l =? n).
Proof. reflexivity. Qed.
Lemma K_lk_gflp_idx x : lk_gflp_idx x = x - 1.
Proof. reflexivity. Qed.
Lemma K_lk_gpidx_fl x : lk_gpidx_fl x = x + 1.
Proof. reflexivity. Qed.
Lemma K_lk_gpidx_fx x : lk_gpidx_fx x = - x - 1.
Proof. unfold lk_gpidx_fx. lia. Qed.
Lemma K_lk_is_local fid g : lk_is_local fid g = (g =? fid + 1).
Proof. reflexivity. Qed.
Lemma K_lk_i3_match g fid : lk_i3_match g fid = (g =? fid + 1).
Proof. reflexivity. Qed.
Lemma K_lk_sig_match g fid : lk_sig_match g fid = (g =? fid + 1).
Proof. reflexivity. Qed.
Lemma K_lk_i3_none n : lk_i3_none n = (n =? 0).
Proof. reflexivity. Qed.
Lemma K_lk_i3_all n t : lk_i3_all n t = (n =? t).
Proof. reflexivity. Qed.
Lemma K_lk_sig_none n : lk_sig_none n = (n =? 0).
Proof. reflexivity. Qed.
Lemma K_lk_sig_all n t : lk_sig_all n t = (n =? t).
Proof. reflexivity. Qed.
Lemma K_lk_dsy_pos g : lk_dsy_pos g = true <-> 0 < g.
Proof. unfold lk_dsy_pos. rewrite Z.gtb_ltb, Z.ltb_lt. reflexivity. Qed.
Lemma K_lk_dsy_key g : lk_dsy_key g = g - 1.
Proof. reflexivity. Qed.
Lemma K_lk_dsy_mask g k : lk_dsy_mask g k = (g =? k + 1).
Proof. reflexivity. Qed.
Lemma K_lk_vmask b a k : lk_vmask b a k = (b || (a =? k)).
Proof. unfold lk_vmask. first [reflexivity | rewrite (Z.eqb_sym k a); reflexivity]. Qed.
Lemma K_lk_slice_hi a n : lk_slice_hi a n = a + n.
Proof. reflexivity. Qed.
Lemma K_lk_slice_next a n : lk_slice_next a n = a + n.
Proof. reflexivity. Qed.
Lemma K_lk_sw_nokey fid keys : lk_sw_nokey fid keys = negb (existsb (Z.eqb fid) keys).
Proof. reflexivity. Qed.
Lemma K_lk_sob_sigdep fid keys : lk_sob_sigdep fid keys = existsb (Z.eqb fid) keys.
Proof. reflexivity. Qed.
Lemma K_lk_ncols n : lk_ncols n = n - 1.
Proof. reflexivity. Qed.
Lemma K_lk_ngrads n : lk_ngrads n = n + 1.
Proof. reflexivity. Qed.
Lemma K_lk_multi_has_p n : lk_multi_has_p n = (1 <? n).
Proof. unfold lk_multi_has_p. apply Z.gtb_ltb. Qed.

Lemma K_lk_any_unst b : lk_any_unst b = b.
Proof. reflexivity. Qed.
Lemma K_lk_if_unst b : lk_if_unst_val b = b /\ lk_if_unst_ns b = b /\ lk_if_unst_p b = b.
Proof. repeat split. Qed.
Lemma K_lk_unst_nifs : lk_unst_nifs = 5.
Proof. reflexivity. Qed.
Lemma K_lk_sobg_bkgdep fid keys : lk_sobg_bkgdep fid keys = existsb (Z.eqb fid) keys.
Proof. reflexivity. Qed.
Lemma K_lk_sobg_cases sd bd :
  lk_sobg_case1 sd bd = negb sd && negb bd /\ lk_sobg_case2 sd bd = sd && negb bd /\ lk_sobg_case4 sd bd = sd && bd.
Proof. repeat split. Qed.
Lemma K_lk_sobg_nbroadcast : lk_sobg_nbroadcast = 2.
Proof. reflexivity. Qed.

Lemma K_lk_i3_alleq b : lk_i3_alleq_test b = negb b /\ lk_i3_alleq_nifs = 2.
Proof. split; reflexivity. Qed.
Lemma K_lk_pdfprod_case1 a b : lk_pdfprod_case1 a b = a && b /\ lk_pdfprod_nifs = 3.
Proof. split; reflexivity. Qed.

Lemma combine_app {A B} (a1 a2 : list A) (b1 b2 : list B) :
  length a1 = length b1 -> combine (a1 ++ a2) (b1 ++ b2) = combine a1 b1 ++ combine a2 b2.
Proof.
  revert b1. induction a1 as [|x a1 IH]; intros [|y b1] H; cbn in *; try discriminate; [reflexivity|].
  f_equal. apply IH. lia.
Qed.

Lemma NoDup_snoc {A} (a : list A) n : NoDup a -> ~ In n a -> NoDup (a ++ [n]).
Proof.
  induction a as [|x a IH]; intros Hn Hi; cbn.
  - constructor; [intros []|constructor].
  - inversion Hn as [|? ? Hx Hn']; subst. constructor.
    + rewrite in_app_iff. intros [H|[H|[]]]; [contradiction|]. subst. apply Hi. left; reflexivity.
    + apply IH; [exact Hn'|]. intros H; apply Hi; right; exact H.
Qed.

Section P.
  Context {V : Type}.
  Notation gdecl := (@gdecl V).
  Notation mapper := (@mapper V).
  Notation recarray := (@recarray V).
  Notation nm := (@nm V).
  Notation isfl := (@isfl V).
  Notation rankn := (@rankn V).
  Notation rank := (@rank V).


  Lemma mrow_nm decls s : mrow decls s = map (nm s) decls.
  Proof. reflexivity. Qed.

  (* the assignments of a row, in one pass (proof-side description) *)
  Fixpoint fl_part (s : nat) (decls : list gdecl) (acc : Z) (vec : list V) : list (Z * (V * Z)) :=
    match decls with
    | [] => []
    | d :: r =>
        if g_fixed d then fl_part s r acc vec
        else match vec with
             | [] => []
             | v :: vec' =>
                 match nm s d with
                 | Some n => (n, (v, acc + 1)) :: fl_part s r (acc + 1) vec'
                 | None => fl_part s r (acc + 1) vec'
                 end
             end
    end.

  Fixpoint fx_part (s : nat) (decls : list gdecl) (i : Z) : list (Z * (V * Z)) :=
    match decls with
    | [] => []
    | d :: r =>
        if g_fixed d then
          match nm s d with
          | Some n => (n, (g_val d, - i - 1)) :: fx_part s r (i + 1)
          | None => fx_part s r (i + 1)
          end
        else fx_part s r (i + 1)
    end.

  Definition FL (decls : list gdecl) := map (fun d => negb (g_fixed d)) decls.
  Definition FX (decls : list gdecl) := map (@g_fixed V) decls.
  Definition GP (s : nat) (decls : list gdecl) := map is_some (map (nm s) decls).

  Definition fl_names s decls := somes (select (map (nm s) decls) (andm (FL decls) (GP s decls))).
  Definition fl_values s decls (vec : list V) := select vec (select (GP s decls) (FL decls)).
  Definition fl_idxs s decls acc :=
    map lk_gpidx_fl (select (map lk_gflp_idx (cumsum_from acc (map b2z (FL decls)))) (andm (FL decls) (GP s decls))).
  Definition fx_names s decls := somes (select (map (nm s) decls) (andm (FX decls) (GP s decls))).
  Definition fx_values s decls := select (map (@g_val V) (filter (@g_fixed V) decls)) (select (GP s decls) (FX decls)).
  Definition fx_idxs s decls i :=
    map lk_gpidx_fx (select (arange_from i (length decls)) (andm (FX decls) (GP s decls))).

  Lemma fl_shape s decls : forall acc vec,
    length vec = rankn decls ->
    fl_names s decls = map fst (fl_part s decls acc vec)
    /\ fl_values s decls vec = map (fun x => fst (snd x)) (fl_part s decls acc vec)
    /\ fl_idxs s decls acc = map (fun x => snd (snd x)) (fl_part s decls acc vec).
  Proof.
    unfold fl_names, fl_values, fl_idxs, FL, GP, rankn, isfl.
    induction decls as [|d r IH]; intros acc vec H.
    - cbn. destruct vec; repeat split; reflexivity.
    - cbn [map filter fl_part] in *. destruct (g_fixed d) eqn:Ef; cbn [negb] in *.
      + cbn [b2z cumsum_from map andm select andb]. rewrite Z.add_0_r.
        destruct (is_some (nm s d)); cbn [select]; apply IH; exact H.
      + cbn [length] in H. destruct vec as [|v vec']; [discriminate|].
        cbn [b2z cumsum_from map]. destruct (nm s d) as [n|] eqn:En; cbn [is_some andm select andb somes map fst snd].
        * destruct (IH (acc + 1) vec') as (A & B & C); [cbn in H; lia|].
          rewrite A, B, C, K_lk_gpidx_fl, K_lk_gflp_idx. repeat split; f_equal. lia.
        * apply IH. cbn in H. lia.
  Qed.

  Lemma fx_shape s decls : forall i,
    fx_names s decls = map fst (fx_part s decls i)
    /\ fx_values s decls = map (fun x => fst (snd x)) (fx_part s decls i)
    /\ fx_idxs s decls i = map (fun x => snd (snd x)) (fx_part s decls i).
  Proof.
    unfold fx_names, fx_values, fx_idxs, FX, GP.
    induction decls as [|d r IH]; intros i.
    - cbn. repeat split; reflexivity.
    - cbn [map filter fx_part length arange_from]. destruct (g_fixed d) eqn:Ef.
      + cbn [map]. destruct (nm s d) as [n|] eqn:En; cbn [is_some andm select andb somes map fst snd].
        * destruct (IH (i + 1)) as (A & B & C). rewrite A, B, C, K_lk_gpidx_fx. repeat split; reflexivity.
        * apply IH.
      + destruct (is_some (nm s d)); cbn [andm select andb]; apply IH.
  Qed.

  Lemma combine3_map {A B C D} (f : D -> A) (g : D -> B) (h : D -> C) (l : list D) :
    combine (map f l) (combine (map g l) (map h l)) = map (fun x => (f x, (g x, h x))) l.
  Proof. induction l; cbn; congruence. Qed.

  Lemma row_assignments_parts decls vec s :
    length vec = rankn decls ->
    row_assignments decls vec s = fl_part s decls 0 vec ++ fx_part s decls 0.
  Proof.
    intros H. unfold row_assignments. cbv zeta. rewrite mrow_nm.
    change (fl_mask decls) with (FL decls). change (fx_mask decls) with (FX decls).
    change (map is_some (map (nm s) decls)) with (GP s decls).
    unfold fixed_values, cumsum.
    change (somes (select (map (nm s) decls) (andm (FL decls) (GP s decls)))) with (fl_names s decls).
    change (somes (select (map (nm s) decls) (andm (FX decls) (GP s decls)))) with (fx_names s decls).
    change (select vec (select (GP s decls) (FL decls))) with (fl_values s decls vec).
    change (select (map (@g_val V) (filter (@g_fixed V) decls)) (select (GP s decls) (FX decls))) with (fx_values s decls).
    change (map lk_gpidx_fl (select (map lk_gflp_idx (cumsum_from 0 (map b2z (FL decls)))) (andm (FL decls) (GP s decls))))
      with (fl_idxs s decls 0).
    change (map lk_gpidx_fx (select (arange_from 0 (length decls)) (andm (FX decls) (GP s decls)))) with (fx_idxs s decls 0).
    destruct (fl_shape s decls 0 vec H) as (A & B & C).
    destruct (fx_shape s decls 0) as (A' & B' & C').
    rewrite A, B, C, A', B', C'.
    rewrite (combine_app (map (fun x => fst (snd x)) (fl_part s decls 0 vec))) by (rewrite !map_length; reflexivity).
    rewrite combine_app by (rewrite combine_length, !map_length; lia).
    rewrite !combine3_map. f_equal; (etransitivity; [|apply map_id]); apply map_ext; intros (n & v & g); reflexivity.
  Qed.

  (* ---- what is in the two parts *)
  Lemma fl_part_in s decls : forall acc vec n v g,
    In (n, (v, g)) (fl_part s decls acc vec) ->
    exists pre d post, decls = pre ++ d :: post /\ g_fixed d = false /\ nm s d = Some n
                       /\ g = acc + rank pre + 1 /\ nth_error vec (rankn pre) = Some v.
  Proof.
    unfold rank, rankn, isfl.
    induction decls as [|d r IH]; intros acc vec n v g Hin; [destruct Hin|].
    cbn [fl_part] in Hin. destruct (g_fixed d) eqn:Ef.
    - destruct (IH _ _ _ _ _ Hin) as (pre & d' & post & E & F & N & G & T).
      exists (d :: pre), d', post. cbn [filter]. rewrite Ef. cbn [negb]. subst r. repeat split; assumption.
    - destruct vec as [|v0 vec']; [destruct Hin|].
      assert (Htl : In (n, (v, g)) (fl_part s r (acc + 1) vec') ->
                    exists pre d0 post, d :: r = pre ++ d0 :: post /\ g_fixed d0 = false /\ nm s d0 = Some n
                      /\ g = acc + Z.of_nat (length (filter (fun d => negb (g_fixed d)) pre)) + 1
                      /\ nth_error (v0 :: vec') (length (filter (fun d => negb (g_fixed d)) pre)) = Some v).
      { intros Hin'. destruct (IH _ _ _ _ _ Hin') as (pre & d' & post & E & F & N & G & T).
        exists (d :: pre), d', post. cbn [filter]. rewrite Ef. cbn [negb length nth_error]. subst r.
        repeat split; try assumption. lia. }
      destruct (nm s d) as [n0|] eqn:En.
      + destruct Hin as [Hh|Hin']; [|exact (Htl Hin')].
        inversion Hh; subst n0 v0 g. exists [], d, r. cbn. repeat split; try assumption. lia.
      + exact (Htl Hin).
  Qed.

  Lemma fx_part_in s decls : forall i n v g,
    In (n, (v, g)) (fx_part s decls i) ->
    exists pre d post, decls = pre ++ d :: post /\ g_fixed d = true /\ nm s d = Some n
                       /\ g = - (i + Z.of_nat (length pre)) - 1 /\ v = g_val d.
  Proof.
    induction decls as [|d r IH]; intros i n v g Hin; [destruct Hin|].
    cbn [fx_part] in Hin.
    assert (Htl : In (n, (v, g)) (fx_part s r (i + 1)) ->
                  exists pre d0 post, d :: r = pre ++ d0 :: post /\ g_fixed d0 = true /\ nm s d0 = Some n
                    /\ g = - (i + Z.of_nat (length pre)) - 1 /\ v = g_val d0).
    { intros Hin'. destruct (IH _ _ _ _ Hin') as (pre & d' & post & E & F & N & G & T).
      exists (d :: pre), d', post. subst r. cbn [length]. repeat split; try assumption. lia. }
    destruct (g_fixed d) eqn:Ef; [|exact (Htl Hin)].
    destruct (nm s d) as [n0|] eqn:En; [|exact (Htl Hin)].
    destruct Hin as [Hh|Hin']; [|exact (Htl Hin')].
    inversion Hh; subst n0 v g. exists [], d, r. cbn. repeat split; try assumption. lia.
  Qed.

  Lemma fl_part_complete s : forall pre d post acc vec n,
    length vec = rankn (pre ++ d :: post) -> g_fixed d = false -> nm s d = Some n ->
    exists v, nth_error vec (rankn pre) = Some v
              /\ In (n, (v, acc + rank pre + 1)) (fl_part s (pre ++ d :: post) acc vec).
  Proof.
    unfold rank, rankn, isfl.
    induction pre as [|p pre IH]; intros d post acc vec n H Ef En.
    - cbn [app fl_part filter] in *. rewrite Ef in *. cbn [negb length] in H.
      destruct vec as [|v vec']; [discriminate|]. exists v. rewrite En. cbn. split; [reflexivity|].
      left. repeat f_equal. lia.
    - cbn [app fl_part filter] in *. destruct (g_fixed p) eqn:Ep; cbn [negb] in *.
      + apply IH; assumption.
      + cbn [length] in H. destruct vec as [|v0 vec']; [discriminate|].
        destruct (IH d post (acc + 1) vec' n) as (v & Hn & Hin); [cbn in H; lia|assumption|assumption|].
        exists v. cbn [length nth_error]. split; [exact Hn|].
        replace (acc + Z.of_nat (S (length (filter (fun d0 => negb (g_fixed d0)) pre))) + 1)
          with (acc + 1 + Z.of_nat (length (filter (fun d0 => negb (g_fixed d0)) pre)) + 1) by lia.
        destruct (nm s p); [right|]; exact Hin.
  Qed.

  Lemma fx_part_complete s : forall pre d post i n,
    g_fixed d = true -> nm s d = Some n ->
    In (n, (g_val d, - (i + Z.of_nat (length pre)) - 1)) (fx_part s (pre ++ d :: post) i).
  Proof.
    induction pre as [|p pre IH]; intros d post i n Ef En.
    - cbn [app fx_part length]. rewrite Ef, En. left. repeat f_equal. lia.
    - cbn [app fx_part length].
      replace (- (i + Z.of_nat (S (length pre))) - 1) with (- (i + 1 + Z.of_nat (length pre)) - 1) by lia.
      destruct (g_fixed p); [destruct (nm s p); [right|]|]; apply IH; assumption.
  Qed.

  (* ---- last assignment *)
  Lemma last_assigned_cases (asg : list (Z * (V * Z))) name : forall acc,
    last_assigned asg name acc = acc
    \/ exists v g, In (name, (v, g)) asg /\ last_assigned asg name acc = (Some v, g).
  Proof.
    induction asg as [|(n & v & g) r IH]; intros acc; [left; reflexivity|].
    cbn [last_assigned]. destruct (n =? name) eqn:E.
    - apply Z.eqb_eq in E. subst n.
      destruct (IH (Some v, g)) as [H|(v' & g' & Hin & H)].
      + right. exists v, g. split; [left; reflexivity|exact H].
      + right. exists v', g'. split; [right; exact Hin|exact H].
    - destruct (IH acc) as [H|(v' & g' & Hin & H)]; [left; exact H|].
      right. exists v', g'. split; [right; exact Hin|exact H].
  Qed.

  Lemma last_assigned_notin (asg : list (Z * (V * Z))) name : forall acc,
    ~ In name (map fst asg) -> last_assigned asg name acc = acc.
  Proof.
    induction asg as [|(n & v & g) r IH]; intros acc H; [reflexivity|].
    cbn [last_assigned]. cbn in H. destruct (n =? name) eqn:E.
    - apply Z.eqb_eq in E. exfalso. apply H. left. exact E.
    - apply IH. intros Hc. apply H. right. exact Hc.
  Qed.

  Lemma last_assigned_unique (asg : list (Z * (V * Z))) name v g : forall acc,
    NoDup (map fst asg) -> In (name, (v, g)) asg -> last_assigned asg name acc = (Some v, g).
  Proof.
    induction asg as [|(n & v0 & g0) r IH]; intros acc Hnd Hin; [destruct Hin|].
    cbn [map fst] in Hnd. inversion Hnd as [|? ? Hni Hnd']; subst.
    cbn [last_assigned]. destruct Hin as [Hh|Hin].
    - inversion Hh; subst. rewrite Z.eqb_refl. apply last_assigned_notin. exact Hni.
    - destruct (n =? name) eqn:E.
      + apply Z.eqb_eq in E. subst n. exfalso. apply Hni.
        change name with (fst (name, (v, g))). apply in_map. exact Hin.
      + apply IH; assumption.
  Qed.

  (* ---- local names of a source are distinct when the mapper was built by map_param *)
  Lemma somes_app {A} (a b : list (option A)) : somes (a ++ b) = somes a ++ somes b.
  Proof. induction a as [|[x|] a IH]; cbn; congruence. Qed.

  Lemma zmem_false x l : zmem x l = false -> ~ In x l.
  Proof.
    unfold zmem. intros H Hin. assert (existsb (Z.eqb x) l = true).
    { apply existsb_exists. exists x. split; [exact Hin|apply Z.eqb_refl]. }
    congruence.
  Qed.

  Lemma dup_check_false (decls : list gdecl) names : forall k,
    dup_check decls names k = false ->
    forall j n, nth_error names j = Some (Some n) -> ~ In n (somes (mrow decls (k + j))).
  Proof.
    induction names as [|[n0|] r IH]; intros k H j n Hj.
    - destruct j; discriminate.
    - cbn [dup_check] in H. apply orb_false_iff in H. destruct H as [H1 H2].
      destruct j as [|j].
      + cbn in Hj. inversion Hj; subst. rewrite Nat.add_0_r. apply zmem_false. exact H1.
      + cbn in Hj. rewrite <- plus_n_Sm. apply (IH (S k) H2 j n Hj).
    - cbn [dup_check] in H. destruct j as [|j]; [discriminate|].
      cbn in Hj. rewrite <- plus_n_Sm. apply (IH (S k) H j n Hj).
  Qed.

  Definition names_distinct (decls : list gdecl) : Prop :=
    forall s, NoDup (somes (mrow decls s)).

  Lemma map_param_distinct (m m' : mapper) d :
    map_param m d = Ok m' -> names_distinct (m_decls m) ->
    names_distinct (m_decls m') /\ m_nmodels m' = m_nmodels m /\ m_decls m' = m_decls m ++ [d].
  Proof.
    unfold map_param. intros H Hd.
    destruct (negb (Nat.eqb (length (g_names d)) (m_nmodels m))); [discriminate|].
    destruct (negb (existsb is_some (g_names d))); [discriminate|].
    destruct (dup_check (m_decls m) (g_names d) 0) eqn:Edup; [discriminate|].
    destruct (zmem (g_name d) (map (@g_name V) (m_decls m))); [discriminate|].
    inversion H; subst m'. cbn. split; [|split; reflexivity].
    intros s. rewrite mrow_nm, map_app, somes_app. cbn [map somes].
    unfold nm at 2. destruct (nth_error (g_names d) s) as [[n|]|] eqn:En; cbn [somes]; rewrite ?app_nil_r;
      try (rewrite <- mrow_nm; apply Hd).
    apply NoDup_snoc; [rewrite <- mrow_nm; apply Hd|].
    rewrite <- mrow_nm. apply (dup_check_false _ _ 0%nat Edup s n En).
  Qed.

  Lemma build_from_spec : forall ds (m m' : mapper),
    build_from m ds = Ok m' -> names_distinct (m_decls m) ->
    names_distinct (m_decls m') /\ m_nmodels m' = m_nmodels m /\ m_decls m' = m_decls m ++ ds.
  Proof.
    induction ds as [|d ds IH]; intros m m' H Hd.
    - cbn in H. inversion H; subst. rewrite app_nil_r. auto.
    - cbn [build_from bind] in H. destruct (map_param m d) as [m1|e] eqn:E; [|discriminate].
      destruct (map_param_distinct _ _ _ E Hd) as (D1 & N1 & L1).
      destruct (IH _ _ H D1) as (D2 & N2 & L2). split; [exact D2|]. split; [congruence|].
      rewrite L2, L1, <- app_assoc. reflexivity.
  Qed.

  (* every declaration list accepted by map_param: the table is the list itself,
     and no source has two parameters of the same local name *)
  Theorem build_spec n ds (m : mapper) :
    build n ds = Ok m -> names_distinct (m_decls m) /\ m_nmodels m = n /\ m_decls m = ds.
  Proof.
    intros H. apply build_from_spec in H; [exact H|]. intros s. cbn. constructor.
  Qed.

  Lemma parts_names_perm s decls : forall acc vec i,
    length vec = rankn decls ->
    Permutation (map fst (fl_part s decls acc vec) ++ map fst (fx_part s decls i)) (somes (map (nm s) decls)).
  Proof.
    unfold rankn, isfl.
    induction decls as [|d r IH]; intros acc vec i H; [constructor|].
    cbn [map filter fl_part fx_part somes] in *. destruct (g_fixed d) eqn:Ef; cbn [negb] in *.
    - destruct (nm s d) as [n|]; [|apply IH; exact H].
      cbn [map fst]. apply Permutation_sym. eapply Permutation_trans; [|apply Permutation_middle].
      constructor. apply Permutation_sym. apply IH. exact H.
    - cbn [length] in H. destruct vec as [|v vec']; [discriminate|].
      destruct (nm s d) as [n|]; [cbn [map fst app]; constructor|]; apply IH; cbn in H; lia.
  Qed.

  Lemma nth_error_map_seq {B} (f : nat -> B) n s : (s < n)%nat -> nth_error (map f (seq 0 n)) s = Some (f s).
  Proof.
    intros H. rewrite nth_error_map, (nth_error_nth' _ 0%nat) by (rewrite seq_length; exact H).
    rewrite seq_nth by exact H. reflexivity.
  Qed.

  Lemma create_ok (m : mapper) vec (r : recarray) :
    create_src_params_recarray m vec = Ok r ->
    length vec = rankn (m_decls m)
    /\ r = mkRec m (map (row_assignments (m_decls m) vec) (seq 0 (m_nmodels m))).
  Proof.
    unfold create_src_params_recarray. rewrite K_lk_len_bad.
    destruct (zlen vec =? n_floating (m_decls m)) eqn:E; cbn [negb]; [|discriminate].
    intros H. inversion H; subst. split; [|reflexivity].
    apply Z.eqb_eq in E. unfold zlen, n_floating, zlen in E. apply Nat2Z.inj in E. exact E.
  Qed.

  Lemma rcell_row (m : mapper) vec (r : recarray) s name :
    create_src_params_recarray m vec = Ok r -> (s < m_nmodels m)%nat ->
    rcell r s name = last_assigned (fl_part s (m_decls m) 0 vec ++ fx_part s (m_decls m) 0) name cell0.
  Proof.
    intros H Hs. destruct (create_ok _ _ _ H) as (Hl & ->).
    unfold rcell. cbn [r_asg]. rewrite nth_error_map_seq by exact Hs.
    rewrite row_assignments_parts by exact Hl. reflexivity.
  Qed.

  (* T1: whatever a cell holds was put there by a declaration that maps the
     source under that local name; a positive key is the floating rank + 1 of that
     declaration and the stored value is the entry of the value vector at that rank *)
  Theorem cell_sound (m : mapper) vec (r : recarray) s name ov g :
    create_src_params_recarray m vec = Ok r -> (s < m_nmodels m)%nat ->
    rcell r s name = (ov, g) ->
    (ov = None /\ g = 0)
    \/ exists pre d post v,
         m_decls m = pre ++ d :: post /\ nm s d = Some name /\ ov = Some v
         /\ ((g_fixed d = false /\ g = rank pre + 1 /\ nth_error vec (rankn pre) = Some v)
             \/ (g_fixed d = true /\ g = - Z.of_nat (length pre) - 1 /\ v = g_val d)).
  Proof.
    intros H Hs Hc. rewrite (rcell_row _ _ _ _ _ H Hs) in Hc.
    destruct (last_assigned_cases (fl_part s (m_decls m) 0 vec ++ fx_part s (m_decls m) 0) name cell0)
      as [E|(v & g' & Hin & E)]; rewrite E in Hc.
    - left. inversion Hc. auto.
    - right. inversion Hc; subst ov g'. apply in_app_or in Hin. destruct Hin as [Hin|Hin].
      + destruct (fl_part_in _ _ _ _ _ _ _ Hin) as (pre & d & post & E1 & F & N & G & T).
        exists pre, d, post, v. repeat split; try assumption. left. repeat split; try assumption; try lia.
      + destruct (fx_part_in _ _ _ _ _ _ Hin) as (pre & d & post & E1 & F & N & G & T).
        exists pre, d, post, v. repeat split; try assumption. right. repeat split; try assumption; try lia.
  Qed.

  (* T2: every declaration that maps source s under a local name is found in the
     cell of that name: floating -> (vec[rank], rank+1); fixed -> (its value, -(index)-1) *)
  Theorem cell_complete (m : mapper) vec (r : recarray) s name pre d post :
    names_distinct (m_decls m) ->
    create_src_params_recarray m vec = Ok r -> (s < m_nmodels m)%nat ->
    m_decls m = pre ++ d :: post -> nm s d = Some name ->
    exists v, rcell r s name = (Some v, if g_fixed d then - Z.of_nat (length pre) - 1 else rank pre + 1)
              /\ (if g_fixed d then v = g_val d else nth_error vec (rankn pre) = Some v).
  Proof.
    intros Hd H Hs E N. rewrite (rcell_row _ _ _ _ _ H Hs).
    destruct (create_ok _ _ _ H) as (Hl & _).
    assert (Hnd : NoDup (map fst (fl_part s (m_decls m) 0 vec ++ fx_part s (m_decls m) 0))).
    { rewrite map_app. eapply Permutation_NoDup; [apply Permutation_sym; apply parts_names_perm; exact Hl|].
      rewrite <- mrow_nm. apply Hd. }
    destruct (g_fixed d) eqn:Ef.
    - exists (g_val d). split; [|reflexivity]. apply last_assigned_unique; [exact Hnd|].
      apply in_or_app. right. rewrite E.
      replace (- Z.of_nat (length pre) - 1) with (- (0 + Z.of_nat (length pre)) - 1) by lia.
      apply fx_part_complete; assumption.
    - rewrite E in Hl. destruct (fl_part_complete s pre d post 0 vec name Hl Ef N) as (v & Hn & Hin).
      exists v. split; [|exact Hn]. apply last_assigned_unique; [exact Hnd|].
      apply in_or_app. left. rewrite E. replace (rank pre + 1) with (0 + rank pre + 1) by lia. exact Hin.
  Qed.

  (* the keys are bounded by the number of floating parameters *)
  Lemma rankn_split pre (d : gdecl) post :
    g_fixed d = false -> (rankn pre + 1 <= rankn (pre ++ d :: post))%nat.
  Proof.
    intros F. unfold rankn, isfl. rewrite filter_app, app_length. cbn [filter]. rewrite F. cbn. lia.
  Qed.

  Theorem gpidx_range (m : mapper) vec (r : recarray) s name :
    create_src_params_recarray m vec = Ok r ->
    - Z.of_nat (length (m_decls m)) <= snd (rcell r s name) <= n_floating (m_decls m).
  Proof.
    intros H. assert (Hn : 0 <= n_floating (m_decls m)) by (unfold n_floating, zlen; lia).
    destruct (Nat.lt_ge_cases s (m_nmodels m)) as [Hs|Hs].
    - destruct (rcell r s name) as (ov, g) eqn:Ec. cbn [snd].
      destruct (cell_sound _ _ _ _ _ _ _ H Hs Ec) as [(_ & ->)|(pre & d & post & v & E & N & _ & [(F & G & _)|(F & G & _)])].
      + lia.
      + pose proof (rankn_split pre d post F) as Hr. rewrite <- E in Hr.
        unfold n_floating, zlen in *. unfold rank, rankn, isfl in *. lia.
      + assert (length (m_decls m) = length pre + S (length post))%nat by (rewrite E, app_length; reflexivity).
        lia.
    - destruct (create_ok _ _ _ H) as (_ & ->). unfold rcell. cbn [r_asg].
      rewrite (proj2 (nth_error_None _ _)) by (rewrite map_length, seq_length; exact Hs). cbn. lia.
  Qed.

  (* ---- consumers: the detector-yield keys *)
  Lemma insert_uniq_in x y l : In x (insert_uniq y l) -> x = y \/ In x l.
  Proof.
    induction l as [|z l IH]; cbn [insert_uniq]; intros H.
    - destruct H as [H|[]]; auto.
    - destruct (y <? z); [destruct H as [H|H]; auto|].
      destruct (y =? z); [auto|]. destruct H as [H|H]; [right; left; exact H|].
      destruct (IH H); auto. right. right. assumption.
  Qed.

  Lemma np_unique_in x l : In x (np_unique l) -> In x l.
  Proof.
    induction l as [|y l IH]; cbn [np_unique fold_right]; intros H; [exact H|].
    apply insert_uniq_in in H. destruct H as [H|H]; [left; auto|right; apply IH; exact H].
  Qed.

  Lemma slice_in {A} (x : A) l lo n : In x (slice l lo n) -> In x l.
  Proof.
    unfold slice. intros H.
    assert (H1 : In x (skipn lo l)).
    { rewrite <- (firstn_skipn n (skipn lo l)). apply in_or_app. left. exact H. }
    rewrite <- (firstn_skipn lo l). apply in_or_app. right. exact H1.
  Qed.

  Lemma col_gpidx_in (r : recarray) name g : In g (col_gpidx r name) -> exists s, g = snd (rcell r s name).
  Proof.
    unfold col_gpidx. intros H. apply in_map_iff in H. destruct H as (s & E & _). exists s. auto.
  Qed.

  (* T3: every key under which a detector-yield / a_jk / f_j gradient is stored is
     the id of a floating parameter: 0 <= key < n_floating *)
  Theorem dsy_keys_range (m : mapper) vec (r : recarray) name lo n k :
    create_src_params_recarray m vec = Ok r ->
    In k (dsy_keys (slice (col_gpidx r name) lo n)) -> 0 <= k < n_floating (m_decls m).
  Proof.
    intros H Hin. unfold dsy_keys in Hin. apply in_map_iff in Hin. destruct Hin as (g & E & Hin).
    apply filter_In in Hin. destruct Hin as (Hin & Hpos). apply K_lk_dsy_pos in Hpos.
    apply np_unique_in, slice_in, col_gpidx_in in Hin. destruct Hin as (s & ->).
    pose proof (gpidx_range m vec r s name H) as Hr. rewrite K_lk_dsy_key in E. lia.
  Qed.

  Lemma f_grads_cols_id nfl keys :
    (forall k, In k keys -> 0 <= k < nfl) -> f_grads_cols nfl keys = Ok keys.
  Proof.
    unfold f_grads_cols. induction keys as [|k keys IH]; intros H; [reflexivity|].
    cbn [mapM bind]. assert (Hk : 0 <= k < nfl) by (apply H; left; reflexivity).
    replace ((k <? - nfl) || (nfl <=? k)) with false
      by (symmetry; apply orb_false_iff; split; [apply Z.ltb_ge|apply Z.leb_gt]; lia).
    replace (k <? 0) with false by (symmetry; apply Z.ltb_ge; lia).
    rewrite IH by (intros k' Hk'; apply H; right; exact Hk'). reflexivity.
  Qed.

  Lemma dedup_in x l : In x (dedup l) -> In x l.
  Proof.
    induction l as [|y l IH]; cbn [dedup]; intros H; [exact H|].
    destruct H as [H|H]; [left; exact H|]. apply filter_In in H. right. apply IH. apply H.
  Qed.

  Lemma a_grad_keys_range (m : mapper) vec (r : recarray) :
    create_src_params_recarray m vec = Ok r ->
    forall groups sidx kms, a_grad_keys_from r groups sidx = Ok kms ->
    forall k, In k (map fst kms) -> 0 <= k < n_floating (m_decls m).
  Proof.
    intros H. induction groups as [|(n & [name|]) rest IH]; intros sidx kms E k Hin.
    - cbn in E. inversion E; subst. destruct Hin.
    - cbn [a_grad_keys_from] in E. destruct (negb (has_field (r_map r) name)); [discriminate|].
      destruct (a_grad_keys_from r rest (lk_slice_next sidx (Z.of_nat n))) as [tl|e] eqn:Et; [|discriminate].
      cbn [bind] in E. inversion E; subst kms. rewrite map_app, map_map in Hin. cbn [fst] in Hin.
      apply in_app_or in Hin. destruct Hin as [Hin|Hin].
      + rewrite map_id in Hin. eapply dsy_keys_range; [exact H|exact Hin].
      + eapply IH; [exact Et|exact Hin].
    - cbn [a_grad_keys_from] in E. eapply IH; [exact E|exact Hin].
  Qed.

  (* no consumer of the keys can fail: the f_grads columns exist, and the gradient
     vector has one entry per floating parameter *)
  Theorem keys_fit_gradient_vector (m : mapper) vec (r : recarray) groups kms :
    create_src_params_recarray m vec = Ok r -> a_grad_keys r groups = Ok kms ->
    f_grads_cols (n_floating (m_decls m)) (dict_keys kms) = Ok (dict_keys kms)
    /\ grads_len (n_floating (m_decls m)) = n_floating (m_decls m)
    /\ zlen vec = n_floating (m_decls m).
  Proof.
    intros H E. split; [|split].
    - apply f_grads_cols_id. intros k Hk. unfold dict_keys in Hk. apply dedup_in in Hk.
      eapply a_grad_keys_range; [exact H|exact E|exact Hk].
    - unfold grads_len. rewrite K_lk_ngrads, K_lk_ncols. lia.
    - destruct (create_ok _ _ _ H) as (Hl & _). unfold n_floating, zlen. f_equal. exact Hl.
  Qed.

  (* the comparison every consumer makes (gpidx == fitparam_id + 1) holds exactly for
     the cells fed by the fitparam_id-th floating parameter in declaration order *)
  Theorem match_iff_dependency (m : mapper) vec (r : recarray) s name fid :
    names_distinct (m_decls m) ->
    create_src_params_recarray m vec = Ok r -> (s < m_nmodels m)%nat -> 0 <= fid ->
    (lk_is_local fid (snd (rcell r s name)) = true
     <-> exists pre d post, m_decls m = pre ++ d :: post /\ g_fixed d = false
                            /\ nm s d = Some name /\ rank pre = fid).
  Proof.
    intros Hd H Hs Hf. rewrite K_lk_is_local, Z.eqb_eq. split.
    - intros Hg. destruct (rcell r s name) as (ov, g) eqn:Ec. cbn [snd] in Hg.
      destruct (cell_sound _ _ _ _ _ _ _ H Hs Ec) as [(_ & G)|(pre & d & post & v & E & N & _ & [(F & G & _)|(F & G & _)])];
        try lia.
      exists pre, d, post. repeat split; try assumption. lia.
    - intros (pre & d & post & E & F & N & R).
      destruct (cell_complete _ _ _ _ _ _ _ _ Hd H Hs E N) as (v & Ec & _). rewrite Ec, F. cbn [snd]. lia.
  Qed.

  (* ---- the same statements for every declaration list accepted by map_param *)
  Theorem layout_producer n ds (m : mapper) vec (r : recarray) s name pre d post :
    build n ds = Ok m -> create_src_params_recarray m vec = Ok r -> (s < n)%nat ->
    ds = pre ++ d :: post -> nm s d = Some name ->
    exists v, rcell r s name = (Some v, if g_fixed d then - Z.of_nat (length pre) - 1 else rank pre + 1)
              /\ (if g_fixed d then v = g_val d else nth_error vec (rankn pre) = Some v).
  Proof.
    intros Hb Hc Hs E N. destruct (build_spec _ _ _ Hb) as (Hd & Hn & Hl).
    eapply cell_complete; try eassumption; [rewrite Hn; exact Hs|rewrite Hl; exact E].
  Qed.

  Theorem layout_sound n ds (m : mapper) vec (r : recarray) s name ov g :
    build n ds = Ok m -> create_src_params_recarray m vec = Ok r -> (s < n)%nat ->
    rcell r s name = (ov, g) ->
    (ov = None /\ g = 0)
    \/ exists pre d post v,
         ds = pre ++ d :: post /\ nm s d = Some name /\ ov = Some v
         /\ ((g_fixed d = false /\ g = rank pre + 1 /\ nth_error vec (rankn pre) = Some v)
             \/ (g_fixed d = true /\ g = - Z.of_nat (length pre) - 1 /\ v = g_val d)).
  Proof.
    intros Hb Hc Hs Ec. destruct (build_spec _ _ _ Hb) as (Hd & Hn & Hl). rewrite <- Hl.
    eapply cell_sound; try eassumption. rewrite Hn; exact Hs.
  Qed.

  Theorem layout_consumer n ds (m : mapper) vec (r : recarray) s name fid :
    build n ds = Ok m -> create_src_params_recarray m vec = Ok r -> (s < n)%nat -> 0 <= fid ->
    (lk_is_local fid (snd (rcell r s name)) = true
     <-> exists pre d post, ds = pre ++ d :: post /\ g_fixed d = false /\ nm s d = Some name /\ rank pre = fid).
  Proof.
    intros Hb Hc Hs Hf. destruct (build_spec _ _ _ Hb) as (Hd & Hn & Hl). rewrite <- Hl.
    apply (match_iff_dependency m vec r s name fid Hd Hc); [rewrite Hn; exact Hs|exact Hf].
  Qed.

  Theorem layout_keys n ds (m : mapper) vec (r : recarray) groups kms :
    build n ds = Ok m -> create_src_params_recarray m vec = Ok r -> a_grad_keys r groups = Ok kms ->
    (forall k, In k (map fst kms) -> 0 <= k < n_floating ds)
    /\ f_grads_cols (n_floating ds) (dict_keys kms) = Ok (dict_keys kms)
    /\ grads_len (n_floating ds) = n_floating ds
    /\ zlen vec = n_floating ds.
  Proof.
    intros Hb Hc E. destruct (build_spec _ _ _ Hb) as (Hd & Hn & Hl). rewrite <- Hl.
    split; [eapply (a_grad_keys_range m vec r Hc); exact E|]. eapply keys_fit_gradient_vector; eassumption.
  Qed.

  (* the three textual copies of the comparison are the same test *)
  Theorem consumers_agree g fid :
    lk_i3_match g fid = lk_is_local fid g /\ lk_sig_match g fid = lk_is_local fid g
    /\ lk_dsy_mask g fid = lk_is_local fid g
    /\ (lk_dsy_pos g = true -> lk_dsy_mask g (lk_dsy_key g) = true).
  Proof.
    rewrite K_lk_i3_match, K_lk_sig_match, K_lk_dsy_mask, K_lk_is_local, K_lk_dsy_key. repeat split.
    intros _. apply Z.eqb_eq. lia.
  Qed.
End P.
