(* C04 — the per-source table (create_src_params_recarray): row k = exactly the
   parameters mapped to source k under their local name, floating values from
   the vector, fixed ones from the table, (None, 0) = not applicable. *)
From Coq Require Import ZArith List Bool Lia Permutation.
From Sky Require Import Result PyList G_params M_Params S_Params P_Params P_ParamsViews P_ParamsMap.
Import ListNotations.
Open Scope Z_scope.

Lemma cumsum_from_length l : forall acc, length (cumsum_from acc l) = length l.
Proof. induction l; intros acc; cbn; auto. Qed.

Lemma gpidx_fl : forall ps gpm pos rank, length gpm = length ps ->
  map rec_gpidx_fl
      (mask_select (map rec_gflp_idx
                        (cumsum_from rank (map (fun b : bool => if b then 1 else 0) (map negb (map p_isfixed ps)))))
                   (andmask (map negb (map p_isfixed ps)) gpm))
  = mask_select (s_gpidxs pos rank (table_of ps)) (andmask (map negb (map p_isfixed ps)) gpm).
Proof.
  induction ps as [|p ps IH]; intros gpm pos rank H; [destruct gpm; reflexivity|].
  destruct gpm as [|g gpm]; [discriminate|]. cbn in H.
  cbn [map table_of cumsum_from s_gpidxs]. unfold is_fixed at 1, row_of at 1. cbn [r_kind].
  unfold andmask in *. destruct (p_isfixed p); cbn [negb map combine fst snd andb mask_select].
  - rewrite Z.add_0_r. apply IH. lia.
  - destruct g; cbn [mask_select map]; rewrite (IH gpm (pos + 1) (rank + 1)) by lia; [|reflexivity].
    rewrite K_rec_gflp_idx, K_rec_gpidx_fl. f_equal. lia.
Qed.

Lemma gpidx_fx : forall ps gpm k rank, length gpm = length ps ->
  map rec_gpidx_fx (mask_select (map Z.of_nat (seq k (length ps))) (andmask (map p_isfixed ps) gpm))
  = mask_select (s_gpidxs (Z.of_nat k) rank (table_of ps)) (andmask (map p_isfixed ps) gpm).
Proof.
  induction ps as [|p ps IH]; intros gpm k rank H; [destruct gpm; reflexivity|].
  destruct gpm as [|g gpm]; [discriminate|]. cbn in H.
  cbn [map table_of length seq s_gpidxs]. unfold is_fixed at 1, row_of at 1. cbn [r_kind].
  unfold andmask in *. destruct (p_isfixed p); cbn [map combine fst snd andb mask_select].
  - replace (Z.of_nat k + 1) with (Z.of_nat (S k)) by lia.
    destruct g; cbn [mask_select map]; rewrite (IH gpm (S k) rank) by lia; [|reflexivity].
    rewrite K_rec_gpidx_fx. reflexivity.
  - replace (Z.of_nat k + 1) with (Z.of_nat (S k)) by lia. apply IH. lia.
Qed.

Lemma combine_mask_select {A B} : forall (a : list A) (b : list B) m,
  length a = length b ->
  combine (mask_select a m) (mask_select b m) = mask_select (combine a b) m
  /\ length (mask_select a m) = length (mask_select b m).
Proof.
  induction a as [|x a IH]; intros b m H; destruct b as [|y b]; try discriminate; [destruct m; cbn; auto|].
  destruct m as [|c m]; [cbn; auto|]. cbn in H. destruct (IH b m ltac:(lia)) as (E1 & E2).
  destruct c; cbn; rewrite ?E1, ?E2; auto.
Qed.

Lemma last_assigned_assoc : forall (asg : list (Z * (Z * Z))) u acc,
  NoDup (map fst asg) ->
  last_assigned asg u acc = match assoc asg u with Some (v, g) => (Some v, g) | None => acc end.
Proof.
  induction asg as [|[n [v g]] r IH]; intros u acc HN; [reflexivity|].
  cbn [last_assigned assoc]. cbn in HN. inversion HN; subst. rewrite IH by assumption.
  rewrite (Z.eqb_sym n u). destruct (u =? n) eqn:E; [|reflexivity].
  apply Z.eqb_eq in E; subst. rewrite assoc_None by assumption. reflexivity.
Qed.

Lemma s_gpidxs_length T : forall a b, length (s_gpidxs a b T) = length T.
Proof. induction T as [|r T IH]; intros a b; [reflexivity|]. cbn. destruct (is_fixed r); cbn; rewrite IH; reflexivity. Qed.

Section Row.
Variables (st : store) (m : mapper) (ps : list param).
Hypothesis HC : Consistent st (mp_gps m) ps.
Variables (arow : list (option Z)) (vec vals : list Z).
Hypothesis Hrow : length arow = length ps.
Hypothesis HV : s_values (table_of ps) vec = Some vals.
Hypothesis Halias : NoDup (somes arow).

Let flm := map negb (map p_isfixed ps).
Let fxm := map p_isfixed ps.
Let gpm := map is_some arow.
Let G := s_gpidxs 0 0 (table_of ps).

Lemma model_names_values_ok2 :
  model_names_values m vec arow =
    Ok (somes (mask_select arow (andmask flm gpm)) ++ somes (mask_select arow (andmask fxm gpm)),
        mask_select vals (andmask flm gpm) ++ mask_select vals (andmask fxm gpm),
        andmask flm gpm, andmask fxm gpm).
Proof.
  pose proof (Consistent_elim _ _ _ HC) as (HM & _ & _ & HK & (_ & _ & HFV & _)).
  destruct (select_values ps vec vals gpm HV) as (S1 & S2 & S3 & S4 & S5);
    [subst gpm; rewrite map_length; assumption|].
  fold fxm in S1, S2, S3, S4. change (map negb fxm) with flm in S1, S3.
  assert (Lf : length flm = length arow) by (subst flm; rewrite !map_length; auto).
  assert (Lx : length fxm = length arow) by (subst fxm; rewrite !map_length; auto).
  assert (Lg : length gpm = length arow) by (subst gpm; rewrite map_length; auto).
  unfold model_names_values, floating_mask. cbv zeta. rewrite HK. fold fxm gpm. change (map negb fxm) with flm.
  rewrite (mask_and_ok flm gpm) by congruence. cbn [bind].
  rewrite (mask_and_ok fxm gpm) by congruence. cbn [bind].
  rewrite (np_select_same arow (andmask flm gpm)) by (rewrite andmask_length; congruence). cbn [bind].
  rewrite (np_select_same arow (andmask fxm gpm)) by (rewrite andmask_length; congruence). cbn [bind].
  rewrite (np_select_same gpm flm) by congruence. cbn [bind].
  rewrite (np_select_same gpm fxm) by congruence. cbn [bind].
  rewrite (np_select_same vec) by (symmetry; exact S3). cbn [bind].
  rewrite HFV. rewrite (np_select_same (s_fixed_values (table_of ps))) by (symmetry; exact S4). cbn [bind].
  rewrite somes_app, S1, S2. reflexivity.
Qed.

Lemma G_length : length G = length ps.
Proof. subst G. rewrite s_gpidxs_length. unfold table_of. apply map_length. Qed.

Lemma src_row_ok uniq smidx :
  nth_error (mp_names m) smidx = Some arow ->
  src_row m vec uniq (Z.of_nat smidx) = Ok (Z.of_nat smidx, map (s_cell arow vals G) uniq).
Proof.
  intros Hn.
  pose proof (Consistent_elim _ _ _ HC) as (HM & _ & _ & HK & _).
  assert (Lps : length (ps_params (mp_gps m)) = length ps) by (symmetry; eapply mapM_Ok_length; exact HM).
  destruct (select_values ps vec vals gpm HV) as (_ & _ & _ & _ & Lv);
    [subst gpm; rewrite map_length; assumption|].
  assert (Lf : length flm = length arow) by (subst flm; rewrite !map_length; auto).
  assert (Lx : length fxm = length arow) by (subst fxm; rewrite !map_length; auto).
  assert (Lg : length gpm = length arow) by (subst gpm; rewrite map_length; auto).
  pose proof G_length as LG.
  unfold src_row. rewrite py_get_nat, Hn. cbn [bind]. rewrite model_names_values_ok2. cbn [bind].
  unfold floating_mask. rewrite HK. fold fxm. change (map negb fxm) with flm. rewrite Lps.
  rewrite np_select_same by (rewrite map_length; unfold cumsum; rewrite cumsum_from_length, map_length, andmask_length; congruence).
  cbn [bind].
  rewrite np_select_same by (unfold arange; rewrite map_length, seq_length, andmask_length; congruence).
  cbn [bind]. f_equal. f_equal.
  unfold cumsum. subst flm fxm. rewrite (gpidx_fl ps gpm 0 0) by congruence.
  unfold arange. rewrite (gpidx_fx ps gpm 0 0) by congruence. cbn [Z.of_nat]. fold G.
  set (flm := map negb (map p_isfixed ps)). set (fxm := map p_isfixed ps).
  destruct (combine_mask_select vals G (andmask flm gpm)) as (C1 & C2); [congruence|].
  destruct (combine_mask_select vals G (andmask fxm gpm)) as (D1 & D2); [congruence|].
  rewrite (combine_app (mask_select vals (andmask flm gpm))) by exact C2. rewrite C1, D1.
  assert (LX : length (combine vals G) = length arow) by (rewrite combine_length; lia).
  destruct (select_pairs arow (combine vals G) flm LX) as (P1 & P2); [subst flm; rewrite !map_length; auto|].
  destruct (select_pairs arow (combine vals G) fxm LX) as (Q1 & Q2); [subst fxm; rewrite !map_length; auto|].
  fold gpm in P1, P2, Q1, Q2.
  rewrite combine_app by exact P2. rewrite P1, Q1.
  destruct (local_lookup ps arow Hrow Halias (combine vals G) 0 LX) as (_ & HN).
  fold flm fxm in HN.
  apply map_ext. intros u. rewrite last_assigned_assoc by exact HN.
  destruct (local_lookup ps arow Hrow Halias (combine vals G) u LX) as (HL & _). fold flm fxm in HL.
  unfold s_cell, s_lookup. rewrite HL. reflexivity.
Qed.
End Row.

(* ------------------------------------------------------------------ the whole table *)
Lemma insert_uniq_In x y l : In y (insert_uniq x l) <-> y = x \/ In y l.
Proof.
  induction l as [|a l IH]; cbn; [intuition|].
  destruct (x <? a); cbn; [intuition|]. destruct (x =? a) eqn:E; cbn.
  - apply Z.eqb_eq in E; subst. intuition.
  - rewrite IH. intuition.
Qed.

Lemma np_unique_In y l : In y (np_unique l) <-> In y l.
Proof.
  unfold np_unique. induction l as [|a l IH]; cbn; [tauto|]. rewrite insert_uniq_In, IH. intuition.
Qed.

Lemma insert_uniq_sorted x l : strictly_sorted l -> strictly_sorted (insert_uniq x l).
Proof.
  induction l as [|a l IH]; cbn; [auto|]. intros (H1 & H2).
  destruct (x <? a) eqn:E1.
  - apply Z.ltb_lt in E1. cbn. auto.
  - destruct (x =? a) eqn:E2; [cbn; auto|]. apply Z.ltb_ge in E1. apply Z.eqb_neq in E2.
    cbn. split; [|apply IH; assumption].
    destruct l as [|b l]; cbn; [lia|]. destruct (x <? b) eqn:E3; [lia|]. destruct (x =? b); lia.
Qed.

Lemma np_unique_sorted l : strictly_sorted (np_unique l).
Proof. unfold np_unique. induction l; cbn; [exact I | apply insert_uniq_sorted; assumption]. Qed.

Lemma in_mask_select_seq_inv : forall M k z,
  In z (mask_select (map Z.of_nat (seq k (length M))) M) ->
  exists i, z = Z.of_nat (k + i) /\ nth_error M i = Some true.
Proof.
  induction M as [|b M IH]; intros k z H; [destruct H|].
  cbn [length seq map mask_select] in H. destruct b.
  - destruct H as [<-|H]; [exists O; rewrite Nat.add_0_r; auto|].
    destruct (IH (S k) z H) as (i & -> & Hi). exists (S i). split; [f_equal; lia | exact Hi].
  - destruct (IH (S k) z H) as (i & -> & Hi). exists (S i). split; [f_equal; lia | exact Hi].
Qed.

Lemma mapM_Forall2 {A B} (f : A -> res B) (P : A -> B -> Prop) : forall l,
  (forall x, In x l -> exists y, f x = Ok y /\ P x y) ->
  exists r, mapM f l = Ok r /\ Forall2 P l r.
Proof.
  induction l as [|a l IH]; intros H; [exists []; split; [reflexivity | constructor]|].
  destruct (H a (or_introl eq_refl)) as (y & Hy & Py).
  destruct IH as (r & Hr & Fr); [intros x Hx; apply H; right; assumption|].
  exists (y :: r). cbn. rewrite Hy. cbn. rewrite Hr. split; [reflexivity | constructor; assumption].
Qed.

Lemma src_idxs_positions m : get_src_model_idxs m None = s_positions 0 (mp_src m).
Proof.
  unfold get_src_model_idxs, arange. change 0 with (Z.of_nat 0). generalize 0%nat.
  induction (mp_src m) as [|b M IH]; intros k; [reflexivity|].
  cbn [length seq map mask_select s_positions]. replace (Z.of_nat k + 1) with (Z.of_nat (S k)) by lia.
  rewrite <- IH. destruct b; reflexivity.
Qed.

Theorem src_params_recarray_ok st m ps vec vals :
  Consistent st (mp_gps m) ps -> matrix_ok m -> aliases_ok m ->
  s_values (table_of ps) vec = Some vals ->
  exists uniq rows,
    create_src_params_recarray m vec None = Ok (uniq, rows)
    /\ strictly_sorted uniq
    /\ (forall u, In u uniq <->
          exists i arow, nth_error (mp_src m) i = Some true /\ nth_error (mp_names m) i = Some arow /\ In u (somes arow))
    /\ map fst rows = s_positions 0 (mp_src m)
    /\ (forall smidx cells, In (smidx, cells) rows ->
          exists i arow, smidx = Z.of_nat i /\ nth_error (mp_src m) i = Some true
            /\ nth_error (mp_names m) i = Some arow
            /\ cells = map (s_cell arow vals (s_gpidxs 0 0 (table_of ps))) uniq).
Proof.
  intros HC (HM1 & HM2) HA HV.
  pose proof (Consistent_elim _ _ _ HC) as (HM & _ & _ & _ & (_ & HFL & _)).
  destruct (values_perm ps vec vals HV) as (_ & _ & Lvec).
  unfold create_src_params_recarray.
  assert (Hb : rec_len_bad (n_floating_params (mp_gps m)) (zlen vec) = false).
  { apply K_rec_len_bad. unfold n_floating_params, zlen. rewrite HFL, Lvec. reflexivity. }
  rewrite Hb. unfold unique_source_param_names. rewrite np_select_same by exact HM1. cbn [bind].
  set (uniq := np_unique (concat (map somes (mask_select (mp_names m) (mp_src m))))).
  set (P := fun (smidx : Z) (row : Z * list cell) =>
              exists i arow, smidx = Z.of_nat i /\ nth_error (mp_src m) i = Some true
                /\ nth_error (mp_names m) i = Some arow
                /\ row = (smidx, map (s_cell arow vals (s_gpidxs 0 0 (table_of ps))) uniq)).
  destruct (mapM_Forall2 (src_row m vec uniq) P (get_src_model_idxs m None)) as (rows & Hrows & HF).
  { intros z Hz. unfold get_src_model_idxs, arange in Hz.
    destruct (in_mask_select_seq_inv _ _ _ Hz) as (i & -> & Hi). cbn [Nat.add].
    assert (Hlt : (i < length (mp_names m))%nat) by (rewrite HM1; apply nth_error_Some; congruence).
    destruct (nth_error (mp_names m) i) as [arow|] eqn:Hn; [|apply nth_error_None in Hn; lia].
    assert (Hrow : length arow = length ps).
    { rewrite Forall_forall in HM2. rewrite (HM2 arow (nth_error_In _ _ Hn)). symmetry. eapply mapM_Ok_length; exact HM. }
    assert (Hal : NoDup (somes arow)) by (unfold aliases_ok in HA; rewrite Forall_forall in HA; apply HA; eapply nth_error_In; eauto).
    eexists. split; [apply (src_row_ok st m ps HC arow vec vals Hrow HV Hal uniq i Hn)|].
    exists i, arow. auto. }
  rewrite Hrows. cbn [bind]. exists uniq, rows. split; [reflexivity|]. split; [apply np_unique_sorted|]. split; [|split].
  - intros u. subst uniq. rewrite np_unique_In, in_concat. split.
    + intros (l & Hl & Hu). apply in_map_iff in Hl. destruct Hl as (arow & <- & Har).
      clear - Har Hu. revert Har. generalize (mp_src m) as M. induction (mp_names m) as [|r R IH]; intros M Har; [destruct Har|].
      destruct M as [|b M]; [destruct Har|]. cbn in Har. destruct b.
      * destruct Har as [->|Har]; [exists O, arow; auto|].
        destruct (IH M Har) as (i & a & ? & ? & ?). exists (S i), a. auto.
      * destruct (IH M Har) as (i & a & ? & ? & ?). exists (S i), a. auto.
    + intros (i & arow & H1 & H2 & H3). exists (somes arow). split; [|assumption]. apply in_map.
      clear - H1 H2. revert i H1 H2. generalize (mp_src m) as M. induction (mp_names m) as [|r R IH]; intros M i H1 H2; [destruct i; discriminate|].
      destruct M as [|b M]; [destruct i; discriminate|]. destruct i; cbn in *.
      * inversion H1; inversion H2; subst. left; reflexivity.
      * destruct b; [right|]; eapply IH; eauto.
  - rewrite <- src_idxs_positions. clear - HF. induction HF as [|z row l r (i & a & _ & _ & _ & ->) _ IH]; [reflexivity|].
    cbn. f_equal. exact IH.
  - intros smidx cells Hin. clear - HF Hin. induction HF as [|z row l r Hp _ IH]; [destruct Hin|].
    destruct Hin as [E|Hin]; [|auto]. destruct Hp as (i & a & -> & H1 & H2 & H3). rewrite H3 in E. inversion E; subst. exists i, a. auto.
Qed.

(* ------------------------------------------------------------------ any selection of sources *)
Lemma s_positions_range M : forall k z, In z (s_positions (Z.of_nat k) M) ->
  exists i, z = Z.of_nat (k + i) /\ nth_error M i = Some true.
Proof.
  induction M as [|b M IH]; intros k z H; [destruct H|].
  cbn [s_positions] in H. apply in_app_iff in H. destruct H as [H|H].
  - destruct b; [|destruct H]. destruct H as [<-|[]]. exists O. rewrite Nat.add_0_r. auto.
  - replace (Z.of_nat k + 1) with (Z.of_nat (S k)) in H by lia.
    destruct (IH (S k) z H) as (i & -> & Hi). exists (S i). split; [f_equal; lia | exact Hi].
Qed.

Theorem src_params_recarray_sel st m ps vec vals sources :
  Consistent st (mp_gps m) ps -> matrix_ok m -> aliases_ok m ->
  s_values (table_of ps) vec = Some vals ->
  (forall arr, sources = Some (inl arr) -> forall z, In z arr -> 0 <= z < Z.of_nat (length (mp_src m))) ->
  exists uniq rows,
    create_src_params_recarray m vec sources = Ok (uniq, rows)
    /\ unique_source_param_names m = Ok uniq
    /\ map fst rows = sel_idxs m sources
    /\ (forall smidx cells, In (smidx, cells) rows ->
          exists i arow, smidx = Z.of_nat i /\ nth_error (mp_names m) i = Some arow
            /\ cells = map (s_cell arow vals (s_gpidxs 0 0 (table_of ps))) uniq).
Proof.
  intros HC (HM1 & HM2) HA HV Harr.
  pose proof (Consistent_elim _ _ _ HC) as (HM & _ & _ & _ & (_ & HFL & _)).
  destruct (values_perm ps vec vals HV) as (_ & _ & Lvec).
  unfold create_src_params_recarray.
  assert (Hb : rec_len_bad (n_floating_params (mp_gps m)) (zlen vec) = false).
  { apply K_rec_len_bad. unfold n_floating_params, zlen. rewrite HFL, Lvec. reflexivity. }
  rewrite Hb. unfold unique_source_param_names. rewrite np_select_same by exact HM1. cbn [bind].
  set (uniq := np_unique (concat (map somes (mask_select (mp_names m) (mp_src m))))).
  assert (Esel : match sources with
                 | Some (inl arr) => arr
                 | Some (inr srcs) => get_src_model_idxs m (Some srcs)
                 | None => get_src_model_idxs m None
                 end = sel_idxs m sources).
  { destruct sources as [[arr|srcs]|]; cbn [sel_idxs]; [reflexivity | | apply src_idxs_positions].
    unfold get_src_model_idxs. fold (get_src_model_idxs m None). rewrite src_idxs_positions. reflexivity. }
  rewrite Esel.
  set (P := fun (smidx : Z) (row : Z * list cell) =>
              exists i arow, smidx = Z.of_nat i /\ nth_error (mp_names m) i = Some arow
                /\ row = (smidx, map (s_cell arow vals (s_gpidxs 0 0 (table_of ps))) uniq)).
  destruct (mapM_Forall2 (src_row m vec uniq) P (sel_idxs m sources)) as (rows & Hrows & HF).
  { intros z Hz.
    assert (Hi : exists i, z = Z.of_nat i /\ (i < length (mp_src m))%nat).
    { destruct sources as [[arr|srcs]|]; cbn [sel_idxs] in Hz.
      - specialize (Harr arr eq_refl z Hz). exists (Z.to_nat z). split; lia.
      - apply filter_In in Hz. destruct Hz as (Hz & _).
        destruct (s_positions_range _ 0 z Hz) as (i & -> & Hi). exists i. split; [reflexivity|]. apply nth_error_Some. congruence.
      - destruct (s_positions_range _ 0 z Hz) as (i & -> & Hi). exists i. split; [reflexivity|]. apply nth_error_Some. congruence. }
    destruct Hi as (i & -> & Hlt).
    destruct (nth_error (mp_names m) i) as [arow|] eqn:Hn; [|apply nth_error_None in Hn; lia].
    assert (Hrow : length arow = length ps).
    { rewrite Forall_forall in HM2. rewrite (HM2 arow (nth_error_In _ _ Hn)). symmetry. eapply mapM_Ok_length; exact HM. }
    assert (Hal : NoDup (somes arow)) by (unfold aliases_ok in HA; rewrite Forall_forall in HA; apply HA; eapply nth_error_In; eauto).
    eexists. split; [apply (src_row_ok st m ps HC arow vec vals Hrow HV Hal uniq i Hn)|].
    exists i, arow. auto. }
  rewrite Hrows. cbn [bind]. exists uniq, rows. split; [reflexivity|]. split; [reflexivity|]. split.
  - clear - HF. induction HF as [|z row l r (i & a & _ & _ & ->) _ IH]; [reflexivity|]. cbn. f_equal. exact IH.
  - intros smidx cells Hin. clear - HF Hin. induction HF as [|z row l r Hp _ IH]; [destruct Hin|].
    destruct Hin as [E|Hin]; [|auto]. destruct Hp as (i & a & -> & H2 & H3). rewrite H3 in E. inversion E; subst. exists i, a. auto.
Qed.

(* get_src_model_idxs(sources): the requested models among the source models, in model order *)
Theorem src_idxs_selection m srcs :
  get_src_model_idxs m (Some srcs) = filter (fun smidx => mem smidx srcs) (s_positions 0 (mp_src m)).
Proof. unfold get_src_model_idxs. fold (get_src_model_idxs m None). rewrite src_idxs_positions. reflexivity. Qed.

(* ------------------------------------------------------------------ get_local_param_is_global_floating_param_mask *)
Lemma col_has_spec rows j name :
  col_has rows j name = true <-> exists arow, In arow rows /\ nth_error arow j = Some (Some name).
Proof.
  induction rows as [|r rows IH]; cbn [col_has]; [split; [discriminate | intros (? & [] & _)]|].
  destruct (nth_error r j) as [[a|]|] eqn:E.
  - rewrite orb_true_iff, IH, Z.eqb_eq. split.
    + intros [->|(x & Hx & Hn)]; [exists r; split; [left; reflexivity | assumption] | exists x; split; [right; assumption | assumption]].
    + intros (x & [<-|Hx] & Hn); [left; congruence | right; eauto].
  - rewrite IH. split; intros (x & Hx & Hn); [exists x; split; [right; assumption | assumption]|].
    destruct Hx as [<-|Hx]; [congruence | eauto].
  - rewrite IH. split; intros (x & Hx & Hn); [exists x; split; [right; assumption | assumption]|].
    destruct Hx as [<-|Hx]; [congruence | eauto].
Qed.

Lemma in_positions M : forall k j,
  In (Z.of_nat (k + j)) (s_positions (Z.of_nat k) M) <-> nth_error M j = Some true.
Proof.
  induction M as [|b M IH]; intros k j; [cbn; split; [tauto | destruct j; discriminate]|].
  cbn [s_positions]. rewrite in_app_iff. replace (Z.of_nat k + 1) with (Z.of_nat (S k)) by lia.
  destruct j as [|j]; cbn [nth_error].
  - rewrite Nat.add_0_r. split.
    + intros [H|H]; [destruct b; [reflexivity | destruct H]|].
      destruct (s_positions_range _ _ _ H) as (i & Hi & _). lia.
    + intros H; inversion H; subst. left. left. reflexivity.
  - replace (k + S j)%nat with (S k + j)%nat by lia. rewrite <- (IH (S k) j). split; [|intros H; right; exact H].
    intros [H|H]; [|assumption]. destruct b; [|destruct H]. destruct H as [H|[]]. lia.
Qed.

Theorem local_is_floating_mask_ok st m ps names :
  Consistent st (mp_gps m) ps -> matrix_ok m ->
  length (local_is_floating_mask m names) = length names
  /\ forall k name, nth_error names k = Some name ->
       (nth_error (local_is_floating_mask m names) k = Some true <->
        exists arow j p, In arow (mp_names m) /\ nth_error arow j = Some (Some name)
                         /\ nth_error ps j = Some p /\ p_isfixed p = false).
Proof.
  intros HC (HM1 & HM2). pose proof (Consistent_elim _ _ _ HC) as (HM & _ & _ & HK & _).
  assert (Lps : length (ps_params (mp_gps m)) = length ps) by (symmetry; eapply mapM_Ok_length; exact HM).
  unfold local_is_floating_mask. split; [apply map_length|].
  intros k name Hk. rewrite nth_error_map, Hk. cbn [option_map].
  set (ncol := match mp_names m with [] => O | row :: _ => length row end).
  split.
  - intros H. inversion H as [H1]. clear H. apply existsb_exists in H1. destruct H1 as (j & Hj & Hb).
    apply andb_true_iff in Hb. destruct Hb as (Hc & Hf). apply col_has_spec in Hc. destruct Hc as (arow & Hin & Hn).
    apply mem_In in Hf. unfold floating_params_idxs, floating_mask, argwhere in Hf. rewrite argwhere_positions, HK in Hf.
    apply (in_positions _ 0 j) in Hf. rewrite nth_error_map, nth_error_map in Hf.
    destruct (nth_error ps j) as [p|] eqn:Ep; [|discriminate]. cbn in Hf.
    exists arow, j, p. repeat split; auto. destruct (p_isfixed p); [discriminate | reflexivity].
  - intros (arow & j & p & Hin & Hn & Hp & Hf). f_equal. apply existsb_exists. exists j. split.
    + apply in_seq. split; [lia|]. cbn.
      assert (Hlen : length arow = length ps) by (rewrite Forall_forall in HM2; rewrite (HM2 arow Hin); exact Lps).
      assert (Hj : (j < length arow)%nat) by (apply nth_error_Some; congruence).
      subst ncol. destruct (mp_names m) as [|r0 R]; [destruct Hin|].
      rewrite Forall_forall in HM2. rewrite (HM2 r0 (or_introl eq_refl)), Lps. lia.
    + apply andb_true_iff. split; [apply col_has_spec; eauto|].
      apply mem_In. unfold floating_params_idxs, floating_mask, argwhere. rewrite argwhere_positions, HK.
      apply (in_positions _ 0 j). rewrite nth_error_map, nth_error_map, Hp. cbn. rewrite Hf. reflexivity.
Qed.
