(* C04 — refinement: the world of Parameter objects, locations and caches (M_Params.v) behaves, under
   every operation, exactly like the value-level specification interpreter of S_Params.v. *)
From Coq Require Import ZArith List Bool Lia Permutation.
From Sky Require Import Result PyList G_params M_Params S_Params P_Params P_ParamsViews P_ParamsWorld P_ParamsMap P_ParamsArgs.
Import ListNotations.
Open Scope Z_scope.

(* ------------------------------------------------------------------ abstraction of one set *)
Lemma abs_set_Consistent st s ps : Consistent st s ps -> abs_set st s = ps.
Proof.
  intros (H & _). unfold abs_set. revert ps H. induction (ps_params s) as [|l r IH]; intros ps H.
  - cbn in H. inversion H. reflexivity.
  - apply mapM_cons_Ok in H. destruct H as (p & ps' & Hp & Hr & ->). cbn.
    apply rd_Ok in Hp. rewrite Hp. cbn. f_equal. apply IH. assumption.
Qed.

Lemma abs_set_frame st st' s :
  (forall l, In l (ps_params s) -> nth_error st' l = nth_error st l) -> abs_set st' s = abs_set st s.
Proof.
  intros H. unfold abs_set. induction (ps_params s) as [|l r IH]; [reflexivity|].
  cbn. rewrite H by (left; reflexivity). f_equal. apply IH. intros; apply H; right; assumption.
Qed.

Definition a_all (a : aworld) : list (list param) := a_g a :: a_sets a.

Lemma a_all_abs w : a_all (abs w) = map (abs_set (w_store w)) (all_sets w).
Proof. reflexivity. Qed.

Lemma aworld_eq a b :
  a_src a = a_src b -> a_names a = a_names b -> a_all a = a_all b -> a = b.
Proof.
  destruct a, b; unfold a_all; cbn. intros -> -> H. inversion H; subst. reflexivity.
Qed.

(* the sets other than the one operated on keep their value *)
Lemma others_unchanged st st' X s Y :
  SetsOk st (X ++ s :: Y) ->
  (forall l, (l < length st)%nat -> ~ In l (ps_params s) -> nth_error st' l = nth_error st l) ->
  map (abs_set st') X = map (abs_set st) X /\ map (abs_set st') Y = map (abs_set st) Y.
Proof.
  intros (HF & HN) Hag.
  rewrite map_app, concat_app in HN. cbn [map concat] in HN.
  apply NoDup_app_iff in HN. destruct HN as (NA & NsB & DA).
  apply NoDup_app_iff in NsB. destruct NsB as (Ns & NB & DB).
  apply Forall_app in HF. destruct HF as (FA & FsB). inversion FsB as [|? ? Fs FB]; subst.
  split; apply map_ext_in; intros t Ht; apply abs_set_frame; intros l Hl.
  - assert (Hc : In l (concat (map ps_params X))) by (apply in_concat; exists (ps_params t); split; [apply in_map; assumption | assumption]).
    rewrite Forall_forall in FA. destruct (FA t Ht) as (pt & Hpt).
    apply Hag; [eapply Consistent_lt; eauto|]. intro Z0. apply (DA l Hc). rewrite in_app_iff. tauto.
  - assert (Hc : In l (concat (map ps_params Y))) by (apply in_concat; exists (ps_params t); split; [apply in_map; assumption | assumption]).
    rewrite Forall_forall in FB. destruct (FB t Ht) as (pt & Hpt).
    apply Hag; [eapply Consistent_lt; eauto|]. intro Z0. apply (DB l Z0 Hc).
Qed.

(* addressing: the concrete and the abstract reference agree *)
Lemma set_nth_split_len {A} (l : list A) n s :
  nth_error l n = Some s ->
  exists X Y, l = X ++ s :: Y /\ length X = n /\ forall s', set_nth l n s' = X ++ s' :: Y.
Proof.
  revert n; induction l as [|a l IH]; intros [|n] H; cbn in H; try discriminate.
  - inversion H; subst. exists [], l. repeat split; reflexivity.
  - destruct (IH n H) as (X & Y & E1 & E2 & E3). exists (a :: X), Y. split; [rewrite E1 at 1; reflexivity|].
    split; [cbn; congruence|]. intros s'. cbn. rewrite E3. reflexivity.
Qed.

Lemma set_nth_app_len {A} (X : list A) a Y v : set_nth (X ++ a :: Y) (length X) v = X ++ v :: Y.
Proof. induction X; cbn; [reflexivity | f_equal; assumption]. Qed.

Lemma get_set_abs w r :
  a_get (abs w) r = match get_set w r with Ok s => Ok (abs_set (w_store w) s) | Err e => Err e end.
Proof.
  destruct r as [|n]; cbn; [reflexivity|]. rewrite nth_error_map.
  destruct (nth_error (w_sets w) n); reflexivity.
Qed.

Lemma a_all_put a r t : a_all (a_put a r t) = set_nth (a_all a) (sidx r) t.
Proof. destruct r; reflexivity. Qed.

Lemma get_set_split3 w r s :
  get_set w r = Ok s ->
  exists X Y, all_sets w = X ++ s :: Y /\ length X = sidx r
    /\ forall st' s', all_sets (put_set w r st' s') = X ++ s' :: Y.
Proof.
  unfold get_set, all_sets. destruct r as [|n].
  - intros H; inversion H; subst. exists [], (w_sets w). repeat split; reflexivity.
  - destruct (nth_error (w_sets w) n) eqn:E; [|discriminate]. intros H; inversion H; subst.
    destruct (set_nth_split_len (w_sets w) n s E) as (X & Y & E1 & E2 & E3).
    exists (mp_gps (w_map w) :: X), Y. split; [rewrite E1 at 1; reflexivity|]. split; [cbn; congruence|].
    intros st' s'. cbn. rewrite E3. reflexivity.
Qed.

(* the generic in-place update: set r of the world becomes s' (same objects), abstractly t' *)
Lemma abs_update_in_place w r s st' s' t' :
  WorldOk w -> get_set w r = Ok s ->
  ps_params s' = ps_params s ->
  agree_outside (ps_params s) (w_store w) st' ->
  abs_set st' s' = t' ->
  abs (put_set w r st' s') = a_put (abs w) r t'.
Proof.
  intros HW Hg Hp Hag Ht. apply WorldOk_split in HW. destruct HW as (HS & _).
  destruct (get_set_split3 w r s Hg) as (X & Y & E1 & E2 & E3).
  apply aworld_eq.
  - destruct r; reflexivity.
  - destruct r; reflexivity.
  - rewrite a_all_put, !a_all_abs, E3, E1.
    replace (w_store (put_set w r st' s')) with st' by (destruct r; reflexivity).
    rewrite E1 in HS. destruct (others_unchanged (w_store w) st' X s Y HS) as (OX & OY).
    { intros l _ Hl. apply Hag. assumption. }
    rewrite !map_app. cbn [map]. rewrite OX, OY, Ht, <- E2.
    rewrite <- (map_length (abs_set (w_store w)) X). rewrite set_nth_app_len. reflexivity.
Qed.

(* general form: the store may also grow *)
Lemma abs_update w r s st' s' t' :
  WorldOk w -> get_set w r = Ok s ->
  (forall l, (l < length (w_store w))%nat -> ~ In l (ps_params s) -> nth_error st' l = nth_error (w_store w) l) ->
  abs_set st' s' = t' ->
  abs (put_set w r st' s') = a_put (abs w) r t'.
Proof.
  intros HW Hg Hag Ht. apply WorldOk_split in HW. destruct HW as (HS & _).
  destruct (get_set_split3 w r s Hg) as (X & Y & E1 & E2 & E3).
  apply aworld_eq.
  - destruct r; reflexivity.
  - destruct r; reflexivity.
  - rewrite a_all_put, !a_all_abs, E3, E1.
    replace (w_store (put_set w r st' s')) with st' by (destruct r; reflexivity).
    rewrite E1 in HS. destruct (others_unchanged (w_store w) st' X s Y HS Hag) as (OX & OY).
    rewrite !map_app. cbn [map]. rewrite OX, OY, Ht, <- E2.
    rewrite <- (map_length (abs_set (w_store w)) X). rewrite set_nth_app_len. reflexivity.
Qed.

Lemma set_nth_same {A} (l : list A) n x : nth_error l n = Some x -> set_nth l n x = l.
Proof. revert n; induction l as [|a l IH]; intros [|n] H; cbn in *; try discriminate; [inversion H; reflexivity | f_equal; auto]. Qed.

Lemma a_put_same a r t : a_get a r = Ok t -> a_put a r t = a.
Proof.
  destruct a as [src g names sets]. destruct r as [|n]; cbn.
  - intros H; inversion H; reflexivity.
  - destruct (nth_error sets n) eqn:E; [|discriminate]. intros H; inversion H; subst.
    rewrite set_nth_same by assumption. reflexivity.
Qed.

(* a world whose store changed but whose sets are the same objects *)
Lemma abs_same_sets w r s st' :
  get_set w r = Ok s -> abs (mkWorld st' (w_map w) (w_sets w)) = abs (put_set w r st' s).
Proof.
  destruct r as [|n]; cbn.
  - intros H; inversion H; subst. reflexivity.
  - destruct (nth_error (w_sets w) n) eqn:E; [|discriminate]. intros H; inversion H; subst.
    unfold abs; cbn. rewrite set_nth_same by assumption. reflexivity.
Qed.

Lemma world_set_facts w r s :
  WorldOk w -> get_set w r = Ok s ->
  Consistent (w_store w) s (abs_set (w_store w) s) /\ NoDup (ps_params s).
Proof.
  intros HW Hg. apply WorldOk_split in HW. destruct HW as (HS & _).
  destruct (get_set_split w r s Hg) as (X & Y & E1 & _).
  assert (Hin : In s (all_sets w)) by (rewrite E1; apply in_elt).
  destruct (SetsOk_In _ _ _ HS Hin) as (ps & HC). rewrite (abs_set_Consistent _ _ _ HC).
  split; [assumption|]. rewrite E1 in HS. eapply SetsOk_NoDup_set; eauto.
Qed.

Lemma has_name_In t n : has_name t n = true <-> In n (map p_name t).
Proof.
  unfold has_name. rewrite existsb_exists, in_map_iff. split.
  - intros (p & Hp & E). apply Z.eqb_eq in E. eauto.
  - intros (p & E & Hp). exists p. split; [assumption | apply Z.eqb_eq; assumption].
Qed.

(* ------------------------------------------------------------------ one lemma per operation *)
Definition refines (w : world) (o : op) : Prop :=
  abs (fst (step w o)) = fst (s_step (abs w) o) /\ snd (step w o) = snd (s_step (abs w) o).

Lemma refine_fix w r req : WorldOk w -> refines w (OFix r req).
Proof.
  intros HW. unfold refines. cbn [step s_step]. rewrite get_set_abs.
  destruct (get_set w r) as [s|e] eqn:Hg; [|split; reflexivity].
  destruct (world_set_facts w r s HW Hg) as (HC & HND).
  set (ps := abs_set (w_store w) s) in *.
  pose proof (make_params_fixed_ok (w_store w) s ps req HC HND) as H.
  destruct (make_params_fixed (w_store w) s req) as [[st' s'] [e|]]; cbn [fst snd].
  - destruct H as (-> & -> & -> & (p & Hp & Hr & Hf)).
    assert (E : s_fix ps req = Err ValueError).
    { rewrite s_fix_old. replace (existsb _ ps) with true; [reflexivity|]. symmetry. apply existsb_exists.
      exists p. split; [assumption|]. rewrite Hf. destruct (assoc req (p_name p)); [reflexivity | congruence]. }
    rewrite E. cbn [fst snd]. split; [|reflexivity].
    rewrite (abs_update w r s (w_store w) s ps HW Hg) by auto. apply a_put_same. rewrite get_set_abs, Hg. reflexivity.
  - destruct H as (HC' & Hreq & Hp & Hag & Hlen).
    assert (E : s_fix ps req = Ok (map (fix_one req) ps)).
    { rewrite s_fix_old. destruct (existsb _ ps) eqn:Ex; [|reflexivity]. exfalso.
      apply existsb_exists in Ex. destruct Ex as (p & Hpin & Hb). apply andb_true_iff in Hb. destruct Hb as (Hb1 & Hb2).
      assert (p_isfixed p = false) by (apply Hreq; [assumption | destruct (assoc req (p_name p)); [discriminate | discriminate]]).
      congruence. }
    rewrite E. cbn [fst snd]. split; [|reflexivity].
    apply (abs_update w r s st' s' _ HW Hg); [intros l _ Hl; apply Hag; assumption | apply abs_set_Consistent; assumption].
Qed.

Lemma float_row_ok_iff req p : float_row_ok req p = true <-> float_req_ok req p.
Proof.
  unfold float_row_ok, float_req_ok. destruct (assoc req (p_name p)) as [e|].
  - rewrite andb_true_iff. split.
    + intros (H1 & H2) e' He'. inversion He'; subst e'. split; [assumption|].
      destruct (floating_settings _ _ _ _) as [t|]; [eauto | discriminate].
    + intros H. destruct (H e eq_refl) as (H1 & t & Ht). rewrite Ht. auto.
  - split; [intros _ e He; discriminate | reflexivity].
Qed.

Lemma refine_float w r req : WorldOk w -> refines w (OFloat r req).
Proof.
  intros HW. unfold refines. cbn [step s_step]. rewrite get_set_abs.
  destruct (get_set w r) as [s|e] eqn:Hg; [|split; reflexivity].
  destruct (world_set_facts w r s HW Hg) as (HC & HND).
  set (ps := abs_set (w_store w) s) in *.
  pose proof (make_params_floating_ok (w_store w) s ps req HC HND) as H.
  destruct (make_params_floating (w_store w) s req) as [[st' s'] [e|]]; cbn [fst snd].
  - destruct H as (-> & -> & -> & (p & Hp & Hr)).
    assert (E : s_float ps req = Err ValueError).
    { rewrite s_float_old. destruct (forallb (float_row_ok req) ps) eqn:Ex; [|reflexivity]. exfalso.
      rewrite forallb_forall in Ex. apply Hr. apply float_row_ok_iff. auto. }
    rewrite E. cbn [fst snd]. split; [|reflexivity].
    rewrite (abs_update w r s (w_store w) s ps HW Hg) by auto. apply a_put_same. rewrite get_set_abs, Hg. reflexivity.
  - destruct H as (HC' & Hreq & Hp & Hag & Hlen).
    assert (E : s_float ps req = Ok (map (float_one req) ps)).
    { rewrite s_float_old. replace (forallb (float_row_ok req) ps) with true; [reflexivity|]. symmetry.
      apply forallb_forall. intros p Hpin. apply float_row_ok_iff. auto. }
    rewrite E. cbn [fst snd]. split; [|reflexivity].
    apply (abs_update w r s st' s' _ HW Hg); [intros l _ Hl; apply Hag; assumption | apply abs_set_Consistent; assumption].
Qed.

Lemma refine_newset w : WorldOk w -> refines w ONewSet.
Proof. intros _. unfold refines, abs. cbn. rewrite map_app. cbn. split; reflexivity. Qed.

Lemma abs_all_extend st ext all :
  SetsOk st all -> map (abs_set (st ++ ext)) all = map (abs_set st) all.
Proof.
  intros (HF & _). apply map_ext_in. intros t Ht. rewrite Forall_forall in HF. destruct (HF t Ht) as (pt & Hpt).
  apply abs_set_frame. intros l Hl. apply nth_error_app1. eapply Consistent_lt; eauto.
Qed.

Lemma abs_append w ext s' t' :
  WorldOk w -> abs_set (w_store w ++ ext) s' = t' ->
  abs (mkWorld (w_store w ++ ext) (w_map w) (w_sets w ++ [s'])) =
  mkAW (a_src (abs w)) (a_g (abs w)) (a_names (abs w)) (a_sets (abs w) ++ [t']).
Proof.
  intros HW Ht. apply WorldOk_split in HW. destruct HW as (HS & _).
  pose proof (abs_all_extend _ ext _ HS) as E. unfold all_sets in E. cbn [map] in E. inversion E as [[E1 E2]].
  unfold abs. cbn [w_store w_map w_sets a_src a_g a_names a_sets]. rewrite map_app. cbn [map]. rewrite E1, E2, Ht. reflexivity.
Qed.

Lemma refine_copy w r : WorldOk w -> refines w (OCopy r).
Proof.
  intros HW. unfold refines. cbn [step s_step]. rewrite get_set_abs.
  destruct (get_set w r) as [s|e] eqn:Hg; [|split; reflexivity].
  destruct (world_set_facts w r s HW Hg) as (HC & _).
  destruct (copy_set_ok _ _ _ HC) as (s' & E & Hp & HC'). rewrite E. cbn [fst snd]. split; [|reflexivity].
  apply abs_append; [assumption | apply abs_set_Consistent; assumption].
Qed.

Lemma mapM_get_abs w : forall rs,
  mapM (a_get (abs w)) rs =
  match mapM (get_set w) rs with Ok srcs => Ok (map (abs_set (w_store w)) srcs) | Err e => Err e end.
Proof.
  induction rs as [|r rs IH]; [reflexivity|]. cbn [mapM]. rewrite get_set_abs.
  destruct (get_set w r); cbn [bind]; [|reflexivity]. rewrite IH. destruct (mapM (get_set w) rs); reflexivity.
Qed.

Lemma refine_union w rs : WorldOk w -> refines w (OUnion rs).
Proof.
  intros HW. unfold refines. cbn [step s_step]. rewrite mapM_get_abs.
  destruct (mapM (get_set w) rs) as [srcs|e] eqn:Hm; [|split; reflexivity].
  pose proof HW as HW'. apply WorldOk_split in HW'. destruct HW' as (HS & _).
  assert (HF : Forall (fun s => Consistent (w_store w) s (abs_set (w_store w) s)) srcs).
  { pose proof (mapM_get_sets w rs srcs Hm) as H. rewrite Forall_forall in *. intros s Hs.
    destruct (SetsOk_In _ _ _ HS (H s Hs)) as (ps & HC). rewrite (abs_set_Consistent _ _ _ HC). assumption. }
  assert (HR : Forall2 (readable (w_store w)) srcs (map (abs_set (w_store w)) srcs)).
  { clear - HF. induction HF; cbn; constructor; auto using Consistent_readable. }
  pose proof (union_ok (w_store w) srcs _ HR) as HU.
  destruct srcs as [|x srcs']; [rewrite HU; cbn; split; reflexivity|].
  destruct HU as (new & s' & E & Hp & HC' & Hnew).
  { cbn. inversion HF as [|? ? Hx _]; subst. destruct Hx as (_ & HN & _). exact HN. }
  rewrite E. cbn [fst snd map s_union]. cbn [map hd tl] in Hnew. rewrite <- Hnew. split; [|reflexivity].
  apply abs_append; [assumption | apply abs_set_Consistent; assumption].
Qed.

Lemma refine_add w n front d : WorldOk w -> refines w (OAdd n front d).
Proof.
  intros HW. unfold refines. cbn [step s_step].
  assert (En : nth_error (a_sets (abs w)) n = option_map (abs_set (w_store w)) (nth_error (w_sets w) n))
    by (unfold abs; cbn [a_sets]; apply nth_error_map).
  rewrite En. rewrite s_param_new_eq.
  destruct (nth_error (w_sets w) n) as [s|] eqn:Hn; cbn [option_map]; [|split; reflexivity].
  destruct (param_new d) as [p|e] eqn:Hd; [|split; reflexivity].
  assert (Hg : get_set w (St n) = Ok s) by (cbn; rewrite Hn; reflexivity).
  destruct (world_set_facts w (St n) s HW Hg) as (HC & HND).
  set (ps := abs_set (w_store w) s) in *.
  pose proof (add_param_ok (w_store w) s ps (length (w_store w)) p front HC (param_new_ok _ _ Hd) eq_refl) as HA.
  unfold s_add. destruct (add_param s (length (w_store w)) p front) as [s'|e]; cbn [fst snd].
  - destruct HA as (Hnot & Hp & HC').
    assert (E : has_name ps (p_name p) = false).
    { destruct (has_name ps (p_name p)) eqn:E; [apply has_name_In in E; contradiction | reflexivity]. }
    rewrite E. cbn [fst snd]. split; [|reflexivity].
    change (mkWorld (w_store w ++ [p]) (w_map w) (set_nth (w_sets w) n s'))
      with (put_set w (St n) (w_store w ++ [p]) s').
    apply (abs_update w (St n) s _ s' _ HW Hg); [intros l Hl _; apply nth_error_app1; assumption|].
    apply abs_set_Consistent. assumption.
  - destruct HA as (-> & Hin). apply has_name_In in Hin. rewrite Hin. split; reflexivity.
Qed.

Lemma map_param_factor m l p models al :
  map_param m l p models al =
  do rows <- map_rows (length (mp_src m)) (mp_names m) (p_name p) models al;
  do g <- add_param (mp_gps m) l p false; Ok (mkMapper (mp_src m) g rows).
Proof.
  unfold map_param, map_rows.
  destruct (Nat.eqb (length match models with Some ms => ms | None => arange (length (mp_src m)) end) 0); [reflexivity|].
  destruct (dup_check _ _ _); cbn [bind]; [|reflexivity].
  destruct (where_entry _ _); cbn [bind]; [|reflexivity].
  destruct (Nat.eqb (length (mp_names m)) (length l0)); reflexivity.
Qed.

(* the independent reading of map_param's column is what the numpy plumbing computes *)
Lemma dup_scan_eq rows names applied : forall cnt k,
  dup_check rows names
    (mask_select (map Z.of_nat (seq k cnt)) (map (fun midx => mem midx applied) (map Z.of_nat (seq k cnt))))
  = s_dup_scan rows names applied k cnt.
Proof.
  induction cnt as [|cnt IH]; intros k; [reflexivity|].
  cbn [seq map mask_select s_dup_scan]. destruct (mem (Z.of_nat k) applied); [|apply IH].
  cbn [dup_check]. rewrite !py_get_nat. destruct (nth_error rows k) as [row|]; cbn [bind]; [|reflexivity].
  destruct (nth_error names k) as [a|]; cbn [bind]; [|reflexivity].
  destruct (mem a (somes row)); [reflexivity | apply IH].
Qed.

Lemma combine_map_l {A B C} (f : A -> B) : forall (l : list A) (r : list C),
  combine (map f l) r = map (fun xy => (f (fst xy), snd xy)) (combine l r).
Proof. induction l as [|a l IH]; intros [|c r]; cbn; try reflexivity. f_equal. apply IH. Qed.

Lemma column_eq n names applied :
  where_entry (map (fun midx => mem midx applied) (arange n)) names = s_column n names applied.
Proof.
  unfold where_entry, s_column, arange. rewrite !map_length, seq_length.
  destruct (Nat.eqb (length names) n).
  - f_equal. rewrite map_map, combine_map_l, map_map. reflexivity.
  - destruct names as [|a [|? ?]]; try reflexivity. rewrite !map_map. reflexivity.
Qed.

Lemma s_map_rows_eq n rows pname models al : s_map_rows n rows pname models al = map_rows n rows pname models al.
Proof.
  unfold s_map_rows, map_rows. fold (arange n).
  set (applied := match models with Some ms => ms | None => arange n end).
  destruct applied as [|x xs] eqn:Ea; [reflexivity|]. cbn [length Nat.eqb]. rewrite <- Ea.
  assert (Ed : dup_check rows (match al with ANone => repeat pname n | AStr a => repeat a n | ASeq ls => ls end)
                 (mask_select (arange n) (map (fun midx => mem midx applied) (arange n)))
               = s_dup_scan rows (match al with ANone => repeat pname n | AStr a => repeat a n | ASeq ls => ls end) applied 0 n)
    by (unfold arange; apply dup_scan_eq).
  rewrite Ed. destruct (s_dup_scan _ _ _ _ _); cbn [bind]; [|reflexivity].
  rewrite column_eq. reflexivity.
Qed.

Lemma refine_map w d models al : WorldOk w -> refines w (OMap d models al).
Proof.
  intros HW. unfold refines. cbn [step s_step]. rewrite s_param_new_eq.
  destruct (param_new d) as [p|e] eqn:Hd; [|split; reflexivity].
  rewrite s_map_rows_eq. rewrite map_param_factor.
  change (a_src (abs w)) with (mp_src (w_map w)). change (a_names (abs w)) with (mp_names (w_map w)).
  change (a_g (abs w)) with (abs_set (w_store w) (mp_gps (w_map w))). change (a_sets (abs w)) with (map (abs_set (w_store w)) (w_sets w)).
  destruct (map_rows (length (mp_src (w_map w))) (mp_names (w_map w)) (p_name p) models al) as [rows|e];
    cbn [bind]; [|split; reflexivity].
  assert (Hg : get_set w GP = Ok (mp_gps (w_map w))) by reflexivity.
  destruct (world_set_facts w GP _ HW Hg) as (HC & HND).
  set (ps := abs_set (w_store w) (mp_gps (w_map w))) in *.
  pose proof (add_param_ok (w_store w) _ ps (length (w_store w)) p false HC (param_new_ok _ _ Hd) eq_refl) as HA.
  unfold s_add. destruct (add_param (mp_gps (w_map w)) (length (w_store w)) p false) as [g|e]; cbn [bind fst snd].
  - destruct HA as (Hnot & Hp & HC').
    assert (E : has_name ps (p_name p) = false).
    { destruct (has_name ps (p_name p)) eqn:E; [apply has_name_In in E; contradiction | reflexivity]. }
    rewrite E. cbn [fst snd]. split; [|reflexivity].
    pose proof (abs_update w GP _ (w_store w ++ [p]) g _ HW Hg
                  (fun l Hl _ => nth_error_app1 _ [p] Hl) (abs_set_Consistent _ _ _ HC')) as HU.
    unfold abs in *. cbn in *. inversion HU as [[H1 H2]]. rewrite H1, H2. reflexivity.
  - destruct HA as (-> & Hin). apply has_name_In in Hin. rewrite Hin. split; reflexivity.
Qed.

(* --- the value setter *)
Lemma py_index {A} (l : list A) k x :
  py_get l k = Ok x ->
  exists j, nth_error l j = Some x
    /\ forall (B : Type) (l2 : list B), length l2 = length l ->
         py_get l2 k = match nth_error l2 j with Some y => Ok y | None => Err IndexError end
         /\ forall v, py_set l2 k v = Ok (set_nth l2 j v).
Proof.
  unfold py_get, py_set, zlen. set (j := if k <? 0 then k + Z.of_nat (length l) else k).
  destruct ((j <? 0) || (Z.of_nat (length l) <=? j)) eqn:E; [discriminate|].
  destruct (nth_error l (Z.to_nat j)) eqn:En; [|discriminate]. intros H; inversion H; subst.
  exists (Z.to_nat j). split; [assumption|]. intros B l2 Hl. rewrite Hl. fold j. rewrite E. split; reflexivity.
Qed.

Lemma py_get_err {A B} (l : list A) (l2 : list B) k e :
  length l2 = length l -> py_get l k = Err e -> py_get l2 k = Err e.
Proof.
  intros Hl. unfold py_get, zlen. rewrite Hl. set (j := if k <? 0 then k + Z.of_nat (length l) else k).
  destruct ((j <? 0) || (Z.of_nat (length l) <=? j)) eqn:E; [intros H; inversion H; reflexivity|].
  apply orb_false_iff in E. destruct E as (E1 & E2). apply Z.ltb_ge in E1. apply Z.leb_gt in E2.
  destruct (nth_error l (Z.to_nat j)) eqn:En; [discriminate|]. apply nth_error_None in En. lia.
Qed.

Lemma mapM_nth {A B} (f : A -> res B) : forall l r j a,
  mapM f l = Ok r -> nth_error l j = Some a -> exists b, nth_error r j = Some b /\ f a = Ok b.
Proof.
  induction l as [|x l IH]; intros r j a H Hn; [destruct j; discriminate|].
  apply mapM_cons_Ok in H. destruct H as (b & r' & Hb & Hr & ->). destruct j; cbn in *.
  - inversion Hn; subst. eauto.
  - eapply IH; eauto.
Qed.

Lemma mapM_wr_nodup st l p' : forall locs ps j,
  mapM (rd st) locs = Ok ps -> NoDup locs -> nth_error locs j = Some l ->
  mapM (rd (wr st l p')) locs = Ok (set_nth ps j p').
Proof.
  induction locs as [|a r IH]; intros ps j HM HN Hj; [destruct j; discriminate|].
  apply mapM_cons_Ok in HM. destruct HM as (q & qs & Hq & HM & ->). inversion HN as [|? ? Hna HNr]; subst.
  destruct j; cbn in Hj.
  - inversion Hj; subst a. cbn [mapM set_nth]. rewrite (rd_wr_same st l p' q Hq). cbn [bind].
    replace (mapM (rd (wr st l p')) r) with (mapM (rd st) r); [rewrite HM; reflexivity|].
    apply mapM_ext. intros x Hx. symmetry. apply rd_wr_other. intro; subst; tauto.
  - cbn [mapM set_nth]. assert (a <> l) by (intro; subst; apply Hna; eapply nth_error_In; eauto).
    rewrite (rd_wr_other st l a p') by assumption. rewrite Hq. cbn [bind]. rewrite (IH qs j HM HNr Hj). reflexivity.
Qed.

Lemma refine_setvalue w r k v : WorldOk w -> refines w (OSetValue r k v).
Proof.
  intros HW. unfold refines. cbn [step s_step]. rewrite get_set_abs.
  destruct (get_set w r) as [s|e] eqn:Hg; [|split; reflexivity].
  destruct (world_set_facts w r s HW Hg) as (HC & HND).
  set (ps := abs_set (w_store w) s) in *.
  pose proof (Consistent_elim _ _ _ HC) as (HM & HNn & HF & HK & HCa).
  assert (Hlen : length ps = length (ps_params s)) by (eapply mapM_Ok_length; eauto).
  rewrite s_setv_old.
  destruct (py_get (ps_params s) k) as [l|e] eqn:Hk.
  - destruct (py_index _ _ _ Hk) as (j & Hj & Hpar). destruct (Hpar _ ps Hlen) as (Hget & Hset).
    destruct (mapM_nth _ _ _ _ _ HM Hj) as (p & Hpj & Hrd). rewrite Hget, Hpj, Hrd. cbn [bind].
    destruct (set_value p v) as [p'|e] eqn:Hv; cbn [bind fst snd]; [|split; reflexivity].
    rewrite Hset. cbn [fst snd]. split; [|reflexivity].
    rewrite (abs_same_sets w r s _ Hg).
    apply (abs_update w r s _ s _ HW Hg).
    + intros a _ Ha. unfold wr. rewrite nth_error_set_nth.
      destruct (Nat.eqb a l) eqn:E; [apply Nat.eqb_eq in E; subst; exfalso; apply Ha; eapply nth_error_In; eauto | reflexivity].
    + apply abs_set_Consistent.
      pose proof (mapM_wr_nodup (w_store w) l p' _ _ _ HM HND Hj) as HM'.
      assert (Hin : In p ps) by (eapply nth_error_In; eauto).
      destruct (set_value_ok _ _ _ _ _ _ _ HC Hrd Hin Hv) as (ps' & HC' & _).
      destruct HC' as (HM2 & _). rewrite HM' in HM2. inversion HM2; subst ps'.
      destruct (set_value_ok _ _ _ _ _ _ _ HC Hrd Hin Hv) as (ps'' & HC'' & _).
      destruct HC'' as (HM3 & Rest). rewrite HM' in HM3. inversion HM3; subst ps''. split; assumption.
  - rewrite (py_get_err _ ps k e Hlen Hk). cbn [bind fst snd]. split; reflexivity.
Qed.

Theorem refinement_step w o : WorldOk w -> refines w o.
Proof.
  destruct o.
  - apply refine_newset.
  - apply refine_add.
  - apply refine_map.
  - apply refine_fix.
  - apply refine_float.
  - apply refine_union.
  - apply refine_copy.
  - apply refine_setvalue.
Qed.

Lemma abs_init src : abs (init src) = s_init src.
Proof. reflexivity. Qed.

(* the top-level statement: for every operation sequence the abstraction of every intermediate and of
   the final world is the specification interpreter run on the same sequence, and the same exceptions
   are raised on the way *)
Theorem refinement_run : forall ops w,
  WorldOk w ->
  abs (run w ops) = s_run (abs w) ops
  /\ map (fun we => (abs (fst we), snd we)) (trace w ops) = s_trace (abs w) ops.
Proof.
  induction ops as [|o ops IH]; intros w HW; [split; reflexivity|].
  destruct (refinement_step w o HW) as (R1 & R2).
  destruct (IH (fst (step w o)) (step_ok w o HW)) as (I1 & I2).
  unfold run, s_run in *. cbn [fold_left trace s_trace map]. rewrite <- R1. split; [exact I1|].
  rewrite I2. f_equal. rewrite R1. rewrite R2. destruct (s_step (abs w) o); reflexivity.
Qed.

Theorem refinement_reachable src ops :
  abs (run (init src) ops) = s_run (s_init src) ops
  /\ map (fun we => (abs (fst we), snd we)) (trace (init src) ops) = s_trace (s_init src) ops.
Proof. apply (refinement_run ops (init src) (init_ok src)). Qed.
