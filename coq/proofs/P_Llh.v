From Coq Require Import Reals ZArith List Bool Lra Lia Permutation.
From Sky Require Import Num NumR G_llh M_Llh S_Llh.
Import ListNotations.
Open Scope R_scope.

Section P.
  Variable erfR : R -> R.
  Notation Nm := (RNum erfR).

  (* ---------------------------------------------------------------- *)
  (* characterising lemmas of the regenerated kernels (real reading)   *)

  Lemma K_alpha opa : k_alpha Nm opa = opa - 1.
  Proof. unfold k_alpha. num_R. reflexivity. Qed.
  Lemma K_alpha_i ns x : k_alpha_i Nm ns x = ns * x.
  Proof. reflexivity. Qed.
  Lemma K_m_stable ai a : k_m_stable Nm ai a = Rltb a ai.
  Proof. reflexivity. Qed.
  Lemma K_loglam_stable ai : k_loglam_stable Nm ai = ln (1 + ai).
  Proof. reflexivity. Qed.
  Lemma K_tildealpha ai a opa : k_tildealpha Nm ai a opa = (ai - a) / opa.
  Proof. reflexivity. Qed.
  Lemma K_loglam_unstable a ta :
    k_loglam_unstable Nm a ta = ln (1 + a) + ta - / 2 * ta * ta.
  Proof. unfold k_loglam_unstable. num_R. unfold Rdiv. lra. Qed.
  Lemma K_log_lambda N N' ns s :
    k_log_lambda Nm N N' ns s = s + (N - N') * ln (1 + - ns / N).
  Proof. reflexivity. Qed.
  Lemma K_inv_opai ai : k_inv_opai Nm ai = 1 / (1 + ai).
  Proof. unfold k_inv_opai. num_R. reflexivity. Qed.
  Lemma K_nsgrad_stable x inv : k_nsgrad_stable Nm x inv = x * inv.
  Proof. reflexivity. Qed.
  Lemma K_nsgrad_unstable ta x opa : k_nsgrad_unstable Nm ta x opa = (1 - ta) * x / opa.
  Proof. unfold k_nsgrad_unstable. num_R. reflexivity. Qed.
  Lemma K_grad_ns N N' ns s : k_grad_ns Nm N N' ns s = s - (N - N') / (N - ns).
  Proof. reflexivity. Qed.
  Lemma K_gradp_stable ns inv dx : k_gradp_stable Nm ns inv dx = ns * inv * dx.
  Proof. reflexivity. Qed.
  Lemma K_gradp_unstable ns ta dx opa :
    k_gradp_unstable Nm ns ta dx opa = ns * (1 - ta) * dx / opa.
  Proof. unfold k_gradp_unstable. num_R. reflexivity. Qed.
  Lemma K_nsgrad2 N N' ns s :
    k_nsgrad2 Nm N N' ns s = - s - (N - N') / ((N - ns) * (N - ns)).
  Proof. reflexivity. Qed.
  Lemma K_nsgrad2_term g : k_nsgrad2_term Nm g = g * g.
  Proof. reflexivity. Qed.
  Lemma K_N_total N' nb : k_N_total Nm N' nb = N' + nb.
  Proof. reflexivity. Qed.
  Lemma K_Xi r N : k_Xi Nm r N = (r - 1) / N.
  Proof. unfold k_Xi. num_R. reflexivity. Qed.
  Lemma K_dXi d N : k_dXi Nm d N = d / N.
  Proof. reflexivity. Qed.
  Lemma K_nsf ns f : k_nsf Nm ns f = ns * f.
  Proof. reflexivity. Qed.
  Lemma K_multi_grad_ns acc g f : k_multi_grad_ns Nm acc g f = acc + g * f.
  Proof. reflexivity. Qed.
  Lemma K_multi_ns_summand g ns df : k_multi_ns_summand Nm g ns df = g * ns * df.
  Proof. reflexivity. Qed.
  Lemma K_multi_grad_p acc s g : k_multi_grad_p Nm acc s g = acc + (s + g).
  Proof. reflexivity. Qed.
  Lemma K_multi_nsgrad2_term g f : k_multi_nsgrad2_term Nm g f = g * (f * f).
  Proof. reflexivity. Qed.
  Lemma K_a_jk w y : k_a_jk Nm w y = w * y.
  Proof. reflexivity. Qed.
  Lemma K_a_jk_grad w y : k_a_jk_grad Nm w y = w * y.
  Proof. reflexivity. Qed.
  Lemma K_f_j aj a : k_f_j Nm aj a = aj / a.
  Proof. reflexivity. Qed.
  Lemma K_f_j_grad daj a aj da : k_f_j_grad Nm daj a aj da = (daj * a - aj * da) / (a * a).
  Proof. reflexivity. Qed.
  Lemma K_prod_ratio r1 r2 : k_prod_ratio Nm r1 r2 = r1 * r2.
  Proof. reflexivity. Qed.
  Lemma K_prod_grad_both r1 r2 d1 d2 :
    k_prod_grad_both_b Nm (k_prod_grad_both_a Nm r1 d2) d1 r2 = r1 * d2 + d1 * r2.
  Proof. reflexivity. Qed.
  Lemma K_prod_grad_r1 d1 r2 : k_prod_grad_r1 Nm d1 r2 = d1 * r2.
  Proof. reflexivity. Qed.
  Lemma K_prod_grad_r2 r1 d2 : k_prod_grad_r2 Nm r1 d2 = r1 * d2.
  Proof. reflexivity. Qed.
  Lemma K_sob_mask b : k_sob_mask Nm b = Rltb 0 b.
  Proof. unfold k_sob_mask. num_R. reflexivity. Qed.
  Lemma K_sob_ratio s b : k_sob_ratio Nm s b = s / b.
  Proof. reflexivity. Qed.
  Lemma K_sob_grad_sig ds b : k_sob_grad_sig Nm ds b = ds / b.
  Proof. reflexivity. Qed.
  Lemma K_sob_grad_both ds b db s : k_sob_grad_both Nm ds b db s = (ds * b - db * s) / (b * b).
  Proof. reflexivity. Qed.
  Lemma K_sob_grad_bkg s b db : k_sob_grad_bkg Nm s b db = - s / (b * b) * db.
  Proof. reflexivity. Qed.
  Lemma K_sw_term acc r ak : k_sw_term Nm acc r ak = acc + r * ak.
  Proof. reflexivity. Qed.
  Lemma K_sw_norm r A : k_sw_norm Nm r A = r / A.
  Proof. reflexivity. Qed.
  Lemma K_sw_grad_init Ri dA : k_sw_grad_init Nm Ri dA = - Ri * dA.
  Proof. reflexivity. Qed.
  Lemma K_sw_grad_term_a acc dak r : k_sw_grad_term_a Nm acc dak r = acc + dak * r.
  Proof. reflexivity. Qed.
  Lemma K_sw_grad_term_b acc ak dr : k_sw_grad_term_b Nm acc ak dr = acc + ak * dr.
  Proof. reflexivity. Qed.
  Lemma K_sw_grad_add g s : k_sw_grad_add Nm g s = g + s.
  Proof. reflexivity. Qed.
  Lemma K_sw_grad_norm g A : k_sw_grad_norm Nm g A = g / A.
  Proof. reflexivity. Qed.
End P.
