From Coq Require Import Reals ZArith List Bool Lra Lia Permutation.
From Sky Require Import Num NumR G_llh M_Llh S_Llh.
Import ListNotations.
Open Scope R_scope.

(* closes a characterising lemma after the kernel has been unfolded: robust
   against algebraically equivalent rewrites of the source expression *)
Ltac k_fin :=
  num_R;
  first
    [ reflexivity
    | lra
    | (unfold Rdiv; ring)
    | (field; fail)
    | (repeat f_equal; first [lra | (unfold Rdiv; ring)])
    | (unfold Rltb, Rleb, Reqb;
       repeat (match goal with
               | |- context [Rlt_dec ?a ?b] => destruct (Rlt_dec a b)
               | |- context [Rle_dec ?a ?b] => destruct (Rle_dec a b)
               | |- context [Req_EM_T ?a ?b] => destruct (Req_EM_T a b)
               end);
       cbn [negb andb orb]; first [reflexivity | (exfalso; lra)]) ].

Section P.
  Variable erfR : R -> R.
  Notation Nm := (RNum erfR).

  (* ---------------------------------------------------------------- *)
  (* characterising lemmas of the regenerated kernels (real reading)   *)

  Lemma K_alpha opa : k_alpha Nm opa = opa - 1.
  Proof. unfold k_alpha. k_fin. Qed.
  Lemma K_alpha_i ns x : k_alpha_i Nm ns x = ns * x.
  Proof. unfold k_alpha_i. k_fin. Qed.
  Lemma K_m_stable ai a : k_m_stable Nm ai a = Rltb a ai.
  Proof. unfold k_m_stable. k_fin. Qed.
  Lemma K_loglam_stable ai : k_loglam_stable Nm ai = ln (1 + ai).
  Proof. unfold k_loglam_stable. k_fin. Qed.
  Lemma K_tildealpha ai a opa : k_tildealpha Nm ai a opa = (ai - a) / opa.
  Proof. unfold k_tildealpha. k_fin. Qed.
  Lemma K_loglam_unstable a ta :
    k_loglam_unstable Nm a ta = ln (1 + a) + ta - / 2 * ta * ta.
  Proof. unfold k_loglam_unstable. k_fin. Qed.
  Lemma K_log_lambda N N' ns s :
    k_log_lambda Nm N N' ns s = s + (N - N') * ln (1 + - ns / N).
  Proof. unfold k_log_lambda. k_fin. Qed.
  Lemma K_inv_opai ai : k_inv_opai Nm ai = 1 / (1 + ai).
  Proof. unfold k_inv_opai. k_fin. Qed.
  Lemma K_nsgrad_stable x inv : k_nsgrad_stable Nm x inv = x * inv.
  Proof. unfold k_nsgrad_stable. k_fin. Qed.
  Lemma K_nsgrad_unstable ta x opa : k_nsgrad_unstable Nm ta x opa = (1 - ta) * x / opa.
  Proof. unfold k_nsgrad_unstable. k_fin. Qed.
  Lemma K_grad_ns N N' ns s : k_grad_ns Nm N N' ns s = s - (N - N') / (N - ns).
  Proof. unfold k_grad_ns. k_fin. Qed.
  Lemma K_gradp_stable ns inv dx : k_gradp_stable Nm ns inv dx = ns * inv * dx.
  Proof. unfold k_gradp_stable. k_fin. Qed.
  Lemma K_gradp_unstable ns ta dx opa :
    k_gradp_unstable Nm ns ta dx opa = ns * (1 - ta) * dx / opa.
  Proof. unfold k_gradp_unstable. k_fin. Qed.
  Lemma K_nsgrad2 N N' ns s :
    k_nsgrad2 Nm N N' ns s = - s - (N - N') / ((N - ns) * (N - ns)).
  Proof. unfold k_nsgrad2. k_fin. Qed.
  Lemma K_nsgrad2_term g : k_nsgrad2_term Nm g = g * g.
  Proof. unfold k_nsgrad2_term. k_fin. Qed.
  Lemma K_N_total N' nb : k_N_total Nm N' nb = N' + nb.
  Proof. unfold k_N_total. k_fin. Qed.
  Lemma K_Xi r N : k_Xi Nm r N = (r - 1) / N.
  Proof. unfold k_Xi. k_fin. Qed.
  Lemma K_dXi d N : k_dXi Nm d N = d / N.
  Proof. unfold k_dXi. k_fin. Qed.
  Lemma K_nsf ns f : k_nsf Nm ns f = ns * f.
  Proof. unfold k_nsf. k_fin. Qed.
  Lemma K_multi_grad_ns acc g f : k_multi_grad_ns Nm acc g f = acc + g * f.
  Proof. unfold k_multi_grad_ns. k_fin. Qed.
  Lemma K_multi_ns_summand g ns df : k_multi_ns_summand Nm g ns df = g * ns * df.
  Proof. unfold k_multi_ns_summand. k_fin. Qed.
  Lemma K_multi_grad_p acc s g : k_multi_grad_p Nm acc s g = acc + (s + g).
  Proof. unfold k_multi_grad_p. k_fin. Qed.
  Lemma K_multi_nsgrad2_term g f : k_multi_nsgrad2_term Nm g f = g * (f * f).
  Proof. unfold k_multi_nsgrad2_term. k_fin. Qed.
  Lemma K_a_jk w y : k_a_jk Nm w y = w * y.
  Proof. unfold k_a_jk. k_fin. Qed.
  Lemma K_a_jk_grad w y : k_a_jk_grad Nm w y = w * y.
  Proof. unfold k_a_jk_grad. k_fin. Qed.
  Lemma K_f_j aj a : k_f_j Nm aj a = aj / a.
  Proof. unfold k_f_j. k_fin. Qed.
  Lemma K_f_j_grad daj a aj da : k_f_j_grad Nm daj a aj da = (daj * a - aj * da) / (a * a).
  Proof. unfold k_f_j_grad. k_fin. Qed.
  Lemma K_prod_ratio r1 r2 : k_prod_ratio Nm r1 r2 = r1 * r2.
  Proof. unfold k_prod_ratio. k_fin. Qed.
  Lemma K_prod_grad_both r1 r2 d1 d2 :
    k_prod_grad_both_b Nm (k_prod_grad_both_a Nm r1 d2) d1 r2 = r1 * d2 + d1 * r2.
  Proof. unfold k_prod_grad_both_b, k_prod_grad_both_a. k_fin. Qed.
  Lemma K_prod_grad_r1 d1 r2 : k_prod_grad_r1 Nm d1 r2 = d1 * r2.
  Proof. unfold k_prod_grad_r1. k_fin. Qed.
  Lemma K_prod_grad_r2 r1 d2 : k_prod_grad_r2 Nm r1 d2 = r1 * d2.
  Proof. unfold k_prod_grad_r2. k_fin. Qed.
  Lemma K_sob_mask b : k_sob_mask Nm b = Rltb 0 b.
  Proof. unfold k_sob_mask. k_fin. Qed.
  Lemma K_sob_ratio s b : k_sob_ratio Nm s b = s / b.
  Proof. unfold k_sob_ratio. k_fin. Qed.
  Lemma K_sob_grad_sig ds b : k_sob_grad_sig Nm ds b = ds / b.
  Proof. unfold k_sob_grad_sig. k_fin. Qed.
  Lemma K_sob_grad_both ds b db s : k_sob_grad_both Nm ds b db s = (ds * b - db * s) / (b * b).
  Proof. unfold k_sob_grad_both. k_fin. Qed.
  Lemma K_sob_grad_bkg s b db : k_sob_grad_bkg Nm s b db = - s / (b * b) * db.
  Proof. unfold k_sob_grad_bkg. k_fin. Qed.
  Lemma K_sw_term acc r ak : k_sw_term Nm acc r ak = acc + r * ak.
  Proof. unfold k_sw_term. k_fin. Qed.
  Lemma K_sw_norm r A : k_sw_norm Nm r A = r / A.
  Proof. unfold k_sw_norm. k_fin. Qed.
  Lemma K_sw_grad_init Ri dA : k_sw_grad_init Nm Ri dA = - Ri * dA.
  Proof. unfold k_sw_grad_init. k_fin. Qed.
  Lemma K_sw_grad_term_a acc dak r : k_sw_grad_term_a Nm acc dak r = acc + dak * r.
  Proof. unfold k_sw_grad_term_a. k_fin. Qed.
  Lemma K_sw_grad_term_b acc ak dr : k_sw_grad_term_b Nm acc ak dr = acc + ak * dr.
  Proof. unfold k_sw_grad_term_b. k_fin. Qed.
  Lemma K_sw_grad_add g s : k_sw_grad_add Nm g s = g + s.
  Proof. unfold k_sw_grad_add. k_fin. Qed.
  Lemma K_sw_grad_norm g A : k_sw_grad_norm Nm g A = g / A.
  Proof. unfold k_sw_grad_norm. k_fin. Qed.
End P.
