(* C16 — refinement: the column-wise operations are the plain-table operations on rows. *)
From Coq Require Import ZArith List Bool Lia Arith.
From Sky Require Import Result PyList G_table M_Table S_Table P_TableBase P_TableOps P_TableOps2 P_TableOps3 P_TableCtor P_Table.
Import ListNotations.
Open Scope Z_scope.

Lemma gather_nth : forall d ps vs, gather d ps = Some vs ->
  forall i, (i < length ps)%nat -> nth i vs 0 = nth (nth i ps 0%nat) d 0 /\ (nth i ps 0%nat < length d)%nat.
Proof.
  induction ps as [|p r IH]; intros vs H i Hi; cbn in *; [lia|].
  destruct (nth_error d p) as [v|] eqn:N; [|discriminate]. destruct (gather d r) as [vs'|] eqn:G; [|discriminate].
  inversion H; subst. destruct i as [|i]; cbn.
  - split; [symmetry; apply nth_error_nth; assumption | apply nth_error_Some; congruence].
  - apply IH; [reflexivity | lia].
Qed.

Lemma nth_rows : forall E names len p, (p < len)%nat -> nth p (trows (abs E names len)) [] = row E names p.
Proof.
  intros E names len p H; cbn [abs trows].
  rewrite (nth_indep _ [] (row E names 0)) by (rewrite map_length, seq_length; assumption).
  rewrite (map_nth (row E names) (seq 0 len) 0%nat p). rewrite seq_nth by assumption. reflexivity.
Qed.

(* one position list applied to every column = the rows are taken as a whole *)
Lemma take_refines : forall E E' names len ps,
  (forall n, In n names -> length (bdata (E n)) = len /\ gather (bdata (E n)) ps = Some (bdata (E' n))) ->
  names <> [] ->
  abs E' names (length ps) = t_take (abs E names len) ps.
Proof.
  intros E E' names len ps H Hne; unfold abs, t_take; cbn [tnames trows]. f_equal.
  assert (Hps : forall i, (i < length ps)%nat -> (nth i ps 0%nat < len)%nat).
  { intros i Hi. destruct names as [|n0 r]; [congruence|]. destruct (H n0 (or_introl eq_refl)) as [L G].
    destruct (gather_nth _ _ _ G i Hi) as [_ Q]; lia. }
  transitivity (map (fun i => nth (nth i ps 0%nat) (map (row E names) (seq 0 len)) []) (seq 0 (length ps))).
  - apply map_ext_in; intros i Hi; apply in_seq in Hi.
    change (map (row E names) (seq 0 len)) with (trows (abs E names len)).
    rewrite nth_rows by (apply Hps; lia). unfold row. apply map_ext_in; intros n Hn.
    destruct (H n Hn) as [_ G]. apply (gather_nth _ _ _ G i); lia.
  - clear. induction ps as [|p r IH]; [reflexivity|]. cbn [length seq map nth]. f_equal.
    rewrite <- seq_shift, map_map. exact IH.
Qed.

Lemma seq_add : forall n a, seq a n = map (fun i => (a + i)%nat) (seq 0 n).
Proof.
  induction n as [|n IH]; intros a; cbn [seq map]; [reflexivity|]. f_equal; [lia|].
  rewrite <- (seq_shift n 0), map_map. rewrite (IH (S a)). apply map_ext; intros; lia.
Qed.

Lemma append_refines : forall E Ea E' names len alen,
  (forall n, In n names -> length (bdata (E n)) = len /\ bdata (E' n) = bdata (E n) ++ bdata (Ea n)) ->
  abs E' names (len + alen) = t_append (abs E names len) (abs Ea names alen).
Proof.
  intros E Ea E' names len alen H; unfold abs, t_append; cbn [tnames trows]. f_equal.
  rewrite seq_app, map_app. f_equal.
  - apply map_ext_in; intros i Hi; apply in_seq in Hi. unfold row; apply map_ext_in; intros n Hn.
    destruct (H n Hn) as [L ->]. apply app_nth1; lia.
  - cbn [plus]. rewrite (seq_add alen len), map_map. apply map_ext_in; intros i Hi.
    unfold row; apply map_ext_in; intros n Hn. destruct (H n Hn) as [L ->].
    rewrite app_nth2 by lia. f_equal; lia.
Qed.

(* ------------------------------------------------------------ the operations *)
Definition names_of (o : obj) : list name := keys (fields o).

Theorem sort_refines : forall s E o n perm s' o',
  repr s E o -> eqlen E o -> sort_by_field s o n perm = ((s', o'), Done) ->
  exists E' ps, repr s' E' o' /\ names_of o' = names_of o /\ olen o' = olen o
    /\ sel_pos (olen o) (SIdx perm) = Ok ps /\ length ps = Z.to_nat (olen o)
    /\ is_perm perm (Z.to_nat (olen o)) = true
    /\ (forall k, In k (names_of o) -> bdt (E' k) = bdt (E k))
    /\ (names_of o <> [] -> abs E' (names_of o) (Z.to_nat (olen o)) = t_take (abs E (names_of o) (Z.to_nat (olen o))) ps)
    /\ In n (names_of o) /\ argsort_ok (bdata (E n)) perm = true.
Proof.
  intros s E o n perm s' o' R [L0 L1] H. pose proof (sort_spec s E o n perm R) as S. rewrite H in S.
  destruct S as (ext & todo & S1 & S2 & S3 & (Q1 & Q2 & Q3 & Q4) & S5 & S6 & S7 & _ & _).
  destruct (S5 eq_refl) as (-> & Hin & AO). specialize (S7 eq_refl).
  unfold argsort_ok in AO; apply andb_prop in AO; destruct AO as [IP SO].
  assert (Ln : length (bdata (E n)) = Z.to_nat (olen o)).
  { pose proof (L1 n Hin) as Q; unfold blen, zlen in Q; lia. }
  rewrite Ln in IP.
  (* the common position list *)
  assert (Hk : forall k, In k (names_of o) -> exists vs, np_take (bdata (E k)) (SIdx perm) = Ok vs
              /\ Emix (g_sort perm) (fnl o) E [] k = mkbuf (bdt (E k)) vs).
  { intros k Hk. assert (Hf : In k (fnl o)) by (rewrite (r_fnl _ _ _ R); assumption).
    destruct (S7 k Hf) as [r Hr]. unfold g_sort in Hr.
    destruct (np_take (bdata (E k)) (SIdx perm)) as [vs|] eqn:T; [|discriminate]. exists vs; split; [reflexivity|].
    unfold Emix, G, g_sort. replace (mem k (fnl o)) with true by (symmetry; apply mem_In; assumption). cbn. rewrite T; reflexivity. }
  destruct (Hk n Hin) as [vsn [Tn _]]. apply np_take_inv in Tn. destruct Tn as [ps [P1 P2]].
  assert (Zl : forall k, In k (names_of o) -> zlen (bdata (E k)) = olen o) by (intros k Hk0; apply (L1 k Hk0)).
  rewrite (Zl n Hin) in P1.
  exists (Emix (g_sort perm) (fnl o) E []), ps. splits; auto.
  - cbn in P1. apply mapM_length in P1. rewrite P1. apply is_perm_length; assumption.
  - intros k Hk0. destruct (Hk k Hk0) as [vs [_ ->]]; reflexivity.
  - intros Hne.
    assert (PL : length ps = Z.to_nat (olen o)).
    { cbn in P1; apply mapM_length in P1; rewrite P1; apply is_perm_length; assumption. }
    replace (abs (Emix (g_sort perm) (fnl o) E []) (names_of o) (Z.to_nat (olen o)))
      with (abs (Emix (g_sort perm) (fnl o) E []) (names_of o) (length ps)) by (rewrite PL; reflexivity).
    apply take_refines; [|assumption].
    intros k Hk0. split; [pose proof (Zl k Hk0) as Q; unfold zlen in Q; lia|].
    destruct (Hk k Hk0) as [vs [T ->]]. apply np_take_inv in T. destruct T as [ps' [T1 T2]].
    rewrite (Zl k Hk0) in T1. rewrite P1 in T1; inversion T1; subst ps'. exact T2.
  - unfold argsort_ok; rewrite Ln, IP, SO; reflexivity.
Qed.

Theorem append_op_refines : forall s E o Ea a s' o',
  repr s E o -> eqlen E o -> repr s Ea a -> eqlen Ea a -> append s o a = ((s', o'), Done) ->
  exists E', repr s' E' o' /\ names_of o' = names_of o /\ olen o' = olen o + olen a /\ oidx o' = None
    /\ (forall k, In k (names_of o) -> E' k = np_append (E k) (Ea k))
    /\ abs E' (names_of o) (Z.to_nat (olen o + olen a))
       = t_append (abs E (names_of o) (Z.to_nat (olen o))) (abs Ea (names_of o) (Z.to_nat (olen a))).
Proof.
  intros s E o Ea a s' o' R [L0 L1] Ra [A0 A1] H. pose proof (append_spec s E o Ea a R Ra) as S. rewrite H in S.
  destruct S as (ext & S1 & S2 & S3 & S4 & S5 & S6 & S7).
  exists (fun n => np_append (E n) (Ea n)); splits; auto.
  rewrite Z2Nat.inj_add by assumption. apply append_refines.
  intros k Hk; split; [pose proof (L1 k Hk) as Q; unfold blen, zlen in Q; lia | reflexivity].
Qed.


Lemma filter_true : forall A (l : list A), filter (fun _ => true) l = l.
Proof. induction l as [|a r IH]; cbn; [reflexivity | f_equal; exact IH]. Qed.

Lemma buf_eq : forall b b' : buf, bdt b' = bdt b -> bdata b' = bdata b -> b' = b.
Proof. intros [d1 v1] [d2 v2]; cbn; intros -> ->; reflexivity. Qed.

(* copy(keep_fields): the copy holds exactly the kept columns of the origin (same values,
   same dtypes, same order), in fresh locations *)
Theorem copy_refines : forall s E a keep s' o',
  repr s E a -> eqlen E a -> ctor_from s a keep [] [] = (s', Some o', Done) ->
  repr s' E o' /\ names_of o' = filter (keepb keep) (names_of a)
  /\ (names_of o' <> [] -> olen o' = olen a) /\ oidx o' = None
  /\ (forall l, In l (obj_locs o') -> (length s <= l)%nat)
  /\ exists ext, s' = s ++ ext.
Proof.
  intros s E a keep s' o' R L H. pose proof (ctor_from_spec s E a keep [] [] R L) as C. rewrite H in C.
  destruct C as (_ & ext & C1 & C2 & C3 & C4 & C5 & C6 & C7 & C8).
  destruct L as [L0 L1].
  assert (Cols : forall k l', In (k, l') (fields o') -> rd s' l' = Some (E k)).
  { intros k l' Hi. destruct (C5 k l' Hi) as (l & b & b' & Q1 & Q2 & Q3 & Q4 & Q5).
    pose proof (r_cols _ _ _ R _ _ Q1) as Q6. rewrite Q6 in Q2; inversion Q2; subst b.
    rewrite Q3; f_equal. apply buf_eq.
    - rewrite Q5. destruct (mem k []); reflexivity.
    - apply Q4. pose proof (L1 k (in_map fst _ _ Q1)) as Q7. unfold blen, zlen in Q7. cbn in Q7. lia. }
  assert (Rn : repr s' E o').
  { eapply repr_ext; [exact C3|]. intros k Hk. destruct (In_keys_assoc _ _ Hk) as [l' Hl'].
    unfold Ecanon; rewrite Hl'. rewrite (Cols k l' (assoc_In _ _ _ Hl')). reflexivity. }
  splits; auto.
  - intros Hne. destruct C2 as (E2 & R2 & (M0 & M1)).
    unfold names_of in Hne. destruct (keys (fields o')) as [|k0 r0] eqn:K; [exfalso; apply Hne; reflexivity|].
    assert (Hk0 : In k0 (k0 :: r0)) by (left; reflexivity).
    assert (Hk0' : In k0 (keys (fields o'))) by (rewrite K; left; reflexivity).
    pose proof (M1 k0 Hk0) as Q. destruct (In_keys_assoc _ _ Hk0') as [l' Hl'].
    pose proof (r_cols _ _ _ R2 _ _ (assoc_In _ _ _ Hl')) as Q2. rewrite (Cols _ _ (assoc_In _ _ _ Hl')) in Q2.
    inversion Q2 as [Q3]. rewrite <- Q3 in Q. rewrite <- Q. apply L1. apply (C6 k0 Hk0).
  - exists ext; assumption.
Qed.

Theorem select_refines : forall s E a sl s' o',
  repr s E a -> eqlen E a -> get_selection s a sl = (s', Some o', Done) -> names_of a <> [] ->
  exists E' ps, repr s' E' o' /\ names_of o' = names_of a /\ sel_pos (olen a) sl = Ok ps
    /\ olen o' = Z.of_nat (length ps) /\ oidx o' = None
    /\ (forall k, In k (names_of a) -> bdt (E' k) = bdt (E k) /\ gather (bdata (E k)) ps = Some (bdata (E' k)))
    /\ abs E' (names_of a) (length ps) = t_take (abs E (names_of a) (Z.to_nat (olen a))) ps
    /\ (forall l, In l (obj_locs o') -> (length s <= l)%nat).
Proof.
  intros s E a sl s' o' R [L0 L1] H Hne. unfold get_selection in H.
  pose proof (sel_dict_spec s E a sl R) as S.
  destruct (sloop (sel_one sl a) (fnl a) (s, [])) as [[s1 d] x].
  destruct S as (ext & S1 & S2 & S3 & S4 & S5 & S6).
  destruct x; try (inversion H; fail).
  specialize (S6 eq_refl). rewrite (r_fnl _ _ _ R) in S6.
  assert (Zl : forall k, In k (names_of a) -> zlen (bdata (E k)) = olen a) by (intros k Hk0; apply (L1 k Hk0)).
  (* one position list for all columns *)
  unfold names_of in *. destruct (keys (fields a)) as [|k0 rest] eqn:NA; [exfalso; apply Hne; reflexivity|]. clear Hne.
  assert (Hk0 : In k0 (k0 :: rest)) by (left; reflexivity).
  destruct d as [|[kd ld] dr]; [discriminate|]. cbn in S6. inversion S6 as [[Q1 Q2]]. subst kd.
  destruct (S5 k0 ld (or_introl eq_refl)) as (_ & B0 & vs0 & T0).
  destruct (np_take_inv _ _ _ T0) as [ps [P1 P2]]. rewrite (Zl k0 Hk0) in P1.
  assert (Tk : forall k l, In (k, l) ((k0, ld) :: dr) -> exists vs, rd s1 l = Some (mkbuf (bdt (E k)) vs)
              /\ gather (bdata (E k)) ps = Some vs /\ length vs = length ps /\ In k (k0 :: rest)).
  { intros k l Hi. destruct (S5 k l Hi) as (Hin & B & vs & T). exists vs.
    destruct (np_take_inv _ _ _ T) as [ps' [P1' P2']]. rewrite (Zl k Hin) in P1'. rewrite P1 in P1'; inversion P1'; subst ps'.
    splits; auto; [unfold takebuf in B; rewrite T in B; exact B | eapply gather_length; eassumption]. }
  destruct (Tk k0 ld (or_introl eq_refl)) as (vs00 & B00 & G00 & Ln00 & _).
  unfold ctor_dict in H.
  match type of H with (match ?X with _ => _ end) = _ =>
    assert (DL : X = Some (blen (mkbuf (bdt (E k0)) vs00))) end.
  { unfold dict_length. replace (dict_nonempty (zlen ((k0, ld) :: dr))) with true.
    - rewrite B00; reflexivity.
    - symmetry; apply K_dict_nonempty; unfold zlen; cbn [length]; lia. }
  rewrite DL in H.
  assert (Hsrc : forall k l, In (k, l) ((k0, ld) :: dr) -> exists b, rd s1 l = Some b).
  { intros k l Hi; destruct (Tk k l Hi) as (vs & Q & _); eauto. }
  assert (Hb : (length s <= length s1)%nat) by (subst s1; rewrite app_length; lia).
  match type of H with ctor _ ?D ?N ?KP ?CV ?EX _ = _ =>
    pose proof (ctor_spec s1 D N KP CV EX false (length s)
                Hsrc S3 S2 Hb (fun _ l Hl => proj2 (S4 l Hl)) (fun _ _ => I)) as C end.
  rewrite H in C. destruct C as (_ & e2 & C1 & C2 & C3 & C4 & C5 & C6 & C7 & C8).
  assert (Nlen : Z.to_nat (blen (mkbuf (bdt (E k0)) vs00)) = length ps).
  { unfold blen, zlen; cbn. lia. }
  assert (Cols : forall k l', In (k, l') (fields o') -> exists vs, rd s' l' = Some (mkbuf (bdt (E k)) vs)
              /\ gather (bdata (E k)) ps = Some vs /\ length vs = length ps).
  { intros k l' Hi. destruct (C5 k l' Hi) as (l & b & b' & D1 & D2 & D3 & D4 & D5).
    destruct (Tk k l D1) as (vs & T1 & T2 & T3 & T4). rewrite T1 in D2; inversion D2; subst b.
    exists vs; splits; auto. rewrite D3; f_equal. apply buf_eq.
    - rewrite D5. cbn. reflexivity.
    - apply D4. cbn. lia. }
  assert (Keys : keys (fields o') = k0 :: rest).
  { rewrite C8. unfold keepb. rewrite filter_true. exact S6. }
  exists (Ecanon s' (fields o')), ps.
  assert (ColE : forall k, In k (k0 :: rest) -> bdt (Ecanon s' (fields o') k) = bdt (E k)
                 /\ gather (bdata (E k)) ps = Some (bdata (Ecanon s' (fields o') k))).
  { intros k Hk. rewrite <- Keys in Hk. destruct (In_keys_assoc _ _ Hk) as [l' Hl'].
    destruct (Cols k l' (assoc_In _ _ _ Hl')) as (vs & V1 & V2 & V3).
    unfold Ecanon; rewrite Hl', V1; cbn. split; [reflexivity | assumption]. }
  splits; auto.
  - rewrite Keys; congruence.
  - destruct C2 as (E2 & R2 & (M0 & M1)).
    assert (Hk : In k0 (keys (fields o'))) by (rewrite Keys; left; reflexivity).
    pose proof (M1 k0 Hk) as W. destruct (In_keys_assoc _ _ Hk) as [l' Hl'].
    pose proof (r_cols _ _ _ R2 _ _ (assoc_In _ _ _ Hl')) as W2.
    destruct (Cols k0 l' (assoc_In _ _ _ Hl')) as (vs & V1 & V2 & V3). rewrite V1 in W2. inversion W2 as [W3].
    rewrite <- W3 in W. unfold blen, zlen in W; cbn in W. lia.
  - intros k Hk. apply ColE. rewrite <- S6; exact Hk.
  - rewrite S6. apply take_refines; [|discriminate].
    intros k Hk. split; [pose proof (Zl k Hk) as Q; unfold zlen in Q; lia | apply ColE; assumption].
Qed.
