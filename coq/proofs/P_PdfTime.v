(* C10, time densities: for every up-time interval list and every box /
   gaussian profile, the SignalTimePDF / BackgroundTimePDF value is
   non-negative, zero during off-time and its integrals over the on-time
   intervals sum to one (real-number reading; Coquelicot is_RInt). *)
From Coq Require Import Reals ZArith List Bool Lra Lia.
From Coquelicot Require Import Coquelicot.
From Sky Require Import Num NumR Result G_pdf M_Pdf S_Pdf.
Import ListNotations.
Open Scope R_scope.

(* ------------------------------------------------------------------ kernels *)
Section Kernels.
  Variable e : R -> R.
  Let N := RNum e.

  Lemma K_tp_sig_pd S x : tp_sig_pd N S x = x / S.
  Proof. reflexivity. Qed.
  Lemma K_tp_bkg_pd S x : tp_bkg_pd N S x = x / S.
  Proof. reflexivity. Qed.
  Lemma K_tp_time_oor t a b : tp_time_oor N t a b = Rltb t a || Rltb b t.
  Proof. reflexivity. Qed.
  Lemma K_tp_box_call_m t ts te : tp_box_call_m N t ts te = Rleb ts t && Rleb t te.
  Proof. reflexivity. Qed.
  Lemma K_tp_box_int_m t1 t2 ts te : tp_box_int_m N t1 t2 ts te = Rleb ts t2 && Rleb t1 te.
  Proof. reflexivity. Qed.
  Lemma K_tp_box_int_lo t1 ts : tp_box_int_lo N t1 ts = Rmax t1 ts.
  Proof. reflexivity. Qed.
  Lemma K_tp_box_int_hi t2 te : tp_box_int_hi N t2 te = Rmin t2 te.
  Proof. reflexivity. Qed.
  Lemma K_tp_box_int_val a b : tp_box_int_val N a b = b - a.
  Proof. reflexivity. Qed.
  Lemma K_tp_ga_call_m t ts te : tp_ga_call_m N t ts te = Rleb ts t && Rltb t te.
  Proof. reflexivity. Qed.
  Lemma K_tp_ga_call_twossq s : tp_ga_call_twossq N s = 2 * s * s.
  Proof. unfold tp_ga_call_twossq, N. num_R. reflexivity. Qed.
  Lemma K_tp_ga_call_t0 ts te : tp_ga_call_t0 N ts te = (ts + te) / 2.
  Proof. unfold tp_ga_call_t0, N. num_R. lra. Qed.
  Lemma K_tp_ga_call_dt t t0 : tp_ga_call_dt N t t0 = t - t0.
  Proof. reflexivity. Qed.
  Lemma K_tp_ga_call_val dt q : tp_ga_call_val N dt q = exp (- (dt * dt) / q).
  Proof. unfold tp_ga_call_val, N. num_R. f_equal. unfold Rdiv. ring. Qed.
  Lemma K_tp_ga_int_t0 ts te : tp_ga_int_t0 N ts te = (ts + te) / 2.
  Proof. unfold tp_ga_int_t0, N. num_R. lra. Qed.
  Lemma K_tp_ga_int_c1 s : tp_ga_int_c1 N s = sqrt (PI / 2) * s.
  Proof. unfold tp_ga_int_c1, N. num_R. reflexivity. Qed.
  Lemma K_tp_ga_int_c2 s : tp_ga_int_c2 N s = sqrt 2 * s.
  Proof. unfold tp_ga_int_c2, N. num_R. reflexivity. Qed.
  Lemma K_tp_ga_int_i1 c1 c2 t t0 : tp_ga_int_i1 N c1 c2 t t0 = c1 * e ((t - t0) / c2).
  Proof. reflexivity. Qed.
  Lemma K_tp_ga_int_i2 c1 c2 t t0 : tp_ga_int_i2 N c1 c2 t t0 = c1 * e ((t - t0) / c2).
  Proof. reflexivity. Qed.
  Lemma K_tp_ga_int_val a b : tp_ga_int_val N a b = b - a.
  Proof. reflexivity. Qed.
End Kernels.

(* ------------------------------------------------------------------ sums *)
Lemma fold_left_Rplus l a : fold_left Rplus l a = a + Rsum l.
Proof.
  revert a. induction l as [|x l IH]; intros a; simpl.
  - lra.
  - rewrite IH. lra.
Qed.

Lemma nsum_R e l : nsum (RNum e) l = Rsum l.
Proof. unfold nsum. cbn [nadd nzero RNum]. rewrite fold_left_Rplus. lra. Qed.

Lemma Rsum_cons a l : Rsum (a :: l) = a + Rsum l.
Proof. reflexivity. Qed.

Lemma Rsum_scal k l : Rsum (map (fun x => x / k) l) = Rsum l / k.
Proof.
  induction l as [|x l IH]; simpl.
  - unfold Rdiv. lra.
  - rewrite IH. unfold Rdiv. lra.
Qed.

Lemma Rsum_nonneg l : List.Forall (fun x => 0 <= x) l -> 0 <= Rsum l.
Proof. induction 1; simpl; lra. Qed.

(* ------------------------------------------------------------------ integrals of windowed functions *)
Lemma is_RInt_zero_on (g : R -> R) a b :
  a <= b -> (forall t, a < t < b -> g t = 0) -> is_RInt g a b 0.
Proof.
  intros Hab Hg.
  apply (is_RInt_ext (fun _ => 0)).
  - intros x Hx. rewrite Rmin_left, Rmax_right in Hx by lra. symmetry. apply Hg. lra.
  - generalize (is_RInt_const a b 0). unfold scal; simpl. unfold mult; simpl.
    rewrite Rmult_0_r. intros HH; exact HH.
Qed.

Lemma is_RInt_plus3 (g : R -> R) a b c d x y z :
  is_RInt g a b x -> is_RInt g b c y -> is_RInt g c d z ->
  is_RInt g a d (x + y + z).
Proof.
  intros H1 H2 H3.
  exact (is_RInt_Chasles g a c d _ _ (is_RInt_Chasles g a b c _ _ H1 H2) H3).
Qed.

(* f has the antiderivative F everywhere; w is f inside the window (ts,te),
   0 outside [ts,te] (the values at ts and te do not matter) *)
Lemma RInt_window (f F : R -> R) (win : R -> bool) ts te l u :
  (forall a b, a <= b -> is_RInt f a b (F b - F a)) ->
  (forall t, ts < t < te -> win t = true) ->
  (forall t, t < ts \/ te < t -> win t = false) ->
  l <= u -> ts <= te ->
  is_RInt (fun t => if win t then f t else 0) l u
    (if Rltb ts u && Rleb l te then F (Rmin u te) - F (Rmax l ts) else 0).
Proof.
  intros HF Hin Hout Hlu Hw.
  destruct (Rltb ts u) eqn:E1; [destruct (Rleb l te) eqn:E2|]; cbn [andb].
  - apply Rltb_true in E1. apply Rleb_true in E2.
    set (a' := Rmax l ts). set (b' := Rmin u te).
    assert (Ha : l <= a' /\ ts <= a' /\ (a' = l \/ a' = ts)).
    { unfold a', Rmax. destruct (Rle_dec l ts); lra. }
    assert (Hb : b' <= u /\ b' <= te /\ (b' = u \/ b' = te)).
    { unfold b', Rmin. destruct (Rle_dec u te); lra. }
    assert (Hab : a' <= b') by lra.
    replace (F b' - F a') with (0 + (F b' - F a') + 0) by lra.
    apply (is_RInt_plus3 _ l a' b' u).
    + apply is_RInt_zero_on; [lra|]. intros t Ht. rewrite Hout; [reflexivity|]. lra.
    + apply (is_RInt_ext f).
      * intros t Ht. rewrite Rmin_left, Rmax_right in Ht by lra.
        rewrite Hin; [reflexivity|]. lra.
      * apply HF. exact Hab.
    + apply is_RInt_zero_on; [lra|]. intros t Ht. rewrite Hout; [reflexivity|]. lra.
  - apply Rleb_false in E2.
    apply is_RInt_zero_on; [lra|]. intros t Ht. rewrite Hout; [reflexivity|]. lra.
  - apply Rltb_false in E1.
    apply is_RInt_zero_on; [lra|]. intros t Ht. rewrite Hout; [reflexivity|]. lra.
Qed.

(* ------------------------------------------------------------------ the two profiles *)
Lemma is_RInt_one a b : is_RInt (fun _ : R => 1) a b (b - a).
Proof.
  generalize (is_RInt_const a b 1). unfold scal; simpl. unfold mult; simpl.
  rewrite Rmult_1_r. intros HH; exact HH.
Qed.

Section Gauss.
  Variable erf : R -> R.
  Hypothesis Herf : erf_contract erf.

  Lemma sqrt2_sq : sqrt 2 * sqrt 2 = 2.
  Proof. apply sqrt_sqrt. lra. Qed.

  Lemma gauss_antiderivative s t0 x :
    s <> 0 ->
    is_derive (fun x => (sqrt (PI / 2) * s) * erf ((x - t0) / (sqrt 2 * s))) x
              (exp (- ((x - t0) * (x - t0)) / (2 * s * s))).
  Proof.
    intros Hs.
    assert (H2 : 0 < sqrt 2) by (apply sqrt_lt_R0; lra).
    assert (HP : 0 < sqrt PI) by (apply sqrt_lt_R0; apply PI_RGT_0).
    assert (Hc2 : sqrt 2 * s <> 0) by (apply Rmult_integral_contrapositive_currified; lra).
    evar_last.
    - apply is_derive_scal.
      apply (is_derive_comp erf (fun x => (x - t0) / (sqrt 2 * s))).
      + apply Herf.
      + auto_derive; [exact I | reflexivity].
    - unfold scal; simpl. unfold mult; simpl.
      replace (sqrt (PI / 2)) with (sqrt PI / sqrt 2)
        by (symmetry; apply sqrt_div_alt; lra).
      replace (- ((x - t0) / (sqrt 2 * s) * ((x - t0) / (sqrt 2 * s))))
        with (- ((x - t0) * (x - t0)) / (2 * s * s)).
      2:{ replace (2 * s * s) with ((sqrt 2 * sqrt 2) * s * s) by (rewrite sqrt2_sq; ring).
          field. split; lra. }
      generalize (exp (- ((x - t0) * (x - t0)) / (2 * s * s))). intros E.
      transitivity (sqrt PI / sqrt 2 * s * (1 * / (sqrt 2 * s) * ((sqrt 2 * sqrt 2) / sqrt PI * E)));
        [rewrite sqrt2_sq; reflexivity|].
      field. repeat split; lra.
  Qed.

  Lemma gauss_RInt s t0 a b :
    s <> 0 ->
    is_RInt (fun x => exp (- ((x - t0) * (x - t0)) / (2 * s * s))) a b
      ((sqrt (PI / 2) * s) * erf ((b - t0) / (sqrt 2 * s))
       - (sqrt (PI / 2) * s) * erf ((a - t0) / (sqrt 2 * s))).
  Proof.
    intros Hs.
    apply (is_RInt_derive (fun x => (sqrt (PI / 2) * s) * erf ((x - t0) / (sqrt 2 * s)))).
    - intros x _. apply gauss_antiderivative. exact Hs.
    - intros x _.
      apply continuous_comp; [|apply continuous_exp].
      apply (ex_derive_continuous (fun x => - ((x - t0) * (x - t0)) / (2 * s * s))).
      auto_derive. nra.
  Qed.
End Gauss.

(* ------------------------------------------------------------------ the time PDF *)
Section TimePdf.
  Variable erf : R -> R.
  Let N := RNum erf.

  Definition ok_profile (p : profile) : Prop :=
    match p with
    | Box ts te => ts <= te
    | Gauss ts te s => ts <= te /\ s <> 0 /\ erf_contract erf
    end.

  (* the code's get_integral on the clipped interval, or 0 when the interval
     is dropped by get_uptime_intervals_between *)
  Definition win_val (p : profile) (iv : R * R) : R :=
    if Rltb (p_start p) (snd iv) && Rleb (fst iv) (p_stop p)
    then prof_int N p (Rmax (fst iv) (p_start p)) (Rmin (snd iv) (p_stop p))
    else 0.

  Lemma prof_call_RInt p l u :
    ok_profile p -> l <= u ->
    is_RInt (prof_call N p) l u (win_val p (l, u)).
  Proof.
    intros Hok Hlu. unfold win_val. cbn [fst snd].
    destruct p as [ts te | ts te s]; cbn [p_start p_stop prof_call prof_int ok_profile] in *.
    - (* box *)
      pose proof (RInt_window (fun _ => 1) (fun x => x)
                    (fun t => tp_box_call_m N t ts te) ts te l u) as W.
      cbv beta in W.
      destruct (Rltb ts u) eqn:E1; [destruct (Rleb l te) eqn:E2|]; cbn [andb] in *.
      + apply Rltb_true in E1. apply Rleb_true in E2.
        unfold N. rewrite K_tp_box_int_m, K_tp_box_int_lo, K_tp_box_int_hi, K_tp_box_int_val.
        assert (Hm : Rleb ts (Rmin u te) && Rleb (Rmax l ts) te = true).
        { apply andb_true_intro; split; apply Rleb_true.
          - unfold Rmin; destruct (Rle_dec u te); lra.
          - unfold Rmax; destruct (Rle_dec l ts); lra. }
        rewrite Hm.
        replace (Rmin (Rmin u te) te - Rmax (Rmax l ts) ts) with (Rmin u te - Rmax l ts).
        2:{ unfold Rmin, Rmax.
            repeat match goal with |- context [Rle_dec ?a ?b] => destruct (Rle_dec a b) end; lra. }
        apply (is_RInt_ext (fun t => if tp_box_call_m N t ts te then 1 else 0)).
        { intros t _. reflexivity. }
        apply W; try assumption.
        * intros a b _. apply is_RInt_one.
        * intros t Ht. unfold N. rewrite K_tp_box_call_m.
          apply andb_true_intro; split; apply Rleb_true; lra.
        * intros t Ht. unfold N. rewrite K_tp_box_call_m.
          apply andb_false_iff. destruct Ht; [left|right]; apply Rleb_false; lra.
      + apply (is_RInt_ext (fun t => if tp_box_call_m N t ts te then 1 else 0)).
        { intros t _. reflexivity. }
        apply W; try assumption.
        * intros a b _. apply is_RInt_one.
        * intros t Ht. unfold N. rewrite K_tp_box_call_m.
          apply andb_true_intro; split; apply Rleb_true; lra.
        * intros t Ht. unfold N. rewrite K_tp_box_call_m.
          apply andb_false_iff. destruct Ht; [left|right]; apply Rleb_false; lra.
      + apply (is_RInt_ext (fun t => if tp_box_call_m N t ts te then 1 else 0)).
        { intros t _. reflexivity. }
        apply W; try assumption.
        * intros a b _. apply is_RInt_one.
        * intros t Ht. unfold N. rewrite K_tp_box_call_m.
          apply andb_true_intro; split; apply Rleb_true; lra.
        * intros t Ht. unfold N. rewrite K_tp_box_call_m.
          apply andb_false_iff. destruct Ht; [left|right]; apply Rleb_false; lra.
    - (* gaussian *)
      destruct Hok as (Hw & Hs & Herf).
      set (t0 := (ts + te) / 2).
      pose proof (RInt_window
                    (fun x => exp (- ((x - t0) * (x - t0)) / (2 * s * s)))
                    (fun x => (sqrt (PI / 2) * s) * erf ((x - t0) / (sqrt 2 * s)))
                    (fun t => tp_ga_call_m N t ts te) ts te l u) as W.
      cbv beta in W.
      unfold N.
      rewrite K_tp_ga_int_t0, K_tp_ga_int_c1, K_tp_ga_int_c2,
              K_tp_ga_int_i1, K_tp_ga_int_i2, K_tp_ga_int_val.
      fold t0.
      apply (is_RInt_ext (fun t => if tp_ga_call_m N t ts te
                                    then exp (- ((t - t0) * (t - t0)) / (2 * s * s)) else 0)).
      { intros t _. cbn [prof_call]. unfold N.
        rewrite K_tp_ga_call_t0, K_tp_ga_call_dt, K_tp_ga_call_twossq, K_tp_ga_call_val.
        reflexivity. }
      apply W; try assumption.
      + intros a b _. apply gauss_RInt; assumption.
      + intros t Ht. unfold N. rewrite K_tp_ga_call_m.
        apply andb_true_intro; split; [apply Rleb_true | apply Rltb_true]; lra.
      + intros t Ht. unfold N. rewrite K_tp_ga_call_m.
        apply andb_false_iff. destruct Ht; [left; apply Rleb_false | right; apply Rltb_false]; lra.
  Qed.

  (* the profile value is never negative *)
  Lemma prof_call_nonneg p t : 0 <= prof_call N p t.
  Proof.
    destruct p as [ts te | ts te s]; cbn [prof_call].
    - destruct (tp_box_call_m N t ts te); cbn [none nzero N RNum]; lra.
    - destruct (tp_ga_call_m N t ts te).
      + unfold N. rewrite K_tp_ga_call_val. left. apply exp_pos.
      + cbn [nzero N RNum]. lra.
  Qed.

  Lemma win_val_nonneg p l u : ok_profile p -> l <= u -> 0 <= win_val p (l, u).
  Proof.
    intros Hok Hlu.
    pose proof (prof_call_RInt p l u Hok Hlu) as H.
    rewrite <- (is_RInt_unique _ _ _ _ H).
    apply RInt_ge_0; [exact Hlu | eexists; exact H |].
    intros x _. apply prof_call_nonneg.
  Qed.

  (* S is the sum of win_val over all intervals *)
  Lemma S_of_win ivs p : S_of N ivs p = Rsum (map (win_val p) ivs).
  Proof.
    unfold S_of, S_terms, N. rewrite nsum_R. fold N.
    unfold lt_between. rewrite map_map.
    induction ivs as [|[l u] r IH]; [reflexivity|].
    cbn [filter map fst snd nltb nleb nmax nmin N RNum] in *.
    rewrite Rsum_cons. unfold win_val at 1. cbn [fst snd].
    destruct (Rltb (p_start p) u && Rleb l (p_stop p)).
    - cbn [map fst snd]. rewrite Rsum_cons. rewrite IH. reflexivity.
    - rewrite IH. lra.
  Qed.

  Lemma chainR_ordered lo ivs : chainR lo ivs -> List.Forall (fun iv => fst iv <= snd iv) ivs.
  Proof.
    revert lo. induction ivs as [|[l u] r IH]; intros lo H; constructor.
    - cbn in *. tauto.
    - cbn in H. apply (IH u). tauto.
  Qed.

  Lemma wfR_ordered ivs : wfR ivs -> List.Forall (fun iv => fst iv <= snd iv) ivs.
  Proof. destruct ivs as [|[l u] r]; [constructor|]. apply chainR_ordered. Qed.

  Lemma S_of_nonneg ivs p : wfR ivs -> ok_profile p -> 0 <= S_of N ivs p.
  Proof.
    intros Hwf Hok. rewrite S_of_win. apply Rsum_nonneg.
    apply Forall_forall. intros x Hx. apply in_map_iff in Hx.
    destruct Hx as ([l u] & <- & Hin).
    apply win_val_nonneg; [exact Hok|].
    pose proof (wfR_ordered ivs Hwf) as Ho. rewrite Forall_forall in Ho.
    exact (Ho _ Hin).
  Qed.

  (* inside an up-time interval the event is `on` *)
  Lemma lt_is_on_in ivs l u t : In (l, u) ivs -> l <= t < u -> lt_is_on N ivs t = true.
  Proof.
    intros Hin Ht. unfold lt_is_on. apply existsb_exists.
    exists (l, u). split; [exact Hin|]. cbn [fst snd nleb nltb N RNum].
    apply andb_true_intro; split; [apply Rleb_true | apply Rltb_true]; lra.
  Qed.

  Lemma lt_is_on_spec ivs t : lt_is_on N ivs t = true <-> In_onR ivs t.
  Proof.
    unfold lt_is_on, In_onR. rewrite existsb_exists. split.
    - intros ([l u] & Hin & H). cbn [fst snd nleb nltb N RNum] in H.
      apply andb_prop in H. destruct H as [H1 H2].
      apply Rleb_true in H1. apply Rltb_true in H2. exists l, u. split; [exact Hin | lra].
    - intros (l & u & Hin & H). exists (l, u). split; [exact Hin|].
      cbn [fst snd nleb nltb N RNum].
      apply andb_true_intro; split; [apply Rleb_true | apply Rltb_true]; lra.
  Qed.

  Lemma sig_pd_on ivs p t :
    sig_time_pd N ivs p t = if lt_is_on N ivs t then prof_call N p t / S_of N ivs p else 0.
  Proof. reflexivity. Qed.

  Lemma bkg_eq_sig ivs p t : bkg_time_pd N ivs p t = sig_time_pd N ivs p t.
  Proof. reflexivity. Qed.

  Lemma sig_pd_RInt ivs p l u :
    ok_profile p -> In (l, u) ivs -> l <= u ->
    is_RInt (sig_time_pd N ivs p) l u (win_val p (l, u) / S_of N ivs p).
  Proof.
    intros Hok Hin Hlu.
    apply (is_RInt_ext (fun t => scal (/ S_of N ivs p) (prof_call N p t))).
    - intros t Ht. rewrite Rmin_left, Rmax_right in Ht by lra.
      rewrite sig_pd_on, (lt_is_on_in ivs l u t Hin) by lra.
      unfold scal; simpl. unfold mult; simpl. unfold Rdiv. ring.
    - replace (win_val p (l, u) / S_of N ivs p)
        with (scal (/ S_of N ivs p) (win_val p (l, u))).
      2:{ unfold scal; simpl. unfold mult; simpl. unfold Rdiv. ring. }
      apply (is_RInt_scal (V := R_NormedModule) (prof_call N p) l u (/ S_of N ivs p) (win_val p (l, u))).
      apply prof_call_RInt; assumption.
  Qed.

  Theorem time_pd_norm ivs p :
    wfR ivs -> ok_profile p -> S_of N ivs p <> 0 ->
    (forall l u, In (l, u) ivs -> ex_RInt (sig_time_pd N ivs p) l u) /\
    Rsum (map (fun iv => RInt (sig_time_pd N ivs p) (fst iv) (snd iv)) ivs) = 1.
  Proof.
    intros Hwf Hok HS.
    pose proof (wfR_ordered ivs Hwf) as Ho. rewrite Forall_forall in Ho.
    split.
    - intros l u Hin. eexists. apply sig_pd_RInt; [exact Hok | exact Hin |].
      exact (Ho _ Hin).
    - transitivity (Rsum (map (fun x => x / S_of N ivs p) (map (win_val p) ivs))).
      + rewrite map_map. f_equal. apply map_ext_in. intros [l u] Hin. cbn [fst snd].
        apply is_RInt_unique. apply sig_pd_RInt; [exact Hok | exact Hin |].
        exact (Ho _ Hin).
      + rewrite Rsum_scal, <- S_of_win. field. exact HS.
  Qed.

  Theorem time_pd_nonneg ivs p t :
    wfR ivs -> ok_profile p -> S_of N ivs p <> 0 -> 0 <= sig_time_pd N ivs p t.
  Proof.
    intros Hwf Hok HS. rewrite sig_pd_on.
    destruct (lt_is_on N ivs t); [|lra].
    pose proof (S_of_nonneg ivs p Hwf Hok). pose proof (prof_call_nonneg p t).
    apply Rmult_le_pos; [assumption|]. left. apply Rinv_0_lt_compat. lra.
  Qed.

  Theorem time_pd_off ivs p t : ~ In_onR ivs t -> sig_time_pd N ivs p t = 0.
  Proof.
    intros H. rewrite sig_pd_on.
    destruct (lt_is_on N ivs t) eqn:E; [|reflexivity].
    exfalso. apply H. apply lt_is_on_spec. exact E.
  Qed.

  Theorem time_pd_on ivs p t :
    In_onR ivs t -> sig_time_pd N ivs p t = prof_call N p t / S_of N ivs p.
  Proof.
    intros H. rewrite sig_pd_on. apply lt_is_on_spec in H. rewrite H. reflexivity.
  Qed.
End TimePdf.

(* ------------------------------------------------------------------ non-vacuity *)
Ltac rdec :=
  repeat match goal with
  | |- context [Rmax ?a ?b] => first [rewrite (Rmax_left a b) by lra | rewrite (Rmax_right a b) by lra]
  | |- context [Rmin ?a ?b] => first [rewrite (Rmin_left a b) by lra | rewrite (Rmin_right a b) by lra]
  | |- context [Rltb ?a ?b] =>
      first [rewrite (proj2 (Rltb_true a b)) by lra | rewrite (proj2 (Rltb_false a b)) by lra]
  | |- context [Rleb ?a ?b] =>
      first [rewrite (proj2 (Rleb_true a b)) by lra | rewrite (proj2 (Rleb_false a b)) by lra]
  end.

(* two up-time intervals, a box that starts inside the first and ends inside
   the second: S = 1/2 + 1 *)
Lemma time_example erf :
  wfR [(0, 1); (2, 4)] /\
  S_of (RNum erf) [(0, 1); (2, 4)] (Box (1 / 2) 3) = 3 / 2 /\
  sig_time_pd (RNum erf) [(0, 1); (2, 4)] (Box (1 / 2) 3) (3 / 4) = 2 / 3 /\
  sig_time_pd (RNum erf) [(0, 1); (2, 4)] (Box (1 / 2) 3) (3 / 2) = 0 /\
  sig_time_pd (RNum erf) [(0, 1); (2, 4)] (Box (1 / 2) 3) (7 / 2) = 0.
Proof.
  assert (HS : S_of (RNum erf) [(0, 1); (2, 4)] (Box (1 / 2) 3) = 3 / 2).
  { rewrite S_of_win. cbn [map Rsum fold_right]. unfold win_val.
    cbn [fst snd p_start p_stop prof_int].
    rewrite !K_tp_box_int_m, !K_tp_box_int_lo, !K_tp_box_int_hi, !K_tp_box_int_val.
    rdec. cbn [andb]. rdec. cbn [andb]. lra. }
  split; [cbn; lra|]. split; [exact HS|].
  repeat split; rewrite sig_pd_on, HS; unfold lt_is_on;
    cbn [existsb fst snd nleb nltb RNum prof_call none nzero];
    rewrite ?K_tp_box_call_m; rdec; cbn [andb orb]; rdec; cbn [andb orb]; lra.
Qed.

(* the error-function contract is satisfiable: erf x = 2/sqrt(pi) * int_0^x exp(-t^2) dt *)
Lemma erf_contract_sat : exists erf, erf_contract erf.
Proof.
  exists (fun x => 2 / sqrt PI * RInt (fun t => exp (- (t * t))) 0 x).
  intros x.
  assert (Hc : forall y, continuous (fun t => exp (- (t * t))) y).
  { intros y. apply (ex_derive_continuous (fun t => exp (- (t * t)))). auto_derive. exact I. }
  apply is_derive_scal.
  apply (is_derive_RInt (fun t => exp (- (t * t))) (fun b => RInt (fun t => exp (- (t * t))) 0 b) 0).
  - apply filter_forall. intros b.
    apply (RInt_correct (V := R_CompleteNormedModule) (fun t => exp (- (t * t))) 0 b).
    apply (ex_RInt_continuous (fun t => exp (- (t * t)))). intros z _. apply Hc.
  - apply Hc.
Qed.
