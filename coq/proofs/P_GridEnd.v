(* C15, end to end: for EVERY history of calls on one interpolation object, each
   entry of each returned (values, gradients) pair is the single-entry
   interpolant of that entry's manifold function at that source's parameter
   value; inside a cell its gradient entry is the derivative of that interpolant
   (nodes included); for manifolds that are polynomials of the interpolant's
   degree in the parameter the entry IS the manifold value and its derivative. *)
From Coq Require Import Reals ZArith List Bool Lra Lia.
From Coquelicot Require Import Coquelicot.
From Sky Require Import Result PyList Num NumR G_grid M_Grid P_Grid P_GridInterp P_GridCall P_GridLocal P_GridCache P_GridHist.
Import ListNotations.
Open Scope R_scope.

Section EndToEnd.
  Variable erfR : R -> R.
  Notation RN := (RNum erfR).
  Variables (a b d : Z).
  Hypothesis (Hd : (0 <= d)%Z) (Hb : (0 < b)%Z).
  Notation g := (dgrid a b d).
  Variable Fm : manifold (T := R).
  Variable layout : Z -> list (nat * nat).

  Lemma lin_entry_of_history (calls : list (Z * list R)) (xofs : list (nat -> R)) :
    (forall k id xs xof, nth_error calls k = Some (id, xs) -> nth_error xofs k = Some xof ->
       forall s e, In (s, e) (layout id) -> bcast xs s = Ok (xof s) /\ g_lb g <= xof s) ->
    forall k id xs xof v gr j s e,
      nth_error calls k = Some (id, xs) -> nth_error xofs k = Some xof ->
      nth_error (lin_run RN g Fm layout None calls) k = Some (Ok (v, gr)) ->
      nth_error (layout id) j = Some (s, e) ->
      nth_error v j = Some (lin_value1 RN g (fun t => Fm id t s e) (xof s)) /\
      nth_error gr j = Some (lin_grad1 RN g (fun t => Fm id t s e) (xof s)).
  Proof.
    intros Hargs k id xs xof v gr j s e Hc Hx Hr Hj.
    destruct (linear_history_consistent erfR a b d Hd Hb Fm layout calls xofs None (or_introl eq_refl) Hargs
                                        k id xs xof v gr Hc Hx Hr) as [Ev Eg].
    rewrite Ev, Eg. unfold lin_vals, lin_grads. rewrite !nth_error_map, Hj. split; reflexivity.
  Qed.

  Theorem linear_history_gradient_is_derivative (calls : list (Z * list R)) (xofs : list (nat -> R)) :
    (forall k id xs xof, nth_error calls k = Some (id, xs) -> nth_error xofs k = Some xof ->
       forall s e, In (s, e) (layout id) -> bcast xs s = Ok (xof s) /\ g_lb g <= xof s) ->
    forall k id xs xof v gr j s e (n : Z),
      nth_error calls k = Some (id, xs) -> nth_error xofs k = Some xof ->
      nth_error (lin_run RN g Fm layout None calls) k = Some (Ok (v, gr)) ->
      nth_error (layout id) j = Some (s, e) ->
      (0 <= n)%Z ->
      IZR n + 5 / 10000000000 < (xof s - g_lb g) / g_delta g < IZR n + 1 - 5 / 10000000000 ->
      exists vj gj, nth_error v j = Some vj /\ nth_error gr j = Some gj /\
        vj = lin_value1 RN g (fun t => Fm id t s e) (xof s) /\
        is_derive (lin_value1 RN g (fun t => Fm id t s e)) (xof s) gj.
  Proof.
    intros Hargs k id xs xof v gr j s e n Hc Hx Hr Hj Hn Hcell.
    destruct (lin_entry_of_history calls xofs Hargs k id xs xof v gr j s e Hc Hx Hr Hj) as [Ev Eg].
    do 2 eexists. split; [exact Ev|]. split; [exact Eg|]. split; [reflexivity|].
    apply (linear_is_derive_inside_cell erfR a b d n (fun t => Fm id t s e) (xof s) Hd Hb Hn Hcell).
  Qed.

  Theorem linear_history_exact_for_lines (P Q : Z -> nat -> nat -> R)
      (calls : list (Z * list R)) (xofs : list (nat -> R)) :
    (forall id t s e, Fm id t s e = P id s e * t + Q id s e) ->
    (forall k id xs xof, nth_error calls k = Some (id, xs) -> nth_error xofs k = Some xof ->
       forall s e, In (s, e) (layout id) -> bcast xs s = Ok (xof s) /\ g_lb g <= xof s) ->
    forall k id xs xof v gr j s e,
      nth_error calls k = Some (id, xs) -> nth_error xofs k = Some xof ->
      nth_error (lin_run RN g Fm layout None calls) k = Some (Ok (v, gr)) ->
      nth_error (layout id) j = Some (s, e) ->
      nth_error v j = Some (Fm id (xof s) s e) /\ nth_error gr j = Some (P id s e).
  Proof.
    intros HF Hargs k id xs xof v gr j s e Hc Hx Hr Hj.
    destruct (lin_entry_of_history calls xofs Hargs k id xs xof v gr j s e Hc Hx Hr Hj) as [Ev Eg].
    assert (Hlb : g_lb g <= xof s).
    { apply (Hargs k id xs xof Hc Hx s e). eapply nth_error_In; eauto. }
    assert (EF : (fun t => Fm id t s e) = (fun t => P id s e * t + Q id s e)).
    { apply FunctionalExtensionality.functional_extensionality. intros t. apply HF. }
    destruct (linear_exact_degree_1 erfR a b d (P id s e) (Q id s e) (xof s) Hd Hb Hlb) as [E1 E2].
    rewrite Ev, Eg, EF, E1, E2, HF. split; reflexivity.
  Qed.

  Theorem parabola_history_gradient_is_derivative (calls : list (Z * list R)) (xofs : list (nat -> R)) :
    (forall k id xs xof, nth_error calls k = Some (id, xs) -> nth_error xofs k = Some xof ->
       forall s e, In (s, e) (layout id) -> bcast xs s = Ok (xof s)) ->
    forall k id xs xof v gr j s e (m : Z),
      nth_error calls k = Some (id, xs) -> nth_error xofs k = Some xof ->
      nth_error (par_run RN g Fm layout None calls) k = Some (Ok (v, gr)) ->
      nth_error (layout id) j = Some (s, e) ->
      (1 <= m)%Z ->
      IZR m - 1 / 2 + 5 / 10000000000 < (xof s - g_lb g) / g_delta g < IZR m + 1 / 2 - 5 / 10000000000 ->
      exists vj gj, nth_error v j = Some vj /\ nth_error gr j = Some gj /\
        vj = par_value1 RN g (fun t => Fm id t s e) (xof s) /\
        is_derive (par_value1 RN g (fun t => Fm id t s e)) (xof s) gj.
  Proof.
    intros Hargs k id xs xof v gr j s e m Hc Hx Hr Hj Hm Hcell.
    destruct (parabola_history_consistent erfR g Fm layout calls xofs None (or_introl eq_refl) Hargs
                                          k id xs xof v gr Hc Hx Hr) as [Ev Eg].
    do 2 eexists. rewrite Ev, Eg. unfold par_vals, par_grads. rewrite !nth_error_map, Hj. cbn [option_map fst snd].
    split; [reflexivity|]. split; [reflexivity|]. split; [reflexivity|].
    apply (parabola_is_derive_near_grid_point erfR a b d m (fun t => Fm id t s e) (xof s) Hd Hb Hm Hcell).
  Qed.

  Theorem parabola_history_exact_for_quadratics (C2 C1 C0 : Z -> nat -> nat -> R)
      (calls : list (Z * list R)) (xofs : list (nat -> R)) :
    (forall id t s e, Fm id t s e = C2 id s e * (t * t) + C1 id s e * t + C0 id s e) ->
    (forall k id xs xof, nth_error calls k = Some (id, xs) -> nth_error xofs k = Some xof ->
       forall s e, In (s, e) (layout id) -> bcast xs s = Ok (xof s) /\ g_lb g <= xof s) ->
    forall k id xs xof v gr j s e,
      nth_error calls k = Some (id, xs) -> nth_error xofs k = Some xof ->
      nth_error (par_run RN g Fm layout None calls) k = Some (Ok (v, gr)) ->
      nth_error (layout id) j = Some (s, e) ->
      nth_error v j = Some (Fm id (xof s) s e) /\
      nth_error gr j = Some (2 * C2 id s e * xof s + C1 id s e).
  Proof.
    intros HF Hargs k id xs xof v gr j s e Hc Hx Hr Hj.
    assert (Hargs' : forall k id xs xof, nth_error calls k = Some (id, xs) -> nth_error xofs k = Some xof ->
                       forall s e, In (s, e) (layout id) -> bcast xs s = Ok (xof s)).
    { intros k' id' xs' xof' Hc' Hx' s' e' Hi. apply (Hargs k' id' xs' xof' Hc' Hx' s' e' Hi). }
    destruct (parabola_history_consistent erfR g Fm layout calls xofs None (or_introl eq_refl) Hargs'
                                          k id xs xof v gr Hc Hx Hr) as [Ev Eg].
    assert (Hlb : g_lb g <= xof s).
    { apply (Hargs k id xs xof Hc Hx s e). eapply nth_error_In; eauto. }
    assert (EF : (fun t => Fm id t s e) = (fun t => C2 id s e * (t * t) + C1 id s e * t + C0 id s e)).
    { apply FunctionalExtensionality.functional_extensionality. intros t. apply HF. }
    destruct (parabola_exact_degree_2 erfR a b d (C2 id s e) (C1 id s e) (C0 id s e) (xof s) Hd Hb Hlb) as [E1 E2].
    rewrite Ev, Eg. unfold par_vals, par_grads. rewrite !nth_error_map, Hj. cbn [option_map fst snd].
    rewrite EF, E1, E2, HF. split; reflexivity.
  Qed.
End EndToEnd.
