(* C15, the whole interpolation call (values array laid out by (source, event),
   one shared or several per-source parameter values): on an empty cache it
   returns, entry by entry, the single-entry formulas -- in EVERY number system;
   and the cache key determines the cached parametrisation (exact arithmetic). *)
From Coq Require Import Reals ZArith List Bool Lra Lia.
From Sky Require Import Result PyList Num NumR G_grid M_Grid P_Grid.
Import ListNotations.

(* characterising lemmas of the cache-key kernels (_is_cached) *)
Lemma K_lin_is_cached cid id ae :
  lin_is_cached cid id ae = match cid with Some c => (c =? id)%Z && ae | None => false end.
Proof. destruct cid; reflexivity. Qed.
Lemma K_par_is_cached_id cid id :
  par_is_cached_id cid id = match cid with Some c => (c =? id)%Z | None => false end.
Proof. destruct cid; reflexivity. Qed.
Lemma K_par_is_cached_differs b : par_is_cached_differs b = b.
Proof. reflexivity. Qed.

(* what is stored in / read back from the caches: each keyword of the _create_cache
   calls carries the variable of the same name (the hand model stores exactly these) *)
Lemma K_cache_store {T} (N : Num T) (id : Z) (x : T) :
  lin_cache_store_id id = id /\ lin_cache_store_x0 N x = x /\ lin_cache_store_m N x = x /\ lin_cache_store_b N x = x /\
  par_cache_store_id id = id /\ par_cache_store_x1 N x = x /\ par_cache_store_M1 N x = x /\
  par_cache_store_a N x = x /\ par_cache_store_b N x = x /\
  lin_cache_read_m N x = x /\ lin_cache_read_b N x = x.
Proof. repeat split. Qed.

(* the per-source -> values broadcast helper of TrialDataManager: skeleton pinned, the shared-value test
   is "length = 1", the length check is "length <> n_sources", a source's block has as many entries as
   there are values with that source INDEX (so a source without values gets an empty block) *)
Lemma K_bcast_helper (l ns n : Z) :
  sh_bcast_sources = true /\ bc_is_shared l = (l =? 1)%Z /\ bc_bad_length l ns = negb (l =? ns)%Z /\ bc_count n = n.
Proof. repeat split. Qed.
Lemma bcast_shared_iff_length_1 {T} (xs : list T) :
  bc_is_shared (zlen xs) = true <-> exists x, xs = [x] /\ forall s, bcast xs s = Ok x.
Proof.
  unfold bc_is_shared, zlen. split.
  - intros H. apply Z.eqb_eq in H. destruct xs as [|x [|y r]]; cbn [length] in H; try lia.
    exists x. split; [reflexivity|intros s; reflexivity].
  - intros [x [-> _]]. reflexivity.
Qed.

Section CallStruct.
  Context {T : Type} (N : Num T).

  (* the value of the (shared or per-source) parameter seen by source s *)
  Lemma bcast_map (f : T -> T) xs s :
    bcast (map f xs) s = match bcast xs s with Ok x => Ok (f x) | Err e => Err e end.
  Proof.
    destruct xs as [|x [|y r]]; cbn [map bcast].
    - destruct s; reflexivity.
    - reflexivity.
    - rewrite <- (map_cons f y r), <- (map_cons f x (y :: r)). rewrite nth_error_map.
      destruct (nth_error (x :: y :: r) s); reflexivity.
  Qed.

  Lemma mapM_ok {A B} (f : A -> res B) (h : A -> B) l :
    (forall a, In a l -> f a = Ok (h a)) -> mapM f l = Ok (map h l).
  Proof.
    induction l as [|a l IH]; intros H; cbn [mapM map]; [reflexivity|].
    rewrite (H a (or_introl eq_refl)). cbn [bind]. rewrite IH by (intros; apply H; right; assumption).
    reflexivity.
  Qed.

  Lemma lin_entry_is_per_entry g Fm id xs s e x :
    bcast xs s = Ok x ->
    lin_entry N g Fm id xs (map (fun x => lin_x0 N (round_lower N g x)) xs)
              (map (fun x => lin_x1 N (round_upper N g x)) xs) (s, e)
    = Ok (lin_value1 N g (fun t => Fm id t s e) x, lin_grad1 N g (fun t => Fm id t s e) x,
          snd (lin_params N g (fun t => Fm id t s e) x)).
  Proof.
    intros Hx. unfold lin_entry. rewrite Hx, !bcast_map, Hx. cbn [bind]. reflexivity.
  Qed.

  (* T: a call on an empty cache returns, entry by entry, the single-source
     formulas evaluated at that source's parameter value (one shared value:
     every source sees xs[0]) -- in every number system *)
  Theorem lin_call_fresh_is_per_entry g Fm idxs id xs (xof : nat -> T) :
    (forall s e, In (s, e) idxs -> bcast xs s = Ok (xof s)) ->
    exists st', lin_call N g Fm idxs None id xs =
      Ok (map (fun se => lin_value1 N g (fun t => Fm id t (fst se) (snd se)) (xof (fst se))) idxs,
          map (fun se => lin_grad1 N g (fun t => Fm id t (fst se) (snd se)) (xof (fst se))) idxs, st').
  Proof.
    intros H. unfold lin_call. rewrite K_lin_is_cached. cbn [bind].
    rewrite (mapM_ok _ (fun se => (lin_value1 N g (fun t => Fm id t (fst se) (snd se)) (xof (fst se)),
                                   lin_grad1 N g (fun t => Fm id t (fst se) (snd se)) (xof (fst se)),
                                   snd (lin_params N g (fun t => Fm id t (fst se) (snd se)) (xof (fst se)))))).
    - cbn [bind]. eexists. rewrite !map_map. cbn [fst snd]. reflexivity.
    - intros [s e] Hin. cbn [fst snd]. apply lin_entry_is_per_entry. eapply H; eauto.
  Qed.
End CallStruct.


Section CallStruct2.
  Context {T : Type} (N : Num T).

  Definition par_prm g (Fm : manifold) id (x : T) (s e : nat) : T * T * T :=
    let '(_, M1, a, b) := par_params N g (fun t => Fm id t s e) x in (M1, a, b).

  Lemma par_entry_is_per_entry g Fm id xs s e x :
    bcast xs s = Ok x ->
    let x1s := map (fun x => par_x1 N (round_nearest N g x)) xs in
    let dx := par_dx N (g_delta g) in
    par_entry_params N g Fm id x1s
       (map (fun x1 => par_x0 N (round_nearest N g (par_x0_arg N x1 dx))) x1s)
       (map (fun x1 => par_x2 N (round_nearest N g (par_x2_arg N x1 dx))) x1s) (s, e)
    = Ok (par_prm g Fm id x s e).
  Proof.
    intros Hx x1s dx. unfold par_entry_params, x1s. rewrite !bcast_map, Hx. cbn [bind]. reflexivity.
  Qed.

  Lemma par_values_per_entry g Fm id xs (xof : nat -> T) idxs :
    (forall s e, In (s, e) idxs -> bcast xs s = Ok (xof s)) ->
    par_values N xs (map (fun x => par_x1 N (round_nearest N g x)) xs) idxs
               (map (fun se => par_prm g Fm id (xof (fst se)) (fst se) (snd se)) idxs)
    = Ok (map (fun se => (par_value1 N g (fun t => Fm id t (fst se) (snd se)) (xof (fst se)),
                          par_grad1 N g (fun t => Fm id t (fst se) (snd se)) (xof (fst se)))) idxs).
  Proof.
    induction idxs as [|[s e] r IH]; intros H; cbn [map par_values]; [reflexivity|].
    cbn [fst snd]. unfold par_prm at 1.
    destruct (par_params N g (fun t => Fm id t s e) (xof s)) as [[[x1 M1] a] b] eqn:E.
    rewrite bcast_map, (H s e (or_introl eq_refl)). cbn [bind].
    rewrite IH by (intros; eapply H; right; eassumption). cbn [bind].
    unfold par_value1, par_grad1. rewrite E.
    assert (Ex1 : x1 = par_x1 N (round_nearest N g (xof s))).
    { unfold par_params in E. cbv zeta in E. inversion E. reflexivity. }
    rewrite <- Ex1. reflexivity.
  Qed.

  Theorem par_call_fresh_is_per_entry g Fm idxs id xs (xof : nat -> T) :
    (forall s e, In (s, e) idxs -> bcast xs s = Ok (xof s)) ->
    exists st', par_call N g Fm idxs None id xs =
      Ok (map (fun se => par_value1 N g (fun t => Fm id t (fst se) (snd se)) (xof (fst se))) idxs,
          map (fun se => par_grad1 N g (fun t => Fm id t (fst se) (snd se)) (xof (fst se))) idxs, st').
  Proof.
    intros H. unfold par_call. rewrite K_par_is_cached_id. cbn [bind].
    rewrite (mapM_ok _ (fun se => par_prm g Fm id (xof (fst se)) (fst se) (snd se))).
    - cbn [bind]. rewrite (par_values_per_entry g Fm id xs xof idxs H). cbn [bind].
      eexists. rewrite !map_map. cbn [fst snd]. reflexivity.
    - intros [s e] Hin. cbn [fst snd]. apply par_entry_is_per_entry. eapply H; eauto.
  Qed.
End CallStruct2.

(* the cache key determines the parametrisation (exact arithmetic) *)
Section CacheKey.
  Variable erfR : R -> R.
  Notation RN := (RNum erfR).
  Open Scope R_scope.

  Theorem linear_params_determined_by_x0 a b d F x x' : (0 <= d)%Z -> (0 < b)%Z ->
    let g := dgrid a b d in g_lb g <= x -> g_lb g <= x' ->
    round_lower RN g x = round_lower RN g x' ->
    lin_params RN g F x = lin_params RN g F x' /\
    (let '(_, m, b0) := lin_params RN g F x' in lin_value_cached RN m x b0 = lin_value1 RN g F x
                                                /\ lin_grad_cached RN m = lin_grad1 RN g F x).
  Proof.
    intros Hd Hb g Hx Hx' E.
    destruct (regular_bracket erfR a b d x Hd Hb Hx) as [n [_ [_ [_ [U _]]]]].
    destruct (regular_bracket erfR a b d x' Hd Hb Hx') as [n' [_ [_ [_ [U' _]]]]].
    fold g in U, U'.
    assert (EU : round_upper RN g x = round_upper RN g x') by (rewrite U, U', E; reflexivity).
    assert (EP : lin_params RN g F x = lin_params RN g F x').
    { unfold lin_params. rewrite E, EU. reflexivity. }
    split; [exact EP|].
    unfold lin_value1, lin_grad1. rewrite EP.
    destruct (lin_params RN g F x') as [[x0 m] b0]. split; reflexivity.
  Qed.

  Theorem parabola_params_determined_by_x1 (g : gdesc) F x x' :
    round_nearest RN g x = round_nearest RN g x' ->
    par_params RN g F x = par_params RN g F x'.
  Proof. intros E. unfold par_params. rewrite E. reflexivity. Qed.
End CacheKey.
