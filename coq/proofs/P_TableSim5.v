(* C16 — FULL REFINEMENT: for every operation sequence the abstraction of the final world
   (all live tables as values) and all outcomes are those of the plain-table interpreter. *)
From Coq Require Import ZArith List Bool Lia Arith.
From Sky Require Import Result PyList G_table M_Table S_Table S_TableInterp P_TableBase P_TableOps P_TableOps2 P_TableOps3 P_TableCtor P_Table P_TableSim P_TableSim2 P_TableSim3 P_TableSim4.
Import ListNotations.
Open Scope Z_scope.

Lemma map_set_nth : forall A B (f : A -> B) l t v, map f (set_nth l t v) = set_nth (map f l) t (f v).
Proof. induction l as [|a r IH]; intros [|t] v; cbn; try reflexivity. f_equal; apply IH. Qed.

Lemma set_nth_same : forall A (l : list A) t v, nth_error l t = Some v -> set_nth l t v = l.
Proof.
  induction l as [|a r IH]; intros [|t] v H; cbn in *; try discriminate; try reflexivity.
  - inversion H; reflexivity.
  - f_equal; apply IH; assumption.
Qed.

Lemma nth_error_ext' : forall A (l1 l2 : list A), (forall j, nth_error l1 j = nth_error l2 j) -> l1 = l2.
Proof.
  induction l1 as [|a r IH]; intros [|b r2] H.
  - reflexivity.
  - specialize (H 0%nat); discriminate.
  - specialize (H 0%nat); discriminate.
  - pose proof (H 0%nat) as Q; cbn in Q; inversion Q; subst. f_equal. apply IH. intros j; apply (H (S j)).
Qed.

Lemma set_nth_agree : forall A (l1 l2 : list A) t v, length l1 = length l2 ->
  (forall j, j <> t -> nth_error l1 j = nth_error l2 j) -> set_nth l1 t v = set_nth l2 t v.
Proof.
  induction l1 as [|a r IH]; intros [|b r2] t v L H; cbn in *; try discriminate; try reflexivity.
  destruct t as [|t].
  - f_equal. apply nth_error_ext'. intros j. apply (H (S j)). discriminate.
  - f_equal.
    + pose proof (H 0%nat) as Q. cbn in Q. assert (0 <> S t)%nat by discriminate. specialize (Q H0). inversion Q; reflexivity.
    + apply IH; [lia|]. intros j Hj. apply (H (S j)). congruence.
Qed.

Lemma abs_obj_frame : forall s s' o, (forall l, In l (obj_locs o) -> rd s' l = rd s l) -> abs_obj s' o = abs_obj s o.
Proof.
  intros s s' o H. unfold abs_obj. f_equal. unfold vals_of. apply map_ext_in. intros [n l] Hi; cbn.
  unfold getb. rewrite H; [reflexivity|]. unfold obj_locs; apply in_or_app; left. apply (in_map snd) in Hi; exact Hi.
Qed.

Lemma absw_frame_all : forall w w', wframe w None w' -> map (abs_obj (wstore w')) (wobjs w) = absw w.
Proof.
  intros w w' F. unfold absw. apply map_ext_in. intros o Ho. apply In_nth_error in Ho. destruct Ho as [j Hj].
  destruct (F j o Hj) as [_ Q]; [discriminate|]. apply abs_obj_frame; assumption.
Qed.

(* a mutator on table t *)
Lemma mut_sim : forall w t o r spec, nth_error (wobjs w) t = Some o ->
  wframe w (Some t) (fst (put_obj w t r)) ->
  sim1 r (abs_obj (wstore w) o) spec ->
  (absw (fst (put_obj w t r)), snd (put_obj w t r)) = s_put_table (absw w) t spec.
Proof.
  intros w t o [[s' o'] x] spec Ho F S. unfold put_obj in *; cbn [fst snd] in *.
  unfold absw at 1; cbn [wstore wobjs]. rewrite map_set_nth.
  assert (AG : set_nth (map (abs_obj s') (wobjs w)) t (abs_obj s' o') = set_nth (absw w) t (abs_obj s' o')).
  { apply set_nth_agree; [unfold absw; rewrite !map_length; reflexivity|].
    intros j Hj. unfold absw. rewrite !nth_error_map. destruct (nth_error (wobjs w) j) as [oj|] eqn:Q; [|reflexivity].
    cbn. f_equal. destruct (F j oj Q) as [_ Q2]; [congruence|]. apply abs_obj_frame; assumption. }
  rewrite AG. unfold sim1 in S; cbn [fst snd] in S. destruct spec as [t'|e]; destruct S as [-> S]; cbn [s_put_table].
  - rewrite S; reflexivity.
  - rewrite S. rewrite set_nth_same; [reflexivity|]. unfold absw. rewrite nth_error_map, Ho. reflexivity.
Qed.

(* a creator *)
Lemma new_sim : forall w (r : store * option obj * outcome) spec,
  wframe w None (fst (new_obj w r)) ->
  match r with
  | (s', Some o', x) => x = Done /\ spec = Ok (abs_obj s' o')
  | (s', None, x) => exists e, x = Raised e /\ spec = Err e
  end ->
  (absw (fst (new_obj w r)), snd (new_obj w r)) = s_new_table (absw w) spec.
Proof.
  intros w [[s' [o'|]] x] spec F S; unfold new_obj in *; cbn [fst snd] in *.
  - destruct S as [-> ->]. cbn [s_new_table]. unfold absw at 1; cbn [wstore wobjs]. rewrite map_app. cbn [map].
    f_equal. f_equal. apply (absw_frame_all w _ F).
  - destruct S as (e & -> & ->). cbn [s_new_table]. f_equal. apply (absw_frame_all w _ F).
Qed.

Lemma nth_absw : forall w t, nth_error (absw w) t = option_map (abs_obj (wstore w)) (nth_error (wobjs w) t).
Proof. intros; unfold absw; apply nth_error_map. Qed.

Theorem sim_step : forall w p, winv w -> op_wf p ->
  (absw (fst (step w p)), snd (step w p)) = s_step (absw w) p.
Proof.
  intros w p W WF. pose proof (step_spec w p W WF) as [_ FR]. pose proof W as [WI WD].
  destruct p; cbn [step s_step target] in *; unfold on1, s_on in *; rewrite ?nth_absw.
  - (* OCtor *)
    assert (Hnil : valid (wstore w) []) by (intros l []).
    pose proof (alloc_cols_sim cols (wstore w) [] Hnil) as A.
    destruct (alloc_cols (wstore w) cols []) as [s1 d]. destruct A as (_ & A2 & A3). cbn [vals_of map] in A3.
    pose proof (ctor_dict_sim s1 d keep conv exc copy A2) as C. rewrite A3 in C.
    apply new_sim; [assumption|].
    destruct (ctor_dict s1 d keep conv exc copy) as [[s2 [o'|]] x].
    + destruct C as (C1 & _ & C3); split; assumption.
    + destruct C as (_ & e & C2 & C3); exists e; split; assumption.
  - (* OCtorFrom *)
    destruct (nth_error (wobjs w) src) as [a|] eqn:Ha; cbn [option_map]; [|reflexivity].
    destruct (WI _ _ Ha) as (E & R & L). rewrite (abs_obj_repr _ _ _ R).
    pose proof (ctor_from_sim (wstore w) E a keep conv exc R) as C. cbn [alen abs_of].
    apply new_sim; [assumption|].
    destruct (ctor_from (wstore w) a keep conv exc) as [[s2 [o'|]] x].
    + destruct C as (C1 & _ & C3); split; assumption.
    + destruct C as (_ & e & C2 & C3); exists e; split; assumption.
  - (* OSelect *)
    destruct (nth_error (wobjs w) src) as [a|] eqn:Ha; cbn [option_map]; [|reflexivity].
    destruct (WI _ _ Ha) as (E & R & L). rewrite (abs_obj_repr _ _ _ R).
    pose proof (get_selection_sim (wstore w) E a sl R) as C.
    apply new_sim; [assumption|].
    destruct (get_selection (wstore w) a sl) as [[s2 [o'|]] x].
    + destruct C as (C1 & _ & C3); split; assumption.
    + destruct C as (_ & e & C2 & C3); exists e; split; assumption.
  - (* OSetSel *)
    destruct (nth_error (wobjs w) t) as [o|] eqn:Ho; cbn [option_map]; [|reflexivity].
    destruct (nth_error (wobjs w) src) as [a|] eqn:Ha; cbn [option_map]; [|reflexivity].
    destruct (WI _ _ Ho) as (E & R & L). destruct (WI _ _ Ha) as (Ea & Ra & La).
    assert (Hc : compat o a).
    { destruct (Nat.eq_dec t src) as [->|Hne].
      - rewrite Ho in Ha; inversion Ha; subst a. eapply compat_self; eassumption.
      - apply compat_disj. intros l Hl. eapply (WD t src); eassumption. }
    eapply mut_sim; [eassumption | assumption |].
    rewrite (abs_obj_repr _ _ _ R), (abs_obj_repr _ _ _ Ra). apply sim_setsel; assumption.
  - (* OAppend *)
    destruct (nth_error (wobjs w) t) as [o|] eqn:Ho; cbn [option_map]; [|reflexivity].
    destruct (nth_error (wobjs w) src) as [a|] eqn:Ha; cbn [option_map]; [|reflexivity].
    destruct (WI _ _ Ho) as (E & R & L). destruct (WI _ _ Ha) as (Ea & Ra & La).
    eapply mut_sim; [eassumption | assumption |].
    rewrite (abs_obj_repr _ _ _ R), (abs_obj_repr _ _ _ Ra). apply sim_append; assumption.
  - (* OAppendField *)
    destruct (nth_error (wobjs w) t) as [o|] eqn:Ho; cbn [option_map]; [|reflexivity].
    destruct (WI _ _ Ho) as (E & R & L). cbn [alloc] in *.
    eapply mut_sim; [eassumption | assumption |].
    rewrite (abs_obj_repr _ _ _ R). apply sim_append_field; assumption.
  - (* OSetItem *)
    destruct (nth_error (wobjs w) t) as [o|] eqn:Ho; cbn [option_map]; [|reflexivity].
    destruct (WI _ _ Ho) as (E & R & L). cbn [alloc] in *.
    eapply mut_sim; [eassumption | assumption |].
    rewrite (abs_obj_repr _ _ _ R). apply sim_setitem; assumption.
  - (* ORemove *)
    destruct (nth_error (wobjs w) t) as [o|] eqn:Ho; cbn [option_map]; [|reflexivity].
    destruct (WI _ _ Ho) as (E & R & L).
    eapply mut_sim; [eassumption | assumption |].
    rewrite (abs_obj_repr _ _ _ R). apply sim_remove; assumption.
  - (* ORename *)
    destruct (nth_error (wobjs w) t) as [o|] eqn:Ho; cbn [option_map]; [|reflexivity].
    destruct (WI _ _ Ho) as (E & R & L).
    eapply mut_sim; [eassumption | assumption |].
    rewrite (abs_obj_repr _ _ _ R). apply sim_rename; assumption.
  - (* OTidy *)
    destruct (nth_error (wobjs w) t) as [o|] eqn:Ho; cbn [option_map]; [|reflexivity].
    destruct (WI _ _ Ho) as (E & R & L).
    eapply mut_sim; [eassumption | assumption |].
    rewrite (abs_obj_repr _ _ _ R). apply sim_tidy; assumption.
  - (* OSort *)
    destruct (nth_error (wobjs w) t) as [o|] eqn:Ho; cbn [option_map]; [|reflexivity].
    destruct (WI _ _ Ho) as (E & R & L). rewrite (abs_obj_repr _ _ _ R).
    pose proof (sim_sort (wstore w) E o n perm R L) as S.
    destruct (s_sort (abs_of E o) n perm) as [r|].
    + eapply mut_sim; [eassumption | assumption |]. rewrite (abs_obj_repr _ _ _ R). assumption.
    + destruct S as [S1 S2].
      (* Stuck: the state is unchanged *)
      destruct (sort_by_field (wstore w) o n perm) as [[s' o'] x] eqn:SB. cbn [fst snd] in *. subst x.
      pose proof (mut_sim w t o ((s', o'), Raised KeyError) (Err KeyError) Ho) as MS.
      unfold put_obj in *; cbn [fst snd] in *.
      assert (S3 : sim1 ((s', o'), Raised KeyError) (abs_obj (wstore w) o) (Err KeyError)).
      { unfold sim1; cbn [fst snd]. split; [reflexivity|]. rewrite (abs_obj_repr _ _ _ R). assumption. }
      specialize (MS FR S3). cbn [s_put_table] in MS. inversion MS as [Q]. rewrite Q. reflexivity.
  - (* OConvert *)
    destruct (nth_error (wobjs w) t) as [o|] eqn:Ho; cbn [option_map]; [|reflexivity].
    destruct (WI _ _ Ho) as (E & R & L).
    eapply mut_sim; [eassumption | assumption |].
    rewrite (abs_obj_repr _ _ _ R). apply sim_convert; assumption.
  - (* OSetDtype *)
    destruct (nth_error (wobjs w) t) as [o|] eqn:Ho; cbn [option_map]; [|reflexivity].
    destruct (WI _ _ Ho) as (E & R & L).
    eapply mut_sim; [eassumption | assumption |].
    rewrite (abs_obj_repr _ _ _ R). apply sim_set_dtype; assumption.
  - (* OIndices *)
    destruct (nth_error (wobjs w) t) as [o|] eqn:Ho; cbn [option_map]; [|reflexivity].
    destruct (WI _ _ Ho) as (E & R & L).
    eapply mut_sim; [eassumption | assumption |].
    rewrite (abs_obj_repr _ _ _ R). apply sim_indices; assumption.
  - destruct WF.
Qed.
