(* C10, state machines: (1) SignalTimePDF over source rows / get_pd calls — the
   cached S is always the S of the current profile, so every source is
   normalised with its OWN S (any number system); real-number reading of the
   setters; (2) BackgroundI3SpatialPDF over add_events / reset — the node
   values always integrate to one; the log-spline as an oracle. *)
From Coq Require Import Reals ZArith List Bool Lra Lia.
From Coquelicot Require Import Coquelicot.
From Sky Require Import Num NumR Result G_pdf M_Pdf M_PdfState S_Pdf S_PdfState P_PdfTime P_Pdf.
Import ListNotations.

(* ================================================================== any number system *)
Section Poly.
  Context {T : Type} (N : Num T).

  Lemma K_sp_updated : sp_updated_init = false /\ sp_updated_set = true.
  Proof. split; reflexivity. Qed.

  (* set_params reports `updated = False` only if no setter was called *)
  Lemma apply_row_noupd tol p r :
    snd (apply_row N tol p r) = false -> fst (apply_row N tol p r) = p.
  Proof.
    destruct r as [a b]. destruct p as [ts te | ts te s]; cbn [apply_row].
    - destruct (sp_changed N a (bx_get_t0 N ts te)); cbv zeta.
      + destruct (sp_changed N b _); cbn [fst snd]; intros H; discriminate H.
      + destruct (sp_changed N b _); cbn [fst snd]; intros H; [discriminate H | reflexivity].
    - destruct (sp_changed N a (gs_get_t0 N ts te)); cbv zeta.
      + destruct (sp_changed N b s); cbn [fst snd]; intros H; discriminate H.
      + destruct (sp_changed N b s); cbn [fst snd]; intros H; [discriminate H | reflexivity].
  Qed.

  Lemma tinit_inv ivs p : tinv N ivs (tinit N ivs p).
  Proof. reflexivity. Qed.

  Lemma tstep_fst ivs tol st r : fst (tstep N ivs tol st r) = fst (apply_row N tol (fst st) r).
  Proof. unfold tstep. destruct (apply_row N tol (fst st) r). reflexivity. Qed.

  (* `if updated: self._S = ...` keeps the invariant *)
  Lemma tstep_inv ivs tol st r : tinv N ivs st -> tinv N ivs (tstep N ivs tol st r).
  Proof.
    unfold tinv, tstep. intros H.
    destruct (apply_row N tol (fst st) r) as [p' upd] eqn:E. cbn [fst snd].
    destruct upd; [reflexivity|].
    assert (Hp : p' = fst st).
    { change p' with (fst (p', false)). rewrite <- E. apply apply_row_noupd. rewrite E. reflexivity. }
    rewrite Hp. exact H.
  Qed.

  Lemma tpd_sig ivs st t : tinv N ivs st -> tpd N ivs st t = sig_time_pd N ivs (fst st) t.
  Proof. unfold tinv, tpd, sig_time_pd. intros ->. reflexivity. Qed.

  (* every source block is the density normalised with the S of ITS profile *)
  Lemma calc_loop_spec ivs tol st rows times :
    tinv N ivs st ->
    fst (calc_loop N ivs tol st rows times) = calc_spec N ivs tol (fst st) rows times /\
    tinv N ivs (snd (calc_loop N ivs tol st rows times)) /\
    fst (snd (calc_loop N ivs tol st rows times))
      = rows_profile N tol (fst st) (firstn (length times) rows).
  Proof.
    revert st times. induction rows as [|r rs IH]; intros st times Hinv.
    - cbn. rewrite firstn_nil. repeat split; [exact Hinv].
    - destruct times as [|ts tss]; [cbn; repeat split; exact Hinv|].
      cbn [calc_loop calc_spec length firstn]. cbv zeta.
      pose proof (tstep_inv ivs tol st r Hinv) as Hinv'.
      destruct (IH (tstep N ivs tol st r) tss Hinv') as (I1 & I2 & I3).
      destruct (calc_loop N ivs tol (tstep N ivs tol st r) rs tss) as [out stf] eqn:E.
      cbn [fst snd] in *. split; [|split; [exact I2|]].
      + rewrite I1, tstep_fst. f_equal.
        apply map_ext. intros t. rewrite tpd_sig by exact Hinv'. rewrite tstep_fst. reflexivity.
      + rewrite I3, tstep_fst. reflexivity.
  Qed.

  (* _calculate_pd refreshes S first, so this holds from ANY state, stale or not *)
  Theorem calc_pd_spec ivs tol st rows times :
    fst (calc_pd N ivs tol st rows times) = calc_spec N ivs tol (fst st) rows times /\
    tinv N ivs (snd (calc_pd N ivs tol st rows times)) /\
    fst (snd (calc_pd N ivs tol st rows times))
      = rows_profile N tol (fst st) (firstn (length times) rows).
  Proof.
    unfold calc_pd.
    exact (calc_loop_spec ivs tol (fst st, S_of N ivs (fst st)) rows times eq_refl).
  Qed.

  (* ... and over any history of get_pd calls on one object *)
  Theorem calc_calls_inv ivs tol st calls :
    calls <> [] -> tinv N ivs (snd (calc_calls N ivs tol st calls)).
  Proof.
    revert st. induction calls as [|[rows times] cs IH]; intros st Hne; [contradiction|].
    cbn [calc_calls].
    destruct (calc_pd_spec ivs tol st rows times) as (_ & I2 & _).
    destruct (calc_pd N ivs tol st rows times) as [o st'] eqn:E. cbn [snd] in I2.
    destruct cs as [|c cs'].
    - cbn. exact I2.
    - assert (Hne' : c :: cs' <> []) by discriminate.
      specialize (IH st' Hne').
      destruct (calc_calls N ivs tol st' (c :: cs')) as [os stf]. exact IH.
  Qed.

  Theorem calc_calls_inv' ivs tol st calls :
    tinv N ivs st -> tinv N ivs (snd (calc_calls N ivs tol st calls)).
  Proof.
    intros H. destruct calls as [|c cs]; [exact H|]. apply calc_calls_inv. discriminate.
  Qed.

  (* a TimePDF object under its public operations and outside changes of the
     live time / the shared profile: what it returns depends on the CURRENT
     live time and profile only, whatever the cached S was *)
  Theorem orun_spec tol o ops :
    snd (orun N tol o ops) = spec_run N tol (o_ivs o, o_prof o) ops.
  Proof.
    revert o. induction ops as [|op r IH]; intros o; [reflexivity|].
    cbn [orun spec_run].
    destruct (ostep N tol o op) as [o' out] eqn:E.
    assert (Hs : spec_step N tol (o_ivs o, o_prof o) op = ((o_ivs o', o_prof o'), out)).
    { destruct op; cbn [ostep spec_step] in *.
      - injection E as <- <-. reflexivity.
      - injection E as <- <-. reflexivity.
      - injection E as <- <-. reflexivity.
      - injection E as <- <-. reflexivity.
      - destruct (calc_pd_spec (o_ivs o) tol (o_prof o, o_S o) rows times) as (I1 & _ & I3).
        destruct (calc_pd N (o_ivs o) tol (o_prof o, o_S o) rows times) as [out' st'].
        cbn [fst snd] in *. injection E as <- <-. cbn [o_ivs o_prof]. rewrite I1, I3. reflexivity.
      - injection E as <- <-. reflexivity. }
    rewrite Hs. specialize (IH o').
    destruct (orun N tol o' r) as [of outs]. cbn [snd] in *. rewrite IH. reflexivity.
  Qed.
End Poly.

(* ================================================================== real-number reading *)
Open Scope R_scope.

Section RowsR.
  Variable e : R -> R.
  Let N := RNum e.

  Lemma K_sp_changed a b : sp_changed N a b = negb (Reqb a b).
  Proof. reflexivity. Qed.
  Lemma K_bx_get_t0 ts te : bx_get_t0 N ts te = (ts + te) / 2.
  Proof. unfold bx_get_t0, N. num_R. lra. Qed.
  Lemma K_bx_get_tw ts te : bx_get_tw N ts te = te - ts.
  Proof. reflexivity. Qed.
  Lemma K_bx_move ts te a old :
    bx_move_start N ts (bx_set_t0_dt N a old) = ts + (a - old) /\
    bx_move_stop N te (bx_set_t0_dt N a old) = te + (a - old).
  Proof. split; reflexivity. Qed.
  Lemma K_bx_set_tw t0 w :
    bx_set_tw_start N t0 w = t0 - w / 2 /\ bx_set_tw_stop N t0 w = t0 + w / 2.
  Proof. unfold bx_set_tw_start, bx_set_tw_stop, N. num_R. split; lra. Qed.
  Lemma K_gs_get_t0 ts te : gs_get_t0 N ts te = (ts + te) / 2.
  Proof. unfold gs_get_t0, N. num_R. lra. Qed.
  Lemma K_gs_move ts te a old :
    gs_move_start N ts (gs_set_t0_dt N a old) = ts + (a - old) /\
    gs_move_stop N te (gs_set_t0_dt N a old) = te + (a - old).
  Proof. split; reflexivity. Qed.
  Lemma K_gs_set_sigma t0 d :
    gs_set_sigma_start N t0 d = t0 - d /\ gs_set_sigma_stop N t0 d = t0 + d.
  Proof. split; reflexivity. Qed.
  Lemma K_gs_dt s tol :
    gs_set_sigma_dt N s tol = sqrt (- 2 * (s * s) * ln tol) /\ gs_ctor_dt N s tol = gs_set_sigma_dt N s tol.
  Proof. unfold gs_ctor_dt, gs_set_sigma_dt, N. num_R. split; reflexivity. Qed.

  (* after a row (t0, tw) the box is exactly [t0 - tw/2, t0 + tw/2] *)
  Lemma apply_row_box tol ts te a b :
    fst (apply_row N tol (Box ts te) (a, b)) = Box (a - b / 2) (a + b / 2).
  Proof.
    cbn [apply_row].
    rewrite !K_sp_changed, !K_bx_get_t0.
    destruct (Reqb a ((ts + te) / 2)) eqn:E1; cbn [negb]; cbv zeta.
    - apply Reqb_true in E1. rewrite K_sp_changed, K_bx_get_tw.
      destruct (Reqb b (te - ts)) eqn:E2; cbn [negb fst].
      + apply Reqb_true in E2. f_equal; lra.
      + rewrite K_bx_get_t0. destruct (K_bx_set_tw ((ts + te) / 2) b) as [-> ->]. f_equal; lra.
    - destruct (K_bx_move ts te a ((ts + te) / 2)) as [-> ->].
      rewrite K_sp_changed, K_bx_get_tw.
      destruct (Reqb b _) eqn:E2; cbn [negb fst].
      + apply Reqb_true in E2. f_equal; lra.
      + rewrite K_bx_get_t0.
        destruct (K_bx_set_tw ((ts + (a - (ts + te) / 2) + (te + (a - (ts + te) / 2))) / 2) b) as [-> ->].
        f_equal; lra.
  Qed.

  (* the gaussian's state is canonical when its support window matches sigma *)
  Definition gcanon (tol : R) (p : @profile R) : Prop :=
    match p with
    | Gauss ts te s => te - ts = 2 * gs_set_sigma_dt N s tol
    | Box _ _ => True
    end.

  Lemma apply_row_gauss tol ts te s a b :
    gcanon tol (Gauss ts te s) ->
    fst (apply_row N tol (Gauss ts te s) (a, b))
    = Gauss (a - gs_set_sigma_dt N b tol) (a + gs_set_sigma_dt N b tol) b.
  Proof.
    cbn [gcanon]. intros Hc. cbn [apply_row].
    rewrite !K_sp_changed, !K_gs_get_t0.
    destruct (Reqb a ((ts + te) / 2)) eqn:E1; cbn [negb]; cbv zeta.
    - apply Reqb_true in E1.
      destruct (Reqb b s) eqn:E2; cbn [negb fst].
      + apply Reqb_true in E2. subst b. f_equal; lra.
      + rewrite K_gs_get_t0. destruct (K_gs_set_sigma ((ts + te) / 2) (gs_set_sigma_dt N b tol)) as [-> ->].
        f_equal; lra.
    - destruct (K_gs_move ts te a ((ts + te) / 2)) as [-> ->].
      destruct (Reqb b s) eqn:E2; cbn [negb fst].
      + apply Reqb_true in E2. subst b. f_equal; lra.
      + rewrite K_gs_get_t0.
        destruct (K_gs_set_sigma ((ts + (a - (ts + te) / 2) + (te + (a - (ts + te) / 2))) / 2)
                                 (gs_set_sigma_dt N b tol)) as [-> ->].
        f_equal; lra.
  Qed.

  Definition row_profile (tol : R) (p : @profile R) (r : R * R) : @profile R :=
    match p with
    | Box _ _ => Box (fst r - snd r / 2) (fst r + snd r / 2)
    | Gauss _ _ _ => Gauss (fst r - gs_set_sigma_dt N (snd r) tol) (fst r + gs_set_sigma_dt N (snd r) tol) (snd r)
    end.

  Lemma apply_row_R tol p r :
    gcanon tol p ->
    fst (apply_row N tol p r) = row_profile tol p r /\ gcanon tol (row_profile tol p r).
  Proof.
    intros Hc. destruct r as [a b]. destruct p as [ts te | ts te s].
    - split; [apply apply_row_box | exact I].
    - split; [apply apply_row_gauss; exact Hc|]. cbn [row_profile gcanon fst snd]. lra.
  Qed.

  (* every source block is the normalised density of the profile its own row asks for *)
  Theorem calc_spec_rows tol ivs p rows times :
    gcanon tol p -> length rows = length times ->
    calc_spec N ivs tol p rows times
    = map (fun rt => map (sig_time_pd N ivs (row_profile tol p (fst rt))) (snd rt)) (combine rows times).
  Proof.
    revert p times. induction rows as [|r rs IH]; intros p times Hc Hlen.
    - reflexivity.
    - destruct times as [|ts tss]; [discriminate|].
      cbn [calc_spec combine map fst snd]. cbv zeta.
      destruct (apply_row_R tol p r Hc) as [-> Hc'].
      f_equal. rewrite IH; [|exact Hc'|cbn in Hlen; lia].
      apply map_ext. intros [r' ts']. cbn [fst snd].
      destruct p; reflexivity.
  Qed.

  Theorem multi_source tol ivs p rows times :
    gcanon tol p -> length rows = length times ->
    fst (calc_pd N ivs tol (tinit N ivs p) rows times)
    = map (fun rt => map (sig_time_pd N ivs (row_profile tol p (fst rt))) (snd rt)) (combine rows times).
  Proof.
    intros Hc Hlen.
    destruct (calc_pd_spec N ivs tol (tinit N ivs p) rows times) as (-> & _).
    apply calc_spec_rows; assumption.
  Qed.

  (* the constructor of the gaussian profile yields a canonical state *)
  Lemma gauss_ctor_canon tol t0 s :
    gcanon tol (Gauss (t0 - gs_ctor_dt N s tol) (t0 + gs_ctor_dt N s tol) s).
  Proof. cbn [gcanon]. destruct (K_gs_dt s tol) as [_ ->]. lra. Qed.
End RowsR.

(* the invariant S = S_of(profile) is NOT preserved by changes from outside, and
   the loop alone (the code before fix 34ac9f2) then returns a density with the
   wrong normalisation: 2/3 instead of 1 *)
Lemma stale_refuted (e : R -> R) :
  tinv (RNum e) [(0, 1); (2, 4)] (Box (1 / 2) 3, 3 / 2) /\
  ~ tinv (RNum e) [(0, 1); (2, 4)] (Box 0 1, 3 / 2) /\
  tpd (RNum e) [(0, 1); (2, 4)] (Box 0 1, 3 / 2) (1 / 2) = 2 / 3 /\
  sig_time_pd (RNum e) [(0, 1); (2, 4)] (Box 0 1) (1 / 2) = 1.
Proof.
  destruct (time_example e) as (_ & HS & _).
  assert (HS1 : S_of (RNum e) [(0, 1); (2, 4)] (Box 0 1) = 1).
  { rewrite S_of_win. cbn [map Rsum fold_right]. unfold win_val.
    cbn [fst snd p_start p_stop prof_int].
    rewrite !K_tp_box_int_m, !K_tp_box_int_lo, !K_tp_box_int_hi, !K_tp_box_int_val.
    rdec. cbn [andb]. rdec. cbn [andb]. lra. }
  split; [unfold tinv; cbn [fst snd]; symmetry; exact HS|].
  split; [unfold tinv; cbn [fst snd]; rewrite HS1; lra|].
  split.
  - unfold tpd, lt_is_on. cbn [existsb fst snd nleb nltb RNum prof_call none nzero].
    rewrite K_tp_box_call_m, K_tp_sig_pd. rdec. cbn [andb orb]. lra.
  - rewrite sig_pd_on, HS1. unfold lt_is_on. cbn [existsb fst snd nleb nltb RNum prof_call none nzero].
    rewrite K_tp_box_call_m. rdec. cbn [andb orb]. lra.
Qed.

(* ================================================================== add_events / reset *)
Section AddEvents.
  Variable e : R -> R.
  Let N := RNum e.

  Lemma K_ae_sum a b : ae_sum N a b = a + b.
  Proof. reflexivity. Qed.
  Lemma K_ae_norm h s up lo : ae_norm N h s up lo = h / s / (up - lo).
  Proof. reflexivity. Qed.

  Definition pos_widths (edges : list R) : Prop :=
    List.Forall (fun lu => fst lu < snd lu) (combine (removelast edges) (tl edges)).

  Lemma lens (edges h : list R) :
    length edges = S (length h) ->
    length (removelast edges) = length h /\ length (tl edges) = length h.
  Proof.
    intros Hlen. destruct edges as [|a edges]; [discriminate|]. split.
    - assert (H : a :: edges <> []) by discriminate.
      pose proof (app_removelast_last 0 H) as Hd.
      apply (f_equal (@length R)) in Hd. rewrite app_length in Hd. cbn [length] in *. lia.
    - cbn in *. lia.
  Qed.

  Lemma Rsum_add (a b : list R) :
    length a = length b ->
    Rsum (map (fun x => fst x + snd x) (combine a b)) = Rsum a + Rsum b.
  Proof.
    revert b. induction a as [|x a IH]; intros [|y b] H; try discriminate; cbn.
    - lra.
    - fold (Rsum (map (fun x => fst x + snd x) (combine a b))). rewrite IH by (cbn in H; lia).
      fold (Rsum a) (Rsum b). lra.
  Qed.

  Lemma ae_nodes_R orig u edges :
    ae_nodes N orig u edges
    = map (fun x => fst x / Rsum (map (fun x => fst x + snd x) (combine orig u)) / (snd (snd x) - fst (snd x)))
          (combine (map (fun x => fst x + snd x) (combine orig u)) (combine (removelast edges) (tl edges))).
  Proof. unfold ae_nodes, N. rewrite nsum_R. reflexivity. Qed.

  Lemma ae_nodes_norm orig u edges :
    length edges = S (length orig) -> length u = length orig -> pos_widths edges ->
    Rsum orig + Rsum u <> 0 ->
    step_integral N (ae_nodes N orig u edges) (bin_widths N edges) = 1.
  Proof.
    intros Hl Hu Hw Hs.
    rewrite ae_nodes_R. unfold N. rewrite step_integral_R, bin_widths_R.
    set (h := map (fun x : R * R => fst x + snd x) (combine orig u)).
    assert (Hh : length h = length orig).
    { unfold h. rewrite map_length, combine_length. lia. }
    destruct (lens edges orig Hl) as [L1 L2].
    assert (Hsum : Rsum h = Rsum orig + Rsum u).
    { unfold h. apply Rsum_add. lia. }
    rewrite (sh_sum_aux (Rsum h) h (removelast edges) (tl edges)).
    - field. rewrite Hsum. exact Hs.
    - lia.
    - lia.
    - rewrite Hsum. exact Hs.
    - eapply Forall_impl; [|exact Hw]. intros a Ha. cbv beta in Ha. lra.
  Qed.

  Definition sinv (edges : list R) (st : sstate) : Prop :=
    step_integral N (s_nodes st) (bin_widths N edges) = 1 /\
    step_integral N (s_orig_nodes st) (bin_widths N edges) = 1.

  Definition op_ok (n : nat) (o : @sop R) : Prop :=
    match o with
    | AddEvents u => length u = n /\ List.Forall (fun x => 0 <= x) u
    | Reset => True
    end.

  (* every sequence of add_events / reset keeps the density normalised *)
  Theorem srun_norm h edges st0 ops :
    sinit N h edges = Ok st0 ->
    length edges = S (length h) -> pos_widths edges ->
    List.Forall (fun x => 0 <= x) h -> Rsum h <> 0 ->
    List.Forall (op_ok (length h)) ops ->
    sinv edges (srun N edges st0 ops) /\ s_orig (srun N edges st0 ops) = h.
  Proof.
    intros Hinit Hl Hw Hh Hs Hops.
    unfold sinit in Hinit. destruct (sh_hist N h edges) as [n|] eqn:E; [|discriminate].
    cbn [bind] in Hinit. injection Hinit as <-.
    destruct (sh_hist_norm e h edges n E Hl Hw Hs) as [_ Hn].
    assert (Hpos : 0 < Rsum h).
    { pose proof (Rsum_nonneg h Hh). lra. }
    set (st0 := {| s_orig := h; s_nodes := n; s_orig_nodes := n |}).
    assert (I0 : sinv edges st0 /\ s_orig st0 = h) by (split; [split; exact Hn | reflexivity]).
    clearbody st0. revert st0 I0.
    induction Hops as [|o ops Ho _ IH]; intros st [[I1 I2] I3]; [split; [split|]; assumption|].
    cbn [srun fold_left]. apply IH. destruct o as [u|]; cbn [sstep s_nodes s_orig s_orig_nodes].
    - destruct Ho as [Hu Hu0]. split; [split; [|exact I2] | exact I3].
      rewrite I3. apply ae_nodes_norm; try assumption.
      pose proof (Rsum_nonneg u Hu0). lra.
    - split; [split; exact I2 | exact I3].
  Qed.
  (* positivity of the node values (so that np.log is applied to positive numbers) *)
  Lemma ae_nodes_pos orig u edges :
    length edges = S (length orig) -> length u = length orig -> pos_widths edges ->
    List.Forall (fun x => 0 < x) orig -> List.Forall (fun x => 0 <= x) u -> orig <> [] ->
    List.Forall (fun x => 0 < x) (ae_nodes N orig u edges).
  Proof.
    intros Hl Hu Hw Ho Hu0 Hne. rewrite ae_nodes_R.
    set (h := map (fun x : R * R => fst x + snd x) (combine orig u)).
    assert (Hh : List.Forall (fun x => 0 < x) h).
    { apply Forall_forall. intros x Hx. unfold h in Hx. apply in_map_iff in Hx.
      destruct Hx as ([a b] & <- & Hin). cbn [fst snd].
      rewrite Forall_forall in Ho, Hu0.
      pose proof (Ho a (in_combine_l _ _ _ _ Hin)). pose proof (Hu0 b (in_combine_r _ _ _ _ Hin)). lra. }
    assert (Hs : 0 < Rsum h).
    { assert (h <> []).
      { unfold h. destruct orig as [|a o]; [contradiction|]. destruct u as [|b u']; [discriminate|]. discriminate. }
      clear - Hh H. induction Hh as [|x l Hx Hl IH]; [contradiction|].
      rewrite Rsum_cons. destruct l as [|y l']; [cbn; lra|].
      assert (y :: l' <> []) by discriminate. specialize (IH H0). lra. }
    apply Forall_forall. intros x Hx. apply in_map_iff in Hx.
    destruct Hx as ([a [lo up]] & <- & Hin). cbn [fst snd].
    rewrite Forall_forall in Hh. pose proof (Hh a (in_combine_l _ _ _ _ Hin)) as Ha.
    unfold pos_widths in Hw. rewrite Forall_forall in Hw.
    pose proof (Hw (lo, up) (in_combine_r _ _ _ _ Hin)) as Hlu. cbn [fst snd] in Hlu.
    apply Rdiv_lt_0_compat; [apply Rdiv_lt_0_compat; assumption | lra].
  Qed.

  Theorem srun_pos h edges st0 ops :
    sinit N h edges = Ok st0 ->
    length edges = S (length h) -> pos_widths edges ->
    List.Forall (fun x => 0 < x) h -> h <> [] ->
    List.Forall (op_ok (length h)) ops ->
    List.Forall (fun x => 0 < x) (s_nodes (srun N edges st0 ops)).
  Proof.
    intros Hinit Hl Hw Hh Hne Hops.
    assert (Hs : Rsum h <> 0).
    { clear - Hh Hne. assert (0 < Rsum h); [|lra].
      induction Hh as [|x l Hx Hl IH]; [contradiction|].
      rewrite Rsum_cons. destruct l as [|y l']; [cbn; lra|].
      assert (y :: l' <> []) by discriminate. specialize (IH H). lra. }
    unfold sinit in Hinit. destruct (sh_hist N h edges) as [n|] eqn:E; [|discriminate].
    cbn [bind] in Hinit. injection Hinit as <-.
    destruct (sh_hist_norm e h edges n E Hl Hw Hs) as [Hn _].
    set (st0 := {| s_orig := h; s_nodes := n; s_orig_nodes := n |}).
    assert (I0 : List.Forall (fun x => 0 < x) (s_nodes st0) /\
                 List.Forall (fun x => 0 < x) (s_orig_nodes st0) /\ s_orig st0 = h)
      by (repeat split; exact Hn).
    clearbody st0. revert st0 I0.
    induction Hops as [|o ops Ho _ IH]; intros st (I1 & I2 & I3); [exact I1|].
    cbn [srun fold_left]. apply IH. destruct o as [u|]; cbn [sstep s_nodes s_orig s_orig_nodes].
    - destruct Ho as [Hu Hu0]. repeat split; [|exact I2|exact I3].
      rewrite I3. apply ae_nodes_pos; assumption.
    - repeat split; assumption.
  Qed.
End AddEvents.

(* ================================================================== the log-spline as an oracle *)
Section Spline.
  Variable e : R -> R.
  Let N := RNum e.
  (* scipy.interpolate.InterpolatedUnivariateSpline(x, y, k): x nodes, y values *)
  Variable spl : list R -> list R -> R -> R.
  Hypothesis spl_interpolates :
    forall xs ys i, length xs = length ys -> (i < length xs)%nat ->
      spl xs ys (nth i xs 0) = nth i ys 0.

  (* initialize_for_new_trial + get_pd at x, for the current node values *)
  Definition spline_pd (centers nodes : list R) (x : R) : R :=
    sh_pd N (spl centers (map ln nodes) x).

  (* mid-point rule over the sphere of the splined density = step integral of the nodes *)
  Theorem spline_midpoint centers nodes widths :
    length centers = length nodes -> length widths = length nodes ->
    List.Forall (fun x => 0 < x) nodes ->
    Rsum (map (fun cw => 2 * PI * spline_pd centers nodes (fst cw) * snd cw) (combine centers widths))
    = step_integral N nodes widths.
  Proof.
    intros Hc Hw Hpos. unfold N. rewrite step_integral_R. f_equal.
    apply (nth_ext _ _ ((fun cw : R * R => 2 * PI * spline_pd centers nodes (fst cw) * snd cw) (0, 0))
                       ((fun hw : R * R => fst hw * snd hw) (0, 0))).
    - rewrite !map_length, !combine_length. lia.
    - intros i Hi. rewrite map_length, combine_length in Hi.
      rewrite (map_nth (fun cw : R * R => 2 * PI * spline_pd centers nodes (fst cw) * snd cw)).
      rewrite (map_nth (fun hw : R * R => fst hw * snd hw)).
      rewrite !combine_nth by lia. cbn [fst snd].
      unfold spline_pd. rewrite spl_interpolates; [|rewrite map_length; lia|lia].
      rewrite (nth_indep _ 0 (ln 0)) by (rewrite map_length; lia). rewrite map_nth.
      unfold N. rewrite sh_pd_sphere; [reflexivity|].
      rewrite Forall_forall in Hpos. apply Hpos. apply nth_In. lia.
  Qed.
End Spline.
