(* C02 extension: get_values_mask_for_source_mask selects exactly the values whose source is selected
   (the list plumbing of the model = the pointwise test used in the end-to-end theorem). *)
From Coq Require Import ZArith List Bool Lia.
From Sky Require Import Result PyList G_layout M_Layout M_LayoutExt P_Layout.
Import ListNotations.
Open Scope Z_scope.

Definition vstep (val_src : list Z) (vm : list bool) (k : Z) : list bool :=
  map (fun p => lk_vmask (fst p) (snd p) k) (combine vm val_src).

Lemma vstep_length vs vm k : length vm = length vs -> length (vstep vs vm k) = length vs.
Proof. intros H. unfold vstep. rewrite map_length, combine_length. lia. Qed.

Lemma vstep_nth vs vm k v : length vm = length vs -> (v < length vs)%nat ->
  nth v (vstep vs vm k) false = nth v vm false || (nth v vs 0 =? k).
Proof.
  intros H Hv. unfold vstep.
  rewrite (nth_indep _ false ((fun p : bool * Z => lk_vmask (fst p) (snd p) k) (false, 0)))
    by (rewrite map_length, combine_length; lia).
  rewrite (map_nth (fun p : bool * Z => lk_vmask (fst p) (snd p) k)), combine_nth by exact H.
  cbn [fst snd]. apply K_lk_vmask.
Qed.

Lemma vfold_length vs ks : forall vm, length vm = length vs ->
  length (fold_left (vstep vs) ks vm) = length vs.
Proof.
  induction ks as [|k ks IH]; intros vm H; cbn [fold_left]; [exact H|].
  apply IH. apply vstep_length. exact H.
Qed.

Lemma vfold_nth vs ks : forall vm v, length vm = length vs -> (v < length vs)%nat ->
  nth v (fold_left (vstep vs) ks vm) false = nth v vm false || existsb (Z.eqb (nth v vs 0)) ks.
Proof.
  induction ks as [|k ks IH]; intros vm v H Hv; cbn [fold_left existsb].
  - rewrite orb_false_r. reflexivity.
  - rewrite IH by (try apply vstep_length; assumption). rewrite vstep_nth by assumption.
    rewrite orb_assoc. reflexivity.
Qed.

(* the selected source indices *)
Lemma select_arange_in (m : list bool) : forall s k,
  In k (select (arange_from s (length m)) m)
  <-> (s <= k < s + Z.of_nat (length m) /\ nth (Z.to_nat (k - s)) m false = true).
Proof.
  induction m as [|b m IH]; intros s k; cbn [length arange_from select].
  - split; [intros []|intros (H & _); lia].
  - destruct b; cbn [In]; rewrite ?IH; split.
    + intros [E|(H & Hn)].
      * subst k. split; [lia|]. replace (s - s) with 0 by lia. reflexivity.
      * split; [lia|]. replace (Z.to_nat (k - s)) with (S (Z.to_nat (k - (s + 1)))) by lia. exact Hn.
    + intros (H & Hn). destruct (Z.eq_dec s k) as [E|E]; [left; exact E|right].
      split; [lia|]. replace (Z.to_nat (k - s)) with (S (Z.to_nat (k - (s + 1)))) in Hn by lia. exact Hn.
    + intros (H & Hn). split; [lia|]. replace (Z.to_nat (k - s)) with (S (Z.to_nat (k - (s + 1)))) by lia. exact Hn.
    + intros (H & Hn). destruct (Z.eq_dec s k) as [E|E].
      * subst k. replace (s - s) with 0 in Hn by lia. discriminate.
      * split; [lia|]. replace (Z.to_nat (k - s)) with (S (Z.to_nat (k - (s + 1)))) in Hn by lia. exact Hn.
Qed.

Lemma nth_map_false (l : list Z) : forall v, nth v (map (fun _ => false) l) false = false.
Proof. induction l as [|a l IH]; intros [|v]; cbn; auto. Qed.

Lemma values_mask_eq src_mask val_src :
  values_mask src_mask val_src
  = fold_left (vstep val_src) (select (arange_from 0 (length src_mask)) src_mask) (map (fun _ => false) val_src).
Proof. reflexivity. Qed.

Theorem values_mask_length src_mask val_src : length (values_mask src_mask val_src) = length val_src.
Proof.
  rewrite values_mask_eq. apply vfold_length. apply map_length.
Qed.

(* a value is selected iff its source index is in range and selected by the source mask *)
Theorem values_mask_pointwise src_mask val_src v :
  (v < length val_src)%nat ->
  nth v (values_mask src_mask val_src) false
  = (0 <=? nth v val_src 0) && (nth v val_src 0 <? Z.of_nat (length src_mask))
    && nth (Z.to_nat (nth v val_src 0)) src_mask false.
Proof.
  intros Hv. rewrite values_mask_eq.
  rewrite vfold_nth by (try apply map_length; exact Hv).
  rewrite nth_map_false. cbn [orb].
  set (x := nth v val_src 0).
  destruct (existsb (Z.eqb x) (select (arange_from 0 (length src_mask)) src_mask)) eqn:E.
  - apply existsb_exists in E. destruct E as (k & Hin & Hk). apply Z.eqb_eq in Hk. subst k.
    apply select_arange_in in Hin. destruct Hin as (H & Hn). rewrite Z.sub_0_r in Hn. rewrite Hn.
    symmetry. rewrite andb_true_r. apply andb_true_iff. split; [apply Z.leb_le|apply Z.ltb_lt]; lia.
  - symmetry. destruct ((0 <=? x) && (x <? Z.of_nat (length src_mask))) eqn:Er; [|reflexivity]. cbn [andb].
    apply andb_true_iff in Er. destruct Er as (H1 & H2). apply Z.leb_le in H1. apply Z.ltb_lt in H2.
    destruct (nth (Z.to_nat x) src_mask false) eqn:En; [|reflexivity].
    exfalso. assert (Hin : In x (select (arange_from 0 (length src_mask)) src_mask)).
    { apply select_arange_in. split; [lia|]. rewrite Z.sub_0_r. exact En. }
    assert (existsb (Z.eqb x) (select (arange_from 0 (length src_mask)) src_mask) = true)
      by (apply existsb_exists; exists x; split; [exact Hin|apply Z.eqb_refl]).
    congruence.
Qed.

(* the code path with its error: a mask of the wrong length raises, otherwise exactly the above *)
Theorem values_mask_res_spec n src_mask val_src :
  (length src_mask <> n -> values_mask_res n src_mask val_src = Err IndexError)
  /\ (length src_mask = n ->
      exists vm, values_mask_res n src_mask val_src = Ok vm /\ length vm = length val_src
        /\ forall v, (v < length val_src)%nat -> (0 <= nth v val_src 0 < Z.of_nat n) ->
             nth v vm false = nth (Z.to_nat (nth v val_src 0)) src_mask false).
Proof.
  unfold values_mask_res. split; intros H.
  - apply Nat.eqb_neq in H. rewrite H. reflexivity.
  - rewrite (proj2 (Nat.eqb_eq _ _) H). eexists. split; [reflexivity|]. split; [apply values_mask_length|].
    intros v Hv Hr. rewrite values_mask_pointwise by exact Hv. rewrite H.
    replace (0 <=? nth v val_src 0) with true by (symmetry; apply Z.leb_le; lia).
    replace (nth v val_src 0 <? Z.of_nat n) with true by (symmetry; apply Z.ltb_lt; lia). reflexivity.
Qed.
