(* C11, second layer: converse status clauses, sharpened guards, exact clipping,
   NR + scan end to end through maximize, the objective closure. *)
From Coq Require Import Reals ZArith List Bool Lia Lra.
From Sky Require Import Result Num NumR G_minimize M_Minimize S_Minimize P_Minimize P_MinimizeWrap P_MinimizeScan.
Import ListNotations.
Open Scope R_scope.

Section NRDeep.
  Variable erfR : R -> R.
  Notation N := (RNum erfR).
  Variable obj : R -> R * R * R.
  Variables tol lo hi : R.
  Variable max_steps : Z.

  Lemma cond_initial : nr_cond_num N tol (nr_step0 N tol) (nr_fprime0 N) = true.
  Proof.
    apply K_nr_cond_num. right. rewrite K_nr_fprime0. rewrite Rabs_pos_eq; lra.
  Qed.

  (* converse of the -2 / -1 clauses at the level of the loop: whenever the loop
     tests its condition at a bound with budget left and the Newton step there
     points outward, the exit is forced with that flag, the point and its value *)
  Lemma nr_loop_forced_lo fuel niter st fp :
    nr_cond_num N tol st fp = true -> (niter < max_steps)%Z ->
    - snd3 (obj lo) / thd3 (obj lo) < 0 ->
    exists r, nr_loop N obj tol lo hi (S fuel) max_steps niter lo st fp = Ok r /\
      r_flag r = (-2)%Z /\ r_x r = lo /\ r_f r = fst3 (obj lo) /\ r_niter r = niter /\
      r_step r = - snd3 (obj lo) / thd3 (obj lo) /\ r_trace r = [lo].
  Proof.
    intros Hc Hlt Hneg. cbn [nr_loop]. rewrite Hc.
    rewrite (proj2 (K_nr_cond_iter niter max_steps) Hlt). cbn [andb].
    destruct (obj lo) as [[fv f1v] f2v] eqn:Eo. unfold snd3, thd3, fst3 in *. cbn [fst snd] in *.
    rewrite K_nr_step_nan, K_nr_step.
    rewrite (proj2 (K_nr_at_bound erfR lo lo hi (- f1v / f2v)) (or_introl (conj eq_refl Hneg))).
    rewrite (proj2 (K_nr_at_lo erfR lo lo) eq_refl).
    eexists. split; [reflexivity|].
    unfold nr_finish, nr_maxed, nr_reeval, nr_flag_lo.
    assert (Hne : (niter =? max_steps)%Z = false) by (apply Z.eqb_neq; lia).
    rewrite Hne. cbn [negb tr_cons r_flag r_x r_f r_niter r_step r_trace]. repeat split.
  Qed.

  Lemma nr_loop_forced_hi fuel niter st fp :
    lo <> hi ->
    nr_cond_num N tol st fp = true -> (niter < max_steps)%Z ->
    0 < - snd3 (obj hi) / thd3 (obj hi) ->
    exists r, nr_loop N obj tol lo hi (S fuel) max_steps niter hi st fp = Ok r /\
      r_flag r = (-1)%Z /\ r_x r = hi /\ r_f r = fst3 (obj hi) /\ r_niter r = niter /\
      r_step r = - snd3 (obj hi) / thd3 (obj hi) /\ r_trace r = [hi].
  Proof.
    intros Hd Hc Hlt Hpos. cbn [nr_loop]. rewrite Hc.
    rewrite (proj2 (K_nr_cond_iter niter max_steps) Hlt). cbn [andb].
    destruct (obj hi) as [[fv f1v] f2v] eqn:Eo. unfold snd3, thd3, fst3 in *. cbn [fst snd] in *.
    rewrite K_nr_step_nan, K_nr_step.
    rewrite (proj2 (K_nr_at_bound erfR hi lo hi (- f1v / f2v)) (or_intror (conj eq_refl Hpos))).
    assert (Hnl : nr_at_lo N hi lo = false).
    { destruct (nr_at_lo N hi lo) eqn:E; [|reflexivity]. apply K_nr_at_lo in E. congruence. }
    rewrite Hnl. rewrite (proj2 (K_nr_at_hi erfR hi hi) eq_refl).
    eexists. split; [reflexivity|].
    unfold nr_finish, nr_maxed, nr_reeval, nr_flag_hi.
    assert (Hne : (niter =? max_steps)%Z = false) by (apply Z.eqb_neq; lia).
    rewrite Hne. cbn [negb tr_cons r_flag r_x r_f r_niter r_step r_trace]. repeat split.
  Qed.

  (* initial value on a bound (named in the property's quantifier) *)
  Theorem nr1d_initial_on_bound :
    (0 < max_steps)%Z -> lo < hi ->
    (- snd3 (obj lo) / thd3 (obj lo) < 0 ->
       exists r, nr1d N obj tol lo hi max_steps lo = Ok r /\ r_flag r = (-2)%Z /\ r_x r = lo /\
                 r_f r = fst3 (obj lo) /\ r_niter r = 0%Z /\ r_trace r = [lo]) /\
    (0 < - snd3 (obj hi) / thd3 (obj hi) ->
       exists r, nr1d N obj tol lo hi max_steps hi = Ok r /\ r_flag r = (-1)%Z /\ r_x r = hi /\
                 r_f r = fst3 (obj hi) /\ r_niter r = 0%Z /\ r_trace r = [hi]).
  Proof.
    intros Hms Hlh.
    destruct (Z.to_nat max_steps) as [|k] eqn:Ek; [lia|].
    split; intros Hs; unfold nr1d; rewrite Ek.
    - assert (Hib : nr_init_bad N lo lo = false).
      { destruct (nr_init_bad N lo lo) eqn:E; [|reflexivity]. apply K_nr_init_bad in E. lra. }
      rewrite Hib.
      destruct (nr_loop_forced_lo k nr_niter0 (nr_step0 N tol) (nr_fprime0 N) cond_initial Hms Hs)
        as (r & Hr & H1 & H2 & H3 & H4 & _ & H6).
      exists r. repeat split; assumption.
    - assert (Hib : nr_init_bad N lo hi = false).
      { destruct (nr_init_bad N lo hi) eqn:E; [|reflexivity]. apply K_nr_init_bad in E. lra. }
      rewrite Hib.
      assert (Hd : lo <> hi) by lra.
      destruct (nr_loop_forced_hi k nr_niter0 (nr_step0 N tol) (nr_fprime0 N) Hd cond_initial Hms Hs)
        as (r & Hr & H1 & H2 & H3 & H4 & _ & H6).
      exists r. repeat split; assumption.
  Qed.

  (* the guard `init <= hi` of the bounds theorem is only needed for max_steps = 0 *)
  Theorem nr1d_bounds_any_init init r :
    (0 < max_steps)%Z -> lo <= hi ->
    nr1d N obj tol lo hi max_steps init = Ok r -> lo <= r_x r <= hi.
  Proof.
    intros Hms Hlh Hrun.
    destruct (Rle_dec init hi) as [Hle|Hgt].
    - apply (nr1d_spec erfR obj tol lo hi max_steps init r) in Hrun; [|lia].
      destruct Hrun as (_ & _ & Hb). apply Hb; assumption.
    - assert (Hih : hi < init) by lra.
      unfold nr1d in Hrun.
      destruct (nr_init_bad N lo init) eqn:Eib; [discriminate|].
      destruct (Z.to_nat max_steps) as [|k] eqn:Ek; [lia|].
      cbn [nr_loop] in Hrun. rewrite cond_initial in Hrun.
      rewrite (proj2 (K_nr_cond_iter nr_niter0 max_steps) Hms) in Hrun. cbn [andb] in Hrun.
      destruct (obj init) as [[fv f1v] f2v] eqn:Eo.
      rewrite K_nr_step_nan, K_nr_step in Hrun.
      assert (Hnb : nr_at_bound N init lo hi (- f1v / f2v) = false).
      { destruct (nr_at_bound N init lo hi (- f1v / f2v)) eqn:E; [|reflexivity].
        apply K_nr_at_bound in E. lra. }
      rewrite Hnb in Hrun.
      destruct (nr_loop N obj tol lo hi k max_steps (nr_niter_inc nr_niter0)
                  (nr_clip N lo hi (nr_ns_next N init (- f1v / f2v))) (- f1v / f2v) f1v) as [r'|e] eqn:Er;
        [|discriminate].
      cbn [bind] in Hrun. injection Hrun as <-. cbn [tr_cons r_x].
      rewrite K_nr_niter_inc, K_nr_niter0, K_nr_ns_next, nr_clip_spec in Er.
      apply nr_loop_spec in Er.
      + destruct Er as [_ Hb]. apply Hb; [exact Hlh|]. apply clipR_in; exact Hlh.
      + assert (Hz : Z.of_nat (Z.to_nat max_steps) = max_steps) by (apply Z2Nat.id; lia).
        rewrite Ek, Nat2Z.inj_succ in Hz. lia.
      + lia.
      + right. exists init. unfold F1, F2, snd3, thd3. rewrite Eo. cbn [fst snd]. repeat split.
  Qed.
End NRDeep.

(* ------------------------------------------------------------------ wrapper: exact clipping *)
Section ClipExact.
  Variable erfR : R -> R.
  Notation N := (RNum erfR).

  Definition clip_all (x : list R) (bs : list (R * R)) : list R :=
    map (fun p => clipR (fst (snd p)) (snd (snd p)) (fst p)) (combine x bs).

  Lemma K_wr_clip_exact xi lo hi :
    lo <= hi ->
    wr_clip_hi N (wr_condmax N xi hi) (wr_clip_lo N (wr_condmin N xi lo) xi lo) hi = clipR lo hi xi /\
    (wr_condmin N xi lo = true <-> xi < lo) /\ (wr_condmax N xi hi = true <-> hi < xi).
  Proof.
    intros Hlh. unfold wr_clip_hi, wr_clip_lo, wr_condmax, wr_condmin, clipR. num_R.
    split; [|split; apply Rltb_true].
    destruct (Rltb xi lo) eqn:E1; destruct (Rltb hi xi) eqn:E2;
      repeat match goal with
             | H : Rltb _ _ = true |- _ => apply Rltb_true in H
             | H : Rltb _ _ = false |- _ => apply Rltb_false in H
             end;
      destruct (Rlt_dec xi lo); destruct (Rlt_dec hi xi); try lra; reflexivity.
  Qed.

  (* every component is projected onto its own interval, lower and upper
     violations in the same vector included; the flag says whether any was *)
  Lemma clip_vec_exact : forall x bs x' c,
    Forall (fun b => fst b <= snd b) bs ->
    clip_vec N x bs = Ok (x', c) ->
    x' = clip_all x bs /\ length x = length bs /\
    (c = true <-> Exists (fun p => fst p < fst (snd p) \/ snd (snd p) < fst p) (combine x bs)).
  Proof.
    induction x as [|xi x IH]; intros bs x' c Hwf H; destruct bs as [|[lo hi] bs]; cbn [clip_vec] in H; try discriminate.
    - injection H as <- <-. split; [reflexivity|]. split; [reflexivity|].
      split; [discriminate|]. intros He. inversion He.
    - destruct (clip_vec N x bs) as [[y c']|e] eqn:Er; [|discriminate].
      cbn [bind fst snd] in H.
      inversion Hwf as [|b bs' Hb Hwf']; subst. cbn [fst snd] in Hb.
      destruct (IH bs y c' Hwf' Er) as (Hy & Hlen & Hc).
      destruct (K_wr_clip_exact xi lo hi Hb) as (Hcl & Hmin & Hmax).
      assert (Hx' : x' = clipR lo hi xi :: y /\
                    c = (wr_any_clip (wr_condmin N xi lo || c') (wr_condmax N xi hi) || c')%bool).
      { rewrite <- Hcl. injection H as <- <-. split; reflexivity. }
      destruct Hx' as [-> ->].
      split; [unfold clip_all; cbn [combine map fst snd]; rewrite Hy; reflexivity|].
      split; [cbn [length]; congruence|].
      rewrite (K_wr_any_clip (wr_condmin N xi lo || c') (wr_condmax N xi hi)).
      cbn [combine]. split.
      + intros Ht. apply orb_true_iff in Ht. destruct Ht as [Ht|Ht].
        * apply orb_true_iff in Ht. destruct Ht as [Ht|Ht].
          -- apply orb_true_iff in Ht. destruct Ht as [Ht|Ht].
             ++ apply Exists_cons_hd. cbn [fst snd]. left. apply Hmin. exact Ht.
             ++ apply Exists_cons_tl. apply Hc. exact Ht.
          -- apply Exists_cons_hd. cbn [fst snd]. right. apply Hmax. exact Ht.
        * apply Exists_cons_tl. apply Hc. exact Ht.
      + intros He. inversion He as [p l Hp|p l Hl]; subst.
        * cbn [fst snd] in Hp. destruct Hp as [Hp|Hp].
          -- apply Hmin in Hp. rewrite Hp. reflexivity.
          -- apply Hmax in Hp. rewrite Hp. rewrite !orb_true_r. reflexivity.
        * apply Hc in Hl. rewrite Hl. rewrite !orb_true_r. reflexivity.
  Qed.

  (* Minimizer.minimize returns exactly the componentwise projection of what
     the (converged) implementation run returned; the value is the run's own
     unless a component was outside, then it is the re-evaluated objective *)
  Theorem minimize_clip_exact {St : Type} impl (conv rep : St -> bool) reeval bounds uniform max_reps
          initials x f st reps :
    Forall (fun b => fst b <= snd b) bounds ->
    minimize N impl conv rep reeval bounds uniform max_reps initials = Ok (x, f, st, reps) ->
    exists ini x0 f0,
      impl reps ini = Ok (x0, f0, st) /\ conv st = true /\
      x = clip_all x0 bounds /\ length x0 = length bounds /\
      ((Forall2 (fun xi b => fst b <= xi <= snd b) x0 bounds /\ x = x0 /\ f = f0) \/
       (Exists (fun p => fst p < fst (snd p) \/ snd (snd p) < fst p) (combine x0 bounds) /\ reeval x = Ok f)).
  Proof.
    intros Hwf H. apply minimize_result in H.
    destruct H as (Hc & _ & ini & x0 & f0 & Hi & _ & Hcase).
    exists ini, x0, f0. split; [exact Hi|]. split; [exact Hc|].
    destruct Hcase as [(-> & -> & Hcl)|(Hcl & Hre)].
    - pose proof (clip_vec_in_bounds erfR _ _ _ _ Hwf Hcl) as [Hin _].
      destruct (clip_vec_exact _ _ _ _ Hwf Hcl) as (Hx & Hlen & _).
      split; [exact Hx|]. split; [exact Hlen|]. left. repeat split. exact Hin.
    - destruct (clip_vec_exact _ _ _ _ Hwf Hcl) as (Hx & Hlen & Hex).
      split; [exact Hx|]. split; [exact Hlen|]. right. split; [apply Hex; reflexivity|exact Hre].
  Qed.

  (* with an implementation whose reported value is the objective at its
     reported point (proved for NR, contract for scipy / iminuit), the reported
     minimum is the objective at the reported point *)
  Theorem minimize_fmin_consistent {St : Type} impl (conv rep : St -> bool) reeval bounds uniform max_reps
          initials x f st reps :
    (forall k ini x0 f0 st0, impl k ini = Ok (x0, f0, st0) -> reeval x0 = Ok f0) ->
    minimize N impl conv rep reeval bounds uniform max_reps initials = Ok (x, f, st, reps) ->
    reeval x = Ok f.
  Proof.
    intros Hcontract H. apply minimize_result in H.
    destruct H as (_ & _ & ini & x0 & f0 & Hi & _ & [(-> & -> & _)|(_ & Hre)]).
    - exact (Hcontract _ _ _ _ _ Hi).
    - exact Hre.
  Qed.
End ClipExact.

(* ------------------------------------------------------------------ wrapper and NaN (any number system) *)
Section ClipNaN.
  Context {T : Type} (N : Num T).
  (* a component that compares neither below its lower nor above its upper
     bound (in IEEE arithmetic: an in-bounds value, or NaN) is handed through *)
  Lemma clip_component_passthrough xi lo hi :
    nltb N xi lo = false -> nltb N hi xi = false ->
    wr_clip_hi N (wr_condmax N xi hi) (wr_clip_lo N (wr_condmin N xi lo) xi lo) hi = xi /\
    wr_condmin N xi lo = false /\ wr_condmax N xi hi = false.
  Proof.
    intros H1 H2. unfold wr_clip_hi, wr_clip_lo, wr_condmax, wr_condmin. rewrite H1, H2. repeat split.
  Qed.

  Theorem minimize_passthrough {St : Type} impl (conv rep : St -> bool) reeval uniform max_reps
          i0 lo hi x0 f0 st :
    impl 0%Z [i0] = Ok ([x0], f0, st) -> conv st = true ->
    nltb N x0 lo = false -> nltb N hi x0 = false ->
    minimize N impl conv rep reeval [(lo, hi)] uniform max_reps [i0] = Ok ([x0], f0, st, 0%Z).
  Proof.
    intros Hi Hc H1 H2. unfold minimize. rewrite Hi. cbn [bind].
    assert (Hl : wr_loop N impl conv rep [(lo, hi)] uniform max_reps (Z.to_nat max_reps) wr_reps0 ([x0], f0, st)
                 = Ok ([x0], f0, st, 0%Z)).
    { destruct (Z.to_nat max_reps); cbn [wr_loop snd]; unfold wr_again; rewrite Hc; reflexivity. }
    rewrite Hl. cbn [bind]. unfold wr_fail. rewrite Hc. cbn [negb clip_vec bind fst snd].
    destruct (clip_component_passthrough x0 lo hi H1 H2) as (Hx & Hmin & Hmax).
    rewrite Hmin, Hmax. cbn [orb]. unfold wr_any_clip. cbn [orb]. reflexivity.
  Qed.
End ClipNaN.

(* ------------------------------------------------------------------ NR + scan *)
Section ScanDeep.
  Variable erfR : R -> R.
  Notation N := (RNum erfR).
  Variable func : list R -> R * R * R.
  Variable tol : R.
  Variable max_steps : Z.
  Variable bounds : list (R * R).
  Variables (i0 : R) (rest : list R).
  Notation run := (run erfR func tol max_steps bounds i0 rest).

  (* the selected step is the FIRST one attaining the minimum (strict `<`) *)
  Definition scan_first (done : list R) (best : option (list R * nrres R)) : Prop :=
    match best with
    | None => done = []
    | Some b => exists pre p2 post, done = pre ++ p2 :: post /\ run p2 = Ok b /\
        (forall q, In q pre -> exists xr, run q = Ok xr /\ r_f (snd b) < r_f (snd xr)) /\
        (forall q, In q post -> exists xr, run q = Ok xr /\ r_f (snd b) <= r_f (snd xr))
    end.

  Fixpoint niters (l : list R) : Z :=
    match l with
    | [] => 0%Z
    | q :: t => ((match run q with Ok xr => r_niter (snd xr) | Err _ => 0 end) + niters t)%Z
    end.

  Lemma scan_loop_first : forall p2s done best nt best' nt',
    scan_first done best ->
    scan_loop N func tol max_steps bounds p2s i0 rest best nt = Ok (best', nt') ->
    scan_first (done ++ p2s) best' /\ nt' = (nt + niters p2s)%Z.
  Proof.
    induction p2s as [|p2 more IH]; intros done best nt best' nt' Hinv H; cbn [scan_loop] in H.
    - injection H as <- <-. rewrite app_nil_r. split; [exact Hinv|cbn [niters]; lia].
    - fold (run p2) in H. destruct (run p2) as [[x r]|e] eqn:Er; [|discriminate]. cbn [bind] in H.
      replace (done ++ p2 :: more) with ((done ++ [p2]) ++ more) by (rewrite <- app_assoc; reflexivity).
      apply (IH (done ++ [p2])) in H.
      + destruct H as [Hf Hn]. split; [exact Hf|]. rewrite Hn. cbn [niters]. rewrite Er. cbn [snd].
        rewrite (K_scan_niter nt (r_niter r)). lia.
      + destruct best as [[bx br]|]; cbn [scan_first] in *.
        * destruct Hinv as (pre & p0 & post & Hd & Hr0 & Hpre & Hpost).
          destruct (scan_better N (r_f r) (r_f br)) eqn:Eb.
          -- apply K_scan_better in Eb. cbn [scan_first].
             exists done, p2, []. split; [reflexivity|]. split; [exact Er|]. split; [|intros q []].
             intros q Hq. rewrite Hd in Hq. apply in_app_or in Hq. cbn [snd] in *.
             destruct Hq as [Hq|[<-|Hq]].
             ++ destruct (Hpre q Hq) as (xr & Hxr & Hlt). exists xr. split; [exact Hxr|lra].
             ++ exists (bx, br). split; [exact Hr0|]. cbn [snd]. lra.
             ++ destruct (Hpost q Hq) as (xr & Hxr & Hle). exists xr. split; [exact Hxr|lra].
          -- assert (Hnb : ~ r_f r < r_f br).
             { intro Hc. apply (proj2 (K_scan_better erfR (r_f r) (r_f br))) in Hc. congruence. }
             cbn [scan_first]. exists pre, p0, (post ++ [p2]).
             split; [rewrite Hd, <- app_assoc; reflexivity|]. split; [exact Hr0|]. split; [exact Hpre|].
             intros q Hq. apply in_app_or in Hq. destruct Hq as [Hq|[<-|[]]].
             ++ apply Hpost; exact Hq.
             ++ exists (x, r). split; [exact Er|]. cbn [snd]. lra.
        * subst done. cbn [app scan_first]. exists [], p2, []. split; [reflexivity|]. split; [exact Er|].
          split; intros q [].
  Qed.

  (* x, f, flag, last step and trace of the result all belong to ONE scan step,
     the first one attaining the smallest minimum; niter is the total *)
  Theorem scan2d_selected p2s i1 x r :
    scan2d N func tol max_steps bounds p2s (i0 :: i1 :: rest) = Ok (x, r) ->
    exists pre p2 post r0,
      p2s = pre ++ p2 :: post /\ run p2 = Ok (x, r0) /\
      r_x r = r_x r0 /\ r_f r = r_f r0 /\ r_flag r = r_flag r0 /\ r_step r = r_step r0 /\
      r_trace r = r_trace r0 /\ r_niter r = niters p2s /\
      (forall q, In q pre -> exists xr, run q = Ok xr /\ r_f r < r_f (snd xr)) /\
      (forall q, In q post -> exists xr, run q = Ok xr /\ r_f r <= r_f (snd xr)).
  Proof.
    unfold scan2d. intros H.
    destruct (scan_loop N func tol max_steps bounds p2s i0 rest None 0%Z) as [[best nt]|e] eqn:El; [|discriminate].
    cbn [bind fst snd] in H.
    apply (scan_loop_first p2s [] None) in El; [|reflexivity]. cbn [app] in El. destruct El as [Hf Hn].
    destruct best as [[bx br]|]; [|discriminate].
    injection H as <- <-. cbn [scan_first snd] in Hf. destruct Hf as (pre & p2 & post & Hd & Hr & Hpre & Hpost).
    exists pre, p2, post, br. cbn [r_x r_f r_flag r_step r_trace r_niter].
    repeat split; try assumption; try (rewrite Hn; lia).
  Qed.

  (* the scan result is not above the objective at the initial point, up to the
     slack convexity in ns gives, whenever the initial second parameter is a scan point *)
  Theorem scan2d_not_below_initial lo hi bs p2s i1 x r :
    bounds = (lo, hi) :: bs -> (0 <= max_steps)%Z ->
    scan2d N func tol max_steps bounds p2s (i0 :: i1 :: rest) = Ok (x, r) ->
    In i1 p2s ->
    convex_fo (fun ns => fst3 (func (ns :: i1 :: rest))) (fun ns => snd3 (func (ns :: i1 :: rest))) ->
    exists xi ri, run i1 = Ok (xi :: i1 :: rest, ri) /\ r_f r <= r_f ri /\
      r_f r <= fst3 (func (i0 :: i1 :: rest)) +
               Rabs (snd3 (func (xi :: i1 :: rest))) * Rabs (i0 - xi).
  Proof.
    intros Hb Hms H Hin Hcx.
    apply scan2d_spec in H. destruct H as [_ Hall].
    destruct (Hall i1 Hin) as ([xv ri] & Hr & Hle). cbn [snd] in Hle.
    pose proof Hr as Hr'. unfold P_MinimizeScan.run in Hr'. rewrite Hb in Hr'.
    apply nr1d_vec_spec in Hr'; [|exact Hms]. destruct Hr' as (Hx & _ & Hp & _ & _).
    exists (r_x ri), ri. split; [rewrite <- Hx; exact Hr|]. split; [exact Hle|].
    pose proof (nr_not_worse_than_initial (fun ns => func (ns :: i1 :: rest)) tol lo hi max_steps i0 ri Hcx Hp) as Hn.
    unfold F, F1 in Hn. lra.
  Qed.
End ScanDeep.

(* NR + scan behind the wrapper, any number system *)
Theorem minimize_scan_status {T} (N : Num T) func tol max_steps max_reps bounds p2s uniform initials x f st reps :
  minimize_scan N func tol max_steps max_reps bounds p2s uniform initials = Ok (x, f, st, reps) ->
  (r_flag st <= 0)%Z /\ reps = 0%Z /\ f = r_f st /\
  scan2d N func tol max_steps bounds p2s initials = Ok (x, st).
Proof.
  unfold minimize_scan. intros H.
  destruct (scan2d N func tol max_steps bounds p2s initials) as [[x0 r0]|e] eqn:E0.
  - rewrite (minimize_single_run N _ _ _ _ _ _ _ initials x0 (r_f r0) r0) in H.
    + destruct (nr_converged (r_flag r0)) eqn:Ec; [|discriminate].
      destruct (clip_vec N x0 bounds) as [[xc c]|e] eqn:Ecl; [|discriminate].
      cbn [bind fst snd] in H. destruct c; [discriminate|].
      injection H as <- <- <- <-.
      unfold nr_converged in Ec. apply Z.leb_le in Ec. repeat split; assumption.
    + rewrite E0. reflexivity.
    + reflexivity.
  - unfold minimize in H. rewrite E0 in H. discriminate.
Qed.

(* TCLLHRatio.maximize with NR + scan, end to end: the reported maximum is the
   log-likelihood ratio at the reported point, which is one scan step's NR result;
   it is not below any scan step's NR optimum, and not below the value at the
   initial point (up to the concavity slack) when the initial gamma is scanned *)
Theorem maximize_scan_value erfR ns_pidx llh tol max_steps max_reps lo hi bs p2s uniform i0 i1 rest ll x st :
  (0 <= max_steps)%Z ->
  maximize_scan (RNum erfR) ns_pidx llh tol max_steps max_reps ((lo, hi) :: bs) p2s uniform (i0 :: i1 :: rest) = Ok (ll, x, st) ->
  ns_pidx = 0%Z /\ (r_flag st <= 0)%Z /\
  (exists p2, In p2 p2s /\ x = r_x st :: p2 :: rest /\ ll = fst3 (llh x) /\ lo <= i0 /\
              (lo <= hi -> i0 <= hi -> lo <= r_x st <= hi)) /\
  (forall q, In q p2s -> exists xq rq,
      nr1d_vec (RNum erfR) (neg_obj (RNum erfR) ns_pidx llh) tol max_steps ((lo, hi) :: bs) (i0 :: q :: rest)
        = Ok (xq :: q :: rest, rq) /\
      fst3 (llh (xq :: q :: rest)) <= ll) /\
  (In i1 p2s ->
   (forall a b, fst3 (llh (b :: i1 :: rest)) <=
                fst3 (llh (a :: i1 :: rest)) + snd3 (llh (a :: i1 :: rest)) * (b - a)) ->
   exists xi, fst3 (llh (i0 :: i1 :: rest)) - Rabs (snd3 (llh (xi :: i1 :: rest))) * Rabs (i0 - xi) <= ll).
Proof.
  intros Hms H. unfold maximize_scan in H.
  destruct (mx_ns_not_first ns_pidx) eqn:En; [discriminate|].
  assert (Hz : ns_pidx = 0%Z).
  { unfold mx_ns_not_first in En. apply negb_false_iff in En. apply Z.eqb_eq in En. exact En. }
  destruct (minimize_scan (RNum erfR) (neg_obj (RNum erfR) ns_pidx llh) tol max_steps max_reps ((lo, hi) :: bs) p2s uniform
              (i0 :: i1 :: rest)) as [[[[x0 f0] st0] rp]|e] eqn:Em; [|discriminate].
  cbn [bind] in H. injection H as <- <- <-.
  apply minimize_scan_status in Em. destruct Em as (Hfl & _ & -> & Hs).
  assert (Hneg : forall v, fst3 (neg_obj (RNum erfR) ns_pidx llh v) = - fst3 (llh v) /\
                           snd3 (neg_obj (RNum erfR) ns_pidx llh v) = - snd3 (llh v)).
  { intros v. unfold neg_obj, fst3, snd3. destruct (llh v) as [[a b] c]. cbn [fst snd].
    unfold mx_neg_f, mx_neg_grad. num_R. split; reflexivity. }
  assert (Hll : forall m, mx_llmax_nr (RNum erfR) m = - m) by (intros m; unfold mx_llmax_nr; num_R; reflexivity).
  
  pose proof (scan2d_spec erfR _ tol max_steps _ i0 rest p2s i1 x0 st0 Hs) as [(p2 & r0 & Hin & Hr & Hx & Hf & _) Hall].
  pose proof Hr as Hr'. unfold P_MinimizeScan.run in Hr'. apply nr1d_vec_spec in Hr'; [|exact Hms].
  destruct Hr' as (Hxv & Hlo & _ & Hb & Hfv).
  split; [exact Hz|]. split; [exact Hfl|]. split; [|split].
  - exists p2. split; [exact Hin|]. rewrite Hx. split; [exact Hxv|].
    split; [rewrite Hf, Hfv; rewrite (proj1 (Hneg x0)); lra|].
    split; [exact Hlo|]. first [exact Hb | rewrite <- Hx; exact Hb | rewrite Hx; exact Hb].
  - intros q Hq. destruct (Hall q Hq) as ([xv rq] & Hrq & Hle). cbn [snd] in Hle.
    pose proof Hrq as Hrq'. unfold P_MinimizeScan.run in Hrq'. apply nr1d_vec_spec in Hrq'; [|exact Hms].
    destruct Hrq' as (Hxq & _ & _ & _ & Hfq).
    exists (r_x rq), rq. rewrite <- Hxq. split; [exact Hrq|].
    rewrite Hfq in Hle. rewrite (proj1 (Hneg xv)) in Hle. lra.
  - intros Hi1 Hcc.
    assert (Hcx : convex_fo (fun ns => fst3 (neg_obj (RNum erfR) ns_pidx llh (ns :: i1 :: rest)))
                            (fun ns => snd3 (neg_obj (RNum erfR) ns_pidx llh (ns :: i1 :: rest)))).
    { intros a b. rewrite (proj1 (Hneg _)), (proj2 (Hneg _)), (proj1 (Hneg _)). pose proof (Hcc a b). lra. }
    destruct (scan2d_not_below_initial erfR _ tol max_steps _ i0 rest lo hi bs p2s i1 x0 st0 eq_refl Hms Hs Hi1 Hcx)
      as (xi & ri & _ & _ & Hn).
    exists xi. rewrite (proj1 (Hneg _)), (proj2 (Hneg _)), Rabs_Ropp in Hn. lra.
Qed.

(* ------------------------------------------------------------------ the objective closure *)
(* negative_llhratio_func_nr1d_ns is a function of its argument v alone: all three
   components are the negated evaluate / calculate_ns_grad2 results at v with the
   record array created from v, the gradient component being the ns one *)
Theorem closure_nr_spec erfR {V Rc : Type} (mk : V -> Rc) (ev : V -> Rc -> R * (Z -> R))
        (g2 : R -> Z -> Rc -> R) (at_ : V -> Z -> R) (ns_pidx : Z) (v : V) :
  closure_nr (RNum erfR) mk ev g2 at_ ns_pidx v =
    (- fst (ev v (mk v)), - snd (ev v (mk v)) ns_pidx, - g2 (at_ v ns_pidx) ns_pidx (mk v)).
Proof.
  unfold closure_nr. destruct (ev v (mk v)) as [f grads]. cbn [fst snd].
  unfold mx_neg_f, mx_neg_grad, mx_neg_grad2, mx_neg_grad_idx0. num_R. reflexivity.
Qed.

(* ------------------------------------------------------------------ the statements of Prop_C11.v (second layer) *)
Lemma thm_nr_forced_exit : forall erfR obj tol lo hi max_steps fuel niter st fp,
  nr_cond_num (RNum erfR) tol st fp = true -> (niter < max_steps)%Z ->
  (- snd3 (obj lo) / thd3 (obj lo) < 0 ->
   exists r, nr_loop (RNum erfR) obj tol lo hi (S fuel) max_steps niter lo st fp = Ok r /\
     r_flag r = (-2)%Z /\ r_x r = lo /\ r_f r = fst3 (obj lo) /\ r_niter r = niter /\
     r_step r = - snd3 (obj lo) / thd3 (obj lo) /\ r_trace r = [lo]) /\
  (lo <> hi -> 0 < - snd3 (obj hi) / thd3 (obj hi) ->
   exists r, nr_loop (RNum erfR) obj tol lo hi (S fuel) max_steps niter hi st fp = Ok r /\
     r_flag r = (-1)%Z /\ r_x r = hi /\ r_f r = fst3 (obj hi) /\ r_niter r = niter /\
     r_step r = - snd3 (obj hi) / thd3 (obj hi) /\ r_trace r = [hi]).
Proof.
  intros erfR obj tol lo hi max_steps fuel niter st fp Hc Hlt. split.
  - intros Hs. exact (nr_loop_forced_lo erfR obj tol lo hi max_steps fuel niter st fp Hc Hlt Hs).
  - intros Hd Hs. exact (nr_loop_forced_hi erfR obj tol lo hi max_steps fuel niter st fp Hd Hc Hlt Hs).
Qed.

Lemma niters_fold erfR func tol max_steps bounds i0 rest l :
  niters erfR func tol max_steps bounds i0 rest l =
  fold_right (fun q acc => ((match nr1d_vec (RNum erfR) func tol max_steps bounds (i0 :: q :: rest) with
                             | Ok xr => r_niter (snd xr) | Err _ => 0 end) + acc)%Z) 0%Z l.
Proof. induction l as [|q t IH]; cbn [niters fold_right]; [reflexivity|]. rewrite IH. reflexivity. Qed.

Lemma thm_scan_selected : forall erfR func tol max_steps bounds i0 rest p2s i1 x r,
  scan2d (RNum erfR) func tol max_steps bounds p2s (i0 :: i1 :: rest) = Ok (x, r) ->
  exists pre p2 post r0,
    p2s = pre ++ p2 :: post /\
    nr1d_vec (RNum erfR) func tol max_steps bounds (i0 :: p2 :: rest) = Ok (x, r0) /\
    r_x r = r_x r0 /\ r_f r = r_f r0 /\ r_flag r = r_flag r0 /\ r_step r = r_step r0 /\
    r_trace r = r_trace r0 /\
    r_niter r = fold_right (fun q acc =>
                  ((match nr1d_vec (RNum erfR) func tol max_steps bounds (i0 :: q :: rest) with
                    | Ok xr => r_niter (snd xr) | Err _ => 0 end) + acc)%Z) 0%Z p2s /\
    (forall q, In q pre -> exists xr,
       nr1d_vec (RNum erfR) func tol max_steps bounds (i0 :: q :: rest) = Ok xr /\ r_f r < r_f (snd xr)) /\
    (forall q, In q post -> exists xr,
       nr1d_vec (RNum erfR) func tol max_steps bounds (i0 :: q :: rest) = Ok xr /\ r_f r <= r_f (snd xr)).
Proof.
  intros erfR func tol max_steps bounds i0 rest p2s i1 x r H.
  destruct (scan2d_selected erfR func tol max_steps bounds i0 rest p2s i1 x r H)
    as (pre & p2 & post & r0 & H1 & H2 & H3 & H4 & H5 & H6 & H7 & H8 & H9 & H10).
  exists pre, p2, post, r0. rewrite <- niters_fold. repeat split; assumption.
Qed.

Lemma thm_scan_not_below_initial : forall erfR func tol max_steps lo hi bs i0 rest p2s i1 x r,
  (0 <= max_steps)%Z ->
  scan2d (RNum erfR) func tol max_steps ((lo, hi) :: bs) p2s (i0 :: i1 :: rest) = Ok (x, r) ->
  In i1 p2s ->
  convex_fo (fun ns => fst3 (func (ns :: i1 :: rest))) (fun ns => snd3 (func (ns :: i1 :: rest))) ->
  exists xi ri,
    nr1d_vec (RNum erfR) func tol max_steps ((lo, hi) :: bs) (i0 :: i1 :: rest) = Ok (xi :: i1 :: rest, ri) /\
    r_f r <= r_f ri /\
    r_f r <= fst3 (func (i0 :: i1 :: rest)) + Rabs (snd3 (func (xi :: i1 :: rest))) * Rabs (i0 - xi).
Proof.
  intros erfR func tol max_steps lo hi bs i0 rest p2s i1 x r Hms H Hin Hcx.
  exact (scan2d_not_below_initial erfR func tol max_steps ((lo, hi) :: bs) i0 rest lo hi bs p2s i1 x r
           eq_refl Hms H Hin Hcx).
Qed.

Lemma thm_wrapper_clip_exact : forall erfR (St : Type)
    (impl : Z -> list R -> res (list R * R * St)) (conv rep : St -> bool)
    (reeval : list R -> res R) bounds uniform max_reps initials x f st reps,
  Forall (fun b => fst b <= snd b) bounds ->
  minimize (RNum erfR) impl conv rep reeval bounds uniform max_reps initials = Ok (x, f, st, reps) ->
  exists ini x0 f0,
    impl reps ini = Ok (x0, f0, st) /\ conv st = true /\
    x = map (fun p => clipR (fst (snd p)) (snd (snd p)) (fst p)) (combine x0 bounds) /\
    length x0 = length bounds /\
    ((Forall2 (fun xi b => fst b <= xi <= snd b) x0 bounds /\ x = x0 /\ f = f0) \/
     (Exists (fun p => fst p < fst (snd p) \/ snd (snd p) < fst p) (combine x0 bounds) /\ reeval x = Ok f)).
Proof. intros erfR St. exact (minimize_clip_exact erfR). Qed.

(* what NRNsScan2dMinimizerImpl stores for the best step, and the remaining closure plumbing *)
Lemma K_scan_store (x f st nt ns pidx : Z) :
  scan_best_x x = x /\ scan_best_f f = f /\ scan_best_status st = st /\ scan_total_niter nt = nt /\
  mx_closure_grad2_kw_ns ns = ns /\ mx_closure_grad2_kw_pidx pidx = pidx.
Proof. repeat split. Qed.
