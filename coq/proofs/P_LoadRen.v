(* C17: field renaming (rename_fields after fix 4f30bc8) and the back-translation
   of requested names (_conv_new2orig_field_names) as theorems. *)
From Coq Require Import ZArith List Bool Lia.
From Sky Require Import Result PyList G_load M_Load S_Load P_Load P_LoadDs P_LoadFiles.
Import ListNotations.
Open Scope Z_scope.

Lemma zmem_cons : forall x k ks, zmem x (k :: ks) = (x =? k) || zmem x ks.
Proof. reflexivity. Qed.

Lemma zmem_aremove_other : forall {V} k k' (t : list (Z * V)),
  k' <> k -> zmem k' (keys (aremove k t)) = zmem k' (keys t).
Proof.
  intros V k k' t Hne. induction t as [|[n v] t IH]; [reflexivity|].
  cbn [aremove]. destruct (k =? n) eqn:E.
  - apply Z.eqb_eq in E. subst n. unfold keys. cbn [map fst]. rewrite zmem_cons.
    destruct (k' =? k) eqn:E2; [apply Z.eqb_eq in E2; contradiction|]. exact IH.
  - unfold keys in *. cbn [map fst]. rewrite !zmem_cons, IH. reflexivity.
Qed.

Lemma alookup_aremove_other : forall {V} k k' (t : list (Z * V)),
  k' <> k -> alookup k' (aremove k t) = alookup k' t.
Proof.
  intros V k k' t Hne. induction t as [|[n v] t IH]; [reflexivity|].
  cbn [aremove]. destruct (k =? n) eqn:E.
  - apply Z.eqb_eq in E. subst n. cbn [alookup].
    destruct (k' =? k) eqn:E2; [apply Z.eqb_eq in E2; contradiction|]. exact IH.
  - cbn [alookup]. rewrite IH. reflexivity.
Qed.

Lemma filter_aremove : forall k ks (t : table),
  filter (fun c : col => negb (zmem (fst c) ks)) (aremove k t)
  = filter (fun c : col => negb (zmem (fst c) (k :: ks))) t.
Proof.
  intros k ks. induction t as [|[n v] t IH]; [reflexivity|].
  cbn [aremove filter fst]. rewrite zmem_cons. rewrite (Z.eqb_sym n k).
  destruct (k =? n) eqn:E; cbn [orb negb].
  - exact IH.
  - cbn [filter fst]. rewrite IH. reflexivity.
Qed.

Lemma filter_absent : forall k ks (t : table),
  zmem k (keys t) = false ->
  filter (fun c : col => negb (zmem (fst c) (k :: ks))) t
  = filter (fun c : col => negb (zmem (fst c) ks)) t.
Proof.
  intros k ks. induction t as [|[n v] t IH]; intros H; [reflexivity|].
  unfold keys in H. cbn [map fst] in H. rewrite zmem_cons in H. apply orb_false_iff in H.
  destruct H as [H1 H2]. cbn [filter fst]. rewrite zmem_cons. rewrite (Z.eqb_sym n k), H1. cbn [orb].
  rewrite (IH H2). reflexivity.
Qed.

Lemma ren_pairs_aremove : forall k rest (t : table),
  ~ In k (keys rest) -> ren_pairs (aremove k t) rest = ren_pairs t rest.
Proof.
  intros k. induction rest as [|[o n] rest IH]; intros t H; [reflexivity|].
  unfold ren_pairs in *. cbn [flat_map fst snd].
  rewrite alookup_aremove_other by (intros E; apply H; left; cbn; congruence).
  rewrite IH by (intros HI; apply H; right; exact HI). reflexivity.
Qed.

Lemma ren_rest_nil : forall t, ren_rest t [] = t.
Proof.
  unfold ren_rest. induction t as [|c t IH]; [reflexivity|]. cbn. f_equal. exact IH.
Qed.

Lemma rename_pop_spec : forall conv t stale,
  NoDup (keys conv) ->
  (forall old, In old (keys conv) -> zmem old stale = zmem old (tnames t)) ->
  rename_pop stale t conv = Ok (ren_rest t conv, ren_pairs t conv).
Proof.
  induction conv as [|[old new] conv IH]; intros t stale Hnd Hst.
  - cbn [rename_pop]. rewrite ren_rest_nil. reflexivity.
  - cbn in Hnd. inversion Hnd as [|? ? Hnotin Hnd']; subst.
    cbn [rename_pop]. rewrite K_ren_present. rewrite (Hst old (or_introl eq_refl)).
    destruct (zmem old (tnames t)) eqn:Ep.
    + destruct (alookup_some_of_mem old t Ep) as [c Hc]. rewrite Hc.
      rewrite (IH (aremove old t) stale Hnd').
      * cbn [bind fst snd]. f_equal. f_equal.
        -- unfold ren_rest. unfold keys. cbn [map fst]. apply filter_aremove.
        -- unfold ren_pairs at 2. cbn [flat_map fst snd]. rewrite Hc. cbn [app].
           f_equal. apply ren_pairs_aremove. exact Hnotin.
      * intros o Ho. rewrite (Hst o (or_intror Ho)). symmetry. apply zmem_aremove_other.
        intros E. subst o. contradiction.
    + rewrite (IH t stale Hnd') by (intros o Ho; apply Hst; right; exact Ho).
      f_equal. f_equal.
      * unfold ren_rest, keys. cbn [map fst]. symmetry. apply filter_absent. exact Ep.
      * unfold ren_pairs at 2. cbn [flat_map fst snd]. rewrite (alookup_none old t Ep). reflexivity.
Qed.

(* rename_fields in closed form: the staying fields, then every renamed field
   assigned under its new name (in place if that name is still there, appended
   otherwise), in dictionary order *)
Theorem rename_closed : forall t conv,
  NoDup (keys conv) ->
  rename_fields t conv = Ok (dict_merge (ren_rest t conv) (ren_pairs t conv)).
Proof.
  intros t conv Hnd. unfold rename_fields.
  rewrite (rename_pop_spec conv t (tnames t) Hnd) by reflexivity. reflexivity.
Qed.

Lemma alookup_filter_keys : forall ks n (t : table),
  alookup n (filter (fun c : col => negb (zmem (fst c) ks)) t)
  = if zmem n ks then None else alookup n t.
Proof.
  intros ks n. induction t as [|[k v] t IH]; [destruct (zmem n ks); reflexivity|].
  cbn [filter fst]. destruct (zmem k ks) eqn:Ek; cbn [negb].
  - rewrite IH. cbn [alookup]. destruct (n =? k) eqn:E; [|reflexivity].
    apply Z.eqb_eq in E. subst k. rewrite Ek. reflexivity.
  - cbn [alookup]. destruct (n =? k) eqn:E.
    + apply Z.eqb_eq in E. subst k. rewrite Ek. reflexivity.
    + exact IH.
Qed.

Lemma In_nodup_alookup : forall {V} k (v : V) d, NoDup (keys d) -> In (k, v) d -> alookup k d = Some v.
Proof.
  induction d as [|[k' v'] d IH]; intros Hnd Hin; [destruct Hin|].
  cbn in Hnd. inversion Hnd as [|? ? Hnotin Hnd']; subst. cbn [alookup].
  destruct Hin as [Hin|Hin].
  - inversion Hin; subst. rewrite Z.eqb_refl. reflexivity.
  - destruct (k =? k') eqn:E.
    + apply Z.eqb_eq in E. subst k'. exfalso. apply Hnotin. apply (in_map fst _ _ Hin).
    + apply IH; assumption.
Qed.

Lemma ren_pairs_in : forall t conv old new c,
  In (old, new) conv -> alookup old t = Some c -> In (new, c) (ren_pairs t conv).
Proof.
  intros t conv old new c Hin Hc. unfold ren_pairs. apply in_flat_map.
  exists (old, new). split; [exact Hin|]. cbn [fst snd]. rewrite Hc. left. reflexivity.
Qed.

(* every renamed field carries its data under the new name — chains and swaps
   included — provided the new names of the present entries are pairwise distinct *)
Theorem rename_lookup_new : forall t conv t' old new c,
  NoDup (keys conv) -> NoDup (keys (ren_pairs t conv)) ->
  rename_fields t conv = Ok t' ->
  In (old, new) conv -> alookup old t = Some c ->
  alookup new t' = Some c.
Proof.
  intros t conv t' old new c Hnd Hnew H Hin Hc. rewrite (rename_closed t conv Hnd) in H.
  inversion H; subst t'. apply merge_overrides; [exact Hnew|].
  apply In_nodup_alookup; [exact Hnew|]. eapply ren_pairs_in; eassumption.
Qed.

(* every other name: gone if it was renamed away, untouched otherwise *)
Theorem rename_lookup_other : forall t conv t' n,
  NoDup (keys conv) -> rename_fields t conv = Ok t' ->
  zmem n (keys (ren_pairs t conv)) = false ->
  alookup n t' = if zmem n (keys conv) then None else alookup n t.
Proof.
  intros t conv t' n Hnd H Hn. rewrite (rename_closed t conv Hnd) in H. inversion H; subst t'.
  rewrite merge_keeps by (apply alookup_none; exact Hn).
  unfold ren_rest. apply alookup_filter_keys.
Qed.

(* fresh new names: the staying fields in their order, then the renamed ones in
   dictionary order *)
Theorem rename_simple : forall t conv,
  NoDup (keys conv) -> NoDup (keys (ren_rest t conv ++ ren_pairs t conv)) ->
  rename_fields t conv = Ok (ren_rest t conv ++ ren_pairs t conv).
Proof.
  intros t conv Hnd Hfresh. rewrite (rename_closed t conv Hnd). f_equal.
  unfold dict_merge. apply dict_of_nodup_gen. exact Hfresh.
Qed.

Theorem rename_empty : forall t, rename_fields t [] = Ok t.
Proof.
  intros t. rewrite rename_closed by constructor. unfold ren_pairs, dict_merge. cbn.
  rewrite ren_rest_nil. reflexivity.
Qed.

(* ------------------------------------------------------------ _conv_new2orig_field_names *)
Lemma swap_keys : forall (ren : list (name * name)), keys (map (fun kv => (snd kv, fst kv)) ren) = map snd ren.
Proof. intros. unfold keys. rewrite map_map. reflexivity. Qed.

Theorem new2orig_spec : forall ren names,
  NoDup (map snd ren) ->
  conv_new2orig names ren
  = map (fun n => match alookup n (map (fun kv => (snd kv, fst kv)) ren) with Some o => o | None => n end) names.
Proof.
  intros ren names Hnd. unfold conv_new2orig, dict_of.
  rewrite (dict_of_nodup_gen (map (fun kv : name * name => (snd kv, fst kv)) ren) []).
  - reflexivity.
  - cbn [app]. rewrite swap_keys. exact Hnd.
Qed.

Theorem new2orig_renamed : forall ren names o n,
  NoDup (map snd ren) -> In (o, n) ren -> In n names -> In o (conv_new2orig names ren).
Proof.
  intros ren names o n Hnd Hin Hn. rewrite (new2orig_spec ren names Hnd).
  apply in_map_iff. exists n. split; [|exact Hn].
  rewrite (In_nodup_alookup n o (map (fun kv => (snd kv, fst kv)) ren)).
  - reflexivity.
  - rewrite swap_keys. exact Hnd.
  - apply in_map_iff. exists (o, n). split; [reflexivity|exact Hin].
Qed.

Theorem new2orig_plain : forall ren names n,
  NoDup (map snd ren) -> ~ In n (map snd ren) -> In n names -> In n (conv_new2orig names ren).
Proof.
  intros ren names n Hnd Hnot Hn. rewrite (new2orig_spec ren names Hnd).
  apply in_map_iff. exists n. split; [|exact Hn].
  rewrite alookup_none; [reflexivity|]. rewrite swap_keys. apply zmem_false. exact Hnot.
Qed.

Lemma dedup_In : forall x l, In x (dedup l) <-> In x l.
Proof.
  intros x. induction l as [|a l IH]; [reflexivity|]. cbn [dedup]. split.
  - intros [H|H]; [left; exact H|]. apply filter_In in H. right. apply IH. apply H.
  - intros [H|H]; [left; exact H|]. destruct (Z.eq_dec x a) as [E|E]; [left; symmetry; exact E|].
    right. apply filter_In. split; [apply IH; exact H|]. apply negb_true_iff. apply Z.eqb_neq. exact E.
Qed.

Theorem rename_data : forall t conv t',
  NoDup (keys conv) -> rename_fields t conv = Ok t' ->
  (NoDup (keys (ren_pairs t conv)) ->
     forall old new c, In (old, new) conv -> alookup old t = Some c -> alookup new t' = Some c) /\
  (forall n, zmem n (keys (ren_pairs t conv)) = false ->
     alookup n t' = if zmem n (keys conv) then None else alookup n t).
Proof.
  intros t conv t' Hnd H. split.
  - intros Hnew old new c Hin Hc. eapply rename_lookup_new; eassumption.
  - intros n Hn. apply rename_lookup_other; assumption.
Qed.

Theorem new2orig_all : forall ren names,
  NoDup (map snd ren) ->
  conv_new2orig names ren
    = map (fun n => match alookup n (map (fun kv => (snd kv, fst kv)) ren) with Some o => o | None => n end) names
  /\ (forall o n, In (o, n) ren -> In n names -> In o (conv_new2orig names ren))
  /\ (forall n, ~ In n (map snd ren) -> In n names -> In n (conv_new2orig names ren)).
Proof.
  intros ren names Hnd. split; [apply new2orig_spec; exact Hnd|]. split.
  - intros o n. apply new2orig_renamed. exact Hnd.
  - intros n. apply new2orig_plain. exact Hnd.
Qed.
