From Coq Require Import ZArith List Bool Lia.
From Sky Require Import Result PyList G_livetime M_Livetime S_Livetime.
Import ListNotations.
Open Scope Z_scope.

(* ------------------------------------------------------------------ *)
(* Characterising lemmas of the regenerated kernels.  All later proofs use
   these, never the generated text.                                      *)

Lemma K_is_on_flag i : is_on_flag i = Z.odd i.
Proof.
  unfold is_on_flag. rewrite Z.land_ones with (n := 1) by lia.
  change (2 ^ 1) with 2. rewrite Zmod_odd. destruct (Z.odd i); reflexivity.
Qed.

Lemma K_btw_N_pre si ei :
  btw_N_pre si ei = ((ei + ei mod 2) - (si - si mod 2)) / 2.
Proof. reflexivity. Qed.
Lemma K_btw_none n : btw_none n = (n <=? 0). Proof. reflexivity. Qed.
Lemma K_btw_start_off i : btw_start_off i = Z.even i.
Proof. unfold btw_start_off. rewrite Zmod_even. destruct (Z.even i); reflexivity. Qed.
Lemma K_btw_end_off i : btw_end_off i = Z.even i.
Proof. unfold btw_end_off. rewrite Zmod_even. destruct (Z.even i); reflexivity. Qed.
Lemma K_btw_start_edge i v : btw_start_edge i v = v /\ btw_start_edge_idx0 i = i.
Proof. split; reflexivity. Qed.
Lemma K_btw_end_edge i v : btw_end_edge i v = v /\ btw_end_edge_idx0 i = i - 1.
Proof. split; reflexivity. Qed.
Lemma K_btw_start_dec i : btw_start_dec i = i - 1. Proof. reflexivity. Qed.
Lemma K_btw_end_inc i : btw_end_inc i = i + 1. Proof. reflexivity. Qed.
Lemma K_btw_N si ei : btw_N si ei = Z.quot (ei - si) 2. Proof. reflexivity. Qed.
Lemma K_btw_many n : btw_many n = (1 <? n).
Proof. unfold btw_many. rewrite Z.gtb_ltb. reflexivity. Qed.
Lemma K_btw_mid si ei : btw_mid_lo si = si + 1 /\ btw_mid_hi ei = ei - 1.
Proof. split; reflexivity. Qed.
Lemma K_upto_odd i : upto_odd i = if Z.odd i then 1 else 0.
Proof.
  unfold upto_odd. rewrite Z.land_ones with (n := 1) by lia.
  change (2 ^ 1) with 2. apply Zmod_odd.
Qed.
Lemma K_upto_idxs o i :
  upto_idxs o i = if o =? 0 then i / 2 - 1 else (i - 1) / 2.
Proof. unfold upto_idxs. destruct (o =? 0); reflexivity. Qed.
Lemma K_upto_idxs_inc i : upto_idxs_inc i = i + 1. Proof. reflexivity. Qed.
Lemma K_upto_livetimes o m i oi a b c :
  upto_livetimes o m i oi a b c = (if o =? 0 then c else a + m - b)
  /\ upto_livetimes_idx0 o m i oi = i - 1
  /\ upto_livetimes_idx1 o m i oi = oi - 1
  /\ upto_livetimes_idx2 o m i oi = i.
Proof. unfold upto_livetimes. destruct (o =? 0); repeat split; reflexivity. Qed.
Lemma K_draw_y w i c : draw_y w i c = w - c. Proof. reflexivity. Qed.
Lemma K_draw_y_idx w i : draw_y_idx0 w i = i - 1. Proof. reflexivity. Qed.
Lemma K_draw_ontime y i lo : draw_ontime y i lo = lo + y. Proof. reflexivity. Qed.
Lemma K_draw_ontime_idx y i : draw_ontime_idx0 y i = i - 1. Proof. reflexivity. Qed.
Lemma K_draw_clip o i up lo :
  draw_clip o i up lo = Z.min o (if lo <? up then up - 1 else if up <? lo then up + 1 else up)
  /\ draw_clip_idx0 o i = i - 1 /\ draw_clip_idx1 o i = i - 1.
Proof. repeat split. Qed.
Lemma K_subset_keep a b t : subset_keep a b t t = (a <=? t) && (t <? b).
Proof. unfold subset_keep. rewrite Z.geb_leb. reflexivity. Qed.
Lemma K_subset_keep_mc a b t : subset_keep_mc a b t t = (a <=? t) && (t <? b).
Proof. unfold subset_keep_mc. rewrite Z.geb_leb. reflexivity. Qed.

(* ------------------------------------------------------------------ *)
(* Lists                                                                *)

Lemma zlen_cons {A} (a : A) l : zlen (a :: l) = zlen l + 1.
Proof. unfold zlen. cbn [length]. lia. Qed.
Lemma zlen_nil {A} : zlen (@nil A) = 0. Proof. reflexivity. Qed.
Lemma zlen_app {A} (a b : list A) : zlen (a ++ b) = zlen a + zlen b.
Proof. unfold zlen. rewrite app_length. lia. Qed.
Lemma zlen_nonneg {A} (l : list A) : 0 <= zlen l.
Proof. unfold zlen. lia. Qed.
Lemma zlen_flat2 ivs : zlen (flat2 ivs) = 2 * zlen ivs.
Proof.
  induction ivs as [|[l u] r IH]; [reflexivity|].
  cbn [flat2]. rewrite !zlen_cons, IH. lia.
Qed.

Lemma flat2_app a b : flat2 (a ++ b) = flat2 a ++ flat2 b.
Proof. induction a as [|[l u] r IH]; [reflexivity|]. cbn. now rewrite IH. Qed.

Lemma py_get_nonneg {A} (l : list A) i :
  0 <= i -> py_get l i = match nth_error l (Z.to_nat i) with
                         | Some a => Ok a | None => Err IndexError end.
Proof.
  intros Hi. unfold py_get.
  destruct (i <? 0) eqn:E; [lia|].
  destruct (i <? 0); cbn [orb].
  - lia.
  - destruct (zlen l <=? i) eqn:E2; [|reflexivity].
    assert (H : nth_error l (Z.to_nat i) = None).
    { apply nth_error_None. unfold zlen in E2. lia. }
    now rewrite H.
Qed.

Lemma py_get_app_r {A} (a b : list A) i :
  0 <= i -> py_get (a ++ b) (zlen a + i) = py_get b i.
Proof.
  intros Hi. rewrite !py_get_nonneg by (pose proof (zlen_nonneg a); lia).
  replace (Z.to_nat (zlen a + i)) with (length a + Z.to_nat i)%nat
    by (unfold zlen; lia).
  rewrite nth_error_app2 by lia.
  now replace (length a + Z.to_nat i - length a)%nat with (Z.to_nat i) by lia.
Qed.

Lemma py_get_app_l {A} (a b : list A) i :
  0 <= i < zlen a -> py_get (a ++ b) i = py_get a i.
Proof.
  intros Hi. rewrite !py_get_nonneg by lia.
  rewrite nth_error_app1; [reflexivity|]. unfold zlen in Hi. lia.
Qed.

Lemma py_get_0 {A} (a : A) l : py_get (a :: l) 0 = Ok a.
Proof. rewrite py_get_nonneg by lia. reflexivity. Qed.

Lemma py_get_last {A} (l : list A) (a : A) : py_get (l ++ [a]) (zlen l) = Ok a.
Proof.
  replace (zlen l) with (zlen l + 0) by lia.
  rewrite py_get_app_r by lia. apply py_get_0.
Qed.

Lemma py_get_neg1 {A} (l : list A) (a : A) : py_get (l ++ [a]) (-1) = Ok a.
Proof.
  unfold py_get. cbn [Z.ltb Z.compare].
  rewrite zlen_app. change (zlen [a]) with 1.
  pose proof (zlen_nonneg l).
  destruct (-1 + (zlen l + 1) <? 0) eqn:E1; [lia|].
  destruct (zlen l + 1 <=? -1 + (zlen l + 1)) eqn:E2; [lia|]. cbn [orb].
  replace (Z.to_nat (-1 + (zlen l + 1))) with (length l + 0)%nat by (unfold zlen; lia).
  rewrite nth_error_app2 by lia.
  now replace (length l + 0 - length l)%nat with 0%nat by lia.
Qed.

(* slice (x ++ y ++ z)[|x| : |x|+|y|] = y *)
Lemma py_slice_mid {A} (x y z : list A) :
  py_slice (x ++ y ++ z) (zlen x) (zlen x + zlen y) = y.
Proof.
  unfold py_slice, py_norm_idx.
  rewrite !zlen_app.
  pose proof (zlen_nonneg x). pose proof (zlen_nonneg y). pose proof (zlen_nonneg z).
  destruct (zlen x <? 0) eqn:E1; [lia|].
  destruct (zlen x + zlen y <? 0) eqn:E2; [lia|].
  replace (Z.max 0 (Z.min (zlen x + (zlen y + zlen z)) (zlen x))) with (zlen x) by lia.
  replace (Z.max 0 (Z.min (zlen x + (zlen y + zlen z)) (zlen x + zlen y)))
    with (zlen x + zlen y) by lia.
  replace (Z.to_nat (zlen x)) with (length x) by (unfold zlen; lia).
  replace (Z.to_nat (zlen x + zlen y - zlen x)) with (length y) by (unfold zlen; lia).
  rewrite skipn_app, skipn_all, Nat.sub_diag. cbn [skipn app].
  rewrite firstn_app, firstn_all, Nat.sub_diag. cbn [firstn]. apply app_nil_r.
Qed.

(* ------------------------------------------------------------------ *)
(* digitize                                                             *)

Lemma digitize_app x a b : digitize x (a ++ b) = digitize x a + digitize x b.
Proof. induction a as [|y a IH]; cbn [digitize app]; [reflexivity|]. rewrite IH. lia. Qed.

Lemma digitize_all_le x l : Forall (fun b => b <= x) l -> digitize x l = zlen l.
Proof.
  induction 1 as [|b l Hb _ IH]; [reflexivity|].
  cbn [digitize]. rewrite zlen_cons, IH.
  destruct (b <=? x) eqn:E; lia.
Qed.

Lemma digitize_all_gt x l : Forall (fun b => x < b) l -> digitize x l = 0.
Proof.
  induction 1 as [|b l Hb _ IH]; [reflexivity|].
  cbn [digitize]. rewrite IH. destruct (b <=? x) eqn:E; lia.
Qed.

(* ------------------------------------------------------------------ *)
(* well-formed interval lists                                           *)

Lemma nondecreasing_chain lo ivs :
  nondecreasing (lo :: flat2 ivs) = true -> chain lo ivs.
Proof.
  revert lo. induction ivs as [|[l u] r IH]; intros lo H; [exact I|].
  cbn [flat2 nondecreasing] in H. cbn [chain].
  apply andb_true_iff in H as [H1 H2].
  apply andb_true_iff in H2 as [H2 H3].
  repeat split; try lia. apply IH. exact H3.
Qed.

Lemma integrity_wf ivs : integrity ivs = true -> wf ivs.
Proof.
  unfold integrity, wf. destruct ivs as [|[l u] r]; [trivial|].
  intros H. cbn [flat2 nondecreasing] in H.
  apply andb_true_iff in H as [H1 H2]. cbn [chain].
  repeat split; try lia. apply nondecreasing_chain. exact H2.
Qed.

Lemma chain_nondecreasing lo ivs :
  chain lo ivs -> nondecreasing (lo :: flat2 ivs) = true.
Proof.
  revert lo. induction ivs as [|[l u] r IH]; intros lo H; [reflexivity|].
  cbn [chain] in H. destruct H as (H1 & H2 & H3).
  cbn [flat2 nondecreasing]. apply IH in H3. cbn [nondecreasing] in H3.
  rewrite H3. rewrite (proj2 (Z.leb_le lo l) H1), (proj2 (Z.leb_le l u) H2). reflexivity.
Qed.

Lemma wf_integrity ivs : wf ivs -> integrity ivs = true.
Proof.
  unfold integrity, wf. destruct ivs as [|[l u] r]; [reflexivity|].
  intros H. apply chain_nondecreasing in H. cbn [flat2 nondecreasing] in *.
  apply andb_true_iff in H as [_ H]. exact H.
Qed.

Lemma chain_weaken lo lo' ivs : lo' <= lo -> chain lo ivs -> chain lo' ivs.
Proof. destruct ivs as [|[l u] r]; cbn [chain]; intuition lia. Qed.

Lemma chain_lb lo ivs :
  chain lo ivs -> Forall (fun iv => lo <= fst iv /\ fst iv <= snd iv) ivs.
Proof.
  revert lo. induction ivs as [|[l u] r IH]; intros lo H; [constructor|].
  cbn [chain] in H. destruct H as (H1 & H2 & H3). constructor.
  - cbn. lia.
  - apply IH. eapply chain_weaken; [|exact H3]. lia.
Qed.

Lemma chain_app_l lo a b : chain lo (a ++ b) -> chain lo a.
Proof.
  revert lo. induction a as [|[l u] r IH]; intros lo H; [exact I|].
  cbn [app chain] in *. intuition.
Qed.

Lemma chain_wf lo ivs : chain lo ivs -> wf ivs.
Proof.
  destruct ivs as [|[l u] r]; [trivial|]. cbn [wf chain]. intuition lia.
Qed.

Lemma flat2_gt lo t ivs :
  chain lo ivs -> t < lo -> Forall (fun b => t < b) (flat2 ivs).
Proof.
  intros H Ht. apply chain_lb in H.
  induction H as [|[l u] r Hx _ IH]; [constructor|].
  cbn in Hx. cbn [flat2]. repeat constructor; try lia. exact IH.
Qed.

Lemma digitize_gt lo t ivs :
  chain lo ivs -> t < lo -> digitize t (flat2 ivs) = 0.
Proof. intros. apply digitize_all_gt. eapply flat2_gt; eauto. Qed.

(* ------------------------------------------------------------------ *)
(* is_on                                                                *)

Lemma In_on_cons l u r t :
  In_on ((l, u) :: r) t <-> (l <= t < u) \/ In_on r t.
Proof.
  unfold In_on. split.
  - intros (l' & u' & [E|Hin] & H).
    + inversion E; subst. now left.
    + right. eauto.
  - intros [H|(l' & u' & Hin & H)].
    + exists l, u. split; [now left|exact H].
    + exists l', u'. split; [now right|exact H].
Qed.

Lemma In_on_nil t : ~ In_on [] t.
Proof. intros (l & u & [] & _). Qed.

Lemma In_on_lb lo ivs t : chain lo ivs -> In_on ivs t -> lo <= t.
Proof.
  intros H (l & u & Hin & Ht). apply chain_lb in H.
  rewrite Forall_forall in H. specialize (H _ Hin). cbn in H. lia.
Qed.

Lemma odd_digitize_chain lo ivs t :
  chain lo ivs -> (Z.odd (digitize t (flat2 ivs)) = true <-> In_on ivs t).
Proof.
  revert lo. induction ivs as [|[l u] r IH]; intros lo H.
  - cbn. split; [discriminate|]. intros HH. destruct (In_on_nil _ HH).
  - cbn [chain] in H. destruct H as (H1 & H2 & H3).
    cbn [flat2 digitize]. rewrite In_on_cons.
    destruct (l <=? t) eqn:E1; destruct (u <=? t) eqn:E2.
    + (* both edges passed: parity of the rest *)
      replace (1 + (1 + digitize t (flat2 r))) with (digitize t (flat2 r) + 2) by lia.
      rewrite Z.odd_add_even by (exists 1; lia).
      rewrite (IH u H3). split; [now right|]. intros [Hc|Hc]; [lia|exact Hc].
    + rewrite (digitize_gt u t r H3) by lia. cbn.
      split; [intros _; left; lia|reflexivity].
    + lia.
    + rewrite (digitize_gt u t r H3) by lia. cbn.
      split; [discriminate|]. intros [Hc|Hc]; [lia|].
      pose proof (In_on_lb _ _ _ H3 Hc). lia.
Qed.

Theorem is_on_spec ivs t :
  wf ivs -> (is_on ivs t = true <-> In_on ivs t).
Proof.
  intros H. unfold is_on, onoff_idx. rewrite K_is_on_flag.
  destruct ivs as [|[l u] r].
  - cbn. split; [discriminate|]. intros HH. destruct (In_on_nil _ HH).
  - eapply odd_digitize_chain. exact H.
Qed.

(* ------------------------------------------------------------------ *)
(* get_uptime_intervals_between = clip                                  *)

Ltac Zify.zify_post_hook ::= Z.to_euclidean_division_equations.

Lemma chain_all_snd_gt lo ivs t :
  chain lo ivs -> t < lo -> Forall (fun iv => t < snd iv) ivs.
Proof.
  intros H Ht. apply chain_lb in H.
  eapply Forall_impl; [|exact H]. intros [l u]; cbn. lia.
Qed.

Lemma split2 lo ivs t1 t2 :
  chain lo ivs -> Forall (fun iv => t1 < snd iv) ivs ->
  exists K B, ivs = K ++ B
    /\ Forall (fun iv => t1 < snd iv /\ fst iv <= t2) K
    /\ Forall (fun iv => t2 < fst iv) B.
Proof.
  revert lo. induction ivs as [|[l u] r IH]; intros lo Hc Hs.
  - exists [], []. repeat split; constructor.
  - cbn [chain] in Hc. destruct Hc as (H1 & H2 & H3).
    destruct (l <=? t2) eqn:E.
    + inversion Hs as [|? ? Hu Hr]; subst. cbn in Hu.
      destruct (IH u H3 Hr) as (K & B & -> & HK & HB).
      exists ((l, u) :: K), B. repeat split; [|exact HB].
      constructor; [cbn; lia|exact HK].
    + exists [], ((l, u) :: r). repeat split; [constructor|].
      constructor; [cbn; lia|].
      apply chain_lb in H3. eapply Forall_impl; [|exact H3].
      intros [l' u']; cbn. lia.
Qed.

Lemma split3 lo ivs t1 t2 :
  chain lo ivs ->
  exists A K B, ivs = A ++ K ++ B
    /\ Forall (fun iv => snd iv <= t1) A
    /\ Forall (fun iv => t1 < snd iv /\ fst iv <= t2) K
    /\ Forall (fun iv => t2 < fst iv) B.
Proof.
  revert lo. induction ivs as [|[l u] r IH]; intros lo Hc.
  - exists [], [], []. repeat split; constructor.
  - pose proof Hc as Hc0.
    cbn [chain] in Hc. destruct Hc as (H1 & H2 & H3).
    destruct (u <=? t1) eqn:E.
    + destruct (IH u H3) as (A & K & B & -> & HA & HK & HB).
      exists ((l, u) :: A), K, B. repeat split; try assumption.
      constructor; [cbn; lia|exact HA].
    + assert (Hs : Forall (fun iv => t1 < snd iv) ((l, u) :: r)).
      { constructor; [cbn; lia|]. eapply chain_all_snd_gt; [exact H3|lia]. }
      destruct (split2 lo _ t1 t2 Hc0 Hs) as (K & B & -> & HK & HB).
      exists [], K, B. repeat split; try assumption. constructor.
Qed.

Lemma clip_split A K B t1 t2 :
  Forall (fun iv => snd iv <= t1) A ->
  Forall (fun iv => t1 < snd iv /\ fst iv <= t2) K ->
  Forall (fun iv => t2 < fst iv) B ->
  clip (A ++ K ++ B) t1 t2 = map (clip1 t1 t2) K.
Proof.
  intros HA HK HB. unfold clip. f_equal. rewrite !filter_app.
  assert (EA : filter (fun iv => (t1 <? snd iv) && (fst iv <=? t2)) A = []).
  { induction HA as [|iv A Hx _ IH]; [reflexivity|]. cbn [filter].
    destruct (t1 <? snd iv) eqn:E; [lia|]. exact IH. }
  assert (EB : filter (fun iv => (t1 <? snd iv) && (fst iv <=? t2)) B = []).
  { induction HB as [|iv B Hx _ IH]; [reflexivity|]. cbn [filter].
    destruct (fst iv <=? t2) eqn:E; [lia|]. rewrite andb_false_r. exact IH. }
  assert (EK : filter (fun iv => (t1 <? snd iv) && (fst iv <=? t2)) K = K).
  { induction HK as [|iv K Hx _ IH]; [reflexivity|]. cbn [filter].
    destruct (t1 <? snd iv) eqn:E1; [|lia].
    destruct (fst iv <=? t2) eqn:E2; [|lia]. cbn [andb]. now rewrite IH. }
  rewrite EA, EB, EK. now rewrite app_nil_r.
Qed.

Lemma flat2_all_le A t :
  Forall (fun iv => fst iv <= snd iv) A -> Forall (fun iv => snd iv <= t) A ->
  Forall (fun b => b <= t) (flat2 A).
Proof.
  induction A as [|[l u] r IH]; intros H1 H2; [constructor|].
  inversion H1; inversion H2; subst. cbn in *. cbn [flat2].
  repeat constructor; try lia. now apply IH.
Qed.

Lemma flat2_all_gt B t :
  Forall (fun iv => fst iv <= snd iv) B -> Forall (fun iv => t < fst iv) B ->
  Forall (fun b => t < b) (flat2 B).
Proof.
  induction B as [|[l u] r IH]; intros H1 H2; [constructor|].
  inversion H1; inversion H2; subst. cbn in *. cbn [flat2].
  repeat constructor; try lia. now apply IH.
Qed.

Lemma chain_app_r lo a b : chain lo (a ++ b) -> exists lo', lo <= lo' /\ chain lo' b.
Proof.
  revert lo. induction a as [|[l u] r IH]; intros lo H.
  - exists lo. split; [lia|exact H].
  - cbn [app chain] in H. destruct H as (H1 & H2 & H3).
    destruct (IH u H3) as (lo' & Hl & Hc). exists lo'. split; [lia|exact Hc].
Qed.

Lemma chain_ordered lo ivs : chain lo ivs -> Forall (fun iv => fst iv <= snd iv) ivs.
Proof.
  intros H. apply chain_lb in H. eapply Forall_impl; [|exact H]. cbn. tauto.
Qed.

(* every edge of K0 is <= the lower edge of the interval that follows K0 *)
Lemma chain_prefix_le lo K0 lm um r :
  chain lo (K0 ++ (lm, um) :: r) -> Forall (fun b => b <= lm) (flat2 K0).
Proof.
  revert lo. induction K0 as [|[l u] K0 IH]; intros lo H; [constructor|].
  cbn [app chain] in H. destruct H as (H1 & H2 & H3).
  pose proof (IH u H3) as IH'.
  assert (u <= lm).
  { apply chain_lb in H3. rewrite Forall_forall in H3.
    specialize (H3 (lm, um)). cbn in H3. apply H3. apply in_or_app. right. now left. }
  cbn [flat2]. repeat constructor; try lia. exact IH'.
Qed.

Lemma unflat2_flat2_app K rest : unflat2 (flat2 K ++ rest) = K ++ unflat2 rest.
Proof. induction K as [|[l u] r IH]; [reflexivity|]. cbn. now rewrite IH. Qed.

Lemma even_2a a : Z.even (2 * a) = true.
Proof. rewrite Z.even_mul. reflexivity. Qed.
Lemma even_2a1 a : Z.even (2 * a + 1) = false.
Proof. rewrite Z.add_comm, Z.even_add_mul_2. reflexivity. Qed.

Lemma even_2a' p : (if Z.odd (2 * p) then 1 else 0) = 0.
Proof. rewrite <- Z.negb_even, even_2a. reflexivity. Qed.
Lemma odd_2a1' p : (if Z.odd (2 * p + 1) then 1 else 0) = 1.
Proof. rewrite <- Z.negb_even, even_2a1. reflexivity. Qed.

Lemma b2z_cases (b : bool) : (if b then 1 else 0) = 0 \/ (if b then 1 else 0) = 1.
Proof. destruct b; auto. Qed.

Theorem between_clip ivs t1 t2 :
  wf ivs -> t1 <= t2 -> between ivs t1 t2 = Ok (clip ivs t1 t2).
Proof.
  intros Hwf Ht.
  assert (Hc : exists lo, chain lo ivs).
  { destruct ivs as [|[l u] r]; [exists 0; exact I|exists l; exact Hwf]. }
  destruct Hc as (lo & Hc).
  destruct (split3 lo ivs t1 t2 Hc) as (A & K & B & -> & HA & HK & HB).
  rewrite (clip_split A K B t1 t2 HA HK HB).
  pose proof (chain_ordered _ _ Hc) as Hord.
  apply Forall_app in Hord as [HoA Hord]. apply Forall_app in Hord as [HoK HoB].
  pose proof (flat2_all_le A t1 HoA HA) as HA1.
  assert (HA2 : Forall (fun b => b <= t2) (flat2 A)).
  { eapply Forall_impl; [|exact HA1]. cbn. lia. }
  pose proof (flat2_all_gt B t2 HoB HB) as HB2.
  assert (HB1 : Forall (fun b => t1 < b) (flat2 B)).
  { eapply Forall_impl; [|exact HB2]. cbn. lia. }
  unfold between, onoff_idx.
  rewrite !flat2_app, !digitize_app.
  rewrite (digitize_all_le t1 _ HA1), (digitize_all_le t2 _ HA2).
  rewrite (digitize_all_gt t1 _ HB1), (digitize_all_gt t2 _ HB2).
  rewrite zlen_flat2. set (a := zlen A). rewrite !Z.add_0_r.
  rewrite K_btw_none, K_btw_N_pre.
  destruct K as [|[l0 u0] K'].
  - (* nothing kept *)
    cbn [flat2 digitize map]. rewrite !Z.add_0_r.
    destruct ((2 * a + (2 * a) mod 2 - (2 * a - (2 * a) mod 2)) / 2 <=? 0) eqn:E; [reflexivity|lia].
  - (* K non-empty: chain facts *)
    apply chain_app_r in Hc as (lo1 & _ & Hc1).
    apply chain_app_l in Hc1. cbn [chain] in Hc1. destruct Hc1 as (_ & Hl0u0 & Hc2).
    inversion HK as [|? ? Hk0 HK']; subst. cbn in Hk0.
    (* start index *)
    assert (Hs : digitize t1 (flat2 ((l0, u0) :: K')) = if l0 <=? t1 then 1 else 0).
    { cbn [flat2 digitize]. rewrite (digitize_gt u0 t1 K' Hc2) by lia.
      destruct (u0 <=? t1) eqn:E; [lia|]. lia. }
    rewrite Hs. clear Hs.
    destruct (exists_last (l := (l0, u0) :: K') ltac:(discriminate)) as (K0 & [lm um] & EK).
    (* end index *)
    assert (He : digitize t2 (flat2 ((l0, u0) :: K')) =
                 2 * zlen K0 + 1 + (if um <=? t2 then 1 else 0)).
    { rewrite EK, flat2_app, digitize_app. cbn [flat2 digitize].
      assert (Hc3 : chain l0 (K0 ++ [(lm, um)])).
      { rewrite <- EK. cbn [chain]. repeat split; try lia. exact Hc2. }
      rewrite (digitize_all_le t2 (flat2 K0)).
      2:{ apply chain_prefix_le in Hc3. eapply Forall_impl; [|exact Hc3]. cbn.
          assert (lm <= t2).
          { rewrite EK in HK. apply Forall_app in HK as [_ HK2].
            inversion HK2; subst. cbn in *. lia. }
          lia. }
      rewrite zlen_flat2.
      assert (lm <= t2).
      { rewrite EK in HK. apply Forall_app in HK as [_ HK2].
        inversion HK2; subst. cbn in *. lia. }
      destruct (lm <=? t2) eqn:E; [|lia]. lia. }
    rewrite He. clear He.
    set (n := zlen K0 + 1).
    assert (Hn : 1 <= n) by (unfold n; pose proof (zlen_nonneg K0); lia).
    assert (Ha : 0 <= a) by apply zlen_nonneg.
    set (s := l0 <=? t1). set (e := um <=? t2).
    assert (Hpre : ((2 * a + (2 * zlen K0 + 1 + (if e then 1 else 0))
                     + (2 * a + (2 * zlen K0 + 1 + (if e then 1 else 0))) mod 2
                     - (2 * a + (if s then 1 else 0)
                        - (2 * a + (if s then 1 else 0)) mod 2)) / 2 <=? 0) = false).
    { destruct s, e; lia. }
    rewrite Hpre. clear Hpre.
    rewrite K_btw_start_off, K_btw_end_off.
    (* the flat array in the shape  fA ++ [l0] ++ mid ++ [um] ++ fB *)
    assert (Hflat : flat2 ((l0, u0) :: K') = l0 :: removelast (u0 :: flat2 K') ++ [um]).
    { rewrite EK at 1. rewrite flat2_app. cbn [flat2].
      destruct K0 as [|[l0' u0'] K0'].
      - cbn [app] in EK. inversion EK; subst. reflexivity.
      - cbn [app] in EK. inversion EK; subst. cbn [flat2 app].
        f_equal. rewrite flat2_app. cbn [flat2].
        change (u0' :: flat2 K0' ++ [lm; um]) with ((u0' :: flat2 K0' ++ [lm]) ++ [um])
          || idtac.
        replace (u0' :: flat2 K0' ++ [lm; um]) with ((u0' :: flat2 K0' ++ [lm]) ++ [um])
          by (cbn [app]; rewrite <- app_assoc; reflexivity).
        rewrite removelast_last. reflexivity. }
    set (mid := removelast (u0 :: flat2 K')) in *.
    assert (Hmidlen : zlen mid = 2 * n - 2).
    { assert (HH : zlen (flat2 ((l0, u0) :: K')) = 2 * n).
      { rewrite zlen_flat2, EK, zlen_app. change (zlen [(lm, um)]) with 1. unfold n. lia. }
      rewrite Hflat, zlen_cons, zlen_app in HH. change (zlen [um]) with 1 in HH. lia. }
    rewrite Hflat.
    (* start edge *)
    assert (Est : (if Z.even (2 * a + (if s then 1 else 0))
                   then do v <- py_get (flat2 A ++ (l0 :: mid ++ [um]) ++ flat2 B)
                                  (btw_start_edge_idx0 (2 * a + (if s then 1 else 0)));
                        Ok (btw_start_edge (2 * a + (if s then 1 else 0)) v,
                            2 * a + (if s then 1 else 0))
                   else Ok (t1, btw_start_dec (2 * a + (if s then 1 else 0))))
                  = Ok (Z.max l0 t1, 2 * a)).
    { unfold s. destruct (l0 <=? t1) eqn:E.
      - rewrite even_2a1, K_btw_start_dec. f_equal. f_equal; lia.
      - rewrite Z.add_0_r, even_2a.
        rewrite (proj2 (K_btw_start_edge (2 * a) 0)).
        replace (2 * a) with (zlen (flat2 A) + 0) at 1 by (rewrite zlen_flat2; unfold a; lia).
        rewrite py_get_app_r by lia. cbn [app]. rewrite py_get_0. cbn [bind].
        rewrite (proj1 (K_btw_start_edge _ _)).
        f_equal. f_equal. lia. }
    rewrite Est. clear Est. cbn [bind].
    assert (Een : (if Z.even (2 * a + (2 * zlen K0 + 1 + (if e then 1 else 0)))
                   then do v <- py_get (flat2 A ++ (l0 :: mid ++ [um]) ++ flat2 B)
                                  (btw_end_edge_idx0 (2 * a + (2 * zlen K0 + 1 + (if e then 1 else 0))));
                        Ok (btw_end_edge (2 * a + (2 * zlen K0 + 1 + (if e then 1 else 0))) v,
                            2 * a + (2 * zlen K0 + 1 + (if e then 1 else 0)))
                   else Ok (t2, btw_end_inc (2 * a + (2 * zlen K0 + 1 + (if e then 1 else 0)))))
                  = Ok (Z.min um t2, 2 * a + 2 * n)).
    { unfold e. destruct (um <=? t2) eqn:E.
      - replace (2 * a + (2 * zlen K0 + 1 + 1)) with (2 * (a + n)) by (unfold n; lia).
        rewrite even_2a.
        rewrite (proj2 (K_btw_end_edge (2 * (a + n)) 0)).
        replace (2 * (a + n) - 1) with (zlen (flat2 A) + zlen (l0 :: mid))
          by (rewrite zlen_flat2, zlen_cons, Hmidlen; unfold a; lia).
        rewrite py_get_app_r by (rewrite zlen_cons; pose proof (zlen_nonneg mid); lia).
        change ((l0 :: mid ++ [um]) ++ flat2 B) with (((l0 :: mid) ++ [um]) ++ flat2 B).
        rewrite py_get_app_l.
        2:{ rewrite zlen_app. change (zlen [um]) with 1.
            pose proof (zlen_nonneg (l0 :: mid)). lia. }
        rewrite py_get_last. cbn [bind]. rewrite (proj1 (K_btw_end_edge _ _)).
        f_equal. f_equal; lia.
      - replace (2 * a + (2 * zlen K0 + 1 + 0)) with (2 * (a + n - 1) + 1) by (unfold n; lia).
        rewrite even_2a1, K_btw_end_inc. f_equal. f_equal; lia. }
    rewrite Een. clear Een. cbn [bind].
    rewrite K_btw_N.
    replace (Z.quot (2 * a + 2 * n - 2 * a) 2) with n by lia.
    destruct (n <? 0) eqn:E1; [lia|].
    destruct (n =? 0) eqn:E2; [lia|].
    rewrite K_btw_many.
    destruct (K_btw_mid (2 * a) (2 * a + 2 * n)) as [-> ->].
    destruct (1 <? n) eqn:E3.
    + (* at least two intervals kept *)
      replace (flat2 A ++ (l0 :: mid ++ [um]) ++ flat2 B)
        with ((flat2 A ++ [l0]) ++ mid ++ ([um] ++ flat2 B))
        by (cbn [app]; rewrite <- !app_assoc; reflexivity).
      replace (2 * a + 1) with (zlen (flat2 A ++ [l0]))
        by (rewrite zlen_app, zlen_flat2; change (zlen [l0]) with 1; unfold a; lia).
      replace (2 * a + 2 * n - 1) with (zlen (flat2 A ++ [l0]) + zlen mid)
        by (rewrite zlen_app, zlen_flat2, Hmidlen; change (zlen [l0]) with 1; unfold a; lia).
      rewrite py_slice_mid. rewrite Hmidlen, Z.eqb_refl. cbn [negb andb].
      f_equal.
      (* K0 = (l0,u0) :: K0' *)
      destruct K0 as [|[l0' u0'] K0']; [unfold n in E3; cbn in E3; lia|].
      cbn [app] in EK. inversion EK; subst l0' u0' K'. clear EK.
      unfold mid. rewrite flat2_app. cbn [flat2].
      replace (u0 :: flat2 K0' ++ [lm; um]) with ((u0 :: flat2 K0' ++ [lm]) ++ [um])
        by (cbn [app]; rewrite <- app_assoc; reflexivity).
      rewrite removelast_last. cbn [app unflat2].
      rewrite <- app_assoc. rewrite unflat2_flat2_app. cbn [app unflat2].
      rewrite map_cons, map_app. cbn [map].
      (* ordering facts *)
      assert (Hc3 : chain u0 (K0' ++ [(lm, um)])) by exact Hc2.
      pose proof (chain_lb _ _ Hc3) as Hlb.
      pose proof (chain_prefix_le _ _ _ _ _ Hc3) as Hpre.
      assert (Hlm : u0 <= lm /\ lm <= t2).
      { apply Forall_app in Hlb as [_ Hl]. inversion Hl; subst. cbn in *.
        apply Forall_app in HK' as [_ HK2]. inversion HK2; subst. cbn in *. lia. }
      f_equal; [unfold clip1; cbn; f_equal; lia|].
      f_equal.
      * (* middle intervals untouched *)
        apply Forall_app in Hlb as [Hlb _].
        clear - Hlb Hpre Hlm Hk0.
        induction K0' as [|[l u] r IH]; [reflexivity|].
        inversion Hlb; subst. cbn in *. inversion Hpre as [|? ? Hp1 Hp2]; subst.
        inversion Hp2; subst.
        cbn [map]. f_equal; [unfold clip1; cbn; f_equal; lia|].
        apply IH; assumption.
      * unfold clip1; cbn. f_equal. f_equal; lia.
    + (* exactly one interval kept *)
      cbn [andb app unflat2]. f_equal.
      assert (n = 1) by lia.
      destruct K0 as [|x K0']; [|unfold n in *; rewrite zlen_cons in *; pose proof (zlen_nonneg K0'); lia].
      cbn [app] in EK. inversion EK; subst. reflexivity.
Qed.

(* denotation of clip *)
Lemma In_on_clip ivs t1 t2 t :
  In_on (clip ivs t1 t2) t <-> In_on ivs t /\ t1 <= t < t2.
Proof.
  unfold In_on, clip. split.
  - intros (l & u & Hin & Ht). apply in_map_iff in Hin as ([l' u'] & E & Hin).
    apply filter_In in Hin as [Hin _]. unfold clip1 in E. cbn in E.
    inversion E; subst. split; [exists l', u'; split; [exact Hin|lia]|lia].
  - intros ((l & u & Hin & Ht) & Hw).
    exists (Z.max l t1), (Z.min u t2). split; [|lia].
    apply in_map_iff. exists (l, u). split; [reflexivity|].
    apply filter_In. split; [exact Hin|]. cbn.
    apply andb_true_iff. split; [apply Z.ltb_lt|apply Z.leb_le]; lia.
Qed.

Lemma clip_chain lo ivs t1 t2 :
  chain lo ivs -> t1 <= t2 -> chain (Z.max lo t1) (clip ivs t1 t2).
Proof.
  revert lo. induction ivs as [|[l u] r IH]; intros lo H Ht; [exact I|].
  cbn [chain] in H. destruct H as (H1 & H2 & H3).
  unfold clip. cbn [filter fst snd].
  destruct ((t1 <? u) && (l <=? t2)) eqn:E.
  - apply andb_true_iff in E as [E1 E2].
    cbn [map chain]. unfold clip1 at 1. cbn [fst snd].
    repeat split; try lia.
    specialize (IH u H3 Ht). unfold clip in IH.
    eapply chain_weaken; [|exact IH]. lia.
  - specialize (IH u H3 Ht). unfold clip in IH.
    eapply chain_weaken; [|exact IH]. lia.
Qed.

Theorem between_spec ivs t1 t2 :
  wf ivs -> t1 <= t2 ->
  exists r, between ivs t1 t2 = Ok r
    /\ (forall t, In_on r t <-> In_on ivs t /\ t1 <= t < t2)
    /\ wf r
    /\ ((forall t, ~ (In_on ivs t /\ t1 <= t < t2)) -> measure r = 0).
Proof.
  intros Hwf Ht. exists (clip ivs t1 t2).
  split; [apply between_clip; assumption|].
  split; [intros t; apply In_on_clip|].
  assert (Hc : exists lo, chain lo ivs).
  { destruct ivs as [|[l u] r]; [exists 0; exact I|exists l; exact Hwf]. }
  destruct Hc as (lo & Hc).
  pose proof (clip_chain lo ivs t1 t2 Hc Ht) as Hcc.
  split; [eapply chain_wf; exact Hcc|].
  intros Hempty.
  assert (Hz : Forall (fun iv => snd iv - fst iv = 0) (clip ivs t1 t2)).
  { apply Forall_forall. intros [l u] Hin. cbn.
    pose proof (chain_ordered _ _ Hcc) as Ho. rewrite Forall_forall in Ho.
    specialize (Ho _ Hin). cbn in Ho.
    destruct (Z.eq_dec l u) as [->|Hne]; [lia|].
    exfalso. apply (Hempty l). apply In_on_clip. exists l, u. split; [exact Hin|lia]. }
  unfold measure. clear - Hz. induction Hz as [|iv r Hx _ IH]; [reflexivity|].
  cbn [map fold_right]. lia.
Qed.

(* ------------------------------------------------------------------ *)
(* get_livetime_upto                                                    *)

Lemma cumsum_from_get acc ws k :
  (k < length ws)%nat ->
  nth_error (cumsum_from acc ws) k = Some (acc + zsum (firstn (S k) ws)).
Proof.
  revert acc k. induction ws as [|w ws IH]; intros acc k Hk; [cbn in Hk; lia|].
  destruct k as [|k].
  - cbn. f_equal. lia.
  - cbn [cumsum_from nth_error]. rewrite IH by (cbn in Hk; lia).
    f_equal. cbn [firstn zsum fold_right]. unfold zsum. lia.
Qed.

Lemma cum_get ws k :
  0 <= k <= zlen ws ->
  py_get (0 :: cumsum ws) k = Ok (zsum (firstn (Z.to_nat k) ws)).
Proof.
  intros Hk. rewrite py_get_nonneg by lia.
  destruct (Z.to_nat k) as [|k'] eqn:E; [reflexivity|].
  cbn [nth_error]. unfold cumsum. rewrite cumsum_from_get by (unfold zlen in Hk; lia).
  f_equal.
Qed.

Lemma cumsum_from_length acc ws : length (cumsum_from acc ws) = length ws.
Proof. revert acc. induction ws as [|w ws IH]; intros acc; cbn; [reflexivity|]. now rewrite IH. Qed.

Lemma py_get_wrap {A} (l : list A) i :
  - zlen l <= i < 0 -> py_get l i = py_get l (i + zlen l).
Proof.
  intros Hi. unfold py_get. cbv zeta.
  assert (E1 : (i <? 0) = true) by lia.
  assert (E2 : (i + zlen l <? 0) = false) by lia.
  rewrite E1. cbv iota. rewrite E2. cbv iota. rewrite E2. reflexivity.
Qed.

Lemma py_get_in_range {A} (l : list A) i :
  - zlen l <= i < zlen l -> exists a, py_get l i = Ok a.
Proof.
  intros Hi. destruct (Z.ltb_spec i 0).
  - rewrite py_get_wrap by lia. rewrite py_get_nonneg by lia.
    destruct (nth_error l (Z.to_nat (i + zlen l))) eqn:E; [eauto|].
    apply nth_error_None in E. unfold zlen in *. lia.
  - rewrite py_get_nonneg by lia.
    destruct (nth_error l (Z.to_nat i)) eqn:E; [eauto|].
    apply nth_error_None in E. unfold zlen in *. lia.
Qed.

Lemma zsum_app a b : zsum (a ++ b) = zsum a + zsum b.
Proof. unfold zsum. induction a as [|x a IH]; cbn; [reflexivity|]. rewrite IH. lia. Qed.

Lemma split_at lo ivs t :
  chain lo ivs ->
  exists P S, ivs = P ++ S
    /\ Forall (fun iv => snd iv <= t) P
    /\ match S with
       | [] => True
       | (l, u) :: S' => t < u /\ Forall (fun iv => t < fst iv) S'
       end.
Proof.
  revert lo. induction ivs as [|[l u] r IH]; intros lo Hc.
  - exists [], []. repeat split. constructor.
  - cbn [chain] in Hc. destruct Hc as (H1 & H2 & H3).
    destruct (u <=? t) eqn:E.
    + destruct (IH u H3) as (P & S & -> & HP & HS).
      exists ((l, u) :: P), S. repeat split; [|exact HS].
      constructor; [cbn; lia|exact HP].
    + exists [], ((l, u) :: r). repeat split; [constructor|lia|].
      apply chain_lb in H3. eapply Forall_impl; [|exact H3]. intros [l' u']; cbn. lia.
Qed.

Lemma measure_upto_app a b t :
  measure_upto (a ++ b) t = measure_upto a t + measure_upto b t.
Proof.
  unfold measure_upto. induction a as [|x a IH]; cbn; [reflexivity|]. rewrite IH. lia.
Qed.

Lemma measure_upto_before P t :
  Forall (fun iv => fst iv <= snd iv) P -> Forall (fun iv => snd iv <= t) P ->
  measure_upto P t = zsum (widths P).
Proof.
  unfold measure_upto, widths, zsum.
  induction P as [|[l u] r IH]; intros H1 H2; [reflexivity|].
  inversion H1; inversion H2; subst. cbn in *. rewrite IH by assumption. lia.
Qed.

Lemma measure_upto_after S t :
  Forall (fun iv => fst iv <= snd iv) S -> Forall (fun iv => t < fst iv) S ->
  measure_upto S t = 0.
Proof.
  unfold measure_upto.
  induction S as [|[l u] r IH]; intros H1 H2; [reflexivity|].
  inversion H1; inversion H2; subst. cbn in *. rewrite IH by assumption. lia.
Qed.

Lemma widths_app a b : widths (a ++ b) = widths a ++ widths b.
Proof. unfold widths. apply map_app. Qed.
Lemma widths_length a : length (widths a) = length a.
Proof. unfold widths. apply map_length. Qed.

Theorem upto_spec ivs t :
  wf ivs -> ivs <> [] -> upto ivs t = Ok (measure_upto ivs t).
Proof.
  intros Hwf Hne.
  assert (Hc : exists lo, chain lo ivs).
  { destruct ivs as [|[l u] r]; [exists 0; exact I|exists l; exact Hwf]. }
  destruct Hc as (lo & Hc).
  destruct (split_at lo ivs t Hc) as (P & S & E & HP & HS).
  pose proof (chain_ordered _ _ Hc) as Hord. rewrite E in Hord.
  apply Forall_app in Hord as [HoP HoS].
  pose proof (flat2_all_le P t HoP HP) as HP1.
  unfold upto, onoff_idx, cum_ontime_bins.
  rewrite K_upto_odd, K_upto_idxs_inc, K_upto_idxs.
  set (oi := digitize t (flat2 ivs)).
  set (p := zlen P).
  assert (Hp : 0 <= p) by apply zlen_nonneg.
  assert (Hlen : zlen ivs = p + zlen S) by (rewrite E, zlen_app; reflexivity).
  assert (Hwl : zlen (widths ivs) = zlen ivs) by (unfold zlen; now rewrite widths_length).
  assert (HsumP : zsum (firstn (Z.to_nat p) (widths ivs)) = zsum (widths P)).
  { rewrite E, widths_app. replace (Z.to_nat p) with (length (widths P) + 0)%nat
      by (rewrite widths_length; unfold p, zlen; lia).
    rewrite firstn_app_2. cbn [firstn]. now rewrite app_nil_r. }
  destruct S as [|[l u] S'].
  - (* t past every interval *)
    rewrite app_nil_r in E. subst P.
    assert (Hoi : oi = 2 * p).
    { unfold oi. rewrite (digitize_all_le t _ HP1), zlen_flat2. reflexivity. }
    rewrite Hoi, even_2a'. cbn [Z.eqb].
    set (idxs := 2 * p / 2 - 1 + 1).
    assert (Hidx : idxs = p) by (unfold idxs; lia).
    destruct (K_upto_livetimes 0 t idxs (2 * p) 0 0 0) as (_ & -> & -> & ->).
    assert (0 < p) by (destruct ivs; [congruence|unfold p; rewrite zlen_cons; pose proof (zlen_nonneg ivs); lia]).
    rewrite Hidx.
    rewrite (cum_get (widths ivs) (p - 1)) by lia. cbn [bind].
    destruct (py_get_in_range (flat2 ivs) (2 * p - 1)) as (b & ->);
      [rewrite zlen_flat2; fold p; lia|]. cbn [bind].
    rewrite (cum_get (widths ivs) p) by lia. cbn [bind].
    rewrite (proj1 (K_upto_livetimes _ _ _ _ _ _ _)). cbn [Z.eqb].
    f_equal. rewrite HsumP. symmetry. apply measure_upto_before; assumption.
  - destruct HS as (Htu & HS').
    apply Forall_cons_iff in HoS as [Hlu HoS']. cbn in Hlu.
    assert (HS1 : Forall (fun b => t < b) (flat2 S')) by (apply flat2_all_gt; assumption).
    assert (Hoi : oi = 2 * p + (if l <=? t then 1 else 0)).
    { unfold oi. rewrite E, flat2_app, digitize_app, (digitize_all_le t _ HP1), zlen_flat2.
      cbn [flat2 digitize]. rewrite (digitize_all_gt t _ HS1).
      destruct (u <=? t) eqn:E1; [lia|]. fold p. lia. }
    rewrite E at 2. rewrite measure_upto_app, (measure_upto_before P t HoP HP).
    assert (Hms : measure_upto ((l, u) :: S') t = if l <=? t then t - l else 0).
    { change ((l, u) :: S') with ([(l, u)] ++ S').
      rewrite measure_upto_app, (measure_upto_after S' t HoS' HS').
      unfold measure_upto. cbn. destruct (l <=? t) eqn:E1; lia. }
    rewrite Hms. rewrite zlen_cons in Hlen. pose proof (zlen_nonneg S').
    rewrite Hoi. destruct (l <=? t) eqn:El.
    + (* on-time *)
      rewrite odd_2a1'. cbn [Z.eqb].
      set (idxs := (2 * p + 1 - 1) / 2 + 1).
      assert (Hidx : idxs = p + 1) by (unfold idxs; lia).
      destruct (K_upto_livetimes 1 t idxs (2 * p + 1) 0 0 0) as (_ & -> & -> & ->).
      rewrite Hidx.
      replace (p + 1 - 1) with p by lia.
      rewrite (cum_get (widths ivs) p) by lia. cbn [bind].
      replace (2 * p + 1 - 1) with (zlen (flat2 P) + 0) by (rewrite zlen_flat2; fold p; lia).
      rewrite E at 1. rewrite flat2_app, py_get_app_r by lia. cbn [flat2]. rewrite py_get_0. cbn [bind].
      destruct (py_get_in_range (0 :: cumsum (widths ivs)) (p + 1)) as (c & ->).
      { rewrite zlen_cons. unfold cumsum, zlen. rewrite cumsum_from_length.
        fold (zlen (widths ivs)). rewrite Hwl. lia. }
      cbn [bind]. rewrite (proj1 (K_upto_livetimes _ _ _ _ _ _ _)). cbn [Z.eqb].
      f_equal. rewrite HsumP. lia.
    + (* off-time *)
      rewrite Z.add_0_r, even_2a'. cbn [Z.eqb].
      set (idxs := 2 * p / 2 - 1 + 1).
      assert (Hidx : idxs = p) by (unfold idxs; lia).
      destruct (K_upto_livetimes 0 t idxs (2 * p) 0 0 0) as (_ & -> & -> & ->).
      rewrite Hidx.
      destruct (py_get_in_range (0 :: cumsum (widths ivs)) (p - 1)) as (a0 & ->).
      { rewrite zlen_cons. unfold cumsum, zlen. rewrite cumsum_from_length.
        fold (zlen (widths ivs)). rewrite Hwl. lia. }
      cbn [bind].
      destruct (py_get_in_range (flat2 ivs) (2 * p - 1)) as (b & ->);
        [rewrite zlen_flat2; lia|]. cbn [bind].
      rewrite (cum_get (widths ivs) p) by lia. cbn [bind].
      rewrite (proj1 (K_upto_livetimes _ _ _ _ _ _ _)). cbn [Z.eqb].
      f_equal. rewrite HsumP. lia.
Qed.

(* ------------------------------------------------------------------ *)
(* draw_ontimes                                                         *)

Lemma evens_diff_flat2 arr : evens (diff (flat2 arr)) = widths arr.
Proof.
  induction arr as [|[l u] r IH]; [reflexivity|].
  destruct r as [|[l' u'] r'].
  - reflexivity.
  - cbn [flat2 diff evens widths map fst snd] in *. f_equal. exact IH.
Qed.

Lemma cumsum_from_gt acc ws w :
  Forall (fun x => 0 <= x) ws -> w < acc -> Forall (fun b => w < b) (cumsum_from acc ws).
Proof.
  intros H. revert acc. induction H as [|x ws Hx _ IH]; intros acc Hw; [constructor|].
  cbn [cumsum_from]. constructor; [lia|]. apply IH. lia.
Qed.

Lemma zsum_firstn_S ws j :
  (j < length ws)%nat ->
  zsum (firstn (S j) ws) = zsum (firstn j ws) + nth j ws 0.
Proof.
  revert j. induction ws as [|x ws IH]; intros j Hj; [cbn in Hj; lia|].
  destruct j as [|j]; [cbn; lia|].
  change (firstn (S (S j)) (x :: ws)) with (x :: firstn (S j) ws).
  change (firstn (S j) (x :: ws)) with (x :: firstn j ws).
  change (nth (S j) (x :: ws) 0) with (nth j ws 0).
  change (zsum (x :: firstn (S j) ws)) with (x + zsum (firstn (S j) ws)).
  change (zsum (x :: firstn j ws)) with (x + zsum (firstn j ws)).
  rewrite IH by (cbn in Hj; lia). lia.
Qed.

Lemma dig_cum acc ws w :
  Forall (fun x => 0 <= x) ws -> acc <= w < acc + zsum ws ->
  exists j, (j < length ws)%nat
    /\ digitize w (cumsum_from acc ws) = Z.of_nat j
    /\ acc + zsum (firstn j ws) <= w < acc + zsum (firstn (S j) ws).
Proof.
  intros H. revert acc. induction H as [|x ws Hx Hws IH]; intros acc Hw.
  - cbn in Hw. lia.
  - cbn [cumsum_from digitize]. unfold zsum in Hw. cbn [fold_right] in Hw.
    destruct (acc + x <=? w) eqn:E.
    + destruct (IH (acc + x)) as (j & Hj & Hd & Hb); [unfold zsum; lia|].
      exists (S j). split; [cbn; lia|]. split; [lia|].
      change (firstn (S (S j)) (x :: ws)) with (x :: firstn (S j) ws).
      change (firstn (S j) (x :: ws)) with (x :: firstn j ws).
      change (zsum (x :: firstn (S j) ws)) with (x + zsum (firstn (S j) ws)).
      change (zsum (x :: firstn j ws)) with (x + zsum (firstn j ws)). lia.
    + exists 0%nat. split; [cbn; lia|].
      rewrite (digitize_all_gt w (cumsum_from (acc + x) ws))
        by (apply cumsum_from_gt; [exact Hws|lia]).
      split; [reflexivity|]. cbn. lia.
Qed.

Lemma widths_nonneg lo arr : chain lo arr -> Forall (fun x => 0 <= x) (widths arr).
Proof.
  intros H. apply chain_ordered in H. unfold widths.
  induction H as [|iv r Hx _ IH]; [constructor|]. cbn [map]. constructor; [lia|exact IH].
Qed.

Lemma draw_total_livetime arr : draw_total arr = livetime arr.
Proof.
  unfold draw_total, livetime. rewrite evens_diff_flat2.
  generalize (widths arr). intros ws.
  assert (G : forall acc d, last (cumsum_from acc ws) d = if (length ws =? 0)%nat then d else acc + zsum ws).
  { induction ws as [|x ws IH]; intros acc d; [reflexivity|].
    cbn [cumsum_from]. destruct ws as [|y ws'].
    - cbn. lia.
    - change (last (acc + x :: cumsum_from (acc + x) (y :: ws')) d)
        with (last (cumsum_from (acc + x) (y :: ws')) d).
      rewrite IH. cbn [length Nat.eqb]. unfold zsum. cbn [fold_right]. lia. }
  destruct ws as [|x ws']; [reflexivity|].
  change (last (0 :: cumsum (x :: ws')) 0) with (last (cumsum_from 0 (x :: ws')) 0).
  rewrite G. cbn [length Nat.eqb]. lia.
Qed.

Theorem draw_on_spec arr w :
  wf arr -> 0 <= w < livetime arr ->
  exists x, draw_on arr w = Ok x /\ In_on arr x.
Proof.
  intros Hwf Hw.
  assert (Hc : exists lo, chain lo arr).
  { destruct arr as [|[l u] r]; [exists 0; exact I|exists l; exact Hwf]. }
  destruct Hc as (lo & Hc).
  unfold draw_on. cbv zeta. rewrite evens_diff_flat2.
  pose proof (widths_nonneg _ _ Hc) as Hnn.
  unfold livetime in Hw.
  destruct (dig_cum 0 (widths arr) w Hnn ltac:(lia)) as (j & Hj & Hd & Hb).
  cbn [digitize]. destruct (0 <=? w) eqn:E0; [|lia].
  change (cumsum_from 0 (widths arr)) with (cumsum (widths arr)) in Hd. rewrite Hd.
  rewrite K_draw_y_idx.
  replace (1 + Z.of_nat j - 1) with (Z.of_nat j) by lia.
  rewrite widths_length in Hj.
  rewrite cum_get by (unfold zlen; rewrite widths_length; lia).
  cbn [bind]. rewrite Nat2Z.id. rewrite K_draw_y.
  destruct (nth_error arr j) as [[l u]|] eqn:En; [|apply nth_error_None in En; lia].
  set (y := w - zsum (firstn j (widths arr))).
  rewrite K_draw_ontime_idx.
  replace (1 + Z.of_nat j - 1) with (Z.of_nat j) by lia.
  rewrite py_get_nonneg by lia. rewrite Nat2Z.id.
  rewrite nth_error_map, En. cbn [option_map bind fst].
  rewrite K_draw_ontime.
  destruct (K_draw_clip (l + y) (1 + Z.of_nat j) u l) as (Kc & Ki0 & Ki1).
  rewrite zsum_firstn_S in Hb by (rewrite widths_length; exact Hj).
  assert (Hn : nth j (widths arr) 0 = u - l).
  { clear - En. revert j En. induction arr as [|iv r IH]; intros [|j] En; try discriminate.
    - cbn in En. inversion En; subst. reflexivity.
    - cbn in En. cbn [widths map nth]. apply IH. exact En. }
  assert (Hly : l <= l + y < u) by (unfold y; lia).
  destruct (K_draw_clip (l + y) (1 + Z.of_nat j) 0 0) as (_ & Kj0 & Kj1).
  rewrite Kj0, Kj1.
  replace (1 + Z.of_nat j - 1) with (Z.of_nat j) by lia.
  rewrite !py_get_nonneg by lia. rewrite Nat2Z.id.
  rewrite !nth_error_map, En. cbn [option_map bind fst snd].
  rewrite Kc.
  assert (El : (l <? u) = true) by (apply Z.ltb_lt; lia).
  rewrite El.
  replace (Z.min (l + y) (u - 1)) with (l + y) by lia.
  exists (l + y). split; [reflexivity|].
  exists l, u. split; [eapply nth_error_In; exact En|]. lia.
Qed.

Theorem draw_spec ivs window w :
  wf ivs ->
  match window with
  | None => 0 <= w < livetime ivs ->
      exists x, draw ivs None w = Ok x /\ In_on ivs x
  | Some (t1, t2) => t1 <= t2 -> 0 <= w < measure (clip ivs t1 t2) ->
      exists x, draw ivs (Some (t1, t2)) w = Ok x /\ In_on ivs x /\ t1 <= x < t2
  end.
Proof.
  intros Hwf. destruct window as [[t1 t2]|].
  - intros Ht Hw. unfold draw. rewrite between_clip by assumption. cbn [bind].
    destruct (between_spec ivs t1 t2 Hwf Ht) as (r & Hr & Hden & Hwfr & _).
    rewrite between_clip in Hr by assumption. inversion Hr; subst r.
    destruct (draw_on_spec (clip ivs t1 t2) w Hwfr Hw) as (x & Hx & Hin).
    exists x. split; [exact Hx|]. apply Hden in Hin. tauto.
  - intros Hw. apply draw_on_spec; assumption.
Qed.

(* ------------------------------------------------------------------ *)
(* get_data_subset                                                      *)

Theorem subset_spec ivs times t1 t2 :
  wf ivs -> t1 <= t2 ->
  exists arr,
    subset ivs times t1 t2 =
      Ok (filter (fun t => (t1 <=? t) && (t <? t2)) times, arr, measure arr)
    /\ (forall t, In_on arr t <-> In_on ivs t /\ t1 <= t < t2).
Proof.
  intros Hwf Ht.
  destruct (between_spec ivs t1 t2 Hwf Ht) as (r & Hr & Hden & Hwfr & _).
  exists r. split; [|exact Hden].
  unfold subset. rewrite Hr. cbn [bind]. rewrite (wf_integrity _ Hwfr).
  unfold subset_events. f_equal. f_equal. f_equal.
  apply filter_ext. intros t. apply K_subset_keep.
Qed.

(* ------------------------------------------------------------------ *)
(* draw_ontimes with optional window bounds                              *)

Lemma K_draw_has_window a b :
  draw_has_window a b = match a, b with None, None => false | _, _ => true end.
Proof. destruct a, b; reflexivity. Qed.
Lemma K_draw_tmin_missing a : draw_tmin_missing a = match a with None => true | Some _ => false end.
Proof. reflexivity. Qed.
Lemma K_draw_tmax_missing b : draw_tmax_missing b = match b with None => true | Some _ => false end.
Proof. reflexivity. Qed.

(* the bound the code uses for a given optional argument *)
Definition eff_min (ivs : intervals) (a : option Z) : Z :=
  match a with Some v => v | None => match ivs with (l, _) :: _ => l | [] => 0 end end.
Definition eff_max (ivs : intervals) (b : option Z) : Z :=
  match b with Some v => v | None => last (map snd ivs) 0 end.

Lemma draw_opt_eq ivs a b w :
  ivs <> [] ->
  draw_opt ivs a b w =
    match a, b with
    | None, None => draw ivs None w
    | _, _ => draw ivs (Some (eff_min ivs a, eff_max ivs b)) w
    end.
Proof.
  intros Hne. unfold draw_opt. rewrite K_draw_has_window, K_draw_tmin_missing, K_draw_tmax_missing.
  destruct ivs as [|[l u] rest]; [congruence|].
  destruct a as [a|], b as [b|]; cbn [bind time_start time_stop eff_min eff_max draw]; reflexivity.
Qed.

Theorem draw_opt_spec ivs a b w :
  wf ivs -> ivs <> [] ->
  match a, b with
  | None, None => 0 <= w < livetime ivs ->
      exists x, draw_opt ivs None None w = Ok x /\ In_on ivs x
  | _, _ =>
      eff_min ivs a <= eff_max ivs b ->
      0 <= w < measure (clip ivs (eff_min ivs a) (eff_max ivs b)) ->
      exists x, draw_opt ivs a b w = Ok x /\ In_on ivs x
                /\ eff_min ivs a <= x < eff_max ivs b
  end.
Proof.
  intros Hwf Hne.
  pose proof (draw_opt_eq ivs a b w Hne) as E.
  destruct a as [a|], b as [b|]; rewrite E;
    first [ exact (draw_spec ivs (Some (_, _)) w Hwf) | exact (draw_spec ivs None w Hwf) ].
Qed.
