(* C10: histogram normalisations (energy per declination band, spatial),
   the 1/(2 pi) sphere factor, the point-spread densities, and "accepted data
   can be evaluated" for the I3EnergyPDF lookup. *)
From Coq Require Import Reals ZArith List Bool Lra Lia.
From Coquelicot Require Import Coquelicot.
From Sky Require Import Num NumR Result PyList G_pdf M_Pdf S_Pdf P_PdfTime.
Import ListNotations.

(* ================================================================== real-valued part *)
Open Scope R_scope.

Section KernelsR.
  Variable e : R -> R.
  Let N := RNum e.

  Lemma K_eh_norm s w : eh_norm N s w = s * w.
  Proof. reflexivity. Qed.
  Lemma K_eh_div h n : eh_div N h n = h / n.
  Proof. reflexivity. Qed.
  Lemma K_eh_weight a b : eh_weight N a b = a * b.
  Proof. reflexivity. Qed.
  Lemma K_eh_zero_physics a : eh_zero_physics N a = Reqb a 0.
  Proof. unfold eh_zero_physics, N. num_R. reflexivity. Qed.
  Lemma K_sh_norm h s up lo : sh_norm N h s up lo = h / s / (up - lo).
  Proof. reflexivity. Qed.
  Lemma K_sh_empty h : sh_empty N h = Rleb h 0.
  Proof. unfold sh_empty, N. num_R. reflexivity. Qed.
  Lemma K_sh_nan h : sh_nan N h = false.
  Proof. reflexivity. Qed.
  Lemma K_sh_pd y : sh_pd N y = exp y / (2 * PI).
  Proof.
    unfold sh_pd, N. num_R. field. apply Rgt_not_eq, PI_RGT_0.
  Qed.
  Lemma K_sp_ra_oor x a b : sp_ra_oor N x a b = Rltb x a || Rltb b x.
  Proof. reflexivity. Qed.
  Lemma K_sp_dec_oor x a b : sp_dec_oor N x a b = Rltb x a || Rltb b x.
  Proof. reflexivity. Qed.
  Lemma K_psf_gauss q r : q <> 0 -> psf_gauss N q r = / (2 * PI * q) * exp (- (r * r) / (2 * q)).
  Proof.
    intros Hq. unfold psf_gauss, N. num_R.
    replace (- (1 / 2) * (r * r / q)) with (- (r * r) / (2 * q)) by (field; exact Hq).
    field. split; [exact Hq | apply Rgt_not_eq, PI_RGT_0].
  Qed.
  Lemma K_psf_rayleigh q r :
    q <> 0 -> sin r <> 0 ->
    psf_rayleigh N q r = / (2 * PI * sin r) * (r / q) * exp (- (r * r) / (2 * q)).
  Proof.
    intros Hq Hs. unfold psf_rayleigh, N. num_R.
    replace (- (1 / 2) * (r * r / q)) with (- (r * r) / (2 * q)) by (field; exact Hq).
    field. repeat split; [exact Hq | exact Hs | apply Rgt_not_eq, PI_RGT_0].
  Qed.
End KernelsR.

(* ------------------------------------------------------------------ energy histogram *)
Section EnergyHist.
  Variable e : R -> R.
  Let N := RNum e.

  Lemma step_integral_R h w :
    step_integral N h w = Rsum (map (fun hw => fst hw * snd hw) (combine h w)).
  Proof. unfold step_integral, N. rewrite nsum_R. reflexivity. Qed.

  Lemma eh_band_R c w :
    eh_band N c w = map (fun cw => fst cw / (Rsum c * snd cw)) (combine c w).
  Proof. unfold eh_band, N. rewrite nsum_R. reflexivity. Qed.

  Lemma band_sum_aux s c w :
    length c = length w -> s <> 0 -> List.Forall (fun x => x <> 0) w ->
    Rsum (map (fun hw => fst hw * snd hw)
              (combine (map (fun cw => fst cw / (s * snd cw)) (combine c w)) w))
    = Rsum c / s.
  Proof.
    intros Hlen Hs. revert w Hlen.
    induction c as [|x c IH]; intros [|y w] Hlen Hw; try discriminate.
    - cbn. unfold Rdiv. lra.
    - inversion Hw as [|? ? Hy Hw']; subst.
      cbn [combine map fst snd]. rewrite !Rsum_cons. rewrite IH; [|cbn in Hlen; lia|exact Hw'].
      field. split; assumption.
  Qed.

  (* every band with non-zero content integrates to one over log10(E) *)
  Theorem eh_band_norm c w :
    length c = length w -> List.Forall (fun x => 0 < x) w -> Rsum c <> 0 ->
    step_integral N (eh_band N c w) w = 1.
  Proof.
    intros Hlen Hw Hs.
    rewrite step_integral_R, eh_band_R, band_sum_aux.
    - field. exact Hs.
    - exact Hlen.
    - exact Hs.
    - eapply Forall_impl; [|exact Hw]. intros a Ha. cbv beta in Ha. lra.
  Qed.

  Theorem eh_band_nonneg c w :
    List.Forall (fun x => 0 <= x) c -> List.Forall (fun x => 0 < x) w ->
    List.Forall (fun x => 0 <= x) (eh_band N c w).
  Proof.
    intros Hc Hw. rewrite eh_band_R.
    pose proof (Rsum_nonneg c Hc) as Hs.
    generalize dependent (Rsum c). intros s Hs.
    revert w Hw. induction Hc as [|x c Hx Hc IH]; intros w Hw.
    - constructor.
    - destruct w as [|y w]; [constructor|].
      inversion Hw as [|? ? Hy Hw']; subst.
      cbn [combine map fst snd]. constructor; [|apply IH; exact Hw'].
      destruct (Req_dec s 0) as [->|Hs0].
      + rewrite Rmult_0_l. unfold Rdiv.
        destruct (Req_dec (/ 0) 0) as [E|E].
        * rewrite E. lra.
        * (* whatever / 0 is, the product of two non-negatives or ... *)
          destruct (Rle_or_lt 0 (/ 0)) as [P|P].
          -- apply Rmult_le_pos; assumption.
          -- exfalso. pose proof (Rinv_lt_0_compat (/ 0) P) as Q.
             rewrite Rinv_inv in Q. lra.
      + apply Rmult_le_pos; [exact Hx|]. left. apply Rinv_0_lt_compat.
        apply Rmult_lt_0_compat; lra.
  Qed.

  (* bins without content stay zero *)
  Theorem eh_band_entries c w :
    length c = length w ->
    eh_band N c w = map (fun cw => fst cw / (Rsum c * snd cw)) (combine c w).
  Proof. intros _. apply eh_band_R. Qed.
End EnergyHist.

(* ------------------------------------------------------------------ spatial histogram *)
Section SpatialHist.
  Variable e : R -> R.
  Let N := RNum e.

  Lemma existsb_false_Forall {A} (f : A -> bool) l :
    existsb f l = false -> List.Forall (fun x => f x = false) l.
  Proof.
    induction l as [|a l IH]; intros H; constructor; cbn in H;
      apply orb_false_iff in H; destruct H; auto.
  Qed.

  Lemma bin_widths_R edges :
    bin_widths N edges = map (fun lu => snd lu - fst lu) (combine (removelast edges) (tl edges)).
  Proof. reflexivity. Qed.

  Lemma sh_sum_aux s h lo up :
    length h = length lo -> length lo = length up -> s <> 0 ->
    List.Forall (fun lu => snd lu - fst lu <> 0) (combine lo up) ->
    Rsum (map (fun hw => fst hw * snd hw)
              (combine (map (fun x => fst x / s / (snd (snd x) - fst (snd x)))
                            (combine h (combine lo up)))
                       (map (fun lu => snd lu - fst lu) (combine lo up))))
    = Rsum h / s.
  Proof.
    intros H1 H2 Hs. revert lo up H1 H2.
    induction h as [|x h IH]; intros [|a lo] [|b up] H1 H2 Hw; try discriminate.
    - cbn. unfold Rdiv. lra.
    - inversion Hw as [|? ? Hy Hw']; subst. cbn [fst snd] in Hy.
      cbn [combine map fst snd]. rewrite !Rsum_cons.
      rewrite IH; [|cbn in H1; lia|cbn in H2; lia|exact Hw'].
      field. split; assumption.
  Qed.

  (* when the constructor accepts the histogram, the density is positive in
     every bin and integrates to one over sin(dec) *)
  Theorem sh_hist_norm h edges h' :
    sh_hist N h edges = Ok h' ->
    length edges = S (length h) ->
    List.Forall (fun lu => fst lu < snd lu) (combine (removelast edges) (tl edges)) ->
    Rsum h <> 0 ->
    List.Forall (fun x => 0 < x) h' /\
    step_integral N h' (bin_widths N edges) = 1.
  Proof.
    unfold sh_hist. intros H Hlen Hw Hs.
    destruct (existsb (sh_nan N) _) eqn:E1; [discriminate|].
    destruct (existsb (sh_empty N) _) eqn:E2; [discriminate|].
    injection H as <-.
    split.
    - apply existsb_false_Forall in E2.
      eapply Forall_impl; [|exact E2]. intros a Ha. cbv beta in Ha.
      unfold N in Ha. rewrite K_sh_empty in Ha. apply Rleb_false in Ha. lra.
    - unfold N. rewrite step_integral_R, bin_widths_R, nsum_R.
      assert (L1 : length (removelast edges) = length h).
      { destruct edges as [|a edges]; [discriminate|].
        cbn in Hlen. injection Hlen as Hlen.
        assert (a :: edges <> []) by discriminate.
        pose proof (app_removelast_last 0 H) as Hd.
        apply (f_equal (@length R)) in Hd. rewrite app_length in Hd. cbn [length] in Hd.
        lia. }
      assert (L2 : length (tl edges) = length h).
      { destruct edges; [discriminate|]. cbn in *. lia. }
      erewrite map_ext; [rewrite sh_sum_aux|].
      + field. exact Hs.
      + lia.
      + lia.
      + exact Hs.
      + eapply Forall_impl; [|exact Hw]. intros a Ha. cbv beta in Ha. lra.
      + intros a. reflexivity.
  Qed.

  (* the 1/(2 pi) factor: integrating the returned value over right-ascension
     gives back the sin(dec) density *)
  Theorem sh_pd_sphere x : 0 < x -> 2 * PI * sh_pd N (ln x) = x.
  Proof.
    intros Hx. unfold N. rewrite K_sh_pd, exp_ln by exact Hx.
    field. apply Rgt_not_eq, PI_RGT_0.
  Qed.

  Theorem sh_pd_pos y : 0 < sh_pd N y.
  Proof.
    unfold N. rewrite K_sh_pd. apply Rdiv_lt_0_compat; [apply exp_pos|].
    pose proof PI_RGT_0. lra.
  Qed.
End SpatialHist.

(* ------------------------------------------------------------------ point-spread densities *)
Section Psf.
  Variable e : R -> R.
  Let N := RNum e.

  (* antiderivative of 2 pi r * psf(r) *)
  Lemma psf_radial_derive s r :
    s <> 0 ->
    is_derive (fun r => - exp (- (r * r) / (2 * (s * s)))) r
              (2 * PI * r * psf_gauss N (s * s) r).
  Proof.
    intros Hs.
    assert (Hq : s * s <> 0) by (apply Rmult_integral_contrapositive_currified; exact Hs).
    unfold N. rewrite K_psf_gauss by exact Hq.
    auto_derive; [exact I|].
    unfold Rdiv. generalize (exp (- (r * r) * / (2 * (s * s)))). intros E.
    field. split; [exact Hs | apply Rgt_not_eq, PI_RGT_0].
  Qed.

  (* the gaussian PSF integrated over a disc of radius R in the tangent plane *)
  Theorem psf_disc s R0 :
    s <> 0 ->
    is_RInt (fun r => 2 * PI * r * psf_gauss N (s * s) r) 0 R0
            (1 - exp (- (R0 * R0) / (2 * (s * s)))).
  Proof.
    intros Hs.
    assert (Hq : s * s <> 0) by (apply Rmult_integral_contrapositive_currified; exact Hs).
    replace (1 - exp (- (R0 * R0) / (2 * (s * s))))
      with (minus (- exp (- (R0 * R0) / (2 * (s * s)))) (- exp (- (0 * 0) / (2 * (s * s))))).
    2:{ unfold minus, plus, opp; simpl.
        replace (- (0 * 0) / (2 * (s * s))) with 0 by (field; exact Hs).
        rewrite exp_0. ring. }
    apply (is_RInt_derive (fun r => - exp (- (r * r) / (2 * (s * s))))).
    - intros x _. apply psf_radial_derive. exact Hs.
    - intros x _.
      apply (continuous_ext (fun r => 2 * PI * r * (/ (2 * PI * (s * s)) * exp (- (r * r) / (2 * (s * s)))))).
      { intros r. unfold N. rewrite K_psf_gauss by exact Hq. reflexivity. }
      apply (ex_derive_continuous (fun r => 2 * PI * r * (/ (2 * PI * (s * s)) * exp (- (r * r) / (2 * (s * s)))))).
      auto_derive. exact I.
  Qed.

  (* the Rayleigh PSF integrated over the spherical cap of opening angle Psi
     (solid-angle element 2 pi sin(psi) dpsi): the same closed form; over the
     whole sphere (Psi = pi) it is 1 - exp(-pi^2/(2 sigma^2)), the documented
     small-sigma approximation *)
  Theorem psf_rayleigh_cap s Psi :
    s <> 0 -> 0 <= Psi <= PI ->
    is_RInt (fun r => 2 * PI * sin r * psf_rayleigh N (s * s) r) 0 Psi
            (1 - exp (- (Psi * Psi) / (2 * (s * s)))).
  Proof.
    intros Hs HP.
    assert (Hq : s * s <> 0) by (apply Rmult_integral_contrapositive_currified; exact Hs).
    apply (is_RInt_ext (fun r => r / (s * s) * exp (- (r * r) / (2 * (s * s))))).
    { intros r Hr. rewrite Rmin_left, Rmax_right in Hr by lra.
      assert (Hsin : 0 < sin r) by (apply sin_gt_0; lra).
      assert (Hsin' : sin r <> 0) by lra.
      pose proof (K_psf_rayleigh e (s * s) r Hq Hsin') as K.
      unfold N. rewrite K.
      assert (X : forall E : R,
                 r / (s * s) * E = 2 * PI * sin r * (/ (2 * PI * sin r) * (r / (s * s)) * E)).
      { intros E. field. repeat split; [exact Hs | exact Hsin' | apply Rgt_not_eq, PI_RGT_0]. }
      apply X. }
    replace (1 - exp (- (Psi * Psi) / (2 * (s * s))))
      with (minus (- exp (- (Psi * Psi) / (2 * (s * s)))) (- exp (- (0 * 0) / (2 * (s * s))))).
    2:{ unfold minus, plus, opp; simpl.
        replace (- (0 * 0) / (2 * (s * s))) with 0 by (field; exact Hs).
        rewrite exp_0. ring. }
    apply (is_RInt_derive (fun r => - exp (- (r * r) / (2 * (s * s))))).
    - intros x _. auto_derive; [exact I|].
      unfold Rdiv. generalize (exp (- (x * x) * / (2 * (s * s)))). intros E.
      field. exact Hs.
    - intros x _.
      apply (ex_derive_continuous (fun r => r / (s * s) * exp (- (r * r) / (2 * (s * s))))).
      auto_derive. exact I.
  Qed.

  Theorem psf_nonneg s r : s <> 0 -> 0 < psf_gauss N (s * s) r.
  Proof.
    intros Hs.
    assert (Hq : 0 < s * s) by nra.
    unfold N. rewrite K_psf_gauss by lra.
    apply Rmult_lt_0_compat; [|apply exp_pos].
    apply Rinv_0_lt_compat. pose proof PI_RGT_0. nra.
  Qed.

  (* the disc integral tends to one: the density is normalised over the plane *)
  Theorem psf_plane_limit s :
    s <> 0 ->
    is_lim (fun R0 => 1 - exp (- (R0 * R0) / (2 * (s * s)))) p_infty 1.
  Proof.
    intros Hs.
    assert (Hq : 0 < s * s) by nra.
    replace (Finite 1) with (Rbar_minus 1 0) by (cbn; f_equal; ring).
    apply is_lim_minus'; [apply is_lim_const|].
    apply (is_lim_comp exp (fun R0 => - (R0 * R0) / (2 * (s * s))) p_infty 0 m_infty).
    - apply is_lim_exp_m.
    - set (a := - / (2 * (s * s))).
      assert (Ha : a < 0).
      { unfold a. pose proof (Rinv_0_lt_compat (2 * (s * s))). lra. }
      replace m_infty with (Rbar_mult (Finite a) p_infty).
      2:{ cbn. destruct (Rle_dec 0 a) as [H|H]; [exfalso; lra | reflexivity]. }
      apply (is_lim_ext (fun R0 => a * (R0 * R0))).
      { intros y. unfold a, Rdiv. ring. }
      apply is_lim_scal_l.
      replace p_infty with (Rbar_mult p_infty p_infty) by reflexivity.
      apply is_lim_mult; [apply is_lim_id | apply is_lim_id | exact I].
    - exists 0. intros y _. discriminate.
  Qed.
End Psf.

Close Scope R_scope.

(* ================================================================== index logic (Z) *)
Open Scope Z_scope.

Lemma K_bin_oor x lo up : bin_oor x lo up = (x <? lo) || (up <? x).
Proof.
  unfold bin_oor. rewrite Z.geb_leb.
  destruct (lo <=? x) eqn:A; destruct (x <=? up) eqn:B; destruct (x <? lo) eqn:C; destruct (up <? x) eqn:D;
    cbn; try reflexivity; lia.
Qed.
Lemma K_bin_nbins n : bin_nbins n = n - 1.
Proof. reflexivity. Qed.
Lemma K_eh_idx_e d : eh_idx_e d = d - 1.
Proof. reflexivity. Qed.
Lemma K_eh_idx_s d : eh_idx_s d = d - 1.
Proof. reflexivity. Qed.
Lemma K_eh_idx_e_edge x up n i : eh_idx_e_edge x up n i = if x =? up then n - 1 else i.
Proof. reflexivity. Qed.
Lemma K_eh_idx_s_edge x up n i : eh_idx_s_edge x up n i = if x =? up then n - 1 else i.
Proof. reflexivity. Qed.

Lemma bin_index_s_eq edges x : bin_index_s edges x = bin_index_e edges x.
Proof. reflexivity. Qed.

Definition znth (l : list Z) (k : Z) : Z := nth (Z.to_nat k) l 0.

Lemma znth_0 a l : znth (a :: l) 0 = a.
Proof. reflexivity. Qed.
Lemma znth_S a l k : 0 < k -> znth (a :: l) k = znth l (k - 1).
Proof.
  intros Hk. unfold znth. replace (Z.to_nat k) with (S (Z.to_nat (k - 1))) by lia. reflexivity.
Qed.

Lemma nondec_lb a r : nondec (a :: r) -> List.Forall (fun y => a <= y) r.
Proof.
  revert a. induction r as [|b r IH]; intros a H; constructor.
  - cbn in H. tauto.
  - cbn in H. destruct H as [Hab Hr]. specialize (IH b Hr).
    eapply Forall_impl; [|exact IH]. intros y Hy. cbv beta in Hy. lia.
Qed.

Lemma nondec_tail a r : nondec (a :: r) -> nondec r.
Proof. destruct r; cbn; tauto. Qed.

Lemma Forall_znth (P : Z -> Prop) l k : List.Forall P l -> 0 <= k < zlen l -> P (znth l k).
Proof.
  intros H Hk. rewrite Forall_forall in H. apply H. unfold znth. apply nth_In.
  unfold zlen in Hk. lia.
Qed.

(* np.digitize on non-decreasing edges splits them at x *)
Lemma digitize_split edges x :
  nondec edges ->
  0 <= digitize x edges <= zlen edges /\
  (forall k, 0 <= k < digitize x edges -> znth edges k <= x) /\
  (forall k, digitize x edges <= k < zlen edges -> x < znth edges k).
Proof.
  induction edges as [|b r IH]; intros Hnd.
  - cbn. unfold zlen. cbn. repeat split; intros; lia.
  - specialize (IH (nondec_tail _ _ Hnd)). destruct IH as (I1 & I2 & I3).
    cbn [digitize]. unfold zlen in *. cbn [length].
    destruct (b <=? x) eqn:E.
    + apply Z.leb_le in E. repeat split; try lia.
      * intros k Hk. destruct (Z.eq_dec k 0) as [->|Hk0]; [rewrite znth_0; exact E|].
        rewrite znth_S by lia. apply I2. lia.
      * intros k Hk. rewrite znth_S by lia. apply I3. lia.
    + apply Z.leb_gt in E.
      assert (Hall : List.Forall (fun y => x < y) r).
      { eapply Forall_impl; [|exact (nondec_lb _ _ Hnd)]. intros y Hy. cbv beta in Hy. lia. }
      assert (D0 : digitize x r = 0).
      { clear - Hall. induction Hall as [|y r Hy _ IH]; [reflexivity|].
        cbn [digitize]. rewrite IH. destruct (y <=? x) eqn:F; [apply Z.leb_le in F; lia | reflexivity]. }
      rewrite D0. repeat split; try lia.
      intros k Hk. destruct (Z.eq_dec k 0) as [->|Hk0]; [rewrite znth_0; exact E|].
      rewrite znth_S by lia. apply (Forall_znth _ _ _ Hall). unfold zlen. lia.
Qed.

Lemma py_get_znth l k : 0 <= k < zlen l -> py_get l k = Ok (znth l k).
Proof.
  intros Hk. unfold py_get. cbv zeta.
  destruct (k <? 0) eqn:E; [lia|]. rewrite E. cbn [orb].
  destruct (zlen l <=? k) eqn:E2; [lia|].
  unfold znth. destruct (nth_error l (Z.to_nat k)) eqn:E3.
  - erewrite nth_error_nth; [reflexivity | exact E3].
  - apply nth_error_None in E3. unfold zlen in Hk. lia.
Qed.

Lemma py_get_last_znth l : 1 <= zlen l -> py_get l (-1) = Ok (znth l (zlen l - 1)).
Proof.
  intros Hl. unfold py_get. cbv zeta.
  replace (-1 <? 0) with true by reflexivity. cbv iota.
  destruct (-1 + zlen l <? 0) eqn:E; [lia|]. cbn [orb].
  destruct (zlen l <=? -1 + zlen l) eqn:E2; [lia|].
  replace (-1 + zlen l) with (zlen l - 1) by lia.
  unfold znth. destruct (nth_error l (Z.to_nat (zlen l - 1))) eqn:E3.
  - erewrite nth_error_nth; [reflexivity | exact E3].
  - apply nth_error_None in E3. unfold zlen in *. lia.
Qed.

Lemma py_get_nth_error {A} (l : list A) i a :
  0 <= i -> nth_error l (Z.to_nat i) = Some a -> py_get l i = Ok a.
Proof.
  intros Hi H. unfold py_get. cbv zeta.
  destruct (i <? 0) eqn:E; [lia|]. rewrite E. cbn [orb].
  destruct (zlen l <=? i) eqn:E2.
  - assert (nth_error l (Z.to_nat i) = None) as C.
    { apply nth_error_None. unfold zlen in E2. lia. }
    congruence.
  - rewrite H. reflexivity.
Qed.

(* a value accepted by any_data_out_of_range gets the index of its
   np.histogram bin *)
Theorem bin_index_ok edges x :
  nondec edges -> 2 <= zlen edges ->
  bin_any_oor edges x = Ok false ->
  exists i, bin_index_e edges x = Ok i /\ in_bin edges i x.
Proof.
  intros Hnd Hlen Hv.
  unfold bin_any_oor in Hv.
  rewrite (py_get_znth edges 0) in Hv by lia.
  rewrite (py_get_last_znth edges) in Hv by lia.
  cbn [bind] in Hv. injection Hv as Hv. rewrite K_bin_oor in Hv.
  apply orb_false_iff in Hv. destruct Hv as [V1 V2].
  apply Z.ltb_ge in V1. apply Z.ltb_ge in V2.
  unfold bin_index_e. rewrite (py_get_last_znth edges) by lia. cbn [bind].
  rewrite K_eh_idx_e_edge, K_eh_idx_e, K_bin_nbins.
  destruct (digitize_split edges x Hnd) as (D1 & D2 & D3).
  set (d := digitize x edges) in *.
  assert (Hd1 : 1 <= d).
  { destruct (Z_lt_le_dec d 1) as [H|H]; [|exact H].
    specialize (D3 0). rewrite <- (Z.abs_eq 0) in D3 by lia. cbn in D3.
    assert (x < znth edges 0) by (apply D3; lia). lia. }
  unfold in_bin. fold (zlen edges). unfold znth in *.
  destruct (x =? znth edges (zlen edges - 1)) eqn:Eq; unfold znth in Eq; rewrite Eq.
  - apply Z.eqb_eq in Eq. exists (zlen edges - 1 - 1). split; [reflexivity|].
    replace (zlen edges - 1 - 1 + 1) with (zlen edges - 1) by lia.
    repeat split; try lia.
    (* lower edge of the last bin <= upper edge = x *)
    + destruct (Z_lt_le_dec (zlen edges - 2) d) as [H|H].
      * replace (zlen edges - 1 - 1) with (zlen edges - 2) by lia. apply D2. lia.
      * exfalso. specialize (D3 (zlen edges - 1)).
        assert (x < nth (Z.to_nat (zlen edges - 1)) edges 0) by (apply D3; lia). lia.
  - apply Z.eqb_neq in Eq. exists (d - 1). split; [reflexivity|].
    assert (Hd2 : d < zlen edges).
    { destruct (Z_lt_le_dec d (zlen edges)) as [H|H]; [exact H|].
      exfalso. assert (d = zlen edges) by lia.
      assert (nth (Z.to_nat (zlen edges - 1)) edges 0 <= x) by (apply D2; lia). lia. }
    replace (d - 1 + 1) with d by lia.
    repeat split; try lia.
    + apply D2. lia.
    + left. apply D3. lia.
Qed.

(* I3EnergyPDF: data accepted by assert_is_valid_for_trial_data can be
   evaluated, and get_pd returns the histogram entry of the event's bin *)
Theorem eh_valid_evaluable {A} (hist : list (list A)) edgesE edgesS x y :
  nondec edgesE -> nondec edgesS -> 2 <= zlen edgesE -> 2 <= zlen edgesS ->
  zlen hist = zlen edgesE - 1 ->
  List.Forall (fun row => zlen row = zlen edgesS - 1) hist ->
  eh_assert_valid edgesE edgesS x y = Ok tt ->
  exists i j row v,
    in_bin edgesE i x /\ in_bin edgesS j y /\
    nth_error hist (Z.to_nat i) = Some row /\ nth_error row (Z.to_nat j) = Some v /\
    eh_get_pd hist edgesE edgesS x y = Ok v.
Proof.
  intros NE NS LE LS HH HR Hv.
  unfold eh_assert_valid in Hv.
  destruct (bin_any_oor edgesE x) as [[|]|] eqn:VE; cbn [bind] in Hv; try discriminate.
  destruct (bin_any_oor edgesS y) as [[|]|] eqn:VS; cbn [bind] in Hv; try discriminate.
  destruct (bin_index_ok edgesE x NE LE VE) as (i & Hi & Bi).
  destruct (bin_index_ok edgesS y NS LS VS) as (j & Hj & Bj).
  unfold eh_get_pd. change (bin_index_s edgesS y) with (bin_index_e edgesS y). rewrite Hi, Hj. cbn [bind].
  assert (Ri : 0 <= i < zlen hist).
  { destruct Bi as (B & _). unfold zlen in *. lia. }
  destruct (nth_error hist (Z.to_nat i)) as [row|] eqn:Er.
  2:{ apply nth_error_None in Er. unfold zlen in Ri. lia. }
  assert (Hrow : zlen row = zlen edgesS - 1).
  { rewrite Forall_forall in HR. apply HR. eapply nth_error_In. exact Er. }
  assert (Rj : 0 <= j < zlen row).
  { destruct Bj as (B & _). unfold zlen in *. lia. }
  destruct (nth_error row (Z.to_nat j)) as [v|] eqn:Ev.
  2:{ apply nth_error_None in Ev. unfold zlen in Rj. lia. }
  exists i, j, row, v.
  split; [exact Bi|]. split; [exact Bj|]. split; [exact Er|]. split; [exact Ev|].
  rewrite (py_get_nth_error hist i row) by (try exact Er; lia).
  cbn [bind]. apply py_get_nth_error; [lia | exact Ev].
Qed.
