(* C15, the float statement decided inside Coq on the IEEE-754 binary64
   specification (Coq.Floats.SpecFloat): the fixed-point clause of the property
   ("a grid point rounds to itself") is FALSE for the admissible grid
   origin 58000, spacing 1e-3 -- and true for the same spacing at origin 0.
   Each computation is ONE boolean evaluated by vm_compute; the statements are
   derived from the boolean by ordinary reasoning. *)
From Coq Require Import ZArith List Bool SpecFloat.
From Sky Require Import Result PyList Num G_grid M_Grid M_GridSF.
Import ListNotations.
Open Scope Z_scope.

(* the double nearest to 0.001 (= 1/1000 correctly rounded) and 58000 *)
Definition sf_d3 : sf := sf_div sf_one (ofZ SFNum 1000).
Definition sf_58000 : sf := ofZ SFNum 58000.
(* np.arange(58000, 58000.004, 0.001) *)
Definition witness_arr : list sf := sf_arange sf_58000 sf_d3 4.

(* structural equality of spec floats *)
Definition sf_same (a b : sf) : bool :=
  match a, b with
  | S754_zero s, S754_zero t => Bool.eqb s t
  | S754_infinity s, S754_infinity t => Bool.eqb s t
  | S754_nan, S754_nan => true
  | S754_finite s m e, S754_finite t n f => Bool.eqb s t && Pos.eqb m n && Z.eqb e f
  | _, _ => false
  end.
Lemma sf_same_eq a b : sf_same a b = true -> a = b.
Proof.
  destruct a, b; cbn [sf_same]; try discriminate; try reflexivity.
  - intros H. apply eqb_prop in H. congruence.
  - intros H. apply eqb_prop in H. congruence.
  - intros H. apply andb_prop in H. destruct H as [H He]. apply andb_prop in H. destruct H as [Hs Hm].
    apply eqb_prop in Hs. apply Pos.eqb_eq in Hm. apply Z.eqb_eq in He. congruence.
Qed.
Definition zz_eqb (p q : Z * Z) : bool := Z.eqb (fst p) (fst q) && Z.eqb (snd p) (snd q).
Lemma zz_eqb_eq p q : zz_eqb p q = true -> p = q.
Proof.
  destruct p, q. unfold zz_eqb. cbn [fst snd]. intros H. apply andb_prop in H. destruct H as [A B].
  apply Z.eqb_eq in A. apply Z.eqb_eq in B. congruence.
Qed.

Definition refute_check : bool :=
  match pg_make SFNum sf_d3 3 witness_arr with
  | Ok p =>
    match pg_grid p with
    | g0 :: g1 :: _ =>
        zz_eqb (sf_repr g0) (7971459301376000, -37)
        && zz_eqb (sf_repr g1) (7971459438814953, -37)
        && SFltb g0 g1
        && sf_same (round_lower SFNum (pg_desc p) g1) g0
        && sf_same (round_upper SFNum (pg_desc p) g1) g1
        && negb (self_consistent SFNum p)
    | _ => false
    end
  | Err _ => false
  end.
Lemma refute_check_true : refute_check = true.
Proof. vm_compute. reflexivity. Qed.

Theorem fixed_point_refuted_binary64 :
  exists p g0 g1,
    pg_make SFNum sf_d3 3 witness_arr = Ok p /\
    nth_error (pg_grid p) 0 = Some g0 /\ nth_error (pg_grid p) 1 = Some g1 /\
    sf_repr g0 = (7971459301376000, -37) /\          (* 58000 *)
    sf_repr g1 = (7971459438814953, -37) /\          (* the double nearest to 58000.001 *)
    SFltb g0 g1 = true /\
    round_lower SFNum (pg_desc p) g1 = g0 /\         (* grid[1] rounds DOWN to grid[0] *)
    round_upper SFNum (pg_desc p) g1 = g1 /\         (* and "up" to itself *)
    self_consistent SFNum p = false.
Proof.
  pose proof refute_check_true as H. unfold refute_check in H.
  destruct (pg_make SFNum sf_d3 3 witness_arr) as [p|e]; [|discriminate].
  destruct (pg_grid p) as [|g0 [|g1 r]] eqn:Hg; try discriminate.
  do 5 (apply andb_prop in H; let A := fresh "A" in destruct H as [H A]).
  exists p, g0, g1. rewrite Hg. cbn [nth_error].
  repeat split; try reflexivity;
    try (apply zz_eqb_eq; assumption); try (apply sf_same_eq; assumption);
    try assumption; try (apply negb_true_iff; assumption).
Qed.

(* the same construction is self-consistent where the float resolution of the
   grid values is fine compared with the spacing (non-vacuity of the predicate) *)
Definition sc_check (d0 : sf) (dec : Z) (arr : list sf) : bool :=
  match pg_make SFNum d0 dec arr with Ok p => self_consistent SFNum p | Err _ => false end.
Lemma sc_check_sound d0 dec arr : sc_check d0 dec arr = true ->
  exists p, pg_make SFNum d0 dec arr = Ok p /\ self_consistent SFNum p = true.
Proof. unfold sc_check. destruct (pg_make SFNum d0 dec arr) as [p|e]; [|discriminate]. intros H. exists p. split; [reflexivity|exact H]. Qed.

Example self_consistent_fine_grid :
  exists p, pg_make SFNum sf_d3 3 (sf_arange sf_zero sf_d3 6) = Ok p /\ self_consistent SFNum p = true.
Proof. apply sc_check_sound. vm_compute. reflexivity. Qed.

Example self_consistent_tenth_grid :
  exists p, pg_make SFNum (sf_div sf_one (ofZ SFNum 10)) 1
                    (sf_arange (ofZ SFNum (-3)) (sf_div sf_one (ofZ SFNum 10)) 8) = Ok p
            /\ self_consistent SFNum p = true.
Proof. apply sc_check_sound. vm_compute. reflexivity. Qed.
