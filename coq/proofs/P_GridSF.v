(* C15, the float statement decided inside Coq on the IEEE-754 binary64
   specification (Coq.Floats.SpecFloat): the fixed-point clause of the property
   ("a grid point rounds to itself") is FALSE for the admissible grid
   origin 58000, spacing 1e-3 -- and true for the same spacing at origin 0.
   Each computation is ONE boolean evaluated by vm_compute; the statements are
   derived from the boolean by ordinary reasoning. *)
From Coq Require Import ZArith List Bool SpecFloat.
From Sky Require Import Result PyList Num G_grid M_Grid M_GridSF.
Import ListNotations.
Open Scope Z_scope.

(* the double nearest to 0.001 (= 1/1000 correctly rounded) and 58000 *)
Definition sf_d3 : sf := sf_div sf_one (ofZ SFNum 1000).
Definition sf_58000 : sf := ofZ SFNum 58000.
(* np.arange(58000, 58000.004, 0.001) *)
Definition witness_arr : list sf := sf_arange sf_58000 sf_d3 4.

(* structural equality of spec floats *)
Definition sf_same (a b : sf) : bool :=
  match a, b with
  | S754_zero s, S754_zero t => Bool.eqb s t
  | S754_infinity s, S754_infinity t => Bool.eqb s t
  | S754_nan, S754_nan => true
  | S754_finite s m e, S754_finite t n f => Bool.eqb s t && Pos.eqb m n && Z.eqb e f
  | _, _ => false
  end.
Lemma sf_same_eq a b : sf_same a b = true -> a = b.
Proof.
  destruct a, b; cbn [sf_same]; try discriminate; try reflexivity.
  - intros H. apply eqb_prop in H. congruence.
  - intros H. apply eqb_prop in H. congruence.
  - intros H. apply andb_prop in H. destruct H as [H He]. apply andb_prop in H. destruct H as [Hs Hm].
    apply eqb_prop in Hs. apply Pos.eqb_eq in Hm. apply Z.eqb_eq in He. congruence.
Qed.
Definition zz_eqb (p q : Z * Z) : bool := Z.eqb (fst p) (fst q) && Z.eqb (snd p) (snd q).
Lemma zz_eqb_eq p q : zz_eqb p q = true -> p = q.
Proof.
  destruct p, q. unfold zz_eqb. cbn [fst snd]. intros H. apply andb_prop in H. destruct H as [A B].
  apply Z.eqb_eq in A. apply Z.eqb_eq in B. congruence.
Qed.

Definition refute_check : bool :=
  match pg_make SFNum sf_d3 3 witness_arr with
  | Ok p =>
    match pg_grid p with
    | g0 :: g1 :: _ =>
        zz_eqb (sf_repr g0) (7971459301376000, -37)
        && zz_eqb (sf_repr g1) (7971459438814953, -37)
        && SFltb g0 g1
        && sf_same (round_lower SFNum (pg_desc p) g1) g0
        && sf_same (round_upper SFNum (pg_desc p) g1) g1
        && negb (self_consistent SFNum p)
    | _ => false
    end
  | Err _ => false
  end.
Lemma refute_check_true : refute_check = true.
Proof. vm_compute. reflexivity. Qed.

Theorem fixed_point_refuted_binary64 :
  exists p g0 g1,
    pg_make SFNum sf_d3 3 witness_arr = Ok p /\
    nth_error (pg_grid p) 0 = Some g0 /\ nth_error (pg_grid p) 1 = Some g1 /\
    sf_repr g0 = (7971459301376000, -37) /\          (* 58000 *)
    sf_repr g1 = (7971459438814953, -37) /\          (* the double nearest to 58000.001 *)
    SFltb g0 g1 = true /\
    round_lower SFNum (pg_desc p) g1 = g0 /\         (* grid[1] rounds DOWN to grid[0] *)
    round_upper SFNum (pg_desc p) g1 = g1 /\         (* and "up" to itself *)
    self_consistent SFNum p = false.
Proof.
  pose proof refute_check_true as H. unfold refute_check in H.
  destruct (pg_make SFNum sf_d3 3 witness_arr) as [p|e]; [|discriminate].
  destruct (pg_grid p) as [|g0 [|g1 r]] eqn:Hg; try discriminate.
  do 5 (apply andb_prop in H; let A := fresh "A" in destruct H as [H A]).
  exists p, g0, g1. rewrite Hg. cbn [nth_error].
  repeat split; try reflexivity;
    try (apply zz_eqb_eq; assumption); try (apply sf_same_eq; assumption);
    try assumption; try (apply negb_true_iff; assumption).
Qed.

(* the same construction is self-consistent where the float resolution of the
   grid values is fine compared with the spacing (non-vacuity of the predicate) *)
Definition sc_check (d0 : sf) (dec : Z) (arr : list sf) : bool :=
  match pg_make SFNum d0 dec arr with Ok p => self_consistent SFNum p | Err _ => false end.
Lemma sc_check_sound d0 dec arr : sc_check d0 dec arr = true ->
  exists p, pg_make SFNum d0 dec arr = Ok p /\ self_consistent SFNum p = true.
Proof. unfold sc_check. destruct (pg_make SFNum d0 dec arr) as [p|e]; [|discriminate]. intros H. exists p. split; [reflexivity|exact H]. Qed.

Example self_consistent_fine_grid :
  exists p, pg_make SFNum sf_d3 3 (sf_arange sf_zero sf_d3 6) = Ok p /\ self_consistent SFNum p = true.
Proof. apply sc_check_sound. vm_compute. reflexivity. Qed.

Example self_consistent_tenth_grid :
  exists p, pg_make SFNum (sf_div sf_one (ofZ SFNum 10)) 1
                    (sf_arange (ofZ SFNum (-3)) (sf_div sf_one (ofZ SFNum 10)) 8) = Ok p
            /\ self_consistent SFNum p = true.
Proof. apply sc_check_sound. vm_compute. reflexivity. Qed.

(* ------------------------------------------------------------------ *)
(* The cache key is (trial data state id, x0 / x1) only.  If the manifold
   function (or anything it closes over: eventdata, kwargs) changes while the
   state id and the grid cell stay the same, a hit returns the parametrisation
   of the OLD function.  Witness: F0 = 0, F1 = 1 on the grid 1, 2, 3, ... at
   x = 2.5 -- the object answers 0 for F1. *)
Definition wit_g : gdesc (T := sf) := {| g_lb := sf_one; g_delta := sf_one; g_dec := 0 |}.
Definition wit_F0 : manifold (T := sf) := fun _ _ _ _ => sf_zero.
Definition wit_F1 : manifold (T := sf) := fun _ _ _ _ => sf_one.
Definition wit_xs : list sf := [sf_div (ofZ SFNum 5) (ofZ SFNum 2)].
Definition wit_idxs : list (nat * nat) := [(0, 0)%nat].

Definition wit_lin_st : lin_cache (T := sf) :=
  Eval vm_compute in
    match lin_call SFNum wit_g wit_F0 wit_idxs None 1 wit_xs with Ok (_, _, st) => st | Err _ => None end.
Definition wit_par_st : par_cache (T := sf) :=
  Eval vm_compute in
    match par_call SFNum wit_g wit_F0 wit_idxs None 1 wit_xs with Ok (_, _, st) => st | Err _ => None end.

Lemma wit_lin_first : exists v0 g0, lin_call SFNum wit_g wit_F0 wit_idxs None 1 wit_xs = Ok (v0, g0, wit_lin_st).
Proof. do 2 eexists. vm_compute. reflexivity. Qed.
Lemma wit_lin_second : exists gr st', lin_call SFNum wit_g wit_F1 wit_idxs wit_lin_st 1 wit_xs = Ok ([sf_zero], gr, st').
Proof. do 2 eexists. vm_compute. reflexivity. Qed.
Lemma wit_lin_fresh : exists gf stf, lin_call SFNum wit_g wit_F1 wit_idxs None 1 wit_xs = Ok ([sf_one], gf, stf).
Proof. do 2 eexists. vm_compute. reflexivity. Qed.
Lemma wit_par_first : exists v0 g0, par_call SFNum wit_g wit_F0 wit_idxs None 1 wit_xs = Ok (v0, g0, wit_par_st).
Proof. do 2 eexists. vm_compute. reflexivity. Qed.
Lemma wit_par_second : exists gr st', par_call SFNum wit_g wit_F1 wit_idxs wit_par_st 1 wit_xs = Ok ([sf_zero], gr, st').
Proof. do 2 eexists. vm_compute. reflexivity. Qed.
Lemma wit_par_fresh : exists gf stf, par_call SFNum wit_g wit_F1 wit_idxs None 1 wit_xs = Ok ([sf_one], gf, stf).
Proof. do 2 eexists. vm_compute. reflexivity. Qed.

Theorem cache_key_omits_function_refuted :
  (exists v0 g0 st v gr st' vf gf stf,
     lin_call SFNum wit_g wit_F0 wit_idxs None 1 wit_xs = Ok (v0, g0, st) /\
     lin_call SFNum wit_g wit_F1 wit_idxs st 1 wit_xs = Ok (v, gr, st') /\
     lin_call SFNum wit_g wit_F1 wit_idxs None 1 wit_xs = Ok (vf, gf, stf) /\
     v = [sf_zero] /\ vf = [sf_one]) /\
  (exists v0 g0 st v gr st' vf gf stf,
     par_call SFNum wit_g wit_F0 wit_idxs None 1 wit_xs = Ok (v0, g0, st) /\
     par_call SFNum wit_g wit_F1 wit_idxs st 1 wit_xs = Ok (v, gr, st') /\
     par_call SFNum wit_g wit_F1 wit_idxs None 1 wit_xs = Ok (vf, gf, stf) /\
     v = [sf_zero] /\ vf = [sf_one]).
Proof.
  split.
  - destruct wit_lin_first as [v0 [g0 E0]]. destruct wit_lin_second as [gr [st' E1]]. destruct wit_lin_fresh as [gf [stf E2]].
    exists v0, g0, wit_lin_st, [sf_zero], gr, st', [sf_one], gf, stf. repeat split; assumption.
  - destruct wit_par_first as [v0 [g0 E0]]. destruct wit_par_second as [gr [st' E1]]. destruct wit_par_fresh as [gf [stf E2]].
    exists v0, g0, wit_par_st, [sf_zero], gr, st', [sf_one], gf, stf. repeat split; assumption.
Qed.
