(* C04 — the invariant WorldOk holds after every operation sequence. *)
From Coq Require Import ZArith List Bool Lia Permutation.
From Sky Require Import Result PyList G_params M_Params S_Params P_Params.
Import ListNotations.
Open Scope Z_scope.

Lemma NoDup_app_iff {A} (l1 l2 : list A) :
  NoDup (l1 ++ l2) <-> NoDup l1 /\ NoDup l2 /\ (forall x, In x l1 -> ~ In x l2).
Proof.
  induction l1 as [|a l1 IH]; cbn.
  - split; [intros H; repeat split; auto; constructor | tauto].
  - split.
    + intros H. inversion H as [|? ? Hn Hd]; subst. apply IH in Hd. destruct Hd as (H1 & H2 & H3).
      rewrite in_app_iff in Hn. repeat split; auto.
      * constructor; tauto.
      * intros x [->|Hx]; [tauto | auto].
    + intros (H1 & H2 & H3). inversion H1; subst. constructor.
      * rewrite in_app_iff. intros [?|?]; [tauto | eapply H3; eauto].
      * apply IH. repeat split; auto.
Qed.

Definition SetsOk (st : store) (all : list pset) : Prop :=
  Forall (fun s => exists ps, Consistent st s ps) all /\ NoDup (concat (map ps_params all)).

Lemma Consistent_frame st st' s ps :
  Consistent st s ps -> (forall l, In l (ps_params s) -> nth_error st' l = nth_error st l) ->
  Consistent st' s ps.
Proof.
  intros (H1 & H2) Hf. split; [|exact H2]. rewrite <- H1. apply mapM_ext. intros a Ha. unfold rd. rewrite Hf; auto.
Qed.

Lemma Consistent_lt st s ps l : Consistent st s ps -> In l (ps_params s) -> (l < length st)%nat.
Proof. intros (H & _) Hl. destruct (mapM_In _ _ _ _ H Hl) as (b & Hb & _). eapply rd_lt; eauto. Qed.

Lemma in_concat_sets (all : list pset) l :
  In l (concat (map ps_params all)) -> exists t, In t all /\ In l (ps_params t).
Proof.
  rewrite in_concat. intros (x & Hx & Hl). apply in_map_iff in Hx. destruct Hx as (t & <- & Ht). eauto.
Qed.

Lemma sets_update st st' A s s' B :
  SetsOk st (A ++ s :: B) ->
  (forall l, (l < length st)%nat -> ~ In l (ps_params s) -> nth_error st' l = nth_error st l) ->
  (exists ps', Consistent st' s' ps') ->
  NoDup (ps_params s') ->
  (forall l, In l (ps_params s') -> In l (ps_params s) \/ (length st <= l)%nat) ->
  SetsOk st' (A ++ s' :: B).
Proof.
  intros (HF & HN) Hag Hs' HNs' Hsub.
  rewrite map_app, concat_app in HN. cbn [map concat] in HN.
  apply NoDup_app_iff in HN. destruct HN as (NA & NsB & DA).
  apply NoDup_app_iff in NsB. destruct NsB as (Ns & NB & DB).
  apply Forall_app in HF. destruct HF as (FA & FsB). inversion FsB as [|? ? Fs FB]; subst.
  assert (LA : forall l, In l (concat (map ps_params A)) -> (l < length st)%nat /\ ~ In l (ps_params s)).
  { intros l Hl. split.
    - destruct (in_concat_sets _ _ Hl) as (t & Ht & Hlt). rewrite Forall_forall in FA.
      destruct (FA t Ht) as (pt & Hpt). eapply Consistent_lt; eauto.
    - intro X. apply (DA l Hl). rewrite in_app_iff. tauto. }
  assert (LB : forall l, In l (concat (map ps_params B)) -> (l < length st)%nat /\ ~ In l (ps_params s)).
  { intros l Hl. split.
    - destruct (in_concat_sets _ _ Hl) as (t & Ht & Hlt). rewrite Forall_forall in FB.
      destruct (FB t Ht) as (pt & Hpt). eapply Consistent_lt; eauto.
    - intro X. apply (DB l X Hl). }
  split.
  - apply Forall_app. split; [|constructor; [assumption|]].
    + rewrite Forall_forall in *. intros t Ht. destruct (FA t Ht) as (pt & Hpt). exists pt.
      eapply Consistent_frame; [exact Hpt|]. intros l Hl.
      assert (In l (concat (map ps_params A))) by (apply in_concat; exists (ps_params t); split; [apply in_map; assumption | assumption]).
      apply Hag; apply LA; assumption.
    + rewrite Forall_forall in *. intros t Ht. destruct (FB t Ht) as (pt & Hpt). exists pt.
      eapply Consistent_frame; [exact Hpt|]. intros l Hl.
      assert (In l (concat (map ps_params B))) by (apply in_concat; exists (ps_params t); split; [apply in_map; assumption | assumption]).
      apply Hag; apply LB; assumption.
  - rewrite map_app, concat_app. cbn [map concat].
    apply NoDup_app_iff. split; [assumption|]. split.
    + apply NoDup_app_iff. split; [assumption|]. split; [assumption|].
      intros l Hl HlB. destruct (LB l HlB) as (L1 & L2). destruct (Hsub l Hl); [tauto | lia].
    + intros l Hl. rewrite in_app_iff. intros [X|X].
      * destruct (LA l Hl) as (L1 & L2). destruct (Hsub l X); [tauto | lia].
      * apply (DA l Hl). rewrite in_app_iff. tauto.
Qed.

Lemma sets_append_empty st all : SetsOk st all -> SetsOk st (all ++ [empty_pset]).
Proof.
  intros (HF & HN). split.
  - apply Forall_app. split; [assumption|]. constructor; [|constructor]. exists []. apply Consistent_empty.
  - rewrite map_app, concat_app. cbn. rewrite app_nil_r. assumption.
Qed.

(* a set appended that lives entirely in fresh store cells *)
Lemma sets_append_fresh st new all s' :
  SetsOk st all ->
  (exists ps', Consistent (st ++ new) s' ps') ->
  ps_params s' = seq (length st) (length new) ->
  SetsOk (st ++ new) (all ++ [s']).
Proof.
  intros H Hs' Hp.
  apply (sets_update st (st ++ new) all empty_pset s' []).
  - apply sets_append_empty. assumption.
  - intros l Hl _. apply nth_error_app1. assumption.
  - assumption.
  - rewrite Hp. apply seq_NoDup.
  - intros l Hl. rewrite Hp in Hl. apply in_seq in Hl. right. lia.
Qed.

(* ------------------------------------------------------------------ addressing the sets of a world *)
Definition sidx (r : sref) : nat := match r with GP => O | St n => S n end.

Lemma set_nth_split {A} (l : list A) n s :
  nth_error l n = Some s -> exists X Y, l = X ++ s :: Y /\ forall s', set_nth l n s' = X ++ s' :: Y.
Proof.
  revert n; induction l as [|a l IH]; intros [|n] H; cbn in H; try discriminate.
  - inversion H; subst. exists [], l. split; [reflexivity | intros; reflexivity].
  - destruct (IH n H) as (X & Y & E1 & E2). exists (a :: X), Y. split; [rewrite E1 at 1; reflexivity|].
    intros s'. cbn. rewrite E2. reflexivity.
Qed.

Lemma get_set_split w r s :
  get_set w r = Ok s ->
  exists X Y, all_sets w = X ++ s :: Y
    /\ forall st' s', all_sets (put_set w r st' s') = X ++ s' :: Y.
Proof.
  unfold get_set, all_sets. destruct r as [|n].
  - intros H; inversion H; subst. exists [], (w_sets w). split; [reflexivity|]. intros; reflexivity.
  - destruct (nth_error (w_sets w) n) eqn:E; [|discriminate]. intros H; inversion H; subst.
    destruct (set_nth_split (w_sets w) n s E) as (X & Y & E1 & E2).
    exists (mp_gps (w_map w) :: X), Y. split; [rewrite E1 at 1; reflexivity|].
    intros st' s'. cbn. rewrite E2. reflexivity.
Qed.

Lemma param_new_ok d p : param_new d = Ok p -> param_ok p.
Proof.
  unfold param_new. set (fx := match d_isfixed d with Some b => b | None => _ end).
  set (q := mkParam _ _ _ _ _ _). destruct (setter_check q (d_initial d)) eqn:E; cbn; [|discriminate].
  intros H; inversion H; subst p. unfold param_ok, setter_check in *. subst q; cbn in *.
  destruct fx; [reflexivity|].
  destruct (d_valmin d) as [lo|]; [|discriminate].
  destruct (set_below (d_initial d) lo) eqn:E1; [destruct (d_valmax d); discriminate|].
  destruct (d_valmax d) as [hi|]; [|discriminate].
  destruct (set_above (d_initial d) hi) eqn:E2; [discriminate|].
  assert (~ d_initial d < lo) by (intro X; apply K_set_below in X; congruence).
  assert (~ d_initial d > hi) by (intro X; apply K_set_above in X; congruence).
  exists lo, hi. repeat split; auto; lia.
Qed.

Lemma py_get_In {A} (l : list A) k x : py_get l k = Ok x -> In x l.
Proof.
  unfold py_get. destruct (_ || _); [discriminate|].
  destruct (nth_error l _) eqn:E; [|discriminate]. intros H; inversion H; subst. eapply nth_error_In; eauto.
Qed.

Lemma WorldOk_split w : WorldOk w <-> SetsOk (w_store w) (all_sets w) /\ matrix_ok (w_map w).
Proof. unfold WorldOk, SetsOk. tauto. Qed.

Lemma SetsOk_In st all s : SetsOk st all -> In s all -> exists ps, Consistent st s ps.
Proof. intros (H & _) Hs. rewrite Forall_forall in H. auto. Qed.

Lemma SetsOk_NoDup_set st X s Y : SetsOk st (X ++ s :: Y) -> NoDup (ps_params s).
Proof.
  intros (_ & H). rewrite map_app, concat_app in H. cbn in H.
  apply NoDup_app_iff in H. destruct H as (_ & H & _). apply NoDup_app_iff in H. tauto.
Qed.

Lemma matrix_ok_put w r st s s' :
  get_set w r = Ok s -> ps_params s' = ps_params s -> matrix_ok (w_map w) -> matrix_ok (w_map (put_set w r st s')).
Proof.
  destruct r; cbn; [|auto]. intros H E. inversion H; subst. unfold matrix_ok. cbn. rewrite E. auto.
Qed.

(* a mutation of one set in place: same Parameter objects, store changed only there *)
Lemma world_update_in_place w r s st' s' :
  WorldOk w -> get_set w r = Ok s ->
  (exists ps', Consistent st' s' ps') -> ps_params s' = ps_params s ->
  agree_outside (ps_params s) (w_store w) st' ->
  WorldOk (put_set w r st' s').
Proof.
  intros HW Hg Hc Hp Hag. apply WorldOk_split in HW. destruct HW as (HS & HMx).
  destruct (get_set_split w r s Hg) as (X & Y & E1 & E2). rewrite E1 in HS.
  apply WorldOk_split. split.
  - replace (w_store (put_set w r st' s')) with st' by (destruct r; reflexivity). rewrite E2.
    apply (sets_update (w_store w) st' X s s' Y HS).
    + intros l _ Hl. apply Hag. assumption.
    + assumption.
    + rewrite Hp. eapply SetsOk_NoDup_set; eauto.
    + intros l Hl. rewrite Hp in Hl. auto.
  - eapply matrix_ok_put; eauto.
Qed.

Lemma put_set_same w r s : get_set w r = Ok s -> all_sets (put_set w r (w_store w) s) = all_sets w.
Proof. intros H. destruct (get_set_split w r s H) as (X & Y & E1 & E2). rewrite E2, E1. reflexivity. Qed.

Lemma step_fix_ok w r req : WorldOk w -> WorldOk (fst (step w (OFix r req))).
Proof.
  intros HW. cbn [step]. destruct (get_set w r) as [s|e] eqn:Hg; [|exact HW].
  pose proof HW as HW'. apply WorldOk_split in HW'. destruct HW' as (HS & _).
  destruct (get_set_split w r s Hg) as (X & Y & E1 & _).
  assert (Hin : In s (all_sets w)) by (rewrite E1; apply in_elt).
  destruct (SetsOk_In _ _ _ HS Hin) as (ps & HC).
  assert (HND : NoDup (ps_params s)) by (rewrite E1 in HS; eapply SetsOk_NoDup_set; eauto).
  pose proof (make_params_fixed_ok (w_store w) s ps req HC HND) as H.
  destruct (make_params_fixed (w_store w) s req) as [[st' s'] [e|]]; cbn [fst].
  - destruct H as (_ & -> & -> & _).
    eapply world_update_in_place; eauto. intros l _; reflexivity.
  - destruct H as (H1 & _ & H3 & H4 & _). eapply world_update_in_place; eauto.
Qed.

Lemma step_float_ok w r req : WorldOk w -> WorldOk (fst (step w (OFloat r req))).
Proof.
  intros HW. cbn [step]. destruct (get_set w r) as [s|e] eqn:Hg; [|exact HW].
  pose proof HW as HW'. apply WorldOk_split in HW'. destruct HW' as (HS & _).
  destruct (get_set_split w r s Hg) as (X & Y & E1 & _).
  assert (Hin : In s (all_sets w)) by (rewrite E1; apply in_elt).
  destruct (SetsOk_In _ _ _ HS Hin) as (ps & HC).
  assert (HND : NoDup (ps_params s)) by (rewrite E1 in HS; eapply SetsOk_NoDup_set; eauto).
  pose proof (make_params_floating_ok (w_store w) s ps req HC HND) as H.
  destruct (make_params_floating (w_store w) s req) as [[st' s'] [e|]]; cbn [fst].
  - destruct H as (_ & -> & -> & _).
    eapply world_update_in_place; eauto. intros l _; reflexivity.
  - destruct H as (H1 & _ & H3 & H4 & _). eapply world_update_in_place; eauto.
Qed.

Lemma step_setvalue_ok w r k v : WorldOk w -> WorldOk (fst (step w (OSetValue r k v))).
Proof.
  intros HW. cbn [step]. destruct (get_set w r) as [s|e] eqn:Hg; [|exact HW].
  destruct (py_get (ps_params s) k) as [l|e] eqn:Hk; [|exact HW].
  destruct (rd (w_store w) l) as [p|e] eqn:Hp; [|exact HW].
  destruct (set_value p v) as [p'|e] eqn:Hv; [|exact HW]. cbn [fst].
  pose proof HW as HW'. apply WorldOk_split in HW'. destruct HW' as (HS & HMx).
  destruct (get_set_split w r s Hg) as (X & Y & E1 & _).
  assert (Hin : In s (all_sets w)) by (rewrite E1; apply in_elt).
  destruct (SetsOk_In _ _ _ HS Hin) as (ps & HC).
  assert (Hl : In l (ps_params s)) by (eapply py_get_In; eauto).
  assert (Hpin : In p ps).
  { destruct HC as (HM & _). destruct (mapM_In _ _ _ _ HM Hl) as (b & Hb & Hbin). congruence. }
  destruct (set_value_ok _ _ _ _ _ _ _ HC Hp Hpin Hv) as (ps' & HC' & _).
  apply WorldOk_split. split; [|exact HMx]. unfold all_sets at 1. cbn [w_store w_map w_sets].
  change (mp_gps (w_map w) :: w_sets w) with (all_sets w). rewrite E1. rewrite E1 in HS.
  apply (sets_update (w_store w) (wr (w_store w) l p') X s s Y HS).
  - intros a _ Ha. unfold wr. rewrite nth_error_set_nth.
    destruct (Nat.eqb a l) eqn:E; [apply Nat.eqb_eq in E; subst; tauto | reflexivity].
  - eauto.
  - eapply SetsOk_NoDup_set; eauto.
  - auto.
Qed.

Lemma step_newset_ok w : WorldOk w -> WorldOk (fst (step w ONewSet)).
Proof.
  intros HW. apply WorldOk_split in HW. destruct HW as (HS & HMx). cbn. apply WorldOk_split. split; [|exact HMx].
  unfold all_sets in *. cbn. rewrite app_comm_cons. apply sets_append_empty. assumption.
Qed.

Lemma step_copy_ok w r : WorldOk w -> WorldOk (fst (step w (OCopy r))).
Proof.
  intros HW. cbn [step]. destruct (get_set w r) as [s|e] eqn:Hg; [|exact HW].
  pose proof HW as HW'. apply WorldOk_split in HW'. destruct HW' as (HS & HMx).
  destruct (get_set_split w r s Hg) as (X & Y & E1 & _).
  assert (Hin : In s (all_sets w)) by (rewrite E1; apply in_elt).
  destruct (SetsOk_In _ _ _ HS Hin) as (ps & HC).
  destruct (copy_set_ok _ _ _ HC) as (s' & E & Hp & HC'). rewrite E. cbn [fst].
  apply WorldOk_split. split; [|exact HMx]. unfold all_sets in *. cbn [w_store w_map w_sets].
  rewrite app_comm_cons. apply sets_append_fresh; eauto.
Qed.

Lemma step_add_ok w n front d : WorldOk w -> WorldOk (fst (step w (OAdd n front d))).
Proof.
  intros HW. cbn [step]. destruct (nth_error (w_sets w) n) as [s|] eqn:Hn; [|exact HW].
  destruct (param_new d) as [p|e] eqn:Hd; [|exact HW].
  assert (Hg : get_set w (St n) = Ok s) by (cbn; rewrite Hn; reflexivity).
  pose proof HW as HW'. apply WorldOk_split in HW'. destruct HW' as (HS & HMx).
  destruct (get_set_split w (St n) s Hg) as (X & Y & E1 & E2).
  assert (Hin : In s (all_sets w)) by (rewrite E1; apply in_elt).
  destruct (SetsOk_In _ _ _ HS Hin) as (ps & HC).
  pose proof (add_param_ok (w_store w) s ps (length (w_store w)) p front HC (param_new_ok _ _ Hd) eq_refl) as HA.
  destruct (add_param s (length (w_store w)) p front) as [s'|e]; [|exact HW]. cbn [fst].
  destruct HA as (_ & Hp & HC').
  change (mkWorld (w_store w ++ [p]) (w_map w) (set_nth (w_sets w) n s'))
    with (put_set w (St n) (w_store w ++ [p]) s').
  apply WorldOk_split. split; [|exact HMx]. rewrite E2. cbn [put_set w_store]. rewrite E1 in HS.
  assert (Hfresh : ~ In (length (w_store w)) (ps_params s)).
  { intro X0. pose proof (Consistent_lt _ _ _ _ HC X0). lia. }
  apply (sets_update (w_store w) (w_store w ++ [p]) X s s' Y HS).
  - intros l Hl _. apply nth_error_app1. assumption.
  - eauto.
  - rewrite Hp. pose proof (SetsOk_NoDup_set _ _ _ _ HS) as HN. destruct front.
    + constructor; assumption.
    + apply NoDup_snoc; assumption.
  - intros l Hl. rewrite Hp in Hl. destruct front.
    + destruct Hl as [<-|Hl]; [right; lia | left; assumption].
    + apply in_app_iff in Hl. destruct Hl as [Hl|[<-|[]]]; [left; assumption | right; lia].
Qed.

Lemma mapM_get_sets w : forall rs srcs,
  mapM (get_set w) rs = Ok srcs -> Forall (fun s => In s (all_sets w)) srcs.
Proof.
  induction rs as [|r rs IH]; intros srcs H.
  - cbn in H. inversion H. constructor.
  - apply mapM_cons_Ok in H. destruct H as (s & srcs' & Hs & Hr & ->). constructor; [|auto].
    destruct (get_set_split w r s Hs) as (X & Y & E & _). rewrite E. apply in_elt.
Qed.

Lemma Forall_exists_Forall2 st srcs :
  Forall (fun s => exists ps, Consistent st s ps) srcs -> exists pss, Forall2 (Consistent st) srcs pss.
Proof.
  induction 1 as [|s srcs (ps & Hps) _ (pss & IH)]; [exists []; constructor|].
  exists (ps :: pss). constructor; assumption.
Qed.

Lemma step_union_ok w rs : WorldOk w -> WorldOk (fst (step w (OUnion rs))).
Proof.
  intros HW. cbn [step]. destruct (mapM (get_set w) rs) as [srcs|e] eqn:Hm; [|exact HW].
  pose proof HW as HW'. apply WorldOk_split in HW'. destruct HW' as (HS & HMx).
  assert (HF : Forall (fun s => exists ps, Consistent (w_store w) s ps) srcs).
  { pose proof (mapM_get_sets w rs srcs Hm) as H. rewrite Forall_forall in *. intros s Hs.
    eapply SetsOk_In; eauto. }
  destruct (Forall_exists_Forall2 _ _ HF) as (pss & HF2).
  assert (HR : Forall2 (readable (w_store w)) srcs pss).
  { clear - HF2. induction HF2; constructor; auto using Consistent_readable. }
  pose proof (union_ok (w_store w) srcs pss HR) as HU.
  destruct srcs as [|x srcs']; [rewrite HU; exact HW|].
  destruct HU as (new & s' & E & Hp & HC' & _).
  { inversion HF2 as [|? px ? ? Hx _]; subst. cbn. destruct Hx as (_ & HN & _). exact HN. }
  rewrite E. cbn [fst]. apply WorldOk_split. split; [|exact HMx].
  unfold all_sets in *. cbn [w_store w_map w_sets]. rewrite app_comm_cons. apply sets_append_fresh; eauto.
Qed.

Lemma map_param_inv m l p models al m' :
  map_param m l p models al = Ok m' ->
  exists g entry,
    add_param (mp_gps m) l p false = Ok g
    /\ length entry = length (mp_names m)
    /\ m' = mkMapper (mp_src m) g (map (fun re : list (option Z) * option Z => fst re ++ [snd re]) (combine (mp_names m) entry)).
Proof.
  unfold map_param.
  destruct (Nat.eqb (length match models with Some ms => ms | None => arange (length (mp_src m)) end) 0); [discriminate|].
  destruct (dup_check _ _ _); cbn [bind]; [|discriminate].
  destruct (where_entry _ _) as [entry|]; cbn [bind]; [|discriminate].
  destruct (Nat.eqb (length (mp_names m)) (length entry)) eqn:E; cbn [bind]; [|discriminate].
  destruct (add_param (mp_gps m) l p false) as [g|]; cbn [bind]; [|discriminate].
  intros H; inversion H; subst. apply Nat.eqb_eq in E. exists g, entry. auto.
Qed.

Lemma step_map_ok w d models al : WorldOk w -> WorldOk (fst (step w (OMap d models al))).
Proof.
  intros HW. cbn [step]. destruct (param_new d) as [p|e] eqn:Hd; [|exact HW].
  destruct (map_param (w_map w) (length (w_store w)) p models al) as [m'|e] eqn:Hm; [|exact HW].
  cbn [fst]. destruct (map_param_inv _ _ _ _ _ _ Hm) as (g & entry & Hadd & Hlen & ->).
  pose proof HW as HW'. apply WorldOk_split in HW'. destruct HW' as (HS & (HM1 & HM2)).
  unfold all_sets in HS.
  assert (Hin : In (mp_gps (w_map w)) (mp_gps (w_map w) :: w_sets w)) by (left; reflexivity).
  destruct (SetsOk_In _ _ _ HS Hin) as (ps & HC).
  pose proof (add_param_ok (w_store w) _ ps (length (w_store w)) p false HC (param_new_ok _ _ Hd) eq_refl) as HA.
  rewrite Hadd in HA. destruct HA as (_ & Hp & HC').
  assert (Hfresh : ~ In (length (w_store w)) (ps_params (mp_gps (w_map w)))).
  { intro X0. pose proof (Consistent_lt _ _ _ _ HC X0). lia. }
  apply WorldOk_split. split.
  - unfold all_sets. cbn [w_store w_map w_sets mp_gps].
    apply (sets_update (w_store w) (w_store w ++ [p]) [] (mp_gps (w_map w)) g (w_sets w) HS).
    + intros l Hl _. apply nth_error_app1. assumption.
    + eauto.
    + rewrite Hp. apply NoDup_snoc; [|assumption]. apply (SetsOk_NoDup_set _ [] _ _ HS).
    + intros l Hl. rewrite Hp in Hl. apply in_app_iff in Hl. destruct Hl as [Hl|[<-|[]]]; [left; assumption | right; lia].
  - unfold matrix_ok. cbn [w_map mp_names mp_src mp_gps]. split.
    + rewrite map_length, combine_length, Hlen, Nat.min_id. exact HM1.
    + rewrite Forall_forall in *. intros row Hrow. apply in_map_iff in Hrow.
      destruct Hrow as ([r0 e0] & <- & Hre). apply in_combine_l in Hre. cbn [fst snd].
      rewrite app_length, (HM2 r0 Hre), Hp, app_length. reflexivity.
Qed.

Theorem step_ok w o : WorldOk w -> WorldOk (fst (step w o)).
Proof.
  destruct o.
  - apply step_newset_ok.
  - apply step_add_ok.
  - apply step_map_ok.
  - apply step_fix_ok.
  - apply step_float_ok.
  - apply step_union_ok.
  - apply step_copy_ok.
  - apply step_setvalue_ok.
Qed.

Lemma init_ok src : WorldOk (init src).
Proof.
  apply WorldOk_split. split.
  - split; [constructor; [exists []; apply Consistent_empty | constructor] | cbn; constructor].
  - unfold matrix_ok, init, new_mapper. cbn. split; [apply map_length|].
    apply Forall_forall. intros row Hrow. apply in_map_iff in Hrow. destruct Hrow as (? & <- & _). reflexivity.
Qed.

Theorem run_ok : forall ops w, WorldOk w -> WorldOk (run w ops).
Proof.
  unfold run. induction ops as [|o ops IH]; intros w HW; [exact HW|]. cbn [fold_left]. apply IH. apply step_ok. exact HW.
Qed.

Theorem reachable_ok src ops : WorldOk (run (init src) ops).
Proof. apply run_ok, init_ok. Qed.

(* a rejected operation leaves the world as it was *)
Theorem step_rejected_unchanged w o e :
  WorldOk w -> snd (step w o) = Some e ->
  w_store (fst (step w o)) = w_store w /\ all_sets (fst (step w o)) = all_sets w
  /\ mp_names (w_map (fst (step w o))) = mp_names (w_map w).
Proof.
  intros HW. destruct o; cbn [step].
  - cbn. discriminate.
  - destruct (nth_error (w_sets w) n); [|cbn; auto]. destruct (param_new d); [|cbn; auto].
    destruct (add_param _ _ _ _); cbn; [discriminate | auto].
  - destruct (param_new d); [|cbn; auto]. destruct (map_param _ _ _ _ _); cbn; [discriminate | auto].
  - destruct (get_set w r) as [s|] eqn:Hg; [|cbn; auto].
    pose proof HW as HW'. apply WorldOk_split in HW'. destruct HW' as (HS & _).
    destruct (get_set_split w r s Hg) as (X & Y & E1 & _).
    assert (Hin : In s (all_sets w)) by (rewrite E1; apply in_elt).
    destruct (SetsOk_In _ _ _ HS Hin) as (ps & HC).
    assert (HND : NoDup (ps_params s)) by (rewrite E1 in HS; eapply SetsOk_NoDup_set; eauto).
    pose proof (make_params_fixed_ok (w_store w) s ps req HC HND) as H.
    destruct (make_params_fixed (w_store w) s req) as [[st' s'] [e'|]]; cbn [fst snd]; [|discriminate].
    destruct H as (_ & -> & -> & _). intros _. rewrite put_set_same by assumption.
    destruct r; cbn; auto.
  - destruct (get_set w r) as [s|] eqn:Hg; [|cbn; auto].
    pose proof HW as HW'. apply WorldOk_split in HW'. destruct HW' as (HS & _).
    destruct (get_set_split w r s Hg) as (X & Y & E1 & _).
    assert (Hin : In s (all_sets w)) by (rewrite E1; apply in_elt).
    destruct (SetsOk_In _ _ _ HS Hin) as (ps & HC).
    assert (HND : NoDup (ps_params s)) by (rewrite E1 in HS; eapply SetsOk_NoDup_set; eauto).
    pose proof (make_params_floating_ok (w_store w) s ps req HC HND) as H.
    destruct (make_params_floating (w_store w) s req) as [[st' s'] [e'|]]; cbn [fst snd]; [|discriminate].
    destruct H as (_ & -> & -> & _). intros _. rewrite put_set_same by assumption.
    destruct r; cbn; auto.
  - destruct (mapM (get_set w) rs); [|cbn; auto]. destruct (union _ _) as [[? ?]|]; cbn; [discriminate | auto].
  - destruct (get_set w r); [|cbn; auto]. destruct (copy_set _ _) as [[? ?]|]; cbn; [discriminate | auto].
  - destruct (get_set w r); [|cbn; auto]. destruct (py_get _ _); [|cbn; auto].
    destruct (rd _ _); [|cbn; auto]. destruct (set_value _ _); cbn; [discriminate | auto].
Qed.
