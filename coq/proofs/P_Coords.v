(* C19 proofs, part 1: angular_separation (metric identities) and the
   IceCube azimuth / right-ascension conversions, at the real-number instance. *)
From Coq Require Import Reals ZArith List Bool Lra Lia Psatz.
From Sky Require Import Num NumR G_coords M_Coords S_Coords P_Coords_Real P_Coords_K.
Import ListNotations.
Open Scope R_scope.

(* ---------------------------------------------------------------- unit vectors *)
Lemma sc1 x : sin x * sin x + cos x * cos x = 1.
Proof. generalize (sin2_cos2 x). unfold Rsqr. tauto. Qed.

Lemma dirv_unit ra dec : vdot (dirv ra dec) (dirv ra dec) = 1.
Proof.
  unfold vdot, dirv, c1, c2, c3. cbn [fst snd].
  replace (cos ra * cos dec * (cos ra * cos dec) + sin ra * cos dec * (sin ra * cos dec) + sin dec * sin dec)
    with ((sin ra * sin ra + cos ra * cos ra) * (cos dec * cos dec) + sin dec * sin dec) by ring.
  rewrite sc1, Rmult_1_l. generalize (sc1 dec). lra.
Qed.

Lemma vdot_comm a b : vdot a b = vdot b a.
Proof. unfold vdot. ring. Qed.

Lemma vdot_unit_bound a b : vdot a a = 1 -> vdot b b = 1 -> -1 <= vdot a b <= 1.
Proof.
  destruct a as [[a1 a2] a3], b as [[b1 b2] b3]. unfold vdot, c1, c2, c3. cbn [fst snd].
  apply unit_dot_bound.
Qed.

Lemma dirv_dot_bound ra1 d1 ra2 d2 : -1 <= vdot (dirv ra1 d1) (dirv ra2 d2) <= 1.
Proof. apply vdot_unit_bound; apply dirv_unit. Qed.

Lemma dirv_period ra dec (k : Z) : dirv (ra + 2 * IZR k * PI) dec = dirv ra dec.
Proof. unfold dirv. rewrite cos_period_Z, sin_period_Z. reflexivity. Qed.


Section P.
  Variable e : R -> R.
  Notation N := (RNum e).

  (* ---------------------------------------------------------------- plumbing *)
  Lemma sum3_R (f : ax -> R) : sum3 N f = f AX + f AY + f AZ.
  Proof. unfold sum3, nsum. cbn [fold_left]. num_R. ring. Qed.

  Lemma uvec_R ra dec : uvec N ra dec = dirv ra dec.
  Proof. unfold uvec, dirv. rewrite K_rot_v1x, K_rot_v1y, K_rot_v1z. reflexivity. Qed.

  Lemma dot_R (a b : V3) : dot N a b = vdot a b.
  Proof.
    unfold dot. rewrite sum3_R. destruct a as [[a1 a2] a3], b as [[b1 b2] b3].
    unfold vdot, vget, vx, vy, vz, c1, c2, c3. cbn [fst snd]. num_R. reflexivity.
  Qed.

  (* ---------------------------------------------------------------- angular_separation *)
  Lemma sep_clip_id x : 0 <= x <= 1 -> sep_clip N x = x.
  Proof.
    intros H. unfold sep_clip. rewrite K_sep_clip_lo_mask.
    destruct (Rltb x 0) eqn:E1.
    - apply Rltb_true in E1. lra.
    - rewrite K_sep_clip_hi_mask. destruct (Rltb 1 x) eqn:E2; [apply Rltb_true in E2; lra | reflexivity].
  Qed.

  Lemma sep_clip_range x : 0 <= sep_clip N x <= 1.
  Proof.
    unfold sep_clip. rewrite K_sep_clip_lo_mask, K_sep_clip_lo_val, K_sep_clip_hi_val.
    destruct (Rltb x 0) eqn:E1.
    - rewrite K_sep_clip_hi_mask. destruct (Rltb 1 0) eqn:E2; lra.
    - apply Rltb_false in E1. rewrite K_sep_clip_hi_mask.
      destruct (Rltb 1 x) eqn:E2; [lra | apply Rltb_false in E2; lra].
  Qed.

  (* the haversine argument is (1 - u1.u2)/2 for all real inputs *)
  Lemma sep_hav_R ra1 d1 ra2 d2 :
    sep_hav N ra1 d1 ra2 d2 = (1 - vdot (dirv ra1 d1) (dirv ra2 d2)) / 2.
  Proof.
    unfold sep_hav. rewrite K_sep_x, K_sep_delta_dec, K_sep_delta_ra, !sin_half_abs_sq, !cos_minus.
    unfold vdot, dirv, c1, c2, c3. cbn [fst snd]. field.
  Qed.

  Lemma sep_hav_range ra1 d1 ra2 d2 : 0 <= sep_hav N ra1 d1 ra2 d2 <= 1.
  Proof. rewrite sep_hav_R. generalize (dirv_dot_bound ra1 d1 ra2 d2). lra. Qed.

  (* half-angle identity: the haversine value is the angle between the unit vectors *)
  Lemma angsep_angle ra1 d1 ra2 d2 :
    angsep N ra1 d1 ra2 d2 None = angle (dirv ra1 d1) (dirv ra2 d2).
  Proof.
    unfold angsep, angle. rewrite K_sep_psi.
    rewrite sep_clip_id by apply sep_hav_range.
    rewrite hav_angle_acos by apply sep_hav_range.
    rewrite sep_hav_R. f_equal. field.
  Qed.

  Lemma angsep_floor ra1 d1 ra2 d2 f :
    angsep N ra1 d1 ra2 d2 (Some f) = Rmax (angsep N ra1 d1 ra2 d2 None) f.
  Proof.
    unfold angsep. rewrite K_sep_floor.
    set (p := sep_psi N _). unfold Rmax.
    destruct (Rltb p f) eqn:E.
    - apply Rltb_true in E. destruct (Rle_dec p f); [reflexivity | lra].
    - apply Rltb_false in E. destruct (Rle_dec p f); [lra | reflexivity].
  Qed.

  Lemma angsep_sym ra1 d1 ra2 d2 f : angsep N ra1 d1 ra2 d2 f = angsep N ra2 d2 ra1 d1 f.
  Proof.
    assert (E : angsep N ra1 d1 ra2 d2 None = angsep N ra2 d2 ra1 d1 None).
    { rewrite !angsep_angle. unfold angle. rewrite vdot_comm. reflexivity. }
    destruct f as [f|]; [rewrite !angsep_floor, E; reflexivity | exact E].
  Qed.

  Lemma angsep_self ra dec : angsep N ra dec ra dec None = 0.
  Proof. rewrite angsep_angle. unfold angle. rewrite dirv_unit. apply acos_1. Qed.

  Lemma angsep_range ra1 d1 ra2 d2 : 0 <= angsep N ra1 d1 ra2 d2 None <= PI.
  Proof. rewrite angsep_angle. apply acos_bound. Qed.

  Lemma angsep_cos ra1 d1 ra2 d2 :
    cos (angsep N ra1 d1 ra2 d2 None) = vdot (dirv ra1 d1) (dirv ra2 d2).
  Proof. rewrite angsep_angle. unfold angle. apply cos_acos. apply dirv_dot_bound. Qed.

  Lemma angsep_zero_iff ra1 d1 ra2 d2 :
    angsep N ra1 d1 ra2 d2 None = 0 <-> dirv ra1 d1 = dirv ra2 d2.
  Proof.
    split; intros H.
    - assert (D : vdot (dirv ra1 d1) (dirv ra2 d2) = 1) by (rewrite <- angsep_cos, H; apply cos_0).
      generalize (dirv_unit ra1 d1) (dirv_unit ra2 d2) D.
      destruct (dirv ra1 d1) as [[a1 a2] a3], (dirv ra2 d2) as [[b1 b2] b3].
      unfold vdot, c1, c2, c3. cbn [fst snd]. intros Ha Hb Hd.
      destruct (unit_dot_one _ _ _ _ _ _ Ha Hb Hd) as (X & Y & Z). subst. reflexivity.
    - rewrite angsep_angle, H. unfold angle. rewrite dirv_unit. apply acos_1.
  Qed.

  Lemma angsep_period1 ra1 d1 ra2 d2 f (k : Z) :
    angsep N (ra1 + 2 * IZR k * PI) d1 ra2 d2 f = angsep N ra1 d1 ra2 d2 f.
  Proof.
    assert (E : angsep N (ra1 + 2 * IZR k * PI) d1 ra2 d2 None = angsep N ra1 d1 ra2 d2 None).
    { rewrite !angsep_angle, dirv_period. reflexivity. }
    destruct f as [f|]; [rewrite !angsep_floor, E; reflexivity | exact E].
  Qed.

  Lemma angsep_period2 ra1 d1 ra2 d2 f (k : Z) :
    angsep N ra1 d1 (ra2 + 2 * IZR k * PI) d2 f = angsep N ra1 d1 ra2 d2 f.
  Proof. rewrite angsep_sym, angsep_period1. apply angsep_sym. Qed.

  (* two directions with the same unit vectors have the same separations *)
  Lemma angsep_of_dot ra1 d1 ra2 d2 ra3 d3 ra4 d4 :
    vdot (dirv ra1 d1) (dirv ra2 d2) = vdot (dirv ra3 d3) (dirv ra4 d4) ->
    angsep N ra1 d1 ra2 d2 None = angsep N ra3 d3 ra4 d4 None.
  Proof. intros H. rewrite !angsep_angle. unfold angle. rewrite H. reflexivity. Qed.

  (* the anchored callers *)
  Lemma signalpdf_psi_R sra sdec ra dec :
    signalpdf_psi N sra sdec ra dec = angle (dirv sra sdec) (dirv ra dec).
  Proof. unfold signalpdf_psi. rewrite K_call_signalpdf_psi. apply angsep_angle. Qed.

  Lemma tdm_psi_R ra dec sra sdec f :
    tdm_psi N ra dec sra sdec f =
    match f with None => angle (dirv sra sdec) (dirv ra dec)
            | Some fl => Rmax (angle (dirv sra sdec) (dirv ra dec)) fl end.
  Proof.
    unfold tdm_psi. rewrite K_call_tdm_psi, angsep_sym.
    destruct f as [f|]; [rewrite angsep_floor|]; rewrite angsep_angle; reflexivity.
  Qed.

  (* ---------------------------------------------------------------- azi <-> ra *)
  Definition lst_angle (mjd : R) : R :=
    50839800501 / 20000000000 + 2 * PI * Rfmod (mjd / (498634783 / 500000000)) 1.

  Lemma azi2ra_R azi mjd : azi2ra N azi mjd = Rfmod (lst_angle mjd - azi) (2 * PI).
  Proof.
    unfold azi2ra. rewrite K_a2r_ra2, K_a2r_ra1, K_a2r_ra0, K_a2r_resid, K_a2r_offset, K_a2r_length.
    rewrite Rfmod_idem by apply twoPI_pos. reflexivity.
  Qed.

  Lemma azi2ra_range azi mjd : 0 <= azi2ra N azi mjd < 2 * PI.
  Proof. rewrite azi2ra_R. apply Rfmod_bound. apply twoPI_pos. Qed.

  Lemma azi2ra_twice azi mjd : azi2ra N (azi2ra N azi mjd) mjd = Rfmod azi (2 * PI).
  Proof.
    rewrite !azi2ra_R.
    set (L := lst_angle mjd).
    set (k := Int_part ((L - azi) / (2 * PI))).
    assert (D : L - azi = Rfmod (L - azi) (2 * PI) + 2 * PI * IZR k) by apply Rfmod_decomp.
    replace (L - Rfmod (L - azi) (2 * PI)) with (azi + 2 * PI * IZR k) by lra.
    apply Rfmod_shift. apply twoPI_pos.
  Qed.

  Lemma azi2ra_involution azi mjd : 0 <= azi < 2 * PI -> azi2ra N (azi2ra N azi mjd) mjd = azi.
  Proof. intros H. rewrite azi2ra_twice. apply Rfmod_small. exact H. Qed.

  Lemma ra2azi_R ra mjd : ra2azi N ra mjd = azi2ra N ra mjd.
  Proof. unfold ra2azi. apply K_r2a_azi. Qed.

  Lemma azi_ra_roundtrips azi mjd :
    0 <= azi < 2 * PI ->
    azi2ra N (azi2ra N azi mjd) mjd = azi
    /\ ra2azi N (azi2ra N azi mjd) mjd = azi
    /\ azi2ra N (ra2azi N azi mjd) mjd = azi.
  Proof.
    intros H. rewrite (ra2azi_R (azi2ra N azi mjd) mjd), (ra2azi_R azi mjd).
    repeat split; exact (azi2ra_involution azi mjd H).
  Qed.

  Lemma ra2azi_range ra mjd : 0 <= ra2azi N ra mjd < 2 * PI.
  Proof. rewrite (ra2azi_R ra mjd). apply azi2ra_range. Qed.

  Lemma hor2equ_R azi zen mjd : hor2equ N azi zen mjd = (azi2ra N azi mjd, PI - zen).
  Proof. unfold hor2equ. rewrite K_h2e_ra, K_h2e_dec. reflexivity. Qed.

  (* the declination returned by hor_to_equ_transform leaves the canonical range:
     witness = the input of tests/i3/test_coords.py (azi = zen = 0.5, mjd = 58457) *)
  Lemma hor2equ_dec_refuted :
    exists azi zen mjd, 0 <= azi < 2 * PI /\ 0 <= zen <= PI
      /\ ~ (- (PI / 2) <= snd (hor2equ N azi zen mjd) <= PI / 2).
  Proof.
    exists (1 / 2), (1 / 2), 58457. rewrite hor2equ_R. cbn [snd].
    generalize PI2_1. intros H. repeat split; try lra.
  Qed.

  (* the exact image of [0, 2pi) x [0, pi] at a fixed time is [0, 2pi) x [0, pi] *)
  Lemma hor2equ_image mjd :
    (forall azi zen, 0 <= azi < 2 * PI -> 0 <= zen <= PI ->
       0 <= fst (hor2equ N azi zen mjd) < 2 * PI /\ 0 <= snd (hor2equ N azi zen mjd) <= PI)
    /\ (forall ra dec, 0 <= ra < 2 * PI -> 0 <= dec <= PI ->
       exists azi zen, 0 <= azi < 2 * PI /\ 0 <= zen <= PI /\ hor2equ N azi zen mjd = (ra, dec)).
  Proof.
    split.
    - intros azi zen Ha Hz. rewrite hor2equ_R. cbn [fst snd]. split; [apply azi2ra_range | lra].
    - intros ra dec Hr Hd. exists (azi2ra N ra mjd), (PI - dec).
      split; [apply azi2ra_range|]. split; [lra|].
      rewrite hor2equ_R, (azi2ra_involution ra mjd Hr). f_equal. ring.
  Qed.

  Lemma hor2equ_partial azi zen mjd :
    0 <= fst (hor2equ N azi zen mjd) < 2 * PI
    /\ (0 <= zen <= PI -> 0 <= snd (hor2equ N azi zen mjd) <= PI)
    /\ (- (PI / 2) <= snd (hor2equ N azi zen mjd) <= PI / 2 <-> PI / 2 <= zen <= 3 * PI / 2).
  Proof.
    rewrite hor2equ_R. cbn [fst snd]. split; [apply azi2ra_range|].
    split; [intros; lra|]. split; intros; lra.
  Qed.
End P.
